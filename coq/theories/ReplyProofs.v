(* Proofs about reply rendering (Reply.v), the strict recogniser
   (ReplySpec.v) and the client's reply parsing (ClientReply.v):
   C04 well-formedness ([render_wf], [render_ec_class], [defaulting_ok]) and
   the C17 round trip. *)
From Smtp Require Import Bytes GoStrings Reply ClientReply ReplySpec.
From Coq Require Import DecimalN DecimalPos.
Local Open Scope char_scope.

(* ================= octet-level helpers ================= *)

Lemma mem_byte_app c a b : mem_byte c (a ++ b) = mem_byte c a || mem_byte c b.
Proof.
  induction a as [|x a IH]; cbn [mem_byte app]; [reflexivity|].
  rewrite IH. apply orb_assoc.
Qed.

Lemma forallb_not_mem (P : ascii -> bool) c s :
  forallb P s = true -> P c = false -> mem_byte c s = false.
Proof.
  intros HP Hc. induction s as [|x s IH]; cbn [mem_byte]; [reflexivity|].
  cbn [forallb] in HP. apply andb_true_iff in HP as [Hx Hs].
  rewrite (IH Hs), orb_false_r.
  destruct (Ascii.eqb c x) eqn:E; [|reflexivity].
  apply Ascii.eqb_eq in E. subst. congruence.
Qed.

Lemma forallb_impl (P Q : ascii -> bool) s :
  (forall c, P c = true -> Q c = true) -> forallb P s = true -> forallb Q s = true.
Proof.
  intros H. induction s as [|x s IH]; cbn [forallb]; [reflexivity|].
  intros HP. apply andb_true_iff in HP as [Hx Hs].
  rewrite (H _ Hx), (IH Hs). reflexivity.
Qed.

Lemma mem_false_forallb c s :
  mem_byte c s = false -> forallb (fun x => negb (Ascii.eqb c x)) s = true.
Proof.
  induction s as [|x s IH]; cbn [mem_byte forallb]; [reflexivity|].
  intros H. apply orb_false_iff in H as [H1 H2]. rewrite H1, (IH H2). reflexivity.
Qed.

(* ---- cut_byte / split_byte / join ---- *)

Lemma cut_byte_app c a s :
  mem_byte c a = false -> cut_byte c (a ++ c :: s) = Some (a, s).
Proof.
  induction a as [|x a IH]; cbn [mem_byte app cut_byte]; intros H.
  - rewrite Ascii.eqb_refl. reflexivity.
  - apply orb_false_iff in H as [H1 H2]. rewrite H1, (IH H2). reflexivity.
Qed.

Lemma cut_byte_none c a : mem_byte c a = false -> cut_byte c a = None.
Proof.
  induction a as [|x a IH]; cbn [mem_byte cut_byte]; intros H; [reflexivity|].
  apply orb_false_iff in H as [H1 H2]. rewrite H1, (IH H2). reflexivity.
Qed.

Lemma split_byte_single c a : mem_byte c a = false -> split_byte c a = [a].
Proof.
  induction a as [|x a IH]; cbn [mem_byte split_byte]; intros H; [reflexivity|].
  apply orb_false_iff in H as [H1 H2]. rewrite (IH H2), H1. reflexivity.
Qed.

Lemma split_byte_nonempty c s : split_byte c s <> [].
Proof.
  destruct s as [|x s]; cbn [split_byte]; [discriminate|].
  destruct (split_byte c s); [discriminate|].
  destruct (Ascii.eqb c x); discriminate.
Qed.

Lemma split_byte_app c a s :
  mem_byte c a = false -> split_byte c (a ++ c :: s) = a :: split_byte c s.
Proof.
  induction a as [|x a IH]; cbn [mem_byte app]; intros H.
  - cbn [split_byte]. rewrite Ascii.eqb_refl.
    destruct (split_byte c s) eqn:E; [exfalso; exact (split_byte_nonempty c s E)|reflexivity].
  - apply orb_false_iff in H as [H1 H2]. cbn [split_byte]. rewrite (IH H2), H1. reflexivity.
Qed.

Lemma split_byte_no_sep c s : Forall (fun l => mem_byte c l = false) (split_byte c s).
Proof.
  induction s as [|x s IH]; cbn [split_byte].
  - constructor; [reflexivity|constructor].
  - destruct (split_byte c s) as [|h r] eqn:E; [exfalso; exact (split_byte_nonempty c s E)|].
    inversion IH as [|h' r' Hh Hr]; subst.
    destruct (Ascii.eqb c x) eqn:Ex.
    + constructor; [reflexivity|]. constructor; assumption.
    + constructor; [|assumption]. cbn [mem_byte]. rewrite Ex, Hh. reflexivity.
Qed.

Lemma join_cons2 sep x y r : join sep (x :: y :: r) = x ++ sep ++ join sep (y :: r).
Proof. reflexivity. Qed.

Lemma join_split_byte c s : join [c] (split_byte c s) = s.
Proof.
  induction s as [|x s IH]; cbn [split_byte]; [reflexivity|].
  destruct (split_byte c s) as [|h r] eqn:E; [exfalso; exact (split_byte_nonempty c s E)|].
  destruct (Ascii.eqb c x) eqn:Ex.
  - apply Ascii.eqb_eq in Ex. subst x. rewrite join_cons2. cbn [app]. rewrite IH. reflexivity.
  - destruct r as [|h' r'].
    + cbn [join] in *. rewrite IH. reflexivity.
    + rewrite join_cons2 in *. cbn [app] in *. rewrite IH. reflexivity.
Qed.

Lemma split_byte_forall (P : ascii -> bool) c s :
  forallb (fun x => P x || Ascii.eqb x c) s = true ->
  Forall (fun l => forallb P l = true) (split_byte c s).
Proof.
  induction s as [|x s IH]; cbn [split_byte forallb]; intros H.
  - constructor; [reflexivity|constructor].
  - apply andb_true_iff in H as [Hx Hs]. specialize (IH Hs).
    destruct (split_byte c s) as [|h r] eqn:E; [exfalso; exact (split_byte_nonempty c s E)|].
    inversion IH as [|h' r' Hh Hr]; subst.
    destruct (Ascii.eqb c x) eqn:Ex.
    + constructor; [reflexivity|]. constructor; assumption.
    + constructor; [|assumption]. cbn [forallb]. rewrite Hh, andb_true_r.
      apply orb_true_iff in Hx as [Hx|Hx]; [assumption|].
      rewrite Ascii.eqb_sym in Hx. congruence.
Qed.

(* ================= decimal rendering ================= *)

Definition dfold (acc : N) (s : bytes) : N :=
  fold_left (fun acc c => acc * 10 + digit_val c)%N s acc.

Lemma dfold_acc u acc :
  dfold (Npos acc) (uint_to_bytes u) = Npos (Pos.of_uint_acc u acc).
Proof.
  revert acc. induction u as [|u IH|u IH|u IH|u IH|u IH|u IH|u IH|u IH|u IH|u IH]; intros acc;
    cbn [uint_to_bytes Pos.of_uint_acc]; [reflexivity| | | | | | | | | |];
    unfold dfold in *; cbn [fold_left];
    match goal with
    | |- fold_left _ _ (?a * 10 + digit_val ?c)%N = _ =>
        let v := eval vm_compute in (digit_val c) in change (digit_val c) with v
    end;
    match goal with
    | |- fold_left _ _ ?x = N.pos (Pos.of_uint_acc _ ?p) =>
        replace x with (N.pos p) by lia
    end; apply IH.
Qed.

Lemma dfold_uint u : dfold 0 (uint_to_bytes u) = N.of_uint u.
Proof.
  unfold N.of_uint.
  induction u as [|u IH|u IH|u IH|u IH|u IH|u IH|u IH|u IH|u IH|u IH];
    cbn [uint_to_bytes Pos.of_uint]; [reflexivity| | | | | | | | | |].
  - exact IH.
  - exact (dfold_acc u 1).
  - exact (dfold_acc u 2).
  - exact (dfold_acc u 3).
  - exact (dfold_acc u 4).
  - exact (dfold_acc u 5).
  - exact (dfold_acc u 6).
  - exact (dfold_acc u 7).
  - exact (dfold_acc u 8).
  - exact (dfold_acc u 9).
Qed.

Lemma dec_value_dec_of_N n : dec_value (dec_of_N n) = n.
Proof.
  unfold dec_value, dec_of_N. change (fold_left _ ?s 0%N) with (dfold 0 s).
  rewrite dfold_uint. apply DecimalN.Unsigned.of_to.
Qed.

Lemma uint_digits u : forallb is_digit (uint_to_bytes u) = true.
Proof.
  induction u; cbn [uint_to_bytes forallb]; [reflexivity| | | | | | | | | |];
    rewrite IHu; reflexivity.
Qed.

Lemma dec_of_N_digits n : forallb is_digit (dec_of_N n) = true.
Proof. apply uint_digits. Qed.

Lemma dec_of_N_nonempty n : dec_of_N n <> [].
Proof.
  intros H. pose proof (dec_value_dec_of_N n) as Hv. rewrite H in Hv.
  cbn in Hv. subst n. discriminate.
Qed.

(* octets of a rendered integer / enhanced code *)
Definition zch (c : ascii) : bool := is_digit c || Ascii.eqb c "-".
Definition ecch (c : ascii) : bool := zch c || Ascii.eqb c ".".

Lemma dec_of_Z_zch z : forallb zch (dec_of_Z z) = true.
Proof.
  unfold dec_of_Z. destruct (z <? 0)%Z.
  - cbn [forallb]. apply andb_true_iff. split; [reflexivity|].
    eapply forallb_impl; [|apply dec_of_N_digits]. intros c Hc. unfold zch. rewrite Hc. reflexivity.
  - eapply forallb_impl; [|apply dec_of_N_digits]. intros c Hc. unfold zch. rewrite Hc. reflexivity.
Qed.

Lemma forallb_app' (P : ascii -> bool) a b :
  forallb P (a ++ b) = forallb P a && forallb P b.
Proof. apply forallb_app. Qed.

Lemma ec_text_ecch ec : forallb ecch (ec_text ec) = true.
Proof.
  destruct ec as [[a b] c]. unfold ec_text.
  assert (Hz : forall z, forallb ecch (dec_of_Z z) = true).
  { intros z. eapply forallb_impl; [|apply dec_of_Z_zch]. intros x Hx. unfold ecch. rewrite Hx. reflexivity. }
  rewrite forallb_app'. cbn [forallb]. rewrite forallb_app'. cbn [forallb].
  rewrite !Hz. reflexivity.
Qed.

Lemma zch_not c x : zch c = false -> mem_byte c (dec_of_Z x) = false.
Proof. intros H. eapply forallb_not_mem; [apply dec_of_Z_zch|exact H]. Qed.

Lemma ecch_not c ec : ecch c = false -> mem_byte c (ec_text ec) = false.
Proof. intros H. eapply forallb_not_mem; [apply ec_text_ecch|exact H]. Qed.

Lemma ecch_text c : ecch c = true -> text_octet c = true.
Proof.
  destruct c as [[] [] [] [] [] [] [] []]; vm_compute; congruence.
Qed.

Lemma is_digit_not_sign c : is_digit c = true -> Ascii.eqb c "-" = false /\ Ascii.eqb c "+" = false.
Proof.
  destruct c as [[] [] [] [] [] [] [] []]; vm_compute; intros H; split; congruence.
Qed.

(* ---- strconv.Atoi reads back what fmt printed ---- *)

Definition int_ok (z : Z) : Prop := (int_min <= z <= int_max)%Z.

Lemma atoi_digits d :
  d <> [] -> forallb is_digit d = true -> (Z.of_N (dec_value d) <= int_max)%Z ->
  atoi d = Some (Z.of_N (dec_value d)).
Proof.
  intros Hne Hd Hmax. destruct d as [|c t]; [congruence|].
  unfold atoi.
  pose proof Hd as Hd'. cbn [forallb] in Hd'. apply andb_true_iff in Hd' as [Hc _].
  destruct (is_digit_not_sign c Hc) as [H1 H2]. rewrite H1, H2, Hd.
  assert (Hlo : (int_min <= Z.of_N (dec_value (c :: t)))%Z) by (unfold int_min; lia).
  apply Z.leb_le in Hlo. apply Z.leb_le in Hmax. rewrite Hlo, Hmax. reflexivity.
Qed.

Lemma atoi_dec_of_Z z : int_ok z -> atoi (dec_of_Z z) = Some z.
Proof.
  intros [Hlo Hhi]. unfold dec_of_Z. destruct (z <? 0)%Z eqn:Hneg.
  - apply Z.ltb_lt in Hneg. unfold atoi.
    change (Ascii.eqb "-" "-") with true. cbv iota beta.
    destruct (dec_of_N (Z.to_N (- z))) as [|c t] eqn:E; [exfalso; exact (dec_of_N_nonempty _ E)|].
    rewrite <- E, dec_of_N_digits, dec_value_dec_of_N.
    rewrite Z2N.id by lia. rewrite Z.opp_involutive.
    apply Z.leb_le in Hlo. apply Z.leb_le in Hhi. rewrite Hlo, Hhi. reflexivity.
  - apply Z.ltb_ge in Hneg.
    rewrite atoi_digits.
    + rewrite dec_value_dec_of_N, Z2N.id by lia. reflexivity.
    + apply dec_of_N_nonempty.
    + apply dec_of_N_digits.
    + rewrite dec_value_dec_of_N, Z2N.id by lia. exact Hhi.
Qed.

(* ---- three-digit reply codes: by enumeration ---- *)

Definition code3_ok (code : Z) : bool :=
  match dec_of_Z code with
  | [a; b; c] =>
      is_digit a && is_digit b && is_digit c &&
      bytes_eqb (dec_of_Z (code / 100)) [a]
  | _ => false
  end.

Lemma code3_table : forallb (fun n => code3_ok (Z.of_nat n)) (seq 100 900) = true.
Proof. vm_compute. reflexivity. Qed.

Lemma code3 code : (100 <= code <= 999)%Z -> code3_ok code = true.
Proof.
  intros H. pose proof code3_table as T. rewrite forallb_forall in T.
  specialize (T (Z.to_nat code)). rewrite Z2Nat.id in T by lia. apply T.
  apply in_seq. lia.
Qed.

Lemma code3_shape code :
  (100 <= code <= 999)%Z ->
  exists a b c, dec_of_Z code = [a; b; c] /\ is_digit a = true /\ is_digit b = true /\
                is_digit c = true /\ dec_of_Z (code / 100) = [a].
Proof.
  intros H. pose proof (code3 code H) as K. unfold code3_ok in K.
  destruct (dec_of_Z code) as [|a [|b [|c [|d r]]]]; try discriminate.
  apply andb_true_iff in K as [K K4]. apply andb_true_iff in K as [K K3].
  apply andb_true_iff in K as [K1 K2]. apply bytes_eqb_eq in K4.
  exists a, b, c. repeat split; assumption.
Qed.

Definition class_digit_ok (code : Z) : bool :=
  match dec_of_Z code with a :: _ => in_range 50 53 a | [] => false end.

Lemma class_digit_table : forallb (fun n => class_digit_ok (Z.of_nat n)) (seq 200 400) = true.
Proof. vm_compute. reflexivity. Qed.

Lemma class_digit code : (200 <= code <= 599)%Z -> class_digit_ok code = true.
Proof.
  intros H. pose proof class_digit_table as T. rewrite forallb_forall in T.
  specialize (T (Z.to_nat code)). rewrite Z2Nat.id in T by lia. apply T.
  apply in_seq. lia.
Qed.

(* ================= the lines writeResponse prints ================= *)

(* what precedes the text on each line *)
Definition ec_pre (ec : ecode) : bytes :=
  if ec_eqb ec no_ec then [] else ec_text ec ++ [" "].

Definition rline (code : Z) (ec : ecode) (sep : ascii) (t : bytes) : bytes :=
  dec_of_Z code ++ sep :: ec_pre ec ++ t.

Lemma reply_lines_one code ec t : reply_lines code ec [t] = [rline code ec " " t].
Proof.
  unfold rline, ec_pre. cbn [reply_lines]. destruct (ec_eqb ec no_ec); [reflexivity|].
  rewrite <- app_assoc. reflexivity.
Qed.

Lemma reply_lines_cons code ec t t' r :
  reply_lines code ec (t :: t' :: r) = rline code ec "-" t :: reply_lines code ec (t' :: r).
Proof.
  unfold rline, ec_pre. cbn [reply_lines]. destruct (ec_eqb ec no_ec); [reflexivity|].
  rewrite <- app_assoc. reflexivity.
Qed.

Lemma write_response_eq code ec texts :
  write_response code ec texts =
  flat_map (fun l => l ++ crlf)
    (reply_lines code (default_ec code ec) (split_byte LF (join [LF] texts))).
Proof. reflexivity. Qed.

Lemma ec_pre_ecch ec : forallb (fun c => ecch c || Ascii.eqb c " ") (ec_pre ec) = true.
Proof.
  unfold ec_pre. destruct (ec_eqb ec no_ec); [reflexivity|].
  rewrite forallb_app'. cbn [forallb]. rewrite andb_true_r.
  eapply forallb_impl; [|apply ec_text_ecch]. intros c Hc. rewrite Hc. reflexivity.
Qed.

Lemma ec_pre_not c ec : ecch c = false -> Ascii.eqb c " " = false -> mem_byte c (ec_pre ec) = false.
Proof.
  intros H1 H2. eapply forallb_not_mem; [apply ec_pre_ecch|]. cbv beta. rewrite H1, H2. reflexivity.
Qed.

Lemma rline_not c code ec sep t :
  ecch c = false -> Ascii.eqb c " " = false -> Ascii.eqb c sep = false ->
  mem_byte c t = false -> mem_byte c (rline code ec sep t) = false.
Proof.
  intros H1 H2 H3 H4. unfold rline. rewrite mem_byte_app. cbn [mem_byte].
  rewrite mem_byte_app, H3, H4, (ec_pre_not c ec H1 H2), zch_not; [reflexivity|].
  unfold ecch in H1. apply orb_false_iff in H1 as [H1 _]. exact H1.
Qed.

Lemma reply_lines_not c code ec ts :
  ecch c = false -> Ascii.eqb c " " = false -> Ascii.eqb c "-" = false ->
  Forall (fun t => mem_byte c t = false) ts ->
  Forall (fun l => mem_byte c l = false) (reply_lines code ec ts).
Proof.
  intros H1 H2 H3 Hts. induction Hts as [|t r Ht Hr IH]; [constructor|].
  destruct r as [|t' r'].
  - rewrite reply_lines_one. constructor; [|constructor]. apply rline_not; assumption.
  - rewrite reply_lines_cons. constructor; [|exact IH]. apply rline_not; assumption.
Qed.

(* ================= C04: well-formedness of rendered replies ================= *)

Lemma crlf_lines_app l s :
  mem_byte CR l = false -> mem_byte LF l = false ->
  crlf_lines (l ++ crlf ++ s) = option_map (cons l) (crlf_lines s).
Proof.
  induction l as [|x l IH]; cbn [mem_byte app]; intros H1 H2.
  - reflexivity.
  - apply orb_false_iff in H1 as [H1 H1']. apply orb_false_iff in H2 as [H2 H2'].
    cbn [crlf_lines]. rewrite (Ascii.eqb_sym x LF), H2, (Ascii.eqb_sym x CR), H1.
    rewrite (IH H1' H2'). destruct (crlf_lines s); reflexivity.
Qed.

Lemma crlf_lines_flat_map ls :
  Forall (fun l => mem_byte CR l = false) ls -> Forall (fun l => mem_byte LF l = false) ls ->
  crlf_lines (flat_map (fun l => l ++ crlf) ls) = Some ls.
Proof.
  induction ls as [|l ls IH]; intros H1 H2; [reflexivity|].
  inversion H1; inversion H2; subst. cbn [flat_map]. rewrite <- app_assoc.
  rewrite crlf_lines_app by assumption. rewrite IH by assumption. reflexivity.
Qed.

(* the no-CR/no-LF hypotheses on the lines of the texts *)
Definition lines_of (texts : list bytes) : list bytes := split_byte LF (join [LF] texts).

Lemma lines_of_no_lf texts : Forall (fun l => mem_byte LF l = false) (lines_of texts).
Proof. apply split_byte_no_sep. Qed.

Lemma mem_byte_join c sep ts :
  mem_byte c sep = false -> Forall (fun t => mem_byte c t = false) ts ->
  mem_byte c (join sep ts) = false.
Proof.
  intros Hs H. induction H as [|t r Ht Hr IH]; [reflexivity|].
  destruct r as [|t' r']; [exact Ht|].
  rewrite join_cons2, !mem_byte_app, Ht, Hs, IH. reflexivity.
Qed.

Lemma forallb_join (P : ascii -> bool) sep ts :
  forallb P sep = true -> Forall (fun t => forallb P t = true) ts ->
  forallb P (join sep ts) = true.
Proof.
  intros Hs H. induction H as [|t r Ht Hr IH]; [reflexivity|].
  destruct r as [|t' r']; [exact Ht|].
  rewrite join_cons2, forallb_app', forallb_app', Ht, Hs. exact IH.
Qed.

Lemma split_no_other c d s :
  mem_byte c s = false -> Forall (fun l => mem_byte c l = false) (split_byte d s).
Proof.
  intros H. apply mem_false_forallb in H.
  assert (K : forallb (fun x => negb (Ascii.eqb c x) || Ascii.eqb x d) s = true).
  { eapply forallb_impl; [|exact H]. intros x Hx. cbv beta in *. rewrite Hx. reflexivity. }
  apply split_byte_forall in K.
  eapply Forall_impl; [|exact K]. intros l Hl. cbv beta in *.
  eapply forallb_not_mem; [exact Hl|]. cbv beta. rewrite Ascii.eqb_refl. reflexivity.
Qed.

Lemma lines_of_no_cr texts :
  Forall (fun t => mem_byte CR t = false) texts ->
  Forall (fun l => mem_byte CR l = false) (lines_of texts).
Proof.
  intros H. apply split_no_other. apply mem_byte_join; [reflexivity|exact H].
Qed.

Definition printable_or_lf (c : ascii) : bool := text_octet c || Ascii.eqb c LF.

Lemma lines_of_printable texts :
  Forall (fun t => forallb printable_or_lf t = true) texts ->
  Forall (fun l => forallb text_octet l = true) (lines_of texts).
Proof.
  intros H. apply split_byte_forall. apply forallb_join; [reflexivity|exact H].
Qed.

Lemma text_octet_no_cr l : forallb text_octet l = true -> mem_byte CR l = false.
Proof. intros H. eapply forallb_not_mem; [exact H|reflexivity]. Qed.

Lemma line_ok_rline a b c code ec sep t :
  dec_of_Z code = [a; b; c] -> forallb text_octet t = true ->
  line_ok [a; b; c] sep (rline code ec sep t) = true.
Proof.
  intros Hc Ht. unfold rline. rewrite Hc. cbn [app]. unfold line_ok.
  rewrite bytes_eqb_refl, Ascii.eqb_refl, forallb_app', Ht. cbn [andb].
  rewrite andb_true_r. eapply forallb_impl; [|apply ec_pre_ecch].
  intros x Hx. cbv beta in Hx. apply orb_true_iff in Hx as [Hx|Hx].
  - apply ecch_text. exact Hx.
  - apply Ascii.eqb_eq in Hx. subst x. reflexivity.
Qed.

Lemma lines_wf_cons2 code l l' ls :
  lines_wf code (l :: l' :: ls) = line_ok code "-" l && lines_wf code (l' :: ls).
Proof. reflexivity. Qed.

Lemma reply_lines_head code ec t r :
  exists l ls, reply_lines code ec (t :: r) = l :: ls.
Proof.
  destruct r as [|t' r'].
  - rewrite reply_lines_one. eauto.
  - rewrite reply_lines_cons. eauto.
Qed.

Lemma lines_wf_reply_cons cd code ec (l t' : bytes) (r' : list bytes) :
  lines_wf cd (l :: reply_lines code ec (t' :: r')) =
  line_ok cd "-" l && lines_wf cd (reply_lines code ec (t' :: r')).
Proof.
  destruct (reply_lines_head code ec t' r') as (l' & ls & E). rewrite E. reflexivity.
Qed.

Lemma lines_wf_reply_lines a b c code ec ts :
  dec_of_Z code = [a; b; c] -> ts <> [] ->
  Forall (fun t => forallb text_octet t = true) ts ->
  lines_wf [a; b; c] (reply_lines code ec ts) = true.
Proof.
  intros Hc Hne H. induction H as [|t r Ht Hr IH]; [congruence|].
  destruct r as [|t' r'].
  - rewrite reply_lines_one. cbn [lines_wf]. apply line_ok_rline; assumption.
  - rewrite reply_lines_cons.
    assert (IH' : lines_wf [a; b; c] (reply_lines code ec (t' :: r')) = true) by (apply IH; discriminate).
    rewrite lines_wf_reply_cons, line_ok_rline by assumption. exact IH'.
Qed.

Lemma reply_code_of_reply_lines a b c code ec ts :
  dec_of_Z code = [a; b; c] -> ts <> [] ->
  reply_code_of (reply_lines code ec ts) = [a; b; c].
Proof.
  intros Hc Hne. destruct ts as [|t [|t' r]]; [congruence| |].
  - rewrite reply_lines_one. unfold rline. rewrite Hc. reflexivity.
  - rewrite reply_lines_cons. unfold rline. rewrite Hc. reflexivity.
Qed.

(* C04 (well-formedness): every reply writeResponse prints for a code in
   200..599, ANY enhanced code and any list of texts over HT / 0x20-0x7E / LF
   (LF separates lines; the list may even be empty) is exactly one RFC 5321
   reply for the strict recogniser. *)
Theorem render_wf code ec texts :
  (200 <= code <= 599)%Z ->
  Forall (fun t => forallb printable_or_lf t = true) texts ->
  reply_wf (write_response code ec texts) = true.
Proof.
  intros Hcode Ht.
  destruct (code3_shape code ltac:(lia)) as (a & b & c & Hc & Da & Db & Dc & _).
  pose proof (lines_of_printable texts Ht) as Hp.
  assert (Hne : lines_of texts <> []) by apply split_byte_nonempty.
  rewrite write_response_eq. fold (lines_of texts). unfold reply_wf.
  rewrite crlf_lines_flat_map.
  - rewrite (reply_code_of_reply_lines a b c) by assumption.
    rewrite (lines_wf_reply_lines a b c) by assumption.
    pose proof (class_digit code Hcode) as K. unfold class_digit_ok in K. rewrite Hc in K.
    unfold code_ok. rewrite K, Db, Dc. reflexivity.
  - apply reply_lines_not; try reflexivity.
    eapply Forall_impl; [|exact Hp]. intros l Hl. apply text_octet_no_cr. exact Hl.
  - apply reply_lines_not; try reflexivity. apply lines_of_no_lf.
Qed.

Example render_wf_ex :
  Forall (fun t => forallb printable_or_lf t = true) [bs "first"; bs "second" ++ LF :: bs "third"]
  /\ write_response 250 ec_not_set [bs "first"; bs "second" ++ LF :: bs "third"]
     = bs "250-2.0.0 first" ++ crlf ++ bs "250-2.0.0 second" ++ crlf ++ bs "250 2.0.0 third" ++ crlf.
Proof. split; [repeat constructor|vm_compute; reflexivity]. Qed.

(* ---- enhanced code class ---- *)

Lemma digits_then_ok stop d seen r :
  forallb is_digit d = true -> (d <> [] \/ seen = true) -> is_digit stop = false ->
  digits_then stop seen (d ++ stop :: r) = Some r.
Proof.
  intros Hd. revert seen. induction d as [|x d IH]; intros seen Hs Hstop.
  - destruct Hs as [Hs|Hs]; [congruence|]. subst seen. cbn [app digits_then].
    rewrite Hstop, Ascii.eqb_refl. reflexivity.
  - cbn [forallb] in Hd. apply andb_true_iff in Hd as [Hx Hd].
    cbn [app digits_then]. rewrite Hx. apply IH; [exact Hd|right; reflexivity|exact Hstop].
Qed.

Lemma dec_of_Z_nonneg z : (0 <= z)%Z -> dec_of_Z z = dec_of_N (Z.to_N z).
Proof. intros H. unfold dec_of_Z. destruct (z <? 0)%Z eqn:E; [apply Z.ltb_lt in E; lia|reflexivity]. Qed.

Definition ec_class_is (code : Z) (ec : ecode) : Prop :=
  let '(a, b, c) := ec in a = (code / 100)%Z /\ (0 <= b)%Z /\ (0 <= c)%Z.

Lemma line_ec_ok_rline code a b c sep t :
  (100 <= code <= 999)%Z -> (0 <= b)%Z -> (0 <= c)%Z -> a = (code / 100)%Z ->
  line_ec_ok (rline code (a, b, c) sep t) = true.
Proof.
  intros Hcode Hb Hc Ha.
  destruct (code3_shape code Hcode) as (x & y & z & Hd & _ & _ & _ & Hcls).
  assert (Hne : ec_eqb (a, b, c) no_ec = false).
  { unfold ec_eqb, no_ec. destruct (b =? -1)%Z eqn:E; [apply Z.eqb_eq in E; lia|].
    rewrite andb_false_r. reflexivity. }
  unfold rline, ec_pre. rewrite Hne, Hd. cbn [app line_ec_ok].
  unfold ec_text. subst a. rewrite Hcls. cbn [app]. unfold starts_with_ec.
  rewrite !Ascii.eqb_refl. cbn [andb].
  rewrite !dec_of_Z_nonneg by assumption.
  rewrite <- !app_assoc. cbn [app].
  rewrite digits_then_ok; [|apply dec_of_N_digits|left; apply dec_of_N_nonempty|reflexivity].
  rewrite digits_then_ok; [reflexivity|apply dec_of_N_digits|left; apply dec_of_N_nonempty|reflexivity].
Qed.

(* C04 (class): when the enhanced code that is sent (after defaulting) has the
   class of the reply code and non-negative subject/detail, every line of the
   reply starts with it.  Texts must not contain CR (else the reply is not a
   sequence of CRLF lines at all). *)
Theorem render_ec_class code ec texts :
  (200 <= code <= 599)%Z ->
  ec_class_is code (default_ec code ec) ->
  Forall (fun t => mem_byte CR t = false) texts ->
  reply_ec_class_ok (write_response code ec texts) = true.
Proof.
  intros Hcode Hcls Ht.
  rewrite write_response_eq. fold (lines_of texts). unfold reply_ec_class_ok.
  rewrite crlf_lines_flat_map.
  - destruct (default_ec code ec) as [[a b] c]. destruct Hcls as (Ha & Hb & Hc).
    assert (Hne : lines_of texts <> []) by apply split_byte_nonempty.
    assert (K : forallb line_ec_ok (reply_lines code (a, b, c) (lines_of texts)) = true).
    { induction (lines_of texts) as [|t r IH]; [congruence|].
      destruct r as [|t' r'].
      - rewrite reply_lines_one. cbn [forallb]. rewrite line_ec_ok_rline by (assumption || lia). reflexivity.
      - rewrite reply_lines_cons. cbn [forallb]. rewrite line_ec_ok_rline by (assumption || lia).
        apply IH. discriminate. }
    destruct (reply_lines code (a, b, c) (lines_of texts)) as [|l ls] eqn:E.
    + destruct (lines_of texts) as [|t [|t' r]]; [congruence| |].
      * rewrite reply_lines_one in E. discriminate.
      * rewrite reply_lines_cons in E. discriminate.
    + exact K.
  - apply reply_lines_not; try reflexivity. apply lines_of_no_cr. exact Ht.
  - apply reply_lines_not; try reflexivity. apply lines_of_no_lf.
Qed.

(* EnhancedCodeNotSet becomes X.0.0 of the code's class for 2xx/4xx/5xx, and
   that default satisfies the hypothesis of [render_ec_class] *)
Theorem defaulting_ok code :
  (200 <= code <= 299 \/ 400 <= code <= 599)%Z ->
  default_ec code ec_not_set = (code / 100, 0, 0)%Z /\
  ec_class_is code (default_ec code ec_not_set).
Proof.
  intros H. unfold default_ec. change (ec_eqb ec_not_set ec_not_set) with true. cbv iota.
  assert (K : (code / 100 = 2 \/ code / 100 = 4 \/ code / 100 = 5)%Z).
  { destruct H as [H|H].
    - left. symmetry. apply Z.div_unique with (r := (code - 200)%Z); lia.
    - destruct (Z_lt_ge_dec code 500).
      + right; left. symmetry. apply Z.div_unique with (r := (code - 400)%Z); lia.
      + right; right. symmetry. apply Z.div_unique with (r := (code - 500)%Z); lia. }
  destruct K as [K|[K|K]]; rewrite K; cbn; repeat split; lia.
Qed.

Example render_ec_class_ex :
  ec_class_is 550 (default_ec 550 (5, 1, 1)%Z) /\ ec_class_is 451 (default_ec 451 ec_not_set)
  /\ reply_ec_class_ok (write_response 550 (5, 1, 1)%Z [bs "a" ++ LF :: bs "b"]) = true.
Proof. split; [|split]; vm_compute; repeat split; congruence. Qed.

(* ================= C17: the client reads back what the server rendered ================= *)

(* ---- textproto ReadLine on a CRLF-terminated line ---- *)

Lemma strip_cr_snoc l : strip_cr (l ++ [CR]) = l.
Proof.
  induction l as [|x l IH]; [reflexivity|].
  cbn [app strip_cr]. destruct (l ++ [CR]) as [|y r] eqn:E; [destruct l; discriminate|].
  rewrite IH. reflexivity.
Qed.

Lemma read_line_crlf l r :
  mem_byte LF l = false -> read_line (l ++ crlf ++ r) = Some (l, r).
Proof.
  intros H. replace (l ++ crlf ++ r) with ((l ++ [CR]) ++ LF :: r)
    by (rewrite <- app_assoc; reflexivity).
  unfold read_line.
  destruct ((l ++ [CR]) ++ LF :: r) as [|c s] eqn:E.
  - apply app_eq_nil in E as [_ E]. discriminate.
  - rewrite <- E. rewrite cut_byte_app.
    + rewrite strip_cr_snoc. reflexivity.
    + rewrite mem_byte_app, H. reflexivity.
Qed.

(* ---- parseCodeLine on a line that starts with a printed code ---- *)

Lemma int_ok_code code : (100 <= code <= 999)%Z -> int_ok code.
Proof. unfold int_ok, int_min, int_max. lia. Qed.

Lemma parse_code_line_code code sep m expect :
  (100 <= code <= 999)%Z -> sep = " " \/ sep = "-" ->
  parse_code_line (dec_of_Z code ++ sep :: m) expect =
  (code, Ascii.eqb sep "-", m, if expect_mismatch expect code then TPError code m else TPNone).
Proof.
  intros Hcode Hsep.
  destruct (code3_shape code Hcode) as (a & b & c & Hd & _).
  assert (Ha : atoi [a; b; c] = Some code).
  { rewrite <- Hd. apply atoi_dec_of_Z. apply int_ok_code. exact Hcode. }
  rewrite Hd. cbn [app]. unfold parse_code_line. rewrite Ha.
  assert (Hlt : (code <? 100)%Z = false) by (apply Z.ltb_ge; lia). rewrite Hlt.
  destruct Hsep as [-> | ->]; reflexivity.
Qed.

Lemma expect_mismatch_0 code : expect_mismatch 0 code = false.
Proof. reflexivity. Qed.

(* ---- the continuation loop over the remaining rendered lines ---- *)

Lemma rline_no_lf code ec sep t :
  sep = " " \/ sep = "-" -> mem_byte LF t = false -> mem_byte LF (rline code ec sep t) = false.
Proof. intros [-> | ->] H; apply rline_not; try reflexivity; exact H. Qed.

Lemma read_more_lines code ec rest :
  (100 <= code <= 999)%Z ->
  forall r, r <> [] -> Forall (fun t => mem_byte LF t = false) r ->
  forall fuel message, (List.length r <= fuel)%nat ->
  read_more fuel code message
    (flat_map (fun l => l ++ crlf) (reply_lines code ec r) ++ rest)
  = Some (message ++ List.concat (map (cons LF) (map (app (ec_pre ec)) r)), rest).
Proof.
  intros Hcode r Hne H. induction H as [|t r Ht Hr IH]; [congruence|].
  intros fuel message Hfuel. destruct fuel as [|f]; [cbn [List.length] in Hfuel; lia|].
  destruct r as [|t' r'].
  - rewrite reply_lines_one. cbn [flat_map]. rewrite app_nil_r, <- app_assoc.
    cbn [read_more]. rewrite read_line_crlf by (apply rline_no_lf; [left; reflexivity|exact Ht]).
    unfold rline at 1. rewrite parse_code_line_code by (assumption || (left; reflexivity)).
    rewrite expect_mismatch_0. cbn [tp_is_err orb]. rewrite Z.eqb_refl. cbn [negb].
    change (Ascii.eqb " " "-") with false. cbv iota.
    cbn [map List.concat]. rewrite app_nil_r. reflexivity.
  - rewrite reply_lines_cons. cbn [flat_map]. rewrite <- !app_assoc.
    cbn [read_more]. rewrite read_line_crlf by (apply rline_no_lf; [right; reflexivity|exact Ht]).
    unfold rline at 1. rewrite parse_code_line_code by (assumption || (right; reflexivity)).
    rewrite expect_mismatch_0. cbn [tp_is_err orb]. rewrite Z.eqb_refl. cbn [negb].
    change (Ascii.eqb "-" "-") with true. cbv iota.
    rewrite IH; [|discriminate|cbn [List.length] in *; lia].
    cbn [map List.concat]. rewrite <- !app_assoc. reflexivity.
Qed.

Lemma reply_lines_length code ec ts : List.length (reply_lines code ec ts) = List.length ts.
Proof.
  induction ts as [|t r IH]; [reflexivity|]. destruct r as [|t' r'].
  - rewrite reply_lines_one. reflexivity.
  - rewrite reply_lines_cons. cbn [List.length]. rewrite IH. reflexivity.
Qed.

Lemma flat_map_crlf_length (ls : list bytes) :
  (List.length ls <= List.length (flat_map (fun l => l ++ crlf) ls))%nat.
Proof.
  induction ls as [|l ls IH]; [reflexivity|].
  cbn [flat_map]. rewrite !app_length. cbn [List.length crlf]. lia.
Qed.

(* the message textproto assembles: the lines' texts (with the enhanced code
   still in front of each), joined by LF *)
Definition wire_msg (ec : ecode) (lines : list bytes) : bytes :=
  join [LF] (map (app (ec_pre ec)) lines).

Lemma join_concat (x : bytes) l : join [LF] (x :: l) = x ++ List.concat (map (cons LF) l).
Proof.
  revert x. induction l as [|y l IH]; intros x.
  - cbn [join map List.concat]. rewrite app_nil_r. reflexivity.
  - rewrite join_cons2, IH. reflexivity.
Qed.

Lemma nonempty_app_cons (a : bytes) c b :
  match a ++ c :: b with [] => true | _ :: _ => false end = false.
Proof. destruct a; reflexivity. Qed.

Lemma read_response_rendered code ec lines expect rest :
  (100 <= code <= 999)%Z -> lines <> [] ->
  Forall (fun t => mem_byte LF t = false) lines ->
  read_response expect (flat_map (fun l => l ++ crlf) (reply_lines code ec lines) ++ rest)
  = ((code, wire_msg ec lines,
      if expect_mismatch expect code then TPError code (wire_msg ec lines) else TPNone), rest).
Proof.
  intros Hcode Hne H. destruct lines as [|t [|t' r]]; [congruence| |].
  - inversion H as [|? ? Ht _]; subst.
    rewrite reply_lines_one. cbn [flat_map]. rewrite app_nil_r, <- app_assoc.
    unfold read_response.
    rewrite read_line_crlf by (apply rline_no_lf; [left; reflexivity|exact Ht]).
    unfold rline. rewrite parse_code_line_code by (assumption || (left; reflexivity)).
    change (Ascii.eqb " " "-") with false. cbv iota. reflexivity.
  - inversion H as [|? ? Ht Hr]; subst.
    rewrite reply_lines_cons. cbn [flat_map]. rewrite <- !app_assoc.
    unfold read_response.
    rewrite read_line_crlf by (apply rline_no_lf; [right; reflexivity|exact Ht]).
    unfold rline at 1. rewrite parse_code_line_code by (assumption || (right; reflexivity)).
    change (Ascii.eqb "-" "-") with true. cbv iota.
    rewrite read_more_lines; [|assumption|discriminate|assumption|].
    + unfold wire_msg. cbn [map]. rewrite join_concat.
      cbn [map List.concat app]. rewrite nonempty_app_cons.
      destruct (expect_mismatch expect code); reflexivity.
    + pose proof (flat_map_crlf_length (reply_lines code ec (t' :: r))) as L.
      rewrite reply_lines_length in L. rewrite app_length. lia.
Qed.

(* ---- toSMTPErr on the assembled message ---- *)

Lemma is_prefix_app p s : is_prefix p (p ++ s) = true.
Proof.
  induction p as [|x p IH]; [reflexivity|]. cbn [app is_prefix].
  rewrite Ascii.eqb_refl, IH. reflexivity.
Qed.

Lemma replace_skip pat rep l s :
  replace_all_f pat rep (List.length l) (l ++ s) = replace_all_f pat rep O s.
Proof.
  induction l as [|x l IH]; [reflexivity|]. cbn [List.length app replace_all_f]. exact IH.
Qed.

Lemma replace_at_match c p rep s :
  replace_all_f (c :: p) rep O ((c :: p) ++ s) = rep ++ replace_all_f (c :: p) rep O s.
Proof.
  cbn [app]. cbn [replace_all_f].
  change (c :: p ++ s) with ((c :: p) ++ s). rewrite is_prefix_app.
  cbn [List.length Nat.pred]. rewrite replace_skip. reflexivity.
Qed.

Lemma replace_no_lf p rep t s :
  mem_byte LF t = false ->
  replace_all_f (LF :: p) rep O (t ++ s) = t ++ replace_all_f (LF :: p) rep O s.
Proof.
  induction t as [|x t IH]; cbn [mem_byte app]; intros H; [reflexivity|].
  apply orb_false_iff in H as [H1 H2].
  cbn [replace_all_f is_prefix]. rewrite H1. cbn [andb]. rewrite (IH H2). reflexivity.
Qed.

Lemma replace_nil pat rep : replace_all_f pat rep O [] = [].
Proof. reflexivity. Qed.

(* stripping the repeated enhanced code gives back the lines *)
Lemma replace_lines pre r :
  Forall (fun t => mem_byte LF t = false) r ->
  forall t0, mem_byte LF t0 = false ->
  replace_all (LF :: pre) [LF] (t0 ++ List.concat (map (cons LF) (map (app pre) r)))
  = t0 ++ List.concat (map (cons LF) r).
Proof.
  unfold replace_all. intros H. induction H as [|t1 r Ht1 Hr IH]; intros t0 Ht0.
  - cbn [map List.concat]. rewrite replace_no_lf by exact Ht0. reflexivity.
  - cbn [map List.concat]. rewrite replace_no_lf by exact Ht0.
    change (LF :: pre ++ t1) with ((LF :: pre) ++ t1). rewrite <- app_assoc.
    rewrite replace_at_match. rewrite (IH t1 Ht1). reflexivity.
Qed.

Definition ec_int (ec : ecode) : Prop :=
  let '(a, b, c) := ec in int_ok a /\ int_ok b /\ int_ok c.

Lemma parse_enhanced_code_text ec : ec_int ec -> parse_enhanced_code (ec_text ec) = (ec, true).
Proof.
  destruct ec as [[a b] c]. intros (Ha & Hb & Hc).
  unfold parse_enhanced_code, ec_text.
  rewrite split_byte_app by (apply zch_not; reflexivity).
  rewrite split_byte_app by (apply zch_not; reflexivity).
  rewrite split_byte_single by (apply zch_not; reflexivity).
  rewrite !atoi_dec_of_Z by assumption. reflexivity.
Qed.

Lemma to_smtp_err_wire code ec lines :
  ec_eqb ec no_ec = false -> ec_int ec -> lines <> [] ->
  Forall (fun t => mem_byte LF t = false) lines ->
  to_smtp_err code (wire_msg ec lines) = (code, ec, join [LF] lines).
Proof.
  intros Hne Hint Hl H. destruct lines as [|t0 r]; [congruence|].
  inversion H as [|? ? Ht0 Hr]; subst.
  unfold wire_msg. cbn [map]. rewrite !join_concat.
  unfold ec_pre. rewrite Hne. rewrite <- !app_assoc. cbn [app].
  unfold to_smtp_err. rewrite cut_byte_app by (apply ecch_not; reflexivity).
  rewrite parse_enhanced_code_text by exact Hint.
  change (ec_text ec ++ [" "]) with (ec_text ec ++ [" "]).
  rewrite (replace_lines (ec_text ec ++ [" "]) r Hr t0 Ht0). reflexivity.
Qed.

Lemma wire_msg_no_ec lines : wire_msg no_ec lines = join [LF] lines.
Proof.
  unfold wire_msg, ec_pre. change (ec_eqb no_ec no_ec) with true. cbv iota.
  rewrite (map_ext _ (fun x => x)) by reflexivity. rewrite map_id. reflexivity.
Qed.

(* ---- the composed statements ---- *)

Lemma write_response_single code ec msg :
  write_response code ec [msg] =
  flat_map (fun l => l ++ crlf) (reply_lines code (default_ec code ec) (split_byte LF msg)).
Proof. reflexivity. Qed.

Lemma ec_eqb_eq a b : ec_eqb a b = true -> a = b.
Proof.
  destruct a as [[a1 a2] a3], b as [[b1 b2] b3]. unfold ec_eqb. intros H.
  apply andb_true_iff in H as [H H3]. apply andb_true_iff in H as [H1 H2].
  apply Z.eqb_eq in H1, H2, H3. subst. reflexivity.
Qed.

(* what Client.readResponse returns for one rendered reply followed by [rest]:
   the enhanced code that was sent is present *)
Theorem roundtrip_response code ec msg expect rest :
  (100 <= code <= 999)%Z ->
  ec_eqb (default_ec code ec) no_ec = false -> ec_int (default_ec code ec) ->
  client_read_response expect (write_response code ec [msg] ++ rest) =
  ((code, wire_msg (default_ec code ec) (split_byte LF msg),
    if expect_mismatch expect code then CSmtp code (default_ec code ec) msg else CNil), rest).
Proof.
  intros Hcode Hne Hint. rewrite write_response_single. unfold client_read_response.
  rewrite read_response_rendered;
    [|assumption|apply split_byte_nonempty|apply split_byte_no_sep].
  destruct (expect_mismatch expect code); [|reflexivity].
  cbn [cerr_of_tp].
  rewrite to_smtp_err_wire;
    [|assumption|assumption|apply split_byte_nonempty|apply split_byte_no_sep].
  rewrite join_split_byte. reflexivity.
Qed.

(* ... and when no enhanced code is sent (NoEnhancedCode, or unset with a code
   outside 2xx/4xx/5xx): the client sees the bare message and applies
   toSMTPErr to it *)
Theorem roundtrip_response_no_ec code ec msg expect rest :
  (100 <= code <= 999)%Z ->
  ec_eqb (default_ec code ec) no_ec = true ->
  client_read_response expect (write_response code ec [msg] ++ rest) =
  ((code, msg,
    if expect_mismatch expect code
    then let '(c, e, m) := to_smtp_err code msg in CSmtp c e m else CNil), rest).
Proof.
  intros Hcode He. apply ec_eqb_eq in He.
  rewrite write_response_single, He. unfold client_read_response.
  rewrite read_response_rendered;
    [|assumption|apply split_byte_nonempty|apply split_byte_no_sep].
  rewrite wire_msg_no_ec, join_split_byte.
  destruct (expect_mismatch expect code); reflexivity.
Qed.

(* ---- domain lemmas ---- *)

Lemma class_of_4xx5xx code : (400 <= code <= 599)%Z -> (code / 100 = 4 \/ code / 100 = 5)%Z.
Proof.
  intros H. destruct (Z_lt_ge_dec code 500).
  - left. symmetry. apply Z.div_unique with (r := (code - 400)%Z); lia.
  - right. symmetry. apply Z.div_unique with (r := (code - 500)%Z); lia.
Qed.

Lemma default_ec_present code ec :
  (400 <= code <= 599)%Z -> ec_eqb ec no_ec = false ->
  ec_eqb (default_ec code ec) no_ec = false.
Proof.
  intros Hc Hne. unfold default_ec. destruct (ec_eqb ec ec_not_set); [|exact Hne].
  destruct (class_of_4xx5xx code Hc) as [K|K]; rewrite K; reflexivity.
Qed.

Lemma default_ec_int code ec :
  (400 <= code <= 599)%Z -> ec_int ec -> ec_int (default_ec code ec).
Proof.
  intros Hc Hi. unfold default_ec. destruct (ec_eqb ec ec_not_set); [|exact Hi].
  destruct (class_of_4xx5xx code Hc) as [K|K]; rewrite K; cbn;
    unfold int_ok, int_min, int_max; lia.
Qed.

(* every expectCode the client passes for a command whose success reply is
   2xx or 3xx (250, 354, 220, 221, 235, 25, 2, ...) rejects a 4xx/5xx reply *)
Lemma expect_mismatch_4xx5xx expect code :
  (400 <= code <= 599)%Z ->
  (1 <= expect < 4 \/ 10 <= expect < 40 \/ 100 <= expect < 400)%Z ->
  expect_mismatch expect code = true.
Proof.
  intros Hc He. unfold expect_mismatch.
  assert (H100 : (4 <= code / 100)%Z) by (apply Z.div_le_lower_bound; lia).
  assert (H10 : (40 <= code / 10)%Z) by (apply Z.div_le_lower_bound; lia).
  destruct He as [He|[He|He]].
  - replace (1 <=? expect)%Z with true by (symmetry; apply Z.leb_le; lia).
    replace (expect <? 10)%Z with true by (symmetry; apply Z.ltb_lt; lia).
    replace (code / 100 =? expect)%Z with false by (symmetry; apply Z.eqb_neq; lia).
    reflexivity.
  - replace (1 <=? expect)%Z with true by (symmetry; apply Z.leb_le; lia).
    replace (expect <? 10)%Z with false by (symmetry; apply Z.ltb_ge; lia).
    replace (10 <=? expect)%Z with true by (symmetry; apply Z.leb_le; lia).
    replace (expect <? 100)%Z with true by (symmetry; apply Z.ltb_lt; lia).
    replace (code / 10 =? expect)%Z with false by (symmetry; apply Z.eqb_neq; lia).
    reflexivity.
  - replace (1 <=? expect)%Z with true by (symmetry; apply Z.leb_le; lia).
    replace (expect <? 10)%Z with false by (symmetry; apply Z.ltb_ge; lia).
    replace (10 <=? expect)%Z with true by (symmetry; apply Z.leb_le; lia).
    replace (expect <? 100)%Z with false by (symmetry; apply Z.ltb_ge; lia).
    replace (100 <=? expect)%Z with true by (symmetry; apply Z.leb_le; lia).
    replace (expect <? 1000)%Z with true by (symmetry; apply Z.ltb_lt; lia).
    replace (code =? expect)%Z with false by (symmetry; apply Z.eqb_neq; lia).
    reflexivity.
Qed.

(* ================= C17: the statements per call site ================= *)

(* the reply octets for a backend error e:
   NewSession / Mail / Rcpt: writeError(451, {4,0,0}, e)  (conn.go:250, 443, 751);
   Data: writeResponse(dataErrorToStatus(e))               (conn.go:951, 1074, 1098) *)
Definition envelope_reply (e : berr) : bytes := write_error 451 (4, 0, 0)%Z e.
Definition data_reply (e : berr) : bytes :=
  let '(c, ec, m) := data_error_to_status e in write_response c ec [m].

(* C17, SMTPError.  For EVERY message text (any octets: empty, leading /
   trailing spaces, lines that look like an enhanced code or like a reply
   line, non-ASCII, CR, any number of LF-separated lines), every reply code
   400..599, every enhanced code other than NoEnhancedCode (unset, or any
   three ints - class consistency and non-negativity are not needed), every
   expectCode that does not accept the code, and whatever follows on the
   stream: the client returns the reply's code and
   SMTPError{code, default_ec code ec, msg}, having consumed exactly the
   reply.  Same for the reply written on the Data path. *)
Theorem C17_roundtrip code ec msg expect rest :
  (400 <= code <= 599)%Z ->
  ec_eqb ec no_ec = false -> ec_int ec ->
  expect_mismatch expect code = true ->
  client_read_response expect (envelope_reply (BSmtp code ec msg) ++ rest)
  = ((code, wire_msg (default_ec code ec) (split_byte LF msg),
      CSmtp code (default_ec code ec) msg), rest)
  /\
  client_read_response expect (data_reply (BSmtp code ec msg) ++ rest)
  = ((code, wire_msg (default_ec code ec) (split_byte LF msg),
      CSmtp code (default_ec code ec) msg), rest).
Proof.
  intros Hc Hne Hi Hm.
  assert (R := roundtrip_response code ec msg expect rest ltac:(lia)
                 (default_ec_present code ec Hc Hne) (default_ec_int code ec Hc Hi)).
  rewrite Hm in R. split; exact R.
Qed.

(* the same for any three-digit code when the enhanced code is set (writeError
   with other defaults, e.g. AUTH's 454 4.7.0, renders an SMTPError the same
   way: the defaults are ignored) *)
Theorem C17_roundtrip_any_code dcode dec code ec msg expect rest :
  (100 <= code <= 999)%Z ->
  ec_eqb (default_ec code ec) no_ec = false -> ec_int (default_ec code ec) ->
  expect_mismatch expect code = true ->
  client_read_response expect (write_error dcode dec (BSmtp code ec msg) ++ rest)
  = ((code, wire_msg (default_ec code ec) (split_byte LF msg),
      CSmtp code (default_ec code ec) msg), rest).
Proof.
  intros Hc Hne Hi Hm.
  assert (R := roundtrip_response code ec msg expect rest Hc Hne Hi).
  rewrite Hm in R. exact R.
Qed.

(* when expectCode accepts the code - in particular expectCode = 0, which
   textproto never rejects (the client uses it for AUTH only and inspects the
   code itself) - readResponse returns no error: the caller gets the code and
   the raw message, enhanced code still in front of every line *)
Theorem C17_no_error_when_expected code ec msg expect rest :
  (400 <= code <= 599)%Z ->
  ec_eqb ec no_ec = false -> ec_int ec ->
  expect_mismatch expect code = false ->
  client_read_response expect (envelope_reply (BSmtp code ec msg) ++ rest)
  = ((code, wire_msg (default_ec code ec) (split_byte LF msg), CNil), rest).
Proof.
  intros Hc Hne Hi Hm.
  assert (R := roundtrip_response code ec msg expect rest ltac:(lia)
                 (default_ec_present code ec Hc Hne) (default_ec_int code ec Hc Hi)).
  rewrite Hm in R. exact R.
Qed.

Corollary C17_expect_zero code ec msg rest :
  (400 <= code <= 599)%Z -> ec_eqb ec no_ec = false -> ec_int ec ->
  client_read_response 0 (envelope_reply (BSmtp code ec msg) ++ rest)
  = ((code, wire_msg (default_ec code ec) (split_byte LF msg), CNil), rest).
Proof. intros. apply C17_no_error_when_expected; try assumption. reflexivity. Qed.

(* C17, any other error: 451 4.0.0 + its text for session creation, MAIL and
   RCPT; 554 5.0.0 "Error: transaction failed: " + its text for DATA; and the
   client gets exactly that back *)
Theorem C17_generic m expect rest :
  envelope_reply (BPlain m) = write_response 451 (4, 0, 0)%Z [m] /\
  data_reply (BPlain m) =
    write_response 554 (5, 0, 0)%Z [bs "Error: transaction failed: " ++ m] /\
  (expect_mismatch expect 451 = true ->
   client_read_response expect (envelope_reply (BPlain m) ++ rest)
   = ((451%Z, wire_msg (4, 0, 0)%Z (split_byte LF m), CSmtp 451 (4, 0, 0)%Z m), rest)) /\
  (expect_mismatch expect 554 = true ->
   client_read_response expect (data_reply (BPlain m) ++ rest)
   = ((554%Z, wire_msg (5, 0, 0)%Z (split_byte LF (bs "Error: transaction failed: " ++ m)),
       CSmtp 554 (5, 0, 0)%Z (bs "Error: transaction failed: " ++ m)), rest)).
Proof.
  split; [reflexivity|]. split; [reflexivity|]. split; intros Hm.
  - assert (R := roundtrip_response 451 (4, 0, 0)%Z m expect rest ltac:(lia) eq_refl).
    rewrite Hm in R. apply R. cbn. unfold int_ok, int_min, int_max. lia.
  - assert (R := roundtrip_response 554 (5, 0, 0)%Z
                   (bs "Error: transaction failed: " ++ m) expect rest ltac:(lia) eq_refl).
    rewrite Hm in R. apply R. cbn. unfold int_ok, int_min, int_max. lia.
Qed.

(* C17, NoEnhancedCode (explicitly absent): the wire format has no place to
   say "absent", so equality is impossible in general; the exact image is
   toSMTPErr applied to the bare message: EnhancedCodeNotSet and the message
   unchanged, unless the message's first word parses as an enhanced code, in
   which case that look-alike is taken (and stripped from the start of every
   line that repeats it). *)
Theorem C17_no_enhanced_code_image code msg expect rest :
  (100 <= code <= 999)%Z ->
  expect_mismatch expect code = true ->
  client_read_response expect (envelope_reply (BSmtp code no_ec msg) ++ rest)
  = ((code, msg, let '(c, e, m) := to_smtp_err code msg in CSmtp c e m), rest)
  /\
  client_read_response expect (data_reply (BSmtp code no_ec msg) ++ rest)
  = ((code, msg, let '(c, e, m) := to_smtp_err code msg in CSmtp c e m), rest).
Proof.
  intros Hc Hm.
  assert (R := roundtrip_response_no_ec code no_ec msg expect rest Hc eq_refl).
  rewrite Hm in R. split; exact R.
Qed.

(* toSMTPErr on a message without SP, or whose first word is not an enhanced
   code, changes nothing *)
Lemma to_smtp_err_plain code msg :
  (match cut_byte " " msg with
   | None => True
   | Some (w, _) => snd (parse_enhanced_code w) = false
   end) ->
  to_smtp_err code msg = (code, ec_not_set, msg).
Proof.
  unfold to_smtp_err. destruct (cut_byte " " msg) as [[w r]|]; [|reflexivity].
  destruct (parse_enhanced_code w) as [e ok]. cbn [snd]. intros ->. reflexivity.
Qed.

(* so equality with the SMTPError the backend returned fails on the property's
   domain for NoEnhancedCode: always in the enhanced code (EnhancedCodeNotSet
   {0,0,0} comes back instead of {-1,-1,-1}), and also in the text when it
   looks like an enhanced code *)
Theorem C17_no_enhanced_code_refuted :
  client_read_response 250 (envelope_reply (BSmtp 550 no_ec (bs "mailbox unavailable")))
  = ((550%Z, bs "mailbox unavailable", CSmtp 550 ec_not_set (bs "mailbox unavailable")), [])
  /\
  client_read_response 250 (envelope_reply (BSmtp 550 no_ec (bs "5.1.1 x" ++ LF :: bs "5.1.1 y")))
  = ((550%Z, bs "5.1.1 x" ++ LF :: bs "5.1.1 y", CSmtp 550 (5, 1, 1)%Z (bs "x" ++ LF :: bs "y")), [])
  /\
  client_read_response 250 (envelope_reply (BSmtp 550 no_ec (bs "-1.-1.-1 z")))
  = ((550%Z, bs "-1.-1.-1 z", CSmtp 550 no_ec (bs "z")), []).
Proof. vm_compute. repeat split; reflexivity. Qed.

(* non-vacuity and the message shapes named by the property *)
Example C17_roundtrip_ex :
  let msg := bs " 5.1.1 looks like a code " ++ LF :: [] ++ LF :: bs "5.1.1 na" ++ [n_byte 195; n_byte 175] ++ bs "ve  " in
  ec_eqb (5, 1, 1)%Z no_ec = false /\ ec_int (5, 1, 1)%Z /\ expect_mismatch 250 550 = true /\
  envelope_reply (BSmtp 550 (5, 1, 1)%Z msg)
  = bs "550-5.1.1  5.1.1 looks like a code " ++ crlf ++ bs "550-5.1.1 " ++ crlf ++
    bs "550 5.1.1 5.1.1 na" ++ [n_byte 195; n_byte 175] ++ bs "ve  " ++ crlf /\
  client_read_response 250 (envelope_reply (BSmtp 550 (5, 1, 1)%Z msg) ++ bs "250 next")
  = ((550%Z, wire_msg (5, 1, 1)%Z (split_byte LF msg), CSmtp 550 (5, 1, 1)%Z msg), bs "250 next").
Proof.
  cbv zeta. split; [reflexivity|]. split; [cbn; unfold int_ok, int_min, int_max; lia|].
  split; [reflexivity|]. split; vm_compute; reflexivity.
Qed.

Example C17_unset_and_empty_ex :
  client_read_response 25 (data_reply (BSmtp 452 ec_not_set []) ++ bs "x")
  = ((452%Z, bs "4.0.0 ", CSmtp 452 (4, 0, 0)%Z []), bs "x")
  /\ data_reply (BSmtp 452 ec_not_set []) = bs "452 4.0.0 " ++ crlf.
Proof. split; vm_compute; reflexivity. Qed.

Example expect_mismatch_call_sites :
  forallb (fun e => expect_mismatch e 550 && expect_mismatch e 421)
          [250; 354; 25; 220; 221; 235; 334; 2; 3]%Z = true
  /\ expect_mismatch 0 550 = false /\ expect_mismatch 550 550 = false
  /\ expect_mismatch 5 550 = false /\ expect_mismatch 55 550 = false.
Proof. vm_compute. repeat split; reflexivity. Qed.
