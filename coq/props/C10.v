(* C10 (server half) - STARTTLS discards all plaintext state and input.

   For EVERY configuration, backend script, network schedule and fuel:
   C10_starttls_guarded: a STARTTLS handshake is attempted only in plaintext
   and only when TLS is configured.
   C10_logout_after_starttls: after a successful handshake a session that was
   live gets its Logout (not a Reset) before anything else is called on a
   session, before a new session is created, before the next command is read
   and before the connection is closed.
   C10_newsession_sees_tls (part of C03_order): the TLS flag shown to
   NewSession is the TLS state at that point - in particular [true] for every
   session created after a successful handshake.
   C10_state_erased: if the handshake succeeds (the model's [ETlsStart true]:
   the peer starts it exactly after the STARTTLS line, i.e. no raw plaintext
   is pending) the connection state afterwards is the initial one with TLS
   on: greeting name empty, no session, not authenticated, no sender, no
   recipients, no chunked transfer, and the transport is the TLS phase with an
   EMPTY buffer - plaintext octets buffered behind the STARTTLS line are
   dropped, never interpreted inside TLS.  (Un-fetched plaintext behind the
   command makes the handshake fail: [t_raw (c_t c) = []] is necessary.) *)
From Smtp Require Import Bytes Transport Reply Conn Order OrderStrict ConnProofs TraceProps ConnNoPanic
  TraceExamples.

Theorem C10_starttls_guarded : forall fuel cfg be phases,
  TraceProps.C10_starttls_guarded cfg (serve fuel cfg be phases).
Proof. exact serve_C10_starttls_guarded. Qed.
Print Assumptions C10_starttls_guarded.

Theorem C10_logout_after_starttls : forall fuel cfg be phases,
  TraceProps.C10_logout_after_starttls (serve fuel cfg be phases).
Proof. exact serve_C10_logout_after_starttls. Qed.
Print Assumptions C10_logout_after_starttls.

Theorem C10_newsession_sees_tls : forall fuel cfg be phases,
  TraceProps.C03_order cfg (serve fuel cfg be phases).
Proof. exact serve_C03_order. Qed.
Print Assumptions C10_newsession_sees_tls.

Theorem C10_state_erased : forall cfg c,
  In (ETlsStart true) (snd (handle_starttls cfg c)) ->
  exists ph phs,
    c_phases c = ph :: phs /\ t_raw (c_t c) = [] /\ c_tls c = false /\ cf_tls_config cfg = true
    /\ fst (handle_starttls cfg c)
       = mkC (mkT [] ph 0 (cf_max_line cfg) false) phs (c_be c) [] false (c_errs c) (c_binarymime c)
             false [] false (c_closed c) true None 0%Z.
Proof. exact starttls_state_erased. Qed.
Print Assumptions C10_state_erased.

(* non-vacuity: in ex1 an authenticated plaintext session with an accepted
   MAIL is upgraded; its Logout follows the handshake at once and the session
   created afterwards sees tls = true *)
Example C10_server_witness :
  map show_kind ex1_trace = ex1_shape /\
  nth 35 ex1_trace EPanic = ETlsStart true /\ live (firstn 35 ex1_trace) = true /\
  nth 36 ex1_trace EPanic = ELogout /\
  (exists h, nth 38 ex1_trace EPanic = ENewSession h true BNil).
Proof.
  split; [exact ex1_shape_ok|]. repeat split; try (vm_compute; reflexivity).
  eexists. vm_compute. reflexivity.
Qed.

(* ---------------- client half ---------------- *)
From Smtp Require Import Bytes Reply ClientReply Client ClientProofs.

Theorem C10_client_no_downgrade : forall c r c',
  quiet c -> c_init_starttls c = (r, c') ->
  exists ls, c_out c' = c_out c ++ lines ls /\ Forall (tls_line c) ls
    /\ (r <> RNil -> c_tls c' = c_tls c)
    /\ (r = RNil -> c_tls c' = true /\ c_did_hello c' = false).
Proof. exact ClientProofs.C10_client_no_downgrade. Qed.

Theorem C10_client_needs_offer_and_220 : forall c c',
  c_init_starttls c = (RNil, c') ->
  exists c1 c2 code msg,
    c_hello c = (RNil, c1)
    /\ has_ext (c_ext c1) (bs "STARTTLS") = true
    /\ c_cmd c1 220 (bs "STARTTLS") = ((code, msg, RNil), c2) /\ code = 220%Z
    /\ c' = switch_to_tls c2.
Proof. exact ClientProofs.C10_client_needs_offer_and_220. Qed.

Theorem C10_client_not_offered : forall c c1,
  c_hello c = (RNil, c1) -> has_ext (c_ext c1) (bs "STARTTLS") = false ->
  c_init_starttls c = (RLocal err_no_starttls, c1).
Proof. exact ClientProofs.C10_client_not_offered. Qed.

Theorem C10_client_plaintext_dropped : forall c x, switch_to_tls (set_in c x) = switch_to_tls c.
Proof. exact ClientProofs.switch_drops_plaintext. Qed.

Theorem C10_client_rehello : forall c c3,
  c_did_hello c = false -> c_did_greet c = true ->
  c_hello c = (RNil, c3) ->
  c_ext c3 = None
  \/ exists c1 code msg rest,
       printf_line (set_did_hello c true) (hello_verb c ++ c_local c) = (true, c1)
       /\ client_read_response 250 (c_in c) = ((code, msg, CNil), rest)
       /\ c_ext c3 = Some (parse_ext msg).
Proof. exact ClientProofs.C10_client_rehello. Qed.

Print Assumptions C10_client_no_downgrade.
Print Assumptions C10_client_needs_offer_and_220.
Print Assumptions C10_client_not_offered.
Print Assumptions C10_client_plaintext_dropped.
Print Assumptions C10_client_rehello.
