package harness

import (
	"fmt"
	"math/rand"
)

// GenLmtp covers the quantifier of property C13: small, complete LMTP
// conversations  LHLO / MAIL / RCPT... / DATA or BDAT ... LAST / QUIT  run
// against the real server, emitted as ordinary `conv` cases.
//
// Enumerated exhaustively: every recipient list of 1..4 entries over two
// addresses (all 30 sequences, i.e. every multiset in every order) x every
// sub-multiset and every order of SetStatus calls within the contract x return
// value {nil, error} x {DATA, BDAT}.  Sampled with the rng (exhaustive in the
// thorough tier where small): backend panic, calls beyond the contract (one
// call too many for an address, unknown address) at every position, plain
// backend (no LMTPSession), recipients rejected at RCPT, backends that stop
// reading early, BDAT in several chunks, segmentation of the client stream.

var lmtpAddrs = [2]string{"a@x", "b@y"}

var lmtpCounter int

// lmtpAddrSets: the two recipient addresses of a generated case; some pairs differ in letter case only
var lmtpAddrSets = [][2]string{{"a@x", "b@y"}, {"user@Example.org", "user@example.org"}, {"User@x", "user@x"}, {"a@x", "b@y"}}

// all sequences over {0,1} of length 1..max
func lmtpRcptSeqs(max int) [][]int {
	var res [][]int
	for n := 1; n <= max; n++ {
		for m := 0; m < 1<<uint(n); m++ {
			s := make([]int, n)
			for i := 0; i < n; i++ {
				s[i] = (m >> uint(i)) & 1
			}
			res = append(res, s)
		}
	}
	return res
}

// all arrangements of ka 0s and kb 1s
func lmtpOrders(ka, kb int) [][]int {
	if ka == 0 && kb == 0 {
		return [][]int{{}}
	}
	var res [][]int
	if ka > 0 {
		for _, r := range lmtpOrders(ka-1, kb) {
			res = append(res, append([]int{0}, r...))
		}
	}
	if kb > 0 {
		for _, r := range lmtpOrders(ka, kb-1) {
			res = append(res, append([]int{1}, r...))
		}
	}
	return res
}

// all call patterns (as address indices) within the contract for multiplicities ma, mb
func lmtpContractCalls(ma, mb int) [][]int {
	var res [][]int
	for ka := 0; ka <= ma; ka++ {
		for kb := 0; kb <= mb; kb++ {
			res = append(res, lmtpOrders(ka, kb)...)
		}
	}
	return res
}

// a status value that identifies the call it was given to
func lmtpStatus(rng *rand.Rand, i int) BErr {
	switch rng.Intn(7) {
	case 0:
		return BNil
	case 6:
		// the code the server uses for its own "closing the channel" replies: here it is just a status
		return BSmtp(421, [3]int{4, 3, 2}, fmt.Sprintf("mailbox %d is busy", i))
	case 1:
		return BPlain(fmt.Sprintf("plain failure %d", i))
	case 2:
		return BSmtp(450+i, [3]int{0, 0, 0}, fmt.Sprintf("status %d without enhanced code (100%% of quota, %%s %%d %%!)", i))
	case 3:
		return BSmtp(550+i, [3]int{5, 1, i}, fmt.Sprintf("status %d\nsecond line", i))
	default:
		return BSmtp(250+i, [3]int{2, 1, i}, fmt.Sprintf("status %d", i))
	}
}

func lmtpRet(rng *rand.Rand, fail bool) BErr {
	if !fail {
		return BNil
	}
	switch rng.Intn(5) {
	case 4:
		return BSmtp(421, [3]int{4, 3, 2}, "not now")
	case 0:
		return BPlain("backend said no: 100% sure, see %20 and %v")
	case 1:
		return BSmtp(451, [3]int{0, 0, 0}, "try later")
	case 2:
		return BSmtp(552, [3]int{5, 2, 2}, "over quota\nreally")
	default:
		return BSmtp(554, [3]int{5, 6, 0}, "returned")
	}
}

type lmtpCase struct {
	rcpts    []int  // address index per RCPT command
	reject   []bool // scripted Rcpt failure per RCPT command (nil: none)
	calls    []int  // address index per SetStatus call; 2 = an address that is no recipient
	retFail  bool
	panics   bool
	bdat     bool
	session  bool // backend implements LMTPSession
	stop     int64
	chunks   int // BDAT: number of chunks
	segMode  int
	extraCmd bool // a second transaction after the first one
}

func lmtpBody(rng *rand.Rand) []byte {
	bodies := []string{"", "hello\r\n", "Subject: x\r\n\r\nbody line one\r\nline two\r\n", "..stuffed\r\nx", "no newline at end"}
	return []byte(bodies[rng.Intn(len(bodies))])
}

func lmtpRun(rng *rand.Rand, lc lmtpCase, emit func(*Sx)) {
	cfg := DefaultCfg()
	cfg.LMTP = true
	cfg.LMTPSession = lc.session
	lmtpCounter++
	lmtpAddrs := lmtpAddrSets[lmtpCounter%len(lmtpAddrSets)]
	b := &convBuilder{rng: rng, cfg: cfg}
	b.line("LHLO x")
	b.line("MAIL FROM:<s@x>")
	for i, a := range lc.rcpts {
		b.line("RCPT TO:<" + lmtpAddrs[a] + ">")
		e := BNil
		if lc.reject != nil && lc.reject[i] {
			e = BSmtp(550, [3]int{5, 1, 1}, "no such user")
		}
		b.script.Rcpt = append(b.script.Rcpt, e)
	}
	p := DefaultPlan()
	p.Sizes = [][]int{{4096}, {1}, {7, 2}}[rng.Intn(3)]
	p.Stop = lc.stop
	p.Ret = lmtpRet(rng, lc.retFail)
	p.Prop = rng.Intn(2) == 0
	p.Panic = lc.panics
	for i, a := range lc.calls {
		addr := "nobody@z"
		if a < 2 {
			addr = lmtpAddrs[a]
		}
		p.Status = append(p.Status, StatusCall{Addr: addr, Err: lmtpStatus(rng, i)})
	}
	// statuses set before the message is read (DATA, calls within the contract, no panic)
	if !lc.bdat && !lc.panics && lc.session {
		seen, ok := map[int]bool{}, true
		for _, a := range lc.calls {
			if a >= 2 || seen[a] {
				ok = false
			}
			seen[a] = true
		}
		for _, a := range lc.calls {
			found := false
			for _, r := range lc.rcpts {
				if r == a {
					found = true
				}
			}
			if !found {
				ok = false
			}
		}
		for _, rj := range lc.reject {
			if rj {
				ok = false
			}
		}
		rs := map[int]bool{}
		for _, r := range lc.rcpts {
			if rs[r] {
				ok = false
			}
			rs[r] = true
		}
		if ok && len(lc.calls) > 0 {
			p.Early = len(lc.calls)%2 == 1 || lc.segMode == 1
		}
	}
	b.script.Data = append(b.script.Data, p)
	body := lmtpBody(rng)
	if !lc.bdat {
		b.line("DATA")
		b.cut()
		b.out = append(b.out, body...)
		b.raw("\r\n.\r\n")
		b.cut()
	} else {
		n := lc.chunks
		if n < 1 {
			n = 1
		}
		for i := 0; i < n; i++ {
			lo, hi := len(body)*i/n, len(body)*(i+1)/n
			last := ""
			if i == n-1 {
				last = " LAST"
			}
			b.line(fmt.Sprintf("BDAT %d%s", hi-lo, last))
			b.cut() // payload in a later raw read than the command (known finding F6)
			b.out = append(b.out, body[lo:hi]...)
			b.cut()
		}
	}
	if lc.extraCmd {
		b.line("MAIL FROM:<again@x>")
		b.line("RCPT TO:<" + lmtpAddrs[0] + ">")
		b.line("RSET")
	}
	b.line("QUIT")
	// segmentation: whole stream (apart from the forced cuts), per line, or random
	s := b.out
	cutset := map[int]bool{}
	for _, c := range b.cuts {
		cutset[c] = true
	}
	var raws []Raw
	start := 0
	for i := 1; i <= len(s); i++ {
		boundary := false
		switch lc.segMode {
		case 1:
			boundary = s[i-1] == '\n'
		case 2:
			boundary = rng.Intn(9) == 0
		}
		if boundary || cutset[i] || i == len(s) {
			if i > start {
				raws = append(raws, Raw{Kind: RawData, Data: append([]byte(nil), s[start:i]...)})
				start = i
			}
		}
	}
	raws = append(raws, Raw{Kind: RawEOF})
	cfg.Timeouts = nextTimeouts()
	sx := RunConv(ConvCase{Cfg: cfg, Script: b.script, Phases: [][]Raw{raws}})
	if sx == nil {
		return // the generator has given up (three conversations whose handler never finished)
	}
	// describes the shape of the conversation for the C13 oracle (see CheckLmtpConv.v)
	nchunks := 0
	if lc.bdat {
		nchunks = lc.chunks
		if nchunks < 1 {
			nchunks = 1
		}
	}
	sx.Add(L(A("origin"), A("lmtp"), L(A("chunks"), Num(int64(nchunks)))))
	emit(sx)
}

func lmtpMult(rcpts []int, reject []bool) (ma, mb int) {
	for i, a := range rcpts {
		if reject != nil && reject[i] {
			continue
		}
		if a == 0 {
			ma++
		} else {
			mb++
		}
	}
	return
}

// GenLmtp emits `conv` cases.
func GenLmtp(rng *rand.Rand, thorough bool, emit func(*Sx)) {
	seqs := lmtpRcptSeqs(4)
	base := func() lmtpCase {
		return lmtpCase{session: true, stop: -1, chunks: 1, segMode: rng.Intn(3)}
	}
	reps := 1
	if thorough {
		reps = 4
	}

	// 1. exhaustive: recipient lists x contract-respecting calls x ret x transfer
	for rep := 0; rep < reps; rep++ {
		for _, rc := range seqs {
			ma, mb := lmtpMult(rc, nil)
			for _, calls := range lmtpContractCalls(ma, mb) {
				for _, retFail := range []bool{false, true} {
					for _, bdat := range []bool{false, true} {
						lc := base()
						lc.rcpts, lc.calls, lc.retFail, lc.bdat = rc, calls, retFail, bdat
						if bdat {
							lc.chunks = 1 + rng.Intn(2)
						}
						lmtpRun(rng, lc, emit)
					}
				}
			}
		}
	}

	// 2. backend panic after a contract-respecting prefix of calls
	for _, rc := range seqs {
		ma, mb := lmtpMult(rc, nil)
		all := lmtpContractCalls(ma, mb)
		for k, calls := range all {
			if !thorough && rng.Intn(len(all)) >= 3 && k != len(all)-1 {
				continue
			}
			for _, bdat := range []bool{false, true} {
				lc := base()
				lc.rcpts, lc.calls, lc.panics, lc.bdat = rc, calls, true, bdat
				lc.retFail = rng.Intn(2) == 0
				lmtpRun(rng, lc, emit)
			}
		}
	}

	// 3. calls beyond the contract: an unknown address, or one call more than
	// the multiplicity of an address, inserted at every position of a
	// contract-respecting sequence.  (With DATA the handler receives
	// concurrently: whether an excess call finds the channel full depends on
	// the goroutine schedule, see the report; those cases are generated for
	// BDAT only, where all calls precede the emission.)
	for _, rc := range seqs {
		ma, mb := lmtpMult(rc, nil)
		all := lmtpContractCalls(ma, mb)
		for _, calls := range all {
			if !thorough && rng.Intn(len(all)) >= 2 {
				continue
			}
			for pos := 0; pos <= len(calls); pos++ {
				// unknown address at pos
				for _, bdat := range []bool{false, true} {
					if !thorough && rng.Intn(3) != 0 {
						continue
					}
					lc := base()
					lc.rcpts, lc.bdat, lc.retFail = rc, bdat, rng.Intn(2) == 0
					lc.calls = append(append(append([]int{}, calls[:pos]...), 2), calls[pos:]...)
					lmtpRun(rng, lc, emit)
				}
			}
			// excess call for address x: complete the calls for x first
			for x := 0; x < 2; x++ {
				if !thorough && rng.Intn(2) != 0 {
					continue
				}
				cnt := 0
				for _, a := range calls {
					if a == x {
						cnt++
					}
				}
				m := ma
				if x == 1 {
					m = mb
				}
				ext := append([]int{}, calls...)
				for ; cnt <= m; cnt++ {
					ext = append(ext, x)
				}
				// some further calls after the excess one (never executed)
				if rng.Intn(2) == 0 {
					ext = append(ext, 1-x)
				}
				lc := base()
				lc.rcpts, lc.bdat, lc.retFail = rc, true, rng.Intn(2) == 0
				lc.calls = ext
				lmtpRun(rng, lc, emit)
			}
		}
	}

	// 4. plain backend (no LMTPSession): everybody gets the single result
	for _, rc := range seqs {
		for _, retFail := range []bool{false, true} {
			for _, bdat := range []bool{false, true} {
				for _, pn := range []bool{false, true} {
					lc := base()
					lc.session = false
					lc.rcpts, lc.retFail, lc.bdat, lc.panics = rc, retFail, bdat, pn
					if bdat {
						lc.chunks = 1 + rng.Intn(2)
					}
					lmtpRun(rng, lc, emit)
				}
			}
		}
	}

	// 5. some recipients rejected at RCPT: only the accepted ones count
	n5 := 400
	if thorough {
		n5 = 6000
	}
	for i := 0; i < n5; i++ {
		rc := seqs[rng.Intn(len(seqs))]
		rej := make([]bool, len(rc))
		for j := range rej {
			rej[j] = rng.Intn(3) == 0
		}
		ma, mb := lmtpMult(rc, rej)
		all := lmtpContractCalls(ma, mb)
		lc := base()
		lc.rcpts, lc.reject = rc, rej
		lc.calls = all[rng.Intn(len(all))]
		lc.retFail, lc.bdat = rng.Intn(2) == 0, rng.Intn(2) == 0
		lc.session = rng.Intn(4) != 0
		lc.panics = rng.Intn(8) == 0
		lc.extraCmd = rng.Intn(3) == 0
		if rng.Intn(6) == 0 && lc.bdat {
			// a call for a rejected-only address is outside the contract
			lc.calls = append(lc.calls, rc[rng.Intn(len(rc))])
		}
		lmtpRun(rng, lc, emit)
	}

	// 6. the backend stops reading early (statuses set before the message is
	// consumed; with BDAT the copy of the LAST chunk may fail), several chunks,
	// a following transaction
	n6 := 500
	if thorough {
		n6 = 8000
	}
	for i := 0; i < n6; i++ {
		rc := seqs[rng.Intn(len(seqs))]
		ma, mb := lmtpMult(rc, nil)
		all := lmtpContractCalls(ma, mb)
		lc := base()
		lc.rcpts = rc
		lc.calls = all[rng.Intn(len(all))]
		lc.retFail, lc.bdat = rng.Intn(2) == 0, rng.Intn(2) == 0
		lc.session = rng.Intn(5) != 0
		lc.stop = int64(rng.Intn(12))
		lc.chunks = 1 + rng.Intn(3)
		lc.panics = rng.Intn(10) == 0
		lc.extraCmd = rng.Intn(3) == 0
		lmtpRun(rng, lc, emit)
	}
}
