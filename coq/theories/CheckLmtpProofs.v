(* The C13 oracle (CheckLmtp.v) accepts everything the models can do: the
   sequential collector of Lmtp.v, every finished run of the two-task model
   LmtpConc.v under every schedule, and the plain-backend shape.  Also: how
   Conn.v's reply events relate to the specification's rendering. *)
From Smtp Require Import Bytes Reply Lmtp LmtpSpec LmtpConc LmtpProofs CheckLmtp Conn.

Lemma list_bytes_eqb_refl l : list_bytes_eqb l l = true.
Proof. induction l as [|x l IH]; [reflexivity|]. cbn. rewrite bytes_eqb_refl, IH. reflexivity. Qed.

(* the oracle's comparison is the only thing that looks at the observation *)
Lemma oracle_core_accepts same single loose rcpts calls ret panic pre p :
  (exists post, calls = pre ++ post) ->
  (p = false -> pre = calls /\ panic = false) ->
  (contract_ok rcpts calls = true -> pre = calls /\ p = panic) ->
  same (expected_statuses rcpts pre (if p then err_panic else ret)) = true ->
  oracle_core same single loose true rcpts calls ret panic = true.
Proof.
  intros [post Hc] Hp Hok Hs. unfold oracle_core.
  destruct (contract_ok rcpts calls) eqn:Ec.
  - destruct (Hok eq_refl) as [-> ->]. destruct panic; [rewrite Hs; reflexivity | exact Hs].
  - destruct p.
    + apply orb_true_iff. left. apply orb_true_iff. right.
      apply existsb_exists. exists (List.length pre). split.
      * apply in_seq. rewrite Hc, app_length. lia.
      * rewrite Hc, firstn_app, Nat.sub_diag, firstn_all. cbn [firstn]. rewrite app_nil_r. exact Hs.
    + destruct (Hp eq_refl) as [-> ->]. rewrite Hs. reflexivity.
Qed.

Lemma oracle_core_loose same single loose sess rcpts calls ret panic :
  oracle_core same single false sess rcpts calls ret panic = true ->
  oracle_core same single loose sess rcpts calls ret panic = true.
Proof.
  unfold oracle_core.
  destruct sess, (contract_ok rcpts calls), panic; rewrite ?orb_false_r; intros H; rewrite ?H; auto.
Qed.

(* what the server model hands out *)
Definition model_statuses (lmtp_session : bool) (rcpts : list bytes) (calls : list (bytes * berr))
           (ret : berr) (panic : bool) : list (bytes * berr) :=
  if lmtp_session then fst (lmtp_statuses rcpts calls ret panic)
  else plain_statuses rcpts (if panic then err_panic else ret).

Lemma oracle_core_accepts_model same single loose sess rcpts calls ret panic :
  same (model_statuses sess rcpts calls ret panic) = true ->
  oracle_core same single loose sess rcpts calls ret panic = true.
Proof.
  unfold model_statuses. destruct sess.
  - rewrite lmtp_statuses_spec. cbv zeta. cbn [fst]. intros Hs.
    apply (oracle_core_accepts same single loose rcpts calls ret panic (ok_calls rcpts calls)
                               (panic || negb (contract_ok rcpts calls))).
    + apply ok_calls_from_prefix.
    + intros H. apply orb_false_iff in H as [H1 H2]. apply negb_false_iff in H2.
      split; [apply contract_ok_ok_calls; exact H2 | exact H1].
    + intros H. rewrite H. cbn [negb]. rewrite orb_false_r.
      split; [apply contract_ok_ok_calls; exact H | reflexivity].
    + exact Hs.
  - unfold oracle_core. destruct panic; intros Hs; rewrite Hs; reflexivity.
Qed.

(* The oracle is satisfiable: it accepts the model's own output, for all
   inputs, in its four forms *)
Theorem oracle_accepts_model sess rcpts calls ret panic :
  let sts := model_statuses sess rcpts calls ret panic in
  lmtp_oracle_strict sess rcpts calls ret panic (render sts) = true /\
  lmtp_oracle sess rcpts calls ret panic (render sts) = true /\
  lmtp_oracle_wire_strict sess rcpts calls ret panic (List.concat (render sts)) = true /\
  lmtp_oracle_wire sess rcpts calls ret panic (List.concat (render sts)) = true.
Proof.
  cbv zeta. unfold lmtp_oracle_strict, lmtp_oracle, lmtp_oracle_wire_strict, lmtp_oracle_wire.
  repeat split; apply oracle_core_accepts_model;
    first [apply list_bytes_eqb_refl | apply bytes_eqb_refl].
Qed.

(* ... and every finished run of handleDataLMTP's two tasks, under every
   schedule and for every backend behaviour (in particular: outside the
   contract, where the outcome depends on the schedule) *)
Theorem oracle_accepts_all_interleavings rcpts calls ret panic ord sch p :
  let s := conc_run rcpts calls ret panic ord sch in
  cs_fin s = Some p ->
  lmtp_oracle_strict true rcpts calls ret panic (render (cs_out s)) = true /\
  lmtp_oracle true rcpts calls ret panic (render (cs_out s)) = true.
Proof.
  intros s Hfin.
  destruct (Inv_result rcpts calls ret panic ord s p (Inv_conc_run _ _ _ _ _ sch) Hfin)
    as (pre & post & Hc & Ho & Hfl1 & Hfl2).
  assert (H : lmtp_oracle_strict true rcpts calls ret panic (render (cs_out s)) = true).
  { unfold lmtp_oracle_strict.
    apply (oracle_core_accepts _ _ _ rcpts calls ret panic pre p); try assumption.
    - exists post. exact Hc.
    - rewrite Ho. apply list_bytes_eqb_refl. }
  split; [exact H | apply oracle_core_loose; exact H].
Qed.

(* the oracle is not trivially true *)
Example oracle_rejects_swapped :
  let rc := [ex_a; ex_b] in let cl := [(ex_a, ex_e 1); (ex_b, ex_e 2)] in
  lmtp_oracle true rc cl BNil false (render [(ex_a, ex_e 1); (ex_b, ex_e 2)]) = true /\
  lmtp_oracle true rc cl BNil false (render [(ex_a, ex_e 2); (ex_b, ex_e 1)]) = false /\
  lmtp_oracle true rc cl BNil false (render [(ex_b, ex_e 2); (ex_a, ex_e 1)]) = false /\
  lmtp_oracle true rc cl BNil false (render [(ex_a, ex_e 1)]) = false /\
  lmtp_oracle true rc cl BNil false (render [(ex_a, ex_e 1); (ex_b, ex_e 2); (ex_b, BNil)]) = false /\
  lmtp_oracle false rc [] (ex_e 3) false (render [(ex_a, ex_e 3); (ex_b, BNil)]) = false /\
  lmtp_oracle true rc cl BNil true (render [(ex_a, ex_e 1); (ex_b, err_panic)]) = true /\
  lmtp_oracle true rc cl BNil true [bs "garbage"; bs "garbage"] = false /\
  lmtp_oracle_strict true rc cl BNil true (render [(ex_a, err_panic); (ex_b, err_panic)]) = false.
Proof. vm_compute. repeat split; reflexivity. Qed.

Example wire_replies_example :
  wire_replies (List.concat (render [(ex_a, BSmtp 552 (5, 2, 2)%Z (bs "over quota" ++ [LF] ++ bs "really")); (ex_b, BNil)]))
  = Some (render [(ex_a, BSmtp 552 (5, 2, 2)%Z (bs "over quota" ++ [LF] ++ bs "really")); (ex_b, BNil)]) /\
  replies_name [ex_a; ex_b]
    (render [(ex_a, BSmtp 552 (5, 2, 2)%Z (bs "over quota" ++ [LF] ++ bs "really")); (ex_b, BNil)]) = true /\
  replies_name [ex_b; ex_a]
    (render [(ex_a, BSmtp 552 (5, 2, 2)%Z (bs "over quota" ++ [LF] ++ bs "really")); (ex_b, BNil)]) = false.
Proof. vm_compute. repeat split; reflexivity. Qed.

(* ---------- the server model's reply events ---------- *)

Lemma status_reply_bytes_eq a e : status_reply a e = EWire (status_reply_bytes a e).
Proof.
  unfold status_reply, status_reply_bytes. destruct (data_error_to_status e) as [[code ec] msg]. reflexivity.
Qed.

Lemma status_replies_render sts :
  map (fun '(a, e) => status_reply a e) sts = map EWire (render sts).
Proof.
  unfold render. rewrite map_map. apply map_ext. intros [a e]. apply status_reply_bytes_eq.
Qed.

(* DATA with a plain backend (Conn.handle_data) and BDAT LAST with a plain
   backend: everybody gets the single result *)
Lemma plain_replies_render rcpts ret :
  map (fun a => status_reply a ret) rcpts = map EWire (render (plain_statuses rcpts ret)).
Proof.
  unfold render, plain_statuses. rewrite !map_map. apply map_ext. intros a. apply status_reply_bytes_eq.
Qed.

(* BDAT LAST in LMTP mode (Conn.bdat_lmtp_replies): all SetStatus calls
   precede the emission, so the final replies are the sequential ones, filled
   with the error [err] the handler passes to fillRemaining *)
Lemma bdat_lmtp_replies_session cfg b err :
  cf_lmtp_session cfg = true ->
  bd_panics b = dp_panic (bd_plan b)
                || snd (run_statuses (dp_status (bd_plan b)) (mk_collector (bd_rcpts b))) ->
  bdat_lmtp_replies cfg b err =
  (map EWire (render (fst (lmtp_statuses (bd_rcpts b) (dp_status (bd_plan b)) err (dp_panic (bd_plan b))))),
   snd (lmtp_statuses (bd_rcpts b) (dp_status (bd_plan b)) err (dp_panic (bd_plan b)))).
Proof.
  intros Hs Hp. unfold bdat_lmtp_replies, lmtp_statuses. rewrite Hs, Hp.
  destruct (run_statuses (dp_status (bd_plan b)) (mk_collector (bd_rcpts b))) as [col p0].
  cbn [snd]. rewrite (orb_comm (dp_panic (bd_plan b)) p0).
  destruct (p0 || dp_panic (bd_plan b)); cbn [fst snd]; rewrite status_replies_render; reflexivity.
Qed.

Lemma bdat_lmtp_replies_plain cfg b err :
  cf_lmtp_session cfg = false ->
  bdat_lmtp_replies cfg b err =
  (map EWire (render (plain_statuses (bd_rcpts b)
     (if bd_panics b then err_panic else match bd_done b with Some v => v | None => BNil end))),
   bd_panics b).
Proof.
  intros Hs. unfold bdat_lmtp_replies. rewrite Hs.
  destruct (bd_panics b); rewrite status_replies_render; reflexivity.
Qed.

(* the BDAT replies within the contract: exactly the specified ones *)
Theorem bdat_lmtp_replies_expected cfg b err :
  cf_lmtp_session cfg = true ->
  contract_ok (bd_rcpts b) (dp_status (bd_plan b)) = true ->
  dp_panic (bd_plan b) = false -> bd_panics b = false ->
  bdat_lmtp_replies cfg b err =
  (map EWire (render (expected_statuses (bd_rcpts b) (dp_status (bd_plan b)) err)), false).
Proof.
  intros Hs Hok Hp Hb.
  assert (Hrun : snd (run_statuses (dp_status (bd_plan b)) (mk_collector (bd_rcpts b))) = false).
  { pose proof (lmtp_statuses_expected (bd_rcpts b) (dp_status (bd_plan b)) err Hok) as H.
    unfold lmtp_statuses in H.
    destruct (run_statuses (dp_status (bd_plan b)) (mk_collector (bd_rcpts b))) as [col p0].
    cbn [snd]. destruct p0; [cbn in H; discriminate | reflexivity]. }
  rewrite bdat_lmtp_replies_session; [|exact Hs | rewrite Hb, Hp, Hrun; reflexivity].
  rewrite Hp, lmtp_statuses_expected by exact Hok. reflexivity.
Qed.

(* non-vacuity of the hypotheses of bdat_lmtp_replies_expected *)
Example bdat_lmtp_replies_example :
  let cfg := mkCfg true false (bs "d") 0%N 0%Z 2000%N false false false false false false true None false in
  let plan := mkDP [4096%nat] None BNil true false [(ex_b, ex_e 1); (ex_a, ex_e 2)] in
  let b := mkBD plan [] (Some BNil) [ex_a; ex_b; ex_a] false in
  cf_lmtp_session cfg = true /\
  contract_ok (bd_rcpts b) (dp_status (bd_plan b)) = true /\
  dp_panic (bd_plan b) = false /\ bd_panics b = false /\
  bdat_lmtp_replies cfg b BNil =
  (map EWire (render [(ex_a, ex_e 2); (ex_b, ex_e 1); (ex_a, BNil)]), false).
Proof. vm_compute. repeat split; reflexivity. Qed.
