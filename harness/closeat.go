package harness

// Server.Close() called by the application while a connection is busy inside
// a backend callback, with further commands of a pipelining client already in
// the connection's read buffer (property C08: once the server has given up on
// the connection no further command from it is executed; seed C08G).
//
// RecBackend.CloseAt scripts it: at the n-th (1-based) call of the named
// callback the backend calls the server's Close from ANOTHER goroutine, waits
// until that call has returned, and then returns normally from the callback.
// When Close has returned the event (srvclose) is put into the event log;
// after it no backend callback may begin (CheckOracle.v: it is decoded as
// EClose and sets the monitor's o_closing).  Callback names:
//
//	ns          NewSession
//	mail rcpt   Session.Mail / Rcpt
//	data-begin  Session.Data / LMTPData on the DATA path, before the message is read
//	data-end    the same, after the message has been read
//	authnext    sasl.Server.Next
//	reset       Session.Reset - see below
//
// Each hook runs after the callback's own event has been recorded, so the
// callback in which Close is called precedes (srvclose) in the log.
//
// reset: Conn.reset holds c.locker while it calls Session.Reset, and
// Server.Close -> Conn.Close needs c.locker: waiting for Close inside the
// callback would deadlock.  The callback starts the Close goroutine and
// returns; the handler is then held at its next write to the connection
// (ScriptConn.OnWrite -> waitClose) until Close has returned.  That is
// deterministic only where a reply is written right after the reset: RSET and
// a repeated EHLO/LHLO (not the reset after a message).

import (
	"bytes"
	"math/rand"
	"runtime"
	"time"

	smtp "github.com/emersion/go-smtp"
)

const closeAtWatchdog = 8 * time.Second

func (b *RecBackend) maybeClose(cb string) {
	if b.CloseAt == nil || b.CloseFn == nil {
		return
	}
	b.mu.Lock()
	if b.nCloseAt == nil {
		b.nCloseAt = map[string]int{}
	}
	b.nCloseAt[cb]++
	hit := b.CloseAt[cb] == b.nCloseAt[cb]
	b.mu.Unlock()
	if !hit {
		return
	}
	done := make(chan struct{})
	go func() {
		b.CloseFn()
		b.add(L(A("srvclose")))
		close(done)
	}()
	if cb == "reset" {
		b.mu.Lock()
		b.closeWait = done
		b.mu.Unlock()
		return
	}
	select {
	case <-done:
	case <-time.After(closeAtWatchdog):
	}
}

// maybeCloseWire: CloseAt key "w<code>" - Server.Close is called (and waited for) while the n-th reply with
// that code is being written, i.e. between a command's reply and whatever the handler does next (seed C08M:
// Close during the 354).
func (b *RecBackend) maybeCloseWire(p []byte) {
	if b.CloseAt == nil || len(p) < 4 {
		return
	}
	b.maybeClose("w" + string(p[:3]))
}

// waitClose holds the caller until a Close started by a Reset callback has returned.
func (b *RecBackend) waitClose() {
	b.mu.Lock()
	w := b.closeWait
	b.mu.Unlock()
	if w == nil {
		return
	}
	select {
	case <-w:
	case <-time.After(closeAtWatchdog):
	}
}

func connHandlerAlive() bool {
	return bytes.Contains(allStacks(), []byte("go-smtp.(*Server).handleConn"))
}

// serveUntilHandled runs Server.Serve on a listener that yields the one
// connection and returns when the connection's handler goroutine has ended.
// Unlike serveOn it does not call Shutdown first (s.done must still be open
// when the backend calls Server.Close), so the end of the handler is observed
// in the goroutine dump.
func serveUntilHandled(s *smtp.Server, conn netConn) bool {
	l := newOneListener(conn)
	done := make(chan struct{})
	go func() {
		s.Serve(l)
		close(done)
	}()
	<-l.accepted
	select {
	case <-l.conn.written:
	case <-l.conn.closed:
	case <-time.After(10 * time.Second):
	}
	deadline := time.Now().Add(closeAtWatchdog)
	alive := connHandlerAlive()
	for i := 0; alive && time.Now().Before(deadline); i++ {
		if i < 50 {
			runtime.Gosched()
		} else {
			time.Sleep(100 * time.Microsecond)
		}
		alive = connHandlerAlive()
	}
	s.Close() // ErrServerClosed when the backend has closed the server
	<-done
	if alive {
		conn.Close()
	}
	return !alive
}

// genC08ServerClose: conversations delivered in ONE raw read (everything
// behind the command in progress is already in the server's read buffer) x
// Server.Close at each callback kind x what is buffered behind x SMTP / LMTP.
// The cases carry (nomodel): they are judged by the oracles on the recorded
// behaviour - no callback and no new session after (srvclose), one Logout, the
// late addresses never reach the backend.
func genC08ServerClose(rng *rand.Rand, thorough bool, emit func(*Sx)) {
	type site struct {
		name string
		at   map[string]int
		pre  func(f *fconv) // up to and including the command in whose callback Close is called
	}
	mailRcpt := func(f *fconv) {
		f.hello()
		f.cmd("MAIL FROM:<s@ok>")
		f.cmd("RCPT TO:<r@ok>")
	}
	sites := []site{
		{"ns", map[string]int{"ns": 1}, func(f *fconv) { f.hello() }},
		{"mail", map[string]int{"mail": 1}, func(f *fconv) { f.hello(); f.cmd("MAIL FROM:<s@ok>") }},
		{"mail2", map[string]int{"mail": 2}, func(f *fconv) {
			mailRcpt(f)
			f.cmd("DATA")
			f.raw("first\r\n.\r\n")
			f.cmd("MAIL FROM:<s2@ok>")
		}},
		{"rcpt", map[string]int{"rcpt": 1}, mailRcpt},
		{"rcpt2", map[string]int{"rcpt": 2}, func(f *fconv) { mailRcpt(f); f.cmd("RCPT TO:<r2@ok>") }},
		{"data-begin", map[string]int{"data-begin": 1}, func(f *fconv) { mailRcpt(f); f.cmd("DATA"); f.raw("hello\r\n.\r\n") }},
		{"data-end", map[string]int{"data-end": 1}, func(f *fconv) { mailRcpt(f); f.cmd("DATA"); f.raw("hello\r\n.\r\n") }},
		{"reset-rset", map[string]int{"reset": 1}, func(f *fconv) { f.hello(); f.cmd("MAIL FROM:<s@ok>"); f.cmd("RSET") }},
		{"reset-ehlo", map[string]int{"reset": 1}, func(f *fconv) { mailRcpt(f); f.hello() }},
		{"authnext", map[string]int{"authnext": 1}, func(f *fconv) { f.hello(); f.cmd("AUTH PLAIN AGEAYg==") }},
		// while a reply is being written: the 354 (the message is buffered behind), the reply to MAIL, to RCPT
		{"w354", map[string]int{"w354": 1}, func(f *fconv) { mailRcpt(f); f.cmd("DATA"); f.raw("hello\r\n.\r\n") }},
		{"w250-mail", map[string]int{"w250": 2}, func(f *fconv) { f.hello(); f.cmd("MAIL FROM:<s@ok>") }},
		{"w250-rcpt", map[string]int{"w250": 3}, mailRcpt},
	}
	suffixes := []string{
		"",
		"RCPT TO:<late@x>\r\n",
		"RCPT TO:<late@x>\r\nDATA\r\nlate message\r\n.\r\nQUIT\r\n",
		"DATA\r\nlate message\r\n.\r\n",
		"RSET\r\nMAIL FROM:<late@x>\r\nRCPT TO:<late@x>\r\nDATA\r\nlate message\r\n.\r\n",
		"EHLO after.close\r\nMAIL FROM:<late@x>\r\nQUIT\r\n",
		"MAIL FROM:<late@x>\r\nRCPT TO:<late@x>\r\n",
		"NOOP\r\nQUIT\r\n",
		"AUTH PLAIN AGEAYg==\r\nMAIL FROM:<late@x>\r\n",
		"BDAT 4 LAST\r\nlate",
	}
	for _, lmtp := range []bool{false, true} {
		for _, lmtpSess := range []bool{false, true} {
			if lmtpSess && !lmtp {
				continue
			}
			for _, st := range sites {
				for si, suf := range suffixes {
					if !thorough && lmtpSess && si%2 != 0 {
						continue
					}
					cfg := DefaultCfg()
					cfg.LMTP = lmtp
					cfg.LMTPSession = lmtpSess
					cfg.Insecure, cfg.HasAuth, cfg.Auth = true, true, []string{"PLAIN"}
					f := newF(cfg)
					f.known = false
					st.pre(f)
					if lmtp {
						suf = string(bytes.ReplaceAll([]byte(suf), []byte("EHLO "), []byte("LHLO ")))
					}
					f.raw(suf)
					f.add(L(A("nomodel")))
					f.add(L(A("srvclose-at"), A(st.name)))
					f.add(L(A("must-not-mail"), XS("late@x")))
					f.add(L(A("one-logout")))
					cc := f.caseOf("C08", []Raw{{Kind: RawData, Data: append([]byte(nil), f.out...)}, rawEOF})
					cc.CloseAt = st.at
					emit(RunConv(cc))
				}
			}
		}
	}
}
