(* client.go: the go-smtp CLIENT, operation by operation, together with the
   parts of net/textproto and bufio it runs (Conn.Cmd, Writer.PrintfLine,
   Writer.DotWriter / closeDot, dotWriter.Write / Close over a 4096-octet
   bufio.Writer, Reader.ReadResponse through ClientReply.v).

   The server is a pre-scripted octet stream [c_in]: every reply the client
   reads is taken from it with [client_read_response]; the octets the client
   puts on the wire are appended to [c_out].

   Out of scope (stated, not modelled):
   - reply lines longer than 2000 octets (the client's lineLimitReader then
     fails with ErrTooLongLine);
   - deadlines / timeouts (SetDeadline is invisible on a scripted stream);
   - the TLS handshake: after a successful STARTTLS the client continues on a
     separate application stream [c_tls_in] (None: the handshake fails, every
     later read or write is an I/O error and no plaintext octet is written);
   - a '%' in the SASL mechanism NAME: Auth passes "AUTH mech resp" as a
     FORMAT string to textproto's Cmd, so fmt would rewrite "%x" into
     "%!x(MISSING)"; the model writes the name unchanged (mechanism names are
     supplied by the sasl.Client implementation, not by a string argument);
   - handles of a data writer obtained before STARTTLS (startTLS is only
     reachable from the constructors, before any other method);
   - re-entrant use of the client from inside the LMTP status callback. *)
From Smtp Require Import Bytes GoStrings Utf8 Xtext Base64 Reply ClientReply Rfc3339 DotWriter Conn.
Local Open Scope char_scope.

(* ---------- results ---------- *)

(* the error value returned by an API method:
   nil | *SMTPError | any error created locally (its Error() text; a
   textproto.ProtocolError is such a text as well) | an error of the
   connection (io.EOF, net.ErrClosed, a TLS error, ...) *)
Inductive result :=
| RNil
| RSmtp (code : Z) (ec : ecode) (msg : bytes)
| RLocal (text : bytes)
| RIo.

Definition res_of_cerr (e : cerr) : result :=
  match e with
  | CNil => RNil
  | CSmtp c ec m => RSmtp c ec m
  | CProto t => RLocal t
  | CEof => RIo
  end.

Definition is_nil (r : result) : bool := match r with RNil => true | _ => false end.

(* the error texts of client.go *)
Definition err_line : bytes := bs "smtp: a line must not contain CR or LF".
Definition err_hello_late : bytes := bs "smtp: Hello called after other methods".
Definition err_requiretls : bytes := bs "smtp: server does not support REQUIRETLS".
Definition err_smtputf8 : bytes := bs "smtp: server does not support SMTPUTF8".
Definition err_ret : bytes := bs "smtp: Unknown RET parameter value".
Definition err_8bitmime : bytes := bs "smtp: server does not support 8BITMIME".
Definition err_binarymime : bytes := bs "smtp: server does not support BINARYMIME".
Definition err_body : bytes := bs "smtp: Unknown BODY parameter value".
Definition err_envid : bytes := bs "smtp: Malformed ENVID parameter value".
Definition err_notify : bytes := bs "smtp: Malformed NOTIFY parameter value".
Definition err_illegal_addr : bytes := bs "smtp: Illegal address".
Definition err_addr_type : bytes := bs "smtp: Unknown address type".
Definition err_closed_twice : bytes := bs "smtp: data writer closed twice".
Definition err_not_lmtp : bytes := bs "smtp: not a LMTP client".
Definition err_no_starttls : bytes := bs "smtp: server doesn't support STARTTLS".
(* base64.CorruptInputError: the harness renders every such error with this text *)
Definition err_base64 : bytes := bs "base64".
(* what the scripted mechanism returns when asked for more steps than scripted *)
Definition err_script_exhausted : bytes := bs "verif: sasl script exhausted".
(* model only: Write/Close without a data writer (the harness never does it) *)
Definition err_no_writer : bytes := bs "verif: no data writer".

(* ---------- state ---------- *)

(* dataCloser + the dotWriter it wraps *)
Record dwriter := mkDW {
  d_st : wstate;       (* dotWriter.state *)
  d_closed : bool;     (* dataCloser.closed *)
  d_cb : bool;         (* statusCb != nil *)
  d_open : bool        (* textproto.Writer.dot == this dotWriter *)
}.

Definition extmap := list (bytes * bytes).

Record client := mkC {
  c_lmtp : bool;
  c_local : bytes;                 (* localName *)
  c_did_greet : bool;
  c_greet_err : result;
  c_did_hello : bool;
  c_hello_err : result;
  c_ext : option extmap;           (* None: nil map *)
  c_rcpts : list bytes;
  c_tls : bool;                    (* the connection was upgraded by STARTTLS *)
  c_closed : bool;                 (* the connection is closed, or its TLS handshake failed:
                                      every Write on it fails *)
  c_werr : bool;                   (* sticky error of textproto's bufio.Writer *)
  c_in : bytes;                    (* what the server will still send *)
  c_tls_in : option bytes;         (* application stream after an upgrade; None: handshake fails *)
  c_out : bytes;                   (* octets written to the connection so far *)
  c_wbuf : bytes;                  (* pending octets in textproto's bufio.Writer *)
  c_dw : option dwriter;           (* the most recent data writer *)
  c_cbs : list (bytes * result)    (* status callback invocations so far, in order *)
}.

Definition set_local (c : client) (v : bytes) : client :=
  mkC (c_lmtp c) v (c_did_greet c) (c_greet_err c) (c_did_hello c) (c_hello_err c) (c_ext c)
      (c_rcpts c) (c_tls c) (c_closed c) (c_werr c) (c_in c) (c_tls_in c) (c_out c) (c_wbuf c)
      (c_dw c) (c_cbs c).
Definition set_greet (c : client) (d : bool) (e : result) : client :=
  mkC (c_lmtp c) (c_local c) d e (c_did_hello c) (c_hello_err c) (c_ext c)
      (c_rcpts c) (c_tls c) (c_closed c) (c_werr c) (c_in c) (c_tls_in c) (c_out c) (c_wbuf c)
      (c_dw c) (c_cbs c).
Definition set_did_hello (c : client) (v : bool) : client :=
  mkC (c_lmtp c) (c_local c) (c_did_greet c) (c_greet_err c) v (c_hello_err c) (c_ext c)
      (c_rcpts c) (c_tls c) (c_closed c) (c_werr c) (c_in c) (c_tls_in c) (c_out c) (c_wbuf c)
      (c_dw c) (c_cbs c).
Definition set_hello_err (c : client) (v : result) : client :=
  mkC (c_lmtp c) (c_local c) (c_did_greet c) (c_greet_err c) (c_did_hello c) v (c_ext c)
      (c_rcpts c) (c_tls c) (c_closed c) (c_werr c) (c_in c) (c_tls_in c) (c_out c) (c_wbuf c)
      (c_dw c) (c_cbs c).
Definition set_ext (c : client) (v : option extmap) : client :=
  mkC (c_lmtp c) (c_local c) (c_did_greet c) (c_greet_err c) (c_did_hello c) (c_hello_err c) v
      (c_rcpts c) (c_tls c) (c_closed c) (c_werr c) (c_in c) (c_tls_in c) (c_out c) (c_wbuf c)
      (c_dw c) (c_cbs c).
Definition set_rcpts (c : client) (v : list bytes) : client :=
  mkC (c_lmtp c) (c_local c) (c_did_greet c) (c_greet_err c) (c_did_hello c) (c_hello_err c) (c_ext c)
      v (c_tls c) (c_closed c) (c_werr c) (c_in c) (c_tls_in c) (c_out c) (c_wbuf c)
      (c_dw c) (c_cbs c).
Definition set_closed (c : client) (v : bool) : client :=
  mkC (c_lmtp c) (c_local c) (c_did_greet c) (c_greet_err c) (c_did_hello c) (c_hello_err c) (c_ext c)
      (c_rcpts c) (c_tls c) v (c_werr c) (c_in c) (c_tls_in c) (c_out c) (c_wbuf c)
      (c_dw c) (c_cbs c).
Definition set_werr (c : client) (v : bool) : client :=
  mkC (c_lmtp c) (c_local c) (c_did_greet c) (c_greet_err c) (c_did_hello c) (c_hello_err c) (c_ext c)
      (c_rcpts c) (c_tls c) (c_closed c) v (c_in c) (c_tls_in c) (c_out c) (c_wbuf c)
      (c_dw c) (c_cbs c).
Definition set_in (c : client) (v : bytes) : client :=
  mkC (c_lmtp c) (c_local c) (c_did_greet c) (c_greet_err c) (c_did_hello c) (c_hello_err c) (c_ext c)
      (c_rcpts c) (c_tls c) (c_closed c) (c_werr c) v (c_tls_in c) (c_out c) (c_wbuf c)
      (c_dw c) (c_cbs c).
(* one conn.Write(o) that succeeds, leaving [b] pending *)
Definition set_out_wbuf (c : client) (o b : bytes) : client :=
  mkC (c_lmtp c) (c_local c) (c_did_greet c) (c_greet_err c) (c_did_hello c) (c_hello_err c) (c_ext c)
      (c_rcpts c) (c_tls c) (c_closed c) (c_werr c) (c_in c) (c_tls_in c) o b
      (c_dw c) (c_cbs c).
Definition set_wbuf (c : client) (b : bytes) : client := set_out_wbuf c (c_out c) b.
Definition set_dw (c : client) (v : option dwriter) : client :=
  mkC (c_lmtp c) (c_local c) (c_did_greet c) (c_greet_err c) (c_did_hello c) (c_hello_err c) (c_ext c)
      (c_rcpts c) (c_tls c) (c_closed c) (c_werr c) (c_in c) (c_tls_in c) (c_out c) (c_wbuf c)
      v (c_cbs c).
Definition add_cb (c : client) (rcpt : bytes) (status : result) : client :=
  mkC (c_lmtp c) (c_local c) (c_did_greet c) (c_greet_err c) (c_did_hello c) (c_hello_err c) (c_ext c)
      (c_rcpts c) (c_tls c) (c_closed c) (c_werr c) (c_in c) (c_tls_in c) (c_out c) (c_wbuf c)
      (c_dw c) (c_cbs c ++ [(rcpt, status)]).

(* NewClient(conn) / NewClientLMTP(conn) on a connection that will deliver
   [stream]; [tls_stream] is what the TLS session would deliver after an
   upgrade *)
Definition new_client (lmtp : bool) (stream : bytes) (tls_stream : option bytes) : client :=
  mkC lmtp (bs "localhost") false RNil false RNil None [] false false false
      stream tls_stream [] [] None [].

(* ---------- bufio.Writer (4096) + the connection ---------- *)

(* [new] is written to a bufio.Writer holding [pending]: whole buffers are
   flushed while more than 4096 octets are pending, so afterwards at most 4096
   are (WriteByte flushes a FULL buffer only when the next octet arrives).
   Result: (flushed to the connection, still pending). *)
Definition bufio_push (pending new : bytes) : bytes * bytes :=
  let total := pending ++ new in
  let n := blen total in
  if (n <=? 4096)%N then ([], total)
  else let k := N.to_nat ((n - 1) / 4096 * 4096)%N in (firstn k total, skipn k total).

(* bufio.Writer.Write / WriteByte of the octets [o] *)
Definition bw_write (c : client) (o : bytes) : client :=
  if c_werr c then c
  else
    let '(fl, pend) := bufio_push (c_wbuf c) o in
    match fl with
    | [] => set_wbuf c pend
    | _ :: _ => if c_closed c then set_werr c true
                else set_out_wbuf c (c_out c ++ fl) pend
    end.

(* bufio.Writer.Flush: true = nil error *)
Definition bw_flush (c : client) : bool * client :=
  if c_werr c then (false, c)
  else
    match c_wbuf c with
    | [] => (true, c)
    | _ :: _ => if c_closed c then (false, set_werr c true)
                else (true, set_out_wbuf c (c_out c ++ c_wbuf c) [])
    end.

(* textproto.Writer.closeDot: an open dotWriter is closed (its terminator is
   written and flushed, the error dropped) *)
Definition close_dot (c : client) : client :=
  match c_dw c with
  | Some d =>
      if d_open d then
        let c1 := set_dw c (Some (mkDW (d_st d) (d_closed d) (d_cb d) false)) in
        snd (bw_flush (bw_write c1 (dw_close (d_st d))))
      else c
  | None => c
  end.

(* textproto.Writer.PrintfLine with the already formatted line *)
Definition printf_line (c : client) (line : bytes) : bool * client :=
  bw_flush (bw_write (close_dot c) (line ++ crlf)).

(* Client.readResponse(expect) *)
Definition c_read (c : client) (expect : Z) : (Z * bytes * cerr) * client :=
  let '(r, rest) := client_read_response expect (c_in c) in (r, set_in c rest).

(* Client.cmd(expect, line) *)
Definition c_cmd (c : client) (expect : Z) (line : bytes) : (Z * bytes * result) * client :=
  let '(ok, c1) := printf_line c line in
  if ok then
    let '((code, msg, e), c2) := c_read c1 expect in ((code, msg, res_of_cerr e), c2)
  else ((0%Z, [], RIo), c1).

(* ---------- greeting and hello ---------- *)

(* validateLine *)
Definition valid_line (s : bytes) : bool := negb (mem_byte LF s || mem_byte CR s).

(* Client.greet *)
Definition c_greet (c : client) : result * client :=
  if c_did_greet c then (c_greet_err c, c)
  else
    let '((_, _, e), c1) := c_read c 220 in
    match e with
    | CNil => (RNil, set_greet c1 true (c_greet_err c1))
    | _ => (res_of_cerr e, set_closed (set_greet c1 true (res_of_cerr e)) true)
    end.

(* Client.helo *)
Definition c_helo (c : client) : result * client :=
  let '((_, _, e), c1) := c_cmd (set_ext c None) 250 (bs "HELO " ++ c_local c) in (e, c1).

(* the map built by ehlo(): later lines overwrite earlier ones; represented
   as an association list searched from the head *)
Definition ext_line (m : extmap) (line : bytes) : extmap :=
  match cut_byte " " line with
  | Some (k, v) => (k, v) :: m
  | None => (line, []) :: m
  end.

Definition parse_ext (msg : bytes) : extmap :=
  match split_byte LF msg with
  | _ :: ((_ :: _) as l) => fold_left ext_line l []
  | _ => []
  end.

Fixpoint ext_get (k : bytes) (m : extmap) : option bytes :=
  match m with
  | [] => None
  | (k', v) :: r => if bytes_eqb k k' then Some v else ext_get k r
  end.

(* _, ok := c.ext[key] *)
Definition has_ext (e : option extmap) (k : bytes) : bool :=
  match e with
  | Some m => match ext_get k m with Some _ => true | None => false end
  | None => false
  end.

(* Client.ehlo *)
Definition c_ehlo (c : client) : result * client :=
  let verb := if c_lmtp c then bs "LHLO " else bs "EHLO " in
  let '((_, msg, e), c1) := c_cmd c 250 (verb ++ c_local c) in
  match e with
  | RNil => (RNil, set_ext c1 (Some (parse_ext msg)))
  | _ => (e, c1)
  end.

Definition is_500_502 (r : result) : bool :=
  match r with
  | RSmtp code _ _ => (code =? 500)%Z || (code =? 502)%Z
  | _ => false
  end.

(* Client.hello *)
Definition c_hello (c : client) : result * client :=
  if c_did_hello c then (c_hello_err c, c)
  else
    let '(g, c1) := c_greet c in
    match g with
    | RNil =>
        let '(e, c2) := c_ehlo (set_did_hello c1 true) in
        match e with
        | RNil => (c_hello_err c2, c2)
        | _ =>
            if is_500_502 e then
              let '(h, c3) := c_helo c2 in (h, set_hello_err c3 h)
            else (e, set_hello_err c2 e)
        end
    | _ => (g, c1)
    end.

(* run [k] after a successful lazy hello *)
Definition with_hello (c : client) (k : client -> result * client) : result * client :=
  let '(h, c1) := c_hello c in
  match h with RNil => k c1 | _ => (h, c1) end.

(* Client.Hello(localName) *)
Definition c_hello_api (c : client) (name : bytes) : result * client :=
  if negb (valid_line name) then (RLocal err_line, c)
  else if c_did_hello c then (RLocal err_hello_late, c)
  else c_hello (set_local c name).

(* Client.Extension(ext) *)
Definition c_extension (c : client) (name : bytes) : (bool * bytes) * client :=
  let '(h, c1) := c_hello c in
  match h with
  | RNil =>
      match c_ext c1 with
      | Some m =>
          match ext_get (to_upper name) m with
          | Some v => ((true, v), c1)
          | None => ((false, []), c1)
          end
      | None => ((false, []), c1)
      end
  | _ => ((false, []), c1)
  end.

(* the final error of a command *)
Definition cmd_err (c : client) (expect : Z) (line : bytes) : result * client :=
  let '((_, _, e), c1) := c_cmd c expect line in (e, c1).

(* Client.Verify(addr) *)
Definition c_verify (c : client) (addr : bytes) : result * client :=
  if negb (valid_line addr) then (RLocal err_line, c)
  else with_hello c (fun c1 => cmd_err c1 250 (bs "VRFY " ++ addr)).

(* ---------- MAIL ---------- *)

Definition key (s : string) : bytes := bs s.

(* the DSN block of Mail: RET and ENVID *)
Definition mail_dsn_params (o : mail_opts) : list bytes + bytes :=
  let ret :=
    if bytes_eqb (mo_ret o) (bs "FULL") || bytes_eqb (mo_ret o) (bs "HDRS")
    then inl [bs "RET=" ++ mo_ret o]
    else match mo_ret o with [] => inl [] | _ :: _ => inr err_ret end in
  match ret with
  | inr e => inr e
  | inl p =>
      match mo_envid o with
      | [] => inl p
      | _ :: _ =>
          if is_printable_ascii (mo_envid o)
          then inl (p ++ [bs "ENVID=" ++ encode_xtext (mo_envid o)])
          else inr err_envid
      end
  end.

(* the value of AUTH=: a non-nil empty *opts.Auth stands for AUTH=<> *)
Definition auth_value (a : bytes) : bytes :=
  match a with
  | [] => bs "<>"
  | _ :: _ => encode_xtext a
  end.

(* the BODY parameter: MailOptions.Body when it is set (7BIT / 8BITMIME need
   the 8BITMIME extension, BINARYMIME needs BINARYMIME; anything else is refused
   locally), otherwise BODY=8BITMIME whenever the server offers 8BITMIME *)
Definition mail_body_param (ext : option extmap) (opts : option mail_opts) : list bytes + bytes :=
  let dflt := if has_ext ext (key "8BITMIME") then [bs "BODY=8BITMIME"] else [] in
  match opts with
  | None => inl dflt
  | Some o =>
      match mo_body o with
      | [] => inl dflt
      | _ :: _ =>
          if bytes_eqb (mo_body o) (bs "7BIT") || bytes_eqb (mo_body o) (bs "8BITMIME") then
            if has_ext ext (key "8BITMIME") then inl [bs "BODY=" ++ mo_body o] else inr err_8bitmime
          else if bytes_eqb (mo_body o) (bs "BINARYMIME") then
            if has_ext ext (key "BINARYMIME") then inl [bs "BODY=" ++ mo_body o] else inr err_binarymime
          else inr err_body
      end
  end.

(* the parameters of the MAIL line in the order Mail appends them (each is
   preceded by one SP on the line), or the local error that aborts the call *)
Definition mail_params (ext : option extmap) (opts : option mail_opts) : list bytes + bytes :=
  match mail_body_param ext opts with
  | inr e => inr e
  | inl p1 =>
  match opts with
  | None => inl p1
  | Some o =>
      let p2 := if has_ext ext (key "SIZE") && negb (mo_size o =? 0)%Z
                then p1 ++ [bs "SIZE=" ++ dec_of_Z (mo_size o)] else p1 in
      if mo_requiretls o && negb (has_ext ext (key "REQUIRETLS")) then inr err_requiretls
      else
        let p3 := if mo_requiretls o then p2 ++ [bs "REQUIRETLS"] else p2 in
        if mo_utf8 o && negb (has_ext ext (key "SMTPUTF8")) then inr err_smtputf8
        else
          let p4 := if mo_utf8 o then p3 ++ [bs "SMTPUTF8"] else p3 in
          match (if has_ext ext (key "DSN") then mail_dsn_params o else inl []) with
          | inr e => inr e
          | inl d =>
              let p5 := p4 ++ d in
              inl (match mo_auth o with
                   | Some a => if has_ext ext (key "AUTH")
                               then p5 ++ [bs "AUTH=" ++ auth_value a] else p5
                   | None => p5
                   end)
          end
  end
  end.

(* " p1 p2 ..." *)
Definition render_params (ps : list bytes) : bytes := flat_map (fun p => " " :: p) ps.

Definition mail_line (from : bytes) (ps : list bytes) : bytes :=
  bs "MAIL FROM:<" ++ from ++ bs ">" ++ render_params ps.

(* Mail after validateLine and hello *)
Definition c_mail_step (from : bytes) (opts : option mail_opts) (c : client) : result * client :=
  let c1 := set_rcpts c [] in
  match mail_params (c_ext c1) opts with
  | inr e => (RLocal e, c1)
  | inl ps => cmd_err c1 250 (mail_line from ps)
  end.

(* Client.Mail(from, opts) *)
Definition c_mail (c : client) (from : bytes) (opts : option mail_opts) : result * client :=
  if negb (valid_line from) then (RLocal err_line, c)
  else with_hello c (c_mail_step from opts).

(* ---------- RCPT ---------- *)

(* Time.IsZero: January 1, year 1, 00:00:00 UTC *)
Definition rt_is_zero (t : rtime) : bool :=
  (rt_unix t =? -62135596800)%Z && (rt_nsec t =? 0)%Z.

(* civil date of a day number (days since 1970-01-01), proleptic Gregorian *)
Definition civil_from_days (days : Z) : Z * Z * Z :=
  let z := (days + 719468)%Z in
  let era := (z / 146097)%Z in
  let doe := (z - era * 146097)%Z in
  let yoe := ((doe - doe / 1460 + doe / 36524 - doe / 146096) / 365)%Z in
  let doy := (doe - (365 * yoe + yoe / 4 - yoe / 100))%Z in
  let mp := ((5 * doy + 2) / 153)%Z in
  let d := (doy - (153 * mp + 2) / 5 + 1)%Z in
  let m := if (mp <? 10)%Z then (mp + 3)%Z else (mp - 9)%Z in
  let y := (yoe + era * 400 + (if (m <=? 2)%Z then 1 else 0))%Z in
  (y, m, d).

(* time.appendInt(b, x, width) *)
Definition append_int (x : Z) (width : nat) : bytes :=
  let d := dec_of_N (Z.to_N (Z.abs x)) in
  (if (x <? 0)%Z then ["-"] else []) ++ repeat "0" (width - List.length d) ++ d.

(* Time.Format(time.RFC3339) *)
Definition format_rfc3339 (t : rtime) : bytes :=
  let off := rt_off t in
  let loc := (rt_unix t + off)%Z in
  let days := (loc / 86400)%Z in
  let secs := (loc mod 86400)%Z in
  let '(y, m, d) := civil_from_days days in
  append_int y 4 ++ "-" :: append_int m 2 ++ "-" :: append_int d 2 ++ "T" ::
  append_int (secs / 3600) 2 ++ ":" :: append_int (secs mod 3600 / 60) 2 ++ ":" ::
  append_int (secs mod 60) 2 ++
  (if (off =? 0)%Z then ["Z"]
   else
     let zone := Z.quot off 60 in
     let az := Z.abs zone in
     (if (zone <? 0)%Z then "-" else "+") :: append_int (az / 60) 2 ++ ":" :: append_int (az mod 60) 2).

(* the DSN block of Rcpt: NOTIFY and ORCPT *)
Definition rcpt_dsn_params (ext : option extmap) (o : rcpt_opts) : list bytes + bytes :=
  let notify :=
    match ro_notify o with
    | [] => inl []
    | _ :: _ => if notify_ok (ro_notify o)
                then inl [bs "NOTIFY=" ++ join (bs ",") (ro_notify o)]
                else inr err_notify
    end in
  match notify with
  | inr e => inr e
  | inl p =>
      match ro_orcpt o with
      | [] => inl p
      | _ :: _ =>
          if bytes_eqb (ro_orcpt_type o) (bs "RFC822") then
            if is_printable_ascii (ro_orcpt o)
            then inl (p ++ [bs "ORCPT=RFC822;" ++ encode_xtext (ro_orcpt o)])
            else inr err_illegal_addr
          else if bytes_eqb (ro_orcpt_type o) (bs "UTF-8") then
            inl (p ++ [bs "ORCPT=UTF-8;" ++
                       (if has_ext ext (key "SMTPUTF8")
                        then encode_utf8_addr_unitext (ro_orcpt o)
                        else encode_utf8_addr_xtext (ro_orcpt o))])
          else inr err_addr_type
      end
  end.

Definition rcpt_params (ext : option extmap) (opts : option rcpt_opts) : list bytes + bytes :=
  match opts with
  | None => inl []
  | Some o =>
      match (if has_ext ext (key "DSN") then rcpt_dsn_params ext o else inl []) with
      | inr e => inr e
      | inl d =>
          inl (match ro_rrvs o with
               | Some t => if has_ext ext (key "RRVS") && negb (rt_is_zero t)
                           then d ++ [bs "RRVS=" ++ format_rfc3339 t] else d
               | None => d
               end)
      end
  end.

Definition rcpt_line (to : bytes) (ps : list bytes) : bytes :=
  bs "RCPT TO:<" ++ to ++ bs ">" ++ render_params ps.

(* Client.Rcpt(to, opts): no hello() here *)
Definition c_rcpt (c : client) (to : bytes) (opts : option rcpt_opts) : result * client :=
  if negb (valid_line to) then (RLocal err_line, c)
  else
    match rcpt_params (c_ext c) opts with
    | inr e => (RLocal e, c)
    | inl ps =>
        let '(e, c1) := cmd_err c 25 (rcpt_line to ps) in
        match e with
        | RNil => (RNil, set_rcpts c1 (c_rcpts c1 ++ [to]))
        | _ => (e, c1)
        end
    end.

(* ---------- DATA ---------- *)

(* Data / LMTPData after the 354: c.text.DotWriter() wrapped in a dataCloser *)
Definition open_writer (c : client) (cb : bool) : client :=
  set_dw (close_dot c) (Some (mkDW WBegin false cb true)).

(* Client.Data() *)
Definition c_data (c : client) : result * client :=
  let '(e, c1) := cmd_err c 354 (bs "DATA") in
  match e with
  | RNil => (RNil, open_writer c1 false)
  | _ => (e, c1)
  end.

(* Client.LMTPData(statusCb); cb = (statusCb != nil) *)
Definition c_lmtp_data (c : client) (cb : bool) : result * client :=
  if negb (c_lmtp c) then (RLocal err_not_lmtp, c)
  else
    let '(e, c1) := cmd_err c 354 (bs "DATA") in
    match e with
    | RNil => (RNil, open_writer c1 cb)
    | _ => (e, c1)
    end.

(* dataCloser.Write(part) = dotWriter.Write(part).  Note that neither checks
   whether the writer was closed. *)
Definition dw_write (c : client) (part : bytes) : result * client :=
  match c_dw c with
  | None => (RLocal err_no_writer, c)
  | Some d =>
      let '(st, o) := DotWriter.dw_write (d_st d) part in
      let c1 := bw_write (set_dw c (Some (mkDW st (d_closed d) (d_cb d) (d_open d)))) o in
      match part with
      | [] => (RNil, c1)
      | _ :: _ => ((if c_werr c1 then RIo else RNil), c1)
      end
  end.

(* the LMTP reply loop of dataCloser.Close: one reply per entry of c.rcpts *)
Fixpoint lmtp_replies (rcpts : list bytes) (cb : bool) (c : client) (first : result)
  : result * client :=
  match rcpts with
  | [] => (first, c)
  | r :: rs =>
      let '((_, _, e), c1) := c_read c 250 in
      match e with
      | CNil => lmtp_replies rs cb (if cb then add_cb c1 r RNil else c1) first
      | CSmtp code ec m =>
          if cb then lmtp_replies rs cb (add_cb c1 r (RSmtp code ec m)) first
          else lmtp_replies rs cb c1 (if is_nil first then RSmtp code ec m else first)
      | _ => (res_of_cerr e, c1)
      end
  end.

(* dataCloser.Close() *)
Definition dw_close (c : client) : result * client :=
  match c_dw c with
  | None => (RLocal err_no_writer, c)
  | Some d =>
      if d_closed d then (RLocal err_closed_twice, c)
      else
        let c1 := set_dw c (Some (mkDW (d_st d) true (d_cb d) false)) in
        let '(ok, c2) := bw_flush (bw_write c1 (DotWriter.dw_close (d_st d))) in
        if negb ok then (RIo, c2)
        else if c_lmtp c2 then lmtp_replies (c_rcpts c2) (d_cb d) c2 RNil
        else let '((_, _, e), c3) := c_read c2 250 in (res_of_cerr e, c3)
  end.

(* ---------- RSET, NOOP, QUIT ---------- *)

Definition c_reset_step (c : client) : result * client :=
  let '(e, c1) := cmd_err c 250 (bs "RSET") in
  match e with
  | RNil => (RNil, set_rcpts (set_hello_err (set_did_hello c1 false) RNil) [])
  | _ => (e, c1)
  end.
Definition c_reset (c : client) : result * client := with_hello c c_reset_step.

Definition c_noop (c : client) : result * client :=
  with_hello c (fun c1 => cmd_err c1 250 (bs "NOOP")).

Definition c_quit_step (c : client) : result * client :=
  let '(e, c1) := cmd_err c 221 (bs "QUIT") in
  match e with
  | RNil => (RNil, set_closed c1 true)     (* c.Close() *)
  | _ => (e, c1)
  end.
Definition c_quit (c : client) : result * client := with_hello c c_quit_step.

(* ---------- AUTH ---------- *)

(* the client-side mechanism as a script: Start() = (mech, ir, err), then one
   step per Next() call *)
Inductive cstep :=
| CResp (r : option bytes)     (* (r, nil); None: a nil response *)
| CErr (text : bytes).         (* (nil, err) *)

Record cscript := mkCS {
  cs_mech : bytes;
  cs_ir : option bytes;             (* None: nil; Some []: empty, sent as "=" *)
  cs_start_err : option bytes;
  cs_steps : list cstep
}.

(* "abort the AUTH": c.cmd(501, "*"), result dropped *)
Definition auth_abort (c : client) : client := snd (c_cmd c 501 (bs "*")).

(* the loop of Auth, entered with err == nil, after the reply (code, msg64).
   [got]: the challenges handed to the mechanism's Next so far. *)
Fixpoint auth_loop (steps : list cstep) (c : client) (code : Z) (msg64 : bytes) (got : list bytes)
  : result * list bytes * client :=
  if (code =? 334)%Z then
    match b64_decode msg64 with
    | None => (RLocal err_base64, got, auth_abort c)
    | Some msg =>
        match steps with
        | [] => (RLocal err_script_exhausted, got ++ [msg], auth_abort c)
        | CErr t :: _ => (RLocal t, got ++ [msg], auth_abort c)
        | CResp None :: _ => (RNil, got ++ [msg], c)
        | CResp (Some r) :: steps' =>
            let '((code', msg', e), c1) := c_cmd c 0 (b64_encode r) in
            match e with
            | RNil => auth_loop steps' c1 code' msg' (got ++ [msg])
            | _ => (e, got ++ [msg], c1)
            end
        end
    end
  else if (code =? 235)%Z then (RNil, got, c)
  else
    let '(c', ec, m) := to_smtp_err code msg64 in (RSmtp c' ec m, got, auth_abort c).

(* strings.TrimSpace(fmt.Sprintf("AUTH %s %s", mech, resp64)) *)
Definition auth_line (s : cscript) : bytes :=
  let resp64 :=
    match cs_ir s with
    | None => []
    | Some [] => bs "="
    | Some ((_ :: _) as ir) => b64_encode ir
    end in
  trim_space (bs "AUTH " ++ cs_mech s ++ " " :: resp64).

(* Auth after hello *)
Definition c_auth_step (s : cscript) (c : client) : result * list bytes * client :=
  match cs_start_err s with
  | Some t => (RLocal t, [], c)
  | None =>
      let '((code, msg64, e), c1) := c_cmd c 0 (auth_line s) in
      match e with
      | RNil => auth_loop (cs_steps s) c1 code msg64 []
      | _ => (e, [], c1)
      end
  end.

(* Client.Auth(a): (error, challenges the mechanism received, state) *)
Definition c_auth (c : client) (s : cscript) : result * list bytes * client :=
  let '(h, c1) := c_hello c in
  match h with
  | RNil => c_auth_step s c1
  | _ => (h, [], c1)
  end.

(* ---------- SendMail (method) ---------- *)

Fixpoint rcpt_all (c : client) (tos : list bytes) : result * client :=
  match tos with
  | [] => (RNil, c)
  | t :: r =>
      let '(e, c1) := c_rcpt c t None in
      match e with RNil => rcpt_all c1 r | _ => (e, c1) end
  end.

(* Client.SendMail(from, to, r) with r a bytes.Reader over [body]: io.Copy
   makes one Write call with the whole body (none when it is empty) *)
Definition c_send_mail (c : client) (from : bytes) (tos : list bytes) (body : bytes)
  : result * client :=
  let '(e1, c1) := c_mail c from None in
  match e1 with
  | RNil =>
      let '(e2, c2) := rcpt_all c1 tos in
      match e2 with
      | RNil =>
          let '(e3, c3) := c_data c2 in
          match e3 with
          | RNil =>
              let '(e4, c4) := match body with [] => (RNil, c3) | _ :: _ => dw_write c3 body end in
              match e4 with
              | RNil => dw_close c4
              | _ => (e4, c4)
              end
          | _ => (e3, c3)
          end
      | _ => (e2, c2)
      end
  | _ => (e1, c1)
  end.

(* ---------- STARTTLS ---------- *)

(* setConn(tls.Client(c.conn, config)): a new textproto.Conn (new bufio
   reader and writer) over the TLS session.  Whatever the old reader had
   buffered or would still have received in plaintext is gone; the client
   reads the TLS application stream from now on.  When the handshake will
   fail ([c_tls_in] = None) the new connection fails every Read and Write. *)
Definition switch_to_tls (c : client) : client :=
  mkC (c_lmtp c) (c_local c) (c_did_greet c) (c_greet_err c) false (c_hello_err c) (c_ext c)
      (c_rcpts c) true
      (match c_tls_in c with Some _ => c_closed c | None => true end)
      false
      (match c_tls_in c with Some s => s | None => [] end)
      None (c_out c) [] None (c_cbs c).

(* Client.startTLS up to the handshake *)
Definition c_starttls (c : client) : result * client :=
  with_hello c (fun c1 =>
    let '(e, c2) := cmd_err c1 220 (bs "STARTTLS") in
    match e with
    | RNil => (RNil, switch_to_tls c2)
    | _ => (e, c2)
    end).

(* initStartTLS *)
Definition c_init_starttls (c : client) : result * client :=
  let '(h, c1) := c_hello c in
  match h with
  | RNil =>
      let '((ok, _), c2) := c_extension c1 (bs "STARTTLS") in
      if ok then c_starttls c2 else (RLocal err_no_starttls, c2)
  | _ => (h, c1)
  end.

(* NewClientStartTLS: on error the connection is closed (and no client is
   returned) *)
Definition c_new_starttls (c : client) : result * client :=
  let '(e, c1) := c_init_starttls c in
  match e with
  | RNil => (RNil, c1)
  | _ => (e, set_closed c1 true)
  end.

(* ---------- API calls as data (for replaying recorded call sequences) ---------- *)

Inductive call :=
| KHello (name : bytes)
| KVerify (addr : bytes)
| KMail (from : bytes) (opts : option mail_opts)
| KRcpt (to : bytes) (opts : option rcpt_opts)
| KData
| KLmtpData (cb : bool)
| KWrite (part : bytes)
| KClose
| KReset
| KNoop
| KQuit
| KAuth (s : cscript)
| KExtension (name : bytes)
| KSendMail (from : bytes) (tos : list bytes) (body : bytes)
| KStartTLS.                       (* NewClientStartTLS: only as the first call *)

(* what a call returns besides the error *)
Record cret := mkR {
  r_err : result;
  r_ext : option (bool * bytes);   (* Extension *)
  r_got : list bytes               (* Auth: challenges given to the mechanism *)
}.

Definition ret (p : result * client) : cret * client := (mkR (fst p) None [], snd p).

Definition run_call (c : client) (k : call) : cret * client :=
  match k with
  | KHello n => ret (c_hello_api c n)
  | KVerify a => ret (c_verify c a)
  | KMail f o => ret (c_mail c f o)
  | KRcpt t o => ret (c_rcpt c t o)
  | KData => ret (c_data c)
  | KLmtpData cb => ret (c_lmtp_data c cb)
  | KWrite p => ret (dw_write c p)
  | KClose => ret (dw_close c)
  | KReset => ret (c_reset c)
  | KNoop => ret (c_noop c)
  | KQuit => ret (c_quit c)
  | KAuth s => let '(e, got, c1) := c_auth c s in (mkR e None got, c1)
  | KExtension n => let '(x, c1) := c_extension c n in (mkR RNil (Some x) [], c1)
  | KSendMail f t b => ret (c_send_mail c f t b)
  | KStartTLS => ret (c_new_starttls c)
  end.

(* ---------- examples ---------- *)

Definition ex_stream : bytes :=
  bs "220 hi" ++ crlf ++
  bs "250-srv" ++ crlf ++ bs "250-SIZE 100" ++ crlf ++ bs "250-DSN" ++ crlf ++ bs "250 8BITMIME" ++ crlf ++
  bs "250 2.0.0 ok" ++ crlf ++ bs "250 ok" ++ crlf ++ bs "550 5.1.1 no" ++ crlf.

Example ex_mail_rcpt :
  let c0 := new_client false ex_stream None in
  let '(e1, c1) := c_mail c0 (bs "a@b") (Some (mkMO [] 42 false false (bs "FULL") (bs "id 1") None)) in
  let '(e2, c2) := c_rcpt c1 (bs "r@s") (Some (mkRO [bs "NEVER"] (bs "RFC822") (bs "o@p") None)) in
  let '(e3, c3) := c_rcpt c2 (bs "x@y") None in
  (e1, e2, e3, c_rcpts c3, c_out c3)
  = (RNil, RNil, RSmtp 550 (5, 1, 1)%Z (bs "no"), [bs "r@s"],
     bs "EHLO localhost" ++ crlf ++
     bs "MAIL FROM:<a@b> BODY=8BITMIME SIZE=42 RET=FULL ENVID=id+201" ++ crlf ++
     bs "RCPT TO:<r@s> NOTIFY=NEVER ORCPT=RFC822;o@p" ++ crlf ++
     bs "RCPT TO:<x@y>" ++ crlf).
Proof. vm_compute. reflexivity. Qed.

Example ex_inject_refused :
  let c0 := new_client false ex_stream None in
  c_mail c0 (bs "a@b>" ++ crlf ++ bs "RSET") None = (RLocal err_line, c0).
Proof. vm_compute. reflexivity. Qed.

(* MailOptions.Body is sent as given when its extension is offered *)
Example ex_body :
  let ext := Some (parse_ext (bs "srv" ++ [LF] ++ bs "8BITMIME")) in
  let body b := mkMO b 0 false false [] [] None in
  mail_params ext (Some (body (bs "7BIT"))) = inl [bs "BODY=7BIT"]
  /\ mail_params ext (Some (body (bs "8BITMIME"))) = inl [bs "BODY=8BITMIME"]
  /\ mail_params ext (Some (body (bs ""))) = inl [bs "BODY=8BITMIME"]
  /\ mail_params ext (Some (body (bs "BINARYMIME"))) = inr err_binarymime
  /\ mail_params ext (Some (body (bs "binarymime"))) = inr err_body
  /\ mail_params (Some (parse_ext (bs "srv" ++ [LF] ++ bs "BINARYMIME"))) (Some (body (bs "BINARYMIME")))
     = inl [bs "BODY=BINARYMIME"]
  /\ mail_params (Some (parse_ext (bs "srv" ++ [LF] ++ bs "BINARYMIME"))) (Some (body (bs "7BIT")))
     = inr err_8bitmime.
Proof. vm_compute. repeat split. Qed.

Example ex_rfc3339 :
  format_rfc3339 (mkRT 1700000000 0 0) = bs "2023-11-14T22:13:20Z"
  /\ format_rfc3339 (mkRT 1700000000 0 (-12600)) = bs "2023-11-14T18:43:20-03:30"
  /\ format_rfc3339 (mkRT (-62135596800) 0 3600) = bs "0001-01-01T01:00:00+01:00".
Proof. vm_compute. repeat split. Qed.
