module verifharness

go 1.21

require (
	github.com/emersion/go-sasl v0.0.0-20241020182733-b788ff22d5a6
	github.com/emersion/go-smtp v0.0.0
)

replace github.com/emersion/go-smtp => /repo
