(* C06 - MaxMessageBytes bounds what the backend is handed and what is
   accepted.  READER-LEVEL part for DATA (BDAT and SIZE= are separate).

   For every limit lim > 0, every transport state t (buffered octets + ANY
   schedule of future raw reads and failures) on which the line limiter stays
   quiet, and every list of backend read-buffer sizes:
   * C06_data_bound: the backend never obtains more than lim octets - for
     EVERY stream (complete or not) and also when it stops early (any stop);
   * C06_data_complete: for a stream holding a complete message [body]
     (per the specification [unstuff]) read to the end:
       |body| <= lim (INCLUDING |body| = lim, found through the one-octet
       probe): exactly [body], then io.EOF, transport behind the end marker;
       |body| > lim: exactly the first lim octets, then ErrDataTooLarge;
   * C06_data_same_as_unlimited: within the limit the run equals the run of
     the reader without limit (any other read sizes): same octets, same EOF,
     same transport position;
   * C06_data_exceeded: above the limit: first lim octets, ErrDataTooLarge,
     never io.EOF.
   * C06_data_bound_reading_on: a backend that goes on reading after reads
     that ended in a transport failure (a time-out inside the message: the
     Read hands out the octets it has TOGETHER with the error; the backend
     extends its deadline and reads on - ReadRetry.v), any number of times,
     still obtains at most lim octets - for every transport state and
     schedule, WITHOUT the hypothesis that the line limiter stays quiet.
   (That the command stream still resumes behind the end marker after
   ErrDataTooLarge is C02_resume.) *)
From Smtp Require Import Bytes Transport DataReader DotSpec TransportProofs DataProofs DataProofs2 ReadRetry ReadRetryProofs.

Theorem C06_data_bound (lim : Z) (sizes : list nat) (stop : option N) (t : transport) :
  (0 < lim)%Z -> transparent t ->
  let '(out, e, d', t') := backend_reads sizes stop (new_data_reader lim) t in
  (Z.of_nat (List.length out) <= lim)%Z.
Proof. exact (data_limit_bound lim sizes stop t). Qed.
Print Assumptions C06_data_bound.

Theorem C06_data_complete (lim : Z) (sizes : list nat) (t : transport) body rest :
  (0 < lim)%Z -> transparent t ->
  unstuff (tstream t) = Complete body rest ->
  let '(out, e, d', t') := backend_reads sizes None (new_data_reader lim) t in
  if (Z.of_nat (List.length body) <=? lim)%Z
  then out = body /\ e = Some REOF /\ tstream t' = rest /\ transparent t' /\
       tterm t' = tterm t /\ t_limit t' = t_limit t
  else out = firstn (Z.to_nat lim) body /\ e = Some RTooLarge /\ d_n d' = (-1)%Z.
Proof. exact (data_limit_complete lim sizes t body rest). Qed.
Print Assumptions C06_data_complete.

Theorem C06_data_same_as_unlimited (lim : Z) (sizes sizes0 : list nat) (t : transport) body rest :
  (0 < lim)%Z -> transparent t ->
  unstuff (tstream t) = Complete body rest ->
  (Z.of_nat (List.length body) <= lim)%Z ->
  let '(out, e, d', t') := backend_reads sizes None (new_data_reader lim) t in
  let '(out0, e0, d0', t0') := backend_reads sizes0 None (new_data_reader 0) t in
  out = out0 /\ e = e0 /\ out = body /\ e = Some REOF /\
  tstream t' = tstream t0' /\ tstream t' = rest /\ transparent t' /\
  tterm t' = tterm t /\ t_limit t' = t_limit t.
Proof. exact (data_limit_same_as_unlimited lim sizes sizes0 t body rest). Qed.
Print Assumptions C06_data_same_as_unlimited.

Theorem C06_data_exceeded (lim : Z) (sizes : list nat) (t : transport) body rest :
  (0 < lim)%Z -> transparent t ->
  unstuff (tstream t) = Complete body rest ->
  (lim < Z.of_nat (List.length body))%Z ->
  let '(out, e, d', t') := backend_reads sizes None (new_data_reader lim) t in
  out = firstn (Z.to_nat lim) body /\ Z.of_nat (List.length out) = lim /\
  e = Some RTooLarge /\ e <> Some REOF.
Proof. exact (data_limit_exceeded lim sizes t body rest). Qed.
Print Assumptions C06_data_exceeded.

(* non-vacuity: a 5-octet message under limits 6, 5 (exact fit: accepted), 4
   and 1 on a two-segment schedule under a line limit *)
Example C06_witness :
  transparent wit_t /\
  unstuff (tstream wit_t) = Complete (bs "abc" ++ [CR; LF]) (bs "NOOP" ++ [CR; LF]) /\
  wit_run 6 [3] None = (bs "abc" ++ [CR; LF], Some REOF, 1%Z, Some REOF, bs "NOOP" ++ [CR; LF]) /\
  wit_run 5 [3] None = (bs "abc" ++ [CR; LF], Some REOF, 0%Z, Some REOF, bs "NOOP" ++ [CR; LF]) /\
  wit_run 4 [3] None = (bs "abc" ++ [CR], Some RTooLarge, (-1)%Z, Some REOF, bs "NOOP" ++ [CR; LF]) /\
  wit_run 1 [7] None = (bs "a", Some RTooLarge, (-1)%Z, Some REOF, bs "NOOP" ++ [CR; LF]).
Proof. vm_compute. repeat split; reflexivity. Qed.

Theorem C06_data_bound_reading_on (lim : Z) (sizes : list nat) (stop : option N) (retry : nat) (t : transport) :
  (0 < lim)%Z ->
  let '(out, e, d', t') := backend_reads_retry sizes stop retry (new_data_reader lim) t in
  (Z.of_nat (List.length out) <= lim)%Z.
Proof. exact (retry_limit_bound lim sizes stop retry t). Qed.
Print Assumptions C06_data_bound_reading_on.
