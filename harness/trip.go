package harness

import (
	"bytes"
	"fmt"
	"io"
	"math/rand"
	"net"
	"strings"
	"sync"
	"sync/atomic"
	"time"

	sasl "github.com/emersion/go-sasl"
	smtp "github.com/emersion/go-smtp"
)

// End-to-end trips: the REAL go-smtp client talking to the REAL go-smtp
// server over an in-memory connection. The case records what the caller gave
// the client API, what each call returned, what the server's backend
// observed, and the octets that crossed in each direction.

type TripCall struct {
	Kind     string // hello mail rcpt data lmtpdata reset noop quit
	Arg      string // hello name / from / to
	MO       *smtp.MailOptions
	RO       *smtp.RcptOptions
	Parts    [][]byte // data: the Write calls
	Callback bool     // lmtpdata: with status callback
	Closes   int      // data: number of Close calls (1 or 2)
	Pauses   []int    // data: the caller sleeps Pauses[i] ms before its i-th Write, Pauses[len(Parts)] ms before the first Close
}

type TripCase struct {
	Cfg    Cfg
	CmdTmo time.Duration // Client.CommandTimeout (0: 6 s)
	Concur bool          // other trips run at the same time (gentripw.go)
	Script Script
	LMTP   bool
	Calls  []TripCall
	Extra  []*Sx
	// PreAuth: the client authenticates (AUTH PLAIN) before the scripted calls; not a recorded call
	PreAuth bool
}

type teeConn struct {
	net.Conn
	mu      sync.Mutex
	in      []byte // octets the server read (what the client sent)
	onWrite func([]byte)
}

func (t *teeConn) Read(b []byte) (int, error) {
	n, err := t.Conn.Read(b)
	if n > 0 {
		t.mu.Lock()
		t.in = append(t.in, b[:n]...)
		t.mu.Unlock()
	}
	return n, err
}

func (t *teeConn) Write(b []byte) (int, error) {
	if t.onWrite != nil {
		t.onWrite(b)
	}
	return t.Conn.Write(b)
}

func resSx(err error) *Sx {
	if err == nil {
		return A("nil")
	}
	if se, ok := err.(*smtp.SMTPError); ok {
		return L(A("smtp"), Num(int64(se.Code)), Num(int64(se.EnhancedCode[0])), Num(int64(se.EnhancedCode[1])), Num(int64(se.EnhancedCode[2])), XS(se.Message))
	}
	return L(A("local"), XS(err.Error()))
}

func moSx(o *smtp.MailOptions) *Sx {
	if o == nil {
		return A("none")
	}
	return L(A("mo"), XS(string(o.Body)), Num(o.Size), B(o.RequireTLS), B(o.UTF8), XS(string(o.Return)), XS(o.EnvelopeID), optStr(o.Auth))
}

func roSx(o *smtp.RcptOptions) *Sx {
	if o == nil {
		return A("none")
	}
	n := L()
	for _, v := range o.Notify {
		n.Add(XS(string(v)))
	}
	rr := A("none")
	if !o.RequireRecipientValidSince.IsZero() {
		t := o.RequireRecipientValidSince
		_, off := t.Zone()
		rr = L(A("rrvs"), Num(t.Unix()), Num(int64(t.Nanosecond())), Num(int64(off)))
	}
	return L(A("ro"), n, XS(string(o.OriginalRecipientType)), XS(o.OriginalRecipient), rr)
}

const tripHang = 30 * time.Second

var tripCount int64

func RunTrip(c TripCase) *Sx {
	be := &RecBackend{script: cloneScript(c.Script), LMTPSess: c.Cfg.LMTPSession, NoSync: true}
	if c.Cfg.HasAuth {
		be.AuthMechs = c.Cfg.Auth
	}
	s := smtp.NewServer(be)
	lg := &logWriter{}
	s.ErrorLog = lg
	s.Domain = c.Cfg.Domain
	s.LMTP = c.LMTP
	s.MaxRecipients = c.Cfg.MaxRcpt
	s.MaxMessageBytes = c.Cfg.MaxBytes
	s.MaxLineLength = c.Cfg.MaxLine
	s.AllowInsecureAuth = c.Cfg.Insecure
	s.EnableSMTPUTF8 = c.Cfg.UTF8
	s.EnableREQUIRETLS = c.Cfg.RequireTLS
	s.EnableBINARYMIME = c.Cfg.BinaryMIME
	s.EnableDSN = c.Cfg.DSN
	s.EnableRRVS = c.Cfg.RRVS

	c1, c2 := net.Pipe()
	srv := &teeConn{Conn: c2, onWrite: be.AddWire}
	l := newOneListener(srv)
	done := make(chan struct{})
	go func() { s.Serve(l); close(done) }()

	var cl *smtp.Client
	if c.LMTP {
		cl = smtp.NewClientLMTP(c1)
	} else {
		cl = smtp.NewClient(c1)
	}
	cl.CommandTimeout = 6 * time.Second
	cl.SubmissionTimeout = 6 * time.Second
	// every other trip also writes the client's debug transcript (a field the client reads on every
	// octet it sends or receives)
	if atomic.AddInt64(&tripCount, 1)%2 == 0 {
		cl.DebugWriter = io.Discard
	}
	if c.CmdTmo != 0 {
		cl.CommandTimeout = c.CmdTmo
	}

	results := L()
	calls := L()
	cbs := L()
	preAuth := A("none")
	if c.PreAuth {
		preAuth = resSx(cl.Auth(sasl.NewPlainClient("", "user", "pass")))
	}
	// a call that does not return within tripHang (a Write into a pipe nobody reads any more) has both ends
	// closed under it: the calls then fail with local errors, which the judges see
	wd := time.AfterFunc(tripHang, func() { c1.Close(); c2.Close() })
	defer wd.Stop()
	for _, k := range c.Calls {
		var err error
		wd.Reset(tripHang)
		switch k.Kind {
		case "hello":
			calls.Add(L(A("hello"), XS(k.Arg)))
			err = cl.Hello(k.Arg)
			results.Add(resSx(err))
		case "mail":
			calls.Add(L(A("mail"), XS(k.Arg), moSx(k.MO)))
			err = cl.Mail(k.Arg, k.MO)
			results.Add(resSx(err))
		case "rcpt":
			calls.Add(L(A("rcpt"), XS(k.Arg), roSx(k.RO)))
			err = cl.Rcpt(k.Arg, k.RO)
			results.Add(resSx(err))
		case "data", "lmtpdata":
			ps := L()
			for _, p := range k.Parts {
				ps.Add(X(p))
			}
			calls.Add(pausesSx(k.Pauses, L(A(k.Kind), ps, B(k.Callback), Num(int64(k.Closes)))))
			var w io.WriteCloser
			if k.Kind == "lmtpdata" {
				var cb func(string, *smtp.SMTPError)
				if k.Callback {
					cb = func(rcpt string, st *smtp.SMTPError) {
						if st == nil {
							cbs.Add(L(XS(rcpt), A("nil")))
						} else {
							cbs.Add(L(XS(rcpt), resSx(st)))
						}
					}
				}
				w, err = cl.LMTPData(cb)
			} else {
				w, err = cl.Data()
			}
			r := L(resSx(err))
			if err == nil {
				for i, p := range k.Parts {
					tripPause(k.Pauses, i)
					if _, werr := w.Write(p); werr != nil {
						r.Add(L(A("write-error"), XS(werr.Error())))
						break
					}
				}
				srv.mu.Lock()
				before := len(srv.in)
				srv.mu.Unlock()
				_ = before
				tripPause(k.Pauses, len(k.Parts))
				for i := 0; i < k.Closes; i++ {
					cerr := w.Close()
					r.Add(resSx(cerr))
					if i == 0 {
						cbs.Add(L(A("end")))
					}
				}
			}
			results.Add(r)
		case "reset":
			calls.Add(L(A("reset")))
			results.Add(resSx(cl.Reset()))
		case "noop":
			calls.Add(L(A("noop")))
			results.Add(resSx(cl.Noop()))
		case "quit":
			calls.Add(L(A("quit")))
			results.Add(resSx(cl.Quit()))
		}
	}
	// a final NOOP shows whether the dialogue is still in step (reply of the previous commands not eaten)
	cl.Close()
	c1.Close()
	l.Close()
	ctxDone := make(chan struct{})
	go func() {
		select {
		case <-done:
		case <-time.After(5 * time.Second):
		}
		close(ctxDone)
	}()
	<-ctxDone
	s.Close()
	time.Sleep(0)
	if c.Concur {
		waitDeliveries(be) // be.Wait() looks at the goroutines of the whole process
	} else {
		be.Wait()
	}

	be.mu.Lock()
	evs := L()
	for _, e := range be.Events {
		evs.Add(e)
	}
	be.mu.Unlock()
	srv.mu.Lock()
	in := append([]byte(nil), srv.in...)
	srv.mu.Unlock()
	res := L(A("trip"), c.Cfg.Sx(), c.Script.Sx(), L(A("lmtp"), B(c.LMTP)), L(A("calls"), calls),
		L(A("obs"), L(A("results"), results), L(A("events"), evs), L(A("callbacks"), cbs), L(A("sent"), X(in)),
			L(A("panics"), Num(int64(lg.count("panic serving"))))))
	if c.PreAuth {
		res.Add(L(A("preauth"), preAuth))
	}
	if len(c.Extra) > 0 {
		res.Add(L(append([]*Sx{A("expect")}, c.Extra...)...))
	}
	return res
}

// ---------- generators ----------

func fullCfg(lmtp bool) Cfg {
	c := DefaultCfg()
	c.LMTP = lmtp
	c.UTF8, c.DSN, c.RRVS, c.BinaryMIME, c.RequireTLS = true, true, true, true, true
	c.Insecure = true
	c.HasAuth, c.Auth = true, []string{"PLAIN"}
	return c
}

var tripStrings = []string{"100%%", "50%off", "%s%d", "a%41b", "plain", "a+b", "a=b", "a b", "a\\b", "{x}", "x{41}", "\\x{41}", "+2B", "\x7f", "café", "日本", "\U0001F600", "a+", "+", "=", "<>", "a@b", "q+3Dr@s", "", "\t"}

// UniSpaces: the non-ASCII code points for which unicode.IsSpace holds (Go's strings.Fields / TrimSpace
// separators): U+0085, U+00A0 and the White_Space property above Latin-1
var UniSpaces = []rune{0x85, 0xA0, 0x1680, 0x2000, 0x2001, 0x2002, 0x2003, 0x2004, 0x2005, 0x2006, 0x2007, 0x2008,
	0x2009, 0x200A, 0x2028, 0x2029, 0x202F, 0x205F, 0x3000}

func sp(s string) *string { return &s }

func isASCII(s string) bool {
	for i := 0; i < len(s); i++ {
		if s[i] >= 0x80 || s[i] < 0x21 || s[i] == 0x7f {
			return false
		}
	}
	return true
}

// GenTrip: envelope and options (C14), message bodies and Close (C16), backend errors (C17), LMTP statuses (C18).
func GenTrip(rng *rand.Rand, thorough bool, emit func(*Sx)) {
	// ---- C14: every string-valued option x strings; option subsets; server with/without SMTPUTF8 ----
	for _, utf8 := range []bool{true, false} {
		for si, str := range tripStrings {
			cfg := fullCfg(false)
			cfg.UTF8 = utf8
			// ENVID
			for variant := 0; variant < 5; variant++ {
				mo := &smtp.MailOptions{}
				ro := &smtp.RcptOptions{}
				switch variant {
				case 0:
					mo.EnvelopeID = str
				case 1:
					// MailOptions.Auth is a mailbox (or "" for AUTH=<>): use the string as local part
					if str == "" {
						mo.Auth = sp("")
					} else if strings.ContainsAny(str, " \t<>\"\\@()[]:;,") || !isASCII(str) {
						mo.Auth = sp("plain@example.com")
					} else {
						mo.Auth = sp(str + "@example.com")
					}
				case 2:
					ro.OriginalRecipientType, ro.OriginalRecipient = smtp.DSNAddressTypeRFC822, str
				case 3:
					ro.OriginalRecipientType, ro.OriginalRecipient = smtp.DSNAddressTypeUTF8, str
				case 4:
					mo.Size = []int64{1, 4294967296, 9223372036854775807, 1000}[si%4]
					mo.UTF8 = utf8 && si%2 == 0
					mo.Return = []smtp.DSNReturn{smtp.DSNReturnFull, smtp.DSNReturnHeaders, ""}[si%3]
					ro.Notify = [][]smtp.DSNNotify{{smtp.DSNNotifyNever}, {smtp.DSNNotifySuccess, smtp.DSNNotifyFailure}, {smtp.DSNNotifyDelayed}, nil}[si%4]
					ro.RequireRecipientValidSince = time.Date(2014+si, time.April, 3, 23, 1, si, 0, time.FixedZone("", (si%5-2)*3600)).Truncate(time.Second)
				}
				calls := []TripCall{{Kind: "mail", Arg: "sender@example.org", MO: mo}, {Kind: "rcpt", Arg: "rcpt@example.net", RO: ro}, {Kind: "quit"}}
				reps := 1
				if variant <= 1 {
					// the server visits MAIL parameters in Go map order: repeat, and add further parameters
					reps = 4
				}
				for r := 0; r < reps; r++ {
					if r >= 2 {
						mo.Size = int64(100 + r)
						mo.Return = smtp.DSNReturnHeaders
					}
					emit(RunTrip(TripCase{Cfg: cfg, Calls: calls, Extra: []*Sx{L(A("focus"), A("C14"))}}))
				}
			}
		}
	}
	// addresses
	for _, a := range []string{"a@b", "alice%dept.example@relay.example", "100%@x.example", "%s@%d.example", "user.name+tag@example.org", "üser@exämple.org", "x@[1.2.3.4]", "a@b> AUTH=<", "r@s> NOTIFY=NEVER", "a b@c", "", "<>"} {
		cfg := fullCfg(false)
		calls := []TripCall{{Kind: "mail", Arg: a, MO: &smtp.MailOptions{UTF8: true}}, {Kind: "rcpt", Arg: a}, {Kind: "quit"}}
		emit(RunTrip(TripCase{Cfg: cfg, Calls: calls, Extra: []*Sx{L(A("focus"), A("C14"))}}))
	}
	// the non-ASCII Unicode White_Space code points (unicode.IsSpace) in a UTF-8 ORCPT, each at the start, in the
	// middle and at the end, server with / without SMTPUTF8 (unitext / xtext form); sent raw in the unitext form
	// they were cut off by the server's strings.Fields / TrimSpace (formerly finding F29)
	for _, utf8 := range []bool{true, false} {
		for _, sp := range UniSpaces {
			u := string(sp)
			for _, v := range []string{u + "x@y", "x" + u + "y@z", "x@y" + u, u + "x" + u + "@" + u + u + "y" + u} {
				cfg := fullCfg(false)
				cfg.UTF8 = utf8
				ro := &smtp.RcptOptions{OriginalRecipientType: smtp.DSNAddressTypeUTF8, OriginalRecipient: v}
				calls := []TripCall{{Kind: "mail", Arg: "sender@example.org"}, {Kind: "rcpt", Arg: "rcpt@example.net", RO: ro}, {Kind: "quit"}}
				emit(RunTrip(TripCase{Cfg: cfg, Calls: calls, Extra: []*Sx{L(A("focus"), A("C14"))}}))
			}
		}
	}
	// MailOptions.Body: unset, the three values, wrong case / unknown x server with / without BINARYMIME
	// x Body alone / with every other MAIL option; after a non-BINARYMIME Body a whole transaction
	// (RCPT, DATA), after BINARYMIME the RCPT and the DATA the server must refuse (502)
	for _, bin := range []bool{true, false} {
		for _, body := range []smtp.BodyType{"", smtp.Body7Bit, smtp.Body8BitMIME, smtp.BodyBinaryMIME, "binarymime", "7bit", "X", "8BITMIME "} {
			for variant := 0; variant < 3; variant++ {
				cfg := fullCfg(false)
				cfg.BinaryMIME = bin
				mo := &smtp.MailOptions{Body: body}
				if variant >= 1 {
					mo.Size, mo.UTF8, mo.Return, mo.EnvelopeID, mo.Auth = 1000, true, smtp.DSNReturnFull, "id+1", sp("a@example.com")
				}
				calls := []TripCall{{Kind: "mail", Arg: "s@x", MO: mo}, {Kind: "quit"}}
				if variant == 2 {
					calls = []TripCall{{Kind: "mail", Arg: "s@x", MO: mo}, {Kind: "rcpt", Arg: "r@x"},
						{Kind: "data", Parts: [][]byte{[]byte("caf\xe9\r\n")}, Closes: 1}, {Kind: "quit"}}
				}
				emit(RunTrip(TripCase{Cfg: cfg, Calls: calls, Extra: []*Sx{L(A("focus"), A("C14"))}}))
			}
		}
	}

	// ---- C16: bodies x Write partitions x verdict x SMTP/LMTP, Close twice ----
	tokens := []string{".", "\n", "\r\n", "x"}
	maxLen := 5
	if thorough {
		maxLen = 7
	}
	idx := 0
	var bodies []string
	var rec func(prefix string, depth int)
	rec = func(prefix string, depth int) {
		bodies = append(bodies, prefix)
		if depth == maxLen {
			return
		}
		for _, t := range tokens {
			rec(prefix+t, depth+1)
		}
	}
	rec("", 0)
	for i := 0; i < 40; i++ {
		n := rng.Intn(60)
		b := make([]byte, n)
		for j := range b {
			b[j] = byte(rng.Intn(256))
			if b[j] == '\r' {
				b[j] = 'r'
			}
		}
		bodies = append(bodies, string(b)+"\r\n.\r\nMAIL FROM:<bait@evil>\r\n")
	}
	for _, body := range bodies {
		idx++
		if !thorough && idx%3 != 0 && len(body) > 3 {
			continue
		}
		for _, lmtp := range []bool{false, true} {
			if lmtp && idx%2 == 0 {
				continue
			}
			cfg := fullCfg(lmtp)
			var parts [][]byte
			switch idx % 3 {
			case 0:
				parts = [][]byte{[]byte(body)}
			case 1:
				for i := 0; i < len(body); i++ {
					parts = append(parts, []byte{body[i]})
				}
			default:
				k := 0
				if len(body) > 0 {
					k = rng.Intn(len(body) + 1)
				}
				parts = [][]byte{[]byte(body[:k]), []byte(body[k:])}
			}
			sc := Script{}
			p := DefaultPlan()
			if idx%4 == 0 {
				p.Ret = rejectErr()
			}
			sc.Data = []DataPlan{p}
			kind := "data"
			calls := []TripCall{{Kind: "mail", Arg: "s@x"}, {Kind: "rcpt", Arg: "r1@x"}, {Kind: "rcpt", Arg: "r2@x"},
				{Kind: kind, Parts: parts, Closes: 1 + idx%2}, {Kind: "noop"}, {Kind: "quit"}}
			emit(RunTrip(TripCase{Cfg: cfg, Script: sc, LMTP: lmtp, Calls: calls, Extra: []*Sx{L(A("focus"), A("C16"))}}))
		}
	}

	// several messages over one connection: the size of the earlier traffic must not matter
	step := 13
	if thorough {
		step = 1
	}
	for n1 := 1500; n1 < 1900; n1 += step {
		for _, lmtp := range []bool{false, true} {
			if lmtp && n1%2 == 0 && !thorough {
				continue
			}
			cfg := fullCfg(lmtp)
			var b1 []byte
			for len(b1) < n1 {
				b1 = append(b1, "a line of the first message, 60 octets long, ends here ....\r\n"...)
			}
			b1 = b1[:n1]
			b2 := []byte("Subject: " + strings.Repeat("s", 69) + "\r\n.dot line\r\n.\r\nend\r\n")
			calls := []TripCall{{Kind: "mail", Arg: "s1@x"}, {Kind: "rcpt", Arg: "r1@x"}, {Kind: "data", Parts: [][]byte{b1}, Closes: 1},
				{Kind: "mail", Arg: "s2@x"}, {Kind: "rcpt", Arg: "r2@x"}, {Kind: "rcpt", Arg: "r3@x"}, {Kind: "data", Parts: [][]byte{b2}, Closes: 1},
				{Kind: "mail", Arg: "s3@x"}, {Kind: "rcpt", Arg: "r4@x"}, {Kind: "data", Parts: [][]byte{[]byte("third\r\n")}, Closes: 1},
				{Kind: "quit"}}
			emit(RunTrip(TripCase{Cfg: cfg, LMTP: lmtp, Calls: calls, Extra: []*Sx{L(A("focus"), A("C16"))}}))
		}
	}
	// long messages whose line ends sweep across every buffer boundary (4096-octet refills, the backend's
	// read buffer), every line dot-stuffed: a line start missed anywhere leaves an extra '.' or loses the end
	readSizes := [][]int{{4096}, {512}, {100}, {7}, {511, 1}}
	for li, ll := range []int{5, 11, 13, 17, 29, 31, 61, 127} {
		for ri, rs := range readSizes {
			if !thorough && (li+ri)%2 != 0 {
				continue
			}
			var body []byte
			for len(body) < 9000 {
				body = append(body, '.')
				body = append(body, strings.Repeat("d", ll-(len(body)/97)%3)...)
				body = append(body, '\r', '\n')
			}
			cfg := fullCfg(li%3 == 0)
			p := DefaultPlan()
			p.Sizes = rs
			if ri%2 == 1 {
				// read to the end, then refused: Close reports that refusal (in LMTP: as the first recipient heard it)
				p.Ret = rejectErr()
			}
			calls := []TripCall{{Kind: "mail", Arg: "s@x"}, {Kind: "rcpt", Arg: "r1@x"}, {Kind: "rcpt", Arg: "r2@x"},
				{Kind: "data", Parts: [][]byte{body[:len(body)/3], body[len(body)/3:]}, Closes: 1}, {Kind: "noop"}, {Kind: "quit"}}
			emit(RunTrip(TripCase{Cfg: cfg, Script: Script{Data: []DataPlan{p}}, LMTP: cfg.LMTP, Calls: calls, Extra: []*Sx{L(A("focus"), A("C16"))}}))
		}
	}
	// many recipients, then a message
	for _, nr := range []int{40, 90} {
		cfg := fullCfg(false)
		calls := []TripCall{{Kind: "mail", Arg: "s@x"}}
		for i := 0; i < nr; i++ {
			calls = append(calls, TripCall{Kind: "rcpt", Arg: fmt.Sprintf("recipient-number-%03d@example.org", i)})
		}
		calls = append(calls, TripCall{Kind: "data", Parts: [][]byte{[]byte("Subject: " + strings.Repeat("s", 69) + "\r\nbody\r\n")}, Closes: 1}, TripCall{Kind: "noop"}, TripCall{Kind: "quit"})
		emit(RunTrip(TripCase{Cfg: cfg, Calls: calls, Extra: []*Sx{L(A("focus"), A("C16"))}}))
	}

	// ---- C14: an authenticated client, several transactions with Reset (which makes the client say EHLO again) ----
	for _, lmtp := range []bool{false, true} {
		for _, pre := range []bool{true, false} {
			for variant := 0; variant < 3; variant++ {
				cfg := fullCfg(lmtp)
				a1, a2 := "first@auth.example", "second+3D@auth.example"
				empty := ""
				mo1 := &smtp.MailOptions{Auth: &a1, EnvelopeID: "e1", Return: smtp.DSNReturnFull, Size: 10}
				mo2 := &smtp.MailOptions{Auth: &a2, EnvelopeID: "e2", Return: smtp.DSNReturnHeaders, UTF8: true}
				mo3 := &smtp.MailOptions{Auth: &empty, Size: 3}
				ro := &smtp.RcptOptions{Notify: []smtp.DSNNotify{smtp.DSNNotifyFailure}, OriginalRecipientType: smtp.DSNAddressTypeRFC822, OriginalRecipient: "o@x"}
				calls := []TripCall{{Kind: "mail", Arg: "s1@x", MO: mo1}, {Kind: "rcpt", Arg: "r1@x", RO: ro}}
				switch variant {
				case 0:
					calls = append(calls, TripCall{Kind: "reset"})
				case 1:
					calls = append(calls, TripCall{Kind: "data", Parts: [][]byte{[]byte("one\r\n")}, Closes: 1}, TripCall{Kind: "reset"})
				case 2:
					calls = append(calls, TripCall{Kind: "reset"}, TripCall{Kind: "reset"}, TripCall{Kind: "noop"})
				}
				calls = append(calls, TripCall{Kind: "mail", Arg: "s2@x", MO: mo2}, TripCall{Kind: "rcpt", Arg: "r2@x", RO: ro},
					TripCall{Kind: "reset"}, TripCall{Kind: "mail", Arg: "s3@x", MO: mo3}, TripCall{Kind: "rcpt", Arg: "r3@x"}, TripCall{Kind: "quit"})
				emit(RunTrip(TripCase{Cfg: cfg, LMTP: lmtp, Calls: calls, PreAuth: pre, Extra: []*Sx{L(A("focus"), A("C14"))}}))
			}
		}
	}

	// ---- C14: long ENVID / ORCPT values whose xtext form is much longer than the value ----
	for _, lmtp := range []bool{false, true} {
		for _, ev := range []string{strings.Repeat("a", 99) + "+", "id=" + strings.Repeat("x", 97), strings.Repeat("+", 34), strings.Repeat("=", 100),
			strings.Repeat("e", 100), strings.Repeat("+ ", 50), strings.Repeat("q", 300)} {
			cfg := fullCfg(lmtp)
			mo := &smtp.MailOptions{EnvelopeID: ev}
			ro := &smtp.RcptOptions{OriginalRecipientType: smtp.DSNAddressTypeRFC822, OriginalRecipient: strings.Repeat("+", 40) + "@" + strings.Repeat("o", len(ev)) + ".example"}
			calls := []TripCall{{Kind: "mail", Arg: "s@x", MO: mo}, {Kind: "rcpt", Arg: "r@x", RO: ro}, {Kind: "quit"}}
			emit(RunTrip(TripCase{Cfg: cfg, LMTP: lmtp, Calls: calls, Extra: []*Sx{L(A("focus"), A("C14"))}}))
		}
	}

	// ---- C16: a backend that refuses a large message without reading it (the pipe between client and server
	// holds nothing: whoever writes first must not wait for the other for ever) ----
	for _, lmtp := range []bool{false, true} {
		for _, stop := range []int64{0, 3} {
			for _, nparts := range []int{1, 8} {
				cfg := fullCfg(lmtp)
				p := DefaultPlan()
				p.Stop, p.Ret = stop, rejectErr()
				if stop > 0 {
					p.Sizes = []int{int(stop)}
				}
				big := bytes.Repeat([]byte("a line of a message that is refused unread .........\r\n"), 150)
				var parts [][]byte
				for i := 0; i < nparts; i++ {
					parts = append(parts, big[len(big)*i/nparts:len(big)*(i+1)/nparts])
				}
				calls := []TripCall{{Kind: "mail", Arg: "s@x"}, {Kind: "rcpt", Arg: "r1@x"},
					{Kind: "data", Parts: parts, Closes: 1}, {Kind: "noop"}, {Kind: "quit"}}
				emit(RunTrip(TripCase{Cfg: cfg, Script: Script{Data: []DataPlan{p}}, LMTP: lmtp, Calls: calls, Extra: []*Sx{L(A("focus"), A("C16"))}}))
			}
		}
	}

	// ---- C16: the null reverse-path ----
	for _, lmtp := range []bool{false, true} {
		for _, from := range []string{""} {
			for _, reject := range []bool{false, true} {
				cfg := fullCfg(lmtp)
				p := DefaultPlan()
				if reject {
					p.Ret = rejectErr()
				}
				calls := []TripCall{{Kind: "mail", Arg: from}, {Kind: "rcpt", Arg: "r1@x"}, {Kind: "rcpt", Arg: "r2@x"},
					{Kind: "data", Parts: [][]byte{[]byte("bounce\r\n.dot\r\n")}, Closes: 1}, {Kind: "noop"}, {Kind: "quit"}}
				emit(RunTrip(TripCase{Cfg: cfg, Script: Script{Data: []DataPlan{p}}, LMTP: lmtp, Calls: calls, Extra: []*Sx{L(A("focus"), A("C16"))}}))
			}
		}
	}

	// ---- C17: backend errors at the four callbacks ----
	msgs := []string{"", " lead", "trail ", "5.1.1 looks like a code", "café", "one\ntwo", "one\ntwo\nthree", "550 5.1.1 x", "x\n\ny"}
	ecs := [][3]int{{0, 0, 0}, {5, 1, 1}, {4, 2, 0}, {-1, -1, -1}}
	codes := []int{550, 451, 421, 552, 599, 400}
	n := 0
	for _, code := range codes {
		for _, ec := range ecs {
			if ec[0] > 0 && ec[0] != code/100 {
				continue
			}
			for _, m := range msgs {
				for site := 0; site < 5; site++ {
					n++
					if !thorough && n%3 != 0 {
						continue
					}
					e := BSmtp(code, ec, m)
					if n%11 == 0 {
						e = BPlain(m + "x")
					}
					if n%13 == 0 {
						e = BPlain("timeout: " + m)
					}
					cfg := fullCfg(false)
					sc := Script{}
					calls := []TripCall{}
					if site > 0 && n%2 == 0 {
						// the first EHLO is refused with 502: the client falls back to HELO, and the
						// backend's errors must reach it all the same
						sc.NS = []BErr{BSmtp(502, [3]int{5, 5, 1}, "no EHLO today")}
					}
					switch site {
					case 0:
						sc.NS = []BErr{e}
						calls = []TripCall{{Kind: "hello", Arg: "client.example"}}
					case 1:
						sc.Mail = []BErr{e}
						calls = []TripCall{{Kind: "mail", Arg: "s@x"}}
					case 2:
						sc.Rcpt = []BErr{e}
						calls = []TripCall{{Kind: "mail", Arg: "s@x"}, {Kind: "rcpt", Arg: "r@x"}}
					case 3:
						p := DefaultPlan()
						p.Ret = e
						sc.Data = []DataPlan{p}
						calls = []TripCall{{Kind: "mail", Arg: "s@x"}, {Kind: "rcpt", Arg: "r@x"}, {Kind: "data", Parts: [][]byte{[]byte("hi\r\n")}, Closes: 1}}
					case 4:
						// the refusal of a LATER recipient, after one was accepted (judged like site 2, third call)
						sc.Rcpt = []BErr{BNil, e}
						calls = []TripCall{{Kind: "mail", Arg: "s@x"}, {Kind: "rcpt", Arg: "r@x"}, {Kind: "rcpt", Arg: "r2@x"}}
					}
					calls = append(calls, TripCall{Kind: "quit"})
					emit(RunTrip(TripCase{Cfg: cfg, Script: sc, Calls: calls, Extra: []*Sx{L(A("focus"), A("C17")), L(A("site"), Num(int64(site))), L(A("err"), e.Sx())}}))
				}
			}
		}
	}

	// ---- C18: LMTP transactions ----
	for ntx := 1; ntx <= 3; ntx++ {
		for mask := 0; mask < 1<<6; mask++ {
			for _, cb := range []bool{true, false} {
				n++
				if !thorough && n%4 != 0 {
					continue
				}
				cfg := fullCfg(true)
				cfg.LMTPSession = true
				sc := Script{}
				var calls []TripCall
				for t := 0; t < ntx; t++ {
					nr := 1 + (mask>>(2*t))%3
					calls = append(calls, TripCall{Kind: "mail", Arg: fmt.Sprintf("s%d@x", t)})
					p := DefaultPlan()
					accepted := 0
					for i := 0; i < nr; i++ {
						addr := fmt.Sprintf("t%dr%d@x", t, i)
						refuse := (mask>>(t+i))&1 == 1 && i > 0
						if refuse {
							sc.Rcpt = append(sc.Rcpt, rejectErr())
						} else {
							sc.Rcpt = append(sc.Rcpt, BNil)
							accepted++
							if (mask>>(i+2*t+1))&1 == 1 {
								p.Status = append(p.Status, StatusCall{Addr: addr, Err: BSmtp(550, [3]int{5, 1, 1}, "no "+addr)})
							}
						}
						calls = append(calls, TripCall{Kind: "rcpt", Arg: addr})
					}
					sc.Data = append(sc.Data, p)
					calls = append(calls, TripCall{Kind: "lmtpdata", Parts: [][]byte{[]byte("msg\r\n")}, Callback: cb, Closes: 1})
					_ = accepted
				}
				calls = append(calls, TripCall{Kind: "noop"}, TripCall{Kind: "quit"})
				emit(RunTrip(TripCase{Cfg: cfg, Script: sc, LMTP: true, Calls: calls, Extra: []*Sx{L(A("focus"), A("C18"))}}))
			}
		}
	}
	// the same address given to Rcpt more than once in a transaction: an LMTP server answers once per RCPT command
	for _, cb := range []bool{true, false} {
		for variant := 0; variant < 3; variant++ {
			cfg := fullCfg(true)
			cfg.LMTPSession = true
			sc := Script{}
			var calls []TripCall
			for t := 0; t < 2; t++ {
				calls = append(calls, TripCall{Kind: "mail", Arg: fmt.Sprintf("d%d@x", t)})
				addrs := [][]string{{"dup@x", "dup@x"}, {"a@x", "dup@x", "b@x", "dup@x"}, {"dup@x", "other@x", "dup@x", "dup@x"}}[variant]
				p := DefaultPlan()
				if t == 1 {
					p.Ret = BSmtp(450, [3]int{4, 2, 0}, "later")
				}
				for range addrs {
					sc.Rcpt = append(sc.Rcpt, BNil)
				}
				for _, a := range addrs {
					calls = append(calls, TripCall{Kind: "rcpt", Arg: a})
				}
				sc.Data = append(sc.Data, p)
				kind := "lmtpdata"
				if !cb && t == 1 {
					kind = "data"
				}
				calls = append(calls, TripCall{Kind: kind, Parts: [][]byte{[]byte("msg\r\n")}, Callback: cb, Closes: 1})
			}
			calls = append(calls, TripCall{Kind: "noop"}, TripCall{Kind: "quit"})
			emit(RunTrip(TripCase{Cfg: cfg, Script: sc, LMTP: true, Calls: calls, Extra: []*Sx{L(A("focus"), A("C18"))}}))
		}
	}
	// one connection, several transactions, each finished through a different entry point
	kinds := []struct {
		kind string
		cb   bool
	}{{"lmtpdata", true}, {"lmtpdata", false}, {"data", false}}
	for ntx := 2; ntx <= 3; ntx++ {
		total := 1
		for i := 0; i < ntx; i++ {
			total *= 3
		}
		for pat := 0; pat < total; pat++ {
			cfg := fullCfg(true)
			cfg.LMTPSession = true
			sc := Script{}
			var calls []TripCall
			x := pat
			for t := 0; t < ntx; t++ {
				k := kinds[x%3]
				x /= 3
				calls = append(calls, TripCall{Kind: "mail", Arg: fmt.Sprintf("s%d@x", t)})
				p := DefaultPlan()
				for i := 0; i < 2; i++ {
					addr := fmt.Sprintf("m%dr%d@x", t, i)
					sc.Rcpt = append(sc.Rcpt, BNil)
					if (i+t+pat)%2 == 0 {
						p.Status = append(p.Status, StatusCall{Addr: addr, Err: BSmtp(550, [3]int{5, 1, 1}, "no "+addr)})
					}
					calls = append(calls, TripCall{Kind: "rcpt", Arg: addr})
				}
				sc.Data = append(sc.Data, p)
				calls = append(calls, TripCall{Kind: k.kind, Parts: [][]byte{[]byte("msg\r\n")}, Callback: k.cb, Closes: 1})
			}
			calls = append(calls, TripCall{Kind: "noop"}, TripCall{Kind: "quit"})
			emit(RunTrip(TripCase{Cfg: cfg, Script: sc, LMTP: true, Calls: calls, Extra: []*Sx{L(A("focus"), A("C18"))}}))
		}
	}
	_ = strings.Repeat
}
