(* conn.go handleDataLMTP with an LMTPSession backend: two goroutines.

   DELIVERY task (the goroutine started by handleDataLMTP):
       status.fillRemaining(lmtpSession.LMTPData(r, status)); done <- true
     the backend makes its SetStatus calls one at a time, then returns [ret]
     (fillRemaining ret, done <- true) or panics / a SetStatus call panics
     (recover: fillRemaining errPanic, done <- false).
   HANDLER task (the connection's goroutine):
       for i, rcpt := range c.recipients { <-status.status[i]; writeResponse }
       if !<-done { c.Close() }

   Go channel semantics (runtime/chan.go) of the operations used:
   * SetStatus / fillRemaining send with  select { case ch <- err: default: … }:
     never blocks.  It succeeds if a receiver is parked on the channel (the
     value is handed to it directly, the buffer is not used) or the buffer has
     room; otherwise the default branch runs (SetStatus: panic; fillRemaining:
     go on to the next channel).
   * <-ch takes the oldest buffered value; if the buffer is empty the handler
     parks on the channel (atomically with the test) and is woken by the next
     send on that channel.
   * fillRemaining is not atomic: it visits the channels one after the other
     ([ord]: Go's map iteration order, arbitrary) and sends to each one until
     a send fails.

   A schedule is a [list bool]: [true] = the delivery task makes its next
   atomic step, [false] = the handler does.  The turn of a task that is
   blocked or has finished is a stutter (the state does not change). *)
From Smtp Require Import Bytes Reply Lmtp.

Inductive dstate :=
| DCalls (l : list (bytes * berr))             (* inside LMTPData: SetStatus calls still to make *)
| DFill (o : list bytes) (e : berr) (p : bool) (* inside fillRemaining e: channels still to visit; p: after a panic *)
| DDone (p : bool).                            (* done <- !p has been sent *)

Record cstate := mkCS {
  cs_coll : collector;            (* the channels: capacity and buffered statuses *)
  cs_del : dstate;
  cs_todo : list bytes;           (* recipients the handler has not received a status for *)
  cs_parked : bool;               (* the handler is parked in <-status.status[i] (head of cs_todo) *)
  cs_out : list (bytes * berr);   (* statuses the handler received = replies it writes, in order *)
  cs_fin : option bool            (* the handler received from done: Some closeConnection *)
}.

Definition set_coll (s : cstate) (c : collector) : cstate :=
  mkCS c (cs_del s) (cs_todo s) (cs_parked s) (cs_out s) (cs_fin s).
Definition set_del (s : cstate) (d : dstate) : cstate :=
  mkCS (cs_coll s) d (cs_todo s) (cs_parked s) (cs_out s) (cs_fin s).

(* non-blocking send of e on the channel of address a; None = the default
   branch of the select (also: no such channel) *)
Definition chan_send (a : bytes) (e : berr) (s : cstate) : option cstate :=
  let buffered :=
    match set_status a e (cs_coll s) with
    | Some c' => Some (set_coll s c')
    | None => None
    end in
  match cs_todo s with
  | a' :: r =>
      if cs_parked s && bytes_eqb a a'
      then (* direct hand-off to the parked handler *)
        Some (mkCS (cs_coll s) (cs_del s) r false (cs_out s ++ [(a', e)]) (cs_fin s))
      else buffered
  | [] => buffered
  end.

Section Steps.
  Variable ret : berr.          (* return value of LMTPData *)
  Variable panic : bool.        (* the backend panics instead of returning *)
  Variable ord : list bytes.    (* order in which fillRemaining visits the channels *)

  Definition del_step (s : cstate) : cstate :=
    match cs_del s with
    | DCalls ((a, e) :: l) =>
        match chan_send a e s with
        | Some s' => set_del s' (DCalls l)
        | None => set_del s (DFill ord err_panic true)       (* SetStatus panics *)
        end
    | DCalls [] =>
        if panic then set_del s (DFill ord err_panic true)
        else set_del s (DFill ord ret false)
    | DFill (a :: o) e p =>
        match chan_send a e s with
        | Some s' => s'                                       (* sent one; try this channel again *)
        | None => set_del s (DFill o e p)                     (* full: continue chLoop *)
        end
    | DFill [] e p => set_del s (DDone p)
    | DDone _ => s
    end.

  Definition han_step (s : cstate) : cstate :=
    match cs_fin s with
    | Some _ => s
    | None =>
        match cs_todo s with
        | a :: r =>
            if cs_parked s then s       (* blocked until a send on a's channel *)
            else
              match pop_status a (cs_coll s) with
              | Some (e, c') => mkCS c' (cs_del s) r false (cs_out s ++ [(a, e)]) None
              | None => mkCS (cs_coll s) (cs_del s) (cs_todo s) true (cs_out s) None
              end
        | [] =>
            match cs_del s with
            | DDone p => mkCS (cs_coll s) (cs_del s) [] (cs_parked s) (cs_out s) (Some p)
            | _ => s                    (* blocked in <-done *)
            end
        end
    end.

  Definition step (s : cstate) (who : bool) : cstate :=
    if who then del_step s else han_step s.

  Definition run (sch : list bool) (s : cstate) : cstate := fold_left step sch s.
End Steps.

Definition conc_init (rcpts : list bytes) (calls : list (bytes * berr)) : cstate :=
  mkCS (mk_collector rcpts) (DCalls calls) rcpts false [] None.

(* the run of handleDataLMTP under a schedule *)
Definition conc_run (rcpts : list bytes) (calls : list (bytes * berr)) (ret : berr) (panic : bool)
           (ord : list bytes) (sch : list bool) : cstate :=
  run ret panic ord sch (conc_init rcpts calls).

Definition del_done (s : cstate) : bool :=
  match cs_del s with DDone _ => true | _ => false end.
Definition finished (s : cstate) : bool :=
  match cs_fin s with Some _ => true | None => false end.

(* remaining work: every step that is not a stutter decreases it *)
Definition room (c : collector) : nat :=
  fold_right (fun '(_, (n, q)) r => (n - List.length q) + r)%nat 0%nat c.
Definition work (ord : list bytes) (s : cstate) : nat :=
  (3 * List.length (cs_todo s) + room (cs_coll s) + (if cs_parked s then 0 else 1)
   + match cs_del s with
     | DCalls l => List.length l + List.length ord + 2
     | DFill o _ _ => List.length o + 1
     | DDone _ => 0
     end
   + (if finished s then 0 else 1))%nat.

(* n rounds, each giving a turn to both tasks *)
Inductive fair_rounds : nat -> list bool -> Prop :=
| fair_0 sch : fair_rounds 0 sch
| fair_S n r sch : In true r -> In false r -> fair_rounds n sch -> fair_rounds (S n) (r ++ sch).
