(* C06 for a backend that goes on reading after failed reads.

   [retry_limit_bound]: with MaxMessageBytes = lim > 0, a backend obtains at
   most lim octets from one DATA reader - for EVERY transport state (any
   buffered octets, any schedule of future raw reads and failures, line
   limiter tripping or not), every list of read-buffer sizes, every stopping
   point and every number of failed reads it chooses to ignore.  The octets
   that a Read hands out together with an error are charged like all others
   ([dr_read_budget]); that is the invariant the seeded change C06G broke.

   No transparency hypothesis is needed: the bound is a property of the
   budget bookkeeping of dataReader.Read alone. *)
From Smtp Require Import Bytes Transport DataReader ReadRetry.
From Coq Require Import Lia.

(* the loop of dataReader.Read never writes more than the room it was given *)
Lemma dr_loop_length fuel :
  forall s t room o e s' t',
    dr_loop fuel s t room = (o, e, s', t') -> List.length o <= room.
Proof.
  induction fuel as [|fuel IH]; intros s t room o e s' t' H.
  - cbn [dr_loop] in H. inversion H; subst. cbn. lia.
  - cbn [dr_loop] in H. destruct room as [|room'].
    + inversion H; subst. cbn. lia.
    + destruct (dstate_eqb s SEOF) eqn:Es.
      * inversion H; subst. cbn. lia.
      * destruct (t_read_byte t) as [[c|err] t1] eqn:Erb.
        -- destruct (dr_step s c) as [s1|s1 x|s1 x] eqn:Est.
           ++ apply IH in H. exact H.
           ++ destruct (dr_loop fuel s1 t1 room') as [[[o1 e1] s2] t2] eqn:El.
              inversion H; subst. apply IH in El. cbn [List.length]. lia.
           ++ destruct (dr_loop fuel s1 (t_unread_byte c t1) room') as [[[o1 e1] s2] t2] eqn:El.
              inversion H; subst. apply IH in El. cbn [List.length]. lia.
        -- inversion H; subst. cbn. lia.
Qed.

(* what a limited reader can still hand out *)
Definition budget_left (d : dreader) : Z := Z.max 0 (d_n d).

(* one Read of a limited reader: the octets it hands out - with or without an
   error - come off the budget *)
Lemma dr_read_budget d t lenb o e d' t' :
  d_limited d = true ->
  dr_read d t lenb = (o, e, d', t') ->
  d_limited d' = true /\ (Z.of_nat (List.length o) + budget_left d' <= budget_left d)%Z.
Proof.
  intros Hl H. unfold dr_read in H. rewrite Hl in H. unfold budget_left.
  destruct (d_n d =? 0)%Z eqn:E0.
  - apply Z.eqb_eq in E0.
    destruct (dr_loop (dr_fuel t 1) (d_state d) t 1) as [[[o1 e1] s1] t1].
    destruct o1 as [|x o1]; inversion H; subst; cbn [d_limited d_n List.length]; split; try reflexivity; lia.
  - apply Z.eqb_neq in E0.
    destruct (d_n d <? 0)%Z eqn:Eneg.
    + inversion H; subst. split; [exact Hl|]. cbn [List.length]. lia.
    + apply Z.ltb_ge in Eneg.
      set (room := if (d_n d <? Z.of_nat lenb)%Z then Z.to_nat (d_n d) else lenb) in H.
      assert (Hroom : (Z.of_nat room <= d_n d)%Z).
      { unfold room. destruct (d_n d <? Z.of_nat lenb)%Z eqn:E.
        - apply Z.ltb_lt in E. lia.
        - apply Z.ltb_ge in E. lia. }
      destruct (dr_loop (dr_fuel t room) (d_state d) t room) as [[[o1 e1] s1] t1] eqn:El.
      apply dr_loop_length in El.
      inversion H; subst. cbn [d_limited d_n]. split; [reflexivity|]. lia.
Qed.

Lemma be_read_retry_budget fuel :
  forall sizes cur stop retry got d t out e d' t',
    d_limited d = true ->
    be_read_retry fuel sizes cur stop retry got d t = (out, e, d', t') ->
    (Z.of_nat (List.length out) <= Z.of_nat (List.length got) + budget_left d)%Z.
Proof.
  induction fuel as [|fuel IH]; intros sizes cur stop retry got d t out e d' t' Hl H.
  - cbn [be_read_retry] in H. inversion H; subst. unfold budget_left. lia.
  - cbn [be_read_retry] in H.
    destruct (match stop with Some k => (k <=? blen got)%N | None => false end).
    { inversion H; subst. unfold budget_left. lia. }
    destruct (next_size sizes cur) as [sz cur'].
    destruct (dr_read d t (pos_size sz)) as [[[o1 e1] d1] t1] eqn:Hrd.
    destruct (dr_read_budget _ _ _ _ _ _ _ Hl Hrd) as [Hl1 Hb].
    assert (Hstop : (Z.of_nat (List.length (got ++ o1)) <= Z.of_nat (List.length got) + budget_left d)%Z).
    { rewrite app_length. unfold budget_left in *. lia. }
    assert (Hgo : forall r, be_read_retry fuel sizes cur' stop r (got ++ o1) d1 t1 = (out, e, d', t') ->
                            (Z.of_nat (List.length out) <= Z.of_nat (List.length got) + budget_left d)%Z).
    { intros r Hr. apply (IH _ _ _ _ _ _ _ _ _ _ _ Hl1) in Hr. rewrite app_length in Hr. lia. }
    destruct e1 as [err|].
    + destruct retry as [|retry'].
      * inversion H; subst. exact Hstop.
      * destruct (retryable err).
        -- exact (Hgo _ H).
        -- inversion H; subst. exact Hstop.
    + exact (Hgo _ H).
Qed.

(* C06 with continued reading: never more than lim octets *)
Theorem retry_limit_bound (lim : Z) (sizes : list nat) (stop : option N) (retry : nat) (t : transport) :
  (0 < lim)%Z ->
  let '(out, e, d', t') := backend_reads_retry sizes stop retry (new_data_reader lim) t in
  (Z.of_nat (List.length out) <= lim)%Z.
Proof.
  intros Hlim. unfold backend_reads_retry.
  destruct (be_read_retry (be_fuel t + retry) sizes [] stop retry [] (new_data_reader lim) t)
    as [[[out e] d'] t'] eqn:H.
  assert (Hnew : new_data_reader lim = mkDR SBeginLine true lim).
  { unfold new_data_reader. destruct (0 <? lim)%Z eqn:E; [reflexivity|apply Z.ltb_ge in E; lia]. }
  rewrite Hnew in H.
  apply be_read_retry_budget in H; [|reflexivity].
  unfold budget_left in H. cbn [d_n List.length] in H. lia.
Qed.

(* the same statement for the backend that stops at the first failed read
   (retry = 0 is DataReader.be_read) - also without the transparency hypothesis
   of DataProofs2.data_limit_bound *)
Lemma be_read_retry_0 fuel :
  forall sizes cur stop got d t,
    be_read_retry fuel sizes cur stop 0 got d t = be_read fuel sizes cur stop got d t.
Proof.
  induction fuel as [|fuel IH]; intros sizes cur stop got d t; [reflexivity|].
  cbn [be_read_retry be_read].
  destruct (match stop with Some k => (k <=? blen got)%N | None => false end); [reflexivity|].
  destruct (next_size sizes cur) as [sz cur'].
  destruct (dr_read d t (pos_size sz)) as [[[o1 e1] d1] t1].
  destruct e1; [reflexivity|apply IH].
Qed.

(* non-vacuity: limit 5; the message "abcdefgh" arrives in pieces of two octets,
   each followed by a time-out; the backend reads with a 4-octet buffer and goes
   on after each failure: it gets "abcde" and ErrDataTooLarge.  (With the seeded
   change every one of these reads ended in an error and was not charged.) *)
Example retry_example :
  let t := mkT [] [RData "a" (bs "b"); RFail TTimeout; RData "c" (bs "d"); RFail TTimeout;
                   RData "e" (bs "f"); RFail TTimeout; RData "g" (bs "h"); RData CR [LF; DOT; CR; LF]] 0%N 0%N false in
  let '(out, e, _, _) := backend_reads_retry [4] None 3 (new_data_reader 5) t in
  out = bs "abcde" /\ e = Some RTooLarge.
Proof. vm_compute. split; reflexivity. Qed.
