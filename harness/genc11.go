package harness

import (
	"fmt"
	"math/rand"
	"runtime"
	"strings"

	smtp "github.com/emersion/go-smtp"
)

// kind c11: one MAIL or RCPT command line against the real server in a
// minimal conversation; the reply to that line and the backend callback it
// caused are extracted.

// C11Obs is what the real server did with the line.
type C11Obs struct {
	Code int
	CB   *Sx // nil: no callback
}

// RunC11Obs runs "EHLO x", (for RCPT: "MAIL FROM:<s@x>"), "<VERB> <arg>", "QUIT".
func RunC11Obs(cfg Cfg, verb string, arg string) C11Obs { return RunC11ObsPre(cfg, verb, nil, arg) }

// RunC11ObsPre: the same, with the complete command lines pre (which the server is expected to refuse)
// sent on the same connection just before the line under test.
func RunC11ObsPre(cfg Cfg, verb string, pre []string, arg string) C11Obs {
	be := &RecBackend{script: Script{}, LMTPSess: cfg.LMTPSession}
	s := smtp.NewServer(be)
	lg := &logWriter{}
	s.ErrorLog = lg
	s.Domain = cfg.Domain
	s.LMTP = cfg.LMTP
	s.MaxRecipients = cfg.MaxRcpt
	s.MaxMessageBytes = cfg.MaxBytes
	s.MaxLineLength = cfg.MaxLine
	s.AllowInsecureAuth = cfg.Insecure
	s.EnableSMTPUTF8 = cfg.UTF8
	s.EnableREQUIRETLS = cfg.RequireTLS
	s.EnableBINARYMIME = cfg.BinaryMIME
	s.EnableDSN = cfg.DSN
	s.EnableRRVS = cfg.RRVS

	raws := []Raw{RD("EHLO x\r\n")}
	before := 2 // greeting, EHLO reply
	if verb == "RCPT" {
		raws = append(raws, RD("MAIL FROM:<s@x>\r\n"))
		before = 3
	}
	for _, p := range pre {
		raws = append(raws, RD(p+"\r\n"))
		before++
	}
	raws = append(raws, RD(verb+" "+arg+"\r\n"), RD("QUIT\r\n"), Raw{Kind: RawEOF})
	sc := NewScriptConn(raws)
	sc.OnWrite = func(p []byte) { be.AddWire(p) }
	be.Baseline = runtime.NumGoroutine() + 2
	serveOne(s, sc)
	be.Wait()

	// walk the event log: wire octets are cut into replies (a reply ends with a
	// line "ddd<SP>..."); callbacks seen after reply number before-1 and before
	// reply number before belong to the line under test
	obs := C11Obs{}
	replies := 0
	var cur []byte
	be.mu.Lock()
	defer be.mu.Unlock()
	for _, e := range be.Events {
		if len(e.List) == 2 && e.List[0].Atom == "w" {
			b := unhexAtom(e.List[1].Atom)
			for _, c := range b {
				cur = append(cur, c)
				if c != '\n' {
					continue
				}
				line := cur
				cur = nil
				if len(line) >= 4 && line[3] == ' ' {
					if replies == before && obs.Code == 0 {
						fmt.Sscanf(string(line[:3]), "%d", &obs.Code)
					}
					replies++
				}
			}
			continue
		}
		if replies == before && len(e.List) > 0 && (e.List[0].Atom == "mail" || e.List[0].Atom == "rcpt") {
			obs.CB = e
		}
	}
	return obs
}

func unhexAtom(a string) []byte {
	var out []byte
	h := func(c byte) byte {
		switch {
		case c >= '0' && c <= '9':
			return c - '0'
		case c >= 'a' && c <= 'f':
			return c - 'a' + 10
		}
		return c - 'A' + 10
	}
	for i := 1; i+1 < len(a); i += 2 {
		out = append(out, h(a[i])<<4|h(a[i+1]))
	}
	return out
}

func RunC11(cfg Cfg, verb string, arg string) *Sx { return RunC11Pre(cfg, verb, nil, arg) }

func RunC11Pre(cfg Cfg, verb string, pre []string, arg string) *Sx {
	o := RunC11ObsPre(cfg, verb, pre, arg)
	cb := A("none")
	if o.CB != nil {
		cb = o.CB
	}
	v := "mail"
	if verb == "RCPT" {
		v = "rcpt"
	}
	c := L(A("c11"), cfg.Sx(), L(A("verb"), A(v)), L(A("arg"), XS(arg)),
		L(A("obs"), L(A("code"), Num(int64(o.Code))), L(A("cb"), cb)))
	if len(pre) > 0 {
		pl := L(A("pre"))
		for _, p := range pre {
			pl.Add(XS(p))
		}
		c.Add(pl)
	}
	return c
}

// ---- generators ----

func c11Cfg(r *rand.Rand) Cfg {
	c := DefaultCfg()
	switch r.Intn(4) {
	case 0: // everything on
		c.UTF8, c.RequireTLS, c.BinaryMIME, c.DSN, c.RRVS = true, true, true, true, true
	case 1: // everything off
	default:
		c.UTF8 = r.Intn(2) == 0
		c.RequireTLS = r.Intn(2) == 0
		c.BinaryMIME = r.Intn(2) == 0
		c.DSN = r.Intn(2) == 0
		c.RRVS = r.Intn(2) == 0
	}
	if r.Intn(3) == 0 {
		c.MaxBytes = int64(pickI(r, 10, 1000, 100000))
	}
	return c
}

func c11AllOn() Cfg {
	c := DefaultCfg()
	c.UTF8, c.RequireTLS, c.BinaryMIME, c.DSN, c.RRVS = true, true, true, true, true
	return c
}

var c11Locals = []string{"a", "user.name", "x+tag", "!#$%&'*+-/=?^_`{|}~", "\"q s\"", "\"a\\\"b\"", "\"a@b\"", "\"\\\\\"", "A1", "a.b.c"}
var c11Domains = []string{"b", "d.example", "x-y.z9", "[1.2.3.4]", "[IPv6:1::2]", "[tag:x]", "A.B", "1.2"}

func c11Path(r *rand.Rand, reverse bool) string {
	if reverse && r.Intn(5) == 0 {
		return "<>"
	}
	return "<" + c11Locals[r.Intn(len(c11Locals))] + "@" + c11Domains[r.Intn(len(c11Domains))] + ">"
}

func c11Case(r *rand.Rand, s string) string {
	switch r.Intn(4) {
	case 0:
		return strings.ToLower(s)
	case 1:
		b := []byte(s)
		for i := range b {
			if r.Intn(2) == 0 {
				b[i] = strings.ToLower(string(b[i]))[0]
			}
		}
		return string(b)
	}
	return s
}

func c11Xtext(r *rand.Rand) string {
	return pick(r, "abc", "a+2Bb", "QQ314159", "+3D+2B+20x", "a+40b", "x/y~z", "+7E", "a+5Cb")
}

func c11MailParam(r *rand.Rand, k int) string {
	switch k {
	case 0:
		return c11Case(r, "SIZE") + "=" + pick(r, "0", "1", "10", "11", "999", "1000", "1001", "100000", "4294967296", "9223372036854775807", "00000000000000000012", "007")
	case 1:
		return c11Case(r, "BODY") + "=" + c11Case(r, pick(r, "7BIT", "8BITMIME", "BINARYMIME"))
	case 2:
		return c11Case(r, "SMTPUTF8")
	case 3:
		return c11Case(r, "REQUIRETLS")
	case 4:
		return c11Case(r, "RET") + "=" + c11Case(r, pick(r, "FULL", "HDRS"))
	case 5:
		return c11Case(r, "ENVID") + "=" + c11Xtext(r)
	default:
		return c11Case(r, "AUTH") + "=" + pick(r, "<>", "a@b", "e+3Dmc2@example.com", "user.name@d.example", "+22q+20s+22@x", "x@[1.2.3.4]", "a+2Bb@c-d.e")
	}
}

func c11RcptParam(r *rand.Rand, k int) string {
	switch k {
	case 0:
		return c11Case(r, "NOTIFY") + "=" + c11Case(r, pick(r, "NEVER", "SUCCESS", "FAILURE", "DELAY", "SUCCESS,FAILURE", "DELAY,SUCCESS,FAILURE", "FAILURE,DELAY"))
	case 1:
		if r.Intn(2) == 0 {
			return c11Case(r, "ORCPT") + "=" + c11Case(r, "rfc822") + ";" + pick(r, "a@b", "a+2Bb@c", "Bob+20Smith@example.com", "x", "+3C+3E")
		}
		return c11Case(r, "ORCPT") + "=" + c11Case(r, "utf-8") + ";" + pick(r, "a@b", "a\\x{5C}b@c", "\\x{E9}@x", "\\x{20AC}\\x{1F600}@x", "\xc3\xa9@\xe4\xb8\xad", "a\\x{2B}\\x{3D}\\x{20}\\x{7F}\\x{01}@x", "\\x{10FFFF}\\x{D7FF}\\x{E000}\\x{FFF}@y", "\xf0\x9f\x98\x80@x")
	default:
		return c11Case(r, "RRVS") + "=" + pick(r, "2014-04-03T23:01:00Z", "1970-01-01T00:00:00Z", "2000-02-29T12:34:56.789Z", "2024-12-31T23:59:59+05:30", "1999-01-01T00:00:00.000000001-08:00", "0000-01-01T00:00:00Z", "9999-12-31T23:59:59Z", "2014-04-03T23:01:00Z;C", "2014-04-03T23:01:00Z;R", "2100-03-01T00:00:00.5+00:00")
	}
}

// a grammar-derived valid line (under a configuration with everything enabled)
func c11ValidLine(r *rand.Rand, mail bool) string {
	var sb strings.Builder
	if mail {
		sb.WriteString(c11Case(r, "FROM:") + c11Path(r, true))
	} else {
		sb.WriteString(c11Case(r, "TO:") + c11Path(r, false))
	}
	n := 7
	if !mail {
		n = 3
	}
	perm := r.Perm(n)
	cnt := r.Intn(n + 1)
	if r.Intn(3) == 0 {
		cnt = 1
	}
	for _, k := range perm[:cnt] {
		sb.WriteByte(' ')
		if mail {
			sb.WriteString(c11MailParam(r, k))
		} else {
			sb.WriteString(c11RcptParam(r, k))
		}
	}
	return sb.String()
}

var c11Interesting = []byte("<>@:\"\\ a=+;.,[]-\t{}x0Z")

func c11Mutate(r *rand.Rand, s string) string {
	b := []byte(s)
	if len(b) == 0 {
		return "x"
	}
	i := r.Intn(len(b))
	ch := func() byte {
		if r.Intn(4) == 0 {
			c := byte(r.Intn(256))
			if c == '\n' {
				c = 'n'
			}
			return c
		}
		return c11Interesting[r.Intn(len(c11Interesting))]
	}
	switch r.Intn(5) {
	case 0: // delete
		return string(append(b[:i:i], b[i+1:]...))
	case 1: // insert
		return string(append(b[:i:i], append([]byte{ch()}, b[i:]...)...))
	case 2: // replace
		b[i] = ch()
		return string(b)
	case 3: // duplicate an octet
		return string(append(b[:i:i], append([]byte{b[i]}, b[i:]...)...))
	default: // truncate
		return string(b[:i])
	}
}

// faulty parameters (one per line, so the reply code is deterministic)
var c11BadMail = []string{"SIZE=abc", "SIZE=-1", "SIZE=", "SIZE", "SIZE=1x", "SIZE=99999999999999999999", "SIZE=9223372036854775808",
	"SIZE=000000000000000000000000000001", "BODY=9BIT", "BODY=", "BODY", "RET=ALL", "RET", "RET=", "ENVID=", "ENVID", "ENVID=a+2", "ENVID=a+2b",
	"ENVID=+80", "ENVID=+00", "ENVID=+7F", "ENVID=a+", "AUTH=", "AUTH", "AUTH=<x", "AUTH=+80", "AUTH=x", "AUTH=@x", "AUTH=x@", "AUTH=a+20b@c", "AUTH=a@b+3Ec",
	"AUTH=+3C+3E", "AUTH=a@b@c", "AUTH=a+01b@c", "AUTH=\"@c", "FOO=BAR", "FOO", "X=1=2", "SIZE=1=2", "SMTPUTF8=1", "SMTPUTF8=", "REQUIRETLS=yes", "=x", "=", "-A=1", "A_B=1",
	"NOTIFY=NEVER", "ORCPT=rfc822;a@b", "RRVS=2014-04-03T23:01:00Z", "BODY=8BITMIME=", "ENVID=a\x01b", "AUTH=a\x01b@c", "ENVID=\xc3\xa9", "AUTH=\xc3\xa9@x",
	"\xc5\xbfIZE=1", "\xc5\xbfize=1", "\xc5\xbfMTPUTF8", "REQUIRETL\xc5\xbf", "ENV\xc4\xb1D=x", "S\xc4\xb1ZE=5", "RET=HDR\xc5\xbf", "BODY=8B\xc4\xb1TMIME", "BODY=B\xc4\xb1NARYM\xc4\xb1ME",
	"\xe2\x84\xaa=1", "SI\xe2\x84\xaaZE=1", "S\xc3\x8fZE=1", "\xc3\xa9=1", "SIZE\xc2\xa0=1", "SIZE=1\xc2\xa0SMTPUTF8", "SIZE=1\tSMTPUTF8", "SIZE=1\x0bBODY=7BIT", "SIZE=1\xe2\x80\xa8BODY=7BIT",
	// a value on a parameter that has none, an empty value (must be refused)
	"REQUIRETLS=", "REQUIRETLS=1", "smtputf8=1", "SmtpUtf8=", "SMTPUTF8=SMTPUTF8", "SMTPUTF8=0", "RequireTLS=no", "X="}

var c11BadRcpt = []string{"NOTIFY=", "NOTIFY", "NOTIFY=SUCCESS,SUCCESS", "NOTIFY=NEVER,SUCCESS", "NOTIFY=SUCCESS,NEVER", "NOTIFY=NEVER,NEVER", "NOTIFY=success,SUCCESS",
	"NOTIFY=SUCCESS,", "NOTIFY=,", "NOTIFY=ALWAYS", "NOTIFY=SUCCESS;FAILURE", "NOTIFY=DELAY,FAILURE,SUCCESS,DELAY", "ORCPT=", "ORCPT", "ORCPT=rfc822", "ORCPT=rfc822;", "ORCPT=;a@b",
	"ORCPT=x400;a", "ORCPT=rfc822;a+2", "ORCPT=rfc822;a+2b", "ORCPT=rfc822;+80", "ORCPT=rfc822;+00", "ORCPT=rfc822;a;b", "ORCPT=utf-8;a+b", "ORCPT=utf-8;a\\b", "ORCPT=utf-8;\\x{41}",
	"ORCPT=utf-8;\\x{0041}", "ORCPT=utf-8;\\x{D800}", "ORCPT=utf-8;\\x{110000}", "ORCPT=utf-8;\\x{e9}", "ORCPT=utf-8;\\x{}", "ORCPT=utf-8;\\x{E9", "ORCPT=utf-8;\\x{0A}", "ORCPT=utf-8;\\x{1A}",
	"ORCPT=utf-8;\\x{00E9}", "ORCPT=utf-8;\\x{0FFFF}", "ORCPT=utf-8;\\x{1000000}", "ORCPT=utf-8;\\x{100000}", "ORCPT=utf-8;\\x{0E9}", "ORCPT=utf-8;a\x7fb", "ORCPT=utf-8;\xff@x", "ORCPT=utf-8;\xc3@x",
	"ORCPT=utf-8;a\xc2\xa0b@c", "ORCPT=utf-8;a\xe2\x80\x83b@c", "ORCPT=rfc822;\xc3\xa9@x", "ORCPT=utf-8;a\x01b",
	"RRVS=", "RRVS", "RRVS=yesterday", "RRVS=2014-04-03", "RRVS=2014-04-03T23:01:00", "RRVS=2014-04-03t23:01:00z", "RRVS=2014-04-03T23:01:60Z", "RRVS=2014-04-03T24:00:00Z",
	"RRVS=2014-04-03T3:01:00Z", "RRVS=2014-04-03T23:01:00,5Z", "RRVS=2014-04-03T23:01:00.Z", "RRVS=2014-02-30T23:01:00Z", "RRVS=2014-13-03T23:01:00Z", "RRVS=2014-04-03T23:01:00+24:00",
	"RRVS=2014-04-03T23:01:00+01:60", "RRVS=2014-04-03T23:01:00Z;X", "RRVS=2014-04-03T23:01:00Z;", "RRVS=2014-04-03T23:01:00Z;CC", "RRVS=2014-04-03T23:01:00Z;c", "RRVS=0001-01-01T00:00:00Z",
	"RRVS=0001-01-01T01:00:00+01:00", "RRVS=2014-04-03T23:01:00.1234567891Z", "RRVS=;C", "RRVS=2014;C", "RRVS=1900-02-29T00:00:00Z", "RRVS=2000-02-29T00:00:00Z", "RRVS=2014-04-03T23:01:00+0100",
	"RRV\xc5\xbf=2014-04-03T23:01:00Z", "NOT\xc4\xb1FY=NEVER", "NOTIFY=\xc5\xbfUCCESS", "SIZE=1", "SMTPUTF8", "FOO", "FOO=1", "X=1=2", "NOTIFY=SUCCESS\tORCPT=rfc822;a"}

var c11BadPaths = []string{"", "<", ">", "<>", "<>x", "<@", "<@>", "<@b>", "<a@>", "<a@b", "a@b", "a@b>", "<a>", "<a b@c>", "<a\"b@c>", "<a@b c>", "< a@b>", "<a@b >", "<a@b>x",
	"<@x:a@b>", "<@x,@y:a@b>", "<@x:>", "<\"\"@b>", "<\"a@b>", "<\"a\"b@c>", "<\"a\\\x01\"@c>", "<\"a\x01\"@c>", "<.a@b>", "<a.@b>", "<a..b@c>", "<a@b.>", "<a@.b>", "<a@b..c>", "<a@-b>", "<a@b->",
	"<a@b_c>", "<a@[1.2.3.4>", "<a@[]>", "<a@[x>y]>", "<a@b@c>", "<a@b@>", "<a\x01b@c>", "<a\x7fb@c>", "<\xc3\xa9@x>", "<a@\xc3\xa9>", "<a(b)@c>", "<a,b@c>", "<a;b@c>", "<a:b@c>", "<a[b@c>",
	"<a\\b@c>", "<a<b@c>", "<a>b@c>", "<<a@b>>", "<a@b>>", "\t<a@b>", "<a\tb@c>", "<a@b\tc>", "<a@b>\tSIZE=1", "<a@b>SIZE=1", "<a@b>  SIZE=1", "<a@b> SIZE=1 ", "<a@b> SIZE=1  BODY=7BIT",
	"<a@b> SIZE=1 SIZE=2", "<a@b> SIZE=1 size=2", "<a@b> SIZE=x SIZE=2", "<a@b> FOO SIZE=1 SIZE=2", "<a@b> \xc5\xbfIZE=1 SIZE=x", "<a@b> SIZE=x \xc5\xbfIZE=1", "<a@b> SIZE=1 SMTPUTF8=1", "<a@b> SMTPUTF8= SIZE=1", "<a@b> REQUIRETLS=yes SMTPUTF8 BODY=7BIT", "<a@b> SIZE=1 BODY=", "<a@b> SMTPUTF8 SMTPUTF8=", "<a@b> SMTPUTF8= SMTPUTF8",
	"<a@b> NOTIFY=NEVER ORCPT=", "<a@b> RRVS= NOTIFY=NEVER", "<a@b> SIZE=1 ENV\xc4\xb1D=x", "<a@b> NOTIFY=NEVER RRV\xc5\xbf=2014-04-03T23:01:00Z", "<a@[IPv6:::1]>", "<a@[1.2.3.4]x>", "<a@x[1]>"}

// GenC11 emits the c11 cases.
func GenC11(rng *rand.Rand, thorough bool, emit func(*Sx)) {
	scale := 1
	if thorough {
		scale = 12
	}
	verbs := []string{"MAIL", "RCPT"}
	prefix := map[string]string{"MAIL": "FROM:", "RCPT": "TO:"}

	// (i) grammar-derived valid lines, (ii) their single-point mutations
	for i := 0; i < 900*scale; i++ {
		mail := rng.Intn(2) == 0
		verb := "MAIL"
		if !mail {
			verb = "RCPT"
		}
		line := c11ValidLine(rng, mail)
		cfg := c11Cfg(rng)
		if rng.Intn(2) == 0 {
			cfg = c11AllOn()
			if rng.Intn(4) == 0 {
				cfg.MaxBytes = int64(pickI(rng, 10, 1000, 100000))
			}
		}
		emit(RunC11(cfg, verb, line))
		if i%2 == 0 {
			emit(RunC11(c11AllOn(), verb, c11Mutate(rng, line)))
		}
	}
	// one faulty (or foreign) parameter after a valid path, alone and next to a valid one
	for _, verb := range verbs {
		bad := c11BadMail
		if verb == "RCPT" {
			bad = c11BadRcpt
		}
		for _, p := range bad {
			emit(RunC11(c11AllOn(), verb, prefix[verb]+"<a@b> "+p))
			emit(RunC11(DefaultCfg(), verb, prefix[verb]+"<a@b> "+p))
			var good string
			if verb == "MAIL" {
				good = "BODY=7BIT"
				if strings.HasPrefix(strings.ToUpper(p), "BODY") {
					good = "SIZE=5"
				}
			} else {
				good = "NOTIFY=FAILURE"
				if strings.HasPrefix(strings.ToUpper(p), "NOTIFY") {
					good = "ORCPT=rfc822;q"
				}
			}
			emit(RunC11(c11AllOn(), verb, prefix[verb]+"<a@b> "+good+" "+p))
			emit(RunC11(c11AllOn(), verb, prefix[verb]+"<a@b> "+p+" "+good))
		}
		for _, p := range c11BadPaths {
			emit(RunC11(c11AllOn(), verb, prefix[verb]+p))
			emit(RunC11(c11AllOn(), verb, prefix[verb]+" "+p))
		}
		for _, a := range []string{"", "FROM", "TO", "FROM <a@b>", "TO <a@b>", "<a@b>", "FROM:<a@b>", "TO:<a@b>", "from:<a@b>", "to:<a@b>", "FR\xc3\x96M:<a@b>", "FROM:<a@b> ", " FROM:<a@b>", "T\xc3\x96:<a@b>"} {
			emit(RunC11(c11AllOn(), verb, a))
		}
	}
	// (iii) all strings up to length 5 (thorough: 6) over the alphabet, after FROM:/TO:
	alpha := []byte("<>@:\"\\ a=+;.")
	maxLen := 4
	sample := 12 // of the longer ones, one in 'sample'
	if thorough {
		maxLen = 5
		sample = 4
	}
	var rec func(cur []byte)
	cnt := 0
	rec = func(cur []byte) {
		if len(cur) > 0 {
			// short strings all (the shortest for both verbs); the longest length sampled
			verb := verbs[cnt%2]
			switch {
			case len(cur) <= maxLen-2:
				emit(RunC11(c11AllOn(), "MAIL", "FROM:"+string(cur)))
				emit(RunC11(c11AllOn(), "RCPT", "TO:"+string(cur)))
			case len(cur) == maxLen-1 || cnt%sample == 0:
				emit(RunC11(c11AllOn(), verb, prefix[verb]+string(cur)))
			}
			cnt++
		}
		if len(cur) == maxLen {
			return
		}
		for _, c := range alpha {
			rec(append(cur, c))
		}
	}
	rec(nil)
	// the same alphabet inside brackets, longer (sampled at random)
	for i := 0; i < 500*scale; i++ {
		n := 5 + rng.Intn(4)
		b := make([]byte, n)
		for j := range b {
			b[j] = alpha[rng.Intn(len(alpha))]
		}
		verb := verbs[rng.Intn(2)]
		s := string(b)
		switch rng.Intn(3) {
		case 0:
			s = "<" + s + ">"
		case 1:
			s = "<a@b> " + s
		}
		emit(RunC11(c11AllOn(), verb, prefix[verb]+s))
	}
	// (iv) random octets (no LF)
	for i := 0; i < 300*scale; i++ {
		n := 1 + rng.Intn(24)
		b := make([]byte, n)
		for j := range b {
			b[j] = byte(rng.Intn(256))
			if b[j] == '\n' {
				b[j] = ' '
			}
		}
		verb := verbs[rng.Intn(2)]
		s := string(b)
		switch rng.Intn(4) {
		case 0:
			s = prefix[verb] + s
		case 1:
			s = prefix[verb] + "<" + s + ">"
		case 2:
			s = prefix[verb] + "<a@b> " + s
		}
		emit(RunC11(c11Cfg(rng), verb, s))
	}
	// (v) keyword case variants, including the non-ASCII code points whose
	// case mapping is ASCII (U+017F long s, U+0131 dotless i, U+212A Kelvin)
	variants := func(w string) []string {
		out := []string{w, strings.ToLower(w)}
		for i := 0; i < len(w); i++ {
			c := w[i]
			sub := ""
			switch c {
			case 'S', 's':
				sub = "\xc5\xbf"
			case 'I', 'i':
				sub = "\xc4\xb1"
			case 'K', 'k':
				sub = "\xe2\x84\xaa"
			}
			if sub != "" {
				out = append(out, w[:i]+sub+w[i+1:])
			}
			out = append(out, w[:i]+strings.ToLower(string(c))+w[i+1:])
		}
		return out
	}
	for _, cfg := range []Cfg{c11AllOn(), DefaultCfg()} {
		for _, kv := range [][2]string{{"SIZE", "=7"}, {"BODY", "=8BITMIME"}, {"SMTPUTF8", ""}, {"REQUIRETLS", ""}, {"RET", "=FULL"}, {"ENVID", "=x"}, {"AUTH", "=<>"}} {
			for _, k := range variants(kv[0]) {
				emit(RunC11(cfg, "MAIL", "FROM:<a@b> "+k+kv[1]))
			}
		}
		for _, v := range variants("8BITMIME") {
			emit(RunC11(cfg, "MAIL", "FROM:<a@b> BODY="+v))
		}
		for _, v := range variants("HDRS") {
			emit(RunC11(cfg, "MAIL", "FROM:<a@b> RET="+v))
		}
		for _, kv := range [][2]string{{"NOTIFY", "=SUCCESS"}, {"ORCPT", "=rfc822;a"}, {"RRVS", "=2014-04-03T23:01:00Z"}} {
			for _, k := range variants(kv[0]) {
				emit(RunC11(cfg, "RCPT", "TO:<a@b> "+k+kv[1]))
			}
		}
		for _, v := range variants("SUCCESS") {
			emit(RunC11(cfg, "RCPT", "TO:<a@b> NOTIFY="+v))
		}
		for _, v := range variants("RFC822") {
			emit(RunC11(cfg, "RCPT", "TO:<a@b> ORCPT="+v+";a"))
		}
		for _, v := range variants("FROM:") {
			emit(RunC11(cfg, "MAIL", v+"<a@b>"))
		}
		for _, v := range variants("TO:") {
			emit(RunC11(cfg, "RCPT", v+"<a@b>"))
		}
	}

	// every parameter of a command at once (seven for MAIL, three for RCPT), in several orders
	allMail := []string{"SIZE=10", "BODY=8BITMIME", "SMTPUTF8", "REQUIRETLS", "RET=FULL", "ENVID=QQ314159", "AUTH=<>"}
	allRcpt := []string{"NOTIFY=SUCCESS,FAILURE", "ORCPT=rfc822;o@p", "RRVS=2014-04-03T23:01:00Z"}
	for rot := 0; rot < 7; rot++ {
		var ps []string
		for i := range allMail {
			ps = append(ps, allMail[(i+rot)%7])
		}
		emit(RunC11(c11AllOn(), "MAIL", "FROM:<a@b> "+strings.Join(ps, " ")))
		emit(RunC11(c11AllOn(), "MAIL", "FROM:<a@b> "+strings.Join(ps[:6], " ")))
		if rot < 3 {
			var rs []string
			for i := range allRcpt {
				rs = append(rs, allRcpt[(i+rot)%3])
			}
			emit(RunC11(c11AllOn(), "RCPT", "TO:<c@d> "+strings.Join(rs, " ")))
		}
	}
	// local parts and domains at and around the RFC 5321 size limits (64 / 255 octets), valid either way
	for _, n := range []int{1, 63, 64, 65, 128} {
		lp := strings.Repeat("l", n)
		for _, verb := range verbs {
			emit(RunC11(c11AllOn(), verb, prefix[verb]+"<"+lp+"@d.example>"))
			emit(RunC11(c11AllOn(), verb, prefix[verb]+"<\""+lp+"\"@d.example>"))
		}
	}
	for _, n := range []int{63, 64, 250, 255, 256} {
		dom := strings.Repeat("d", n%64+1)
		for len(dom) < n-8 {
			dom += "." + strings.Repeat("e", 7)
		}
		for _, verb := range verbs {
			emit(RunC11(c11AllOn(), verb, prefix[verb]+"<u@"+dom+">"))
		}
	}
	// the RFC 5321 special case "<Postmaster>" (RCPT only) and its neighbours, for both verbs
	for _, verb := range verbs {
		for _, pm := range []string{"<postmaster>", "<Postmaster>", "<POSTMASTER>", "<postmaster@d.example>", "<postmaster@>", "<webmaster>", "<postmasterx>",
			"<@a:postmaster>", "postmaster", "<postmaster >", "< postmaster>", "<postmaster> SIZE=10", "<postmaster> NOTIFY=NEVER", "<Postmaster> BODY=7BIT", "<\"postmaster\">"} {
			emit(RunC11(c11AllOn(), verb, prefix[verb]+pm))
			emit(RunC11(DefaultCfg(), verb, prefix[verb]+pm))
		}
	}
	// a line is judged on its own: lines refused just before it on the same connection (refused for a
	// parameter that comes AFTER well-formed ones, for an unknown or a disabled parameter) leave nothing behind
	preMail := []string{"MAIL FROM:<x@y> SIZE=4096 ENVID=QQ314159 BODY==", "MAIL FROM:<x@y> SMTPUTF8 RET=FULL A=B=C",
		"MAIL FROM:<x@y> SIZE=7 REQUIRETLS AUTH=<> =x=", "MAIL FROM:<x@y> SIZE=9 FOO=1", "MAIL FROM:<x@y> BODY=8BITMIME SIZE=abc"}
	preRcpt := []string{"RCPT TO:<x@y> NOTIFY=SUCCESS ORCPT=rfc822;a@b X==", "RCPT TO:<x@y> NOTIFY=NEVER RRVS=2014-04-03T23:01:00Z Y=1=2",
		"RCPT TO:<x@y> NOTIFY=FAILURE BOGUS"}
	tgtMail := []string{"FROM:<a@b>", "FROM:<a@b> SIZE=10", "FROM:<> BODY=7BIT", "FROM:<a@b> RET=HDRS"}
	tgtRcpt := []string{"TO:<c@d>", "TO:<c@d> NOTIFY=DELAY", "TO:<c@d> ORCPT=rfc822;o@p"}
	for i, p1 := range append(append([]string{}, preMail...), preRcpt...) {
		for j, p2 := range []string{"", preMail[(i+1)%len(preMail)], preRcpt[i%len(preRcpt)]} {
			pre := []string{p1}
			if p2 != "" {
				pre = append(pre, p2)
			}
			if !thorough && (i+j)%2 != 0 {
				continue
			}
			for _, t := range tgtMail {
				onlyMail := true
				for _, p := range pre {
					if strings.HasPrefix(p, "RCPT") {
						onlyMail = false
					}
				}
				if onlyMail {
					emit(RunC11Pre(c11AllOn(), "MAIL", pre, t))
				}
			}
			for _, t := range tgtRcpt {
				emit(RunC11Pre(c11AllOn(), "RCPT", pre, t))
			}
		}
	}
}
