// accesses: translator from go-smtp's source (conn.go, server.go and the other
// non-test files of the package) to the Coq table coq/gen/Accesses.v used by
// Lockset.v / LocksetInst.v (property C20, data races).
//
// Purely syntactic (go/parser + go/ast).  For every function whose receiver
// or one of whose parameters has type *Conn (the "subject" variable, always
// called c in go-smtp) and for every `go func(){...}()` literal inside them
// it emits, in source order (all branches flattened, deferred calls at the
// end):
//
//	Acc field R|W site   a read / write of c.<field>.  An assignment target,
//	                     an inc/dec operand is a W; everything else is an R.
//	                     A call ON the object held by a field (c.conn.Write,
//	                     c.bdatPipe.CloseWithError, channel operations on
//	                     c.dataResult, c.text.PrintfLine, c.server.X) is a
//	                     READ of the field.  An assignment through a field
//	                     (c.lineLimitReader.LineLimit = 0) is a read of the
//	                     field plus a write of the pseudo field "f.g".
//	Acq / Rel            c.locker.Lock() / c.locker.Unlock() (deferred: at
//	                     the end of the function)
//	Call m               a call of another subject function (inlined on the
//	                     Coq side)
//	Spawn k              go func(){...}() ; k names the literal
//	Recv k               the receive that joins closure k (scoped closures)
//	Send k               (last event of a scoped closure) its completion signal
//
// plus the classification dispatcher / handler / closure / external entry.
// Any construct it cannot classify is a fatal error (exit status 2).
package main

import (
	"bytes"
	"flag"
	"fmt"
	"go/ast"
	"go/parser"
	"go/printer"
	"go/token"
	"os"
	"path/filepath"
	"sort"
	"strings"
)

const connType = "Conn"
const lockerField = "locker"

// The loop task: Server.handleConn runs these in a loop / switch, so the
// functions they call directly are the "handlers" that the loop task
// executes in any order and number.
var dispatchers = []string{"Server.handleConn", "handle"}

// Exported methods of *Conn: the entry points that Server.Close (Close) or
// a backend goroutine holding the *Conn (accessors, Reject) may call at any
// time, concurrently with the command loop.
var externals = []string{"Close", "Conn", "Hostname", "Reject", "Server", "Session", "TLSConnectionState"}

// Places where the *Conn itself is handed to code outside the package (the
// backend).  What the backend may then do concurrently is what the external
// tasks model.  function -> callee text.
var allowedEscapes = map[string]string{
	"handleGreet":            "c.server.Backend.NewSession",
	"BackendFunc.NewSession": "f",
}

var fset = token.NewFileSet()

func fatal(pos token.Pos, format string, a ...interface{}) {
	fmt.Fprintf(os.Stderr, "accesses: %s: cannot classify: %s\n", fset.Position(pos), fmt.Sprintf(format, a...))
	os.Exit(2)
}

func text(n ast.Node) string {
	var b bytes.Buffer
	printer.Fprint(&b, fset, n)
	return b.String()
}

type event struct {
	kind  string // acc acq rel call spawn send recv
	field string
	write bool
	name  string
	line  int
}

type fn struct {
	name     string
	subject  string
	body     *ast.BlockStmt
	file     string
	line     int
	closure  bool
	scoped   bool
	joinChan string
	events   []event
	escapes  []string
	exported bool
	method   bool // method of *Conn
}

var (
	funcs        = map[string]*fn{} // by name
	order        []string
	connMethods  = map[string]bool{}
	connFuncs    = map[string]bool{} // plain functions / foreign methods with a *Conn parameter, by call name
	connFields   = map[string]bool{}
	constructors []string
)

func isStarConn(e ast.Expr) bool {
	s, ok := e.(*ast.StarExpr)
	if !ok {
		return false
	}
	id, ok := s.X.(*ast.Ident)
	return ok && id.Name == connType
}

func recvTypeName(fd *ast.FuncDecl) string {
	if fd.Recv == nil || len(fd.Recv.List) == 0 {
		return ""
	}
	t := fd.Recv.List[0].Type
	if s, ok := t.(*ast.StarExpr); ok {
		t = s.X
	}
	if id, ok := t.(*ast.Ident); ok {
		return id.Name
	}
	return "?"
}

// ---------------------------------------------------------------------

type goInfo struct {
	stmt     *ast.GoStmt
	lit      *ast.FuncLit
	name     string
	scoped   bool
	joinChan string
	recvNode *ast.UnaryExpr
	sends    map[*ast.SendStmt]bool
}

type walker struct {
	f        *fn
	events   []event
	deferred [][]event
	gos      map[*ast.GoStmt]*goInfo
	recvs    map[*ast.UnaryExpr]*goInfo
	skipSend map[*ast.SendStmt]bool
	nclos    *int
	parent   string
}

func (w *walker) emit(e event, pos token.Pos) {
	e.line = fset.Position(pos).Line
	w.events = append(w.events, e)
}

func (w *walker) isSubject(e ast.Expr) bool {
	id, ok := e.(*ast.Ident)
	return ok && id.Name == w.f.subject
}

// rootField returns (field, rest) if e is c.field(.more)* / c.field[...]...
func (w *walker) rootSel(e ast.Expr) (sel *ast.SelectorExpr, depth int) {
	for {
		switch x := e.(type) {
		case *ast.SelectorExpr:
			if w.isSubject(x.X) {
				return x, depth
			}
			e = x.X
			depth++
		case *ast.IndexExpr:
			e = x.X
			depth++
		case *ast.ParenExpr:
			e = x.X
		case *ast.StarExpr:
			e = x.X
			depth++
		default:
			return nil, 0
		}
	}
}

func (w *walker) lockCall(e ast.Expr) string {
	c, ok := e.(*ast.CallExpr)
	if !ok {
		return ""
	}
	s, ok := c.Fun.(*ast.SelectorExpr)
	if !ok {
		return ""
	}
	in, ok := s.X.(*ast.SelectorExpr)
	if !ok || !w.isSubject(in.X) || in.Sel.Name != lockerField {
		return ""
	}
	switch s.Sel.Name {
	case "Lock":
		return "acq"
	case "Unlock":
		return "rel"
	}
	fatal(e.Pos(), "use of %s.%s other than Lock/Unlock: %s", w.f.subject, lockerField, text(e))
	return ""
}

func usesIdent(n ast.Node, name string) bool {
	found := false
	ast.Inspect(n, func(x ast.Node) bool {
		if id, ok := x.(*ast.Ident); ok && id.Name == name {
			found = true
		}
		return !found
	})
	return found
}

func (w *walker) field(sel *ast.SelectorExpr, write bool) {
	name := sel.Sel.Name
	if name == lockerField {
		fatal(sel.Pos(), "mutex field used outside a Lock()/Unlock() statement: %s", text(sel))
	}
	if connMethods[name] {
		fatal(sel.Pos(), "method value %s (not a call)", text(sel))
	}
	if !connFields[name] {
		fatal(sel.Pos(), "%s is neither a field nor a method of %s", text(sel), connType)
	}
	w.emit(event{kind: "acc", field: name, write: write}, sel.Pos())
}

// expression in read position
func (w *walker) expr(e ast.Node) {
	if e == nil {
		return
	}
	ast.Inspect(e, func(n ast.Node) bool {
		switch x := n.(type) {
		case nil:
			return false
		case *ast.FuncLit:
			if usesIdent(x, w.f.subject) {
				fatal(x.Pos(), "function literal capturing %s outside go/defer", w.f.subject)
			}
			return false
		case *ast.CallExpr:
			if k := w.lockCall(x); k != "" {
				fatal(x.Pos(), "Lock/Unlock not used as a statement")
			}
			w.call(x)
			return false
		case *ast.UnaryExpr:
			if x.Op == token.AND {
				if sel, _ := w.rootSel(x.X); sel != nil {
					fatal(x.Pos(), "address of a %s field taken: %s", connType, text(x))
				}
			}
			if x.Op == token.ARROW {
				if gi := w.recvs[x]; gi != nil {
					w.emit(event{kind: "recv", name: gi.name}, x.Pos())
					return false
				}
			}
			return true
		case *ast.SelectorExpr:
			if w.isSubject(x.X) {
				w.field(x, false)
				return false
			}
			return true
		case *ast.IndexExpr:
			if w.isSubject(x.Index) {
				// registration as a map key (s.conns[c]): no field is touched
				w.expr(x.X)
				return false
			}
			return true
		case *ast.Ident:
			if x.Name == w.f.subject {
				fatal(x.Pos(), "bare use of %s (aliasing / escape not understood)", x.Name)
			}
			return true
		}
		return true
	})
}

func (w *walker) call(c *ast.CallExpr) {
	// arguments first (evaluation order is irrelevant to the checker, but keep it readable)
	hasBare := false
	for _, a := range c.Args {
		if w.isSubject(a) {
			hasBare = true
			continue
		}
		w.expr(a)
	}
	switch f := c.Fun.(type) {
	case *ast.SelectorExpr:
		if w.isSubject(f.X) {
			if connMethods[f.Sel.Name] {
				if hasBare {
					fatal(c.Pos(), "%s passed to its own method", w.f.subject)
				}
				w.emit(event{kind: "call", name: f.Sel.Name}, c.Pos())
				return
			}
			// call of a func-typed field? treat as read of the field
			w.field(f, false)
			if hasBare {
				fatal(c.Pos(), "%s passed to a function held in a field", w.f.subject)
			}
			return
		}
		// method of something else, possibly reached through a field of c
		if hasBare {
			w.escape(c)
		}
		w.expr(f.X)
		return
	case *ast.Ident:
		if hasBare {
			if f.Name == "delete" || f.Name == "len" {
				return
			}
			if connFuncs[f.Name] {
				w.emit(event{kind: "call", name: f.Name}, c.Pos())
				return
			}
			w.escape(c)
		}
		return
	case *ast.FuncLit:
		fatal(c.Pos(), "immediately invoked function literal")
	default:
		if hasBare {
			w.escape(c)
		}
		w.expr(c.Fun)
	}
}

func (w *walker) escape(c *ast.CallExpr) {
	callee := text(c.Fun)
	root := w.f.name
	if w.f.closure {
		root = w.parent
	}
	if allowedEscapes[root] != callee {
		fatal(c.Pos(), "%s escapes to %s in %s (not in the list of known backend hand-overs)", w.f.subject, callee, w.f.name)
	}
	w.f.escapes = append(w.f.escapes, callee)
}

// assignment target
func (w *walker) lhs(e ast.Expr) {
	if id, ok := e.(*ast.Ident); ok {
		if id.Name == w.f.subject {
			fatal(e.Pos(), "assignment to / shadowing of %s", id.Name)
		}
		return
	}
	sel, depth := w.rootSel(e)
	if sel == nil {
		w.expr(e)
		return
	}
	if depth == 0 {
		w.field(sel, true)
		return
	}
	// write through the field: read of the field + write of the pseudo field
	w.field(sel, false)
	pseudo := strings.TrimPrefix(text(e), w.f.subject+".")
	if i := strings.Index(pseudo, "["); i >= 0 {
		pseudo = pseudo[:i] + "[]"
	}
	connFields[pseudo] = true
	w.emit(event{kind: "acc", field: pseudo, write: true}, e.Pos())
	// index expressions inside
	ast.Inspect(e, func(n ast.Node) bool {
		if ix, ok := n.(*ast.IndexExpr); ok {
			w.expr(ix.Index)
		}
		return true
	})
}

func isPanicHandler(lit *ast.FuncLit) (*ast.IfStmt, bool) {
	if len(lit.Body.List) != 1 {
		return nil, false
	}
	is, ok := lit.Body.List[0].(*ast.IfStmt)
	if !ok || is.Else != nil || is.Init == nil {
		return nil, false
	}
	as, ok := is.Init.(*ast.AssignStmt)
	if !ok || len(as.Rhs) != 1 {
		return nil, false
	}
	c, ok := as.Rhs[0].(*ast.CallExpr)
	if !ok {
		return nil, false
	}
	id, ok := c.Fun.(*ast.Ident)
	if !ok || id.Name != "recover" {
		return nil, false
	}
	return is, true
}

func (w *walker) stmts(l []ast.Stmt) {
	for _, s := range l {
		w.stmt(s)
	}
}

func (w *walker) stmt(s ast.Stmt) {
	switch x := s.(type) {
	case nil:
	case *ast.ExprStmt:
		switch w.lockCall(x.X) {
		case "acq":
			w.emit(event{kind: "acq"}, x.Pos())
		case "rel":
			w.emit(event{kind: "rel"}, x.Pos())
		default:
			w.expr(x.X)
		}
	case *ast.AssignStmt:
		for _, r := range x.Rhs {
			w.expr(r)
		}
		for _, l := range x.Lhs {
			w.lhs(l)
		}
	case *ast.IncDecStmt:
		w.lhs(x.X)
	case *ast.GoStmt:
		gi := w.gos[x]
		if gi == nil {
			fatal(x.Pos(), "go statement that is not `go func(){...}()`: %s", text(x.Call.Fun))
		}
		w.emit(event{kind: "spawn", name: gi.name}, x.Pos())
		analyseClosure(w, gi)
	case *ast.DeferStmt:
		switch w.lockCall(x.Call) {
		case "rel":
			w.deferred = append(w.deferred, []event{{kind: "rel", line: fset.Position(x.Pos()).Line}})
			return
		case "acq":
			fatal(x.Pos(), "deferred Lock")
		}
		sub := &walker{f: w.f, gos: w.gos, recvs: w.recvs, skipSend: w.skipSend, nclos: w.nclos, parent: w.parent}
		if lit, ok := x.Call.Fun.(*ast.FuncLit); ok {
			if len(x.Call.Args) != 0 {
				fatal(x.Pos(), "deferred literal with arguments")
			}
			sub.stmts(lit.Body.List)
			sub.flushDeferred()
		} else {
			sub.call(x.Call)
		}
		w.deferred = append(w.deferred, sub.events)
	case *ast.ReturnStmt:
		for _, r := range x.Results {
			w.expr(r)
		}
	case *ast.BlockStmt:
		w.stmts(x.List)
	case *ast.IfStmt:
		w.stmt(x.Init)
		w.expr(x.Cond)
		w.stmt(x.Body)
		w.stmt(x.Else)
	case *ast.ForStmt:
		w.stmt(x.Init)
		w.expr(x.Cond)
		w.stmt(x.Body)
		w.stmt(x.Post)
	case *ast.RangeStmt:
		w.expr(x.X)
		if x.Tok == token.ASSIGN {
			if x.Key != nil {
				w.lhs(x.Key)
			}
			if x.Value != nil {
				w.lhs(x.Value)
			}
		} else {
			for _, k := range []ast.Expr{x.Key, x.Value} {
				if id, ok := k.(*ast.Ident); ok && id.Name == w.f.subject {
					fatal(k.Pos(), "shadowing of %s", id.Name)
				}
			}
		}
		w.stmt(x.Body)
	case *ast.SwitchStmt:
		w.stmt(x.Init)
		w.expr(x.Tag)
		w.stmt(x.Body)
	case *ast.TypeSwitchStmt:
		w.stmt(x.Init)
		w.stmt(x.Assign)
		w.stmt(x.Body)
	case *ast.CaseClause:
		for _, e := range x.List {
			w.expr(e)
		}
		w.stmts(x.Body)
	case *ast.SelectStmt:
		w.stmt(x.Body)
	case *ast.CommClause:
		w.stmt(x.Comm)
		w.stmts(x.Body)
	case *ast.SendStmt:
		if w.skipSend[x] {
			return // the completion signal of a scoped closure: emitted once, at its end
		}
		w.expr(x.Chan)
		w.expr(x.Value)
	case *ast.DeclStmt:
		gd := x.Decl.(*ast.GenDecl)
		for _, sp := range gd.Specs {
			if vs, ok := sp.(*ast.ValueSpec); ok {
				for _, n := range vs.Names {
					if n.Name == w.f.subject {
						fatal(n.Pos(), "shadowing of %s", n.Name)
					}
				}
				for _, v := range vs.Values {
					w.expr(v)
				}
			}
		}
	case *ast.LabeledStmt:
		w.stmt(x.Stmt)
	case *ast.BranchStmt:
		if x.Tok == token.GOTO {
			fatal(x.Pos(), "goto")
		}
	case *ast.EmptyStmt:
	default:
		fatal(s.Pos(), "statement %T", s)
	}
}

func (w *walker) flushDeferred() {
	for i := len(w.deferred) - 1; i >= 0; i-- {
		w.events = append(w.events, w.deferred[i]...)
	}
	w.deferred = nil
}

// shadowing by := of the subject
func checkShadow(f *fn) {
	ast.Inspect(f.body, func(n ast.Node) bool {
		switch x := n.(type) {
		case *ast.AssignStmt:
			if x.Tok == token.DEFINE {
				for _, l := range x.Lhs {
					if id, ok := l.(*ast.Ident); ok && id.Name == f.subject {
						fatal(l.Pos(), "shadowing of %s", id.Name)
					}
				}
			}
		case *ast.FuncLit:
			for _, p := range x.Type.Params.List {
				for _, n := range p.Names {
					if n.Name == f.subject {
						fatal(n.Pos(), "shadowing of %s", n.Name)
					}
				}
			}
		}
		return true
	})
}

// ---------------------------------------------------------------------
// go statements: find them, name them, decide scoped / detached

func containsNode(root ast.Node, target ast.Node) bool {
	found := false
	ast.Inspect(root, func(n ast.Node) bool {
		if n == target {
			found = true
		}
		return !found
	})
	return found
}

func hasReturn(n ast.Node) bool {
	found := false
	ast.Inspect(n, func(x ast.Node) bool {
		switch y := x.(type) {
		case *ast.FuncLit:
			return false
		case *ast.ReturnStmt:
			found = true
		case *ast.BranchStmt:
			if y.Tok == token.GOTO {
				found = true
			}
		}
		return !found
	})
	return found
}

// receive on ident ch evaluated unconditionally when statement s is reached
func unconditionalRecv(s ast.Stmt, ch string) *ast.UnaryExpr {
	var scan func(n ast.Node) *ast.UnaryExpr
	scan = func(n ast.Node) *ast.UnaryExpr {
		var r *ast.UnaryExpr
		if n == nil {
			return nil
		}
		ast.Inspect(n, func(x ast.Node) bool {
			if r != nil {
				return false
			}
			switch y := x.(type) {
			case *ast.FuncLit:
				return false
			case *ast.BinaryExpr:
				if y.Op == token.LAND || y.Op == token.LOR {
					// only the left operand is unconditional
					r = scan(y.X)
					return false
				}
			case *ast.UnaryExpr:
				if y.Op == token.ARROW {
					if id, ok := y.X.(*ast.Ident); ok && id.Name == ch {
						r = y
						return false
					}
				}
			}
			return true
		})
		return r
	}
	switch x := s.(type) {
	case *ast.ExprStmt:
		return scan(x.X)
	case *ast.AssignStmt:
		for _, e := range x.Rhs {
			if r := scan(e); r != nil {
				return r
			}
		}
	case *ast.IfStmt:
		if x.Init != nil {
			if r := unconditionalRecv(x.Init, ch); r != nil {
				return r
			}
		}
		return scan(x.Cond)
	case *ast.SwitchStmt:
		if x.Init != nil {
			if r := unconditionalRecv(x.Init, ch); r != nil {
				return r
			}
		}
		if x.Tag != nil {
			return scan(x.Tag)
		}
	}
	return nil
}

func localChans(body *ast.BlockStmt) map[string]bool {
	m := map[string]bool{}
	ast.Inspect(body, func(n ast.Node) bool {
		as, ok := n.(*ast.AssignStmt)
		if !ok || as.Tok != token.DEFINE || len(as.Lhs) != 1 || len(as.Rhs) != 1 {
			return true
		}
		id, ok := as.Lhs[0].(*ast.Ident)
		if !ok {
			return true
		}
		c, ok := as.Rhs[0].(*ast.CallExpr)
		if !ok || len(c.Args) == 0 {
			return true
		}
		if f, ok := c.Fun.(*ast.Ident); ok && f.Name == "make" {
			if _, ok := c.Args[0].(*ast.ChanType); ok {
				m[id.Name] = true
			}
		}
		return true
	})
	// a channel that is assigned again, or stored anywhere, is not local any more
	ast.Inspect(body, func(n ast.Node) bool {
		as, ok := n.(*ast.AssignStmt)
		if !ok {
			return true
		}
		if as.Tok != token.DEFINE {
			for _, l := range as.Lhs {
				if id, ok := l.(*ast.Ident); ok {
					delete(m, id.Name)
				}
			}
		}
		for _, r := range as.Rhs {
			if id, ok := r.(*ast.Ident); ok {
				delete(m, id.Name)
			}
		}
		return true
	})
	return m
}

// decide whether the closure is joined by the enclosing function
func decideScoped(encl *ast.BlockStmt, gi *goInfo, path [][2]interface{}) {
	chans := localChans(encl)
	lit := gi.lit
	// all sends of the closure on local channels
	type sendPos struct {
		s    *ast.SendStmt
		tail bool
	}
	var sends []sendPos
	ch := ""
	body := lit.Body.List
	if len(body) == 0 {
		return
	}
	tailOK := map[*ast.SendStmt]bool{}
	if s, ok := body[len(body)-1].(*ast.SendStmt); ok {
		tailOK[s] = true
	}
	for i, st := range body {
		if d, ok := st.(*ast.DeferStmt); ok {
			l, isLit := d.Call.Fun.(*ast.FuncLit)
			if i != 0 || !isLit {
				return // other defers: be conservative (detached)
			}
			is, ok := isPanicHandler(l)
			if !ok {
				return
			}
			if n := len(is.Body.List); n > 0 {
				if s, ok := is.Body.List[n-1].(*ast.SendStmt); ok {
					tailOK[s] = true
				}
			}
		}
	}
	ast.Inspect(lit.Body, func(n ast.Node) bool {
		if s, ok := n.(*ast.SendStmt); ok {
			if id, ok := s.Chan.(*ast.Ident); ok && chans[id.Name] {
				if ch == "" {
					ch = id.Name
				}
				if ch == id.Name {
					sends = append(sends, sendPos{s, tailOK[s]})
				}
			}
		}
		return true
	})
	if ch == "" {
		return
	}
	normal := false
	for _, sp := range sends {
		if !sp.tail {
			return
		}
		if sp.s == body[len(body)-1] {
			normal = true
		}
	}
	if !normal {
		return
	}
	// the join: innermost enclosing statement list first
	for lvl := len(path) - 1; lvl >= 0; lvl-- {
		list := path[lvl][0].([]ast.Stmt)
		p := path[lvl][1].(int)
		if hasReturn(list[p]) {
			return
		}
		for q := p + 1; q < len(list); q++ {
			if r := unconditionalRecv(list[q], ch); r != nil {
				gi.scoped = true
				gi.joinChan = ch
				gi.recvNode = r
				gi.sends = map[*ast.SendStmt]bool{}
				for _, sp := range sends {
					gi.sends[sp.s] = true
				}
				return
			}
			if hasReturn(list[q]) {
				return
			}
		}
	}
}

func findGos(f *fn, w *walker) {
	var path [][2]interface{}
	var visitList func(l []ast.Stmt)
	var visit func(n ast.Node)
	visit = func(n ast.Node) {
		if n == nil {
			return
		}
		ast.Inspect(n, func(x ast.Node) bool {
			switch y := x.(type) {
			case *ast.BlockStmt:
				visitList(y.List)
				return false
			case *ast.CaseClause:
				visitList(y.Body)
				return false
			case *ast.CommClause:
				visitList(y.Body)
				return false
			case *ast.GoStmt:
				lit, ok := y.Call.Fun.(*ast.FuncLit)
				if !ok || len(y.Call.Args) != 0 {
					fatal(y.Pos(), "go statement that is not `go func(){...}()`")
				}
				*w.nclos++
				gi := &goInfo{stmt: y, lit: lit, name: fmt.Sprintf("%s$%d", f.name, *w.nclos)}
				decideScoped(f.body, gi, append([][2]interface{}{}, path...))
				w.gos[y] = gi
				if gi.recvNode != nil {
					w.recvs[gi.recvNode] = gi
				}
				for s := range gi.sends {
					w.skipSend[s] = true
				}
				// nested go statements inside the literal are not supported
				ast.Inspect(lit.Body, func(z ast.Node) bool {
					if g, ok := z.(*ast.GoStmt); ok {
						fatal(g.Pos(), "go statement inside a go literal")
					}
					return true
				})
				return false
			case *ast.FuncLit:
				return true
			}
			return true
		})
	}
	visitList = func(l []ast.Stmt) {
		for i, s := range l {
			path = append(path, [2]interface{}{l, i})
			switch y := s.(type) {
			case *ast.BlockStmt:
				visitList(y.List)
			default:
				visit(s)
			}
			path = path[:len(path)-1]
		}
	}
	visitList(f.body.List)
}

func analyseClosure(parent *walker, gi *goInfo) {
	pname := parent.f.name
	cf := &fn{name: gi.name, subject: parent.f.subject, body: gi.lit.Body, file: parent.f.file,
		line: fset.Position(gi.lit.Pos()).Line, closure: true, scoped: gi.scoped, joinChan: gi.joinChan}
	w := &walker{f: cf, gos: parent.gos, recvs: parent.recvs, skipSend: parent.skipSend, nclos: parent.nclos, parent: pname}
	w.stmts(gi.lit.Body.List)
	w.flushDeferred()
	if gi.scoped {
		w.emit(event{kind: "send", name: gi.name}, gi.lit.Body.Rbrace)
	}
	cf.events = w.events
	funcs[cf.name] = cf
	order = append(order, cf.name)
}

func analyse(f *fn) {
	checkShadow(f)
	n := 0
	w := &walker{f: f, gos: map[*ast.GoStmt]*goInfo{}, recvs: map[*ast.UnaryExpr]*goInfo{}, skipSend: map[*ast.SendStmt]bool{}, nclos: &n, parent: f.name}
	findGos(f, w)
	w.stmts(f.body.List)
	w.flushDeferred()
	f.events = w.events
}

// ---------------------------------------------------------------------

func q(s string) string { return "\"" + s + "\"" }

func coqList(l []string) string {
	var b []string
	for _, s := range l {
		b = append(b, q(s))
	}
	return "[" + strings.Join(b, "; ") + "]"
}

func main() {
	repo := flag.String("repo", "/repo", "go-smtp source directory")
	out := flag.String("o", "", "output file (default stdout)")
	lines := flag.Bool("lines", false, "print a human readable listing with line numbers instead")
	flag.Parse()

	files, err := filepath.Glob(filepath.Join(*repo, "*.go"))
	if err != nil || len(files) == 0 {
		fmt.Fprintln(os.Stderr, "accesses: no source files in", *repo)
		os.Exit(2)
	}
	sort.Strings(files)
	var parsed []*ast.File
	var used []string
	for _, p := range files {
		if strings.HasSuffix(p, "_test.go") {
			continue
		}
		src, err := os.ReadFile(p)
		if err != nil {
			fmt.Fprintln(os.Stderr, "accesses:", err)
			os.Exit(2)
		}
		if bytes.Contains(src, []byte("//go:build verif")) {
			continue // harness hooks, not part of the library build
		}
		af, err := parser.ParseFile(fset, p, src, parser.ParseComments)
		if err != nil {
			fmt.Fprintln(os.Stderr, "accesses:", err)
			os.Exit(2)
		}
		if af.Name.Name != "smtp" {
			continue
		}
		parsed = append(parsed, af)
		used = append(used, filepath.Base(p))
	}
	have := map[string]bool{}
	for _, u := range used {
		have[u] = true
	}
	if !have["conn.go"] || !have["server.go"] {
		fmt.Fprintln(os.Stderr, "accesses: conn.go / server.go not found in", *repo)
		os.Exit(2)
	}

	// pass 1: the Conn struct, the methods, the functions with a *Conn parameter
	foundStruct := false
	for _, af := range parsed {
		for _, d := range af.Decls {
			switch x := d.(type) {
			case *ast.GenDecl:
				for _, sp := range x.Specs {
					ts, ok := sp.(*ast.TypeSpec)
					if !ok {
						continue
					}
					st, ok := ts.Type.(*ast.StructType)
					if !ok {
						continue
					}
					if ts.Name.Name == connType {
						foundStruct = true
						for _, fl := range st.Fields.List {
							if len(fl.Names) == 0 {
								fatal(fl.Pos(), "embedded field in %s", connType)
							}
							for _, n := range fl.Names {
								connFields[n.Name] = true
							}
						}
						continue
					}
					// a *Conn stored in another struct: only Server.conns (map key) is understood
					for _, fl := range st.Fields.List {
						holds := false
						ast.Inspect(fl.Type, func(n ast.Node) bool {
							if e, ok := n.(ast.Expr); ok && isStarConn(e) {
								holds = true
							}
							return true
						})
						if holds && !(ts.Name.Name == "Server" && len(fl.Names) == 1 && fl.Names[0].Name == "conns") {
							fatal(fl.Pos(), "struct %s keeps a *%s in field %s", ts.Name.Name, connType, text(fl))
						}
					}
				}
			case *ast.FuncDecl:
				if x.Body == nil {
					continue
				}
				rt := recvTypeName(x)
				f := &fn{body: x.Body, file: filepath.Base(fset.Position(x.Pos()).Filename), line: fset.Position(x.Pos()).Line}
				if rt == connType {
					if len(x.Recv.List[0].Names) != 1 {
						fatal(x.Pos(), "method of %s without receiver name", connType)
					}
					if !isStarConn(x.Recv.List[0].Type) {
						fatal(x.Pos(), "value receiver method of %s", connType)
					}
					f.name = x.Name.Name
					f.subject = x.Recv.List[0].Names[0].Name
					f.method = true
					f.exported = ast.IsExported(x.Name.Name)
					connMethods[f.name] = true
					for _, p := range x.Type.Params.List {
						if isStarConn(p.Type) {
							fatal(p.Pos(), "method of %s with a second %s", connType, connType)
						}
					}
				} else {
					for _, p := range x.Type.Params.List {
						if isStarConn(p.Type) {
							if len(p.Names) != 1 || f.subject != "" {
								fatal(p.Pos(), "more than one *%s parameter", connType)
							}
							f.subject = p.Names[0].Name
						}
					}
					if f.subject == "" {
						// constructor?
						isCons := false
						ast.Inspect(x.Body, func(n ast.Node) bool {
							if cl, ok := n.(*ast.CompositeLit); ok {
								if id, ok := cl.Type.(*ast.Ident); ok && id.Name == connType {
									isCons = true
								}
							}
							return true
						})
						if isCons {
							constructors = append(constructors, x.Name.Name)
							ast.Inspect(x.Body, func(n ast.Node) bool {
								if g, ok := n.(*ast.GoStmt); ok {
									fatal(g.Pos(), "go statement in the constructor %s", x.Name.Name)
								}
								return true
							})
						}
						continue
					}
					f.name = x.Name.Name
					if rt != "" {
						f.name = rt + "." + x.Name.Name
					}
					connFuncs[x.Name.Name] = true
				}
				if funcs[f.name] != nil {
					fatal(x.Pos(), "duplicate function %s", f.name)
				}
				funcs[f.name] = f
				order = append(order, f.name)
			}
		}
	}
	if !foundStruct {
		fmt.Fprintln(os.Stderr, "accesses: type Conn struct not found")
		os.Exit(2)
	}
	if !connFields[lockerField] {
		fmt.Fprintln(os.Stderr, "accesses: Conn has no field", lockerField)
		os.Exit(2)
	}

	// pass 2: events
	base := append([]string{}, order...)
	for _, name := range base {
		analyse(funcs[name])
	}

	// exported methods = external entries
	ext := map[string]bool{}
	for _, e := range externals {
		ext[e] = true
		if funcs[e] == nil || !funcs[e].method {
			fmt.Fprintf(os.Stderr, "accesses: cannot classify: external entry %s is not a method of *%s any more\n", e, connType)
			os.Exit(2)
		}
	}
	for _, name := range order {
		f := funcs[name]
		if f.method && f.exported && !ext[name] {
			fatal(f.body.Pos(), "exported method %s of *%s is not in the list of external entries", name, connType)
		}
	}
	// Server.Close / Shutdown reach connections through s.conns: the calls must be external entries
	for _, af := range parsed {
		ast.Inspect(af, func(n ast.Node) bool {
			rs, ok := n.(*ast.RangeStmt)
			if !ok {
				return true
			}
			sel, ok := rs.X.(*ast.SelectorExpr)
			if !ok || sel.Sel.Name != "conns" {
				return true
			}
			k, ok := rs.Key.(*ast.Ident)
			if !ok {
				fatal(rs.Pos(), "range over conns without a key variable")
			}
			ast.Inspect(rs.Body, func(m ast.Node) bool {
				switch y := m.(type) {
				case *ast.CallExpr:
					if s, ok := y.Fun.(*ast.SelectorExpr); ok {
						if id, ok := s.X.(*ast.Ident); ok && id.Name == k.Name {
							if !ext[s.Sel.Name] {
								fatal(y.Pos(), "%s called on a registered connection is not an external entry", s.Sel.Name)
							}
							return false
						}
					}
				case *ast.Ident:
					if y.Name == k.Name {
						fatal(y.Pos(), "registered connection %s used other than by a method call", k.Name)
					}
				}
				return true
			})
			return false
		})
	}

	// dispatchers and handlers
	disp := map[string]bool{}
	for _, d := range dispatchers {
		disp[d] = true
		f := funcs[d]
		if f == nil {
			fmt.Fprintf(os.Stderr, "accesses: cannot classify: dispatcher %s not found\n", d)
			os.Exit(2)
		}
		for _, e := range f.events {
			if e.kind == "acq" || e.kind == "rel" || e.kind == "spawn" {
				fatal(f.body.Pos(), "dispatcher %s locks or spawns itself", d)
			}
		}
	}
	callName := func(n string) string { // call name -> table name
		if funcs[n] != nil {
			return n
		}
		for _, k := range order {
			if strings.HasSuffix(k, "."+n) {
				return k
			}
		}
		return n
	}
	handlerSet := map[string]bool{}
	var handlers []string
	for _, d := range dispatchers {
		for _, e := range funcs[d].events {
			if e.kind == "call" {
				t := callName(e.name)
				if !disp[t] && !handlerSet[t] {
					handlerSet[t] = true
					handlers = append(handlers, t)
				}
			}
		}
	}
	sort.Strings(handlers)
	var closures []string
	for _, name := range order {
		if funcs[name].closure {
			closures = append(closures, name)
		}
	}
	sort.Strings(closures)
	// every call must resolve
	for _, name := range order {
		for i, e := range funcs[name].events {
			if e.kind == "call" {
				t := callName(e.name)
				if funcs[t] == nil {
					fmt.Fprintf(os.Stderr, "accesses: cannot classify: call of unknown %s in %s\n", e.name, name)
					os.Exit(2)
				}
				funcs[name].events[i].name = t
			}
		}
	}
	// every subject function must be reachable from a handler, a closure or an external entry
	reach := map[string]bool{}
	var mark func(n string)
	mark = func(n string) {
		if reach[n] {
			return
		}
		reach[n] = true
		for _, e := range funcs[n].events {
			if e.kind == "call" || e.kind == "spawn" {
				mark(e.name)
			}
		}
	}
	for _, l := range [][]string{dispatchers, handlers, externals} {
		for _, n := range l {
			mark(n)
		}
	}
	var unreached []string
	for _, n := range order {
		if !reach[n] && !(len(funcs[n].events) == 0) {
			if n == "BackendFunc.NewSession" {
				continue
			}
			unreached = append(unreached, n)
		}
	}
	if len(unreached) > 0 {
		fmt.Fprintf(os.Stderr, "accesses: cannot classify: functions touching *%s that nothing classified calls: %v\n", connType, unreached)
		os.Exit(2)
	}

	names := append([]string{}, order...)
	sort.Strings(names)

	var b bytes.Buffer
	if *lines {
		for _, n := range names {
			f := funcs[n]
			fmt.Fprintf(&b, "%s (%s:%d)\n", n, f.file, f.line)
			held := false
			for _, e := range f.events {
				switch e.kind {
				case "acq":
					held = true
				case "rel":
					held = false
				}
				l := ""
				if held {
					l = " [locked]"
				}
				switch e.kind {
				case "acc":
					rw := "R"
					if e.write {
						rw = "W"
					}
					fmt.Fprintf(&b, "  %4d %s %s%s\n", e.line, rw, e.field, l)
				default:
					fmt.Fprintf(&b, "  %4d %s %s\n", e.line, e.kind, e.name)
				}
			}
		}
	} else {
		fmt.Fprintf(&b, "(* GENERATED by tools/accesses from %s (%s) - DO NOT EDIT.\n", *repo, strings.Join(used, " "))
		fmt.Fprintf(&b, "   Regenerated by tools/gentables on every bin/setup and bin/check run. *)\n")
		fmt.Fprintf(&b, "From Coq Require Import List String.\nFrom Smtp Require Import Lockset.\nImport ListNotations.\nLocal Open Scope string_scope.\n\n")
		fmt.Fprintf(&b, "(* constructors (initialisation before the Conn is shared; not part of the\n   concurrent program): %s *)\n\n", strings.Join(constructors, " "))
		fmt.Fprintf(&b, "Definition conn_accesses : list (string * list tcall) := [\n")
		for i, n := range names {
			f := funcs[n]
			kind := "helper"
			switch {
			case disp[n]:
				kind = "dispatcher"
			case f.closure && f.scoped:
				kind = "scoped closure, joined by <-" + f.joinChan
			case f.closure:
				kind = "detached closure"
			case ext[n] && handlerSet[n]:
				kind = "external entry + handler"
			case ext[n]:
				kind = "external entry"
			case handlerSet[n]:
				kind = "handler"
			}
			fmt.Fprintf(&b, "  (* %s:%d  %s *)\n  (%s, [", f.file, f.line, kind, q(n))
			var evs []string
			prev := ""
			for _, e := range f.events {
				var s string
				switch e.kind {
				case "acc":
					s = fmt.Sprintf("Ev (Acc %s %v %s)", q(e.field), e.write, q(n))
				case "acq":
					s = "Ev Acq"
				case "rel":
					s = "Ev Rel"
				case "call":
					s = "Call " + q(e.name)
				case "spawn":
					s = "Ev (Spawn " + q(e.name) + ")"
				case "send":
					s = "Ev (Send " + q(e.name) + ")"
				case "recv":
					s = "Ev (Recv " + q(e.name) + ")"
				}
				if e.kind == "acc" && s == prev {
					continue
				}
				prev = s
				evs = append(evs, s)
			}
			for j, s := range evs {
				if j%3 == 0 {
					fmt.Fprintf(&b, "\n     ")
				}
				fmt.Fprintf(&b, "%s", s)
				if j != len(evs)-1 {
					fmt.Fprintf(&b, "; ")
				}
			}
			fmt.Fprintf(&b, "])")
			if i != len(names)-1 {
				fmt.Fprintf(&b, ";")
			}
			fmt.Fprintf(&b, "\n")
		}
		fmt.Fprintf(&b, "].\n\n")
		fmt.Fprintf(&b, "(* run by the command loop in any order and number *)\n")
		fmt.Fprintf(&b, "Definition conn_dispatchers : list string := %s.\n", coqList(dispatchers))
		fmt.Fprintf(&b, "Definition conn_handlers : list string := %s.\n", coqList(handlers))
		fmt.Fprintf(&b, "(* go func literals; scoped iff the table entry ends with its own Send *)\n")
		fmt.Fprintf(&b, "Definition conn_closures : list string := %s.\n", coqList(closures))
		fmt.Fprintf(&b, "(* exported methods: Server.Close -> Conn.Close, backend calls of accessors *)\n")
		fmt.Fprintf(&b, "Definition conn_externals : list string := %s.\n", coqList(externals))
		var fields []string
		for f := range connFields {
			if f != lockerField {
				fields = append(fields, f)
			}
		}
		sort.Strings(fields)
		fmt.Fprintf(&b, "Definition conn_fields : list string := %s.\n", coqList(fields))
	}
	if *out == "" {
		os.Stdout.Write(b.Bytes())
		return
	}
	// write only when changed, so that make does not rebuild for nothing
	old, err := os.ReadFile(*out)
	if err == nil && bytes.Equal(old, b.Bytes()) {
		return
	}
	if err := os.MkdirAll(filepath.Dir(*out), 0o755); err != nil {
		fmt.Fprintln(os.Stderr, "accesses:", err)
		os.Exit(2)
	}
	if err := os.WriteFile(*out, b.Bytes(), 0o644); err != nil {
		fmt.Fprintln(os.Stderr, "accesses:", err)
		os.Exit(2)
	}
}
