(* The client's dot-writer never drops, duplicates or reorders an octet of the
   message, for EVERY body (also outside the "CR only in CRLF" domain of the
   round-trip theorem): the body is an order-preserving subsequence of what the
   server's specification extracts from the wire; the only octets added are the
   CRs and LFs of line-ending normalisation. *)
From Smtp Require Import Bytes DotSpec DataProofs DataProofs2 DotSpecOrder DotWriter DotWriterProofs.

Lemma norm_w_subseq : forall body w, subseq body (norm_w w body).
Proof.
  induction body as [|c t IH]; intros w; [constructor|].
  cbn [norm_w]. destruct w.
  - destruct (Ascii.eqb c LF) eqn:El.
    + apply Ascii.eqb_eq in El. subst. apply sub_skip. apply sub_keep. apply IH.
    + destruct (Ascii.eqb c CR) eqn:Ec.
      * apply Ascii.eqb_eq in Ec. subst. apply sub_keep. apply IH.
      * apply sub_keep. apply IH.
  - destruct (Ascii.eqb c LF) eqn:El.
    + apply Ascii.eqb_eq in El. subst. apply sub_skip. apply sub_keep. apply IH.
    + destruct (Ascii.eqb c CR) eqn:Ec.
      * apply Ascii.eqb_eq in Ec. subst. apply sub_keep. apply IH.
      * apply sub_keep. apply IH.
  - destruct (Ascii.eqb c LF) eqn:El.
    + apply Ascii.eqb_eq in El. subst. apply sub_keep. apply IH.
    + apply sub_keep. apply IH.
  - destruct (Ascii.eqb c LF) eqn:El.
    + apply Ascii.eqb_eq in El. subst. apply sub_skip. apply sub_keep. apply IH.
    + destruct (Ascii.eqb c CR) eqn:Ec.
      * apply Ascii.eqb_eq in Ec. subst. apply sub_keep. apply IH.
      * apply sub_keep. apply IH.
Qed.

Theorem dot_write_nothing_dropped parts tail :
  exists received,
    unstuff (dot_write_all parts ++ tail) = Complete received tail /\
    subseq (List.concat parts) received.
Proof.
  exists (dw_received (List.concat parts)). split.
  - apply dot_roundtrip_parts_any.
  - apply norm_w_subseq.
Qed.
