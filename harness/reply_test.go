package harness

import (
	"reflect"
	"testing"

	smtp "github.com/emersion/go-smtp"
)

// The concrete instances of coq/theories/ReplyProofs.v
// (C17_no_enhanced_code_refuted, C17_roundtrip_ex, C17_unset_and_empty_ex)
// run on the real writeError / writeResponse / readResponse.
func TestReplyRoundtripInstances(t *testing.T) {
	type tc struct {
		in       smtp.SMTPError
		wire     string
		want     smtp.SMTPError
		rawMsg   string
		equalsIn bool
	}
	no := smtp.NoEnhancedCode
	cases := []tc{
		// NoEnhancedCode never comes back as NoEnhancedCode ...
		{smtp.SMTPError{Code: 550, EnhancedCode: no, Message: "mailbox unavailable"},
			"550 mailbox unavailable\r\n",
			smtp.SMTPError{Code: 550, EnhancedCode: smtp.EnhancedCodeNotSet, Message: "mailbox unavailable"},
			"mailbox unavailable", false},
		// ... a text that looks like an enhanced code is taken for one ...
		{smtp.SMTPError{Code: 550, EnhancedCode: no, Message: "5.1.1 x\n5.1.1 y"},
			"550-5.1.1 x\r\n550 5.1.1 y\r\n",
			smtp.SMTPError{Code: 550, EnhancedCode: smtp.EnhancedCode{5, 1, 1}, Message: "x\ny"},
			"5.1.1 x\n5.1.1 y", false},
		// ... except by accident
		{smtp.SMTPError{Code: 550, EnhancedCode: no, Message: "-1.-1.-1 z"},
			"550 -1.-1.-1 z\r\n",
			smtp.SMTPError{Code: 550, EnhancedCode: no, Message: "z"},
			"-1.-1.-1 z", false},
		// set enhanced code, hostile three-line text: equal
		{smtp.SMTPError{Code: 550, EnhancedCode: smtp.EnhancedCode{5, 1, 1}, Message: " 5.1.1 looks like a code \n\n5.1.1 na\xc3\xafve  "},
			"550-5.1.1  5.1.1 looks like a code \r\n550-5.1.1 \r\n550 5.1.1 5.1.1 na\xc3\xafve  \r\n",
			smtp.SMTPError{Code: 550, EnhancedCode: smtp.EnhancedCode{5, 1, 1}, Message: " 5.1.1 looks like a code \n\n5.1.1 na\xc3\xafve  "},
			"5.1.1  5.1.1 looks like a code \n5.1.1 \n5.1.1 5.1.1 na\xc3\xafve  ", true},
		// unset enhanced code, empty text
		{smtp.SMTPError{Code: 452, EnhancedCode: smtp.EnhancedCodeNotSet, Message: ""},
			"452 4.0.0 \r\n",
			smtp.SMTPError{Code: 452, EnhancedCode: smtp.EnhancedCode{4, 0, 0}, Message: ""},
			"4.0.0 ", false},
	}
	for i, c := range cases {
		in := c.in
		wire := smtp.VerifWriteError(451, smtp.EnhancedCode{4, 0, 0}, &in)
		if string(wire) != c.wire {
			t.Errorf("case %d: wire %q, want %q", i, wire, c.wire)
		}
		dc, dec, dm := smtp.VerifDataErrorToStatus(&in)
		if w2 := smtp.VerifWriteResponse(dc, dec, dm); string(w2) != c.wire {
			t.Errorf("case %d: data path wire %q, want %q", i, w2, c.wire)
		}
		code, msg, err, rest := smtp.VerifReadResponse(append(wire, "250 next"...), 250)
		se, ok := err.(*smtp.SMTPError)
		if !ok {
			t.Fatalf("case %d: error %T %v", i, err, err)
		}
		if code != c.in.Code || msg != c.rawMsg || string(rest) != "250 next" {
			t.Errorf("case %d: code %d msg %q rest %q", i, code, msg, rest)
		}
		if !reflect.DeepEqual(*se, c.want) {
			t.Errorf("case %d: client error %#v, want %#v", i, *se, c.want)
		}
		if reflect.DeepEqual(*se, c.in) != c.equalsIn {
			t.Errorf("case %d: equality with the backend's error: got %v, want %v", i, !c.equalsIn, c.equalsIn)
		}
	}
}
