(* Interleave.v - small-step model of chunked (BDAT) deliveries:
   the command loop, the delivery goroutines, the io.Pipe rendezvous between
   them, the capacity-1 result channel of each delivery, and Conn.reset /
   Conn.Close (also called by Server.Close from another goroutine) aborting
   the pipe.  Data is abstracted away: a chunk is a number of pipe writes, a
   write is a rendezvous that either completes (the reader took it) or fails
   (a side of the pipe was closed).

   conn.go, handleBdat (after fix 3cc2a65 every delivery owns its pipe reader
   and its result channel):

     first chunk:   r, c.bdatPipe = io.Pipe(); dataResult = make(chan error, 1)
                    go { err = session.Data(r); dataResult <- err; r.CloseWithError(err) }
     every chunk:   io.Copy(c.bdatPipe, chunk)         -- pipe writes
        on error:   (LMTP and LAST: c.bdatPipe.CloseWithError; <-dataResult)
                    c.reset()                          -- closes the pipe
        LAST:       c.bdatPipe.Close(); <-dataResult; c.reset()
     RSET / MAIL / EHLO / QUIT / Server.Close: reset() / Close() close the pipe.

   The backend (session.Data) is nondeterministic: while it runs it may read
   again or return early, as the schedule says.  The only assumption - the
   documented contract of Session.Data - is built into [DFailed]: once a
   read has failed (EOF after the last chunk, ErrDataReset after an abort)
   the backend returns instead of reading for ever. *)
From Coq Require Import List Arith Bool Lia.
Import ListNotations.

Inductive dstate :=
| DRun       (* inside session.Data *)
| DFailed    (* a read failed: the backend is about to return (contract) *)
| DRet       (* session.Data returned: about to send the result *)
| DSent      (* result is in the channel: about to close the reader *)
| DDone.     (* goroutine finished *)

Inductive rstate := REmpty | RFull | RTaken.   (* the capacity-1 result channel *)

Record deliv := mkD {
  d_st : dstate;
  wclosed : bool;    (* write side closed (Close / CloseWithError by the loop, reset, Conn.Close) *)
  rclosed : bool;    (* read side closed by the delivery goroutine *)
  pending : bool;    (* a pipe write is waiting for a reader *)
  res : rstate
}.

Definition fresh : deliv := mkD DRun false false false REmpty.
Definition pipe_closed (d : deliv) : bool := wclosed d || rclosed d.

Inductive lstate :=
| LIdle                                  (* waiting for the next command *)
| LChunk (i n : nat) (last : bool)       (* io.Copy: n writes to go, into delivery i's pipe *)
| LBlocked (i n : nat) (last : bool)     (* blocked in a pipe write *)
| LWait (i : nat)                        (* blocked in <-dataResult *)
| LEnd.                                  (* handleConn returned *)

Record state := mkS {
  loop : lstate;
  cur : option nat;      (* c.bdatPipe: the delivery whose pipe it is *)
  closed : bool;         (* Conn.closed *)
  nd : nat;              (* deliveries spawned so far *)
  dv : nat -> deliv
}.

Inductive cmd := CBdat (n : nat) (last : bool) | CReset | CQuit.
Inductive dact := Read | Return.
Inductive action :=
| ALoop (c : cmd)            (* the loop moves; c is the next command if it is idle *)
| ADeliv (i : nat) (a : dact)(* delivery goroutine i moves; a is the backend's choice *)
| AClose.                    (* Server.Close -> Conn.Close from another goroutine *)

Definition upd (f : nat -> deliv) (i : nat) (d : deliv) : nat -> deliv :=
  fun j => if Nat.eqb j i then d else f j.

Definition set_wclosed (d : deliv) : deliv := mkD (d_st d) true (rclosed d) (pending d) (res d).

(* reset() / Close(): close the pipe in c.bdatPipe and forget it *)
Definition close_cur (s : state) : state :=
  match cur s with
  | Some i => mkS (loop s) None (closed s) (nd s) (upd (dv s) i (set_wclosed (dv s i)))
  | None => s
  end.

Definition init : state := mkS LIdle None false 0 (fun _ => fresh).

Section Step.
  Variable lmtp : bool.

  (* a pipe write into delivery i failed *)
  Definition abort (s : state) (i : nat) (last : bool) : state :=
    let d := dv s i in
    let d' := mkD (d_st d) true (rclosed d) false (res d) in
    if lmtp && last
    then (* CloseWithError, then wait for the backend before replying *)
      mkS (LWait i) (cur s) (closed s) (nd s) (upd (dv s) i d')
    else (* reply, reset() *)
      mkS LIdle None (closed s) (nd s) (upd (dv s) i d').

  Definition step (s : state) (a : action) : option state :=
    match a with
    | ALoop c =>
        match loop s with
        | LEnd => None
        | LIdle =>
            if closed s then Some (mkS LEnd (cur s) (closed s) (nd s) (dv s))
            else
              match c with
              | CBdat n last =>
                  match cur s with
                  | Some i => Some (mkS (LChunk i n last) (cur s) (closed s) (nd s) (dv s))
                  | None =>
                      let i := nd s in
                      Some (mkS (LChunk i n last) (Some i) (closed s) (S i) (upd (dv s) i fresh))
                  end
              | CReset => Some (close_cur s)
              | CQuit =>
                  let s' := close_cur s in
                  Some (mkS LEnd None true (nd s') (dv s'))
              end
        | LChunk i O last =>
            if last then
              (* c.bdatPipe.Close() ; <-dataResult *)
              Some (mkS (LWait i) (cur s) (closed s) (nd s) (upd (dv s) i (set_wclosed (dv s i))))
            else Some (mkS LIdle (cur s) (closed s) (nd s) (dv s))
        | LChunk i (S n) last =>
            if pipe_closed (dv s i) then Some (abort s i last)
            else
              let d := dv s i in
              Some (mkS (LBlocked i n last) (cur s) (closed s) (nd s)
                        (upd (dv s) i (mkD (d_st d) (wclosed d) (rclosed d) true (res d))))
        | LBlocked i n last =>
            if pipe_closed (dv s i) then Some (abort s i last)
            else if pending (dv s i) then None
            else Some (mkS (LChunk i n last) (cur s) (closed s) (nd s) (dv s))
        | LWait i =>
            match res (dv s i) with
            | RFull =>
                let d := dv s i in
                let s1 := mkS LIdle (cur s) (closed s) (nd s)
                              (upd (dv s) i (mkD (d_st d) (wclosed d) (rclosed d) (pending d) RTaken)) in
                Some (close_cur s1)
            | _ => None
            end
        end
    | AClose =>
        if closed s then None
        else let s' := close_cur s in Some (mkS (loop s') None true (nd s') (dv s'))
    | ADeliv i a =>
        if i <? nd s then
          let d := dv s i in
          match d_st d with
          | DRun =>
              match a with
              | Read =>
                  if pending d then
                    Some (mkS (loop s) (cur s) (closed s) (nd s)
                              (upd (dv s) i (mkD DRun (wclosed d) (rclosed d) false (res d))))
                  else if pipe_closed d then
                    Some (mkS (loop s) (cur s) (closed s) (nd s)
                              (upd (dv s) i (mkD DFailed (wclosed d) (rclosed d) false (res d))))
                  else None
              | Return =>
                  Some (mkS (loop s) (cur s) (closed s) (nd s)
                            (upd (dv s) i (mkD DRet (wclosed d) (rclosed d) (pending d) (res d))))
              end
          | DFailed =>
              Some (mkS (loop s) (cur s) (closed s) (nd s)
                        (upd (dv s) i (mkD DRet (wclosed d) (rclosed d) (pending d) (res d))))
          | DRet =>
              match res d with
              | REmpty =>
                  Some (mkS (loop s) (cur s) (closed s) (nd s)
                            (upd (dv s) i (mkD DSent (wclosed d) (rclosed d) (pending d) RFull)))
              | _ => None    (* the channel is full: the send would block *)
              end
          | DSent =>
              Some (mkS (loop s) (cur s) (closed s) (nd s)
                        (upd (dv s) i (mkD DDone (wclosed d) true (pending d) (res d))))
          | DDone => None
          end
        else None
    end.

  (* a schedule: who tries to move next; a blocked task does not move *)
  Definition exec (s : state) (a : action) : state :=
    match step s a with Some s' => s' | None => s end.

  Definition run (s : state) (sched : list action) : state := fold_left exec sched s.
End Step.
