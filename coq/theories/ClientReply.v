(* client.go: readResponse / toSMTPErr / parseEnhancedCode, together with the
   parts of Go's standard library they run: net/textproto Reader.ReadLine,
   parseCodeLine, Reader.ReadResponse, strconv.Atoi, strings.SplitN/Split/
   ReplaceAll.  Modelled as written (go1.23): in particular Atoi's optional
   sign, the "code < 100" rule, ReadResponse's treatment of continuation lines
   whose code differs, and the stripping of the repeated enhanced code.

   The stream is the sequence of octets the peer has sent (and then closed /
   nothing more arrives: an exhausted stream is an io error, io.EOF for the
   harness's bytes.Reader).  bufio's 4096-octet buffer is invisible here:
   textproto concatenates the fragments of a long line, so there is no line
   length limit in this model. *)
From Smtp Require Import Bytes GoStrings Reply.
Local Open Scope char_scope.

(* ---- bufio.Reader.ReadLine + textproto.Reader.ReadLine ---- *)

(* drop ONE trailing CR (bufio: "\r\n" is dropped as a unit) *)
Fixpoint strip_cr (l : bytes) : bytes :=
  match l with
  | [] => []
  | c :: t =>
      match t with
      | [] => if Ascii.eqb c CR then [] else [c]
      | _ :: _ => c :: strip_cr t
      end
  end.

(* the line without its LF / CRLF, and the unread rest; None = error (EOF).
   An unterminated tail is returned as a line, unchanged (its CR is kept). *)
Definition read_line (s : bytes) : option (bytes * bytes) :=
  match s with
  | [] => None
  | _ :: _ =>
      match cut_byte LF s with
      | Some (l, rest) => Some (strip_cr l, rest)
      | None => Some (s, [])
      end
  end.

(* ---- strconv.Atoi on a 64-bit platform ---- *)

Definition int_max : Z := 9223372036854775807.
Definition int_min : Z := -9223372036854775808.

(* optional sign, at least one digit, digits only, value in the int range;
   None = any error (syntax or range) *)
Definition atoi (s : bytes) : option Z :=
  let '(neg, d) :=
    match s with
    | c :: t => if Ascii.eqb c "-" then (true, t)
                else if Ascii.eqb c "+" then (false, t) else (false, s)
    | [] => (false, [])
    end in
  match d with
  | [] => None
  | _ :: _ =>
      if forallb is_digit d then
        let v := Z.of_N (dec_value d) in
        let z := if neg then (- v)%Z else v in
        if (int_min <=? z)%Z && (z <=? int_max)%Z then Some z else None
      else None
  end.

(* ---- textproto ---- *)

Inductive tp_err :=
| TPNone
| TPProto (text : bytes)            (* textproto.ProtocolError *)
| TPError (code : Z) (msg : bytes)  (* *textproto.Error *)
| TPEof.                            (* the reader's error *)

Definition tp_is_err (e : tp_err) : bool :=
  match e with TPNone => false | _ => true end.

(* the three expectCode ranges; code >= 100 where this is used, so Go's
   truncating division is Z.div *)
Definition expect_mismatch (expect code : Z) : bool :=
  ((1 <=? expect) && (expect <? 10) && negb (code / 100 =? expect))%Z
  || ((10 <=? expect) && (expect <? 100) && negb (code / 10 =? expect))%Z
  || ((100 <=? expect) && (expect <? 1000) && negb (code =? expect))%Z.

(* parseCodeLine(line, expectCode) = (code, continued, message, err) *)
Definition parse_code_line (line : bytes) (expect : Z) : Z * bool * bytes * tp_err :=
  match line with
  | a :: b :: c :: d :: m =>
      if Ascii.eqb d " " || Ascii.eqb d "-" then
        let continued := Ascii.eqb d "-" in
        match atoi [a; b; c] with
        | Some code =>
            if (code <? 100)%Z then
              (code, continued, [], TPProto (bs "invalid response code: " ++ line))
            else
              (code, continued, m,
               if expect_mismatch expect code then TPError code m else TPNone)
        | None => (0%Z, continued, [], TPProto (bs "invalid response code: " ++ line))
        end
      else (0%Z, false, [], TPProto (bs "short response: " ++ line))
  | _ => (0%Z, false, [], TPProto (bs "short response: " ++ line))
  end.

(* the "for continued" loop of ReadResponse; None = ReadLine failed.
   Each iteration consumes at least one octet, so |stream|+1 is enough fuel. *)
Fixpoint read_more (fuel : nat) (code : Z) (message : bytes) (s : bytes)
  : option (bytes * bytes) :=
  match fuel with
  | O => None
  | S f =>
      match read_line s with
      | None => None
      | Some (line, rest) =>
          let '(code2, continued, more, err) := parse_code_line line 0 in
          if tp_is_err err || negb (code2 =? code)%Z then
            read_more f code (message ++ LF :: trim_right_crlf line) rest
          else if continued then read_more f code (message ++ LF :: more) rest
          else Some (message ++ LF :: more, rest)
      end
  end.

Definition resp_result := (Z * bytes * tp_err)%type.

(* Reader.ReadResponse(expectCode): result and unread rest of the stream *)
Definition read_response (expect : Z) (s : bytes) : resp_result * bytes :=
  match read_line s with
  | None => ((0%Z, [], TPEof), [])
  | Some (line, rest) =>
      let '(code, continued, message, err) := parse_code_line line expect in
      if continued then
        match read_more (S (List.length rest)) code message rest with
        | None => ((0%Z, [], TPEof), [])
        | Some (message', rest') =>
            let err' :=
              if tp_is_err err && negb (match message' with [] => true | _ => false end)
              then TPError code message' else err in
            ((code, message', err'), rest')
        end
      else ((code, message, err), rest)
  end.

(* ---- client.go ---- *)

(* strings.ReplaceAll(s, pat, rep) for a non-empty pat: leftmost,
   non-overlapping.  [skip] = octets of a matched occurrence still to drop. *)
Fixpoint replace_all_f (pat rep : bytes) (skip : nat) (s : bytes) : bytes :=
  match s with
  | [] => []
  | c :: t =>
      match skip with
      | S k => replace_all_f pat rep k t
      | O => if is_prefix pat s
             then rep ++ replace_all_f pat rep (Nat.pred (List.length pat)) t
             else c :: replace_all_f pat rep O t
      end
  end.
Definition replace_all (pat rep s : bytes) : bytes := replace_all_f pat rep O s.

(* parseEnhancedCode: (code, ok); on error the components parsed so far *)
Definition parse_enhanced_code (s : bytes) : ecode * bool :=
  match split_byte "." s with
  | [a; b; c] =>
      match atoi a with
      | None => ((0, 0, 0)%Z, false)
      | Some x =>
          match atoi b with
          | None => ((x, 0, 0)%Z, false)
          | Some y =>
              match atoi c with
              | None => ((x, y, 0)%Z, false)
              | Some z => ((x, y, z), true)
              end
          end
      end
  | _ => ((0, 0, 0)%Z, false)
  end.

(* toSMTPErr(&textproto.Error{code, msg}) = SMTPError{code, ec, message} *)
Definition to_smtp_err (code : Z) (msg : bytes) : Z * ecode * bytes :=
  match cut_byte " " msg with
  | None => (code, ec_not_set, msg)
  | Some (p0, p1) =>
      let '(ec, ok) := parse_enhanced_code p0 in
      if ok then (code, ec, replace_all (LF :: p0 ++ [" "]) [LF] p1)
      else (code, ec_not_set, msg)
  end.

Inductive cerr :=
| CNil
| CSmtp (code : Z) (ec : ecode) (msg : bytes)   (* *SMTPError *)
| CProto (text : bytes)                         (* textproto.ProtocolError *)
| CEof.                                         (* io error *)

Definition cerr_of_tp (e : tp_err) : cerr :=
  match e with
  | TPNone => CNil
  | TPProto t => CProto t
  | TPError c m => let '(c', ec, m') := to_smtp_err c m in CSmtp c' ec m'
  | TPEof => CEof
  end.

(* Client.readResponse(expectCode) *)
Definition client_read_response (expect : Z) (s : bytes) : (Z * bytes * cerr) * bytes :=
  let '((code, msg, err), rest) := read_response expect s in
  ((code, msg, cerr_of_tp err), rest).

(* ---- examples ---- *)

Example ex_single :
  client_read_response 250 (bs "550 5.1.1 no such user" ++ crlf ++ bs "next")
  = ((550%Z, bs "5.1.1 no such user", CSmtp 550 (5, 1, 1)%Z (bs "no such user")), bs "next").
Proof. vm_compute. reflexivity. Qed.

Example ex_multi :
  client_read_response 250
    (bs "550-5.1.1 one" ++ crlf ++ bs "550 5.1.1 two" ++ crlf)
  = ((550%Z, bs "5.1.1 one" ++ LF :: bs "5.1.1 two",
      CSmtp 550 (5, 1, 1)%Z (bs "one" ++ LF :: bs "two")), []).
Proof. vm_compute. reflexivity. Qed.

Example ex_sign :
  client_read_response 250 (bs "+12 x" ++ crlf)
  = ((12%Z, [], CProto (bs "invalid response code: +12 x")), []).
Proof. vm_compute. reflexivity. Qed.

Example ex_ok : client_read_response 250 (bs "250 2.0.0 OK" ++ crlf)
  = ((250%Z, bs "2.0.0 OK", CNil), []).
Proof. vm_compute. reflexivity. Qed.
