(* C14 - envelope and options survive the client-to-server trip unchanged.

   Models: Client.v (Client.Mail / Client.Rcpt parameter rendering:
   mail_params, rcpt_params, mail_line, rcpt_line, format_rfc3339 =
   Time.Format(time.RFC3339)), Xtext.v / Utf8.v (the xtext, utf-8-addr-xtext
   and utf-8-addr-unitext encoders and decoders of conn.go), Parse.v +
   GoStrings.v (parseCmd, cutPrefixFold, the RFC 5321 path parser, parseArgs
   over strings.Fields / strings.TrimSpace with Go's Unicode white space),
   Rfc3339.v (time.Parse(time.RFC3339)), Conn.v (handleMail / handleRcpt).
   Tied to the real code by the "trip" cases (real client against real server,
   CheckTrip.v) and the per-code-point codec cases.

   1. Codecs, unbounded:
      C14_xtext_inverse            every 7-bit ASCII string
      C14_utf8_addr_*_inverse      every text over U+0020..U+007F and all
                                   non-ASCII Unicode scalar values (addr_cp)
   2. Per-parameter level, for ALL values: what the client writes for a parameter
      is decoded by the server's handler to the value given, for every
      previous option record o (so the statements compose in any order):
      ENVID (non-empty printable ASCII), AUTH (7-bit mailboxes the server's
      parser accepts whole; the empty string as AUTH=<>), RET, SMTPUTF8,
      REQUIRETLS, BODY (7BIT, 8BITMIME, BINARYMIME), SIZE (every n < 2^63 within the server's
      limit), ORCPT rfc822 / utf-8 in BOTH forms (every text over
      U+0020..U+007F and all non-ASCII scalar values, the Unicode White_Space
      code points included: the unitext form embeds them as \x{HEX} -
      C14_unitext_ws_free, C14_orcpt_unicode_space_witness; sending them raw
      was finding F29, fixed), NOTIFY (the sixteen sets
      checkNotifySet accepts - C14_notify_sets_exact), RRVS (C14_rrvs on top
      of C14_rfc3339_roundtrip: every instant whose local date is in the years
      0001..9999, every zone offset of whole minutes inside (-24h, +24h); the
      instant and the offset arrive, to the second).
   3. Line level: C14_mail_trip / C14_rcpt_trip quantify over ALL servers
      cfg, ALL client extension maps ext and ALL connection states c with
        - the server extensions the options need enabled (mail_srv/rcpt_srv),
        - their keys in ext (mail_ext / rcpt_ext; C14_ehlo_bridge +
          C14_caps_keys: the map parsed from THIS server's EHLO reply has
          them),
        - the server ready for the command (mail_state_ok / rcpt_state_ok),
      over ALL addresses in addr_ok (any octets, including non-ASCII, see
      below) or the null sender, and ALL option records in mail_dom /
      rcpt_dom: the client returns no local error, the line it writes
      (C14_client_writes_mail, C14_client_writes_rcpt) is parsed by the server into ONE backend call
      EMail / ERcpt carrying the same address and seen_mail ext o / seen_rcpt o:
      every field as given, MailOptions.Body included (seen_mail_id:
      seen_mail ext o = o whenever Body is set; C14_body: each of 7BIT /
      8BITMIME / BINARYMIME x EVERY server configuration - a server without
      EnableBINARYMIME does not offer it and the client refuses Body =
      BINARYMIME locally; C14_binarymime_data_refused: what DATA does after
      it), except that
        - an unset Body arrives as "8BITMIME" when the server offers 8BITMIME
          (the documented default of Client.Mail; seen_body),
        - OriginalRecipientType travels only with a non-empty
          OriginalRecipient, the zero RequireRecipientValidSince is "absent",
          and nanoseconds are not transmitted.
      C14_oracle_*: these are exactly the values CheckTrip's observed-behaviour
      oracle accepts.

   EXCLUDED from the domain, each with a computed witness of what happens:
     F25  addresses that are not CheckTrip.addr_simple - SP / HT / '<' / '>'
          inside, leading DQUOTE or '@', empty local part or domain - inject
          parameters (C14_address_injection_refuted).
     addr_ok is addr_simple minus the addresses the server REFUSES with 501:
          one of ( ) < > [ ] : ; \ , DQUOTE in the local part, or a trailing '@'
          (C14_addr_special_refused: nothing reaches the backend).
     Auth = "<>" literally (arrives as ""; C14_auth_brackets_refuted), Auth
          values that are not 7-bit mailboxes, negative Size
          (C14_negative_size_refused), Size above the server's limit. *)
From Smtp Require Import Bytes GoStrings Utf8 Xtext Parse Reply Rfc3339 Conn XtextProofs
                         C14Time C14Rfc3339 C14Param C14Line C14Unitext C14Proofs.
From Smtp Require Client ClientReply ClientProofs CheckTrip.
Local Open Scope char_scope.

(* ---------- 1. codecs ---------- *)

Theorem C14_xtext_inverse : forall s,
  forallb is_ascii7 s = true -> decode_xtext (encode_xtext s) = Some s.
Proof. exact xtext_roundtrip. Qed.
Print Assumptions C14_xtext_inverse.

Theorem C14_utf8_addr_xtext_inverse : forall cs,
  forallb addr_cp cs = true ->
  decode_utf8_addr_xtext (encode_utf8_addr_xtext (utf8_of_runes cs)) = Some (utf8_of_runes cs).
Proof. exact utf8_addr_xtext_roundtrip. Qed.
Print Assumptions C14_utf8_addr_xtext_inverse.

Theorem C14_utf8_addr_unitext_inverse : forall cs,
  forallb addr_cp cs = true ->
  decode_utf8_addr_xtext (encode_utf8_addr_unitext (utf8_of_runes cs)) = Some (utf8_of_runes cs).
Proof. exact utf8_addr_unitext_roundtrip. Qed.
Print Assumptions C14_utf8_addr_unitext_inverse.

Theorem C14_rfc3339_roundtrip t :
  rt_dom t ->
  parse_rfc3339 (Client.format_rfc3339 t) = Some (mkRT (rt_unix t) 0 (rt_off t)).
Proof. exact (rfc3339_roundtrip t). Qed.
Print Assumptions C14_rfc3339_roundtrip.

(* the day arithmetic of Format and Parse are inverse for EVERY day number *)
Theorem C14_civil_roundtrip z :
  let '(y, m, d) := Client.civil_from_days z in
  (1 <= m <= 12 /\ 1 <= d <= days_in m y /\ days_from_civil y m d = z
   /\ (-719162 <= z <= 2932896 -> 1 <= y <= 9999))%Z.
Proof. exact (civil_roundtrip z). Qed.
Print Assumptions C14_civil_roundtrip.

Theorem C14_size_decimal bits n :
  (n < 2 ^ bits)%N -> parse_uint bits (dec_of_N n) = POk n.
Proof. exact (parse_uint_dec_of_N bits n). Qed.
Print Assumptions C14_size_decimal.

(* ---------- 2. parameter level ---------- *)

Theorem C14_envid cfg s o bm :
  cf_dsn cfg = true -> s <> [] -> is_printable_ascii s = true ->
  mail_param cfg (bs "ENVID") (encode_xtext s) o bm = inl (set_envid o s, bm).
Proof. exact (C14Param.C14_envid cfg s o bm). Qed.
Print Assumptions C14_envid.

Theorem C14_auth_mailbox cfg mb o bm :
  forallb is_ascii7 mb = true -> parse_mailbox mb = Some (mb, []) ->
  mail_param cfg (bs "AUTH") (encode_xtext mb) o bm = inl (set_auth o (Some mb), bm).
Proof. exact (C14Param.C14_auth_mailbox cfg mb o bm). Qed.
Print Assumptions C14_auth_mailbox.

Theorem C14_auth_empty cfg o bm :
  mail_param cfg (bs "AUTH") (Client.auth_value []) o bm = inl (set_auth o (Some []), bm).
Proof. exact (C14Param.C14_auth_empty cfg o bm). Qed.
Print Assumptions C14_auth_empty.

Theorem C14_ret cfg v o bm :
  cf_dsn cfg = true -> v = bs "FULL" \/ v = bs "HDRS" ->
  mail_param cfg (bs "RET") v o bm = inl (set_ret o v, bm).
Proof. exact (C14Param.C14_ret cfg v o bm). Qed.
Print Assumptions C14_ret.

Theorem C14_smtputf8 cfg o bm :
  cf_utf8 cfg = true -> mail_param cfg (bs "SMTPUTF8") [] o bm = inl (set_utf8 o true, bm).
Proof. exact (C14Param.C14_smtputf8 cfg o bm). Qed.
Print Assumptions C14_smtputf8.

Theorem C14_requiretls cfg o bm :
  cf_requiretls cfg = true ->
  mail_param cfg (bs "REQUIRETLS") [] o bm = inl (set_requiretls o true, bm).
Proof. exact (C14Param.C14_requiretls cfg o bm). Qed.
Print Assumptions C14_requiretls.

Theorem C14_body_param cfg v o bm :
  body_value v -> (v = bs "BINARYMIME" -> cf_binarymime cfg = true) ->
  mail_param cfg (bs "BODY") v o bm = inl (set_body o v, bm || is_binarymime v).
Proof. exact (C14Param.C14_body_param cfg v o bm). Qed.
Print Assumptions C14_body_param.

Theorem C14_body_binarymime_disabled cfg o bm :
  cf_binarymime cfg = false ->
  mail_param cfg (bs "BODY") (bs "BINARYMIME") o bm
  = inr (504, (5, 5, 4), bs "BINARYMIME is not implemented")%Z.
Proof. exact (C14Param.C14_body_binarymime_disabled cfg o bm). Qed.
Print Assumptions C14_body_binarymime_disabled.

Theorem C14_size cfg n o bm :
  (n < 2 ^ 63)%N ->
  (cf_max_bytes cfg <= 0 \/ Z.of_N n <= cf_max_bytes cfg)%Z ->
  mail_param cfg (bs "SIZE") (dec_of_N n) o bm = inl (set_size o (Z.of_N n), bm).
Proof. exact (C14Param.C14_size cfg n o bm). Qed.
Print Assumptions C14_size.

Theorem C14_size_Z cfg z o bm :
  (0 <= z < 2 ^ 63)%Z ->
  (cf_max_bytes cfg <= 0 \/ z <= cf_max_bytes cfg)%Z ->
  mail_param cfg (bs "SIZE") (dec_of_Z z) o bm = inl (set_size o z, bm).
Proof. exact (C14Param.C14_size_Z cfg z o bm). Qed.
Print Assumptions C14_size_Z.

Theorem C14_orcpt_rfc822 cfg s o :
  cf_dsn cfg = true -> s <> [] -> is_printable_ascii s = true ->
  rcpt_param cfg (bs "ORCPT") (bs "RFC822;" ++ encode_xtext s) o
  = inl (set_orcpt o (bs "RFC822") s).
Proof. exact (C14Param.C14_orcpt_rfc822 cfg s o). Qed.
Print Assumptions C14_orcpt_rfc822.

Theorem C14_orcpt_utf8_unitext cfg cs o :
  cf_dsn cfg = true -> cs <> [] -> forallb addr_cp cs = true ->
  rcpt_param cfg (bs "ORCPT") (bs "UTF-8;" ++ encode_utf8_addr_unitext (utf8_of_runes cs)) o
  = inl (set_orcpt o (bs "UTF-8") (utf8_of_runes cs)).
Proof. exact (C14Param.C14_orcpt_utf8_unitext cfg cs o). Qed.
Print Assumptions C14_orcpt_utf8_unitext.

Theorem C14_orcpt_utf8_xtext cfg cs o :
  cf_dsn cfg = true -> cs <> [] -> forallb addr_cp cs = true ->
  rcpt_param cfg (bs "ORCPT") (bs "UTF-8;" ++ encode_utf8_addr_xtext (utf8_of_runes cs)) o
  = inl (set_orcpt o (bs "UTF-8") (utf8_of_runes cs)).
Proof. exact (C14Param.C14_orcpt_utf8_xtext cfg cs o). Qed.
Print Assumptions C14_orcpt_utf8_xtext.

Theorem C14_notify cfg vals o :
  cf_dsn cfg = true -> In vals notify_sets ->
  rcpt_param cfg (bs "NOTIFY") (join (bs ",") vals) o = inl (set_notify o vals).
Proof. exact (C14Param.C14_notify cfg vals o). Qed.
Print Assumptions C14_notify.

Theorem C14_notify_sets_exact vals : notify_ok vals = true <-> In vals notify_sets.
Proof. exact (notify_sets_complete vals). Qed.
Print Assumptions C14_notify_sets_exact.

Theorem C14_rrvs cfg t o :
  cf_rrvs cfg = true -> rt_dom t ->
  rcpt_param cfg (bs "RRVS") (Client.format_rfc3339 t) o
  = inl (set_rrvs o (mkRT (rt_unix t) 0 (rt_off t))).
Proof. exact (C14Param.C14_rrvs cfg t o). Qed.
Print Assumptions C14_rrvs.

(* ---------- 3. line level ---------- *)

Theorem C14_mail_trip cfg ext c from opts :
  let o := match opts with Some o => o | None => mo_zero end in
  let ps := mail_toks ext o in
  (from = [] \/ addr_ok from = true) ->
  mail_dom cfg o -> mail_srv cfg o -> mail_ext ext o -> mail_state_ok c ->
  Client.mail_params ext opts = inl ps
  /\ exists arg,
       parse_cmd (Client.mail_line from ps) = Some (bs "MAIL", arg)
       /\ exists c' w,
            handle cfg c (bs "MAIL") arg
            = (c', [EMail from (seen_mail ext o) (fst (pop_mail c)); w])
            /\ c_binarymime c' = is_binarymime (mo_body o).
Proof. exact (C14Proofs.C14_mail_trip cfg ext c from opts). Qed.
Print Assumptions C14_mail_trip.

(* the options arrive unchanged, Body included, whenever Body is set *)
Theorem C14_seen_mail_id ext o : mo_body o <> [] -> seen_mail ext o = o.
Proof. exact (C14Proofs.seen_mail_id ext o). Qed.
Print Assumptions C14_seen_mail_id.

(* MailOptions.Body: every value x every server configuration *)
Theorem C14_body cfg ext c from b :
  body_value b ->
  (from = [] \/ addr_ok from = true) -> mail_state_ok c ->
  (forall k, Client.has_ext ext k = true <-> In k (map ClientProofs.ext_key (caps cfg c))) ->
  let o := set_body mo_zero b in
  if is_binarymime b && negb (cf_binarymime cfg)
  then Client.mail_params ext (Some o) = inr Client.err_binarymime
  else exists ps arg c' w,
         Client.mail_params ext (Some o) = inl ps
         /\ parse_cmd (Client.mail_line from ps) = Some (bs "MAIL", arg)
         /\ handle cfg c (bs "MAIL") arg = (c', [EMail from o (fst (pop_mail c)); w])
         /\ c_binarymime c' = is_binarymime b.
Proof. exact (C14Proofs.C14_body cfg ext c from b). Qed.
Print Assumptions C14_body.

Theorem C14_binarymime_data_refused cfg c :
  c_binarymime c = true -> c_bdat c = None ->
  handle cfg c (bs "DATA") []
  = (c, [reply 502 (5, 5, 1)%Z (bs "DATA not allowed for BINARYMIME messages")]).
Proof. exact (C14Proofs.C14_binarymime_data_refused cfg c). Qed.
Print Assumptions C14_binarymime_data_refused.

Theorem C14_rcpt_trip cfg ext c to opts :
  let o := match opts with Some o => o | None => ro_zero end in
  let ps := rcpt_toks ext o in
  addr_ok to = true ->
  rcpt_dom o -> rcpt_srv cfg o -> rcpt_ext ext o -> rcpt_state_ok cfg c ->
  Client.rcpt_params ext opts = inl ps
  /\ exists arg,
       parse_cmd (Client.rcpt_line to ps) = Some (bs "RCPT", arg)
       /\ exists c' w,
            handle cfg c (bs "RCPT") arg
            = (c', [ERcpt to (seen_rcpt o) (fst (pop_rcpt c)); w]).
Proof. exact (C14Proofs.C14_rcpt_trip cfg ext c to opts). Qed.
Print Assumptions C14_rcpt_trip.

(* the unitext form of EVERY text of the domain contains nothing that
   strings.Fields / strings.TrimSpace (unicode.IsSpace) take for white space *)
Theorem C14_unitext_ws_free cs :
  forallb addr_cp cs = true ->
  ws_free (encode_utf8_addr_unitext (utf8_of_runes cs)) = true.
Proof. exact (unitext_ws_free cs). Qed.
Print Assumptions C14_unitext_ws_free.

Theorem C14_client_writes_mail c from opts ps e rest :
  ClientProofs.io_ready c -> Client.mail_params (Client.c_ext c) opts = inl ps ->
  ClientProofs.reads (Client.c_in c) 250 e rest ->
  Client.c_out (snd (Client.c_mail_step from opts c))
  = Client.c_out c ++ Client.mail_line from ps ++ crlf
  /\ fst (Client.c_mail_step from opts c) = Client.res_of_cerr e.
Proof. exact (C14Proofs.C14_client_writes_mail c from opts ps e rest). Qed.
Print Assumptions C14_client_writes_mail.

Theorem C14_client_writes_rcpt c to opts ps e rest :
  ClientProofs.io_ready c -> clean to -> Client.rcpt_params (Client.c_ext c) opts = inl ps ->
  ClientProofs.reads (Client.c_in c) 25 e rest ->
  Client.c_out (snd (Client.c_rcpt c to opts))
  = Client.c_out c ++ Client.rcpt_line to ps ++ crlf
  /\ fst (Client.c_rcpt c to opts) = Client.res_of_cerr e.
Proof. exact (C14Proofs.C14_client_writes_rcpt c to opts ps e rest). Qed.
Print Assumptions C14_client_writes_rcpt.

Theorem C14_ehlo_bridge cfg c domain expect rest k :
  mem_byte LF domain = false ->
  Forall (fun t => mem_byte LF t = false) (caps cfg c) ->
  exists msg e,
    ClientReply.client_read_response expect
      (write_response 250 no_ec ((bs "Hello " ++ domain) :: caps cfg c) ++ rest)
    = ((250%Z, msg, e), rest)
    /\ (ClientReply.expect_mismatch expect 250 = false -> e = ClientReply.CNil)
    /\ (Client.has_ext (Some (Client.parse_ext msg)) k = true
        <-> In k (map ClientProofs.ext_key (caps cfg c))).
Proof. exact (C14Proofs.C14_ehlo_bridge cfg c domain expect rest k). Qed.
Print Assumptions C14_ehlo_bridge.

Theorem C14_caps_keys cfg c :
  let ks := map ClientProofs.ext_key (caps cfg c) in
  In (bs "8BITMIME") ks /\ In (bs "SIZE") ks
  /\ (cf_utf8 cfg = true -> In (bs "SMTPUTF8") ks)
  /\ (c_tls c = true -> cf_requiretls cfg = true -> In (bs "REQUIRETLS") ks)
  /\ (cf_dsn cfg = true -> In (bs "DSN") ks)
  /\ (cf_rrvs cfg = true -> In (bs "RRVS") ks)
  /\ (auth_allowed cfg c = true -> (exists m ms, cf_auth cfg = Some (m :: ms)) -> In (bs "AUTH") ks)
  /\ (In (bs "BINARYMIME") ks <-> cf_binarymime cfg = true).
Proof. exact (C14Proofs.C14_caps_keys cfg c). Qed.
Print Assumptions C14_caps_keys.

Theorem C14_oracle_mail ext o :
  CheckTrip.mo_matches o (seen_mail ext o) = true.
Proof. exact (C14Proofs.C14_oracle_mail ext o). Qed.
Print Assumptions C14_oracle_mail.

Theorem C14_oracle_rcpt o :
  match ro_rrvs o with Some t => Client.rt_is_zero t = false | None => True end ->
  CheckTrip.ro_matches o (seen_rcpt o) = true.
Proof. exact (C14Proofs.C14_oracle_rcpt o). Qed.
Print Assumptions C14_oracle_rcpt.

(* ---------- outside the domain (computed in the model composition) ---------- *)

Theorem C14_address_injection_refuted :
  CheckTrip.addr_simple (bs "a@b> AUTH=<") = false
  /\ Client.valid_line (bs "a@b> AUTH=<") = true
  /\ option_map mails (trip_mail cfg_all ext_all c_ready (bs "a@b> AUTH=<") None)
     = Some [(bs "a@b", mkMO (bs "8BITMIME") 0 false false [] [] (Some []))]
  /\ CheckTrip.addr_simple (bs "r@s> NOTIFY=NEVER ORCPT=rfc822;x") = false
  /\ option_map rcpts (trip_rcpt cfg_all ext_all c_ready (bs "r@s> NOTIFY=NEVER ORCPT=rfc822;x") None)
     = Some [(bs "r@s", mkRO [bs "NEVER"] (bs "RFC822") (bs "x>") None)].
Proof. exact C14Proofs.C14_address_injection_refuted. Qed.
Print Assumptions C14_address_injection_refuted.

Theorem C14_addr_special_refused :
  CheckTrip.addr_simple (bs "a(b@c") = true /\ addr_ok (bs "a(b@c") = false
  /\ trip_rcpt cfg_all ext_all c_ready (bs "a(b@c") None = Some [syntax_rcpt]
  /\ CheckTrip.addr_simple (bs "a@b@") = true /\ addr_ok (bs "a@b@") = false
  /\ trip_rcpt cfg_all ext_all c_ready (bs "a@b@") None = Some [syntax_rcpt]
  /\ trip_mail cfg_all ext_all c_ready (bs "a,b@c") None = Some [syntax_mail].
Proof. exact C14Proofs.C14_addr_special_refused. Qed.
Print Assumptions C14_addr_special_refused.

Theorem C14_auth_brackets_refuted :
  parse_mailbox (bs "<>") = None
  /\ option_map mails (trip_mail cfg_all ext_all c_ready (bs "a@b")
                         (Some (mkMO [] 0 false false [] [] (Some (bs "<>")))))
     = Some [(bs "a@b", mkMO (bs "8BITMIME") 0 false false [] [] (Some []))].
Proof. exact C14Proofs.C14_auth_brackets_refuted. Qed.
Print Assumptions C14_auth_brackets_refuted.

Theorem C14_negative_size_refused :
  option_map mails (trip_mail cfg_all ext_all c_ready (bs "a@b")
                      (Some (mkMO [] (-1) false false [] [] None))) = Some [].
Proof. exact C14Proofs.C14_negative_size_refused. Qed.
Print Assumptions C14_negative_size_refused.

(* non-vacuity: the hypotheses of both trip theorems hold for an envelope that
   uses every option at once (non-ASCII addresses, both ORCPT forms), and the
   computed composition gives what the theorems say *)
Example C14_mail_trip_witness :
  addr_ok from_ex = true /\ mail_dom cfg_all mo_ex /\ mail_srv cfg_all mo_ex
  /\ mail_ext ext_all mo_ex /\ mail_state_ok c_ready
  /\ option_map mails (trip_mail cfg_all ext_all c_ready from_ex (Some mo_ex))
     = Some [(from_ex, seen_mail ext_all mo_ex)]
  /\ (let o := set_body mo_ex (bs "BINARYMIME") in
      mail_dom cfg_all o /\ mail_srv cfg_all o /\ mail_ext ext_all o /\ seen_mail ext_all o = o
      /\ option_map mails (trip_mail cfg_all ext_all c_ready from_ex (Some o)) = Some [(from_ex, o)]).
Proof. exact C14Proofs.C14_mail_trip_ex. Qed.

(* non-vacuity of C14_body: its hypothesis on ext holds for the maps parsed from
   the EHLO replies of a server with and one without BINARYMIME, and the
   computed composition gives what it says for every value *)
Example C14_body_ext_witness :
  (forall k, Client.has_ext ext_all k = true
             <-> In k (map ClientProofs.ext_key (caps cfg_all c_ready)))
  /\ (forall k, Client.has_ext ext_nobin k = true
                <-> In k (map ClientProofs.ext_key (caps cfg_nobin c_ready))).
Proof. exact C14Proofs.C14_body_ext_ex. Qed.

Example C14_body_witness :
  let body b := mkMO b 0 false false [] [] None in
  let trip cfg ext b := option_map mails (trip_mail cfg ext c_ready (bs "a@b") (Some (body b))) in
  trip cfg_all ext_all (bs "7BIT") = Some [(bs "a@b", body (bs "7BIT"))]
  /\ trip cfg_all ext_all (bs "8BITMIME") = Some [(bs "a@b", body (bs "8BITMIME"))]
  /\ trip cfg_all ext_all (bs "BINARYMIME") = Some [(bs "a@b", body (bs "BINARYMIME"))]
  /\ trip cfg_nobin ext_nobin (bs "7BIT") = Some [(bs "a@b", body (bs "7BIT"))]
  /\ trip cfg_nobin ext_nobin (bs "8BITMIME") = Some [(bs "a@b", body (bs "8BITMIME"))]
  /\ Client.mail_params ext_nobin (Some (body (bs "BINARYMIME"))) = inr Client.err_binarymime
  /\ Client.mail_params ext_all (Some (body (bs "binarymime"))) = inr Client.err_body
  /\ trip cfg_all ext_all [] = Some [(bs "a@b", body (bs "8BITMIME"))]
  /\ option_map mails (trip_mail cfg_all ext_all c_ready (bs "a@b") None)
     = Some [(bs "a@b", body (bs "8BITMIME"))].
Proof. exact C14Proofs.C14_body_ex. Qed.

Example C14_rcpt_trip_witness :
  addr_ok from_ex = true /\ rcpt_dom ro_ex /\ rcpt_srv cfg_all ro_ex
  /\ rcpt_ext ext_all ro_ex /\ rcpt_state_ok cfg_all c_ready
  /\ rcpt_ext ext_noutf8 ro_ex /\ rcpt_srv cfg_noutf8 ro_ex
  /\ option_map rcpts (trip_rcpt cfg_all ext_all c_ready from_ex (Some ro_ex))
     = Some [(from_ex, seen_rcpt ro_ex)]
  /\ option_map rcpts (trip_rcpt cfg_noutf8 ext_noutf8 c_ready from_ex (Some ro_ex))
     = Some [(from_ex, seen_rcpt ro_ex)]
  /\ Client.rcpt_params ext_all (Some ro_ex) <> Client.rcpt_params ext_noutf8 (Some ro_ex).
Proof. exact C14Proofs.C14_rcpt_trip_ex. Qed.

(* formerly F29: ORCPT=UTF-8 containing each of the nineteen non-ASCII
   White_Space code points (at the start, inside, at the end) arrives
   unchanged, with and without SMTPUTF8 *)
Example C14_orcpt_unicode_space_witness :
  let nbsp := [b 194; b 160] in
  Client.rcpt_params ext_all (Some (mkRO [] (bs "UTF-8") (bs "x@y" ++ nbsp) None))
  = inl [bs "ORCPT=UTF-8;x@y\x{A0}"]
  /\ option_map rcpts (trip_rcpt cfg_all ext_all c_ready (bs "r@s")
                         (Some (mkRO [] (bs "UTF-8") (bs "x@y" ++ nbsp) None)))
     = Some [(bs "r@s", mkRO [] (bs "UTF-8") (bs "x@y" ++ nbsp) None)]
  /\ option_map rcpts (trip_rcpt cfg_all ext_all c_ready (bs "r@s")
                         (Some (mkRO [] (bs "UTF-8") (bs "x" ++ nbsp ++ bs "y@z") None)))
     = Some [(bs "r@s", mkRO [] (bs "UTF-8") (bs "x" ++ nbsp ++ bs "y@z") None)]
  /\ option_map rcpts (trip_rcpt cfg_noutf8 ext_noutf8 c_ready (bs "r@s")
                         (Some (mkRO [] (bs "UTF-8") (bs "x@y" ++ nbsp) None)))
     = Some [(bs "r@s", mkRO [] (bs "UTF-8") (bs "x@y" ++ nbsp) None)]
  /\ forallb (fun cp =>
        let o := mkRO [] (bs "UTF-8") (utf8_of_runes [cp; 120; cp; 64; 121; cp]%N) None in
        let arrives cfg ext :=
          match option_map rcpts (trip_rcpt cfg ext c_ready (bs "r@s") (Some o)) with
          | Some [(to, o')] => bytes_eqb to (bs "r@s") && CheckTrip.ro_matches o o'
          | _ => false
          end in
        arrives cfg_all ext_all && arrives cfg_noutf8 ext_noutf8) uspace_cps = true.
Proof. exact C14Proofs.C14_orcpt_unicode_space_ex. Qed.
