#!/bin/bash
# usage: coqgoal.sh file.v LINE [N] -- compile up to LINE (exclusive) then print the goals
V="${VERIF_ROOT:-$(cd "$(dirname "$0")/.." && pwd)}"
f=$(realpath $1); n=$2
t=$(mktemp -d)
head -n $((n-1)) $f > $t/Goal_tmp.v
echo "Show. Abort." >> $t/Goal_tmp.v
cd $V/coq && coqc -Q theories Smtp -Q gen SmtpGen -Q props SmtpProps $t/Goal_tmp.v 2>&1 | grep -v "^Warning\|deprecated" | head -${3:-60}
rm -rf $t
