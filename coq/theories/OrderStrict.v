(* A stricter version of the monitor of Order.v, used only inside the proofs:
   the same automaton plus one bit ("the session that was live when STARTTLS
   succeeded has not been logged out yet") and three extra guards:
   - between the end of a transaction (the final DATA outcome, a successful
     STARTTLS) and the Reset / Logout that signals it, no backend callback
     begins (Order.v only forbids the next command there);
   - a session that must be logged out after STARTTLS gets Logout, not Reset,
     before the next command;
   - the AUTH exchange does not succeed twice in a session.
   Every trace accepted by the strict monitor is accepted by Order.mon_run
   (smon_run_mon_run), so acceptance by the strict monitor is the stronger
   theorem; the trace properties of TraceProps.v are derived from it. *)
From Smtp Require Import Bytes Reply Conn Order.

Definition smon := (mon * bool)%type.

Definition smon_init (tls : bool) : smon := (mon_init tls, false).

(* the extra guards *)
Definition strict_bad (m : mon) (ml : bool) (e : event) : bool :=
  match e with
  | ECmd _ => ml
  | ENewSession _ _ _ | EMail _ _ _ | ERcpt _ _ _ | EData _ _ _ _ | EBdatStart
  | EAuth _ _ | EAuthNext _ _ _ _ => m_must_reset m || ml
  | EAuthOk => m_authed m
  | EReset => ml
  | _ => false
  end.

Definition next_ml (m : mon) (ml : bool) (e : event) : bool :=
  match e with
  | ETlsStart true => m_session m
  | ELogout => false
  | _ => ml
  end.

Definition smon_step (cfg : config) (s : smon) (e : event) : option smon :=
  if strict_bad (fst s) (snd s) e then None
  else match mon_step cfg (fst s) e with
       | Some m' => Some (m', next_ml (fst s) (snd s) e)
       | None => None
       end.

Fixpoint smon_run (cfg : config) (s : smon) (evs : list event) : option smon :=
  match evs with
  | [] => Some s
  | e :: r => match smon_step cfg s e with Some s' => smon_run cfg s' r | None => None end
  end.

Lemma smon_run_app cfg s a b :
  smon_run cfg s (a ++ b) = match smon_run cfg s a with Some s' => smon_run cfg s' b | None => None end.
Proof.
  revert s; induction a as [|e a IH]; intros s; cbn; [reflexivity|].
  destruct (smon_step cfg s e); [apply IH|reflexivity].
Qed.

Lemma smon_step_mon_step cfg s e s' :
  smon_step cfg s e = Some s' -> mon_step cfg (fst s) e = Some (fst s').
Proof.
  unfold smon_step. destruct (strict_bad (fst s) (snd s) e); [discriminate|].
  destruct (mon_step cfg (fst s) e); [|discriminate]. intros H. inversion H. reflexivity.
Qed.

Lemma smon_run_mon_run cfg evs : forall s s',
  smon_run cfg s evs = Some s' -> mon_run cfg (fst s) evs = Some (fst s').
Proof.
  induction evs as [|e r IH]; intros s s' H; cbn in *.
  - inversion H. reflexivity.
  - destruct (smon_step cfg s e) as [s1|] eqn:E; [|discriminate].
    rewrite (smon_step_mon_step _ _ _ _ E). apply IH, H.
Qed.
