(* C15 - the client writes one command line per protocol step and only
   negotiated parameters.

   Model: Client.v (client.go operation by operation + net/textproto's
   Conn.Cmd / Writer.PrintfLine / DotWriter over a 4096-octet bufio.Writer),
   tied to the real client by the "cli" correspondence cases
   (harness/gencli.go, CheckCli.v).

   Vocabulary (ClientProofs.v):
     clean l        no CR and no LF in l
     lines ls       the wire image: every l in ls followed by CRLF
     quiet c        nothing is pending in textproto's write buffer and no
                    dotWriter is open (or the writer is dead): the state
                    between API calls when the data writer is used according
                    to its contract.  An invariant: C15_invariant.
     cmd_call k     k is Hello, Verify, Mail, Rcpt, Data, LMTPData, Reset,
                    Noop, Quit, Extension, or Auth with a mechanism NAME free
                    of CR/LF (the name comes from the sasl.Client, Auth does
                    not check it - outside the property's statement)
     hello_line c l l = "EHLO "/"LHLO " ++ localName  or  "HELO " ++ localName
     own_shape k o  o = [] or exactly the method's command line carrying the
                    argument verbatim (for Auth: the AUTH line followed by one
                    line per further step, each base64 or "*")
     param_ok ext p p is one token "KEYWORD" or "KEYWORD=value" without CR, LF
                    or SP, KEYWORD in {BODY, SIZE, REQUIRETLS, SMTPUTF8, RET,
                    ENVID, NOTIFY, ORCPT, AUTH, RRVS} and the extension key
                    that licenses it (ext_for: 8BITMIME for BODY=7BIT and
                    BODY=8BITMIME, BINARYMIME for BODY=BINARYMIME, SIZE,
                    REQUIRETLS, SMTPUTF8, DSN, AUTH, RRVS) is in ext
     body_refused ext o  Body is 7BIT / 8BITMIME and 8BITMIME is not in ext, or
                    BINARYMIME and BINARYMIME is not in ext, or any other
                    non-empty string
   [c_ext] is the map parsed by ehlo() from the most recent EHLO reply
   (c_ehlo_parsed, has_ext_parse_ext; helo() sets it to nil). *)
From Smtp Require Import Bytes GoStrings Reply ClientReply Conn Client ClientProofs.

Theorem C15_one_line : forall c k,
  quiet c -> clean (c_local c) -> cmd_call k ->
  (forall a, line_arg k = Some a -> clean a) ->
  exists hl own,
    c_out (snd (run_call c k)) = c_out c ++ lines (hl ++ own)
    /\ Forall clean (hl ++ own)
    /\ Forall (hello_line (hello_client c k)) hl /\ (List.length hl <= 2)%nat
    /\ (says_hello k = false -> hl = [])
    /\ own_shape k own.
Proof. exact ClientProofs.C15_one_line. Qed.

Theorem C15_invalid_argument : forall c k a,
  line_arg k = Some a -> ~ clean a ->
  run_call c k = (mkR (RLocal err_line) None [], c).
Proof. exact ClientProofs.C15_invalid_argument. Qed.

Theorem C15_invariant : forall c k,
  quiet c -> clean (c_local c) -> cmd_call k ->
  (forall a, line_arg k = Some a -> clean a) ->
  clean (c_local (snd (run_call c k)))
  /\ (match k with
      | KData | KLmtpData _ => r_err (fst (run_call c k)) <> RNil -> quiet (snd (run_call c k))
      | _ => quiet (snd (run_call c k))
      end).
Proof. exact ClientProofs.C15_invariant. Qed.

Theorem C15_only_negotiated_mail : forall from opts c r c',
  quiet c -> c_mail_step from opts c = (r, c') ->
  (exists e, mail_params (c_ext c) opts = inr e /\ r = RLocal e /\ c_out c' = c_out c)
  \/ (exists ps own, c_out c' = c_out c ++ lines own /\ at_most (mail_line from ps) own
                     /\ Forall (param_ok (c_ext c)) ps).
Proof. exact ClientProofs.C15_only_negotiated_mail. Qed.

Theorem C15_only_negotiated_rcpt : forall c to opts r c',
  quiet c -> clean to -> c_rcpt c to opts = (r, c') ->
  (exists e, rcpt_params (c_ext c) opts = inr e /\ r = RLocal e /\ c' = c)
  \/ (exists ps own, c_out c' = c_out c ++ lines own /\ at_most (rcpt_line to ps) own
                     /\ Forall (param_ok (c_ext c)) ps).
Proof. exact ClientProofs.C15_only_negotiated_rcpt. Qed.

Theorem C15_requested_not_offered : forall from o c,
  body_refused (c_ext c) o
  \/ (mo_requiretls o = true /\ has_ext (c_ext c) (key "REQUIRETLS") = false)
  \/ (mo_utf8 o = true /\ has_ext (c_ext c) (key "SMTPUTF8") = false) ->
  exists e, c_mail_step from (Some o) c = (RLocal e, set_rcpts c [])
            /\ (body_err e \/ e = err_requiretls \/ e = err_smtputf8).
Proof. exact ClientProofs.C15_requested_not_offered. Qed.

(* a requested Body whose extension was not offered, or an unknown Body value,
   is a local error too (never a silent BODY=8BITMIME), each with its own text *)
Theorem C15_body_not_offered : forall from o c,
  body_refused (c_ext c) o ->
  exists e, c_mail_step from (Some o) c = (RLocal e, set_rcpts c [])
            /\ ((mo_body o = bs "7BIT" \/ mo_body o = bs "8BITMIME") -> e = err_8bitmime)
            /\ (mo_body o = bs "BINARYMIME" -> e = err_binarymime)
            /\ (mo_body o <> bs "7BIT" -> mo_body o <> bs "8BITMIME" -> mo_body o <> bs "BINARYMIME"
                -> e = err_body).
Proof. exact ClientProofs.C15_body_not_offered. Qed.

(* what param_ok says about the BODY parameter, spelled out: BODY=BINARYMIME
   only with BINARYMIME offered, any other BODY value only with 8BITMIME *)
Theorem C15_body_param_licensed : forall ext v,
  param_ok ext (bs "BODY" ++ "="%char :: v) ->
  if bytes_eqb v (bs "BINARYMIME") then has_ext ext (bs "BINARYMIME") = true
  else has_ext ext (bs "8BITMIME") = true.
Proof. exact ClientProofs.C15_body_param_licensed. Qed.

(* Mail = validateLine; hello(); the step above on the state hello() left *)
Theorem C15_mail_is_hello_then_step : forall c from opts,
  clean from -> c_mail c from opts = with_hello c (c_mail_step from opts).
Proof. exact ClientProofs.c_mail_unfold. Qed.

(* [ext] after a successful ehlo() is the parse of the reply to THIS EHLO,
   and a key is in it iff it is the keyword of an extension line of that reply *)
Theorem C15_ext_is_latest_ehlo : forall c c',
  c_ehlo c = (RNil, c') ->
  exists c1 code msg rest,
    printf_line c (hello_verb c ++ c_local c) = (true, c1)
    /\ client_read_response 250 (c_in c1) = ((code, msg, CNil), rest)
    /\ c_ext c' = Some (parse_ext msg) /\ c_in c' = rest.
Proof. exact ClientProofs.c_ehlo_parsed. Qed.

Theorem C15_ext_keys : forall msg k,
  has_ext (Some (parse_ext msg)) k = true <-> In k (map ext_key (ext_lines msg)).
Proof. exact ClientProofs.has_ext_parse_ext. Qed.

Print Assumptions C15_one_line.
Print Assumptions C15_invalid_argument.
Print Assumptions C15_invariant.
Print Assumptions C15_only_negotiated_mail.
Print Assumptions C15_only_negotiated_rcpt.
Print Assumptions C15_requested_not_offered.
Print Assumptions C15_body_not_offered.
Print Assumptions C15_body_param_licensed.
Print Assumptions C15_mail_is_hello_then_step.
Print Assumptions C15_ext_is_latest_ehlo.
Print Assumptions C15_ext_keys.
