package harness

import (
	smtp "github.com/emersion/go-smtp"
)

// runTLSConv: conversations involving TLS (STARTTLS or implicit TLS). Filled in by tls.go.
func runTLSConv(s *smtp.Server, be *RecBackend, c ConvCase) [][]Raw {
	return runTLSConvImpl(s, be, c)
}
