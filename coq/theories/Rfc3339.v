(* time.Parse(time.RFC3339, s) and Time.Format(time.RFC3339) on
   (unix seconds, nanoseconds, zone offset in seconds) triples.
   Parse follows Go's general layout parser for "2006-01-02T15:04:05Z07:00"
   (the strict fast path falls back to it on failure): four-digit year,
   two-digit month and day, one- or two-digit hour, two-digit minute and
   second, optional fraction introduced by '.' or ',' (first nine digits
   kept), then 'Z' or a sign, hh:mm with hh <= 24 and mm <= 60. *)
From Smtp Require Import Bytes.
Local Open Scope Z_scope.


Definition dig (c : ascii) : Z := Z.of_N (byte_n c) - 48.

(* getnum(s, fixed) *)
Definition getnum (s : bytes) (fixed : bool) : option (Z * bytes) :=
  match s with
  | c0 :: t =>
      if is_digit c0 then
        match t with
        | c1 :: t' =>
            if is_digit c1 then Some (dig c0 * 10 + dig c1, t')
            else if fixed then None else Some (dig c0, t)
        | [] => if fixed then None else Some (dig c0, t)
        end
      else None
  | [] => None
  end.

Definition skip1 (c : ascii) (s : bytes) : option bytes :=
  match s with
  | x :: t => if Ascii.eqb x c then Some t else None
  | [] => None
  end.

Definition is_leap (y : Z) : bool :=
  ((y mod 4 =? 0) && (negb (y mod 100 =? 0) || (y mod 400 =? 0))).

Definition days_in (m y : Z) : Z :=
  if m =? 2 then (if is_leap y then 29 else 28)
  else if (m =? 4) || (m =? 6) || (m =? 9) || (m =? 11) then 30 else 31.

(* days since 1970-01-01 of a proleptic Gregorian date *)
Definition days_from_civil (y m d : Z) : Z :=
  let y' := if m <=? 2 then y - 1 else y in
  let era := y' / 400 in
  let yoe := y' - era * 400 in
  let mp := (m + 9) mod 12 in
  let doy := (153 * mp + 2) / 5 + d - 1 in
  let doe := yoe * 365 + yoe / 4 - yoe / 100 + doy in
  era * 146097 + doe - 719468.

Fixpoint take_digits (s : bytes) : bytes * bytes :=
  match s with
  | c :: t => if is_digit c then let '(d, r) := take_digits t in (c :: d, r) else ([], s)
  | [] => ([], [])
  end.

(* parseNanoseconds on the digits after the separator: first nine digits,
   right-padded with zeros *)
Definition nanos_of (ds : bytes) : Z :=
  let ds9 := firstn 9 ds in
  Z.of_N (dec_value ds9) * 10 ^ (9 - Z.of_nat (List.length ds9)).

Record rtime := mkRT { rt_unix : Z; rt_nsec : Z; rt_off : Z }.

Definition parse_rfc3339 (s : bytes) : option rtime :=
  (* year: four octets, all digits *)
  match s with
  | y0 :: y1 :: y2 :: y3 :: s1 =>
      if forallb is_digit [y0; y1; y2; y3] then
        let year := dig y0 * 1000 + dig y1 * 100 + dig y2 * 10 + dig y3 in
        match skip1 "-" s1 with None => None | Some s2 =>
        match getnum s2 true with None => None | Some (month, s3) =>
        if (month <=? 0) || (12 <? month) then None else
        match skip1 "-" s3 with None => None | Some s4 =>
        match getnum s4 true with None => None | Some (day, s5) =>
        match skip1 "T" s5 with None => None | Some s6 =>
        match getnum s6 false with None => None | Some (hour, s7) =>
        if 24 <=? hour then None else
        match skip1 ":" s7 with None => None | Some s8 =>
        match getnum s8 true with None => None | Some (mi, s9) =>
        if 60 <=? mi then None else
        match skip1 ":" s9 with None => None | Some s10 =>
        match getnum s10 true with None => None | Some (sec, s11) =>
        if 60 <=? sec then None else
        let '(nsec, s12) :=
          match s11 with
          | p :: d :: _ =>
              if (Ascii.eqb p "." || Ascii.eqb p ",") && is_digit d
              then let '(ds, r) := take_digits (tl s11) in (nanos_of ds, r)
              else (0, s11)
          | _ => (0, s11)
          end in
        let finish (off : Z) (rest : bytes) :=
          match rest with
          | _ :: _ => None   (* extra text *)
          | [] =>
              if (day <? 1) || (days_in month year <? day) then None
              else Some (mkRT (days_from_civil year month day * 86400 + hour * 3600 + mi * 60 + sec - off)
                              nsec off)
          end in
        match s12 with
        | z :: r =>
            if Ascii.eqb z "Z" then finish 0 r
            else
              match s12 with
              | sg :: h0 :: h1 :: col :: m0 :: m1 :: r6 =>
                  if negb (Ascii.eqb col ":") then None
                  else if negb (forallb is_digit [h0; h1; m0; m1]) then None
                  else
                    let hr := dig h0 * 10 + dig h1 in
                    let mm := dig m0 * 10 + dig m1 in
                    if (24 <? hr) || (60 <? mm) then None
                    else if Ascii.eqb sg "+" then finish ((hr * 60 + mm) * 60) r6
                    else if Ascii.eqb sg "-" then finish (- ((hr * 60 + mm) * 60)) r6
                    else None
              | _ => None
              end
        | [] => None
        end
        end end end end end end end end end end
      else None
  | _ => None
  end.
