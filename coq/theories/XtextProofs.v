(* Proofs about the xtext (RFC 3461) and utf-8-addr-xtext / unitext
   (RFC 6533) codecs of conn.go.
   - [xtext_roundtrip]: decode_xtext inverts encode_xtext on 7-bit strings.
   - [utf8_addr_xtext_roundtrip], [utf8_addr_unitext_roundtrip]:
     decode_utf8_addr_xtext inverts both utf-8-addr encoders on text made of
     the code points [addr_cp] (U+0020..U+007F and every non-ASCII scalar
     value).
   - The encoders never emit CR, LF or SP: [encode_xtext_clean],
     [encode_utf8_addr_xtext_clean], [encode_utf8_addr_unitext_clean] and the
     [..._no_crlf_sp] corollaries. *)
From Smtp Require Import Bytes GoStrings Utf8 Xtext Utf8Proofs.
From Coq Require Import Lia ZifyBool ZifyN ZifyNat.
Local Open Scope char_scope.

Local Ltac Zify.zify_post_hook ::= Z.div_mod_to_equations.

(* ------------------------------------------------------------------ *)
(* generic helpers                                                     *)
(* ------------------------------------------------------------------ *)

(* a boolean fact checked on 0..k-1 holds for every n < k *)
Lemma N_enum (P : N -> bool) (k : nat) :
  forallb P (map N.of_nat (seq 0 k)) = true ->
  forall n, (n < N.of_nat k)%N -> P n = true.
Proof.
  intros H n Hn. rewrite forallb_forall in H. apply H.
  apply in_map_iff. exists (N.to_nat n). split; [lia|].
  apply in_seq. lia.
Qed.

(* a boolean fact checked on the 256 octets holds for every octet *)
Lemma byte_enum (P : ascii -> bool) :
  forallb (fun n => P (n_byte n)) (map N.of_nat (seq 0 256)) = true ->
  forall c, P c = true.
Proof.
  intros H c. rewrite <- (n_byte_byte_n c).
  apply (N_enum (fun n => P (n_byte n)) 256 H). apply byte_n_lt.
Qed.

Lemma mem_byte_In c l : mem_byte c l = true -> In c l.
Proof.
  induction l as [|x l IH]; cbn; [discriminate|].
  intros H. apply orb_true_iff in H as [H|H].
  - left. symmetry. now apply Ascii.eqb_eq.
  - right. auto.
Qed.

Lemma mem_byte_false c l : ~ In c l -> mem_byte c l = false.
Proof.
  intros H. destruct (mem_byte c l) eqn:E; [|reflexivity].
  exfalso. apply H. now apply mem_byte_In.
Qed.

Lemma option_map_cons_app {A} (a : A) (l : list A) (x : option (list A)) :
  option_map (cons a) (option_map (app l) x) = option_map (app (a :: l)) x.
Proof. destruct x; reflexivity. Qed.

(* ------------------------------------------------------------------ *)
(* upper-case hexadecimal                                              *)
(* ------------------------------------------------------------------ *)

Definition hexdigit_ok (m : N) : bool :=
  match hexU (hexdigitU m) with Some v => N.eqb v m | None => false end.

Lemma hexU_hexdigitU m : (m < 16)%N -> hexU (hexdigitU m) = Some m.
Proof.
  intros H.
  assert (E : hexdigit_ok m = true).
  { apply (N_enum hexdigit_ok 16); [vm_compute; reflexivity|exact H]. }
  unfold hexdigit_ok in E. destruct (hexU (hexdigitU m)) as [v|]; [|discriminate].
  apply N.eqb_eq in E. now subst.
Qed.

Lemma is_hexU_hexdigitU m : (m < 16)%N -> is_hexU (hexdigitU m) = true.
Proof. intros H. unfold is_hexU. now rewrite hexU_hexdigitU. Qed.

Lemma hexU_of_pos_f_hex : forall fuel n acc,
  forallb is_hexU acc = true -> forallb is_hexU (hexU_of_pos_f fuel n acc) = true.
Proof.
  induction fuel as [|f IH]; intros n acc Hacc; cbn [hexU_of_pos_f]; [exact Hacc|].
  destruct (n =? 0)%N; [exact Hacc|].
  apply IH. cbn [forallb]. rewrite Hacc, is_hexU_hexdigitU; [reflexivity|].
  apply N.mod_lt. discriminate.
Qed.

Lemma hexU_of_N_hex n : forallb is_hexU (hexU_of_N n) = true.
Proof.
  unfold hexU_of_N. destruct (n =? 0)%N; [reflexivity|].
  now apply hexU_of_pos_f_hex.
Qed.

Lemma hex02_hex n : forallb is_hexU (hex02 n) = true.
Proof.
  unfold hex02. destruct (n <? 16)%N.
  - cbn [forallb]. now rewrite hexU_of_N_hex.
  - apply hexU_of_N_hex.
Qed.

Lemma hex02_In_hex n c : In c (hex02 n) -> is_hexU c = true.
Proof.
  intros H. pose proof (hex02_hex n) as Hh. rewrite forallb_forall in Hh. auto.
Qed.

Lemma hex_value_snoc d c v :
  hexU c = Some v -> hex_value (d ++ [c]) = (hex_value d * 16 + v)%N.
Proof.
  intros Hc. unfold hex_value. rewrite fold_left_app. cbn [fold_left].
  now rewrite Hc.
Qed.

Fixpoint pow16 (k : nat) : N :=
  match k with O => 1%N | S k => (16 * pow16 k)%N end.

Lemma pow16_pos k : (1 <= pow16 k)%N.
Proof. induction k as [|k IH]; cbn [pow16]; lia. Qed.

(* the digits produced for n: they are hex digits, their value is n, and
   there are exactly as many as n needs (no leading zero) *)
Lemma hexU_of_pos_f_spec : forall fuel n acc,
  (n < pow16 fuel)%N ->
  exists d,
    hexU_of_pos_f fuel n acc = d ++ acc /\
    forallb is_hexU d = true /\
    hex_value d = n /\
    (n = 0%N -> d = []) /\
    ((0 < n)%N -> (pow16 (List.length d) <= 16 * n)%N /\ (n < pow16 (List.length d))%N).
Proof.
  induction fuel as [|f IH]; intros n acc Hn.
  - cbn [pow16] in Hn. exists []. cbn [hexU_of_pos_f app forallb List.length pow16].
    split; [reflexivity|]. split; [reflexivity|]. split; [cbn; lia|].
    split; [reflexivity|lia].
  - cbn [hexU_of_pos_f]. destruct (N.eqb_spec n 0) as [Hz|Hz].
    { exists []. cbn [app forallb List.length pow16].
      split; [reflexivity|]. split; [reflexivity|]. split; [cbn; lia|].
      split; [reflexivity|lia]. }
    cbn [pow16] in Hn.
    destruct (IH (n / 16)%N (hexdigitU (n mod 16) :: acc)) as (d & E & Hh & Hv & Hd0 & Hlen);
      [lia|].
    assert (Hm : (n mod 16 < 16)%N) by (apply N.mod_lt; discriminate).
    exists (d ++ [hexdigitU (n mod 16)]).
    split; [rewrite E, <- app_assoc; reflexivity|].
    split.
    { rewrite forallb_app, Hh. cbn [forallb]. now rewrite is_hexU_hexdigitU. }
    split.
    { rewrite (hex_value_snoc d _ (n mod 16)) by now apply hexU_hexdigitU.
      rewrite Hv. lia. }
    split; [lia|].
    intros _. rewrite app_length. cbn [List.length]. rewrite Nat.add_1_r.
    cbn [pow16].
    destruct (N.eqb_spec (n / 16) 0) as [Hq|Hq].
    + rewrite (Hd0 Hq). cbn [List.length pow16]. lia.
    + destruct Hlen as [Hl1 Hl2]; [lia|]. lia.
Qed.

Lemma hex02_spec cp :
  (16 <= cp < 4294967296)%N ->
  forallb is_hexU (hex02 cp) = true /\
  hex_value (hex02 cp) = cp /\
  (pow16 (List.length (hex02 cp)) <= 16 * cp)%N /\
  (cp < pow16 (List.length (hex02 cp)))%N.
Proof.
  intros H. unfold hex02, hexU_of_N.
  destruct (N.ltb_spec cp 16) as [?|_]; [lia|].
  destruct (N.eqb_spec cp 0) as [?|_]; [lia|].
  destruct (hexU_of_pos_f_spec 8 cp []) as (d & E & Hh & Hv & _ & Hlen).
  { cbn [pow16]. lia. }
  rewrite E, app_nil_r. destruct Hlen as [H1 H2]; [lia|]. auto.
Qed.

(* ------------------------------------------------------------------ *)
(* B.1  xtext                                                          *)
(* ------------------------------------------------------------------ *)

(* what the encoder emits for one 7-bit octet, as seen by the decoder *)
Definition xtext_octet_ok (n : N) : bool :=
  match encode_xtext_rune n with
  | [c] => Ascii.eqb c (n_byte n) && negb (Ascii.eqb c "+")
  | [p; h1; h2] =>
      Ascii.eqb p "+" &&
      match hexU h1, hexU h2 with
      | Some a, Some b => (a * 16 + b =? n)%N
      | _, _ => false
      end
  | _ => false
  end.

Lemma xtext_octet_ok_all n : (n < 128)%N -> xtext_octet_ok n = true.
Proof. apply (N_enum xtext_octet_ok 128). vm_compute. reflexivity. Qed.

Lemma decode_xtext_go_step n rest :
  (n < 128)%N ->
  decode_xtext_go (encode_xtext_rune n ++ rest) =
  option_map (cons (n_byte n)) (decode_xtext_go rest).
Proof.
  intros Hn. pose proof (xtext_octet_ok_all n Hn) as Hok.
  unfold xtext_octet_ok in Hok.
  destruct (encode_xtext_rune n) as [|c [|h1 [|h2 [|x l]]]]; try discriminate.
  - apply andb_true_iff in Hok as [H1 H2].
    apply Ascii.eqb_eq in H1. subst c.
    cbn [app decode_xtext_go].
    destruct (Ascii.eqb (n_byte n) "+"); [discriminate|reflexivity].
  - apply andb_true_iff in Hok as [H1 H2].
    apply Ascii.eqb_eq in H1. subst c.
    destruct (hexU h1) as [a|] eqn:Ea; [|discriminate].
    destruct (hexU h2) as [b|] eqn:Eb; [|discriminate].
    apply N.eqb_eq in H2.
    cbn [app decode_xtext_go]. rewrite Ascii.eqb_refl, Ea, Eb, H2.
    destruct (N.ltb_spec n 128) as [_|?]; [reflexivity|lia].
Qed.

Lemma decode_xtext_go_encode s :
  forallb is_ascii7 s = true ->
  decode_xtext_go (flat_map encode_xtext_rune (map byte_n s)) = Some s.
Proof.
  induction s as [|c s IH]; intros Ha; [reflexivity|].
  cbn [forallb] in Ha. apply andb_true_iff in Ha as [Hc Hs].
  cbn [map flat_map]. unfold is_ascii7 in Hc.
  rewrite decode_xtext_go_step by lia.
  rewrite (IH Hs), n_byte_byte_n. reflexivity.
Qed.

Lemma decode_xtext_go_noplus t :
  mem_byte "+" t = false -> decode_xtext_go t = Some t.
Proof.
  induction t as [|c t IH]; intros H; [reflexivity|].
  cbn [mem_byte] in H. apply orb_false_iff in H as [H1 H2].
  cbn [decode_xtext_go]. rewrite Ascii.eqb_sym, H1, (IH H2). reflexivity.
Qed.

Theorem xtext_roundtrip : forall s,
  forallb is_ascii7 s = true -> decode_xtext (encode_xtext s) = Some s.
Proof.
  intros s Ha. unfold encode_xtext. rewrite (runes_ascii s Ha).
  unfold decode_xtext, contains_byte.
  destruct (mem_byte "+" (flat_map encode_xtext_rune (map byte_n s))) eqn:E.
  - now apply decode_xtext_go_encode.
  - rewrite <- (decode_xtext_go_noplus _ E). now apply decode_xtext_go_encode.
Qed.

Print Assumptions xtext_roundtrip.

(* ------------------------------------------------------------------ *)
(* B.2  utf-8-addr-xtext / unitext                                     *)
(* ------------------------------------------------------------------ *)

Definition addr_cp (cp : N) : bool :=
  ((32 <=? cp) && (cp <=? 127) || (128 <=? cp) && utf8_valid_cp cp)%N.

(* code points both encoders send as themselves *)
Definition addr_plain_cp (cp : N) : bool := (cp <? 128)%N && qchar (n_byte cp).

(* ---- facts about single octets, by enumeration ---- *)

Definition qchar_chk (c : ascii) : bool :=
  negb (qchar c) || (negb (Ascii.eqb c "\") && negb (disallowed c) && xtext_plain c).

Lemma qchar_facts c :
  qchar c = true ->
  Ascii.eqb c "\" = false /\ disallowed c = false /\ xtext_plain c = true.
Proof.
  intros H.
  assert (E : qchar_chk c = true).
  { apply (byte_enum qchar_chk). vm_compute. reflexivity. }
  unfold qchar_chk in E. rewrite H in E. cbn [negb orb] in E.
  apply andb_true_iff in E as [E E3]. apply andb_true_iff in E as [E1 E2].
  repeat split; try assumption; now apply negb_true_iff.
Qed.

Definition high_chk (c : ascii) : bool :=
  negb (128 <=? byte_n c)%N || (negb (Ascii.eqb c "\") && negb (disallowed c)).

Lemma high_facts c :
  (128 <= byte_n c)%N -> Ascii.eqb c "\" = false /\ disallowed c = false.
Proof.
  intros H.
  assert (E : high_chk c = true).
  { apply (byte_enum high_chk). vm_compute. reflexivity. }
  unfold high_chk in E. apply N.leb_le in H. rewrite H in E. cbn [negb orb] in E.
  apply andb_true_iff in E as [E1 E2].
  split; now apply negb_true_iff.
Qed.

Definition hexU_chk (c : ascii) : bool :=
  negb (is_hexU c) || (qchar c && xtext_plain c).

Lemma is_hexU_facts c :
  is_hexU c = true -> qchar c = true /\ xtext_plain c = true.
Proof.
  intros H.
  assert (E : hexU_chk c = true).
  { apply (byte_enum hexU_chk). vm_compute. reflexivity. }
  unfold hexU_chk in E. rewrite H in E. cbn [negb orb] in E.
  now apply andb_true_iff in E.
Qed.

(* the 7-bit code points of the domain that are not sent as themselves *)
Definition special_chk (n : N) : bool :=
  (n <? 32)%N || addr_plain_cp n ||
  (n =? 32)%N || (n =? 43)%N || (n =? 61)%N || (n =? 92)%N || (n =? 127)%N.

Lemma addr_special_cp cp :
  (32 <= cp <= 127)%N -> addr_plain_cp cp = false ->
  cp = 32%N \/ cp = 43%N \/ cp = 61%N \/ cp = 92%N \/ cp = 127%N.
Proof.
  intros Hr Hp.
  assert (E : special_chk cp = true).
  { apply (N_enum special_chk 128); [vm_compute; reflexivity|lia]. }
  unfold special_chk in E. rewrite Hp in E. lia.
Qed.

(* ---- recognising "\x{...}" ---- *)

(* [take_hex] stops at "}" because "}" is not a hex digit *)
Lemma take_hex_app d r :
  forallb is_hexU d = true -> take_hex (d ++ "}" :: r) = (d, "}" :: r).
Proof.
  induction d as [|c d IH]; intros H.
  - reflexivity.
  - cbn [forallb] in H. apply andb_true_iff in H as [Hc Hd].
    cbn [app take_hex]. rewrite Hc, (IH Hd). reflexivity.
Qed.

Lemma embedded_app cp rest :
  embedded cp ++ rest = "\" :: "x" :: "{" :: hex02 cp ++ "}" :: rest.
Proof. unfold embedded. rewrite <- !app_assoc. reflexivity. Qed.

Lemma embedded_length cp : (1 <= List.length (embedded cp))%nat.
Proof. unfold embedded. rewrite app_length. cbn. lia. Qed.

Lemma match_embedded_hex d r :
  d <> [] -> forallb is_hexU d = true ->
  match_embedded ("\" :: "x" :: "{" :: d ++ "}" :: r) = Some (d, r).
Proof.
  intros Hne Hh. unfold match_embedded.
  rewrite !Ascii.eqb_refl. cbn [andb]. rewrite (take_hex_app d r Hh).
  destruct d as [|x d]; [contradiction|]. rewrite Ascii.eqb_refl. reflexivity.
Qed.

Lemma match_embedded_plain c t :
  Ascii.eqb c "\" = false -> match_embedded (c :: t) = None.
Proof.
  intros H. unfold match_embedded.
  destruct t as [|c1 [|c2 t]]; try reflexivity. now rewrite H.
Qed.

(* the hexpoint of a code point of the domain that needs embedding: hex
   digits only, value cp, and accepted by the per-length range checks *)
Lemma hexpoint_ok_hex02 cp :
  addr_cp cp = true -> addr_plain_cp cp = false ->
  forallb is_hexU (hex02 cp) = true /\
  hex02 cp <> [] /\
  hex_value (hex02 cp) = cp /\
  ((List.length (hex02 cp) <=? 6)%nat && (cp <? 2097152)%N
     && hexpoint_ok (List.length (hex02 cp)) cp) = true.
Proof.
  intros Ha Hp. unfold addr_cp, utf8_valid_cp in Ha.
  destruct (hex02_spec cp) as (Hh & Hv & Hl1 & Hl2); [lia|].
  split; [exact Hh|]. split.
  { intros E. rewrite E in Hl2. cbn in Hl2. lia. }
  split; [exact Hv|].
  assert (Hsp : (128 <= cp)%N \/ cp = 32%N \/ cp = 43%N \/ cp = 61%N \/ cp = 92%N \/ cp = 127%N).
  { destruct (N.le_gt_cases 128 cp) as [?|?]; [now left|right].
    apply addr_special_cp; [lia|exact Hp]. }
  remember (List.length (hex02 cp)) as len eqn:El. clear El Hh Hv Hp.
  do 7 (destruct len as [|len]; [cbn [pow16] in Hl1, Hl2; cbn [hexpoint_ok Nat.leb]; lia|]).
  pose proof (pow16_pos len). cbn [pow16] in Hl1. lia.
Qed.

(* ---- the decoding steps ---- *)

Lemma dec_nil fuel : decode_utf8_addr_f fuel [] = Some [].
Proof. destruct fuel; reflexivity. Qed.

(* an octet that is neither a backslash nor disallowed is copied *)
Lemma dec_plain f c t :
  Ascii.eqb c "\" = false -> disallowed c = false ->
  decode_utf8_addr_f (S f) (c :: t) = option_map (cons c) (decode_utf8_addr_f f t).
Proof.
  intros H1 H2. cbn [decode_utf8_addr_f].
  rewrite (match_embedded_plain c t H1), H2. reflexivity.
Qed.

(* a code point sent as itself comes back as its (one-octet) UTF-8 form *)
Lemma dec_plain_cp f cp rest :
  addr_plain_cp cp = true ->
  decode_utf8_addr_f (S f) (n_byte cp :: rest) =
  option_map (app (utf8_encode cp)) (decode_utf8_addr_f f rest).
Proof.
  intros Hp. unfold addr_plain_cp in Hp. apply andb_true_iff in Hp as [Hlt Hq].
  destruct (qchar_facts _ Hq) as (H1 & H2 & _).
  rewrite (dec_plain _ _ _ H1 H2). rewrite utf8_encode_small by lia.
  destruct (decode_utf8_addr_f f rest); reflexivity.
Qed.

(* octets >= 128 are copied *)
Lemma dec_high : forall l f rest,
  (forall c, In c l -> (128 <= byte_n c)%N) ->
  decode_utf8_addr_f (List.length l + f) (l ++ rest) =
  option_map (app l) (decode_utf8_addr_f f rest).
Proof.
  induction l as [|a l IH]; intros f rest H.
  - cbn. destruct (decode_utf8_addr_f f rest); reflexivity.
  - destruct (high_facts a) as [H1 H2]; [apply H; now left|].
    cbn [List.length app Nat.add]. rewrite (dec_plain _ _ _ H1 H2).
    rewrite IH by (intros c Hc; apply H; now right).
    apply option_map_cons_app.
Qed.

(* "\x{HEX}" of a code point of the domain comes back as its UTF-8 form *)
Lemma dec_emb cp f rest :
  addr_cp cp = true -> addr_plain_cp cp = false ->
  decode_utf8_addr_f (S f) (embedded cp ++ rest) =
  option_map (app (utf8_encode cp)) (decode_utf8_addr_f f rest).
Proof.
  intros Ha Hp.
  destruct (hexpoint_ok_hex02 cp Ha Hp) as (Hh & Hne & Hv & Hok).
  rewrite embedded_app. cbn [decode_utf8_addr_f].
  rewrite (match_embedded_hex _ _ Hne Hh). rewrite Hv, Hok. reflexivity.
Qed.

Lemma dec_xtext_runes : forall cs fuel,
  forallb addr_cp cs = true ->
  (List.length (flat_map encode_utf8_addr_xtext_rune cs) < fuel)%nat ->
  decode_utf8_addr_f fuel (flat_map encode_utf8_addr_xtext_rune cs) = Some (utf8_of_runes cs).
Proof.
  induction cs as [|cp cs IH]; intros fuel Hd Hf.
  - apply dec_nil.
  - cbn [forallb] in Hd. apply andb_true_iff in Hd as [Hcp Hcs].
    cbn [flat_map] in *. rewrite app_length in Hf.
    unfold utf8_of_runes. cbn [flat_map]. fold (utf8_of_runes cs).
    unfold encode_utf8_addr_xtext_rune in *. fold (addr_plain_cp cp) in *.
    destruct (addr_plain_cp cp) eqn:Hp.
    + cbn [List.length app] in *. destruct fuel as [|f]; [lia|].
      rewrite (dec_plain_cp _ _ _ Hp). rewrite IH; [reflexivity|exact Hcs|lia].
    + pose proof (embedded_length cp).
      destruct fuel as [|f]; [lia|].
      rewrite (dec_emb _ _ _ Hcp Hp). rewrite IH; [reflexivity|exact Hcs|lia].
Qed.

Lemma dec_unitext_runes : forall cs fuel,
  forallb addr_cp cs = true ->
  (List.length (flat_map encode_utf8_addr_unitext_rune cs) < fuel)%nat ->
  decode_utf8_addr_f fuel (flat_map encode_utf8_addr_unitext_rune cs) = Some (utf8_of_runes cs).
Proof.
  induction cs as [|cp cs IH]; intros fuel Hd Hf.
  - apply dec_nil.
  - cbn [forallb] in Hd. apply andb_true_iff in Hd as [Hcp Hcs].
    cbn [flat_map] in *. rewrite app_length in Hf.
    unfold utf8_of_runes. cbn [flat_map]. fold (utf8_of_runes cs).
    unfold encode_utf8_addr_unitext_rune in *.
    destruct (N.ltb_spec cp 128) as [Hlt|Hge].
    + assert (Hpq : addr_plain_cp cp = qchar (n_byte cp)).
      { unfold addr_plain_cp. destruct (N.ltb_spec cp 128); [reflexivity|lia]. }
      destruct (qchar (n_byte cp)) eqn:Hq.
      * cbn [List.length app] in *. destruct fuel as [|f]; [lia|].
        rewrite (dec_plain_cp _ _ _ Hpq). rewrite IH; [reflexivity|exact Hcs|lia].
      * pose proof (embedded_length cp).
        destruct fuel as [|f]; [lia|].
        rewrite (dec_emb _ _ _ Hcp Hpq). rewrite IH; [reflexivity|exact Hcs|lia].
    + destruct (uspace_cp cp) eqn:Hu.
      * assert (Hnp : addr_plain_cp cp = false).
        { unfold addr_plain_cp. destruct (N.ltb_spec cp 128); [lia|reflexivity]. }
        pose proof (embedded_length cp).
        destruct fuel as [|f]; [lia|].
        rewrite (dec_emb _ _ _ Hcp Hnp). rewrite IH; [reflexivity|exact Hcs|lia].
      * replace fuel with
          (List.length (utf8_encode cp) + (fuel - List.length (utf8_encode cp)))%nat by lia.
        rewrite dec_high by (intros c Hc; now apply (utf8_encode_high cp)).
        rewrite IH; [reflexivity|exact Hcs|lia].
Qed.

Lemma addr_cp_valid cs : forallb addr_cp cs = true -> forallb utf8_valid_cp cs = true.
Proof.
  intros H. rewrite forallb_forall in *. intros cp Hin. specialize (H cp Hin).
  unfold addr_cp, utf8_valid_cp in *. lia.
Qed.

Theorem utf8_addr_xtext_roundtrip : forall cs,
  forallb addr_cp cs = true ->
  decode_utf8_addr_xtext (encode_utf8_addr_xtext (utf8_of_runes cs)) = Some (utf8_of_runes cs).
Proof.
  intros cs Hd. unfold encode_utf8_addr_xtext.
  rewrite runes_utf8_of_runes by now apply addr_cp_valid.
  unfold decode_utf8_addr_xtext. apply dec_xtext_runes; [exact Hd|lia].
Qed.

Print Assumptions utf8_addr_xtext_roundtrip.

Theorem utf8_addr_unitext_roundtrip : forall cs,
  forallb addr_cp cs = true ->
  decode_utf8_addr_xtext (encode_utf8_addr_unitext (utf8_of_runes cs)) = Some (utf8_of_runes cs).
Proof.
  intros cs Hd. unfold encode_utf8_addr_unitext.
  rewrite runes_utf8_of_runes by now apply addr_cp_valid.
  unfold decode_utf8_addr_xtext. apply dec_unitext_runes; [exact Hd|lia].
Qed.

Print Assumptions utf8_addr_unitext_roundtrip.

(* ------------------------------------------------------------------ *)
(* B.3  the encoders emit no octet that could break a command line     *)
(* ------------------------------------------------------------------ *)

Lemma encode_xtext_rune_clean cp c :
  In c (encode_xtext_rune cp) -> xtext_plain c = true \/ c = "+".
Proof.
  unfold encode_xtext_rune.
  destruct ((cp <? 128)%N && xtext_plain (n_byte cp)) eqn:E; intros Hin.
  - apply andb_true_iff in E as [_ E]. destruct Hin as [<-|[]]. now left.
  - destruct Hin as [<-|Hin]; [now right|]. left.
    now apply is_hexU_facts, (hex02_In_hex cp).
Qed.

Theorem encode_xtext_clean : forall s c,
  In c (encode_xtext s) -> xtext_plain c = true \/ c = "+".
Proof.
  intros s c Hin. unfold encode_xtext in Hin. apply in_flat_map in Hin as (cp & _ & Hin).
  now apply (encode_xtext_rune_clean cp).
Qed.

Print Assumptions encode_xtext_clean.

Lemma embedded_clean cp c :
  In c (embedded cp) ->
  c = "\" \/ c = "x" \/ c = "{" \/ c = "}" \/ is_hexU c = true.
Proof.
  unfold embedded. intros Hin. apply in_app_or in Hin as [Hin|Hin].
  - cbn in Hin. intuition.
  - apply in_app_or in Hin as [Hin|Hin].
    + do 4 right. now apply (hex02_In_hex cp).
    + cbn in Hin. intuition.
Qed.

Lemma encode_utf8_addr_xtext_rune_clean cp c :
  In c (encode_utf8_addr_xtext_rune cp) ->
  qchar c = true \/ c = "\" \/ c = "x" \/ c = "{" \/ c = "}" \/ is_hexU c = true.
Proof.
  unfold encode_utf8_addr_xtext_rune.
  destruct ((cp <? 128)%N && qchar (n_byte cp)) eqn:E; intros Hin.
  - apply andb_true_iff in E as [_ E]. destruct Hin as [<-|[]]. now left.
  - right. now apply (embedded_clean cp).
Qed.

Theorem encode_utf8_addr_xtext_clean : forall s c,
  In c (encode_utf8_addr_xtext s) ->
  qchar c = true \/ c = "\" \/ c = "x" \/ c = "{" \/ c = "}" \/ is_hexU c = true.
Proof.
  intros s c Hin. unfold encode_utf8_addr_xtext in Hin.
  apply in_flat_map in Hin as (cp & _ & Hin).
  now apply (encode_utf8_addr_xtext_rune_clean cp).
Qed.

Print Assumptions encode_utf8_addr_xtext_clean.

Lemma encode_utf8_addr_unitext_rune_clean cp c :
  In c (encode_utf8_addr_unitext_rune cp) ->
  qchar c = true \/ c = "\" \/ c = "x" \/ c = "{" \/ c = "}" \/ is_hexU c = true
  \/ (128 <= byte_n c)%N.
Proof.
  unfold encode_utf8_addr_unitext_rune.
  destruct (N.ltb_spec cp 128) as [Hlt|Hge]; intros Hin.
  - destruct (qchar (n_byte cp)) eqn:E.
    + destruct Hin as [<-|[]]. now left.
    + right. pose proof (embedded_clean cp c Hin). tauto.
  - destruct (uspace_cp cp).
    + right. pose proof (embedded_clean cp c Hin). tauto.
    + do 6 right. now apply (utf8_encode_high cp).
Qed.

Theorem encode_utf8_addr_unitext_clean : forall s c,
  In c (encode_utf8_addr_unitext s) ->
  qchar c = true \/ c = "\" \/ c = "x" \/ c = "{" \/ c = "}" \/ is_hexU c = true
  \/ (128 <= byte_n c)%N.
Proof.
  intros s c Hin. unfold encode_utf8_addr_unitext in Hin.
  apply in_flat_map in Hin as (cp & _ & Hin).
  now apply (encode_utf8_addr_unitext_rune_clean cp).
Qed.

Print Assumptions encode_utf8_addr_unitext_clean.

(* none of the permitted octets is CR, LF or SP *)
Ltac not_permitted H :=
  repeat (destruct H as [H|H]);
  solve [ vm_compute in H; discriminate H
        | apply N.leb_le in H; vm_compute in H; discriminate H ].

Corollary encode_xtext_no_crlf_sp : forall s,
  mem_byte CR (encode_xtext s) = false /\
  mem_byte LF (encode_xtext s) = false /\
  mem_byte " " (encode_xtext s) = false.
Proof.
  intros s. repeat split; apply mem_byte_false; intros Hin;
    apply encode_xtext_clean in Hin; not_permitted Hin.
Qed.

Corollary encode_utf8_addr_xtext_no_crlf_sp : forall s,
  mem_byte CR (encode_utf8_addr_xtext s) = false /\
  mem_byte LF (encode_utf8_addr_xtext s) = false /\
  mem_byte " " (encode_utf8_addr_xtext s) = false.
Proof.
  intros s. repeat split; apply mem_byte_false; intros Hin;
    apply encode_utf8_addr_xtext_clean in Hin; not_permitted Hin.
Qed.

Corollary encode_utf8_addr_unitext_no_crlf_sp : forall s,
  mem_byte CR (encode_utf8_addr_unitext s) = false /\
  mem_byte LF (encode_utf8_addr_unitext s) = false /\
  mem_byte " " (encode_utf8_addr_unitext s) = false.
Proof.
  intros s. repeat split; apply mem_byte_false; intros Hin;
    apply encode_utf8_addr_unitext_clean in Hin; not_permitted Hin.
Qed.

Print Assumptions encode_xtext_no_crlf_sp.
Print Assumptions encode_utf8_addr_xtext_no_crlf_sp.
Print Assumptions encode_utf8_addr_unitext_no_crlf_sp.
