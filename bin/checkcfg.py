"""Per-property configuration of bin/check."""

PROPS = {}

PROPS["C01"] = {
    "kinds": ["dr"],
    "rule": "dr: DATA reader run in isolation on a scripted raw-read schedule. Exhaustive streams over {'.',CR,LF,'x'} (all segmentations x read sizes up to length 4, rotating beyond), seeded random streams over all 256 octets with planted end-marker look-alikes, size-limit sweep, cut points. A case is non-trivial unless tagged 'trivial'; distinct = distinct generated case lines.",
    "trusted_base": ["model of bufio.Reader.ReadByte/UnreadByte and of lineLimitReader.Read (Transport.v), tied by the same runs"],
    "assumptions": ["limiter transparency (no line of the message longer than MaxLineLength) is the hypothesis of C01_byte_exact; streams violating it are covered by C19"],
}

CONV_TB = ["model of the server side of one connection (Conn.v: conn.go + server.go handleConn), of bufio/textproto line reading and of lineLimitReader (Transport.v), of the scripted backend; tied by the conv runs of this check",
           "the observed-behaviour oracles of CheckOracle.v and the expectations stated by the focused generators (harness/genfocus.go)"]

def conv_prop(pid, kinds, rule, assumptions=None):
    PROPS[pid] = {"kinds": kinds, "rule": rule, "trusted_base": CONV_TB, "assumptions": assumptions or []}

conv_prop("C02", ["c02", "dr"], "c02: complete conversations EHLO/MAIL/RCPT/DATA/<message>/MAIL/QUIT over message bodies with bait command lines and every terminator look-alike x backend {reads all, 3 octets, nothing} x {accept, reject} x {propagates reader error, not} x size limit {none, below, at, above} x {SMTP, LMTP, LMTP per-recipient} x 4 segmentations; dr: the DATA reader in isolation (see C01). Oracle: no bait address ever reaches Mail/Rcpt, the marker command after the message is executed, reply codes as the property prescribes.")
conv_prop("C03", ["c03", "conv"], "c03: command histories over a 35-symbol alphabet: every 2-step (3-step thorough) continuation of 6 prefixes, and random histories up to length 33, x {SMTP, LMTP} x recipient limit {0,2} x backend rejecting; conv: grammar-derived mixed conversations. Oracle: monitor over the recorded callbacks (order, envelope discarded and signalled, recipient limit).")
conv_prop("C05", ["c05", "conv"], "c05: chunkings {1 chunk, empty first chunk, 3/0/4, 1/1/1, 5+rest, empty} x LAST placement {on last chunk, on an extra empty chunk, none} x payloads {CRLF.CRLF, command look-alikes, NUL/8-bit, 100 LF-free octets with line limit 60, QUIT, text} x states {ok, no MAIL, all RCPT rejected, bad LAST token, over the size limit, LMTP, LMTP per-recipient} x segmentations. Oracle: message octets = concatenated payloads with EOF only after LAST, no payload line executed, marker command executed, reply codes.")
conv_prop("C06", ["c06", "dr"], "c06: limits N x message sizes N-2..N+2 and 10N x DATA (3 read sizes) and all chunkings into <= 3 BDAT chunks x {SMTP, LMTP}; SIZE= values around N, 2^32, 2^63-1, 2^63 and beyond. Oracle: the backend never sees more than N octets, <= N accepted exactly, > N answered 552 with the first N octets, SIZE > N refused without Mail.")
conv_prop("C07", ["c07", "dr"], "c07: every byte offset of the message part of DATA and BDAT conversations (SMTP, LMTP, LMTP per-recipient) as cut point x {EOF, timeout, error} x {one segment, byte-wise}; abandoning commands between chunks. Oracle: no reader ever reports EOF, no positive final reply.")
conv_prop("C08", ["c08", "conv"], "c08: every byte offset of 3 conversations (DATA, BDAT+re-EHLO+RSET, AUTH+out-of-order BDAT) as cut point x {EOF, timeout, error} x {SMTP, LMTP}; every server-initiated close reason {QUIT, 4 bad commands, too long line, idle timeout, backend panic, QUIT inside a chunked transfer} x buffered suffixes x segmentations; Server.Close() called by the application from another goroutine while the connection is inside a backend callback {NewSession, Mail (1st, 2nd), Rcpt (1st, 2nd), Data before / after reading the message, Reset (RSET, repeated EHLO), sasl Next}, the whole conversation delivered in ONE raw read so that everything behind is already buffered, x 10 buffered suffixes (RCPT; RCPT DATA message QUIT; DATA message; RSET MAIL RCPT DATA message; EHLO MAIL QUIT; MAIL RCPT; NOOP QUIT; AUTH MAIL; BDAT LAST; nothing) x {SMTP, LMTP, LMTP with LMTPSession} (tag server-close-in-callback; the event (srvclose) is logged when Close has returned). Oracle: one Logout per session, no callback/no new session after a closing reply or after Server.Close has returned, no command executed from the suffix, no go-smtp goroutine left.")
conv_prop("C19", ["c19", "conv"], "c19: line lengths L-3..L+5 for L in {60,120,500} at 3 positions x 3 verbs x 5 segmentations (incl. a split inside the line); endless lines; mixes of valid/invalid commands around the error threshold; all strings up to length 3 (4 thorough) over {NUL,CR,LF,SP,A,:,<,0xFF,U+017F} as command lines; random binary lines after command prefixes. Oracle: no recovered panic, a line > L+1 octets answered 500 and closed with no callback from it or after it, a line <= L never refused, 4th protocol error closes.")
conv_prop("C04", ["conv", "c03", "reply"], "conv: grammar-derived mixed conversations under 5 segmentation disciplines (one segment = fully pipelined, per line = lock step, random, byte-wise); c03: command histories. Oracle: the final reply after a Data call reports that call's verdict; replies compared octet for octet with the model, whose reply groups are proved one per command.")
PROPS["C17"] = {
    "kinds": ["reply"],
    "rule": "reply: the real writeResponse/writeError/dataErrorToStatus and Client.readResponse/toSMTPErr/parseEnhancedCode run in isolation and composed. render/rendererr/status: codes x enhanced codes {unset, absent, set, negative, huge} x 1-3 texts over the property's line shapes (exhaustive over a small pool, then seeded random incl. arbitrary octets); parse: every octet string up to length 3 (quick) / 6 (thorough) over {2,5,0,SP,-,CR,LF,+}, a pool of ~70 reply-line shapes (signs, short lines, bad codes, Atoi overflow, look-alike enhanced codes) alone, as continuation lines and in random 1-4 line sequences with assorted terminators, random garbage; roundtrip: SMTPError/plain error -> real server rendering (+ following octets) -> real client, codes 4xx/5xx x enhanced code set/unset/absent x messages of 1-3 (thorough: 1-6) lines from the shape pool (empty, leading/trailing space, enhanced-code look-alikes incl. the reply's own, non-ASCII, reply-line look-alikes, arbitrary octets) x via writeError/dataErrorToStatus x expectCode. Distinct = distinct generated case lines; all are non-trivial.",
    "trusted_base": ["models Reply.v (writeResponse, writeError, dataErrorToStatus) and ClientReply.v (textproto ReadLine/parseCodeLine/ReadResponse, strconv.Atoi, toSMTPErr, parseEnhancedCode), tied by the same runs; bufio's buffer size / textproto's fragment joining is abstracted (no line length limit in the model)"],
    "assumptions": ["NoEnhancedCode (explicitly absent) cannot round-trip by construction of the wire format: the theorem states its exact image (C17_no_enhanced_code_image) instead of equality", "expectCode must not accept the reply code (true at every call site for 4xx/5xx: C17_expect_rejects_4xx5xx); with expectCode 0 (AUTH) readResponse returns no error (C17_expect_zero)", "LMTP per-recipient replies prefix the text with <rcpt>; that path belongs to C13/C18"],
}

TLS_TB = ["crypto/tls is not modelled: in the harness both ends run the real crypto/tls over an in-memory connection (harness/tls.go); the model only assumes that a handshake succeeds iff the peer starts it right after the 220 reply and that TLS delivers each client write as one raw read"]
conv_prop("C10", ["tls", "conv"], "tls: real STARTTLS upgrades: plaintext pre-histories {none, greeted, MAIL, MAIL+RCPT, mid-BDAT, authenticated} x plaintext injected behind STARTTLS {none, in the same raw read (buffered), in a later raw read (handshake fails)} x AllowInsecureAuth x 3 segmentations, followed inside TLS by RCPT/DATA/MAIL without EHLO, EHLO, RCPT/BDAT without MAIL, MAIL, AUTH twice, STARTTLS again, QUIT; implicit TLS conversations; conv: mixed conversations. Oracle: expected reply codes, injected/plaintext-envelope commands never reach the backend, Logout before the new session, NewSession sees tls=true. (The client half of C10 is covered by the cli kind once Client.v is integrated.)")
PROPS["C10"]["trusted_base"] = CONV_TB + TLS_TB
conv_prop("C09", ["tls", "conv", "c03", "c08"], "tls: AUTH on plaintext with and without AllowInsecureAuth (523, no SASL call), after STARTTLS and under implicit TLS (235 then 503), with a backend without AuthSession (504); conv/c03/c08: conversations and histories containing AUTH exchanges with initial response, '=', bad base64, '*', multi-step challenges scripted in the backend. Oracle: monitor over the recorded SASL calls (never on an insecure connection, never after a success in the same session).")
PROPS["C09"]["trusted_base"] = CONV_TB + TLS_TB
PROPS["C03"]["kinds"] = ["c03", "conv", "tls"]

PROPS["C13"] = {
    "kinds": ["lmtp"],
    "rule": "lmtp: complete LMTP conversations (LHLO/MAIL/RCPT.../DATA or BDAT...LAST/QUIT) against the real server, emitted as conv cases. Exhaustive: every recipient list of 1..4 entries over 2 addresses (all 30 sequences) x every sub-multiset and order of SetStatus calls within the contract x return {nil,error} x {DATA,BDAT}. Sampled (exhaustive in the thorough tier): backend panic after every contract-respecting call sequence, calls beyond the contract (unknown address at every position: DATA and BDAT; one call too many: BDAT only, see assumptions), plain backend x panic, recipients rejected at RCPT, backends that stop reading early, 1-3 BDAT chunks, three segmentations. Each case is compared with the model (agree) and judged by the model-independent oracle CheckLmtp.lmtp_oracle on the recorded replies (tags c13-oracle-data / c13-oracle-bdat count the judged final responses). A case is non-trivial unless tagged 'trivial'.",
    "trusted_base": ["two-task model LmtpConc.v of handleDataLMTP (Go channel semantics: non-blocking send with direct hand-off to a parked receiver, buffered capacity = multiplicity; non-atomic fillRemaining) - read off conn.go and runtime/chan.go, tied to /repo by the lmtp runs only through its schedule-independent outcome",
                     "goroutine schedules are not forced in the harness: the runs sample whatever the Go scheduler does; the all-schedules claim rests on the proof"],
    "assumptions": ["attribution (C13_replies*) assumes the documented SetStatus contract; outside it (one call too many on the DATA path) the implementation's outcome depends on the goroutine schedule (LmtpProofs.ex_schedule_dependence, reproduced on /repo: about half of the runs panic) - then only one-reply-per-recipient-in-order, no deadlock and termination are claimed and checked",
                    "after a backend panic the oracle accepts any well-formed per-recipient replies (DESIGN sec. 7); lmtp_oracle_strict is the exact variant"],
}

conv_prop("C12", ["c12", "tls"], "c12: the property's complete configuration space (5 extension flags x size limit {0,1000} x recipient limit {0,2} x TLS {none, available, active = real implicit TLS} x AllowInsecureAuth x backend {auth-capable, not} x {SMTP, LMTP} = 3072 configurations; thorough: all, quick: every 4th plus the all-off/all-on rows) x EHLO/LHLO capability list, HELO reply, and a probe of every extension's parameter or command (SMTPUTF8, REQUIRETLS, BODY=BINARYMIME/8BITMIME, RET, ENVID, SIZE at and above the limit, NOTIFY, ORCPT, RRVS, recipients beyond RCPTMAX, AUTH, STARTTLS). Oracle: capability lines and reply codes computed by the generator from the property text.")
PROPS["C12"]["trusted_base"] = CONV_TB + TLS_TB

PROPS["C20"] = {
    "kinds": ["life"],
    "rule": "life: the REAL smtp.Server driven by a scripted net.Listener (connection / temporary net.Error / permanent error per Accept) and scripted Close / Shutdown(ctx) / peer-disconnect / ctx-expiry events; every op sequence over the 10-letter alphabet {conn, temp, perm, close, shutdown, finish 0, finish 1, expire, wclose, wshutdown} up to length 3 (thorough: 4), seeded random scripts of length 4-9, and the back-off cap (10 temporary errors: 5..640,1000,1000 ms). wclose / wshutdown are Close / Shutdown with a connection in the window between Accept's return and its handler's registration in s.conns, forced deterministically: the scripted listener's Close (called by the server under s.locker, after s.done is closed) hands the connection to the pending Accept and returns when Serve has spawned the handler (tag accept-window). A listener whose Close RETURNS AN ERROR (the first time / every time; tag listener-close-fails) is scripted for Close, Shutdown, wclose and wshutdown over 10 connection situations (none, registered, several, finished, mixed, after temporary errors, Serve already gone after a permanent Accept error) x 9 continuations (second calls, peers finishing in both orders, ctx expiry, a late accept), every op sequence up to length 2 (thorough: 3) and seeded random scripts: Close must return that error AND have closed every registered connection, Shutdown must block while a connection is active and return the error when the last one has finished. Recorded: what Serve/Close/Shutdown returned, which connections the server closed, the measured back-off delays. Compared with ServerLife.v (CheckLife.check_life) and judged against the property text on the recorded behaviour alone (monitor mon_step/mon_final). The data-race half is not case based: tools/accesses regenerates coq/gen/Accesses.v from /repo and LocksetInst.conn_races_exactly is re-proved by vm_compute on every run.",
    "trusted_base": [
        "tools/accesses (syntactic go/ast translator: field accesses, c.locker regions, calls, go literals, joins); it exits non-zero on any construct it cannot classify",
        "flattening of control flow: a function body is the sequence of ALL its accesses in source order (every branch, loop bodies once, deferred calls last); every real path's accesses are a subsequence with the same lock status",
        "the interleaving semantics of Lockset.v / Interleave.v as an abstraction of Go's scheduler and memory model (a data race = two conflicting accesses simultaneously enabled in a sequentially consistent interleaving)",
        "net.Conn, io.Pipe ends, channels, sync.Mutex / WaitGroup are race free themselves; a call ON such an object is a read of the field holding it; objects reached through a field (bufio.Reader, lineLimitReader, dataReader) are covered only through that field",
        "Interleave.v is a hand-written model of handleBdat's goroutine protocol (not tied by generated cases); ServerLife.v is tied by the life cases",
    ],
    "assumptions": [
        "Session.Data / LMTPData return once their reader has failed (documented contract): built into Interleave.v's DFailed state",
        "the exported *Conn methods are the only entry points other goroutines use (Server.Close -> Conn.Close; a backend that kept the *Conn)",
        "Close and Shutdown are atomic steps of ServerLife.v; the code implements this by testing and closing s.done under s.locker (repair of DESIGN F21) - the model does not interleave the inside of two concurrent calls; harness/race_test.go TestScenarioConcurrentClose checks on the real server that of 4 concurrent calls exactly one returns nil, the others ErrServerClosed, and none panics",
        "runtime panics (nil dereference etc.) are outside the models",
    ],
}


def _c20_race_scenarios(tier, seed, work, sh, pattern="Scenario"):
    """Forced-schedule scenarios of harness/race_test.go under the race detector
    (runtime support of C20, not the proof).  A reported data race whose two
    go-smtp functions are a pair of LocksetInst.known_races is a known finding;
    any other race, a hang (watchdog), a goroutine leak, a wrong reply or any other failing
    scenario (a panic in concurrent Close/Shutdown calls, a connection accepted just before
    Close / Shutdown that is served) is a violation."""
    import os, re
    verif = os.environ.get("VERIF_ROOT") or os.path.dirname(os.path.dirname(os.path.abspath(__file__)))
    src = open(os.path.join(verif, "coq/theories/LocksetInst.v")).read()
    m = re.search(r"Definition known_races[^:]*:[^=]*:=\s*\[(.*?)\]\.", src, re.S)
    known = set()
    if m:
        for f, a, b in re.findall(r'\("([^"]+)",\s*"([^"]+)",\s*"([^"]+)"\)', m.group(1)):
            known.add(frozenset((a, b)))
    count = 1 if tier == "quick" else 15
    rc, out = sh("go test -race -tags verif -run '%s' -count=%d -v . 2>&1" % (pattern, count),
                 cwd=verif + "/harness", timeout=3000)
    res = {"cases": 0, "kf": {}, "violations": [], "samples": []}
    if "--- PASS" not in out and "--- FAIL" not in out:
        res["failed"] = "go test -race did not run: " + out[-600:]
        res["summary"] = "not run"
        return res
    # split into per-test chunks
    chunks = re.split(r"(?m)^=== RUN\s+", out)
    npass = nfail = nknown = 0
    obs = re.findall(r"OBSERVATION [^\n]*", out)
    for ch in chunks[1:]:
        name = ch.split("\n", 1)[0].strip()
        res["cases"] += 1
        races = re.split(r"WARNING: DATA RACE", ch)[1:]
        unknown = []
        for r in races:
            r = r.split("==================")[0]
            # first go-smtp frame of each of the two accesses
            parts = re.split(r"(?m)^Previous (?:read|write) at", r)
            fns = []
            for p in parts[:2]:
                fm = re.search(r"go-smtp\.\(\*(?:Conn|Server)\)\.(\w+)(?:\.func\d+)?\(\)\s*\n\s*(\S+:\d+)", p)
                fns.append((fm.group(1), fm.group(2)) if fm else ("?", "?"))
            pair = frozenset(f for f, _ in fns)
            if len(fns) == 2 and pair in known:
                key = "F20:" + "~".join(sorted(pair))
                res["kf"][key] = res["kf"].get(key, 0) + 1
                nknown += 1
            else:
                unknown.append({"kind": "race-scenario", "case": "%s: DATA RACE %s" % (name, fns), "report": r[:1500]})
        failed = re.search(r"--- FAIL: " + re.escape(name) + r"\b", ch) is not None
        other = [l for l in re.findall(r"(?m)^\s+\S+\.go:\d+: (.*)$", ch)
                 if "race detected during execution" not in l and not l.startswith("OBSERVATION")]
        if unknown:
            res["violations"] += unknown[:2]
        if failed and other:
            res["violations"].append({"kind": "race-scenario", "case": "%s: %s" % (name, other[0][:400])})
        if failed and not unknown and not other and not races:
            res["violations"].append({"kind": "race-scenario", "case": "%s failed: %s" % (name, ch[-400:])})
        if failed: nfail += 1
        else: npass += 1
    res["summary"] = {"scenarios": res["cases"], "passed": npass, "failed": nfail,
                      "known_race_reports": nknown, "known_pairs_seen": sorted(res["kf"]),
                      "observations": obs[:4]}
    res["samples"] = ["go test -race -run Scenario: %d scenario runs, %d race reports all on known pairs" % (res["cases"], nknown)]
    return res

PROPS["C20"]["extra"] = [("race_scenarios", _c20_race_scenarios)]

def _scenarios_of(pid):
    """Scenarios of harness/race_test.go named TestScenario<pid>_...: several connections on ONE server
    (every other case kind serves one connection per server). Run under the race detector; a failing
    scenario is a violation of <pid>."""
    def run(tier, seed, work, sh):
        return _c20_race_scenarios(tier, seed, work, sh, pattern="Scenario" + pid + "_")
    return run

PROPS["C01"]["extra"] = [("multi_connection_scenarios", _scenarios_of("C01"))]
PROPS["C12"]["extra"] = [("multi_connection_scenarios", _scenarios_of("C12"))]
PROPS["C19"]["extra"] = [("real_socket_scenarios", _scenarios_of("C19"))]

PROPS["C13"]["kinds"] = ["lmtp", "c13x"]
PROPS["C17"]["kinds"] = ["reply", "c17conv"]

PROPS["C17"]["kinds"] = ["reply", "c17conv", "trip"]
TRIP_TB = ["the trip runs use the real Client and the real Server over net.Pipe; their judgement (CheckTrip.v) is the property text applied to the recorded API inputs, results and backend observations - no model of the composition is involved in it"]
conv_prop("C14", ["trip"], "trip(C14): every string of a 21-element pool of encoding-significant strings ('+', '=', space, backslash, braces, 'x{41}', hexchar look-alikes, DEL, TAB, 2/3/4-byte UTF-8, empty) in ENVID, AUTH (as local part of a mailbox; empty = <>), ORCPT rfc822 and ORCPT utf-8 x server with/without SMTPUTF8 (unitext vs xtext form) x Size {1, 2^32, 2^63-1, 1000}, UTF8, RET, NOTIFY sets, RRVS instants in 5 zones; each of the 19 non-ASCII Unicode White_Space code points (U+0085, U+00A0, U+1680, U+2000-200A, U+2028/9, U+202F, U+205F, U+3000) at the start, in the middle and at the end of a utf-8 ORCPT x server with/without SMTPUTF8 (trip: the backend must see the value unchanged; cli: the line written must equal the model's, which embeds them as \\x{HEX}); address shapes incl. the injection shapes of F25; MailOptions.Body {unset, 7BIT, 8BITMIME, BINARYMIME, wrong case, unknown} x server with/without BINARYMIME x {alone, with every other MAIL option, followed by RCPT and DATA}. Oracle: the backend's Mail/Rcpt arguments equal what the caller passed, Body included (an unset Body may arrive as 8BITMIME, the client's documented default).")
PROPS["C14"]["trusted_base"] = TRIP_TB
conv_prop("C16", ["trip"], "trip(C16): all bodies over the tokens {'.', LF, CRLF, 'x'} up to length 5 (7 thorough; every third one beyond length 3 in quick) + 40 random 8-bit bodies with an embedded CRLF.CRLF + bait command x Write partitions {one call, byte by byte, random 2-split} x verdict {accept, reject} x {SMTP, LMTP} x Close once/twice. Oracle: backend octets = normalise(body), envelope as given, Close = verdict, second Close is a local error, and the octets that crossed end with exactly dot_write(body) NOOP QUIT (no second exchange).")
PROPS["C16"]["trusted_base"] = TRIP_TB
conv_prop("C18", ["trip"], "trip(C18): 1..3 consecutive LMTP transactions x 1..3 recipients (some refused at RCPT) x per-recipient verdict vectors (all 64 masks; every 4th in quick) x {LMTPData with callback, without}. Oracle: the callback fires once per recipient accepted in that transaction, in order, with that recipient's status; Close returns nil (callback) or the first refusal (no callback); the following NOOP is in step.")
PROPS["C18"]["trusted_base"] = TRIP_TB

CLI_TB = ["model Client.v of client.go (every exported method, lazy hello with HELO fallback, ext parsing, validateLine, extension gates, dataCloser.Close incl. the LMTP reply loop, Auth with the SASL mechanism as a script, startTLS up to the handshake) together with net/textproto's Conn.Cmd / Writer.PrintfLine / DotWriter / closeDot over a 4096-octet bufio.Writer and Reader.ReadResponse (ClientReply.v); tied by the cli runs of this check (real client against ScriptConn, a pre-scripted fake server)",
          "the observed-behaviour oracles of CheckCli.v and the expectations stated by the generators in harness/gencli.go ((adv ..), (verd ..), (want ..), (exp ..))",
          "out of the model's scope: reply lines above 2000 octets (client-side lineLimitReader), deadlines, the TLS handshake itself (after a 220 the scripted handshake fails; what is compared is everything written before the first TLS record and the error kind), a '%' in the SASL mechanism name (Auth passes it to fmt as a format)"]

CLI_RULE = ("cli: the real client driven through its API against a scripted stream. c15: all 2^7 subsets of advertised extensions (BINARYMIME added at random) x option-field subsets of MailOptions/RcptOptions incl. the three Body values (thorough: the full 128 x 129 product); body: MailOptions.Body {unset, 7BIT, 8BITMIME, BINARYMIME, wrong case, unknown, hostile} x all 4 subsets of {8BITMIME, BINARYMIME} advertised x other keys x other option fields; hostile: all strings up to length 3 (thorough 4) over {CR,LF,NUL,SP,<,>,a} in Hello name, Verify addr, Mail from, Rcpt to, EnvelopeID, Auth, OriginalRecipient (both types), Extension name, plus hostile Return / Notify / address-type values; txn: every single transaction with 1..3 recipients x accept/refuse masks x verdict vectors x {callback, none} x {Close once, twice} x {LMTP, SMTP}, and random sequences of 2..3 transactions with Reset / Noop in between; starttls: {not advertised (3 ways), 454, 250, garbage reply, EOF, 220+garbage, 220+injected replies in the same / a later segment, 220+EOF, failing greeting / hello} x 5 follow-up call sequences; auth: 0..3-step scripted mechanisms x initial response {nil, empty, text, binary, all 256 octets} x server replies {334, empty 334, bad base64, two-line 334, 235, 535, garbage}; hello: 7 greetings x 11 EHLO/HELO outcomes x 6 call sequences; sendmail: bodies (incl. > 4096 octets) x outcomes, data-writer misuse; random: random call sequences over random reply streams. A case is distinct if its generated line is.")

PROPS["C15"] = {
    "kinds": ["cli"],
    "rule": CLI_RULE + " Oracle C15: every conn.Write of a command method is one line without CR/LF inside, lines = hello lines + at most the method's own line with the argument verbatim, CR/LF in an argument => local error and nothing written, every parameter after the address is a keyword whose key the scripted EHLO reply advertised (BODY=BINARYMIME needs BINARYMIME, any other BODY value 8BITMIME), RequireTLS/UTF8/Body without the key or an unknown Body value => local error and no MAIL line.",
    "trusted_base": CLI_TB,
    "assumptions": ["C15_one_line assumes the state invariant 'quiet' (no data writer open, nothing pending in textproto's write buffer), re-established by every command method (C15_invariant) and by Close (dw_close_quiet); a command issued while the data writer is open makes textproto write the terminator first, and a Write after Close leaves octets pending that travel with the next command (API misuse, modelled and exercised by focus writer-misuse, outside the property)",
                    "Auth: the mechanism NAME must be free of CR/LF (supplied by the sasl.Client, not validated by Auth)"],
}
PROPS["C18"] = {
    "kinds": ["cli"],
    "rule": CLI_RULE + " Oracle C18: in LMTP the callbacks of a Close are exactly (recipient, scripted reply) for the recipients whose RCPT returned nil since the last MAIL, in order; without callback Close returns the first negative reply; the commands after the transaction get their own replies.",
    "trusted_base": CLI_TB,
    "assumptions": ["C18_callbacks assumes well-formed replies from the server: a non-error reply to MAIL and DATA, one reply per RCPT, and after the final dot exactly one reply per recipient accepted in that transaction (txn_stream); satisfied by the go-smtp server's emission (C18_stream_hypothesis_satisfiable)"],
}

PROPS["C09"]["kinds"] = ["tls", "conv", "c03", "c08", "cli"]
PROPS["C10"]["kinds"] = ["tls", "conv", "cli"]
PROPS["C16"]["kinds"] = ["trip", "cli"]
PROPS["C18"]["kinds"] = ["cli", "trip"]
PROPS["C15"]["kinds"] = ["cli"]
for _p in ("C09", "C10", "C16", "C18"):
    PROPS[_p]["trusted_base"] = PROPS[_p].get("trusted_base", []) + CLI_TB
    PROPS[_p]["rule"] = PROPS[_p]["rule"] + " cli: " + CLI_RULE

PROPS["C04"]["site_coverage"] = True
PROPS["C04"]["kinds"] = ["conv", "c03", "c19", "c12", "reply"]
PROPS["C04"]["trusted_base"] = PROPS["C04"]["trusted_base"] + ["tools/replysites (go/ast): reads every writeResponse/protocolError/writeError call, dataErrorToStatus return and SMTPError literal out of /repo, and the reply literals of Conn.v/Reply.v by a regular expression; coq/gen/ReplySites.v is regenerated on every run"]

PROPS["C09"]["kinds"] = ["c09", "tls", "conv", "c08", "cli"]
PROPS["C09"]["rule"] = "c09: AUTH exchanges against the real server: scripted SASL servers of 0..3 challenges (empty, text, binary) ending in success / mechanism error / SMTPError / script exhaustion x initial response {none, '=', PLAIN-shaped, bad base64, binary} x later client lines {base64, '=', empty, '*', bad base64, binary} x {plaintext with AllowInsecureAuth, implicit TLS (real crypto/tls), plaintext without}, each followed by NOOP, a second AUTH and QUIT (quick: every 5th combination). " + PROPS["C09"]["rule"]
PROPS["C04"]["kinds"] = ["conv", "c03", "c19", "c12", "c09", "reply"]

PROPS["C11"] = {
    "kinds": ["c11"],
    "rule": "c11: one MAIL or RCPT line against the real server (EHLO, [MAIL], the line, QUIT); the reply code and the backend callback are recorded. Generators: grammar-derived valid lines for every parameter and combination x extension flags, single-point mutations, lists of faulty parameters / paths, all strings up to length 4 (thorough 5) over the alphabet < > @ : \" \\ SP a = + ; . after FROM:/TO:, random octets, keyword case variants incl. U+017F/U+0131/U+212A (not esmtp-keywords: must be refused), SMTPUTF8/REQUIRETLS with a value and KEY= with an empty value (must be refused). Tags: verdict of the reference grammar (valid/invalid/unspecified), verb, parameter kinds. Nothing is trivial.",
    "trusted_base": ["reference grammar RefGrammar.v (written from RFC 5321/1870/3461/4954/6531/6533/7293/3339/8689)"],
    "assumptions": ["lines classified Unspecified by the reference grammar are not judged"],
}

PROPS["C10"]["kinds"] = ["tls", "conv", "cli", "sm"]
PROPS["C10"]["rule"] += " sm: package-level SendMail and DialStartTLS + Client.SendMail against a scripted TCP server on the loopback interface x server behaviours {STARTTLS not offered, refused 454/502, 220 then garbage, 220 then close, real TLS upgrade, EHLO refused (HELO fallback)} x {with, without credentials}; oracle: only EHLO/HELO/STARTTLS/QUIT lines reach the server in plaintext, the call fails unless the upgrade succeeded (no model is involved in this kind)."

PROPS["C14"]["kinds"] = ["trip", "cli", "c11"]
PROPS["C14"]["trusted_base"] = TRIP_TB + CLI_TB

PROPS["C01"]["kinds"] = ["dr", "c01", "tls", "tmo"]
PROPS["C01"]["rule"] += " c01: whole conversations - MAIL with every parameter (SIZE below/at/above the real size, BODY, SMTPUTF8, RET/ENVID, AUTH) x RCPT parameters x SMTP/LMTP/LMTP-session/HELO x size limit none/at/above x an earlier transaction on the same connection, then DATA with dot-stuffed, binary and empty bodies; the octets the backend reads are stated by the generator (expect-last-data). tls: DATA transactions before and after a real STARTTLS upgrade (the message read inside TLS must be the octets sent inside TLS)."
PROPS["C01"]["trusted_base"] = PROPS["C01"]["trusted_base"] + CONV_TB + TLS_TB
PROPS["C02"]["kinds"] = ["c02", "dr", "tls"]

# kind tmo (finding F30): Server.ReadTimeout expires inside a message body, on real sockets (no model is run)
TMO_RULE = (" tmo: the REAL server (smtp.NewServer, ReadTimeout 220 ms) on a TCP loopback listener (and, for a subset, on net.Pipe), a scripted client that"
            " sends the prelude and the first part of a DATA message / BDAT chunk in one write, stops, waits until the server has answered the"
            " message with its error reply (refused chunks: until a passive tap on the server's side of the socket has seen the first Read time out;"
            " no fixed sleep decides the outcome) and then at once sends the rest: bait command lines, the end marker / the remaining chunk octets,"
            " RSET, MAIL, NOOP, QUIT. {DATA (backend reads all / stops after 5 octets and accepts), accepted BDAT chunk LAST / not LAST, refused BDAT"
            " chunk (no RCPT, no MAIL, bad second argument, over MaxMessageBytes)} x {SMTP, LMTP, LMTP per-recipient} x {time-out, control: same script,"
            " ReadTimeout 3 s, pause 120 ms}. Oracle on the recorded wire and backend callbacks (same encoding and monitors as the conv kinds): no bait"
            " address reaches Mail/Rcpt, the exact list of reply codes, after the reply to the message that timed out the server says nothing more and"
            " closes (the client sees the end of the stream), no reader reports EOF and the replies to that message are negative (C07); in the control"
            " cases the whole message is delivered with EOF and the commands behind it are executed. Covers what the scripted transport of the conv"
            " kinds cannot express: a read failure that REPEATS until the deadline is armed again.")
for _p in ("C02", "C05", "C07"):
    PROPS[_p]["kinds"] = ["tmo"] + PROPS[_p]["kinds"]   # first: a violation is reported with a real-socket case
    PROPS[_p]["rule"] = PROPS[_p]["rule"] + TMO_RULE
PROPS["C02"]["rule"] += " c02 also: a read failure inside the message that repeats 1, 2 or 3 times (scripted equivalent of an expired deadline) x backend {reads all, stops early and accepts} x {timeout, error}: closes iff the drain cannot reach the end marker."
PROPS["C05"]["rule"] += " c05 also: a read failure inside a chunk that repeats 1, 2 or 3 times x {accepted (SMTP, LMTP, LMTP per-recipient), refused (no MAIL, bad LAST token, over the limit)} x {LAST, not LAST}: an accepted chunk survives one failure (the discard skips the rest), a refused one none."

# kinds with a real clock (seeded changes C13G, C16G, C06G: regressions that need deadlines that work / reads that fail
# mid-message and a backend that reads on)
PROPS["C06"]["rule"] += (" c06 also: a DATA message of 2N..3N octets delivered in raw reads of k octets each followed by a read failure (time-out /"
                         " connection error; k in {1,2,3,N/2,N-1}) and a backend that reads on after the failures (DataPlan.Retry) with buffers"
                         " above, at and below k: stalls within the first N octets (N octets, ErrDataTooLarge, 552, next command runs), the whole"
                         " message trickling (552 and close), a message within the limit with stalls (accepted), a backend that gives up one failure"
                         " early; these conv cases carry (nomodel) - the server model's backend stops at the first failed read - and are judged by the"
                         " size oracle on ALL octets the backend obtained, failed reads included, plus reply codes and forbid-eof. dr also: the same"
                         " on the reader in isolation (limit 1..8, bodies N-1..3N+1, failures between the raw reads of the first N octets, backend"
                         " reading on), compared with the model ReadRetry.be_read_retry and judged by the C06 oracle of CheckDr.v.")
TRIPW_RULE = (" tripw: trips over net.Pipe (deadlines work as on a socket) with Client.CommandTimeout = 500 ms and a caller that sleeps 1.3-1.5 s"
              " before its first Write after Data(), between two Writes, before Close, at all three places, or nowhere (control) x bodies {small,"
              " more than textproto's 4096-octet buffer} x verdict {accept, reject} x {SMTP, LMTP} x Close once / twice x backend read sizes."
              " Oracle: the same c16_judge (backend octets = normalise(body), envelope, Close = verdict, second Close local error, the octets that"
              " crossed end with dot_write(body) NOOP QUIT); a failed Write counts as a local error in front of Close's result.")
PROPS["C16"]["kinds"] = ["tripw"] + PROPS["C16"]["kinds"]
PROPS["C16"]["rule"] += TRIPW_RULE

# the case lines of this kind are long: a smaller in-Coq sample keeps coqc's parsing time down
PROPS["C16"]["shard"] = {"tripw": 16}
PROPS["C18"]["kinds"] = ["tripw"] + PROPS["C18"]["kinds"]
PROPS["C18"]["shard"] = {"tripw": 16}
WTMO_RULE = (" wtmo: the REAL LMTP server (WriteTimeout 300 ms) on a TCP loopback listener, an LMTPSession backend that follows a script of"
             " steps {read the message, SetStatus(addr, err), sleep 3 x WriteTimeout} - prompt (control); second / third recipient late; the whole"
             " delivery late (sleep before / after reading); first status before the message is read and the others late one after the other;"
             " statuses set in reverse order with the first one late; no status and a late return of nil / an error; one status and a late error -"
             " x recipient lists {a b c, a b a (repeated address), a x b (x refused at RCPT)} x {DATA, BDAT LAST, two BDAT chunks}; the client sends"
             " the whole conversation (LHLO .. message, NOOP, QUIT) in one write and reads until the server closes. No sleep has to fall INSIDE a"
             " window: the delays are fixed sleeps above the time-out, writes into an empty socket buffer do not block. Oracle (CheckWtmo.v, no model):"
             " the client received exactly one reply per accepted recipient, in RCPT order, with the text the property prescribes for the status"
             " set for it (else LMTPData's return value), and the NOOP and QUIT behind the message were answered (exact list of reply codes).")
PROPS["C13"]["kinds"] = ["wtmo"] + PROPS["C13"]["kinds"]
PROPS["C13"]["rule"] += WTMO_RULE
PROPS["C13"]["trusted_base"] = PROPS["C13"]["trusted_base"] + ["wtmo: no model; the expectations are computed by harness/genwtmo.go from the property text and judged by CheckWtmo.v on the octets the client received"]

# the case lines of this kind are long (whole conversations in hex, twice): a smaller in-Coq sample
PROPS["C13"]["shard"] = {"wtmo": 16}

PROPS["C12"]["kinds"] = PROPS["C12"]["kinds"] + ["c11"]
PROPS["C17"]["kinds"] = PROPS["C17"]["kinds"] + ["tmo"]
PROPS["C13"]["kinds"] = PROPS["C13"]["kinds"] + ["tmo"]

# generator dimensions added after the L and M series of seeded changes (DESIGN.md section 15)
_LM = {
 "C02": " c02 also (M): unread messages whose over-long paragraph (line limits 60 and 2000) is a raw read of its own between '...CRLF' and '.CRLF<bait commands>'.",
 "C04": " c19/c05 also (M): BDAT chunks of 70 000 and 200 000 octets full of command look-alikes whose backend gives up after 0, 3 or 40 000 octets; the reply sequence is stated for C04 as well.",
 "C05": " c05 also (M): BDAT chunks of 70 000 and 200 000 octets whose backend gives up early; tmo control bdat-*-pipelined-slow (six pipelined chunks, segments 450 ms apart against a 1.6 s time-out).",
 "C06": " c06 also (M): backends that read exactly the message size, and one octet fewer, under limits N and N+1.",
 "C08": " c08 also (M): Server.Close called while the n-th reply with a given code is being written (354 with the message buffered behind; the replies to MAIL and RCPT).",
 "C09": " c09 also (M): continuation answers that spell a command (QUIT, quit, RSET); seven challenges against nine answers (coprime rotation).",
 "C12": " c12 also (L, M): the TLS configuration rotates between Certificates, GetCertificate and GetConfigForClient; every third configuration sends a refused greeting after the accepted one.",
 "C13": " tmo LMTP cases are judged for C13 (L): the replies the client RECEIVED; an LMTP handler that hangs after the message was handed over is a C13 violation (M).",
 "C16": " trip also (L, M): backends that refuse an 8 kB message after reading 0 or 3 octets (a partial read must be a prefix); Client.DebugWriter set in every other trip; a call that never returns has both pipe ends closed after 30 s.",
 "C18": " cli also (L): DATA refused with 451/554 although recipients were accepted, then Data() again with and without a further Rcpt.",
 "C19": " c19 also (M): hostile values (C0/C1 controls raw, broken and overlong UTF-8, surrogates and huge code points in \\x{} form, signs and overflows) for every MAIL/RCPT parameter in an open transaction on a server with every extension enabled; chunks of 70 000 and 200 000 octets refused early.",
 "C01": " conversations of the 'timeouts' third also run with Server.Debug set (L).",
 "C15": " cli also (M): the body cases run as LMTP clients too.",
 "C07": " the recording backend classifies read errors with errors.Is (M): an error wrapping io.EOF counts as EOF.",
}
for _p, _t in _LM.items():
    PROPS[_p]["rule"] = PROPS[_p]["rule"] + _t

# ... and after the N series
_N = {
 "C02": " c02 also (N): 421 among the backend's verdicts.",
 "C06": " c06 also (N): SIZE given more than once, the deciding value above the limit.",
 "C09": " c09 also (N): exchanges that end with success together with additional data.",
 "C12": " c12 also (N): sessions that implement AuthSession but offer no mechanism.",
 "C13": " lmtp also (N): 421 among the per-recipient statuses and return values.",
 "C16": " trip also (N): one shared error value per distinct refusal in the recording backend; Close must report the backend's code and text; 9 kB messages read to the end and refused.",
 "C17": " trip also (N): the refusal of a later recipient after an accepted one (fifth error site).",
 "C19": " scenario (N): a flood of junk commands from a peer that reads no reply, WriteTimeout set, over net.Pipe.",
}
for _p, _t in _N.items():
    PROPS[_p]["rule"] = PROPS[_p]["rule"] + _t

# ... and after the O series
_O = {
 "C01": " scenario (O): LMTP early statuses that cannot be written (WriteTimeout, net.Pipe) while the message is still arriving.",
 "C02": " c02 also (O): backends that panic 0, 3 or 30 octets into a message whose rest is in the same raw read.",
 "C06": " c06 also (O): a backend that consumes the message with io.Copy (plan read size 32768).",
 "C09": " cli also (O): initial responses of 300 to 1400 octets against refusing, accepting, continuing and garbage-answering servers.",
 "C13": " c13x also (O): a second MAIL between two accepted RCPTs, DATA and BDAT, plain and per-recipient backends.",
 "C19": " c19 also (O): unbroken arguments of 300 to 1900 octets in the greeting, MAIL and RCPT.",
}
for _p, _t in _O.items():
    PROPS[_p]["rule"] = PROPS[_p]["rule"] + _t
