(* C04, well-formedness of every reply on the wire.

   Every EWire of a trace of the server model is the output of writeResponse
   (by inspection of the model, handler by handler).  [serve_wf_partial]:
   under the hypotheses
   - [backend_replies_ok be]: every *SMTPError of the backend script has a
     code in 200..599, an enhanced code that is unset or of the class of the
     code, and a printable text (HT, 0x20-0x7E, LF); other errors have a
     printable text;
   - [cfg_texts_ok cfg]: the server's own name and mechanism names are
     printable;
   - [echo_ok line] for every command line the loop consumes: the client
     octets the reply echoes (HELO domain, unknown verb, MAIL / RCPT
     mailboxes) are printable
   every reply satisfies the strict RFC 5321 recogniser [reply_wf], and every
   reply other than the greeting, the EHLO reply and the 3xx intermediate
   replies carries, on every line, an enhanced status code of the class of the
   reply code ([reply_ec_class_ok]).

   The third hypothesis cannot be dropped: the implementation echoes client
   octets unfiltered (known finding F22), see [serve_wf_refuted]. *)
From Smtp Require Import Bytes GoStrings Transport DataReader Parse Xtext Base64 Reply Rfc3339 Lmtp Conn.
From Smtp Require Import ReplySpec ReplyProofs Base64Proofs LmtpSpec LmtpProofs Order OrderStrict ConnProofs TraceProps.
From Smtp Require Import ReplyGroups ReplyVerdict.
Local Open Scope char_scope.

(* ================= decidable side conditions ================= *)

Definition pr (t : bytes) : bool := forallb printable_or_lf t.

Definition ec_class_okb (code : Z) (ec : ecode) : bool :=
  let '(a, b, c) := default_ec code ec in (a =? code / 100)%Z && (0 <=? b)%Z && (0 <=? c)%Z.

Lemma ec_class_okb_is code ec : ec_class_okb code ec = true -> ec_class_is code (default_ec code ec).
Proof.
  unfold ec_class_okb, ec_class_is. destruct (default_ec code ec) as [[a b] c]. intros H.
  apply andb_true_iff in H as [H H3]. apply andb_true_iff in H as [H1 H2].
  apply Z.eqb_eq in H1. apply Z.leb_le in H2, H3. repeat split; assumption.
Qed.

Definition code_ec_ok (code : Z) (ec : ecode) : bool :=
  (200 <=? code)%Z && (code <=? 599)%Z && ec_class_okb code ec.

Definition triple_ok (code : Z) (ec : ecode) (msg : bytes) : bool := code_ec_ok code ec && pr msg.

(* a value a backend callback may return *)
Definition berr_ok (e : berr) : bool :=
  match e with
  | BNil => true
  | BSmtp c ec m => triple_ok c ec m
  | BPlain m => pr m
  end.

Lemma pr_app a b : pr (a ++ b) = pr a && pr b.
Proof. apply forallb_app. Qed.

(* ================= good replies ================= *)

(* replies that carry no enhanced code: the greeting, the EHLO reply, 3xx *)
Definition exempt (cfg : config) (b : bytes) : Prop :=
  EWire b = greeting cfg
  \/ (exists domain caps, b = write_response 250 no_ec ((bs "Hello " ++ domain) :: caps))
  \/ (exists code texts, (300 <= code <= 399)%Z /\ b = write_response code no_ec texts).

Definition good (cfg : config) (b : bytes) : Prop :=
  reply_wf b = true /\ (reply_ec_class_ok b = true \/ exempt cfg b).

Lemma pr_no_cr t : pr t = true -> mem_byte CR t = false.
Proof. intros H. eapply forallb_not_mem; [exact H|reflexivity]. Qed.

Lemma good_triple cfg code ec msg : triple_ok code ec msg = true -> good cfg (write_response code ec [msg]).
Proof.
  unfold triple_ok, code_ec_ok. intros H.
  apply andb_true_iff in H as [H Hm]. apply andb_true_iff in H as [H Hec].
  apply andb_true_iff in H as [H1 H2]. apply Z.leb_le in H1, H2.
  split.
  - apply render_wf; [lia|]. constructor; [exact Hm|constructor].
  - left. apply render_ec_class; [lia|apply ec_class_okb_is, Hec|]. constructor; [apply pr_no_cr, Hm|constructor].
Qed.

Lemma good_exempt_3xx cfg code texts :
  (300 <= code <= 399)%Z -> Forall (fun t => pr t = true) texts -> good cfg (write_response code no_ec texts).
Proof.
  intros Hc Ht. split; [apply render_wf; [lia|exact Ht]|].
  right; right; right. exists code, texts. split; [exact Hc|reflexivity].
Qed.

Lemma good_err cfg code ec e :
  e <> BNil -> berr_ok e = true -> code_ec_ok code ec = true -> good cfg (write_error code ec e).
Proof.
  intros Hn He Hc. destruct e as [|c e' m|m]; [congruence| |]; cbn [write_error berr_ok] in *.
  - apply good_triple, He.
  - apply good_triple. unfold triple_ok. rewrite Hc, He. reflexivity.
Qed.

Lemma status_triple_ok a e :
  pr a = true -> berr_ok e = true ->
  let '(code, ec, msg) := data_error_to_status e in triple_ok code ec (bs "<" ++ a ++ bs "> " ++ msg) = true.
Proof.
  intros Ha He. destruct e as [|c ec m|m]; cbn [data_error_to_status berr_ok] in *.
  - unfold triple_ok. rewrite !pr_app, Ha. reflexivity.
  - unfold triple_ok in *. apply andb_true_iff in He as [H1 H2]. rewrite H1, !pr_app, Ha, H2. reflexivity.
  - unfold triple_ok. rewrite !pr_app, Ha, He. reflexivity.
Qed.

(* ================= event lists whose replies are all good ================= *)

Definition aw (cfg : config) (ev : list event) : Prop :=
  Forall (fun e => match e with EWire b => good cfg b | _ => True end) ev.

Lemma aw_nil cfg : aw cfg [].
Proof. constructor. Qed.

Lemma aw_app cfg a b : aw cfg a -> aw cfg b -> aw cfg (a ++ b).
Proof. intros Ha Hb. apply Forall_app. split; assumption. Qed.

Lemma aw_skip cfg e ev : is_wire e = false -> aw cfg ev -> aw cfg (e :: ev).
Proof. intros He H. constructor; [destruct e; try exact I; discriminate|exact H]. Qed.

Lemma aw_no_wire cfg ev : no_wire ev -> aw cfg ev.
Proof.
  unfold no_wire. induction ev as [|e ev IH]; cbn [forallb]; intros H; [constructor|].
  apply andb_true_iff in H as [He H]. apply aw_skip; [|apply IH, H]. destruct (is_wire e); [discriminate|reflexivity].
Qed.

Lemma nw_no_wire ev : nw ev -> no_wire ev.
Proof.
  unfold nw, no_wire. induction ev as [|e ev IH]; cbn [forallb]; [reflexivity|]. intros H.
  apply andb_true_iff in H as [He H]. rewrite (IH H), (skip_ok_wire e He). reflexivity.
Qed.

Lemma aw_nw cfg ev : nw ev -> aw cfg ev.
Proof. intros H. apply aw_no_wire, nw_no_wire, H. Qed.

Lemma aw_reply cfg code ec msg ev :
  triple_ok code ec msg = true -> aw cfg ev -> aw cfg (reply code ec msg :: ev).
Proof. intros H Hev. constructor; [apply good_triple, H|exact Hev]. Qed.

Lemma aw_reply_err cfg code ec e ev :
  e <> BNil -> berr_ok e = true -> code_ec_ok code ec = true -> aw cfg ev -> aw cfg (reply_err code ec e :: ev).
Proof. intros Hn He Hc Hev. constructor; [apply good_err; assumption|exact Hev]. Qed.

Lemma aw_status cfg a e ev :
  pr a = true -> berr_ok e = true -> aw cfg ev -> aw cfg (status_reply a e :: ev).
Proof.
  intros Ha He Hev. constructor; [|exact Hev]. pose proof (status_triple_ok a e Ha He) as H.
  unfold status_reply. destruct (data_error_to_status e) as [[code ec] msg]. apply good_triple, H.
Qed.

Lemma aw_statuses cfg (sts : list (bytes * berr)) :
  Forall (fun x => pr (fst x) = true /\ berr_ok (snd x) = true) sts ->
  aw cfg (map (fun '(a, e) => status_reply a e) sts).
Proof.
  induction 1 as [|[a e] sts [Ha He] _ IH]; cbn [map]; [constructor|]. apply aw_status; assumption.
Qed.

Lemma aw_statuses_same cfg (rc : list bytes) e :
  Forall (fun a => pr a = true) rc -> berr_ok e = true -> aw cfg (map (fun a => status_reply a e) rc).
Proof.
  intros Hrc He. induction Hrc as [|a rc Ha _ IH]; cbn [map]; [constructor|]. apply aw_status; assumption.
Qed.

(* ================= the backend's replies ================= *)

Definition plan_wf (p : data_plan) : bool :=
  berr_ok (dp_ret p) && forallb (fun x => berr_ok (snd x)) (dp_status p).
Definition step_wf (s : sasl_step) : bool := match s with SaslStep _ _ e => berr_ok e end.
Definition aplan_wf (p : auth_plan) : bool := berr_ok (ap_start p) && forallb step_wf (ap_steps p).

Definition backend_replies_ok (be : backend) : bool :=
  forallb berr_ok (be_ns be) && forallb berr_ok (be_mail be) && forallb berr_ok (be_rcpt be)
  && forallb plan_wf (be_data be) && forallb aplan_wf (be_auth be).

Lemma backend_replies_ok_split be :
  backend_replies_ok be = true ->
  forallb berr_ok (be_ns be) = true /\ forallb berr_ok (be_mail be) = true
  /\ forallb berr_ok (be_rcpt be) = true /\ forallb plan_wf (be_data be) = true
  /\ forallb aplan_wf (be_auth be) = true.
Proof.
  unfold backend_replies_ok. intros H.
  apply andb_true_iff in H as [H H5]. apply andb_true_iff in H as [H H4].
  apply andb_true_iff in H as [H H3]. apply andb_true_iff in H as [H1 H2]. repeat split; assumption.
Qed.

Lemma backend_replies_ok_intro a b c d e :
  forallb berr_ok a = true -> forallb berr_ok b = true -> forallb berr_ok c = true ->
  forallb plan_wf d = true -> forallb aplan_wf e = true -> backend_replies_ok (mkBE a b c d e) = true.
Proof. unfold backend_replies_ok. cbn. intros -> -> -> -> ->. reflexivity. Qed.

Lemma berr_of_rerr_wf e : berr_ok (berr_of_rerr e) = true.
Proof. destruct e as [| | |te| |]; try reflexivity. destruct te; reflexivity. Qed.

Lemma plan_ret_wf p term : plan_wf p = true -> berr_ok (plan_ret p term) = true.
Proof.
  unfold plan_wf, plan_ret. intros H. apply andb_true_iff in H as [H _].
  destruct term as [[]|]; try exact H; destruct (dp_prop p); try exact H; apply berr_of_rerr_wf.
Qed.

Lemma pipe_err_wf v : berr_ok v = true -> berr_ok (pipe_err v) = true.
Proof. destruct v; intros H; try exact H; reflexivity. Qed.

Definition bd_wf (b : bdat) : Prop :=
  plan_wf (bd_plan b) = true /\ (forall v, bd_done b = Some v -> berr_ok v = true)
  /\ Forall (fun a => pr a = true) (bd_rcpts b).

Lemma bd_finish_wf b term : bd_wf b -> bd_wf (fst (bd_finish b term)).
Proof.
  intros (Hp & Hd & Hr). unfold bd_finish. cbn [fst]. split; [exact Hp|]. split; [|exact Hr].
  cbn [bd_done]. intros v Hv. inversion Hv; subst.
  destruct (bd_panics b); [reflexivity|apply plan_ret_wf, Hp].
Qed.

Lemma bd_end_wf b term : bd_wf b -> bd_wf (fst (bd_end b term)).
Proof. intros H. unfold bd_end. destruct (bd_done b); [exact H|apply bd_finish_wf, H]. Qed.

Lemma bd_feed_wf b chunk :
  bd_wf b ->
  bd_wf (fst (fst (bd_feed b chunk)))
  /\ (forall e, snd (bd_feed b chunk) = Some e -> berr_ok e = true).
Proof.
  intros H. unfold bd_feed. destruct chunk as [|x chunk].
  { cbn [fst snd]. split; [exact H|discriminate]. }
  destruct (bd_done b) as [v|] eqn:Hd.
  { cbn [fst snd]. split; [exact H|]. intros e He. inversion He; subst. apply pipe_err_wf.
    destruct H as (_ & H & _). apply H. exact Hd. }
  destruct H as (Hp & Hdn & Hr).
  destruct (dp_stop (bd_plan b)) as [k|].
  2:{ cbn [fst snd]. split; [|discriminate]. split; [exact Hp|]. split; [cbn [bd_done]; discriminate|exact Hr]. }
  destruct (take_N _ _) as [[a ?] ?].
  set (bb := mkBD _ _ _ _ _).
  assert (H1 : bd_wf bb) by (split; [exact Hp|split; [cbn [bd_done bb]; discriminate|exact Hr]]).
  destruct (_ <? _)%N.
  { cbn [fst snd]. split; [exact H1|discriminate]. }
  pose proof (bd_finish_wf bb None H1) as F1.
  destruct (bd_finish bb None) as [b2 ev]. cbn [fst snd] in *.
  destruct (_ =? _)%N; cbn [fst snd]; (split; [exact F1|]); [discriminate|].
  intros e He. destruct (bd_done b2) as [v|] eqn:Hd2; inversion He; subst.
  apply pipe_err_wf. destruct F1 as (_ & F1 & _). apply F1. exact Hd2.
Qed.

Lemma bd_new_wf p rcpts sp :
  plan_wf p = true -> Forall (fun a => pr a = true) rcpts -> bd_wf (fst (bd_new p rcpts sp)).
Proof.
  intros Hp Hr. unfold bd_new. set (b := mkBD _ _ _ _ _).
  assert (Hb : bd_wf b) by (split; [exact Hp|split; [cbn [bd_done b]; discriminate|exact Hr]]).
  destruct (dp_stop p) as [[|k]|]; try exact Hb.
  pose proof (bd_finish_wf b None Hb) as F1. destruct (bd_finish b None) as [b' ev]. exact F1.
Qed.

(* ---- LMTP statuses ---- *)

Lemma assign_wf calls fv rcpts : forall seen,
  forallb (fun x => berr_ok (snd x)) calls = true -> berr_ok fv = true ->
  Forall (fun a => pr a = true) rcpts ->
  Forall (fun x => pr (fst x) = true /\ berr_ok (snd x) = true) (assign (status_of calls fv) seen rcpts).
Proof.
  induction rcpts as [|a r IH]; intros seen Hc Hf Hr; cbn [assign]; constructor.
  - inversion Hr; subst. split; [assumption|]. cbn [snd]. unfold status_of, calls_for.
    destruct (nth_in_or_default (count_addr a seen)
                (map snd (filter (fun c => bytes_eqb a (fst c)) calls)) fv) as [Hin|Hd]; [|rewrite Hd; exact Hf].
    apply in_map_iff in Hin as (x & Hx & Hin). apply filter_In in Hin as [Hin _].
    rewrite forallb_forall in Hc. rewrite <- Hx. apply Hc, Hin.
  - inversion Hr; subst. apply IH; assumption.
Qed.

Lemma lmtp_statuses_wf rcpts calls ret panic :
  forallb (fun x => berr_ok (snd x)) calls = true -> berr_ok ret = true ->
  Forall (fun a => pr a = true) rcpts ->
  Forall (fun x => pr (fst x) = true /\ berr_ok (snd x) = true) (fst (lmtp_statuses rcpts calls ret panic)).
Proof.
  intros Hc Hr Hrc. rewrite lmtp_statuses_spec. cbv zeta. cbn [fst].
  apply assign_wf; [apply ok_calls_forallb, Hc| |exact Hrc].
  destruct (panic || negb (contract_ok rcpts calls)); [reflexivity|exact Hr].
Qed.

Lemma bdat_lmtp_replies_wf cfg b e :
  bd_wf b -> berr_ok e = true -> aw cfg (fst (bdat_lmtp_replies cfg b e)).
Proof.
  intros (Hp & Hd & Hr) He. unfold bdat_lmtp_replies.
  unfold plan_wf in Hp. apply andb_true_iff in Hp as [Hret Hst].
  destruct (cf_lmtp_session cfg).
  - destruct (run_statuses (dp_status (bd_plan b)) (mk_collector (bd_rcpts b))) as [col p0] eqn:Er.
    assert (Ecol : col = fst (run_statuses (dp_status (bd_plan b)) (mk_collector (bd_rcpts b))))
      by (rewrite Er; reflexivity).
    destruct (bd_panics b); cbn [fst]; rewrite Ecol, emit_run_expected; apply aw_statuses;
      (apply assign_wf; [apply ok_calls_forallb, Hst|first [reflexivity|exact He]|exact Hr]).
  - destruct (bd_panics b); cbn [fst]; rewrite map_map.
    + apply (aw_statuses_same cfg (bd_rcpts b) err_panic Hr). reflexivity.
    + apply (aw_statuses_same cfg (bd_rcpts b) _ Hr).
      destruct (bd_done b) as [v|]; [apply Hd; reflexivity|reflexivity].
Qed.

(* ================= the server's own texts ================= *)

Definition cfg_texts_ok (cfg : config) : bool :=
  pr (cf_domain cfg) && match cf_auth cfg with Some mechs => forallb pr mechs | None => true end.

Lemma digit_printable c : is_digit c = true -> printable_or_lf c = true.
Proof. destruct c as [[] [] [] [] [] [] [] []]; vm_compute; congruence. Qed.

Lemma zch_printable c : zch c = true -> printable_or_lf c = true.
Proof. destruct c as [[] [] [] [] [] [] [] []]; vm_compute; congruence. Qed.

Lemma pr_dec_of_N n : pr (dec_of_N n) = true.
Proof. unfold pr. eapply forallb_impl; [exact digit_printable|apply dec_of_N_digits]. Qed.

Lemma pr_dec_of_Z z : pr (dec_of_Z z) = true.
Proof. unfold pr. eapply forallb_impl; [exact zch_printable|apply dec_of_Z_zch]. Qed.

Lemma b64_printable c : b64_val c <> None \/ c = "="%char -> printable_or_lf c = true.
Proof.
  intros [H| ->]; [|reflexivity]. revert H.
  destruct c as [[] [] [] [] [] [] [] []]; vm_compute; congruence.
Qed.

Lemma pr_b64_encode x : pr (b64_encode x) = true.
Proof.
  unfold pr. apply forallb_forall. intros c Hc. apply b64_printable. eapply b64_encode_alphabet, Hc.
Qed.

Lemma pr_mechs (ms : list bytes) :
  forallb pr ms = true -> pr (flat_map (fun n => " " :: n) ms) = true.
Proof.
  induction ms as [|m ms IH]; cbn [forallb flat_map]; [reflexivity|]. intros H.
  apply andb_true_iff in H as [Hm H]. cbn [app]. unfold pr in *. cbn [forallb].
  rewrite forallb_app, Hm, (IH H). reflexivity.
Qed.

Lemma caps_pr cfg c : cfg_texts_ok cfg = true -> Forall (fun t => pr t = true) (caps cfg c).
Proof.
  unfold cfg_texts_ok. intros H. apply andb_true_iff in H as [_ Hm]. unfold caps.
  repeat (apply Forall_app; split).
  - repeat constructor.
  - destruct (cf_tls_config cfg && negb (c_tls c)); repeat constructor.
  - destruct (auth_allowed cfg c); [|constructor].
    destruct (cf_auth cfg) as [[|m ms]|]; try constructor; [|constructor].
    rewrite pr_app. rewrite (pr_mechs (m :: ms) Hm). reflexivity.
  - destruct (cf_utf8 cfg); repeat constructor.
  - destruct (c_tls c && cf_requiretls cfg); repeat constructor.
  - destruct (cf_binarymime cfg); repeat constructor.
  - destruct (cf_dsn cfg); repeat constructor.
  - destruct (0 <? cf_max_bytes cfg)%Z; repeat constructor. rewrite pr_app, pr_dec_of_Z. reflexivity.
  - destruct (0 <? cf_max_rcpt cfg)%N; repeat constructor. rewrite pr_app, pr_dec_of_N. reflexivity.
  - destruct (cf_rrvs cfg); repeat constructor.
Qed.

Lemma good_greeting cfg : cfg_texts_ok cfg = true -> match greeting cfg with EWire b => good cfg b | _ => True end.
Proof.
  unfold cfg_texts_ok. intros H. apply andb_true_iff in H as [Hd _]. unfold greeting. split.
  - apply render_wf; [lia|]. constructor; [|constructor].
    change (pr (cf_domain cfg ++ (if cf_lmtp cfg then bs " LMTP" else bs " ESMTP") ++ bs " Service Ready") = true).
    rewrite !pr_app, Hd. destruct (cf_lmtp cfg); reflexivity.
  - right; left. reflexivity.
Qed.

Lemma good_ehlo cfg c domain :
  cfg_texts_ok cfg = true -> pr domain = true ->
  good cfg (write_response 250 no_ec ((bs "Hello " ++ domain) :: caps cfg c)).
Proof.
  intros Hc Hd. split.
  - apply render_wf; [lia|]. constructor; [|apply caps_pr, Hc].
    change (pr (bs "Hello " ++ domain) = true). rewrite pr_app, Hd. reflexivity.
  - right; right; left. eexists _, _. reflexivity.
Qed.

(* ================= the invariant and the echo hypothesis ================= *)

Definition bdat_wi (c : conn) : Prop := match c_bdat c with Some b => bd_wf b | None => True end.

Definition WI (c : conn) : Prop :=
  backend_replies_ok (c_be c) = true /\ Forall (fun a => pr a = true) (c_rcpts c) /\ bdat_wi c.

Definition WS (cfg : config) (r : hres) : Prop := aw cfg (snd r) /\ WI (fst r).

(* the client octets a reply to this command may echo are printable *)
Definition echo_cmd_ok (cmd arg : bytes) : bool :=
  let C := to_upper cmd in
  pr C
  && (if cmd_is C "HELO" || cmd_is C "EHLO" || cmd_is C "LHLO"
      then match parse_hello_argument arg with Some d => pr d | None => true end else true)
  && (if cmd_is C "MAIL"
      then match cut_prefix_fold arg (bs "FROM:") with
           | Some a => match parse_reverse_path (trim_space a) with Some (from, _) => pr from | None => true end
           | None => true
           end else true)
  && (if cmd_is C "RCPT"
      then match cut_prefix_fold arg (bs "TO:") with
           | Some a => match parse_path (trim_space a) with Some (rcpt, _) => pr rcpt | None => true end
           | None => true
           end else true).

Definition echo_ok (line : bytes) : bool :=
  match parse_cmd line with Some (cmd, arg) => echo_cmd_ok cmd arg | None => true end.

Ltac cs :=
  cbn [c_t c_phases c_be c_helo c_session c_errs c_binarymime c_from c_rcpts c_did_auth c_closed
       c_tls c_bdat c_received upd_t upd_be upd_helo upd_session upd_errs upd_binarymime upd_from
       upd_rcpts upd_did_auth upd_bdat upd_received fst snd] in *.

Ltac startw c HW :=
  destruct c as [t ph be h se er bm fr rc da cl tl bd rv];
  unfold WI, bdat_wi in HW; cs.

Ltac nw_tac :=
  solve [ assumption | apply abort_ev_nw | apply reset_ev_nw | apply close_ev_nw | reflexivity
        | apply nw_app; nw_tac ].

Ltac awt := repeat first
  [ apply aw_nil
  | apply aw_nw; nw_tac
  | apply aw_reply; [vm_compute; reflexivity|]
  | apply aw_skip; [reflexivity|]
  | apply aw_reply_err; [discriminate|assumption|reflexivity|]
  | apply aw_app; [apply aw_nw; nw_tac|]
  | apply aw_app; [eassumption|]
  | assumption ].

Ltac ws_same HW := split; [cbn [snd app]; awt|exact HW].

(* ---------- protocolError ---------- *)

Lemma protocol_error_ws cfg c code ec msg :
  triple_ok code ec msg = true -> WI c -> WS cfg (protocol_error c code ec msg).
Proof.
  intros Ht HW. unfold protocol_error.
  destruct (err_threshold <? c_errs (upd_errs c (c_errs c + 1)))%N.
  - rewrite do_close_eq. split.
    + cbn [snd app]. apply aw_reply; [exact Ht|]. awt.
    + unfold close_c. destruct HW as (H1 & H2 & H3). destruct c. split; [exact H1|]. split; [exact H2|exact I].
  - split; [cbn [snd]; apply aw_reply; [exact Ht|constructor]|destruct c; exact HW].
Qed.

(* ---------- MAIL ---------- *)

Lemma mail_param_triple cfg k v o bm code ec msg :
  mail_param cfg k v o bm = inr (code, ec, msg) -> triple_ok code ec msg = true.
Proof. unfold mail_param. break_match; intros H; inversion H; subst; reflexivity. Qed.

Lemma mail_params_triple cfg args : forall o bm code ec msg bm',
  mail_params cfg args o bm = inr ((code, ec, msg), bm') -> triple_ok code ec msg = true.
Proof.
  induction args as [|[k v] r IH]; intros o bm code ec msg bm'; cbn [mail_params]; [discriminate|].
  destruct (mail_param cfg k v o bm) as [[o' bm1]|[[c1 e1] m1]] eqn:E.
  - apply IH.
  - intros H. inversion H; subst. eapply mail_param_triple, E.
Qed.

Lemma handle_mail_ws cfg c arg :
  WI c ->
  (forall a from rest, cut_prefix_fold arg (bs "FROM:") = Some a ->
     parse_reverse_path (trim_space a) = Some (from, rest) -> pr from = true) ->
  WS cfg (handle_mail cfg c arg).
Proof.
  intros HW Hecho. startw c HW. unfold handle_mail, syntax_mail. cs.
  destruct h as [|h0 h]; [ws_same HW|].
  destruct bd as [b|]; [ws_same HW|].
  destruct (cut_prefix_fold arg (bs "FROM:")) as [a|]; [|ws_same HW].
  destruct (parse_reverse_path (trim_space a)) as [[from rest]|] eqn:Ep; [|ws_same HW].
  pose proof (Hecho a from rest eq_refl Ep) as Hfrom.
  destruct (parse_args rest) as [args|]; [|ws_same HW].
  destruct (mail_params cfg (sort_kv args) mo_zero false) as [[opts bm']|[[[code ec] msg] bm']] eqn:Emp.
  2:{ pose proof (mail_params_triple _ _ _ _ _ _ _ _ Emp) as Ht.
      split; [cbn [snd]; apply aw_reply; [exact Ht|constructor]|exact HW]. }
  cs. destruct se; cbn [negb]; [|ws_same HW].
  unfold pop_mail. cs.
  destruct HW as (Hbe & Hrc & Hbd). apply backend_replies_ok_split in Hbe as (B1 & B2 & B3 & B4 & B5).
  destruct (pop_ok berr_ok BNil (be_mail be) eq_refl B2) as [Hr Hrest].
  destruct (pop BNil (be_mail be)) as [r rest']. cs.
  assert (HW' : forall fr', WI (mkC t ph (mkBE (be_ns be) rest' (be_rcpt be) (be_data be) (be_auth be))
                               (h0 :: h) true er bm' fr' rc da cl tl None rv)).
  { intros fr'. split; [apply backend_replies_ok_intro; assumption|]. split; [exact Hrc|exact I]. }
  destruct r as [|rcode rec rmsg|rmsg]; (split; [cbn [snd]|apply HW']).
  - apply aw_skip; [reflexivity|]. apply aw_reply; [|constructor].
    unfold triple_ok. rewrite !pr_app, Hfrom. reflexivity.
  - awt.
  - awt.
Qed.

(* ---------- RCPT ---------- *)

Lemma rcpt_param_triple cfg k v o code ec msg :
  rcpt_param cfg k v o = inr (code, ec, msg) -> triple_ok code ec msg = true.
Proof. unfold rcpt_param. break_match; intros H; inversion H; subst; reflexivity. Qed.

Lemma rcpt_params_triple cfg args : forall o code ec msg,
  rcpt_params cfg args o = inr (code, ec, msg) -> triple_ok code ec msg = true.
Proof.
  induction args as [|[k v] r IH]; intros o code ec msg; cbn [rcpt_params]; [discriminate|].
  destruct (rcpt_param cfg k v o) as [o'|[[c1 e1] m1]] eqn:E.
  - apply IH.
  - intros H. inversion H; subst. eapply rcpt_param_triple, E.
Qed.

Lemma handle_rcpt_ws cfg c arg :
  WI c ->
  (forall a rcpt rest, cut_prefix_fold arg (bs "TO:") = Some a ->
     parse_path (trim_space a) = Some (rcpt, rest) -> pr rcpt = true) ->
  WS cfg (handle_rcpt cfg c arg).
Proof.
  intros HW Hecho. startw c HW. unfold handle_rcpt, syntax_rcpt. cs.
  destruct fr; cbn [negb]; [|ws_same HW].
  destruct bd as [b|]; [ws_same HW|].
  destruct (cut_prefix_fold arg (bs "TO:")) as [a|]; [|ws_same HW].
  destruct (parse_path (trim_space a)) as [[rcpt rest]|] eqn:Ep; [|ws_same HW].
  pose proof (Hecho a rcpt rest eq_refl Ep) as Hrcpt.
  destruct ((0 <? cf_max_rcpt cfg)%N && (cf_max_rcpt cfg <=? N.of_nat (List.length rc))%N).
  { split; [cbn [snd]|exact HW]. apply aw_reply; [|constructor].
    unfold triple_ok. rewrite !pr_app, pr_dec_of_N. reflexivity. }
  destruct (parse_args rest) as [args|]; [|ws_same HW].
  destruct (rcpt_params cfg (sort_kv args) ro_zero) as [opts|[[code ec] msg]] eqn:Erp.
  2:{ pose proof (rcpt_params_triple _ _ _ _ _ _ Erp) as Ht.
      split; [cbn [snd]; apply aw_reply; [exact Ht|constructor]|exact HW]. }
  destruct se; cbn [negb]; [|ws_same HW].
  unfold pop_rcpt. cs.
  destruct HW as (Hbe & Hrc & Hbd). apply backend_replies_ok_split in Hbe as (B1 & B2 & B3 & B4 & B5).
  destruct (pop_ok berr_ok BNil (be_rcpt be) eq_refl B3) as [Hr Hrest].
  destruct (pop BNil (be_rcpt be)) as [r rest']. cs.
  assert (HBE : backend_replies_ok (mkBE (be_ns be) (be_mail be) rest' (be_data be) (be_auth be)) = true)
    by (apply backend_replies_ok_intro; assumption).
  destruct r as [|rcode rec rmsg|rmsg]; (split; [cbn [snd]|]).
  - apply aw_skip; [reflexivity|]. apply aw_reply; [|constructor].
    unfold triple_ok. rewrite !pr_app, Hrcpt. reflexivity.
  - split; [exact HBE|]. split; [|exact I]. apply Forall_app. split; [exact Hrc|]. constructor; [exact Hrcpt|constructor].
  - awt.
  - split; [exact HBE|]. split; [exact Hrc|exact I].
  - awt.
  - split; [exact HBE|]. split; [exact Hrc|exact I].
Qed.

(* ---------- EHLO / HELO / LHLO ---------- *)

Lemma handle_greet_ws cfg c enh arg :
  cfg_texts_ok cfg = true -> WI c ->
  (forall d, parse_hello_argument arg = Some d -> pr d = true) ->
  WS cfg (handle_greet cfg c enh arg).
Proof.
  intros Hcfg HW Hecho. startw c HW. unfold handle_greet. cs.
  destruct (parse_hello_argument arg) as [domain|]; [|ws_same HW]. cs.
  pose proof (Hecho domain eq_refl) as Hd.
  assert (Hhello : triple_ok 250 (2, 0, 0)%Z (bs "Hello " ++ domain) = true)
    by (unfold triple_ok; rewrite pr_app, Hd; reflexivity).
  destruct HW as (Hbe & Hrc & Hbd).
  destruct se.
  - rewrite do_reset_eq. cbn [negb]. unfold reset_c. cs.
    destruct enh; cbn [negb]; (split; [cbn [snd]|split; [exact Hbe|split; [constructor|exact I]]]).
    + apply aw_app; [apply aw_nw, reset_ev_nw|]. constructor; [apply good_ehlo; assumption|constructor].
    + apply aw_app; [apply aw_nw, reset_ev_nw|]. apply aw_reply; [exact Hhello|constructor].
  - pose proof Hbe as Hbe'. apply backend_replies_ok_split in Hbe' as (B1 & B2 & B3 & B4 & B5).
    destruct (pop_ok berr_ok BNil (be_ns be) eq_refl B1) as [Hr Hrest].
    destruct (pop BNil (be_ns be)) as [r rest]. cs.
    assert (HBE : backend_replies_ok (mkBE rest (be_mail be) (be_rcpt be) (be_data be) (be_auth be)) = true)
      by (apply backend_replies_ok_intro; assumption).
    destruct r as [|rcode rec rmsg|rmsg]; cbn [negb]; [destruct enh; cbn [negb]| |];
      (split; [cbn [snd app]|split; [exact HBE|split; [exact Hrc|exact Hbd]]]).
    + apply aw_skip; [reflexivity|]. constructor; [apply good_ehlo; assumption|constructor].
    + apply aw_skip; [reflexivity|]. apply aw_reply; [exact Hhello|constructor].
    + awt.
    + awt.
Qed.

(* ---------- STARTTLS ---------- *)

Lemma handle_starttls_ws cfg c : WI c -> WS cfg (handle_starttls cfg c).
Proof.
  intros HW. startw c HW. unfold handle_starttls. cs.
  destruct tl; [ws_same HW|].
  destruct (cf_tls_config cfg); cbn [negb]; [|ws_same HW].
  destruct (t_raw t) as [|r0 rs]; [destruct ph as [|p phs]|]; [ws_same HW| |ws_same HW].
  rewrite do_reset_eq. unfold reset_c. cs. destruct HW as (Hbe & Hrc & Hbd).
  split; [cbn [snd app]|split; [exact Hbe|split; [constructor|exact I]]].
  apply aw_reply; [reflexivity|]. apply aw_skip; [reflexivity|].
  apply aw_app; [destruct se; repeat constructor|apply aw_nw, reset_ev_nw].
Qed.

(* ---------- AUTH ---------- *)

Lemma good_334 cfg ch :
  good cfg (write_response 334 no_ec [match ch with [] => [] | _ => b64_encode ch end]).
Proof.
  apply good_exempt_3xx; [lia|]. constructor; [|constructor].
  destruct ch; [reflexivity|apply pr_b64_encode].
Qed.

Lemma auth_loop_aw cfg steps : forall c resp,
  forallb step_wf steps = true -> aw cfg (snd (fst (auth_loop steps c resp))).
Proof.
  induction steps as [|[ch done err] rest IH]; intros c resp Hok; cbn [auth_loop].
  - cbn [fst snd]. awt.
  - cbn [forallb step_wf] in Hok. apply andb_true_iff in Hok as [He Hrest].
    destruct err as [|ecode eec emsg|emsg]; [|cbn [fst snd]; awt..].
    destruct done; [cbn [fst snd]; awt|].
    assert (Hw : forall ev, aw cfg ev ->
              aw cfg (EAuthNext resp ch false BNil
                        :: EWire (write_response 334 no_ec [match ch with [] => [] | _ => b64_encode ch end]) :: ev)).
    { intros ev Hev. apply aw_skip; [reflexivity|]. constructor; [apply good_334|exact Hev]. }
    destruct (conn_read_line c) as [[line|e] c1]; [|cbn [fst snd]; apply Hw; constructor].
    destruct (bytes_eqb line (bs "*")); [cbn [fst snd]; apply Hw; awt|].
    destruct (decode_sasl_response line) as [r|]; [|cbn [fst snd]; apply Hw; awt].
    specialize (IH c1 (Some r) Hrest). destruct (auth_loop rest c1 (Some r)) as [[c2 ev] ok].
    cbn [fst snd] in *. apply Hw, IH.
Qed.

Lemma WI_upd_t c t : WI (upd_t c t) <-> WI c.
Proof. destruct c. reflexivity. Qed.

Lemma handle_auth_ws cfg c arg : WI c -> WS cfg (handle_auth cfg c arg).
Proof.
  intros HW. startw c HW. unfold handle_auth. cs.
  destruct h as [|h0 h]; [ws_same HW|].
  destruct da; [ws_same HW|].
  destruct (fields arg) as [|m more]; [ws_same HW|].
  destruct (negb (auth_allowed cfg (mkC t ph be (h0 :: h) se er bm fr rc false cl tl bd rv))); [ws_same HW|].
  assert (Hir : forall ir : option (option bytes),
    WS cfg
      match ir with
      | None => (mkC t ph be (h0 :: h) se er bm fr rc false cl tl bd rv,
                 [reply 454 (4, 7, 0)%Z (bs "Invalid base64 data")])
      | Some ir =>
          match cf_auth cfg with
          | None => (mkC t ph be (h0 :: h) se er bm fr rc false cl tl bd rv,
                     [reply_err 454 (4, 7, 0)%Z err_auth_unknown_mechanism])
          | Some _ =>
              let '(p, c1) := pop_auth (mkC t ph be (h0 :: h) se er bm fr rc false cl tl bd rv) in
              match ap_start p with
              | BNil =>
                  let '(c2, ev, ok) := auth_loop (ap_steps p) c1 ir in
                  if ok then
                    (upd_did_auth c2 true,
                     EAuth (to_upper m) BNil :: ev
                       ++ [reply 235 (2, 0, 0)%Z (bs "Authentication succeeded"); EAuthOk])
                  else (c2, EAuth (to_upper m) BNil :: ev)
              | e => (c1, [EAuth (to_upper m) e; reply_err 454 (4, 7, 0)%Z e])
              end
          end
      end).
  { intros [ir|]; [|ws_same HW].
    destruct (cf_auth cfg) as [mechs|].
    2:{ split; [cbn [snd]|exact HW]. apply aw_reply_err; [discriminate|reflexivity|reflexivity|constructor]. }
    unfold pop_auth. cs.
    destruct HW as (Hbe & Hrc & Hbd). apply backend_replies_ok_split in Hbe as (B1 & B2 & B3 & B4 & B5).
    destruct (pop_ok aplan_wf ap_default (be_auth be) eq_refl B5) as [Hp Hrest].
    destruct (pop ap_default (be_auth be)) as [p rest]. cs.
    assert (HBE : backend_replies_ok (mkBE (be_ns be) (be_mail be) (be_rcpt be) (be_data be) rest) = true)
      by (apply backend_replies_ok_intro; assumption).
    unfold aplan_wf in Hp. apply andb_true_iff in Hp as [Hstart Hsteps].
    destruct (ap_start p) as [|scode sec smsg|smsg].
    2,3: (split; [cbn [snd]; awt|split; [exact HBE|split; [exact Hrc|exact Hbd]]]).
    match goal with |- context [auth_loop ?s ?c ?r] =>
      pose proof (auth_loop_spec s c r) as [Hc2 _];
      pose proof (auth_loop_aw cfg s c r Hsteps) as Haw;
      destruct (auth_loop s c r) as [[c2 ev] ok] end.
    cbn [fst snd] in *.
    assert (HW2 : WI c2) by (rewrite Hc2; apply WI_upd_t; split; [exact HBE|split; [exact Hrc|exact Hbd]]).
    destruct ok; (split; [cbn [snd]|]).
    - apply aw_skip; [reflexivity|]. apply aw_app; [exact Haw|]. awt.
    - destruct c2. exact HW2.
    - apply aw_skip; [reflexivity|exact Haw].
    - exact HW2. }
  destruct more as [|x more]; [exact (Hir (Some None))|].
  destruct (decode_sasl_response x) as [r|]; [exact (Hir (Some (Some r)))|exact (Hir None)].
Qed.

(* ---------- DATA ---------- *)

Lemma good_354 cfg : good cfg (write_response 354 no_ec [bs "Go ahead. End your data with <CR><LF>.<CR><LF>"]).
Proof. apply good_exempt_3xx; [lia|]. repeat constructor. Qed.

Lemma status_triple_wf e code ec msg :
  data_error_to_status e = (code, ec, msg) -> berr_ok e = true -> triple_ok code ec msg = true.
Proof.
  destruct e as [|c ec' m|m]; cbn [data_error_to_status berr_ok]; intros H Hok.
  - injection H as <- <- <-. reflexivity.
  - injection H as <- <- <-. exact Hok.
  - injection H as <- <- <-.
    change (code_ec_ok 554 (5, 0, 0)%Z && pr (bs "Error: transaction failed: " ++ m) = true).
    rewrite pr_app, Hok. reflexivity.
Qed.

Lemma handle_data_ws cfg c arg : WI c -> WS cfg (handle_data cfg c arg).
Proof.
  intros HW. startw c HW. unfold handle_data. cs.
  destruct arg as [|a0 arg]; [|ws_same HW].
  destruct bd as [b|]; [ws_same HW|].
  destruct bm; [ws_same HW|].
  destruct (negb fr || match rc with [] => true | _ :: _ => false end); [ws_same HW|].
  assert (Hgo : forall ev, aw cfg ev ->
            aw cfg (EWire (write_response 354 no_ec [bs "Go ahead. End your data with <CR><LF>.<CR><LF>"]) :: ev)).
  { intros ev Hev. constructor; [apply good_354|exact Hev]. }
  destruct se; cbn [negb]; [|split; [cbn [snd]; apply Hgo; awt|exact HW]].
  unfold pop_data. cs.
  destruct HW as (Hbe & Hrc & _). apply backend_replies_ok_split in Hbe as (B1 & B2 & B3 & B4 & B5).
  destruct (pop_ok plan_wf dp_default (be_data be) eq_refl B4) as [Hp Hrest].
  destruct (pop dp_default (be_data be)) as [p rest]. cs.
  assert (HBE : backend_replies_ok (mkBE (be_ns be) (be_mail be) (be_rcpt be) rest (be_auth be)) = true)
    by (apply backend_replies_ok_intro; assumption).
  unfold call_data.
  destruct (backend_reads (dp_sizes p) (dp_stop p) (new_data_reader (cf_max_bytes cfg)) t)
    as [[[got term] d1] t1].
  pose proof (plan_ret_wf p term Hp) as Hret. set (ret := plan_ret p term) in *. clearbody ret.
  rewrite !do_reset_eq.
  assert (HWfin : forall t' se' cl', WI (mkC t' ph (mkBE (be_ns be) (be_mail be) (be_rcpt be) rest (be_auth be))
                                       h se' er false false [] da cl' tl None 0%Z)).
  { intros. split; [exact HBE|]. split; [constructor|exact I]. }
  destruct (cf_lmtp cfg) eqn:Elmtp; cbn [negb]; [destruct (cf_lmtp_session cfg) eqn:Esess; cbn [negb]|].
  - unfold plan_wf in Hp. apply andb_true_iff in Hp as [_ Hst].
    pose proof (lmtp_statuses_wf rc (dp_status p) ret (dp_panic p) Hst Hret Hrc) as Hsts.
    destruct (lmtp_statuses rc (dp_status p) ret (dp_panic p)) as [sts panicked].
    cbn [fst] in Hsts. apply (aw_statuses cfg) in Hsts. set (replies := map _ sts) in *. clearbody replies.
    destruct panicked.
    + rewrite do_close_eq. cbv beta iota. rewrite do_reset_eq. unfold reset_c, close_c. cs.
      split; [cbn [snd app]|apply HWfin]. apply Hgo. apply aw_skip; [reflexivity|].
      apply aw_app; [exact Hsts|]. apply aw_nw. nw_tac.
    + destruct (dr_drain d1 t1) as [[de ?] t2]. unfold close_unless.
      destruct (drained de); cbv beta iota; rewrite ?do_close_eq; cbv beta iota; rewrite do_reset_eq;
        unfold reset_c, close_c; cs; (split; [cbn [snd app]|apply HWfin]);
        (apply Hgo; apply aw_skip; [reflexivity|]; apply aw_app; [exact Hsts|]; apply aw_nw; nw_tac).
  - destruct (dp_panic p).
    + rewrite do_close_eq. unfold reset_c, close_c. cs.
      split; [cbn [snd app]|apply HWfin]. apply Hgo. awt.
    + destruct (dr_drain d1 t1) as [[de ?] t2]. unfold close_unless.
      destruct (drained de); cbv beta iota; rewrite ?do_close_eq; cbv beta iota; rewrite do_reset_eq;
        unfold reset_c, close_c; cs; (split; [cbn [snd app]|apply HWfin]);
        (apply Hgo; apply aw_skip; [reflexivity|]; apply aw_app; [apply aw_statuses_same; assumption|];
         apply aw_nw; nw_tac).
  - destruct (dp_panic p).
    + rewrite do_close_eq. unfold reset_c, close_c. cs.
      split; [cbn [snd app]|apply HWfin]. apply Hgo. awt.
    + destruct (data_error_to_status ret) as [[code ec] msg] eqn:Est.
      pose proof (status_triple_wf _ _ _ _ Est Hret) as Ht.
      destruct (dr_drain d1 t1) as [[de ?] t2]. unfold close_unless.
      destruct (drained de); cbv beta iota; rewrite ?do_close_eq; cbv beta iota; rewrite do_reset_eq;
        unfold reset_c, close_c; cs; (split; [cbn [snd app]|apply HWfin]);
        (apply Hgo; apply aw_skip; [reflexivity|]; apply aw_reply; [exact Ht|]; apply aw_nw; nw_tac).
Qed.

(* ---------- BDAT ---------- *)

Lemma handle_bdat_ws cfg c arg : WI c -> WS cfg (handle_bdat cfg c arg).
Proof.
  intros HW. startw c HW. unfold handle_bdat. cs.
  destruct (fields arg) as [|a0 more]; [ws_same HW|].
  match goal with
  | |- WS _ (match more with [] => ?B | _ :: _ => _ end) => assert (Hbody : WS cfg B)
  end.
  2:{ destruct more as [|a1 [|a2 more]]; [exact Hbody|exact Hbody|ws_same HW]. }
  destruct (parse_uint 32 a0) as [size| |]; [|ws_same HW..].
  (* a refused chunk: the reply, then discardChunk (which closes when the chunk is short) *)
  assert (Hrefused : forall code ec msg, triple_ok code ec msg = true ->
    WS cfg (let '(c1, ev1) := discard_chunk cfg (mkC t ph be h se er bm fr rc da cl tl bd rv) size in
            (c1, reply code ec msg :: ev1))).
  { intros code ec msg Ht. rewrite discard_chunk_eq.
    match goal with |- context [discard_short ?c ?s] => destruct (discard_short c s) end;
      cbv beta iota; unfold close_c; cs;
      (split; [cbn [snd]; apply aw_reply; [exact Ht|]; awt
              |first [exact HW|split; [exact (proj1 HW)|split; [exact (proj1 (proj2 HW))|exact I]]]]). }
  destruct (negb fr || match rc with [] => true | _ :: _ => false end).
  { apply Hrefused. vm_compute; reflexivity. }
  match goal with
  | |- WS _ (match ?lo with None => _ | Some _ => _ end) => destruct lo as [last|]
  end.
  2:{ apply Hrefused. vm_compute; reflexivity. }
  clear Hrefused.
  destruct HW as (Hbe & Hrc & Hbd).
  destruct (negb (cf_max_bytes cfg =? 0)%Z && (cf_max_bytes cfg <? rv + Z.of_N size)%Z).
  { rewrite discard_chunk_eq.
    match goal with |- context [discard_short ?c ?s] => destruct (discard_short c s) end;
      cbv beta iota; rewrite do_reset_eq; unfold reset_c, close_c; cs;
      (split; [cbn [snd app]; awt|split; [exact Hbe|split; [constructor|exact I]]]). }
  destruct (negb se && match bd with None => true | Some _ => false end).
  { split; [cbn [snd]; awt|split; [exact Hbe|split; [exact Hrc|exact Hbd]]]. }
  destruct bd_events_no_wire as (W1 & W2 & W3 & W4).
  (* start the delivery if there is none *)
  assert (H0 : exists b0 ev0 be0,
    match bd with
    | Some b => (b, [], mkC t ph be h se er bm fr rc da cl tl bd rv)
    | None =>
        let '(p, c1) := pop_data (mkC t ph be h se er bm fr rc da cl tl bd rv) in
        let status_panic :=
          cf_lmtp cfg && cf_lmtp_session cfg
          && snd (run_statuses (dp_status p) (mk_collector (c_rcpts c1))) in
        let '(b, ev) := bd_new p (c_rcpts c1) status_panic in
        (b, ev, c1)
    end = (b0, ev0, mkC t ph be0 h se er bm fr rc da cl tl bd rv)
    /\ bd_wf b0 /\ no_wire ev0 /\ backend_replies_ok be0 = true).
  { destruct bd as [b|].
    - exists b, [], be. split; [reflexivity|]. split; [exact Hbd|]. split; [reflexivity|exact Hbe].
    - unfold pop_data. cs.
      apply backend_replies_ok_split in Hbe as (B1 & B2 & B3 & B4 & B5).
      destruct (pop_ok plan_wf dp_default (be_data be) eq_refl B4) as [Hp Hrest].
      destruct (pop dp_default (be_data be)) as [p rest]. cs.
      match goal with |- context [bd_new p rc ?sp] =>
        pose proof (bd_new_wf p rc sp Hp Hrc) as N1; pose proof (W4 p rc sp) as N2;
        destruct (bd_new p rc sp) as [b0 ev0] end.
      cbn [fst snd] in *. eexists b0, ev0, _. split; [reflexivity|]. split; [exact N1|]. split; [exact N2|].
      apply backend_replies_ok_intro; assumption. }
  destruct H0 as (b0 & ev0 & be0 & Heq & Hb0 & Hn0 & Hbe0).
  cbv zeta in Heq. rewrite Heq. clear Heq. cs.
  destruct (t_copy_n size (set_limit t 0)) as [[chunk cerr] t1].
  destruct (bd_feed_wf b0 chunk Hb0) as (Hb1 & Hw1).
  pose proof (W3 b0 chunk) as Hn1.
  destruct (bd_feed b0 chunk) as [[b1 ev1] werr]. cbn [fst snd] in *.
  apply (aw_no_wire cfg) in Hn0. apply (aw_no_wire cfg) in Hn1.
  assert (HWfin : forall t' se' cl' fr' rv', WI (mkC t' ph be0 h se' er bm fr' [] da cl' tl None rv')).
  { intros. split; [exact Hbe0|]. split; [constructor|exact I]. }
  destruct werr as [e|]; [|destruct cerr as [te|]].
  1: cbv beta iota zeta.
  2: (cbv beta iota zeta; destruct (t_copy_n (size - blen chunk) t1) as [[dg de] t1d]; cbv beta iota zeta).
  1,2: destruct (last && cf_lmtp cfg).
  - pose proof (Hw1 e eq_refl) as He.
    pose proof (bd_end_wf b1 RDataReset Hb1) as Hb2. pose proof (W2 b1 RDataReset) as Hn2.
    destruct (bd_end b1 RDataReset) as [b2 ev2]. cbn [fst snd] in *. apply (aw_no_wire cfg) in Hn2.
    pose proof (bdat_lmtp_replies_wf cfg b2 e Hb2 He) as Hrs.
    destruct (bdat_lmtp_replies cfg b2 e) as [rs pk]. cbn [fst] in Hrs. cs.
    match goal with |- context [if ?b then do_close _ else _] => destruct b end;
      rewrite ?do_close_eq; cs; rewrite ?do_reset_eq; unfold close_c, reset_c; cs;
      (split; [cbn [snd]; rewrite <- ?app_assoc; awt|split; [exact Hbe0|split; [first [exact Hrc|constructor]|exact I]]]).
  - pose proof (Hw1 e eq_refl) as He.
    destruct (data_error_to_status e) as [[code ec] msg] eqn:Est.
    pose proof (status_triple_wf _ _ _ _ Est He) as Ht. cs.
    match goal with |- context [if ?b then do_close _ else _] => destruct b end;
      rewrite ?do_close_eq; cs; rewrite ?do_reset_eq; unfold close_c, reset_c; cs;
      (split; [cbn [snd app]; apply aw_app; [assumption|]; apply aw_app; [assumption|];
               apply aw_reply; [exact Ht|]; awt|split; [exact Hbe0|split; [first [exact Hrc|constructor]|exact I]]]).
  - pose proof (berr_of_rerr_wf (rerr_of_copy te)) as He.
    pose proof (bd_end_wf b1 (rerr_of_copy te) Hb1) as Hb2. pose proof (W2 b1 (rerr_of_copy te)) as Hn2.
    destruct (bd_end b1 (rerr_of_copy te)) as [b2 ev2]. cbn [fst snd] in *. apply (aw_no_wire cfg) in Hn2.
    pose proof (bdat_lmtp_replies_wf cfg b2 _ Hb2 He) as Hrs.
    destruct (bdat_lmtp_replies cfg b2 (berr_of_rerr (rerr_of_copy te))) as [rs pk]. cbn [fst] in Hrs. cs.
    match goal with |- context [if ?b then do_close _ else _] => destruct b end;
      rewrite ?do_close_eq; cs; rewrite ?do_reset_eq; unfold close_c, reset_c; cs;
      (split; [cbn [snd]; rewrite <- ?app_assoc; awt|split; [exact Hbe0|split; [first [exact Hrc|constructor]|exact I]]]).
  - pose proof (berr_of_rerr_wf (rerr_of_copy te)) as He.
    destruct (data_error_to_status (berr_of_rerr (rerr_of_copy te))) as [[code ec] msg] eqn:Est.
    pose proof (status_triple_wf _ _ _ _ Est He) as Ht. cs.
    match goal with |- context [if ?b then do_close _ else _] => destruct b end;
      rewrite ?do_close_eq; cs; rewrite ?do_reset_eq; unfold close_c, reset_c; cs;
      (split; [cbn [snd app]; apply aw_app; [assumption|]; apply aw_app; [assumption|];
               apply aw_reply; [exact Ht|]; awt|split; [exact Hbe0|split; [first [exact Hrc|constructor]|exact I]]]).
  - destruct (negb last).
    { cs. split; [cbn [snd]; awt|]. split; [exact Hbe0|]. split; [exact Hrc|exact Hb1]. }
    pose proof (bd_end_wf b1 REOF Hb1) as Hb2. pose proof (W2 b1 REOF) as Hn2.
    destruct (bd_end b1 REOF) as [b2 ev2]. cbn [fst snd] in *. apply (aw_no_wire cfg) in Hn2.
    assert (Hret : berr_ok (match bd_done b2 with Some v => v | None => BNil end) = true).
    { destruct (bd_done b2) as [v|] eqn:Ed; [|reflexivity]. destruct Hb2 as (_ & Hd & _). apply Hd. exact Ed. }
    destruct (cf_lmtp cfg).
    + pose proof (bdat_lmtp_replies_wf cfg b2 _ Hb2 Hret) as Hrs.
      match goal with |- context [bdat_lmtp_replies cfg b2 ?e] =>
        destruct (bdat_lmtp_replies cfg b2 e) as [rs pk] end.
      cbn [fst] in Hrs.
      destruct pk; rewrite ?do_close_eq; cs; rewrite ?do_reset_eq; unfold close_c, reset_c; cs;
        (split; [cbn [snd]; rewrite <- ?app_assoc; awt|split; [exact Hbe0|split; [first [exact Hrc|constructor]|exact I]]]).
    + match goal with |- context [data_error_to_status ?e] =>
        destruct (data_error_to_status e) as [[code ec] msg] eqn:Est end.
      pose proof (status_triple_wf _ _ _ _ Est Hret) as Ht.
      destruct (bd_panics b2); rewrite ?do_close_eq; cs; rewrite ?do_reset_eq; unfold close_c, reset_c; cs;
        (split; [cbn [snd app]; apply aw_app; [assumption|]; apply aw_app; [assumption|]; apply aw_app; [assumption|];
                 apply aw_reply; [exact Ht|]; awt|split; [exact Hbe0|split; [first [exact Hrc|constructor]|exact I]]]).
Qed.

(* ---------- dispatch ---------- *)

Lemma handle_ws cfg c cmd arg :
  cfg_texts_ok cfg = true -> WI c -> echo_cmd_ok cmd arg = true -> WS cfg (handle cfg c cmd arg).
Proof.
  intros Hcfg HW Hecho. unfold handle.
  destruct cmd as [|c0 cmd]; [apply protocol_error_ws; [reflexivity|exact HW]|].
  unfold echo_cmd_ok in Hecho. cbv zeta in Hecho.
  set (CMD := to_upper (c0 :: cmd)) in *. clearbody CMD.
  apply andb_true_iff in Hecho as [Hecho E_rcpt]. apply andb_true_iff in Hecho as [Hecho E_mail].
  apply andb_true_iff in Hecho as [E_pr E_hello].
  assert (Hone : forall code ec msg, triple_ok code ec msg = true -> WS cfg (c, [reply code ec msg])).
  { intros code ec msg Ht. split; [cbn [snd]; apply aw_reply; [exact Ht|constructor]|exact HW]. }
  destruct (cmd_is CMD "SEND" || cmd_is CMD "SOML" || cmd_is CMD "SAML" || cmd_is CMD "EXPN"
            || cmd_is CMD "HELP" || cmd_is CMD "TURN").
  { apply Hone. unfold triple_ok. rewrite pr_app, E_pr. reflexivity. }
  destruct (cmd_is CMD "HELO" || cmd_is CMD "EHLO" || cmd_is CMD "LHLO").
  { destruct (cf_lmtp cfg && negb (cmd_is CMD "LHLO")); [apply Hone; reflexivity|].
    destruct (negb (cf_lmtp cfg) && cmd_is CMD "LHLO"); [apply Hone; reflexivity|].
    apply handle_greet_ws; [exact Hcfg|exact HW|]. intros d Hd. rewrite Hd in E_hello. exact E_hello. }
  destruct (cmd_is CMD "MAIL").
  { apply handle_mail_ws; [exact HW|]. intros a from rest Ha Hp. rewrite Ha, Hp in E_mail. exact E_mail. }
  destruct (cmd_is CMD "RCPT").
  { apply handle_rcpt_ws; [exact HW|]. intros a rcpt rest Ha Hp. rewrite Ha, Hp in E_rcpt. exact E_rcpt. }
  destruct (cmd_is CMD "VRFY"); [apply Hone; reflexivity|].
  destruct (cmd_is CMD "NOOP"); [apply Hone; reflexivity|].
  destruct (cmd_is CMD "RSET").
  { rewrite do_reset_eq. destruct HW as (H1 & H2 & H3).
    split; [cbn [snd]; apply aw_app; [apply aw_nw, reset_ev_nw|awt]|].
    unfold reset_c. split; [exact H1|]. split; [constructor|exact I]. }
  destruct (cmd_is CMD "BDAT"); [apply handle_bdat_ws; exact HW|].
  destruct (cmd_is CMD "DATA"); [apply handle_data_ws; exact HW|].
  destruct (cmd_is CMD "QUIT").
  { rewrite do_close_eq. destruct HW as (H1 & H2 & H3).
    split; [cbn [snd]; awt|]. unfold close_c. split; [exact H1|]. split; [exact H2|exact I]. }
  destruct (cmd_is CMD "AUTH"); [apply handle_auth_ws; exact HW|].
  destruct (cmd_is CMD "STARTTLS"); [apply handle_starttls_ws; exact HW|].
  apply protocol_error_ws; [|exact HW]. unfold triple_ok. rewrite !pr_app, E_pr. reflexivity.
Qed.

(* ================= the trace of a connection ================= *)

Lemma final_close_aw cfg c : aw cfg (final_close c).
Proof. unfold final_close. rewrite do_close_eq. apply aw_nw, close_ev_nw. Qed.

Lemma serve_loop_aw cfg fuel : forall c,
  cfg_texts_ok cfg = true -> WI c ->
  (forall line, In (ECmd line) (serve_loop fuel cfg c) -> echo_ok line = true) ->
  aw cfg (serve_loop fuel cfg c).
Proof.
  induction fuel as [|f IH]; intros c Hcfg HW Hecho; cbn [serve_loop] in *; [repeat constructor|].
  destruct (c_closed c); [apply final_close_aw|].
  pose proof (conn_read_line_c c) as Hc1.
  destruct (conn_read_line c) as [[line|e] c1]; cbn [snd] in Hc1.
  - assert (HW1 : WI c1) by (rewrite Hc1; apply WI_upd_t; exact HW).
    pose proof (Hecho line (or_introl eq_refl)) as Hl. unfold echo_ok in Hl.
    apply aw_skip; [reflexivity|].
    assert (Hstep : forall r : hres, WS cfg r ->
              (forall l, In (ECmd l) (snd r ++ serve_loop f cfg (fst r)) -> echo_ok l = true) ->
              aw cfg (snd r ++ serve_loop f cfg (fst r))).
    { intros [c2 ev] [Hev HW2] Hin. cbn [fst snd] in *. apply aw_app; [exact Hev|].
      apply IH; [exact Hcfg|exact HW2|]. intros l Hl'. apply Hin. apply in_or_app. right. exact Hl'. }
    destruct (parse_cmd line) as [[cmd arg]|].
    + pose proof (Hstep _ (handle_ws cfg c1 cmd arg Hcfg HW1 Hl)) as H.
      destruct (handle cfg c1 cmd arg) as [c2 ev]. apply H. intros l Hin. apply Hecho. right. exact Hin.
    + pose proof (Hstep _ (protocol_error_ws cfg c1 501 (5, 5, 2)%Z (bs "Bad command") eq_refl HW1)) as H.
      destruct (protocol_error c1 501 (5, 5, 2)%Z (bs "Bad command")) as [c2 ev]. apply H.
      intros l Hin. apply Hecho. right. exact Hin.
  - destruct e; try (apply aw_reply; [reflexivity|]); apply final_close_aw.
Qed.

Lemma init_conn_WI cfg be phases : backend_replies_ok be = true -> WI (init_conn cfg be phases).
Proof.
  intros H. unfold init_conn. destruct phases as [|p r]; (split; [exact H|split; [constructor|exact I]]).
Qed.

(* C04 (3), under the hypotheses on the backend's replies, the server's own
   texts and the echoed client octets: every reply on the wire is one
   syntactically valid RFC 5321 reply, and - unless it is the greeting, an
   EHLO reply or a 3xx reply - every line of it starts with an enhanced status
   code of the class of the reply code. *)
Theorem serve_wf_partial fuel cfg be phases :
  backend_replies_ok be = true -> cfg_texts_ok cfg = true ->
  (forall line, In (ECmd line) (serve fuel cfg be phases) -> echo_ok line = true) ->
  forall b, In (EWire b) (serve fuel cfg be phases) ->
    reply_wf b = true /\ (reply_ec_class_ok b = true \/ exempt cfg b).
Proof.
  intros Hbe Hcfg Hecho b Hin.
  assert (H : aw cfg (serve fuel cfg be phases)).
  { unfold serve. constructor; [exact (good_greeting cfg Hcfg)|].
    apply serve_loop_aw; [exact Hcfg|apply init_conn_WI, Hbe|].
    intros line Hl. apply Hecho. right. exact Hl. }
  unfold aw in H. rewrite Forall_forall in H. exact (H _ Hin).
Qed.

(* the exempt replies still pass the strict recogniser; they are exactly the
   replies written without an enhanced code *)
Lemma exempt_no_class cfg b :
  exempt cfg b -> exists code texts, b = write_response code no_ec texts
                                     /\ (code = 220 \/ code = 250 \/ 300 <= code <= 399)%Z.
Proof.
  intros [H|[(d & caps & ->)|(code & texts & Hc & ->)]].
  - unfold greeting in H. inversion H. eexists 220%Z, _. split; [reflexivity|lia].
  - eexists 250%Z, _. split; [reflexivity|lia].
  - exists code, texts. split; [reflexivity|lia].
Qed.

(* ================= F22: without the echo hypothesis the claim is false ================= *)

Module C04Refuted.
Import C04Example.
Local Open Scope string_scope.
Local Open Scope list_scope.

Definition rstream : bytes := bs "EHLO a" ++ [CR] ++ bs "b" ++ crlf.

(* "EHLO a<CR>b": the domain is echoed with its bare CR, the reply is not a
   sequence of CRLF-terminated lines of printable text *)
Theorem serve_wf_refuted :
  exists fuel cfg be phases b,
    backend_replies_ok be = true /\ cfg_texts_ok cfg = true
    /\ In (EWire b) (serve fuel cfg be phases) /\ reply_wf b = false.
Proof.
  exists 5%nat, cfg, (mkBE [] [] [] [] []), [[raw_of rstream]].
  exists (write_response 250 no_ec ((bs "Hello a" ++ [CR] ++ bs "b") :: caps cfg (init_conn cfg (mkBE [] [] [] [] []) []))).
  split; [reflexivity|]. split; [reflexivity|]. split; [|vm_compute; reflexivity].
  assert (H : nth 3 (serve 5 cfg (mkBE [] [] [] [] []) [[raw_of rstream]]) EClose
              = EWire (write_response 250 no_ec ((bs "Hello a" ++ [CR] ++ bs "b")
                         :: caps cfg (init_conn cfg (mkBE [] [] [] [] []) [])))) by (vm_compute; reflexivity).
  rewrite <- H. apply nth_In. vm_compute. lia.
Qed.

(* the echo hypothesis is what fails on that input, and it holds on the
   conversation of ReplyGroups.C04Example *)
Example echo_fails : echo_ok (bs "EHLO a" ++ [CR] ++ bs "b") = false.
Proof. vm_compute. reflexivity. Qed.

Example wf_hypotheses :
  backend_replies_ok be = true /\ cfg_texts_ok cfg = true
  /\ forallb (fun e => match e with ECmd l => echo_ok l | _ => true end) (serve 40 cfg be [[raw_of stream]]) = true
  /\ forallb (fun e => match e with EWire b => reply_wf b | _ => true end) (serve 40 cfg be [[raw_of stream]]) = true.
Proof. vm_compute. repeat split; reflexivity. Qed.

End C04Refuted.
