package harness

import (
	"io"
	"math/rand"
	"net"
	"strings"
)

// A backend that goes on reading after a failed Read.
//
// Session.Data gets an io.Reader; a Read of it may hand out octets TOGETHER with a transport error
// (the client stalled while a read deadline was in force: bufio hands out what it has, then the
// time-out).  A backend with its own patience policy extends the deadline and reads on.  The
// recording backend (DataPlan.Retry) and the isolated reader runs (DrCase.Retry) do that for up to
// Retry failed reads; octets that came with a failed read count as obtained.  Model:
// ReadRetry.be_read_retry; used for C06 (seeded change C06G: octets handed out by a failing Read were
// not charged against MaxMessageBytes).

type retryReader struct {
	r    io.Reader
	left int
}

func retryable(err error) bool {
	switch ErrKind(err) {
	case "timeout", "err":
		return true
	}
	if ne, ok := err.(net.Error); ok && ne.Timeout() {
		return true
	}
	return false
}

// Read swallows up to 'left' transport errors: the octets that came with the failed read are
// returned, the caller's reading loop goes on with its next Read.
func (q *retryReader) Read(b []byte) (int, error) {
	n, err := q.r.Read(b)
	if err != nil && q.left > 0 && retryable(err) {
		q.left--
		return n, nil
	}
	return n, err
}

func withRetry(r io.Reader, k int) io.Reader {
	if k <= 0 {
		return r
	}
	return &retryReader{r: r, left: k}
}

func retrySx(k int, s *Sx) *Sx {
	if k > 0 {
		s.Add(L(A("retry"), Num(int64(k))))
	}
	return s
}

// sxFull: the plan with its optional fields (absent when unused, so that older case lines stay valid)
func (p DataPlan) sxFull() *Sx { return retrySx(p.Retry, p.Sx()) }

// genC06Retry (called at the end of GenC06): a size limit N, a DATA message delivered in raw reads of k
// octets each followed by a read failure (time-out / connection error), a backend that reads with
// buffers larger than, equal to and smaller than k and goes on after the failures.
//
//	head:    the stalls lie within the first N octets of a message of 2N..3N octets: the backend gets
//	         exactly N octets and ErrDataTooLarge, 552, the rest is drained, the next command runs;
//	trickle: the whole message arrives that way: N octets, ErrDataTooLarge, 552, and the server's own
//	         drain meets the next stall: the connection is closed;
//	within:  a message of N-1 / N octets with stalls is accepted completely;
//	giveup:  the backend tolerates one failure less than there are (only the size oracle judges).
//
// The server model's backend stops at the first failed read, so these cases carry (nomodel): they are
// judged by the oracles on the recorded behaviour (size oracle: no reader hands over more than N octets,
// octets of failed reads included; reply codes; forbid-eof).  The reader itself IS modelled with
// continued reading: see genDrRetry.
func genC06Retry(rng *rand.Rand, thorough bool, emit func(*Sx)) {
	limits := []int{5, 10, 12, 50}
	if thorough {
		limits = []int{3, 4, 5, 6, 7, 8, 9, 10, 11, 12, 50}
	}
	n := 0
	for _, N := range limits {
		var ks []int
		for _, k := range []int{1, 2, 3, N / 2, N - 1} {
			dup := k < 1
			for _, x := range ks {
				dup = dup || x == k
			}
			if !dup {
				ks = append(ks, k)
			}
		}
		for _, lmtp := range []bool{false, true} {
			for _, variant := range []string{"head", "trickle", "within", "giveup"} {
				for _, k := range ks {
					for _, rs := range [][]int{{4096}, {k + 1}, {k + 3, 1}, {k}, {1}} {
						n++
						s := 2*N + n%(N+1)
						if variant == "within" {
							s = N - n%2
							if s < 2 {
								s = 2
							}
						}
						cfg := DefaultCfg()
						cfg.MaxBytes = int64(N)
						cfg.LMTP = lmtp
						f := newF(cfg)
						f.hello()
						f.cmd("MAIL FROM:<s@ok>", 250)
						f.cmd("RCPT TO:<r@ok>", 250)
						f.cmd("DATA", 354)
						start := len(f.out)
						body := strings.Repeat("m", s-2) + "\r\n"
						f.raw(body)
						f.raw(".\r\n")
						// number of stalls
						fails := N / k
						switch variant {
						case "trickle":
							fails = s / k
						case "within":
							fails = (s - 1) / k
						}
						if fails < 1 {
							fails = 1
						}
						p := DefaultPlan()
						p.Sizes = rs
						p.Retry = fails + n%2
						if variant == "giveup" {
							p.Retry = fails - 1
						}
						f.script.Data = []DataPlan{p}
						switch variant {
						case "head":
							f.expect(552)
							f.add(L(A("expect-data"), XS(body[:N]), A("toolarge")))
							f.add(L(A("forbid-eof")))
							f.cmd("MAIL FROM:<after@ok>", 250)
							f.cmd("QUIT", 221)
							f.add(L(A("must-mail"), XS("after@ok")))
						case "trickle":
							f.expect(552)
							f.add(L(A("expect-data"), XS(body[:N]), A("toolarge")))
							f.add(L(A("forbid-eof")))
							f.raw("MAIL FROM:<after@ok>\r\nQUIT\r\n")
							f.add(L(A("must-not-mail"), XS("after@ok")))
						case "within":
							f.expect(250)
							f.add(L(A("expect-data"), XS(body), A("eof")))
							f.cmd("MAIL FROM:<after@ok>", 250)
							f.cmd("QUIT", 221)
							f.add(L(A("must-mail"), XS("after@ok")))
						default:
							f.unknown()
							f.add(L(A("forbid-eof")))
							f.raw("MAIL FROM:<after@ok>\r\nQUIT\r\n")
						}
						f.add(L(A("nomodel")))
						raws := []Raw{{Kind: RawData, Data: append([]byte(nil), f.out[:start]...)}}
						pos := start
						for i := 0; i < fails && pos+k <= start+len(body); i++ {
							raws = append(raws, Raw{Kind: RawData, Data: append([]byte(nil), f.out[pos:pos+k]...)})
							kind := RawTimeout
							if n%3 == 0 && i%2 == 1 {
								kind = RawErr
							}
							raws = append(raws, Raw{Kind: kind})
							pos += k
						}
						raws = append(raws, Raw{Kind: RawData, Data: append([]byte(nil), f.out[pos:]...)}, rawEOF)
						emit(RunConv(f.caseOf("C06", raws)))
					}
				}
			}
		}
	}
}

// genDrRetry (called at the end of GenDr): the DATA reader in isolation, a limit N, bodies of N-1 .. 3N
// octets (plain, with CRLFs, dot-stuffed lines), read failures between the raw reads of the first N
// octets of the message (beyond the limit the backend has stopped and the reader's drain would meet them),
// a backend that goes on reading after every one of them, with buffers below and above the segment size.
// Compared with the model (ReadRetry.be_read_retry over DataReader.dr_read) and judged by the C06 oracle
// of CheckDr.v: at most N octets, the first N of the message, then ErrDataTooLarge.
func genDrRetry(rng *rand.Rand, thorough bool, emit func(*Sx)) {
	sizesPool := [][]int{{1}, {2}, {3}, {7}, {4096}, {1, 2, 5}, {3, 1}}
	maxN := 8
	if thorough {
		maxN = 14
	}
	for N := 1; N <= maxN; N++ {
		for _, bl := range []int{N - 1, N, N + 1, 2 * N, 3*N + 1} {
			if bl < 0 {
				continue
			}
			for variant := 0; variant < 3; variant++ {
				body := make([]byte, 0, bl)
				for len(body) < bl {
					switch {
					case variant == 1 && bl-len(body) >= 2 && len(body)%5 == 3:
						body = append(body, '\r', '\n')
					case variant == 2 && bl-len(body) >= 3 && len(body)%4 == 0:
						body = append(body, '.', '\r', '\n')
					default:
						body = append(body, 'a'+byte(len(body)%26))
					}
				}
				wire := stuff(body)
				wire = append(wire, "\r\n.\r\nNEXT\r\n"...)
				// the failures lie in front of wire[j], 1 <= j < min(N, bl): within the part the backend reads
				lim := N
				if bl < lim {
					lim = bl
				}
				for _, sizes := range sizesPool {
					for rep := 0; rep < 2; rep++ {
						var raws []Raw
						fails := 0
						prev := 0
						for j := 1; j < lim; j++ {
							if rng.Intn(2) == 0 || (rep == 1) {
								raws = append(raws, Raw{Kind: RawData, Data: wire[prev:j]})
								kind := RawTimeout
								if rng.Intn(3) == 0 {
									kind = RawErr
								}
								raws = append(raws, Raw{Kind: kind})
								// now and then two failures in a row
								if rng.Intn(5) == 0 {
									raws = append(raws, Raw{Kind: RawTimeout})
									fails++
								}
								fails++
								prev = j
							}
						}
						raws = append(raws, RandSegment(rng, wire[prev:])...)
						raws = append(raws, Raw{Kind: RawEOF})
						if fails == 0 {
							continue
						}
						emit(RunDr(DrCase{Max: int64(N), Raws: raws, Sizes: sizes, Stop: -1, Retry: fails + rng.Intn(2)}))
					}
				}
			}
		}
	}
}
