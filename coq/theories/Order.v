(* Specification: a monitor automaton over the observable events of one
   connection.  It accepts exactly the traces in which
   - backend callbacks follow RFC 5321 transaction order (C03),
   - every session gets one Logout, after which nothing is called on it, and
     nothing at all happens once the connection has been closed (C08),
   - the SASL machinery is reached only on TLS or with AllowInsecureAuth, and
     at most one AUTH succeeds per session (C09, server half),
   - no panic is recovered unless a backend callback panicked (C19).
   The monitor knows nothing about the server's state: it only looks at the
   events. *)
From Smtp Require Import Bytes Reply Conn.

Record mon := mkM {
  m_closed : bool;      (* the server closed the connection *)
  m_session : bool;     (* a backend session is live *)
  m_tls : bool;
  m_from : bool;        (* a MAIL has been accepted in the current transaction *)
  m_nrcpt : nat;        (* recipients accepted in the current transaction *)
  m_transfer : bool;    (* a chunked transfer is open *)
  m_running : bool;     (* ... and its Data call has not returned yet *)
  m_must_reset : bool;  (* the transaction has ended: Reset (or Logout) must come before the next command *)
  m_panic_ok : bool;    (* a backend callback has just panicked *)
  m_authed : bool       (* an AUTH exchange has succeeded in this session *)
}.

Definition mon_init (tls : bool) : mon :=
  mkM false false tls false 0 false false false false false.

Definition berr_is_nil (e : berr) : bool := match e with BNil => true | _ => false end.

Definition set_closed_m (m : mon) : mon :=
  mkM true (m_session m) (m_tls m) (m_from m) (m_nrcpt m) (m_transfer m) (m_running m)
      (m_must_reset m) (m_panic_ok m) (m_authed m).

(* end of the transaction *)
Definition clear_tx (m : mon) (session : bool) : mon :=
  mkM (m_closed m) session (m_tls m) false 0 false (m_running m) false (m_panic_ok m) (m_authed m && session).

Definition guard (b : bool) (m : mon) : option mon := if b then Some m else None.

Definition mon_step (cfg : config) (m : mon) (e : event) : option mon :=
  match e with
  | EOutOfFuel => Some m
  | EWire b =>
      guard (negb (m_closed m))
        m
  | ECmd _ =>
      guard (negb (m_closed m) && negb (m_must_reset m))
        (mkM (m_closed m) (m_session m) (m_tls m) (m_from m) (m_nrcpt m) (m_transfer m) (m_running m)
             false false (m_authed m))
  | ENewSession _ t r =>
      guard (negb (m_closed m) && negb (m_session m) && Bool.eqb t (m_tls m))
        (mkM (m_closed m) (berr_is_nil r) (m_tls m) (m_from m) (m_nrcpt m) (m_transfer m) (m_running m)
             (m_must_reset m) (m_panic_ok m) false)
  | EMail _ _ r =>
      guard (negb (m_closed m) && m_session m && negb (m_transfer m))
        (mkM (m_closed m) (m_session m) (m_tls m) (m_from m || berr_is_nil r) (m_nrcpt m) (m_transfer m)
             (m_running m) (m_must_reset m) (m_panic_ok m) (m_authed m))
  | ERcpt _ _ r =>
      guard (negb (m_closed m) && m_session m && m_from m && negb (m_transfer m)
             && ((cf_max_rcpt cfg =? 0)%N || (N.of_nat (m_nrcpt m) <? cf_max_rcpt cfg)%N))
        (mkM (m_closed m) (m_session m) (m_tls m) (m_from m)
             (if berr_is_nil r then S (m_nrcpt m) else m_nrcpt m) (m_transfer m)
             (m_running m) (m_must_reset m) (m_panic_ok m) (m_authed m))
  | EData _ _ _ p =>
      guard (negb (m_closed m) && m_session m && m_from m && (0 <? m_nrcpt m)%nat && negb (m_transfer m))
        (mkM (m_closed m) (m_session m) (m_tls m) (m_from m) (m_nrcpt m) (m_transfer m) (m_running m)
             true p (m_authed m))
  | EBdatStart =>
      guard (negb (m_closed m) && m_session m && m_from m && (0 <? m_nrcpt m)%nat && negb (m_transfer m)
             && negb (m_running m))
        (mkM (m_closed m) (m_session m) (m_tls m) (m_from m) (m_nrcpt m) true true
             (m_must_reset m) (m_panic_ok m) (m_authed m))
  | EDelivery _ _ _ p =>
      guard (m_running m)
        (mkM (m_closed m) (m_session m) (m_tls m) (m_from m) (m_nrcpt m) (m_transfer m) false
             (m_must_reset m) (m_panic_ok m || p) (m_authed m))
  | EReset =>
      guard (negb (m_closed m) && m_session m && negb (m_running m)) (clear_tx m true)
  | ELogout =>
      (* a Data call of a chunked transfer may still be in progress (STARTTLS):
         it was begun before, which the property allows *)
      guard (negb (m_closed m) && m_session m) (clear_tx m false)
  | EAuthOk =>
      guard (negb (m_closed m) && m_session m)
        (mkM (m_closed m) (m_session m) (m_tls m) (m_from m) (m_nrcpt m) (m_transfer m) (m_running m)
             (m_must_reset m) (m_panic_ok m) true)
  | EClose =>
      guard (negb (m_session m) && negb (m_running m)) (set_closed_m (clear_tx m false))
  | EPanic => guard (m_panic_ok m) m
  | EAuth _ _ =>
      guard (negb (m_closed m) && m_session m && negb (m_authed m) && (m_tls m || cf_insecure_auth cfg)) m
  | EAuthNext _ _ _ _ =>
      guard (negb (m_closed m) && m_session m && negb (m_authed m) && (m_tls m || cf_insecure_auth cfg)) m
  | ETlsStart ok =>
      guard (negb (m_closed m) && negb (m_tls m) && cf_tls_config cfg)
        (if ok then
           (* everything learned in plaintext must be dropped before the next command *)
           mkM (m_closed m) (m_session m) true (m_from m) (m_nrcpt m) (m_transfer m) (m_running m)
               (m_session m || m_from m || m_transfer m) (m_panic_ok m) (m_authed m)
         else m)
  end.

Fixpoint mon_run (cfg : config) (m : mon) (evs : list event) : option mon :=
  match evs with
  | [] => Some m
  | e :: r => match mon_step cfg m e with Some m' => mon_run cfg m' r | None => None end
  end.

Lemma mon_run_app cfg m a b :
  mon_run cfg m (a ++ b) = match mon_run cfg m a with Some m' => mon_run cfg m' b | None => None end.
Proof.
  revert m; induction a as [|e a IH]; intros m; cbn; [reflexivity|].
  destruct (mon_step cfg m e); [apply IH|reflexivity].
Qed.
