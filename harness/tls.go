package harness

import (
	"sync/atomic"
	"bytes"
	"crypto/ecdsa"
	"crypto/elliptic"
	"crypto/rand"
	"crypto/tls"
	"crypto/x509"
	"crypto/x509/pkix"
	"io"
	"math/big"
	"net"
	"sync"
	"time"

	smtp "github.com/emersion/go-smtp"
)

// Real TLS for the conversation harness.
//
// PhasedConn is the server's net.Conn. In its plaintext phase it behaves like
// ScriptConn (scripted raw read results, writes recorded). When the plaintext
// script is exhausted right after the server has answered STARTTLS with 220 -
// i.e. exactly when crypto/tls starts reading the ClientHello - and a TLS
// phase is scripted, a real TLS client (crypto/tls) is attached: it performs
// the handshake and then sends the octets of the TLS phase, one tls.Conn.Write
// (= one TLS record = one raw read result of the server's tls.Conn) per
// scripted chunk. What the server writes inside TLS is decrypted by that client
// and recorded as wire output; the server's Write returns only after the
// client has consumed it, so the recorded order of wire output and backend
// callbacks is the real one.

var (
	certOnce   sync.Once
	serverCert tls.Certificate
)

func testCert() tls.Certificate {
	certOnce.Do(func() {
		key, err := ecdsa.GenerateKey(elliptic.P256(), rand.Reader)
		if err != nil {
			panic(err)
		}
		tmpl := &x509.Certificate{
			SerialNumber: big.NewInt(1),
			Subject:      pkix.Name{CommonName: "verif"},
			NotBefore:    time.Now().Add(-time.Hour),
			NotAfter:     time.Now().Add(24 * time.Hour),
			DNSNames:     []string{"verif"},
			KeyUsage:     x509.KeyUsageDigitalSignature,
			ExtKeyUsage:  []x509.ExtKeyUsage{x509.ExtKeyUsageServerAuth},
		}
		der, err := x509.CreateCertificate(rand.Reader, tmpl, tmpl, &key.PublicKey, key)
		if err != nil {
			panic(err)
		}
		serverCert = tls.Certificate{Certificate: [][]byte{der}, PrivateKey: key}
	})
	return serverCert
}

// the three legal ways for a server-side tls.Config to supply its certificate, in rotation (the behaviour of
// the server under test must not depend on the shape of the configuration)
var tlsConfigCounter int32

func serverTLSConfig() *tls.Config {
	cert := testCert()
	switch atomic.AddInt32(&tlsConfigCounter, 1) % 3 {
	case 1:
		return &tls.Config{GetCertificate: func(*tls.ClientHelloInfo) (*tls.Certificate, error) { return &cert, nil }}
	case 2:
		return &tls.Config{GetConfigForClient: func(*tls.ClientHelloInfo) (*tls.Config, error) {
			return &tls.Config{Certificates: []tls.Certificate{cert}}, nil
		}}
	}
	return &tls.Config{Certificates: []tls.Certificate{cert}}
}

type PhasedConn struct {
	mu   sync.Mutex
	cond *sync.Cond

	script   []Raw // plaintext phase
	Log      []Raw // what the plaintext Reads returned
	tlsPhase []Raw // to be sent inside TLS (nil: no TLS phase scripted)
	haveTLS  bool
	TLSLog   []Raw // what the TLS client sent, one entry per record

	mode      int // 0 plaintext, 1 TLS
	lastPlain []byte
	readSince bool // plaintext octets were handed out since the last plaintext write
	c2s, s2c  bytes.Buffer
	c2sClosed bool
	idle      bool // the TLS client is blocked waiting for server output
	clientEnd bool // the TLS client has stopped reading
	closed    bool

	OnRead func()
	OnWire func([]byte)

	// RemoteServer: the code under test is the CLIENT; the remote end is a real TLS server that
	// is attached when the local side starts a handshake (writes a TLS record in plaintext mode)
	RemoteServer bool
}

func NewPhasedConn(plain []Raw, tlsPhase []Raw, haveTLS bool, startInTLS bool) *PhasedConn {
	c := &PhasedConn{tlsPhase: tlsPhase, haveTLS: haveTLS}
	c.cond = sync.NewCond(&c.mu)
	for _, r := range plain {
		if r.Kind == RawData && len(r.Data) == 0 {
			continue
		}
		c.script = append(c.script, r)
	}
	if startInTLS {
		c.mode = 1
		go c.runClient()
	}
	return c
}

var startTLSReply = []byte("220 2.0.0 Ready to start TLS\r\n")

func (c *PhasedConn) Read(b []byte) (int, error) {
	if c.OnRead != nil {
		c.OnRead()
	}
	c.mu.Lock()
	defer c.mu.Unlock()
	if c.closed {
		return 0, net.ErrClosed
	}
	if len(b) == 0 {
		return 0, nil
	}
	if c.mode == 0 {
		if len(c.script) == 0 {
			// the peer starts its handshake only as the very next thing after the 220: if the server has
			// read plaintext octets since (a handshake attempt fed with left-over plaintext), nothing more comes
			if c.haveTLS && bytes.HasSuffix(c.lastPlain, startTLSReply) && !c.readSince {
				c.mode = 1
				go c.runClient()
			} else {
				return 0, io.EOF
			}
		} else {
			r := c.script[0]
			switch r.Kind {
			case RawData:
				n := copy(b, r.Data)
				c.readSince = true
				c.Log = append(c.Log, Raw{Kind: RawData, Data: append([]byte(nil), r.Data[:n]...)})
				if n == len(r.Data) {
					c.script = c.script[1:]
				} else {
					c.script[0].Data = r.Data[n:]
				}
				return n, nil
			case RawEOF:
				c.script = c.script[1:]
				c.Log = append(c.Log, Raw{Kind: RawEOF})
				return 0, io.EOF
			case RawTimeout:
				c.script = c.script[1:]
				c.Log = append(c.Log, Raw{Kind: RawTimeout})
				return 0, ErrScriptTimeout
			default:
				c.script = c.script[1:]
				c.Log = append(c.Log, Raw{Kind: RawErr})
				return 0, ErrScriptNet
			}
		}
	}
	for c.c2s.Len() == 0 && !c.c2sClosed && !c.closed {
		c.cond.Wait()
	}
	if c.closed {
		return 0, net.ErrClosed
	}
	if c.c2s.Len() > 0 {
		return c.c2s.Read(b)
	}
	return 0, io.EOF
}

func looksLikeTLSRecord(b []byte) bool {
	return len(b) >= 3 && b[0] >= 0x14 && b[0] <= 0x17 && b[1] == 3
}

func (c *PhasedConn) Write(b []byte) (int, error) {
	c.mu.Lock()
	if c.closed {
		c.mu.Unlock()
		return 0, net.ErrClosed
	}
	if c.mode == 0 && c.RemoteServer && c.haveTLS && looksLikeTLSRecord(b) {
		// the client under test starts its handshake: attach the TLS server
		c.mode = 1
		go c.runClient()
	}
	if c.mode == 0 {
		if looksLikeTLSRecord(b) {
			// the alert of a failed handshake: TLS-layer output, not a reply
			c.mu.Unlock()
			return len(b), nil
		}
		c.lastPlain = append(c.lastPlain[:0], b...)
		c.readSince = false
		c.mu.Unlock()
		if c.OnWire != nil {
			c.OnWire(b)
		}
		return len(b), nil
	}
	c.s2c.Write(b)
	c.cond.Broadcast()
	for !(c.s2c.Len() == 0 && c.idle) && !c.clientEnd && !c.closed {
		c.cond.Wait()
	}
	c.mu.Unlock()
	return len(b), nil
}

func (c *PhasedConn) Close() error {
	c.mu.Lock()
	c.closed = true
	c.cond.Broadcast()
	c.mu.Unlock()
	return nil
}

func (c *PhasedConn) Remaining() []Raw {
	c.mu.Lock()
	defer c.mu.Unlock()
	return append([]Raw(nil), c.script...)
}

func (c *PhasedConn) LocalAddr() net.Addr                { return fakeAddr{} }
func (c *PhasedConn) RemoteAddr() net.Addr               { return fakeAddr{} }
func (c *PhasedConn) SetDeadline(t time.Time) error      { return nil }
func (c *PhasedConn) SetReadDeadline(t time.Time) error  { return nil }
func (c *PhasedConn) SetWriteDeadline(t time.Time) error { return nil }

// clientSide is the TLS client's view of the connection.
type clientSide struct{ c *PhasedConn }

func (s clientSide) Read(b []byte) (int, error) {
	c := s.c
	c.mu.Lock()
	defer c.mu.Unlock()
	for c.s2c.Len() == 0 && !c.closed {
		c.idle = true
		c.cond.Broadcast()
		c.cond.Wait()
	}
	c.idle = false
	if c.s2c.Len() > 0 {
		n, _ := c.s2c.Read(b)
		return n, nil
	}
	return 0, io.EOF
}

func (s clientSide) Write(b []byte) (int, error) {
	c := s.c
	c.mu.Lock()
	c.c2s.Write(b)
	c.cond.Broadcast()
	c.mu.Unlock()
	return len(b), nil
}

func (s clientSide) Close() error {
	c := s.c
	c.mu.Lock()
	c.c2sClosed = true
	c.cond.Broadcast()
	c.mu.Unlock()
	return nil
}
func (s clientSide) LocalAddr() net.Addr                { return fakeAddr{} }
func (s clientSide) RemoteAddr() net.Addr               { return fakeAddr{} }
func (s clientSide) SetDeadline(t time.Time) error      { return nil }
func (s clientSide) SetReadDeadline(t time.Time) error  { return nil }
func (s clientSide) SetWriteDeadline(t time.Time) error { return nil }

func (c *PhasedConn) runClient() {
	defer func() {
		c.mu.Lock()
		c.clientEnd = true
		c.c2sClosed = true
		c.cond.Broadcast()
		c.mu.Unlock()
	}()
	var tc *tls.Conn
	if c.RemoteServer {
		cfg := serverTLSConfig()
		cfg.DynamicRecordSizingDisabled = true
		tc = tls.Server(clientSide{c}, cfg)
	} else {
		tc = tls.Client(clientSide{c}, &tls.Config{InsecureSkipVerify: true, DynamicRecordSizingDisabled: true})
	}
	if err := tc.Handshake(); err != nil {
		return
	}
	go func() {
		for _, r := range c.tlsPhase {
			if r.Kind != RawData {
				break
			}
			if len(r.Data) == 0 {
				continue
			}
			c.mu.Lock()
			c.TLSLog = append(c.TLSLog, Raw{Kind: RawData, Data: append([]byte(nil), r.Data...)})
			c.mu.Unlock()
			if _, err := tc.Write(r.Data); err != nil {
				return
			}
		}
		tc.CloseWrite()
	}()
	buf := make([]byte, 32768)
	for {
		n, err := tc.Read(buf)
		if n > 0 && c.OnWire != nil {
			c.OnWire(buf[:n])
		}
		if err != nil {
			return
		}
	}
}

// runTLSConvImpl: conversations with TLS available (STARTTLS) or implicit TLS.
func runTLSConvImpl(s *smtp.Server, be *RecBackend, c ConvCase) ([][]Raw, bool) {
	if c.Cfg.TLSConfig {
		s.TLSConfig = serverTLSConfig()
	}
	var pc *PhasedConn
	var conn net.Conn
	var lst *oneListener
	if c.Cfg.ImplicitTLS {
		pc = NewPhasedConn(nil, c.Phases[0], true, true)
		cn := newNotify(pc)
		conn = tls.Server(cn, serverTLSConfig())
		lst = newOneListenerWrapped(conn, cn)
	} else {
		var tp []Raw
		have := len(c.Phases) > 1
		if have {
			tp = c.Phases[1]
		}
		pc = NewPhasedConn(c.Phases[0], tp, have, false)
		conn = pc
	}
	pc.OnWire = func(p []byte) { be.AddWire(p); be.SyncPoint() }
	pc.OnRead = be.SyncPoint
	be.Baseline = 0
	if lst == nil {
		lst = newOneListener(conn)
	}
	served := serveOn(s, lst, conn)
	// wait for the TLS client to finish
	pc.mu.Lock()
	deadline := time.Now().Add(5 * time.Second)
	for pc.mode == 1 && !pc.clientEnd && time.Now().Before(deadline) {
		pc.mu.Unlock()
		time.Sleep(200 * time.Microsecond)
		pc.mu.Lock()
	}
	plain := append(append([]Raw(nil), pc.Log...), pc.script...)
	tlsLog := append([]Raw(nil), pc.TLSLog...)
	mode := pc.mode
	pc.mu.Unlock()
	if c.Cfg.ImplicitTLS {
		return [][]Raw{append(tlsLog, Raw{Kind: RawEOF})}, served
	}
	if mode == 1 {
		return [][]Raw{plain, append(tlsLog, Raw{Kind: RawEOF})}, served
	}
	if len(c.Phases) > 1 {
		// the TLS phase was never reached: report it as scripted
		return [][]Raw{plain, c.Phases[1]}, served
	}
	return [][]Raw{plain}, served
}
