(* The fuel of the model's command loop: every iteration consumes at least one
   buffered octet or one raw read result, or ends the loop, so the bound used
   by the checker (CheckConv.run_conv) is enough: the trace contains no
   EOutOfFuel marker. *)
From Smtp Require Import Bytes GoStrings Transport DataReader Parse Xtext Base64 Reply Rfc3339 Lmtp Conn
  Order OrderStrict ConnProofs CheckConv TraceProps.

(* ---------- size of a transport ---------- *)

Fixpoint rsize (rs : list raw) : nat :=
  match rs with
  | [] => 0
  | RData _ d :: r => 2 + List.length d + rsize r
  | RFail _ :: r => 1 + rsize r
  end.

Definition tsize (t : transport) : nat := List.length (t_buf t) + rsize (t_raw t).

Lemma cut_byte_shorter c s l rest : cut_byte c s = Some (l, rest) -> List.length rest < List.length s.
Proof.
  revert l rest; induction s as [|x s IH]; intros l rest H; cbn in H; [discriminate|].
  destruct (Ascii.eqb c x).
  - inversion H; subst. cbn. lia.
  - destruct (cut_byte c s) as [[a b]|]; [|discriminate]. inversion H; subst.
    specialize (IH _ _ eq_refl). cbn. lia.
Qed.

Lemma take_N_len n s : forall a b m, take_N n s = (a, b, m) -> List.length b <= List.length s.
Proof.
  revert n; induction s as [|c s IH]; intros n a b m H; cbn in H.
  - inversion H; subst. cbn. lia.
  - destruct (n =? 0)%N; [inversion H; subst; cbn; lia|].
    destruct (take_N (N.pred n) s) as [[a' b'] m'] eqn:E. inversion H; subst.
    specialize (IH _ _ _ _ E). cbn. lia.
Qed.

Lemma take_N_rest_nil n s : forall a b m, take_N n s = (a, b, m) -> m <> 0%N -> b = [].
Proof.
  revert n; induction s as [|c s IH]; intros n a b m H Hm; cbn in H.
  - inversion H; subst. reflexivity.
  - destruct (n =? 0)%N; [inversion H; subst; congruence|].
    destruct (take_N (N.pred n) s) as [[a' b'] m'] eqn:E. inversion H; subst.
    eapply IH; eassumption.
Qed.

Lemma raw_read_size t res t' :
  raw_read t = (res, t') ->
  t_buf t' = t_buf t /\ rsize (t_raw t') <= rsize (t_raw t)
  /\ match res with inl ch => rsize (t_raw t') + List.length ch + 1 <= rsize (t_raw t) | inr _ => True end.
Proof.
  unfold raw_read. destruct (too_long t); [intros H; inversion H; subst; repeat split; lia|].
  destruct (t_closed t); [intros H; inversion H; subst; repeat split; lia|].
  destruct (t_raw t) as [|[c d|e] r] eqn:Hr.
  - intros H; inversion H; subst. rewrite Hr. repeat split; lia.
  - destruct (t_limit t =? 0)%N.
    + intros H; inversion H; subst. cbn. repeat split; lia.
    + destruct (lim_scan (t_limit t) (t_cur t) (c :: d)) as [tr cur'].
      destruct tr; intros H; inversion H; subst; cbn; repeat split; lia.
  - intros H; inversion H; subst. cbn. repeat split; lia.
Qed.

Lemma read_byte_size t res t' :
  t_read_byte t = (res, t') ->
  tsize t' <= tsize t /\ match res with inl _ => tsize t' < tsize t | inr _ => True end.
Proof.
  unfold t_read_byte, tsize. destruct (t_buf t) as [|c b] eqn:Hb.
  - destruct (raw_read t) as [[ch|e] t1] eqn:Hr.
    + destruct (raw_read_size _ _ _ Hr) as (H1 & H2 & H3).
      destruct ch as [|c d]; intros H; inversion H; subst; cbn in *; rewrite ?H1, ?Hb; cbn; split; lia.
    + destruct (raw_read_size _ _ _ Hr) as (H1 & H2 & _).
      intros H; inversion H; subst. rewrite H1, Hb. cbn. split; [lia|exact I].
  - intros H; inversion H; subst. cbn. split; lia.
Qed.

Lemma unread_size c t : tsize (t_unread_byte c t) = S (tsize t).
Proof. reflexivity. Qed.

Lemma rl_go_size limit closed : forall raws cur buf res b r cur',
  rl_go limit closed raws cur buf = (res, (b, r, cur')) ->
  List.length b + rsize r <= List.length buf + rsize raws
  /\ match res with inl _ => List.length b + rsize r < List.length buf + rsize raws | inr _ => True end.
Proof.
  assert (Hp : forall (buf : bytes) e (n m : nat),
            n <= m ->
            List.length (@nil ascii) + n <= List.length buf + m
            /\ match partial_or_err buf e with
               | inl _ => List.length (@nil ascii) + n < List.length buf + m
               | inr _ => True
               end).
  { intros buf e n m H1. split; [cbn; lia|]. destruct buf; cbn; [exact I|lia]. }
  induction raws as [|x raws IH]; intros cur buf res b r cur' H; cbn [rl_go] in H.
  - destruct (too_long_b limit cur); [|destruct closed]; inversion H; subst; apply Hp; cbn; lia.
  - destruct (too_long_b limit cur); [inversion H; subst; apply Hp; cbn; lia|].
    destruct closed; [inversion H; subst; apply Hp; cbn; lia|].
    destruct x as [c d|e].
    + destruct (if (limit =? 0)%N then (false, cur) else lim_scan limit cur (c :: d)) as [tr cur1].
      destruct tr; [inversion H; subst; apply Hp; cbn; lia|].
      destruct (cut_byte LF (c :: d)) as [[l rest]|] eqn:Hcut.
      * inversion H; subst. apply cut_byte_shorter in Hcut. cbn in *. split; lia.
      * specialize (IH _ _ _ _ _ _ H). rewrite app_length in IH. cbn in *.
        destruct IH as [IH1 IH2]. split; [lia|]. destruct res; [lia|exact I].
    + inversion H; subst. apply Hp. cbn. lia.
Qed.

Lemma read_line_size t res t' :
  t_read_line t = (res, t') ->
  tsize t' <= tsize t /\ match res with inl _ => tsize t' < tsize t | inr _ => True end.
Proof.
  unfold t_read_line, tsize. destruct (cut_byte LF (t_buf t)) as [[l rest]|] eqn:Hcut.
  - intros H; inversion H; subst. apply cut_byte_shorter in Hcut. cbn. split; lia.
  - destruct (rl_go (t_limit t) (t_closed t) (t_raw t) (t_cur t) (t_buf t)) as [res' [[b r] cur]] eqn:Hg.
    intros H; inversion H; subst. cbn. exact (rl_go_size _ _ _ _ _ _ _ _ _ Hg).
Qed.

Lemma cp_go_size limit closed : forall raws cur n acc got e b r cur',
  cp_go limit closed raws cur n acc = (got, e, (b, r, cur')) ->
  List.length b + rsize r <= rsize raws.
Proof.
  induction raws as [|x raws IH]; intros cur n acc got e b r cur' H; cbn [cp_go] in H.
  - destruct (n =? 0)%N; [|destruct (too_long_b limit cur); [|destruct closed]];
      inversion H; subst; cbn; lia.
  - destruct (n =? 0)%N; [inversion H; subst; cbn; lia|].
    destruct (too_long_b limit cur); [inversion H; subst; cbn; lia|].
    destruct closed; [inversion H; subst; cbn; lia|].
    destruct x as [c d|e'].
    + destruct (if (limit =? 0)%N then (false, cur) else lim_scan limit cur (c :: d)) as [tr cur1].
      destruct tr; [inversion H; subst; cbn; lia|].
      destruct (take_N n (c :: d)) as [[a b'] m] eqn:Ht.
      destruct (m =? 0)%N.
      * inversion H; subst. apply take_N_len in Ht. cbn in *. lia.
      * specialize (IH _ _ _ _ _ _ _ _ H). cbn. lia.
    + inversion H; subst. cbn. lia.
Qed.

Lemma copy_n_size n t got e t' : t_copy_n n t = (got, e, t') -> tsize t' <= tsize t.
Proof.
  unfold t_copy_n, tsize. destruct (take_N n (t_buf t)) as [[a b] m] eqn:Ht.
  destruct (m =? 0)%N.
  - intros H; inversion H; subst. apply take_N_len in Ht. cbn. lia.
  - destruct (cp_go (t_limit t) (t_closed t) (t_raw t) (t_cur t) m a) as [[got' e'] [[b' r] cur]] eqn:Hg.
    intros H; inversion H; subst. apply cp_go_size in Hg. cbn. lia.
Qed.

(* ---------- the DATA reader ---------- *)

Lemma dr_loop_size fuel : forall s t room o e s' t',
  dr_loop fuel s t room = (o, e, s', t') -> tsize t' <= tsize t.
Proof.
  induction fuel as [|f IH]; intros s t room o e s' t' H; cbn [dr_loop] in H.
  - inversion H; subst. lia.
  - destruct room as [|room']; [inversion H; subst; lia|].
    destruct (dstate_eqb s SEOF); [inversion H; subst; lia|].
    destruct (t_read_byte t) as [[c|er] t1] eqn:Hr.
    + destruct (read_byte_size _ _ _ Hr) as [_ H1].
      destruct (dr_step s c) as [s1|s1 x|s1 x].
      * apply IH in H. lia.
      * destruct (dr_loop f s1 t1 room') as [[[o1 e1] s2] t2] eqn:E. inversion H; subst.
        apply IH in E. lia.
      * destruct (dr_loop f s1 (t_unread_byte c t1) room') as [[[o1 e1] s2] t2] eqn:E.
        inversion H; subst. apply IH in E. rewrite unread_size in E. lia.
    + destruct (read_byte_size _ _ _ Hr) as [H1 _]. inversion H; subst. exact H1.
Qed.

Lemma dr_read_size d t lenb o e d' t' : dr_read d t lenb = (o, e, d', t') -> tsize t' <= tsize t.
Proof.
  unfold dr_read. destruct (d_limited d).
  - destruct (d_n d =? 0)%Z.
    + destruct (dr_loop (dr_fuel t 1) (d_state d) t 1) as [[[o1 e1] s1] t1] eqn:E.
      apply dr_loop_size in E. destruct o1; intros H; inversion H; subst; exact E.
    + destruct (d_n d <? 0)%Z; [intros H; inversion H; subst; lia|].
      match goal with |- context [dr_loop ?f ?s t ?r] =>
        destruct (dr_loop f s t r) as [[[o1 e1] s1] t1] eqn:E end.
      apply dr_loop_size in E. intros H; inversion H; subst; exact E.
  - destruct (dr_loop (dr_fuel t lenb) (d_state d) t lenb) as [[[o1 e1] s1] t1] eqn:E.
    apply dr_loop_size in E. intros H; inversion H; subst; exact E.
Qed.

Lemma be_read_size fuel : forall sizes cur stop got d t o e d' t',
  be_read fuel sizes cur stop got d t = (o, e, d', t') -> tsize t' <= tsize t.
Proof.
  induction fuel as [|f IH]; intros sizes cur stop got d t o e d' t' H; cbn [be_read] in H.
  - inversion H; subst. lia.
  - destruct (match stop with Some k => (k <=? blen got)%N | None => false end);
      [inversion H; subst; lia|].
    destruct (next_size sizes cur) as [sz cur1].
    destruct (dr_read d t (pos_size sz)) as [[[o1 e1] d1] t1] eqn:E. apply dr_read_size in E.
    destruct e1; [inversion H; subst; exact E|]. apply IH in H. lia.
Qed.

Lemma backend_reads_size sizes stop d t o e d' t' :
  backend_reads sizes stop d t = (o, e, d', t') -> tsize t' <= tsize t.
Proof. apply be_read_size. Qed.

Lemma dr_drain_size d t e d' t' : dr_drain d t = (e, d', t') -> tsize t' <= tsize t.
Proof.
  unfold dr_drain.
  match goal with |- context [be_read ?f ?sz ?c ?s ?g ?d0 t] =>
    destruct (be_read f sz c s g d0 t) as [[[o1 e1] d1] t1] eqn:E end.
  apply be_read_size in E. intros H; inversion H; subst; exact E.
Qed.

Lemma hs_consume_size rs : forall have, rsize (hs_consume rs have) <= rsize rs.
Proof.
  induction rs as [|[c d|e] r IH]; intros have; cbn [hs_consume rsize]; [lia| |lia].
  destruct (5 <=? have + S (List.length d))%nat; [lia|]. specialize (IH (have + S (List.length d))%nat). lia.
Qed.

(* ---------- the measure on connection states ---------- *)

Fixpoint psize (phs : list (list raw)) : nat :=
  match phs with [] => 0 | p :: r => rsize p + 4 + psize r end.

Definition mu (c : conn) : nat := tsize (c_t c) + psize (c_phases c).

Definition not_oof (e : event) : bool := match e with EOutOfFuel => false | _ => true end.

Lemma bd_finish_oof b term b' ev : bd_finish b term = (b', ev) -> forallb not_oof ev = true.
Proof. unfold bd_finish. intros H; inversion H; subst. reflexivity. Qed.

Lemma bd_end_oof b term b' ev : bd_end b term = (b', ev) -> forallb not_oof ev = true.
Proof.
  unfold bd_end. destruct (bd_done b); [intros H; inversion H; subst; reflexivity|apply bd_finish_oof].
Qed.

Lemma bd_feed_oof b chunk b' ev w : bd_feed b chunk = (b', ev, w) -> forallb not_oof ev = true.
Proof.
  unfold bd_feed. destruct chunk as [|x chunk]; [intros H; inversion H; subst; reflexivity|].
  destruct (bd_done b); [intros H; inversion H; subst; reflexivity|].
  destruct (dp_stop (bd_plan b)) as [k|]; [|intros H; inversion H; subst; reflexivity].
  destruct (take_N _ _) as [[a ?] ?].
  destruct (_ <? _)%N; [intros H; inversion H; subst; reflexivity|].
  match goal with |- context [bd_finish ?b1 None] =>
    destruct (bd_finish b1 None) as [b2 ev2] eqn:E end.
  apply bd_finish_oof in E.
  destruct (_ =? _)%N; intros H; inversion H; subst; exact E.
Qed.

Lemma bd_new_oof p rc sp b ev : bd_new p rc sp = (b, ev) -> forallb not_oof ev = true.
Proof.
  unfold bd_new. destruct (dp_stop p) as [[|k]|]; intros H; inversion H; subst; reflexivity.
Qed.

Lemma status_reply_oof a e : not_oof (status_reply a e) = true.
Proof. unfold status_reply. destruct (data_error_to_status e) as [[? ?] ?]. reflexivity. Qed.

Lemma map_status_oof (l : list (bytes * berr)) :
  forallb not_oof (map (fun '(a, e) => status_reply a e) l) = true.
Proof. induction l as [|[a e] l IH]; cbn; [reflexivity|]. rewrite status_reply_oof. exact IH. Qed.

Lemma map_status_oof1 (f : bytes -> berr) l :
  forallb not_oof (map (fun a => status_reply a (f a)) l) = true.
Proof. induction l; cbn; [reflexivity|]. rewrite status_reply_oof. exact IHl. Qed.

Lemma lmtp_replies_oof cfg b e rs pk :
  bdat_lmtp_replies cfg b e = (rs, pk) -> forallb not_oof rs = true.
Proof.
  unfold bdat_lmtp_replies.
  match goal with |- context [let '(sts, panicked) := ?X in _] => destruct X as [sts panicked] end.
  intros H; inversion H; subst. apply map_status_oof.
Qed.

Lemma abort_ev_oof bd : forallb not_oof (abort_ev bd) = true.
Proof.
  destruct bd as [b|]; [|reflexivity]. cbn. destruct (bd_end b RDataReset) as [b' ev] eqn:E.
  apply bd_end_oof in E. exact E.
Qed.

Lemma reset_ev_oof c : forallb not_oof (reset_ev c) = true.
Proof. unfold reset_ev. rewrite forallb_app, abort_ev_oof. destruct (c_session c); reflexivity. Qed.

Lemma close_ev_oof c : forallb not_oof (close_ev c) = true.
Proof. unfold close_ev. rewrite forallb_app, abort_ev_oof. destruct (c_session c); reflexivity. Qed.

Lemma conn_read_line_mu c res c1 :
  conn_read_line c = (res, c1) ->
  mu c1 <= mu c /\ match res with inl _ => mu c1 < mu c | inr _ => True end.
Proof.
  unfold conn_read_line, mu. destruct (t_read_line (c_t c)) as [r t'] eqn:E.
  destruct (read_line_size _ _ _ E) as [H1 H2].
  destruct r as [line|e].
  - destruct (too_long t'); intros H; inversion H; subst; cbn; split; try exact I; lia.
  - intros H; inversion H; subst; cbn; split; [lia|exact I].
Qed.

Lemma auth_loop_mu steps : forall c resp c2 ev ok,
  auth_loop steps c resp = (c2, ev, ok) -> mu c2 <= mu c /\ forallb not_oof ev = true.
Proof.
  induction steps as [|[ch done err] rest IH]; intros c resp c2 ev ok H; cbn [auth_loop] in H.
  - inversion H; subst. split; [lia|reflexivity].
  - destruct err; [|inversion H; subst; split; [lia|reflexivity]..].
    destruct done; [inversion H; subst; split; [lia|reflexivity]|].
    destruct (conn_read_line c) as [[line|e] c1] eqn:E; apply conn_read_line_mu in E as [E1 _].
    2:{ inversion H; subst. split; [lia|reflexivity]. }
    destruct (bytes_eqb line (bs "*")); [inversion H; subst; split; [lia|reflexivity]|].
    destruct (decode_sasl_response line) as [r|]; [|inversion H; subst; split; [lia|reflexivity]].
    destruct (auth_loop rest c1 (Some r)) as [[c3 ev3] ok3] eqn:E3. inversion H; subst.
    destruct (IH _ _ _ _ _ E3) as [H1 H2]. split; [lia|]. cbn. exact H2.
Qed.

Lemma call_data_size p d t got term ret d1 t1 :
  call_data p d t = (got, term, ret, d1, t1) -> tsize t1 <= tsize t.
Proof.
  unfold call_data. destruct (backend_reads (dp_sizes p) (dp_stop p) d t) as [[[g te] d'] t'] eqn:E.
  apply backend_reads_size in E. intros H; inversion H; subst. exact E.
Qed.

(* ---------- handlers do not increase the measure and never emit the marker ---------- *)

Section Fuel.
Variable cfg : config.

Definition FGood (c : conn) (r : hres) : Prop :=
  mu (fst r) <= mu c /\ forallb not_oof (snd r) = true.

Ltac csf :=
  cbn [c_t c_phases c_be c_helo c_session c_errs c_binarymime c_from c_rcpts c_did_auth c_closed
       c_tls c_bdat c_received upd_t upd_be upd_helo upd_session upd_errs upd_binarymime upd_from
       upd_rcpts upd_did_auth upd_bdat upd_received fst snd reset_c close_c] in *.

Ltac inner x :=
  lazymatch x with
  | match ?y with _ => _ end => inner y
  | _ => destruct x eqn:?
  end.
Ltac brk :=
  first
  [ rewrite do_reset_eq; cbv beta iota zeta
  | rewrite do_close_eq; cbv beta iota zeta
  | match goal with
    | |- FGood _ (match ?x with _ => _ end) => inner x; cbv beta iota zeta
    end ].

Ltac harvest :=
  repeat match goal with
  | H : t_copy_n _ _ = (_, _, _) |- _ => apply copy_n_size in H
  | H : call_data _ _ _ = _ |- _ => apply call_data_size in H
  | H : dr_drain _ _ = _ |- _ => apply dr_drain_size in H
  | H : bd_end _ _ = (_, _) |- _ => apply bd_end_oof in H
  | H : bd_feed _ _ = (_, _, _) |- _ => apply bd_feed_oof in H
  | H : bd_new _ _ _ = (_, _) |- _ => apply bd_new_oof in H
  | H : bdat_lmtp_replies _ _ _ = (_, _) |- _ => apply lmtp_replies_oof in H
  | H : auth_loop _ _ _ = (_, _, _) |- _ => apply auth_loop_mu in H; destruct H as [? ?]
  end.

Ltac foof :=
  unfold reply, reply_err, syntax_mail, syntax_rcpt;
  repeat first
    [ reflexivity
    | rewrite forallb_app
    | rewrite reset_ev_oof
    | rewrite close_ev_oof
    | rewrite map_status_oof
    | rewrite map_status_oof1
    | match goal with |- context [if ?b then [?e] else []] => destruct b end
    | match goal with H : forallb not_oof ?l = true |- context [forallb not_oof ?l] => rewrite H end
    | progress cbn [forallb not_oof andb app] ].

Ltac fleaf :=
  harvest; unfold FGood; csf; split;
  [unfold mu, tsize in *; csf; cbn [t_buf t_raw set_limit set_closed set_raw_cur psize rsize List.length] in *;
   try lia
  |foof].

Ltac fstart c :=
  destruct c as [t ph be h se er bm fr rc da cl tl bd rv]; csf.

Lemma handle_greet_fuel c enh arg : FGood c (handle_greet cfg c enh arg).
Proof. fstart c. unfold handle_greet. csf. cbv zeta. repeat brk; csf; fleaf. Qed.

Lemma handle_mail_fuel c arg : FGood c (handle_mail cfg c arg).
Proof. fstart c. unfold handle_mail, pop_mail. csf. cbv zeta. repeat brk; csf; fleaf. Qed.

Lemma handle_rcpt_fuel c arg : FGood c (handle_rcpt cfg c arg).
Proof. fstart c. unfold handle_rcpt, pop_rcpt. csf. cbv zeta. repeat brk; csf; fleaf. Qed.

Lemma protocol_error_fuel c code ec msg : FGood c (protocol_error c code ec msg).
Proof. fstart c. unfold protocol_error. csf. cbv zeta. repeat brk; csf; fleaf. Qed.

Lemma handle_auth_fuel c arg : FGood c (handle_auth cfg c arg).
Proof. fstart c. unfold handle_auth, pop_auth. csf. cbv zeta. repeat brk; csf; fleaf. Qed.

Lemma handle_data_fuel c arg : FGood c (handle_data cfg c arg).
Proof. fstart c. unfold handle_data, pop_data, close_unless. csf. cbv zeta. repeat brk; csf; fleaf. Qed.


Lemma handle_starttls_fuel c : FGood c (handle_starttls cfg c).
Proof.
  fstart c. unfold handle_starttls. csf. cbv zeta. repeat brk; csf; fleaf.
  all: repeat match goal with H : t_raw _ = _ |- _ => rewrite H in *; clear H end.
  all: try match goal with |- context [hs_consume ?rs 0] => pose proof (hs_consume_size rs 0) end.
  all: try lia.
Qed.

Lemma handle_bdat_fuel c arg : FGood c (handle_bdat cfg c arg).
Proof.
  fstart c. unfold handle_bdat. csf.
  destruct (fields arg) as [|a0 more]; [fleaf|].
  match goal with
  | |- FGood ?c (match more with [] => ?B | _ :: _ => _ end) => assert (Hbody : FGood c B)
  end.
  2:{ destruct more as [|a1 [|a2 more]]; [exact Hbody|exact Hbody|fleaf]. }
  unfold pop_data, discard_chunk, close_unless. csf. cbv zeta.
  repeat brk; csf; fleaf.
Qed.


Lemma handle_fuel c cmd arg : FGood c (handle cfg c cmd arg).
Proof.
  unfold handle.
  destruct cmd as [|c0 cmd]; [apply protocol_error_fuel|].
  set (CMD := to_upper (c0 :: cmd)). clearbody CMD.
  repeat match goal with
         | |- FGood _ (if ?b then _ else _) => destruct b
         end;
    try (apply handle_greet_fuel);
    try (apply handle_mail_fuel);
    try (apply handle_rcpt_fuel);
    try (apply handle_bdat_fuel);
    try (apply handle_data_fuel);
    try (apply handle_auth_fuel);
    try (apply handle_starttls_fuel);
    try (apply protocol_error_fuel);
    try (split; [cbn [fst]; lia|reflexivity]).
  - rewrite do_reset_eq. fstart c. fleaf.
  - rewrite do_close_eq. fstart c. fleaf.
Qed.

Lemma final_close_oof c : forallb not_oof (final_close c) = true.
Proof. unfold final_close. rewrite do_close_eq. apply close_ev_oof. Qed.

Lemma serve_loop_fuel fuel : forall c,
  mu c + 2 <= fuel -> forallb not_oof (serve_loop fuel cfg c) = true.
Proof.
  induction fuel as [|f IH]; intros c Hf; [lia|]. cbn [serve_loop].
  destruct (c_closed c); [apply final_close_oof|].
  destruct (conn_read_line c) as [[line|e] c1] eqn:E; apply conn_read_line_mu in E as [E1 E2].
  - cbn [forallb not_oof andb].
    destruct (parse_cmd line) as [[cmd arg]|].
    + destruct (handle_fuel c1 cmd arg) as [H1 H2].
      destruct (handle cfg c1 cmd arg) as [c2 ev]. cbn [fst snd] in *.
      rewrite forallb_app, H2. apply IH. lia.
    + destruct (protocol_error_fuel c1 501 (5, 5, 2)%Z (bs "Bad command")) as [H1 H2].
      destruct (protocol_error c1 501 (5, 5, 2)%Z (bs "Bad command")) as [c2 ev]. cbn [fst snd] in *.
      rewrite forallb_app, H2. apply IH. lia.
  - destruct e; cbn [forallb]; try (change (not_oof (reply _ _ _)) with true; cbn [andb]);
      apply final_close_oof.
Qed.

End Fuel.

Lemma raws_size_rsize rs : raws_size rs = rsize rs.
Proof.
  unfold raws_size.
  assert (H : forall n, fold_left (fun (n : nat) (r : raw) =>
              match r with RData _ d => n + 2 + List.length d | RFail _ => n + 1 end)%nat rs n
              = (n + rsize rs)%nat).
  { induction rs as [|[c d|e] r IH]; intros n; cbn [fold_left rsize]; [lia| |]; rewrite IH; lia. }
  apply H.
Qed.

Lemma conv_fuel_psize phases : forall n,
  fold_left (fun n p => n + raws_size p + 4)%nat phases n = (n + psize phases)%nat.
Proof.
  induction phases as [|p r IH]; intros n; cbn [fold_left psize]; [lia|].
  rewrite IH, raws_size_rsize. lia.
Qed.

(* the fuel used by the checker (CheckConv.run_conv) always suffices *)
Theorem serve_fuel_enough fuel cfg be phases :
  fold_left (fun n p => n + raws_size p + 4)%nat phases 16%nat <= fuel ->
  ~ In EOutOfFuel (serve fuel cfg be phases).
Proof.
  intros Hf Hin. rewrite conv_fuel_psize in Hf.
  assert (H : forallb not_oof (serve fuel cfg be phases) = true).
  { unfold serve. cbn [forallb]. change (not_oof (greeting cfg)) with true. cbn [andb].
    apply serve_loop_fuel. unfold mu, init_conn, tsize.
    destruct phases as [|p r]; cbn [c_t c_phases t_buf t_raw List.length psize rsize] in *; lia. }
  rewrite forallb_forall in H. specialize (H _ Hin). discriminate.
Qed.
Print Assumptions serve_fuel_enough.

Corollary run_conv_no_out_of_fuel cfg be phases : ~ In EOutOfFuel (run_conv cfg be phases).
Proof. unfold run_conv. apply serve_fuel_enough. lia. Qed.

(* ---------- the complete-trace corollaries without a fuel hypothesis ---------- *)

(* the bound of CheckConv.run_conv *)
Definition conv_fuel (phases : list (list raw)) : nat :=
  fold_left (fun n p => n + raws_size p + 4)%nat phases 16%nat.

Theorem serve_complete_ends_with_close fuel cfg be phases :
  conv_fuel phases <= fuel -> exists tr', serve fuel cfg be phases = tr' ++ [EClose].
Proof. intros Hf. apply serve_ends_with_close, serve_fuel_enough, Hf. Qed.

Theorem serve_complete_exactly_one_logout fuel cfg be phases :
  conv_fuel phases <= fuel ->
  forall pre h t post, serve fuel cfg be phases = pre ++ ENewSession h t BNil :: post ->
    exists mid rest,
      post = mid ++ ELogout :: rest
      /\ Forall (fun e => negb (is_logout e) && negb (is_ns e) && negb (is_close e) = true) mid
      /\ Forall (fun e => negb (is_session_event e) = true) (until is_ns_ok rest).
Proof. intros Hf. apply serve_C08_exactly_one_logout, serve_fuel_enough, Hf. Qed.

Theorem serve_complete_end_signalled fuel cfg be phases :
  conv_fuel phases <= fuel -> C03_end_signalled_complete (serve fuel cfg be phases).
Proof. intros Hf. apply serve_C03_end_signalled_complete, serve_fuel_enough, Hf. Qed.
