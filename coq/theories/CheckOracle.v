(* Oracles over the OBSERVED behaviour of the implementation.

   The Go harness records, for one connection, the octets written and the
   backend callbacks in order.  The definitions here decode that record into
   [event]s and judge it against the property texts directly - without
   running the server model - so that a disagreement between model and code
   can be turned into a concrete violation, and a code change that breaks a
   property is reported as such even if the model were to drift with it. *)
From Smtp Require Import Bytes Sx GoStrings Transport DataReader DotSpec Reply Rfc3339 Lmtp Conn CheckBase.
Local Open Scope char_scope.

(* ---------- decoding the recorded events ---------- *)

Definition dec_berr_o (x : sx) : option berr :=
  match x with
  | SA _ => if sx_is "nil" x then Some BNil else None
  | SL [t; c; e1; e2; e3; m] =>
      if sx_is "smtp" t then
        match sx_Z c, sx_Z e1, sx_Z e2, sx_Z e3, sx_bytes m with
        | Some c, Some e1, Some e2, Some e3, Some m => Some (BSmtp c (e1, e2, e3) m)
        | _, _, _, _, _ => None
        end
      else None
  | SL [t; m] => if sx_is "plain" t then option_map BPlain (sx_bytes m) else None
  | _ => None
  end.

Definition dec_term (x : sx) : option (option rerr) :=
  if sx_is "nil" x then Some None
  else if sx_is "eof" x then Some (Some REOF)
  else if sx_is "ueof" x then Some (Some RUnexpectedEOF)
  else if sx_is "toolarge" x then Some (Some RTooLarge)
  else if sx_is "datareset" x then Some (Some RDataReset)
  else if sx_is "closedpipe" x then Some (Some RClosedPipe)
  else match dec_terr x with
       | Some e => Some (Some (RTransport e))
       | None => Some (Some (RTransport TNetErr))   (* "other:..." *)
       end.

Definition dec_optb (x : sx) : option (option bytes) :=
  match x with
  | SL [t; b] => if sx_is "some" t then option_map Some (sx_bytes b) else None
  | _ => if sx_is "none" x then Some None else None
  end.

Definition dec_mo (x : sx) : option mail_opts :=
  match x with
  | SL [t; body; size; rtls; utf8; ret; envid; auth] =>
      match sx_bytes body, sx_Z size, sx_bool rtls, sx_bool utf8, sx_bytes ret, sx_bytes envid, dec_optb auth with
      | Some body, Some size, Some rtls, Some utf8, Some ret, Some envid, Some auth =>
          Some (mkMO body size rtls utf8 ret envid auth)
      | _, _, _, _, _, _, _ => None
      end
  | _ => None
  end.

Definition dec_ro (x : sx) : option rcpt_opts :=
  match x with
  | SL [t; SL notify; ty; orcpt; rr] =>
      match map_opt sx_bytes notify, sx_bytes ty, sx_bytes orcpt with
      | Some notify, Some ty, Some orcpt =>
          match rr with
          | SL [t'; u; n; o] =>
              match sx_Z u, sx_Z n, sx_Z o with
              | Some u, Some n, Some o => Some (mkRO notify ty orcpt (Some (mkRT u n o)))
              | _, _, _ => None
              end
          | _ => Some (mkRO notify ty orcpt None)
          end
      | _, _, _ => None
      end
  | _ => None
  end.

Definition dec_event (x : sx) : option event :=
  match x with
  | SL [t] =>
      if sx_is "reset" t then Some EReset
      else if sx_is "logout" t then Some ELogout
      (* (srvclose): a Server.Close() call made by the application from another goroutine has
         RETURNED (harness/closeat.go) - the server has closed the connection *)
      else if sx_is "srvclose" t then Some EClose
      else None
  | SL [t; a] =>
      if sx_is "w" t then option_map EWire (sx_bytes a) else None
  | SL [t; a; b] =>
      if sx_is "auth" t then
        match sx_bytes a, dec_berr_o b with Some a, Some b => Some (EAuth a b) | _, _ => None end
      else None
  | SL [t; a; b; c] =>
      if sx_is "ns" t then
        match sx_bytes a, sx_bool b, dec_berr_o c with
        | Some a, Some b, Some c => Some (ENewSession a b c) | _, _, _ => None end
      else if sx_is "mail" t then
        match sx_bytes a, dec_mo b, dec_berr_o c with
        | Some a, Some b, Some c => Some (EMail a b c) | _, _, _ => None end
      else if sx_is "rcpt" t then
        match sx_bytes a, dec_ro b, dec_berr_o c with
        | Some a, Some b, Some c => Some (ERcpt a b c) | _, _, _ => None end
      else None
  | SL [t; a; b; c; d] =>
      if sx_is "data" t then
        match sx_bytes a, dec_term b, dec_berr_o c, sx_bool d with
        | Some a, Some b, Some c, Some d => Some (EData a b c d) | _, _, _, _ => None end
      else if sx_is "del" t then
        match sx_bytes a, dec_term b, dec_berr_o c, sx_bool d with
        | Some a, Some b, Some c, Some d => Some (EDelivery a b c d) | _, _, _, _ => None end
      else if sx_is "authnext" t then
        match dec_optb a, sx_bytes b, sx_bool c, dec_berr_o d with
        | Some a, Some b, Some c, Some d => Some (EAuthNext a b c d) | _, _, _, _ => None end
      else None
  | _ => None
  end.

(* ---------- replies on the wire ---------- *)

(* lines of the server's output, without their CRLF *)
Definition wire_lines (b : bytes) : list bytes :=
  let ls := map (fun l => if is_suffix [CR] l then removelast l else l) (split_byte LF b) in
  match rev ls with
  | [] :: r => rev r      (* the output ends with LF *)
  | _ => ls
  end.

Definition line_code (l : bytes) : N :=
  match l with
  | a :: b :: c :: _ => if is_digit a && is_digit b && is_digit c then dec_value [a; b; c] else 0%N
  | _ => 0%N
  end.

(* final line of a reply: "ddd " or exactly "ddd" *)
Definition line_final (l : bytes) : bool :=
  match l with
  | _ :: _ :: _ :: d :: _ => negb (Ascii.eqb d "-")
  | _ => true
  end.

(* codes of the replies (one per reply group) *)
Definition reply_codes (b : bytes) : list N :=
  map line_code (filter line_final (wire_lines b)).

Definition all_wire (evs : list event) : bytes :=
  flat_map (fun e => match e with EWire b => b | _ => [] end) evs.

(* a reply after which the server has given up on the connection (texts of
   conn.go / server.go; a backend error that happens to use code 421 does not
   close the connection) *)
Definition closing_line (l : bytes) : bool :=
  is_prefix (bs "221 2.0.0 Bye") l
  || is_prefix (bs "421 4.4.2 Idle timeout") l
  || is_prefix (bs "421 4.4.0 Connection error") l
  || is_prefix (bs "421 4.0.0 Internal server error") l
  || is_prefix (bs "500 5.4.0 Too long line") l
  || is_prefix (bs "500 5.5.1 Too many errors") l.

Definition wire_closes (b : bytes) : bool := existsb closing_line (wire_lines b).

(* ---------- observed-trace monitor: C03, C08, C09 ---------- *)

Record omon := mkOM {
  o_session : bool;
  o_from : bool;
  o_nrcpt : nat;
  o_must_reset : bool;     (* a DATA outcome was reported: Reset/Logout must come next *)
  o_closing : bool;        (* a closing reply has been written *)
  o_authed : bool;
  o_tls : bool
}.

Definition omon_init (tls : bool) : omon := mkOM false false 0 false false false tls.

Inductive overdict := OOk (m : omon) | OBad (prop : string).

Definition ostep (cfg : config) (m : omon) (e : event) : overdict :=
  let callback_ok := negb (o_closing m) in
  match e with
  | EWire b =>
      OOk (mkOM (o_session m) (o_from m) (o_nrcpt m) (o_must_reset m)
                (o_closing m || wire_closes b) (o_authed m) (o_tls m))
  | ENewSession _ t r =>
      if o_closing m then OBad "C08"
      else if o_session m then OBad "C08"
      else if t && negb (o_tls m) && negb (cf_tls_config cfg) then OBad "C03"
      else if negb t && o_tls m then OBad "C10"
      else OOk (mkOM (match r with BNil => true | _ => false end) false 0 false false false t)
  | EMail _ _ r =>
      if o_closing m then OBad "C08"
      else if negb (o_session m) then OBad "C03"
      else if o_must_reset m then OBad "C03"
      else OOk (mkOM true (o_from m || match r with BNil => true | _ => false end) (o_nrcpt m) false false (o_authed m) (o_tls m))
  | ERcpt _ _ r =>
      if o_closing m then OBad "C08"
      else if negb (o_session m) || negb (o_from m) || o_must_reset m then OBad "C03"
      else if (0 <? cf_max_rcpt cfg)%N && (cf_max_rcpt cfg <=? N.of_nat (o_nrcpt m))%N then OBad "C03"
      else OOk (mkOM true true (match r with BNil => S (o_nrcpt m) | _ => o_nrcpt m end) false false (o_authed m) (o_tls m))
  | EData _ _ _ _ =>
      if o_closing m then OBad "C08"
      else if negb (o_session m) || negb (o_from m) || (o_nrcpt m =? 0)%nat || o_must_reset m then OBad "C03"
      else OOk (mkOM true true (o_nrcpt m) true false (o_authed m) (o_tls m))
  | EReset =>
      if negb (o_session m) then OBad "C08"
      else OOk (mkOM true false 0 false (o_closing m) (o_authed m) (o_tls m))
  | ELogout =>
      if negb (o_session m) then OBad "C08"
      else OOk (mkOM false false 0 false (o_closing m) false (o_tls m))
  | EAuth _ _ | EAuthNext _ _ _ _ =>
      if o_closing m then OBad "C08"
      else if negb (o_session m) then OBad "C09"
      else if negb (o_tls m || cf_insecure_auth cfg) then OBad "C09"
      else if o_authed m then OBad "C09"
      else OOk m
  | EClose =>
      (* Server.Close has returned: the server has given up on the connection just as after a
         closing reply - no callback may begin and no session may be created any more (the Logout
         of the session, and a Reset on the way there, are the end of the session, not commands) *)
      OOk (mkOM (o_session m) (o_from m) (o_nrcpt m) (o_must_reset m) true (o_authed m) (o_tls m))
  | _ => OOk m
  end.

(* a 235 on the wire marks the session authenticated *)
Definition note_auth (m : omon) (e : event) : omon :=
  match e with
  | EWire b =>
      if existsb (fun c => (c =? 235)%N) (reply_codes b)
      then mkOM (o_session m) (o_from m) (o_nrcpt m) (o_must_reset m) (o_closing m) true (o_tls m)
      else m
  | _ => m
  end.

Fixpoint orun (cfg : config) (m : omon) (evs : list event) : option string + omon :=
  match evs with
  | [] => inr m
  | e :: r =>
      match ostep cfg m e with
      | OBad p => inl (Some p)
      | OOk m' => orun cfg (note_auth m' e) r
      end
  end.

(* every session got its Logout by the end of the connection *)
Definition oracle_sessions (cfg : config) (evs : list event) : list bytes :=
  match orun cfg (omon_init (cf_implicit_tls cfg)) evs with
  | inl (Some p) => [bs p]
  | inl None => []
  | inr m => if o_session m then [bs "C08"] else []
  end.

(* ---------- bait: message octets executed as commands (C02, C05) ---------- *)

Fixpoint contains (needle hay : bytes) : bool :=
  match hay with
  | [] => match needle with [] => true | _ => false end
  | _ :: t => is_prefix needle hay || contains needle t
  end.

Definition event_addr (e : event) : bytes :=
  match e with
  | EMail a _ _ => a
  | ERcpt a _ _ => a
  | ENewSession h _ _ => h
  | _ => []
  end.

Definition oracle_bait (evs : list event) : list bytes :=
  (if existsb (fun e => contains (bs "bait") (event_addr e)) evs then [bs "C02"] else [])
  ++ (if existsb (fun e => contains (bs "chunk") (event_addr e)) evs then [bs "C05"] else []).

(* ---------- size limit (C06) ---------- *)

Definition oracle_size (cfg : config) (evs : list event) : list bytes :=
  if (0 <? cf_max_bytes cfg)%Z then
    if existsb (fun e =>
         match e with
         | EData g _ _ _ | EDelivery g _ _ _ => (cf_max_bytes cfg <? Z.of_nat (List.length g))%Z
         | EMail _ o BNil => (cf_max_bytes cfg <? mo_size o)%Z
         | EMail _ o _ => (cf_max_bytes cfg <? mo_size o)%Z
         | _ => false
         end) evs
    then [bs "C06"] else []
  else [].

(* ---------- final DATA reply reports that message's verdict (C04) ---------- *)

(* the first reply written after a Data call that returned [r] (SMTP mode) *)
Fixpoint oracle_verdict (lmtp : bool) (evs : list event) : list bytes :=
  match evs with
  | EData _ _ r false :: EWire b :: rest =>
      let ok :=
        match reply_codes b with
        | c :: _ =>
            match r with
            | BNil => (c =? 250)%N
            | BSmtp code _ _ => (Z.of_N c =? code)%Z
            | BPlain _ => (c =? 554)%N
            end
        | [] => false
        end in
      (if ok || lmtp then [] else [bs "C04"]) ++ oracle_verdict lmtp rest
  | _ :: rest => oracle_verdict lmtp rest
  | [] => []
  end.

(* a positive final reply after a Data call whose reader did not reach EOF and
   whose backend reported that failure (C07) *)
Fixpoint oracle_incomplete (lmtp : bool) (evs : list event) : list bytes :=
  match evs with
  | EData _ (Some term) r false :: EWire b :: rest =>
      let bad :=
        match term, r with
        | REOF, _ => false
        | _, BNil => false   (* the backend chose to accept what it got *)
        | _, _ => match reply_codes b with c :: _ => (c =? 250)%N | [] => false end
        end in
      (if bad && negb lmtp then [bs "C07"] else []) ++ oracle_incomplete lmtp rest
  | _ :: rest => oracle_incomplete lmtp rest
  | [] => []
  end.

(* ---------- recovered panics (C19) ---------- *)

Definition oracle_panics (panics : N) (plan_panics : bool) : list bytes :=
  if (0 <? panics)%N && negb plan_panics then [bs "C19"] else [].

Fixpoint dedup (l : list bytes) : list bytes :=
  match l with
  | [] => []
  | x :: r => if existsb (bytes_eqb x) r then dedup r else x :: dedup r
  end.

(* ---------- expectations stated by a focused generator ---------- *)

Definition term_is (tag : sx) (t : option rerr) : bool :=
  match dec_term tag with
  | Some t' =>
      match t, t' with
      | None, None => true
      | Some REOF, Some REOF | Some RUnexpectedEOF, Some RUnexpectedEOF
      | Some RTooLarge, Some RTooLarge | Some RDataReset, Some RDataReset
      | Some RClosedPipe, Some RClosedPipe => true
      | Some (RTransport a), Some (RTransport b) => terr_eqb a b
      | _, _ => false
      end
  | None => false
  end.

Definition is_eof (t : option rerr) : bool := match t with Some REOF => true | _ => false end.

(* the capability lines of the first EHLO/LHLO reply on the wire *)
Fixpoint ehlo_caps_go (ls : list bytes) (inside : bool) : list bytes :=
  match ls with
  | [] => []
  | l :: r =>
      if inside then
        skipn 4 l :: (if line_final l then [] else ehlo_caps_go r true)
      else if is_prefix (bs "250-Hello ") l then ehlo_caps_go r true
      else if is_prefix (bs "250 Hello ") l then []
      else ehlo_caps_go r false
  end.
Definition ehlo_caps (wire : bytes) : list bytes := ehlo_caps_go (wire_lines wire) false.

Fixpoint list_bytes_eqb (a b : list bytes) : bool :=
  match a, b with
  | [], [] => true
  | x :: a', y :: b' => bytes_eqb x y && list_bytes_eqb a' b'
  | _, _ => false
  end.

Definition expectation_ok (evs dels : list event) (x : sx) : bool :=
  let codes := reply_codes (all_wire evs) in
  match x with
  | SL [t; SL l] =>
      if sx_is "expect-codes" t then
        match map_opt sx_N l with
        | Some want => if list_eq_dec N.eq_dec want codes then true else false
        | None => false
        end
      else if sx_is "expect-ehlo" t then
        match map_opt sx_bytes l with
        | Some want => list_bytes_eqb want (ehlo_caps (all_wire evs))
        | None => false
        end
      else true
  | SL [t; a] =>
      if sx_is "expect-line" t then
        (* this very reply line was written *)
        match sx_bytes a with
        | Some l => existsb (bytes_eqb l) (wire_lines (all_wire evs))
        | None => false
        end
      else if sx_is "expect-last" t then
        match sx_N a, rev codes with
        | Some n, c :: _ => (c =? n)%N
        | _, _ => false
        end
      else if sx_is "max-eof" t then
        (* at most n readers (DATA or chunked deliveries) ended with EOF *)
        match sx_N a with
        | Some n => (N.of_nat (List.length (filter (fun e => match e with
                                                            | EData _ tm _ _ | EDelivery _ tm _ _ => is_eof tm
                                                            | _ => false end) (evs ++ dels))) <=? n)%N
        | None => false
        end
      else if sx_is "max-line-prefixes" t then
        (* no reply line carries more than n "<address> " prefixes in front of its text *)
        match sx_N a with
        | Some n =>
            forallb (fun l =>
                       let fix count (fuel : nat) (t : bytes) : N :=
                         match fuel with
                         | O => 0
                         | S fuel' =>
                             match t with
                             | "<" :: r =>
                                 match cut_byte ">" r with
                                 | Some (_, " " :: r') => 1 + count fuel' r'
                                 | _ => 0
                                 end
                             | _ => 0
                             end
                         end%N in
                       (* skip "ddd" sep and an enhanced code "d.d.d " if present *)
                       let body := skipn 4 l in
                       let body := match body with
                                   | a1 :: "." :: b1 :: "." :: c1 :: " " :: r =>
                                       if is_digit a1 && is_digit b1 && is_digit c1 then r else body
                                   | _ => body
                                   end in
                       (count 8%nat body <=? n)%N) (wire_lines (all_wire evs))
        | None => false
        end
      else if sx_is "max-250" t then
        match sx_N a with
        | Some n => (N.of_nat (List.length (filter (fun c => (c =? 250)%N) codes)) <=? n)%N
        | None => false
        end
      else if sx_is "must-mail" t then
        match sx_bytes a with
        | Some addr => existsb (fun e => match e with EMail f _ _ => bytes_eqb f addr | _ => false end) evs
        | None => false
        end
      else if sx_is "must-not-mail" t then
        match sx_bytes a with
        | Some addr => negb (existsb (fun e => match e with
                                              | EMail f _ _ | ERcpt f _ _ => bytes_eqb f addr
                                              | _ => false end) evs)
        | None => false
        end
      else if sx_is "expect-del" t then
        match sx_bytes a with
        | Some body => existsb (fun e => match e with
                                         | EDelivery g tm _ _ => bytes_eqb g body && is_eof tm
                                         | _ => false end) dels
        | None => false
        end
      else true
  | SL [t; a; tm] =>
      if sx_is "expect-last-data" t then
        match sx_bytes a, rev (filter (fun e => match e with EData _ _ _ _ => true | _ => false end) evs) with
        | Some body, EData g t' _ _ :: _ => bytes_eqb g body && term_is tm t'
        | _, _ => false
        end
      else if sx_is "expect-data" t then
        match sx_bytes a, filter (fun e => match e with EData _ _ _ _ => true | _ => false end) evs with
        | Some body, EData g t' _ _ :: _ => bytes_eqb g body && term_is tm t'
        | _, _ => false
        end
      else if sx_is "max-events" t then
        (* at most n backend events of the given kind *)
        let is_k e :=
          match e with
          | EAuth _ _ => sx_is "auth" a
          | EAuthNext _ _ _ _ => sx_is "authnext" a
          | EMail _ _ _ => sx_is "mail" a
          | ERcpt _ _ _ => sx_is "rcpt" a
          | _ => false
          end in
        match sx_N tm with
        | Some n => (N.of_nat (List.length (filter is_k evs)) <=? n)%N
        | None => false
        end
      else true
  | SL [t] =>
      if sx_is "forbid-eof" t then
        negb (existsb (fun e => match e with
                                | EData _ tm _ _ | EDelivery _ tm _ _ => is_eof tm
                                | _ => false end) (evs ++ dels))
      else if sx_is "one-logout" t then
        (* exactly one session was created and it was logged out exactly once *)
        (List.length (filter (fun e => match e with ELogout => true | _ => false end) evs) =? 1)%nat
      else if sx_is "expect-helo-plain" t then
        (* the reply to HELO is the single line "250 2.0.0 Hello <domain>" *)
        existsb (fun l => is_prefix (bs "250 2.0.0 Hello ") l) (wire_lines (all_wire evs))
        && negb (existsb (fun l => is_prefix (bs "250-2.0.0 Hello ") l) (wire_lines (all_wire evs)))
      else true
  | _ => true
  end.

Definition focus_of (expect : list sx) : bytes :=
  match assoc1 "focus" expect with
  | Some (SA a) => a
  | _ => bs "C00"
  end.

(* "(for <prop> <expectation>)": the expectation speaks for the named property rather than for
   the generator's focus *)
Definition for_prop (x : sx) : option (bytes * sx) :=
  match x with
  | SL [t; SA p; e] => if sx_is "for" t then Some (p, e) else None
  | _ => None
  end.

Definition focus_oracle (expect : list sx) (evs dels : list event) : list bytes :=
  let plain := filter (fun x => match for_prop x with None => true | Some _ => false end) expect in
  (if forallb (expectation_ok evs dels) plain then [] else [focus_of expect])
  ++ flat_map (fun x => match for_prop x with
                        | Some (p, e) => if expectation_ok evs dels e then [] else [p]
                        | None => []
                        end) expect.

(* ---------- reply syntax on the wire (C04) and known finding F22 ---------- *)

Definition text_octet_ok (c : ascii) : bool := Ascii.eqb c HT || in_range 32 126 c.

(* a reply line: three digits, SP or '-', printable text (a bare "ddd" is also a reply) *)
Definition wire_line_ok (l : bytes) : bool :=
  match l with
  | a :: b :: c :: rest =>
      is_digit a && is_digit b && is_digit c &&
      match rest with
      | [] => true
      | d :: t => (Ascii.eqb d " " || Ascii.eqb d "-") && forallb text_octet_ok t
      end
  | _ => false
  end.

(* the reply texts that echo octets chosen by the client (F22) *)
Definition echo_line (l : bytes) : bool :=
  let t := skipn 4 l in
  is_prefix (bs "Hello ") t
  || is_prefix (bs "2.0.0 Hello ") t
  || is_prefix (bs "5.5.2 Syntax errors, ") t
  || is_prefix (bs "2.0.0 Roger, accepting mail from <") t
  || is_prefix (bs "2.0.0 I'll make sure <") t
  || (match skipn 6 t with "<" :: _ => true | _ => false end)   (* LMTP: "d.d.d <rcpt> ..." *)
  || (match skipn 5 t with " " :: "<" :: _ => true | _ => false end).

Definition bad_lines (wire : bytes) : list bytes :=
  filter (fun l => negb (wire_line_ok l)) (wire_lines wire).

(* C04 syntax oracle: (violations, known-finding tags) *)
Definition oracle_syntax (backend_texts_printable : bool) (evs : list event) : list bytes * list bytes :=
  let bad := bad_lines (all_wire evs) in
  match bad with
  | [] => ([], [])
  | _ =>
      if forallb (fun l => wire_line_ok (firstn 4 l) && echo_line l) bad then ([bs "C04"], [bs "F22"])
      else if backend_texts_printable then ([bs "C04"], [])
      else ([], [])   (* a scripted backend error text is not printable: outside the property's hypothesis *)
  end.

(* ---------- known finding F6: the line limiter sees pipelined BDAT payload ---------- *)

Fixpoint longest_run (s : bytes) (cur best : nat) : nat :=
  match s with
  | [] => Nat.max cur best
  | c :: t => if Ascii.eqb c LF then longest_run t 0 (Nat.max cur best) else longest_run t (S cur) best
  end.

(* a raw read holds a BDAT command line followed, in the same raw read, by an
   LF-free run longer than the line limit *)
Definition f6_chunk (limit : N) (d : bytes) : bool :=
  (0 <? limit)%N &&
  (fix go (ls : list bytes) : bool :=
     match ls with
     | [] => false
     | l :: r =>
         (is_prefix (bs "BDAT ") (to_upper l)
          && (limit <? N.of_nat (longest_run (join [LF] r) 0 0))%N)
         || go r
     end) (split_byte LF d).

Definition f6_signature (limit : N) (phases : list (list raw)) : bool :=
  existsb (existsb (fun r => match r with RData c d => f6_chunk limit (c :: d) | RFail _ => false end)) phases.
