(* C11: the reference grammar (RefGrammar.v) against the model of
   handleMail / handleRcpt (Parse.v, Xtext.v, Rfc3339.v, Conn.v).

   Completeness on the strict language: a line the reference calls Valid
   reaches the backend with exactly the reference's mailbox and options.
   Soundness of refusal: a line the reference calls Invalid is refused with a
   5xx reply and no callback, for every line (the two former deviations,
   keywords folded with Unicode rules and valued SMTPUTF8 / REQUIRETLS, are
   repaired: parseArgs upper-cases ASCII-only and refuses "KEY=", the two
   flag parameters refuse a value). *)
From Smtp Require Import Bytes GoStrings Utf8 Xtext Parse Reply Rfc3339 Conn Utf8Proofs XtextProofs RefGrammar.
From Coq Require Import Lia ZifyBool ZifyN ZifyNat Permutation.
Local Open Scope char_scope.

(* ------------------------------------------------------------------ *)
(* A. octets and strings                                               *)
(* ------------------------------------------------------------------ *)

Ltac bytecase := apply byte_enum; vm_compute; reflexivity.

(* P c = true -> Q c = true, for all octets *)
Lemma byte_impl (P Q : ascii -> bool) :
  (forall c, (negb (P c) || Q c) = true) -> forall c, P c = true -> Q c = true.
Proof. intros H c Hp. specialize (H c). rewrite Hp in H. exact H. Qed.

Ltac byteimpl := apply byte_impl; bytecase.

Lemma r_up_up1 c : r_up c = up1 c.
Proof. reflexivity. Qed.

Lemma r_upper_map s : r_upper s = map up1 s.
Proof. reflexivity. Qed.

Lemma r_special_eq c : r_special c = dot_string_special c.
Proof. reflexivity. Qed.

Lemma eqb_neq_false (a b : ascii) : a <> b -> Ascii.eqb a b = false.
Proof. intros H. now apply Ascii.eqb_neq. Qed.

Lemma mem_byte_app c a b : mem_byte c (a ++ b) = mem_byte c a || mem_byte c b.
Proof. induction a as [|x a IH]; cbn; [reflexivity|]. rewrite IH. now rewrite orb_assoc. Qed.

Lemma mem_byte_forallb c s : mem_byte c s = false <-> forallb (fun x => negb (Ascii.eqb c x)) s = true.
Proof.
  induction s as [|x s IH]; cbn; [tauto|].
  destruct (Ascii.eqb c x); cbn; [split; discriminate|exact IH].
Qed.

(* ---- to_upper (still used on parameter VALUES) without the two non-ASCII code points ---- *)

Lemma to_upper_cons2 c d t :
  to_upper (c :: d :: t) =
  if Ascii.eqb c (b 197) && Ascii.eqb d (b 191) then "S" :: to_upper t
  else if Ascii.eqb c (b 196) && Ascii.eqb d (b 177) then "I" :: to_upper t
  else up1 c :: to_upper (d :: t).
Proof. reflexivity. Qed.

Lemma fold_trap_cons2 c d t :
  fold_trap (c :: d :: t) =
  (Ascii.eqb c (n_byte 197) && Ascii.eqb d (n_byte 191))
  || (Ascii.eqb c (n_byte 196) && Ascii.eqb d (n_byte 177))
  || fold_trap (d :: t).
Proof. reflexivity. Qed.

Lemma to_upper_no_trap s : fold_trap s = false -> to_upper s = map up1 s.
Proof.
  induction s as [|c s IH]; [reflexivity|].
  destruct s as [|d t]; [reflexivity|].
  rewrite fold_trap_cons2, to_upper_cons2. intros H.
  apply orb_false_iff in H as [H H3]. apply orb_false_iff in H as [H1 H2].
  unfold b. rewrite H1, H2. cbn [map]. f_equal. apply IH. exact H3.
Qed.

Lemma ascii7_not c n : (128 <= n)%N -> (n < 256)%N -> is_ascii7 c = true -> Ascii.eqb c (n_byte n) = false.
Proof.
  intros H1 H2 H. apply Ascii.eqb_neq. intros ->. unfold is_ascii7 in H.
  rewrite byte_n_n_byte in H by exact H2. lia.
Qed.

Lemma fold_trap_ascii s : forallb is_ascii7 s = true -> fold_trap s = false.
Proof.
  induction s as [|c s IH]; [reflexivity|].
  destruct s as [|d t]; [reflexivity|].
  intros H. cbn [forallb] in H. apply andb_true_iff in H as [Hc H].
  rewrite fold_trap_cons2, (IH H).
  rewrite (ascii7_not c 197), (ascii7_not c 196) by (lia || exact Hc). reflexivity.
Qed.

(* ---- white space ---- *)

Definition heads_differ (c : ascii) (l : list bytes) : bool :=
  forallb (fun u => match u with x :: _ => negb (Ascii.eqb x c) | [] => false end) l.

Lemma find_prefix_none l c t :
  heads_differ c l = true -> find (fun u => is_prefix u (c :: t)) l = None.
Proof.
  induction l as [|u l IH]; cbn; [reflexivity|]. intros H.
  apply andb_true_iff in H as [H1 H2]. destruct u as [|x u]; [discriminate|].
  cbn. apply negb_true_iff in H1. rewrite H1. cbn. apply IH. exact H2.
Qed.

Lemma vchar_heads c : r_vchar c = true -> heads_differ c uni_spaces = true.
Proof. revert c. byteimpl. Qed.

Lemma vchar_heads_rev c : r_vchar c = true -> heads_differ c (map (@rev ascii) uni_spaces) = true.
Proof. revert c. byteimpl. Qed.

Lemma vchar_not_space c : r_vchar c = true -> is_ascii_space c = false.
Proof. intros H. apply negb_true_iff. revert c H. byteimpl. Qed.

Lemma space_len_vchar c t : r_vchar c = true -> space_len (c :: t) = 0%nat.
Proof.
  intros H. unfold space_len. rewrite (vchar_not_space c H).
  rewrite (find_prefix_none _ _ _ (vchar_heads c H)). reflexivity.
Qed.

Lemma find_map_rev (l : list bytes) (r : bytes) :
  find (fun u => is_prefix (rev u) r) l
  = match find (fun u => is_prefix u r) (map (@rev ascii) l) with
    | Some u => Some (rev u) | None => None end.
Proof.
  induction l as [|u l IH]; cbn; [reflexivity|].
  destruct (is_prefix (rev u) r); [now rewrite rev_involutive|exact IH].
Qed.

Lemma space_len_rev_vchar c t : r_vchar c = true -> space_len_rev (c :: t) = 0%nat.
Proof.
  intros H. unfold space_len_rev. rewrite (vchar_not_space c H).
  rewrite find_map_rev. rewrite (find_prefix_none _ _ _ (vchar_heads_rev c H)). reflexivity.
Qed.

Lemma trim_left_vchar c t : r_vchar c = true -> trim_left_space (c :: t) = c :: t.
Proof.
  intros H. unfold trim_left_space. cbn [List.length trim_left_f].
  now rewrite (space_len_vchar c t H).
Qed.

Lemma last_rev_head (s : bytes) d : s <> [] -> exists t, rev s = last s d :: t.
Proof.
  intros H. destruct (exists_last H) as [s' [x ->]].
  rewrite rev_app_distr, last_last. cbn. eauto.
Qed.

Lemma trim_space_id s : r_first_last_vchar s = true -> trim_space s = s.
Proof.
  destruct s as [|c t]; [discriminate|]. cbn [r_first_last_vchar]. intros H.
  apply andb_true_iff in H as [H1 H2].
  unfold trim_space. rewrite (trim_left_vchar c t H1).
  unfold trim_right_space.
  destruct (last_rev_head (c :: t) " ") as [r Hr]; [discriminate|].
  rewrite Hr. destruct (List.length (c :: t)) eqn:El; [discriminate|].
  cbn [trim_right_f]. rewrite (space_len_rev_vchar _ r H2).
  rewrite <- Hr. apply rev_involutive.
Qed.

(* ---- the command prefix ---- *)

Definition no_SK (p : bytes) : bool :=
  forallb (fun x => negb (Ascii.eqb (up1 x) "S") && negb (Ascii.eqb (up1 x) "K")) p.

Lemma equal_fold_plain : forall p s, no_SK p = true ->
  equal_fold s p = bytes_eqb (map up1 s) (map up1 p).
Proof.
  induction p as [|x p IH]; intros s H.
  - destruct s; reflexivity.
  - cbn [no_SK forallb] in H. apply andb_true_iff in H as [Hx Hp].
    apply andb_true_iff in Hx as [HS HK].
    apply negb_true_iff in HS. apply negb_true_iff in HK.
    destruct s as [|c t]; [reflexivity|].
    cbn [equal_fold map bytes_eqb]. rewrite HS, HK.
    destruct (Ascii.eqb (up1 c) (up1 x)); cbn; [apply IH; exact Hp|reflexivity].
Qed.

Lemma upper_fixed p : map up1 p = p -> forall s, bytes_eqb (map up1 s) (map up1 p) = bytes_eqb (r_upper s) p.
Proof. intros -> s. reflexivity. Qed.

Lemma firstn_short {A} n (s : list A) : (List.length s < n)%nat -> List.length (firstn n s) <> n.
Proof. intros H. rewrite firstn_length. lia. Qed.

Lemma bytes_eqb_length a b : bytes_eqb a b = true -> List.length a = List.length b.
Proof. intros H. apply bytes_eqb_eq in H. now subst. Qed.

Lemma cut_prefix_fold_ref (p : string) arg :
  no_SK (bs p) = true -> map up1 (bs p) = bs p ->
  cut_prefix_fold arg (bs p) = r_strip_prefix p arg.
Proof.
  intros H1 H2. unfold cut_prefix_fold, r_strip_prefix.
  rewrite (equal_fold_plain _ _ H1), H2.
  destruct (List.length arg <? List.length (bs p))%nat eqn:E; [|reflexivity].
  apply Nat.ltb_lt in E.
  destruct (bytes_eqb (r_upper (firstn (List.length (bs p)) arg)) (bs p)) eqn:E2; [|reflexivity].
  apply bytes_eqb_length in E2. unfold r_upper in E2. rewrite map_length, firstn_length in E2. lia.
Qed.

(* ---- strings.Fields on SP-separated tokens ---- *)

Lemma r_ws_seqs_eq : r_ws_seqs = uni_spaces.
Proof. vm_compute. reflexivity. Qed.

Lemma find_existsb_none {A} (f : A -> bool) l : existsb f l = false -> find f l = None.
Proof.
  induction l as [|x l IH]; cbn; [reflexivity|]. intros H.
  apply orb_false_iff in H as [H1 H2]. rewrite H1. auto.
Qed.

Lemma space_len_sp c t :
  r_other_ws (c :: t) = false ->
  space_len (c :: t) = if Ascii.eqb c " " then 1%nat else 0%nat.
Proof.
  cbn [r_other_ws]. intros H. apply orb_false_iff in H as [H _].
  apply orb_false_iff in H as [H1 H2]. rewrite r_ws_seqs_eq in H2.
  unfold space_len, is_ascii_space. rewrite H1. cbn [orb].
  destruct (Ascii.eqb c " "); [reflexivity|].
  now rewrite (find_existsb_none _ _ H2).
Qed.

Lemma r_other_ws_tl c t : r_other_ws (c :: t) = false -> r_other_ws t = false.
Proof. cbn [r_other_ws]. intros H. apply orb_false_iff in H as [_ H]. exact H. Qed.

Definition flush_cur (cur : bytes) : list bytes := match cur with [] => [] | _ => [rev cur] end.

Fixpoint fields_sp (s cur : bytes) : list bytes :=
  match s with
  | [] => flush_cur cur
  | c :: t =>
      if Ascii.eqb c " " then flush_cur cur ++ fields_sp t []
      else fields_sp t (c :: cur)
  end.

Lemma fields_f_sp : forall s fuel cur,
  r_other_ws s = false -> (List.length s < fuel)%nat -> fields_f fuel s cur = fields_sp s cur.
Proof.
  induction s as [|c t IH]; intros fuel cur Hw Hf.
  - destruct fuel; [cbn in Hf; lia|]. destruct cur; reflexivity.
  - destruct fuel; [cbn in Hf; lia|]. cbn [List.length] in Hf.
    cbn [fields_f fields_sp]. rewrite (space_len_sp c t Hw).
    pose proof (r_other_ws_tl c t Hw) as Hw'.
    destruct (Ascii.eqb c " ").
    + cbn [skipn]. destruct cur; cbn [flush_cur app]; rewrite IH by (assumption || lia); reflexivity.
    + apply IH; [assumption|lia].
Qed.

Lemma split_byte_nonnil c s : split_byte c s <> [].
Proof.
  induction s as [|x s IH]; cbn; [discriminate|].
  destruct (split_byte c s); [contradiction|]. destruct (Ascii.eqb c x); discriminate.
Qed.

Lemma split_byte_cons c x s :
  split_byte c (x :: s) =
  match split_byte c s with
  | h :: r => if Ascii.eqb c x then [] :: h :: r else (x :: h) :: r
  | [] => [[]]
  end.
Proof. reflexivity. Qed.

Lemma flush_cur_filter cur : flush_cur cur = filter r_nonempty [rev cur].
Proof.
  destruct cur as [|x cur]; [reflexivity|]. cbn [flush_cur filter].
  destruct (rev (x :: cur)) eqn:E; [|reflexivity].
  apply (f_equal (@List.length ascii)) in E. rewrite rev_length in E. discriminate.
Qed.

Lemma fields_sp_split : forall s cur,
  fields_sp s cur =
  filter r_nonempty (match split_byte " " s with h :: r => (rev cur ++ h) :: r | [] => [] end).
Proof.
  induction s as [|c t IH]; intros cur.
  - cbn [fields_sp split_byte]. rewrite app_nil_r. apply flush_cur_filter.
  - rewrite split_byte_cons. cbn [fields_sp].
    pose proof (split_byte_nonnil " " t) as Hn.
    destruct (split_byte " " t) as [|h r] eqn:E; [contradiction|].
    rewrite (Ascii.eqb_sym " " c).
    destruct (Ascii.eqb c " ").
    + rewrite IH. cbn [rev app]. rewrite app_nil_r, flush_cur_filter.
      cbn [filter]. destruct (r_nonempty (rev cur)); reflexivity.
    + rewrite IH. cbn [rev]. rewrite <- app_assoc. reflexivity.
Qed.

Lemma filter_all {A} (f : A -> bool) l : forallb f l = true -> filter f l = l.
Proof.
  induction l as [|x l IH]; cbn; [reflexivity|]. intros H.
  apply andb_true_iff in H as [H1 H2]. rewrite H1. f_equal. auto.
Qed.

(* the text after the path, as the reference tokenises it, is what
   strings.Fields makes of it *)
Lemma fields_tokens rest toks : r_tokens rest = CV toks -> fields rest = toks.
Proof.
  unfold r_tokens. destruct rest as [|c ps]; [intros H; inversion H; reflexivity|].
  destruct (Ascii.eqb c " ") eqn:Ec; [|discriminate]. cbn [negb].
  destruct (r_other_ws ps) eqn:Ew; [discriminate|].
  destruct (forallb r_nonempty (split_byte " " ps)) eqn:Ea; [|discriminate].
  intros H. inversion H; subst toks. apply Ascii.eqb_eq in Ec. subst c.
  unfold fields. cbn [List.length].
  change (fields_f (S (S (List.length ps))) (" " :: ps) [])
    with (match space_len (" " :: ps) with
          | O => fields_f (S (List.length ps)) ps [" "]
          | n => fields_f (S (List.length ps)) (skipn n (" " :: ps)) []
          end).
  assert (Hs : space_len (" " :: ps) = 1%nat) by reflexivity.
  rewrite Hs. cbn [skipn].
  rewrite fields_f_sp by (assumption || lia).
  rewrite fields_sp_split. pose proof (split_byte_nonnil " " ps) as Hn.
  destruct (split_byte " " ps) as [|h r]; [contradiction|]. cbn [rev app].
  apply filter_all. exact Ea.
Qed.

(* ------------------------------------------------------------------ *)
(* B. paths                                                            *)
(* ------------------------------------------------------------------ *)

Definition suffix (rest s : bytes) : Prop := exists pre, s = pre ++ rest.

Lemma suffix_refl s : suffix s s.
Proof. exists []. reflexivity. Qed.

Lemma suffix_cons c rest s : suffix rest s -> suffix rest (c :: s).
Proof. intros [pre ->]. exists (c :: pre). reflexivity. Qed.

Lemma suffix_trans a b c : suffix a b -> suffix b c -> suffix a c.
Proof. intros [p ->] [q ->]. exists (q ++ p). now rewrite app_assoc. Qed.

Lemma suffix_mem c rest s : suffix rest s -> mem_byte c rest = true -> mem_byte c s = true.
Proof. intros [pre ->] H. rewrite mem_byte_app, H. apply orb_true_r. Qed.

Lemma suffix_nil s : suffix [] s.
Proof. exists s. now rewrite app_nil_r. Qed.

(* --- quoted strings --- *)

Lemma quoted_ref : forall n s acc lp rest, (List.length s <= n)%nat ->
  r_quoted s acc = Some (lp, rest) -> quoted_go s acc = Some (lp, rest).
Proof.
  induction n as [|n IH]; intros s acc lp rest Hn H.
  - destruct s; [discriminate|cbn in Hn; lia].
  - destruct s as [|c t]; [discriminate|]. cbn [List.length] in Hn.
    cbn [r_quoted] in H. cbn [quoted_go].
    destruct (Ascii.eqb c """") eqn:Eq.
    + apply Ascii.eqb_eq in Eq. subst c. exact H.
    + destruct (Ascii.eqb c "\") eqn:Eb.
      * destruct t as [|d t']; [discriminate|].
        destruct (in_range 32 126 d); [|discriminate].
        apply IH; [cbn [List.length] in Hn; lia|exact H].
      * destruct (r_qtext c); [|discriminate]. apply IH; [lia|exact H].
Qed.

Lemma quoted_go_suffix : forall n s acc lp rest, (List.length s <= n)%nat ->
  quoted_go s acc = Some (lp, rest) -> suffix rest s.
Proof.
  induction n as [|n IH]; intros s acc lp rest Hn H.
  - destruct s; [discriminate|cbn in Hn; lia].
  - destruct s as [|c t]; [discriminate|]. cbn [List.length] in Hn. cbn [quoted_go] in H.
    destruct (Ascii.eqb c "\").
    + destruct t as [|d t']; [discriminate|]. cbn [List.length] in Hn.
      apply suffix_cons, suffix_cons. apply (IH t' (d :: acc) lp rest); [lia|exact H].
    + destruct (Ascii.eqb c """").
      * inversion H; subst. apply suffix_cons, suffix_refl.
      * apply suffix_cons. apply (IH t (c :: acc) lp rest); [lia|exact H].
Qed.

(* --- dot strings --- *)

Lemma dot_string_go_suffix : forall s acc lp rest,
  dot_string_go s acc = Some (lp, rest) -> suffix rest s.
Proof.
  induction s as [|c t IH]; intros acc lp rest H; cbn [dot_string_go] in H.
  - inversion H. apply suffix_refl.
  - destruct (Ascii.eqb c "@"); [inversion H; apply suffix_refl|].
    destruct (dot_string_special c); [discriminate|].
    apply suffix_cons. eapply IH. exact H.
Qed.

Lemma dot_string_go_ok : forall l acc rest,
  existsb r_special l = false -> mem_byte "@" l = false ->
  dot_string_go (l ++ "@" :: rest) acc = Some (rev acc ++ l, "@" :: rest).
Proof.
  induction l as [|c l IH]; intros acc rest Hs Ha.
  - cbn. now rewrite app_nil_r.
  - cbn [existsb] in Hs. apply orb_false_iff in Hs as [Hc Hs].
    cbn [mem_byte] in Ha. apply orb_false_iff in Ha as [Hc2 Ha].
    cbn [app dot_string_go]. rewrite Ascii.eqb_sym in Hc2. rewrite Hc2.
    rewrite <- r_special_eq, Hc. rewrite IH by assumption.
    cbn [rev]. now rewrite <- app_assoc.
Qed.

Lemma dot_string_go_special : forall l acc rest,
  existsb r_special l = true -> mem_byte "@" l = false ->
  dot_string_go (l ++ rest) acc = None.
Proof.
  induction l as [|c l IH]; intros acc rest Hs Ha; [discriminate|].
  cbn [mem_byte] in Ha. apply orb_false_iff in Ha as [Hc2 Ha].
  cbn [app dot_string_go]. rewrite Ascii.eqb_sym in Hc2. rewrite Hc2.
  rewrite <- r_special_eq. cbn [existsb] in Hs.
  destruct (r_special c); [reflexivity|]. apply IH; assumption.
Qed.

(* --- r_span --- *)

Lemma r_span_app p s : let '(a, r) := r_span p s in s = a ++ r.
Proof.
  induction s as [|c t IH]; cbn; [reflexivity|].
  destruct (p c); [reflexivity|]. destruct (r_span p t) as [a r]. cbn. now f_equal.
Qed.

Lemma r_span_before p s a r : r_span p s = (a, r) -> forallb (fun x => negb (p x)) a = true.
Proof.
  revert a r. induction s as [|c t IH]; intros a r H; cbn in H.
  - inversion H. reflexivity.
  - destruct (p c) eqn:E; [inversion H; reflexivity|].
    destruct (r_span p t) as [a' r'] eqn:E2. inversion H; subst. cbn. rewrite E. cbn. eapply IH. reflexivity.
Qed.

Lemma r_span_head p s a r : r_span p s = (a, r) ->
  match r with [] => True | c :: _ => p c = true end.
Proof.
  revert a r. induction s as [|c t IH]; intros a r H; cbn in H.
  - inversion H. exact I.
  - destruct (p c) eqn:E; [inversion H; subst; exact E|].
    destruct (r_span p t) as [a' r'] eqn:E2. inversion H; subst. eapply IH. reflexivity.
Qed.

Lemma r_span_eq_char x s a r :
  r_span (fun c => Ascii.eqb c x) s = (a, r) ->
  s = a ++ r /\ mem_byte x a = false /\ (mem_byte x s = true -> exists r', r = x :: r').
Proof.
  intros H. pose proof (r_span_app (fun c => Ascii.eqb c x) s) as H1. rewrite H in H1.
  pose proof (r_span_before _ _ _ _ H) as H2. pose proof (r_span_head _ _ _ _ H) as H3.
  assert (Ha : mem_byte x a = false).
  { apply mem_byte_forallb. rewrite <- H2. clear. induction a as [|c a IH]; cbn; [reflexivity|].
    rewrite IH. now rewrite Ascii.eqb_sym. }
  repeat split; try assumption.
  intros Hm. rewrite H1, mem_byte_app, Ha in Hm. cbn in Hm.
  destruct r as [|c r']; [discriminate|]. apply Ascii.eqb_eq in H3. subst. eauto.
Qed.

(* --- domains --- *)

Lemma domain_go_suffix : forall s acc dom rest, domain_go s acc = (dom, rest) -> suffix rest s.
Proof.
  induction s as [|c t IH]; intros acc dom rest H; cbn [domain_go] in H.
  - inversion H. apply suffix_refl.
  - destruct (Ascii.eqb c " " || Ascii.eqb c HT || Ascii.eqb c ">"); [inversion H; apply suffix_refl|].
    apply suffix_cons. eapply IH. exact H.
Qed.

Definition dom_char (c : ascii) : bool :=
  negb (Ascii.eqb c " " || Ascii.eqb c HT || Ascii.eqb c ">").

Lemma domain_go_ok : forall dom acc rest,
  forallb dom_char dom = true ->
  match rest with [] => True | c :: _ => dom_char c = false end ->
  domain_go (dom ++ rest) acc = (rev acc ++ dom, rest).
Proof.
  induction dom as [|c dom IH]; intros acc rest Hd Hr.
  - cbn [app]. rewrite app_nil_r. destruct rest as [|c r]; [reflexivity|].
    cbn [domain_go]. unfold dom_char in Hr. apply negb_false_iff in Hr. now rewrite Hr.
  - cbn [forallb] in Hd. apply andb_true_iff in Hd as [Hc Hd].
    cbn [app domain_go]. unfold dom_char in Hc. apply negb_true_iff in Hc. rewrite Hc.
    rewrite IH by assumption. cbn [rev]. now rewrite <- app_assoc.
Qed.

Lemma has_suffix_at_last s c : c <> "@" -> has_suffix (s ++ [c]) (bs "@") = false.
Proof.
  intros H. unfold has_suffix, is_suffix. rewrite rev_app_distr.
  change (is_prefix (rev (bs "@")) (rev [c] ++ rev s)) with (Ascii.eqb "@" c && true).
  rewrite (eqb_neq_false "@" c) by congruence. reflexivity.
Qed.

Lemma has_suffix_at s : has_suffix (s ++ ["@"]) (bs "@") = true.
Proof. unfold has_suffix, is_suffix. rewrite rev_app_distr. reflexivity. Qed.

Definition ldh_dot (c : ascii) : bool := r_alnum c || Ascii.eqb c "-" || Ascii.eqb c ".".

Lemma split_labels_chars : forall d,
  forallb (fun l => forallb (fun x => r_alnum x || Ascii.eqb x "-") l) (split_byte "." d) = true ->
  forallb ldh_dot d = true.
Proof.
  induction d as [|x s IH]; [reflexivity|]. rewrite split_byte_cons.
  pose proof (split_byte_nonnil "." s) as Hn.
  destruct (split_byte "." s) as [|h r]; [contradiction|].
  destruct (Ascii.eqb "." x) eqn:E.
  - intros H. cbn [forallb] in H. cbn [forallb]. rewrite (IH H).
    apply Ascii.eqb_eq in E. subst x. reflexivity.
  - intros H. cbn [forallb] in H. apply andb_true_iff in H as [H1 H2].
    apply andb_true_iff in H1 as [Hx Hh].
    cbn [forallb]. rewrite IH by (cbn [forallb]; now rewrite Hh, H2).
    unfold ldh_dot. rewrite Hx. reflexivity.
Qed.

Lemma sub_domain_ldh l : r_sub_domain l = true -> forallb (fun x => r_alnum x || Ascii.eqb x "-") l = true.
Proof.
  destruct l as [|c t]; [discriminate|]. unfold r_sub_domain. intros H.
  apply andb_true_iff in H as [_ H]. exact H.
Qed.

Lemma forallb_impl {A} (f g : A -> bool) l :
  (forall x, f x = true -> g x = true) -> forallb f l = true -> forallb g l = true.
Proof.
  intros Hfg. induction l as [|x l IH]; cbn; [reflexivity|]. intros H.
  apply andb_true_iff in H as [H1 H2]. rewrite (Hfg _ H1), (IH H2). reflexivity.
Qed.

Lemma ldh_dot_dom_char c : ldh_dot c = true -> dom_char c = true.
Proof. revert c. byteimpl. Qed.
Lemma ldh_dot_not_at c : ldh_dot c = true -> negb (Ascii.eqb c "@") = true.
Proof. revert c. byteimpl. Qed.
Lemma dcontent_dom_char c : r_dcontent c = true -> dom_char c = true.
Proof. revert c. byteimpl. Qed.

Lemma forallb_app {A} (f : A -> bool) a b : forallb f (a ++ b) = forallb f a && forallb f b.
Proof. induction a as [|x a IH]; cbn; [reflexivity|]. now rewrite IH, andb_assoc. Qed.

Lemma forallb_rev {A} (f : A -> bool) l : forallb f (rev l) = forallb f l.
Proof.
  induction l as [|x l IH]; [reflexivity|]. cbn [rev forallb].
  rewrite forallb_app, IH. cbn. now rewrite andb_true_r, andb_comm.
Qed.

(* what the implementation's domain scanner needs to know about a valid domain *)
Lemma r_domain_shape d : r_domain d = true ->
  forallb dom_char d = true /\ exists d' c, d = d' ++ [c] /\ c <> "@".
Proof.
  unfold r_domain. intros H. apply orb_true_iff in H as [H|H].
  - unfold r_addr_literal in H. destruct d as [|c t]; [discriminate|].
    apply andb_true_iff in H as [Hc H]. apply Ascii.eqb_eq in Hc. subst c.
    destruct (rev t) as [|e body] eqn:Er; [discriminate|].
    apply andb_true_iff in H as [H Hb]. apply andb_true_iff in H as [He _].
    apply Ascii.eqb_eq in He. subst e.
    assert (Et : t = rev body ++ ["]"]).
    { rewrite <- (rev_involutive t), Er. reflexivity. }
    subst t. split.
    + cbn [forallb]. rewrite forallb_app, forallb_rev.
      rewrite (forallb_impl _ _ _ dcontent_dom_char Hb). reflexivity.
    + exists ("[" :: rev body), "]". split; [reflexivity|discriminate].
  - assert (Hl : forallb ldh_dot d = true).
    { apply split_labels_chars. eapply forallb_impl; [|exact H]. apply sub_domain_ldh. }
    split; [eapply forallb_impl; [|exact Hl]; apply ldh_dot_dom_char|].
    destruct d as [|x d0]; [discriminate|].
    destruct (@exists_last _ (x :: d0)) as [d' [c E]]; [discriminate|].
    exists d', c. split; [exact E|]. rewrite E, forallb_app in Hl.
    apply andb_true_iff in Hl as [_ Hl]. cbn in Hl. rewrite andb_true_r in Hl.
    apply ldh_dot_not_at, negb_true_iff, Ascii.eqb_neq in Hl. exact Hl.
Qed.

(* --- local parts and mailboxes --- *)

Lemma dot_string_nonempty l : r_dot_string l = true -> l <> [].
Proof. intros H ->. discriminate. Qed.

Lemma r_local_at_valid s lp d :
  mem_byte "@" s = true -> r_local_at s = CV (lp, d) ->
  parse_local_part s = Some (lp, "@" :: d) /\ lp <> [] /\ suffix d s.
Proof.
  intros Hat H. destruct s as [|c t]; [discriminate|]. unfold r_local_at in H.
  unfold parse_local_part. destruct (Ascii.eqb c """") eqn:Eq.
  - destruct (r_quoted t []) as [[lp' r']|] eqn:Er; [|discriminate].
    destruct lp' as [|x lp']; [discriminate|]. destruct r' as [|a d']; [discriminate|].
    destruct (Ascii.eqb a "@") eqn:Ea; [|discriminate].
    apply Ascii.eqb_eq in Ea. subst a. inversion H; subst lp d.
    pose proof (quoted_ref _ t [] _ _ (le_n _) Er) as Hq.
    split; [exact Hq|]. split; [discriminate|].
    apply suffix_cons. eapply suffix_trans; [|eapply quoted_go_suffix; [apply le_n|exact Hq]].
    apply suffix_cons, suffix_refl.
  - destruct (r_span (fun x => Ascii.eqb x "@") (c :: t)) as [l r] eqn:Es.
    destruct (existsb r_special l) eqn:Esp; [discriminate|].
    destruct (r_dot_string l) eqn:Ed; [|discriminate].
    inversion H; subst lp d.
    destruct (r_span_eq_char _ _ _ _ Es) as [E1 [E2 E3]].
    destruct (E3 Hat) as [r' ->]. cbn [tl]. rewrite E1.
    rewrite dot_string_go_ok by assumption. cbn [rev app].
    split; [reflexivity|]. split; [now apply dot_string_nonempty|].
    exists (l ++ ["@"]). now rewrite <- app_assoc.
Qed.

Lemma r_local_at_invalid s :
  r_local_at s = CI -> s <> [] -> parse_local_part s = None.
Proof.
  intros H Hn. destruct s as [|c t]; [contradiction|]. unfold r_local_at in H.
  unfold parse_local_part. destruct (Ascii.eqb c """") eqn:Eq.
  - destruct (r_quoted t []) as [[[|x lp'] [|a d']]|]; try discriminate.
    destruct (Ascii.eqb a "@"); discriminate.
  - destruct (r_span (fun x => Ascii.eqb x "@") (c :: t)) as [l r] eqn:Es.
    destruct (r_span_eq_char _ _ _ _ Es) as [E1 [E2 _]].
    destruct (existsb r_special l) eqn:Esp.
    + rewrite E1. now apply dot_string_go_special.
    + destruct (r_dot_string l); discriminate.
Qed.

Lemma parse_mailbox_valid s lp dom rest :
  mem_byte "@" s = true -> r_local_at s = CV (lp, dom ++ rest) ->
  dom <> [] -> r_domain dom = true ->
  match rest with [] => True | c :: _ => dom_char c = false end ->
  parse_mailbox s = Some (lp ++ "@" :: dom, rest).
Proof.
  intros Hat Hl Hne Hd Hr.
  destruct (r_local_at_valid _ _ _ Hat Hl) as [Hp [Hlp _]].
  destruct (r_domain_shape _ Hd) as [Hdc [d' [c [Ed Hc]]]].
  unfold parse_mailbox. rewrite Hp. destruct lp as [|x lp]; [contradiction|].
  rewrite (Ascii.eqb_refl "@").
  rewrite (domain_go_ok dom [] rest Hdc Hr). cbn [rev app].
  assert (E : (x :: lp) ++ "@" :: dom = ((x :: lp) ++ "@" :: d') ++ [c]).
  { rewrite Ed. rewrite <- app_assoc. reflexivity. }
  rewrite E at 1. rewrite has_suffix_at_last by exact Hc. reflexivity.
Qed.

Lemma parse_mailbox_suffix s mb rest :
  parse_mailbox s = Some (mb, rest) -> suffix rest s /\ mem_byte "@" s = true.
Proof.
  unfold parse_mailbox. destruct (parse_local_part s) as [[lp r]|] eqn:El; [|discriminate].
  assert (Hs : suffix r s).
  { unfold parse_local_part in El. destruct s as [|c t]; [eapply dot_string_go_suffix; exact El|].
    destruct (Ascii.eqb c """").
    - apply suffix_cons. eapply quoted_go_suffix; [apply le_n|exact El].
    - eapply dot_string_go_suffix; exact El. }
  destruct lp as [|x lp]; [discriminate|]. destruct r as [|c r']; [discriminate|].
  destruct (Ascii.eqb c "@") eqn:Ec; [|discriminate]. apply Ascii.eqb_eq in Ec. subst c.
  destruct (domain_go r' []) as [dom rest'] eqn:Ed.
  destruct (has_suffix _ _); [discriminate|]. intros H. inversion H; subst.
  split.
  - eapply suffix_trans; [eapply domain_go_suffix; exact Ed|].
    eapply suffix_trans; [|exact Hs]. apply suffix_cons, suffix_refl.
  - eapply suffix_mem; [exact Hs|]. reflexivity.
Qed.

(* --- paths --- *)

Lemma cut_byte_split c t a r : cut_byte c t = Some (a, r) -> t = a ++ c :: r.
Proof.
  revert a r. induction t as [|x t IH]; intros a r H; [discriminate|]. cbn in H.
  destruct (Ascii.eqb c x) eqn:E.
  - apply Ascii.eqb_eq in E. inversion H; subst. reflexivity.
  - destruct (cut_byte c t) as [[a' r']|]; [|discriminate]. inversion H; subst.
    cbn. f_equal. now apply IH.
Qed.

Lemma cut_byte_none c t : mem_byte c t = false -> cut_byte c t = None.
Proof.
  induction t as [|x t IH]; [reflexivity|]. cbn. intros H.
  apply orb_false_iff in H as [H1 H2]. rewrite H1, (IH H2). reflexivity.
Qed.

Lemma parse_path_some r mb rest :
  parse_path r = Some (mb, rest) ->
  mem_byte "@" r = true /\ (forall s, r = "<" :: s -> mem_byte ">" s = true).
Proof.
  unfold parse_path.
  set (bs1 := match r with
              | c :: t => if Ascii.eqb c "<" then (true, t) else (false, r)
              | [] => (false, r) end).
  assert (Hbs : suffix (snd bs1) r /\ (fst bs1 = true -> r = "<" :: snd bs1)
                /\ (forall s, r = "<" :: s -> fst bs1 = true)).
  { subst bs1. destruct r as [|c t]; [split; [apply suffix_refl|split; [discriminate|discriminate]]|].
    destruct (Ascii.eqb c "<") eqn:E; cbn.
    - apply Ascii.eqb_eq in E. subst c. split; [apply suffix_cons, suffix_refl|]. split; auto.
    - split; [apply suffix_refl|]. split; [discriminate|]. intros s Hs. inversion Hs; subst. discriminate. }
  destruct bs1 as [bracket s1]. cbn [fst snd] in Hbs. destruct Hbs as [Hs1 [Hb1 Hb2]].
  set (s2o := match s1 with
              | c :: t => if Ascii.eqb c "@" then match cut_byte ":" t with Some (_, r0) => Some r0 | None => None end else Some s1
              | [] => Some s1 end).
  assert (Hs2 : forall s2, s2o = Some s2 -> suffix s2 s1).
  { subst s2o. intros s2. destruct s1 as [|c t]; [intros H; inversion H; apply suffix_refl|].
    destruct (Ascii.eqb c "@"); [|intros H; inversion H; apply suffix_refl].
    destruct (cut_byte ":" t) as [[a r0]|] eqn:Ec; [|discriminate].
    intros H. inversion H; subst. apply cut_byte_split in Ec. subst t.
    apply suffix_cons. exists (a ++ [":"]). now rewrite <- app_assoc. }
  destruct s2o as [s2|]; [|discriminate]. specialize (Hs2 s2 eq_refl).
  destruct (parse_mailbox s2) as [[mbox r']|] eqn:Em; [|discriminate].
  destruct (parse_mailbox_suffix _ _ _ Em) as [Hr' Hat].
  intros H. split.
  - eapply suffix_mem; [eapply suffix_trans; [exact Hs2|exact Hs1]|exact Hat].
  - intros s Hs. specialize (Hb2 s Hs). subst bracket. specialize (Hb1 eq_refl).
    rewrite Hs in Hb1. inversion Hb1; subst s1.
    destruct r' as [|c r'']; [discriminate|]. destruct (Ascii.eqb c ">") eqn:Ec; [|discriminate].
    apply Ascii.eqb_eq in Ec. subst c.
    eapply suffix_mem; [eapply suffix_trans; [exact Hr'|exact Hs2]|reflexivity].
Qed.

Lemma parse_path_bracket s :
  match s with c :: _ => Ascii.eqb c "@" = false | [] => True end ->
  parse_path ("<" :: s) =
  match parse_mailbox s with
  | Some (mbox, c :: r') => if Ascii.eqb c ">" then Some (mbox, r') else None
  | _ => None
  end.
Proof.
  intros H. unfold parse_path. rewrite (Ascii.eqb_refl "<").
  destruct s as [|c t].
  - reflexivity.
  - rewrite H. destruct (parse_mailbox (c :: t)) as [[mbox [|c' r']]|]; reflexivity.
Qed.

Lemma r_path_valid null_ok r mb rest :
  r_path null_ok r = CV (mb, rest) ->
  (if null_ok then parse_reverse_path r else parse_path r) = Some (mb, rest).
Proof.
  unfold r_path.
  destruct (null_ok && is_prefix (bs "<>") r) eqn:En.
  - apply andb_true_iff in En as [-> Hp]. intros H. inversion H; subst.
    unfold parse_reverse_path, has_prefix. now rewrite Hp.
  - destruct (mem_byte "@" r) eqn:Hat; [|discriminate]. cbn [negb].
    destruct r as [|c s]; [discriminate|].
    destruct (Ascii.eqb c "<") eqn:Ec; [|discriminate]. cbn [negb].
    apply Ascii.eqb_eq in Ec. subst c.
    destruct (mem_byte ">" s) eqn:Hgt; [|discriminate]. cbn [negb].
    destruct s as [|c1 s']; [discriminate|].
    destruct (Ascii.eqb c1 "@") eqn:Ec1; [destruct (mem_byte ":" (c1 :: s')); discriminate|].
    destruct (r_local_at (c1 :: s')) as [[lp d]| |] eqn:El; try discriminate.
    destruct (mem_byte ">" d) eqn:Hgd; [|discriminate]. cbn [negb].
    destruct (r_span (fun x => Ascii.eqb x ">") d) as [dom r2] eqn:Es.
    destruct dom as [|x dom]; [discriminate|].
    destruct (r_domain (x :: dom)) eqn:Ed; [|discriminate].
    intros H. inversion H; subst mb rest.
    destruct (r_span_eq_char _ _ _ _ Es) as [E1 [_ E3]]. destruct (E3 Hgd) as [r2' ->]. cbn [tl].
    assert (Hat' : mem_byte "@" (c1 :: s') = true) by exact Hat.
    rewrite E1 in El.
    pose proof (parse_mailbox_valid _ _ _ _ Hat' El ltac:(discriminate) Ed ltac:(reflexivity)) as Hm.
    assert (Hpp : parse_path ("<" :: c1 :: s') = Some (lp ++ "@" :: x :: dom, r2')).
    { rewrite parse_path_bracket by exact Ec1. rewrite Hm. reflexivity. }
    destruct null_ok; [|exact Hpp].
    unfold parse_reverse_path, has_prefix. cbn [andb] in En. rewrite En. exact Hpp.
Qed.

Lemma r_path_invalid null_ok r :
  r_path null_ok r = CI ->
  (if null_ok then parse_reverse_path r else parse_path r) = None.
Proof.
  unfold r_path.
  destruct (null_ok && is_prefix (bs "<>") r) eqn:En; [discriminate|].
  intros H.
  assert (Hpp : parse_path r = None).
  { destruct (parse_path r) as [[mb rest]|] eqn:Ep; [|reflexivity]. exfalso.
    destruct (parse_path_some _ _ _ Ep) as [Hat Hgt].
    rewrite Hat in H. cbn [negb] in H.
    destruct r as [|c s]; [discriminate|].
    destruct (Ascii.eqb c "<") eqn:Ec; [|discriminate]. cbn [negb] in H.
    apply Ascii.eqb_eq in Ec. subst c. rewrite (Hgt s eq_refl) in H. cbn [negb] in H.
    destruct s as [|c1 s']; [discriminate|].
    destruct (Ascii.eqb c1 "@") eqn:Ec1.
    - apply Ascii.eqb_eq in Ec1. subst c1.
      destruct (mem_byte ":" ("@" :: s')) eqn:Hc; [discriminate|].
      cbn [mem_byte] in Hc. apply orb_false_iff in Hc as [_ Hc].
      unfold parse_path in Ep. cbn in Ep. rewrite (cut_byte_none _ _ Hc) in Ep. discriminate.
    - rewrite parse_path_bracket in Ep by exact Ec1.
      destruct (r_local_at (c1 :: s')) as [[lp d]| |] eqn:El; try discriminate.
      + assert (Hat' : mem_byte "@" (c1 :: s') = true) by exact Hat.
        destruct (r_local_at_valid _ _ _ Hat' El) as [Hlp [Hne _]].
        unfold parse_mailbox in Ep. rewrite Hlp in Ep.
        destruct lp as [|y lp]; [contradiction|]. rewrite (Ascii.eqb_refl "@") in Ep.
        destruct (domain_go d []) as [dom rest'] eqn:Edg.
        destruct (mem_byte ">" d) eqn:Hgd; cbn [negb] in H.
        * destruct (r_span (fun x => Ascii.eqb x ">") d) as [dom' r2] eqn:Es.
          destruct dom' as [|x dom']; [|destruct (r_domain (x :: dom')); discriminate].
          destruct (r_span_eq_char _ _ _ _ Es) as [E1 [_ E3]]. destruct (E3 Hgd) as [r2' ->].
          cbn [app] in E1. subst d. cbn in Edg. inversion Edg; subst dom rest'.
          change ((y :: lp) ++ ["@"]) with ((y :: lp) ++ ["@"]) in Ep.
          rewrite (has_suffix_at (y :: lp)) in Ep. discriminate.
        * destruct (has_suffix _ _); [discriminate|].
          destruct rest' as [|c' r'']; [discriminate|].
          destruct (Ascii.eqb c' ">") eqn:Ec'; [|discriminate]. apply Ascii.eqb_eq in Ec'. subst c'.
          pose proof (domain_go_suffix _ _ _ _ Edg) as Hsf.
          rewrite (suffix_mem ">" _ _ Hsf eq_refl) in Hgd. discriminate.
      + unfold parse_mailbox in Ep.
        rewrite (r_local_at_invalid _ El ltac:(discriminate)) in Ep. discriminate. }
  destruct null_ok; [|exact Hpp].
  unfold parse_reverse_path, has_prefix. cbn [andb] in En. rewrite En. exact Hpp.
Qed.

(* ------------------------------------------------------------------ *)
(* C. tokens and parseArgs                                             *)
(* ------------------------------------------------------------------ *)

Lemma split_byte_no c s : mem_byte c s = false -> split_byte c s = [s].
Proof.
  induction s as [|x s IH]; [reflexivity|]. cbn [mem_byte]. intros H.
  apply orb_false_iff in H as [H1 H2]. rewrite split_byte_cons, (IH H2), H1. reflexivity.
Qed.

Lemma split_byte_at c a r : mem_byte c a = false -> split_byte c (a ++ c :: r) = a :: split_byte c r.
Proof.
  induction a as [|x a IH]; intros H.
  - cbn [app]. rewrite split_byte_cons. pose proof (split_byte_nonnil c r).
    destruct (split_byte c r); [contradiction|]. now rewrite Ascii.eqb_refl.
  - cbn [mem_byte] in H. apply orb_false_iff in H as [H1 H2].
    cbn [app]. rewrite split_byte_cons, (IH H2), H1. reflexivity.
Qed.

Definition tok_val (tok : bytes) : bytes :=
  match snd (r_tok_split tok) with Some v => v | None => [] end.
(* parseArgs takes the token: a bare keyword, or one '=' and a non-empty value *)
Definition tok_ok (tok : bytes) : bool :=
  match snd (r_tok_split tok) with Some v => negb (r_bad_value v) | None => true end.
Definition tok_k (tok : bytes) : bytes := fst (r_tok_split tok).

Definition go_kv (tok : bytes) : option (bytes * bytes) :=
  match split_byte "=" tok with
  | [k; v] => match v with [] => None | _ => Some (to_upper_ascii k, v) end
  | [k] => Some (to_upper_ascii k, [])
  | _ => None
  end.

Lemma parse_args_go_cons a r m :
  parse_args_go (a :: r) m =
  match go_kv a with Some (k, v) => parse_args_go r (assoc_set k v m) | None => None end.
Proof.
  cbn [parse_args_go]. unfold go_kv.
  destruct (split_byte "=" a) as [|k [|v [|w l]]]; try reflexivity.
  destruct v; reflexivity.
Qed.

Lemma go_kv_ref tok :
  go_kv tok = if tok_ok tok then Some (r_tok_key tok, tok_val tok) else None.
Proof.
  unfold go_kv, tok_ok, tok_val, tok_k, r_tok_key, r_bad_value, r_tok_split.
  change to_upper_ascii with r_upper.
  destruct (r_span (fun x => Ascii.eqb x "=") tok) as [k r] eqn:Es.
  destruct (r_span_eq_char _ _ _ _ Es) as [E1 [E2 E3]]. cbn [fst snd].
  destruct r as [|c v].
  - rewrite app_nil_r in E1. subst k. now rewrite (split_byte_no _ _ E2).
  - assert (Hm : mem_byte "=" tok = true).
    { rewrite E1, mem_byte_app.
      pose proof (r_span_head _ _ _ _ Es) as Hh. cbn in Hh. apply Ascii.eqb_eq in Hh. subst c.
      cbn. apply orb_true_r. }
    destruct (E3 Hm) as [r' Er]. inversion Er; subst c r'.
    rewrite E1, (split_byte_at _ _ _ E2).
    destruct (mem_byte "=" v) eqn:Ev; rewrite ?orb_true_r, ?orb_false_r; cbn [negb].
    + destruct v as [|x v']; [discriminate|].
      rewrite split_byte_cons. pose proof (split_byte_nonnil "=" v').
      destruct (split_byte "=" v') as [|h l] eqn:Esp; [contradiction|].
      destruct (Ascii.eqb "=" x) eqn:Ex; [reflexivity|].
      destruct l as [|h2 l]; [|reflexivity].
      (* v' has no '=' would make [x :: v'] a single field: but '=' is in it *)
      exfalso. cbn [mem_byte] in Ev. rewrite Ex in Ev. cbn in Ev.
      assert (Hv' : mem_byte "=" v' = false).
      { destruct (mem_byte "=" v') eqn:E; [|reflexivity]. exfalso.
        clear - Esp E. revert h Esp. induction v' as [|y v' IH]; intros h Esp; [discriminate|].
        rewrite split_byte_cons in Esp. pose proof (split_byte_nonnil "=" v').
        destruct (split_byte "=" v') as [|h' l'] eqn:E'; [contradiction|].
        cbn [mem_byte] in E. destruct (Ascii.eqb "=" y); [discriminate|]. cbn in E.
        inversion Esp; subst. eapply IH; [exact E|reflexivity]. }
      congruence.
    + rewrite (split_byte_no _ _ Ev). destruct v; reflexivity.
Qed.

Lemma assoc_set_fresh k v m :
  existsb (bytes_eqb k) (map fst m) = false -> assoc_set k v m = m ++ [(k, v)].
Proof.
  induction m as [|[k' v'] m IH]; [reflexivity|]. cbn. intros H.
  apply orb_false_iff in H as [H1 H2]. rewrite H1. f_equal. auto.
Qed.

Definition tok_pair (tok : bytes) : bytes * bytes := (r_tok_key tok, tok_val tok).

Lemma existsb_app {A} (f : A -> bool) a b : existsb f (a ++ b) = existsb f a || existsb f b.
Proof. induction a as [|x a IH]; cbn; [reflexivity|]. now rewrite IH, orb_assoc. Qed.

Lemma parse_args_go_tokens : forall toks m,
  forallb tok_ok toks = true ->
  r_nodup (map r_tok_key toks) = true ->
  (forall tok, In tok toks -> existsb (bytes_eqb (r_tok_key tok)) (map fst m) = false) ->
  parse_args_go toks m = Some (m ++ map tok_pair toks).
Proof.
  induction toks as [|a r IH]; intros m Hok Hnd Hm.
  - cbn. now rewrite app_nil_r.
  - cbn [forallb] in Hok. apply andb_true_iff in Hok as [Ha Hok].
    cbn [map r_nodup] in Hnd. apply andb_true_iff in Hnd as [Hna Hnd].
    apply negb_true_iff in Hna.
    rewrite parse_args_go_cons, go_kv_ref, Ha.
    rewrite assoc_set_fresh by (apply Hm; now left).
    rewrite IH; try assumption.
    + cbn [map]. now rewrite <- app_assoc.
    + intros tok Ht. rewrite map_app, existsb_app, (Hm tok (or_intror Ht)). cbn.
      rewrite orb_false_r.
      destruct (bytes_eqb (r_tok_key tok) (r_tok_key a)) eqn:E; [|reflexivity].
      apply bytes_eqb_eq in E. exfalso.
      assert (Hex : existsb (bytes_eqb (r_tok_key a)) (map r_tok_key r) = true).
      { apply existsb_exists. exists (r_tok_key tok). split; [now apply in_map|].
        rewrite E. apply bytes_eqb_refl. }
      congruence.
Qed.

Lemma parse_args_go_bad : forall toks m tok,
  In tok toks -> tok_ok tok = false -> parse_args_go toks m = None.
Proof.
  induction toks as [|a r IH]; intros m tok Hin Hb; [contradiction|].
  rewrite parse_args_go_cons, go_kv_ref. destruct Hin as [->|Hin].
  - now rewrite Hb.
  - destruct (tok_ok a); [|reflexivity]. eapply IH; eassumption.
Qed.

(* ------------------------------------------------------------------ *)
(* D. the parameter loops                                              *)
(* ------------------------------------------------------------------ *)

(* sort_kv is a permutation *)
Lemma insert_kv_perm x l : Permutation (insert_kv x l) (x :: l).
Proof.
  induction l as [|y l IH]; cbn; [apply Permutation_refl|].
  destruct (bytes_ltb (fst x) (fst y)); [apply Permutation_refl|].
  eapply Permutation_trans; [apply perm_skip; exact IH|apply perm_swap].
Qed.

Lemma sort_kv_perm l : Permutation (sort_kv l) l.
Proof.
  induction l as [|x l IH]; cbn; [apply perm_nil|].
  eapply Permutation_trans; [apply insert_kv_perm|now apply perm_skip].
Qed.

Section Loop.
  Context {P O ST F : Type}.
  (* one step: state [ST] (options and flags) is updated, or the step fails *)
  Variable step : bytes -> bytes -> ST -> ST + F.
  Variable apply : ST -> P -> ST.

  Fixpoint loop (args : list (bytes * bytes)) (st : ST) : ST + F :=
    match args with
    | [] => inl st
    | (k, v) :: r => match step k v st with inl st' => loop r st' | inr f => inr f end
    end.

  Definition item_ok (it : bytes * bytes * P) : Prop :=
    forall st, step (fst (fst it)) (snd (fst it)) st = inl (apply st (snd it)).

  Lemma loop_items : forall items st,
    Forall item_ok items ->
    loop (map fst items) st = inl (fold_left apply (map snd items) st).
  Proof.
    induction items as [|[[k v] p] items IH]; intros st H; [reflexivity|].
    inversion H as [|? ? H1 H2]; subst. cbn [map loop fst snd fold_left].
    unfold item_ok in H1. cbn [fst snd] in H1. rewrite (H1 st). now apply IH.
  Qed.

  Lemma loop_fails : forall args st k v,
    In (k, v) args -> (forall st', exists f, step k v st' = inr f) ->
    exists f, loop args st = inr f.
  Proof.
    induction args as [|[k' v'] r IH]; intros st k v Hin Hf; [contradiction|].
    cbn [loop]. destruct Hin as [E|Hin].
    - inversion E; subst. destruct (Hf st) as [f ->]. eauto.
    - destruct (step k' v' st) as [st'|f]; [|eauto]. eapply IH; eassumption.
  Qed.

  (* order independence for commuting updates *)
  Variable kind : P -> bytes.
  Hypothesis apply_comm : forall st p q, kind p <> kind q ->
    apply (apply st p) q = apply (apply st q) p.

  Lemma fold_perm : forall l l', Permutation l l' -> NoDup (map kind l) ->
    forall st, fold_left apply l st = fold_left apply l' st.
  Proof.
    induction 1 as [|x l l' Hp IH|x y l|l l' l'' H1 IH1 H2 IH2]; intros Hnd st.
    - reflexivity.
    - cbn. inversion Hnd; subst. now apply IH.
    - cbn. inversion Hnd as [|? ? Hx Hnd']; subst. f_equal. apply apply_comm.
      intros E. apply Hx. cbn. left. now symmetry.
    - rewrite IH1 by assumption. apply IH2.
      eapply Permutation_NoDup; [apply Permutation_map; exact H1|exact Hnd].
  Qed.
End Loop.

Definition mail_step (cfg : config) (k v : bytes) (st : mail_opts * bool) : (mail_opts * bool) + rfail :=
  mail_param cfg k v (fst st) (snd st).

Lemma mail_params_loop_inl cfg args : forall o bm st,
  loop (mail_step cfg) args (o, bm) = inl st -> mail_params cfg args o bm = inl st.
Proof.
  induction args as [|[k v] r IH]; intros o bm st H; [inversion H; reflexivity|].
  cbn [loop mail_params] in *. unfold mail_step in H at 1. cbn [fst snd] in H.
  destruct (mail_param cfg k v o bm) as [[o' bm']|f]; [now apply IH|discriminate].
Qed.

Lemma mail_params_loop_inr cfg args : forall o bm f,
  loop (mail_step cfg) args (o, bm) = inr f -> exists bm', mail_params cfg args o bm = inr (f, bm').
Proof.
  induction args as [|[k v] r IH]; intros o bm f H; [discriminate|].
  cbn [loop mail_params] in *. unfold mail_step in H at 1. cbn [fst snd] in H.
  destruct (mail_param cfg k v o bm) as [[o' bm']|f']; [now apply IH|].
  inversion H; subst. eauto.
Qed.

Lemma rcpt_params_loop cfg args o :
  rcpt_params cfg args o = loop (rcpt_param cfg) args o.
Proof.
  revert o. induction args as [|[k v] r IH]; intros o; [reflexivity|].
  cbn [rcpt_params loop]. destruct (rcpt_param cfg k v o); [apply IH|reflexivity].
Qed.

Lemma r_nodup_NoDup l : r_nodup l = true -> NoDup l.
Proof.
  induction l as [|x l IH]; [constructor|]. cbn [r_nodup]. intros H.
  apply andb_true_iff in H as [H1 H2]. constructor; [|auto].
  intros Hin. apply negb_true_iff in H1.
  assert (existsb (bytes_eqb x) l = true).
  { apply existsb_exists. exists x. split; [exact Hin|apply bytes_eqb_refl]. }
  congruence.
Qed.

(* a sorted list of pairs as the image of a permuted list of items *)
Lemma perm_map_items {A} (f : A -> bytes * bytes) (items : list A) l :
  Permutation l (map f items) -> exists items', Permutation items' items /\ l = map f items'.
Proof.
  intros H.
  destruct (Permutation_map_inv _ _ H) as [items' [E Hp]].
  exists items'. split; [now apply Permutation_sym|exact E].
Qed.

(* ------------------------------------------------------------------ *)
(* E. xtext                                                            *)
(* ------------------------------------------------------------------ *)

Lemma r_hexval_hexU c : r_hexval c = hexU c.
Proof. reflexivity. Qed.

Lemma hexU_lt c a : hexU c = Some a -> (a < 16)%N.
Proof.
  unfold hexU, is_digit, in_range. intros H.
  destruct ((48 <=? byte_n c)%N && (byte_n c <=? 57)%N) eqn:E1.
  - inversion H. lia.
  - destruct ((65 <=? byte_n c)%N && (byte_n c <=? 70)%N) eqn:E2; [|discriminate]. inversion H. lia.
Qed.

(* the reference decoder's result, when 7-bit, is the implementation's *)
Lemma r_xtext_go : forall n v d, (List.length v <= n)%nat ->
  r_xtext v = Some d -> forallb is_ascii7 d = true -> decode_xtext_go v = Some d.
Proof.
  induction n as [|n IH]; intros v d Hn H Ha.
  - destruct v; [inversion H; reflexivity|cbn in Hn; lia].
  - destruct v as [|c t]; [inversion H; reflexivity|]. cbn [List.length] in Hn.
    cbn [r_xtext] in H. cbn [decode_xtext_go].
    destruct (Ascii.eqb c "+").
    + destruct t as [|h1 [|h2 t']]; try discriminate. change r_hexval with hexU in H.
      destruct (hexU h1) as [a|] eqn:E1; [|discriminate].
      destruct (hexU h2) as [b0|] eqn:E2; [|discriminate].
      destruct (r_xtext t') as [d'|] eqn:Er; [|discriminate]. cbn in H. inversion H; subst d.
      cbn [forallb] in Ha. apply andb_true_iff in Ha as [Hc Ha].
      pose proof (hexU_lt _ _ E1). pose proof (hexU_lt _ _ E2).
      unfold is_ascii7 in Hc. rewrite byte_n_n_byte in Hc by lia. rewrite Hc.
      rewrite (IH t' d'); [reflexivity| cbn [List.length] in Hn; lia |exact Er|exact Ha].
    + destruct (r_xchar c); [|discriminate].
      destruct (r_xtext t) as [d'|] eqn:Er; [|discriminate]. cbn in H. inversion H; subst d.
      cbn [forallb] in Ha. apply andb_true_iff in Ha as [_ Ha].
      rewrite (IH t d'); [reflexivity|lia|exact Er|exact Ha].
Qed.

Lemma r_xtext_noplus : forall v d, mem_byte "+" v = false -> r_xtext v = Some d -> d = v.
Proof.
  induction v as [|c t IH]; intros d Hp H; [inversion H; reflexivity|].
  cbn [mem_byte] in Hp. apply orb_false_iff in Hp as [Hc Hp]. rewrite Ascii.eqb_sym in Hc.
  cbn [r_xtext] in H. rewrite Hc in H. destruct (r_xchar c); [|discriminate].
  destruct (r_xtext t) as [d'|] eqn:Er; [|discriminate]. cbn in H. inversion H. f_equal. now apply IH.
Qed.

Lemma r_xtext_decode v d :
  r_xtext v = Some d -> forallb is_ascii7 d = true -> decode_xtext v = Some d.
Proof.
  intros H Ha. unfold decode_xtext, contains_byte. destruct (mem_byte "+" v) eqn:Ep.
  - eapply r_xtext_go; [apply le_n|exact H|exact Ha].
  - now rewrite (r_xtext_noplus _ _ Ep H).
Qed.

Definition xv_char (c : ascii) : bool := r_vchar c && negb (Ascii.eqb c "=").

(* conversely, on an esmtp-value the implementation's successes are the reference's *)
Lemma go_xtext_ref : forall n v d, (List.length v <= n)%nat ->
  forallb xv_char v = true -> decode_xtext_go v = Some d -> r_xtext v = Some d.
Proof.
  induction n as [|n IH]; intros v d Hn Hv H.
  - destruct v; [inversion H; reflexivity|cbn in Hn; lia].
  - destruct v as [|c t]; [inversion H; reflexivity|]. cbn [List.length] in Hn.
    cbn [forallb] in Hv. apply andb_true_iff in Hv as [Hc Hv].
    cbn [decode_xtext_go] in H. cbn [r_xtext].
    destruct (Ascii.eqb c "+") eqn:Ep.
    + destruct t as [|h1 [|h2 t']]; try discriminate. change r_hexval with hexU.
      destruct (hexU h1) as [a|]; [|discriminate]. destruct (hexU h2) as [b0|]; [|discriminate].
      destruct (a * 16 + b0 <? 128)%N; [|discriminate].
      cbn [forallb] in Hv. apply andb_true_iff in Hv as [_ Hv]. apply andb_true_iff in Hv as [_ Hv].
      destruct (decode_xtext_go t') as [d'|] eqn:Ed; [|discriminate]. cbn in H. inversion H; subst d.
      rewrite (IH t' d'); [reflexivity|cbn [List.length] in Hn; lia|exact Hv|exact Ed].
    + assert (Hx : r_xchar c = true).
      { unfold r_xchar. unfold xv_char in Hc. apply andb_true_iff in Hc as [H1 H2].
        now rewrite H1, Ep, H2. }
      rewrite Hx. destruct (decode_xtext_go t) as [d'|] eqn:Ed; [|discriminate]. cbn in H. inversion H; subst d.
      rewrite (IH t d'); [reflexivity|lia|exact Hv|exact Ed].
Qed.

Lemma r_xtext_plain : forall v, forallb xv_char v = true -> mem_byte "+" v = false -> r_xtext v = Some v.
Proof.
  induction v as [|c t IH]; intros Hv Hp; [reflexivity|].
  cbn [forallb] in Hv. apply andb_true_iff in Hv as [Hc Hv].
  cbn [mem_byte] in Hp. apply orb_false_iff in Hp as [Hp1 Hp]. rewrite Ascii.eqb_sym in Hp1.
  cbn [r_xtext]. rewrite Hp1. unfold r_xchar. unfold xv_char in Hc.
  apply andb_true_iff in Hc as [H1 H2]. rewrite H1, Hp1, H2. cbn. now rewrite IH.
Qed.

Lemma decode_xtext_ref v d :
  forallb xv_char v = true -> decode_xtext v = Some d -> r_xtext v = Some d.
Proof.
  intros Hv. unfold decode_xtext, contains_byte. destruct (mem_byte "+" v) eqn:Ep.
  - intros H. eapply go_xtext_ref; [apply le_n|exact Hv|exact H].
  - intros H. inversion H; subst. now apply r_xtext_plain.
Qed.

Lemma esmtp_value_xv v : r_esmtp_value v = true -> forallb xv_char v = true /\ v <> [].
Proof.
  unfold r_esmtp_value. intros H. apply andb_true_iff in H as [H1 H2]. split; [exact H2|].
  intros ->. discriminate.
Qed.

Lemma xv_ascii c : xv_char c = true -> is_ascii7 c = true.
Proof. revert c. byteimpl. Qed.
Lemma printable_ascii c : in_range 32 126 c = true -> is_ascii7 c = true.
Proof. revert c. byteimpl. Qed.

Lemma ascii_upper v : forallb is_ascii7 v = true -> to_upper v = r_upper v.
Proof. intros H. rewrite r_upper_map. apply to_upper_no_trap, fold_trap_ascii, H. Qed.

(* ------------------------------------------------------------------ *)
(* F. a whole string as a mailbox (AUTH)                               *)
(* ------------------------------------------------------------------ *)

Lemma qtext_ascii c : r_qtext c = true -> is_ascii7 c = true.
Proof. revert c. byteimpl. Qed.
Lemma atext_ascii c : r_atext c = true -> is_ascii7 c = true.
Proof. revert c. byteimpl. Qed.
Lemma ldh_dot_ascii c : ldh_dot c = true -> is_ascii7 c = true.
Proof. revert c. byteimpl. Qed.
Lemma dcontent_ascii c : r_dcontent c = true -> is_ascii7 c = true.
Proof. revert c. byteimpl. Qed.

Lemma r_quoted_ascii : forall n t acc lp rest, (List.length t <= n)%nat ->
  r_quoted t acc = Some (lp, rest) -> exists pre, t = pre ++ rest /\ forallb is_ascii7 pre = true.
Proof.
  induction n as [|n IH]; intros t acc lp rest Hn H.
  - destruct t; [discriminate|cbn in Hn; lia].
  - destruct t as [|c t]; [discriminate|]. cbn [List.length] in Hn. cbn [r_quoted] in H.
    destruct (Ascii.eqb c """") eqn:Eq.
    + apply Ascii.eqb_eq in Eq. subst c. inversion H; subst. exists [""""]. split; reflexivity.
    + destruct (Ascii.eqb c "\") eqn:Eb.
      * apply Ascii.eqb_eq in Eb. subst c. destruct t as [|d t']; [discriminate|].
        destruct (in_range 32 126 d) eqn:Ed; [|discriminate]. cbn [List.length] in Hn.
        destruct (IH t' (d :: acc) lp rest ltac:(lia) H) as [pre [E Ha]].
        exists ("\" :: d :: pre). split; [now rewrite E|].
        cbn [forallb]. rewrite (printable_ascii d Ed), Ha. reflexivity.
      * destruct (r_qtext c) eqn:Eqt; [|discriminate].
        destruct (IH t (c :: acc) lp rest ltac:(lia) H) as [pre [E Ha]].
        exists (c :: pre). split; [now rewrite E|]. cbn [forallb]. now rewrite (qtext_ascii c Eqt), Ha.
Qed.

Lemma dot_string_ascii l : r_dot_string l = true -> forallb is_ascii7 l = true.
Proof.
  unfold r_dot_string. intros H.
  assert (H' : forallb (fun a => forallb (fun x => r_atext x || Ascii.eqb x ".") a) (split_byte "." l) = true).
  { eapply forallb_impl; [|exact H]. intros a Ha. apply andb_true_iff in Ha as [_ Ha].
    eapply forallb_impl; [|exact Ha]. intros x Hx. now rewrite Hx. }
  clear H. revert H'. induction l as [|x s IH]; [reflexivity|]. rewrite split_byte_cons.
  pose proof (split_byte_nonnil "." s). destruct (split_byte "." s) as [|h r]; [contradiction|].
  destruct (Ascii.eqb "." x) eqn:E.
  - intros Hh. cbn [forallb] in Hh. cbn [forallb]. rewrite (IH Hh).
    apply Ascii.eqb_eq in E. subst x. reflexivity.
  - intros Hh. cbn [forallb] in Hh. apply andb_true_iff in Hh as [H1 H2].
    apply andb_true_iff in H1 as [Hx Hh]. cbn [forallb].
    rewrite IH by (cbn [forallb]; now rewrite Hh, H2).
    rewrite Ascii.eqb_sym, E, orb_false_r in Hx. now rewrite (atext_ascii x Hx).
Qed.

Lemma r_local_at_ascii s lp d :
  mem_byte "@" s = true -> r_local_at s = CV (lp, d) ->
  exists pre, s = pre ++ d /\ forallb is_ascii7 pre = true.
Proof.
  intros Hat H. destruct s as [|c t]; [discriminate|]. unfold r_local_at in H.
  destruct (Ascii.eqb c """") eqn:Eq.
  - apply Ascii.eqb_eq in Eq. subst c.
    destruct (r_quoted t []) as [[lp' r']|] eqn:Er; [|discriminate].
    destruct lp' as [|x lp']; [discriminate|]. destruct r' as [|a d']; [discriminate|].
    destruct (Ascii.eqb a "@") eqn:Ea; [|discriminate]. apply Ascii.eqb_eq in Ea. subst a.
    inversion H; subst lp d.
    destruct (r_quoted_ascii _ t [] _ _ (le_n _) Er) as [pre [E Ha]].
    exists ("""" :: pre ++ ["@"]). split.
    + rewrite E. cbn [app]. now rewrite <- app_assoc.
    + cbn [forallb]. rewrite forallb_app, Ha. reflexivity.
  - destruct (r_span (fun x => Ascii.eqb x "@") (c :: t)) as [l r] eqn:Es.
    destruct (existsb r_special l); [discriminate|].
    destruct (r_dot_string l) eqn:Ed; [|discriminate]. inversion H; subst lp d.
    destruct (r_span_eq_char _ _ _ _ Es) as [E1 [E2 E3]]. destruct (E3 Hat) as [r' ->].
    exists (l ++ ["@"]). split; [rewrite E1; cbn [tl]; now rewrite <- app_assoc|].
    rewrite forallb_app, (dot_string_ascii l Ed). reflexivity.
Qed.

Lemma r_domain_ascii d : r_domain d = true -> forallb is_ascii7 d = true.
Proof.
  unfold r_domain. intros H. apply orb_true_iff in H as [H|H].
  - unfold r_addr_literal in H. destruct d as [|c t]; [discriminate|].
    apply andb_true_iff in H as [Hc H]. apply Ascii.eqb_eq in Hc. subst c.
    destruct (rev t) as [|e body] eqn:Er; [discriminate|].
    apply andb_true_iff in H as [H Hb]. apply andb_true_iff in H as [He _].
    apply Ascii.eqb_eq in He. subst e.
    assert (Et : t = rev body ++ ["]"]) by (rewrite <- (rev_involutive t), Er; reflexivity).
    subst t. cbn [forallb]. rewrite forallb_app, forallb_rev.
    now rewrite (forallb_impl _ _ _ dcontent_ascii Hb).
  - eapply forallb_impl; [apply ldh_dot_ascii|]. apply split_labels_chars.
    eapply forallb_impl; [|exact H]. apply sub_domain_ldh.
Qed.

Lemma r_mailbox_whole_valid m mb :
  r_mailbox_whole m = CV mb ->
  parse_mailbox m = Some (mb, []) /\ forallb is_ascii7 m = true.
Proof.
  unfold r_mailbox_whole. destruct (mem_byte "@" m) eqn:Hat; [|discriminate]. cbn [negb].
  destruct m as [|c t]; [discriminate|]. destruct (Ascii.eqb c "@"); [discriminate|].
  destruct (r_local_at (c :: t)) as [[lp d]| |] eqn:El; try discriminate.
  destruct d as [|x d]; [discriminate|]. destruct (r_domain (x :: d)) eqn:Ed; [|discriminate].
  intros H. inversion H; subst mb. split.
  - rewrite <- (app_nil_r (x :: d)) in El.
    apply (parse_mailbox_valid _ _ _ _ Hat El); [discriminate|exact Ed|exact I].
  - destruct (r_local_at_ascii _ _ _ Hat El) as [pre [E Ha]]. rewrite E, forallb_app, Ha.
    now rewrite (r_domain_ascii _ Ed).
Qed.

Lemma r_mailbox_whole_invalid m :
  r_mailbox_whole m = CI -> forall mb, parse_mailbox m <> Some (mb, []).
Proof.
  unfold r_mailbox_whole. intros H mb Hp.
  destruct (parse_mailbox_suffix _ _ _ Hp) as [_ Hat]. rewrite Hat in H. cbn [negb] in H.
  destruct m as [|c t]; [discriminate|]. destruct (Ascii.eqb c "@") eqn:Ec.
  - apply Ascii.eqb_eq in Ec. subst c. unfold parse_mailbox in Hp. cbn in Hp. discriminate.
  - destruct (r_local_at (c :: t)) as [[lp d]| |] eqn:El; try discriminate.
    + destruct d as [|x d]; [|destruct (r_domain (x :: d)); discriminate].
      destruct (r_local_at_valid _ _ _ Hat El) as [Hlp [Hne _]].
      unfold parse_mailbox in Hp. rewrite Hlp in Hp. destruct lp as [|y lp]; [contradiction|].
      rewrite (Ascii.eqb_refl "@") in Hp. cbn [domain_go rev] in Hp.
      rewrite (has_suffix_at (y :: lp)) in Hp. discriminate.
    + unfold parse_mailbox in Hp. rewrite (r_local_at_invalid _ El ltac:(discriminate)) in Hp. discriminate.
Qed.

(* ------------------------------------------------------------------ *)
(* G. MAIL parameters                                                  *)
(* ------------------------------------------------------------------ *)

Definition mp_key (p : mparam) : bytes :=
  match p with
  | MSize _ => bs "SIZE" | MBody _ => bs "BODY" | MUtf8 => bs "SMTPUTF8"
  | MReqTls => bs "REQUIRETLS" | MRet _ => bs "RET" | MEnvid _ => bs "ENVID" | MAuth _ => bs "AUTH"
  end.
Definition mp_bin (p : mparam) : bool :=
  match p with MBody b => bytes_eqb b (bs "BINARYMIME") | _ => false end.

(* mail_param on each concrete key *)
Lemma mail_param_SIZE cfg v o bm :
  mail_param cfg (bs "SIZE") v o bm =
  match parse_uint 63 v with
  | POk n =>
      if (0 <? cf_max_bytes cfg)%Z && (cf_max_bytes cfg <? Z.of_N n)%Z
      then inr (552, (5, 3, 4), bs "Max message size exceeded")%Z
      else inl (mkMO (mo_body o) (Z.of_N n) (mo_requiretls o) (mo_utf8 o) (mo_ret o) (mo_envid o) (mo_auth o), bm)
  | PRange =>
      if (0 <? cf_max_bytes cfg)%Z then inr (552, (5, 3, 4), bs "Max message size exceeded")%Z
      else inr (501, (5, 5, 4), bs "Unable to parse SIZE as an integer")%Z
  | PSyntax => inr (501, (5, 5, 4), bs "Unable to parse SIZE as an integer")%Z
  end.
Proof. reflexivity. Qed.

Lemma mail_param_SMTPUTF8 cfg v o bm :
  mail_param cfg (bs "SMTPUTF8") v o bm =
  if negb (cf_utf8 cfg) then inr (504, (5, 5, 4), bs "SMTPUTF8 is not implemented")%Z
  else match v with
       | [] => inl (mkMO (mo_body o) (mo_size o) (mo_requiretls o) true (mo_ret o) (mo_envid o) (mo_auth o), bm)
       | _ => inr (501, (5, 5, 4), bs "SMTPUTF8 takes no value")%Z
       end.
Proof. reflexivity. Qed.

Lemma mail_param_REQUIRETLS cfg v o bm :
  mail_param cfg (bs "REQUIRETLS") v o bm =
  if negb (cf_requiretls cfg) then inr (504, (5, 5, 4), bs "REQUIRETLS is not implemented")%Z
  else match v with
       | [] => inl (mkMO (mo_body o) (mo_size o) true (mo_utf8 o) (mo_ret o) (mo_envid o) (mo_auth o), bm)
       | _ => inr (501, (5, 5, 4), bs "REQUIRETLS takes no value")%Z
       end.
Proof. reflexivity. Qed.

Lemma mail_param_BODY cfg v o bm :
  mail_param cfg (bs "BODY") v o bm =
  let V := to_upper v in
  if bytes_eqb V (bs "BINARYMIME") then
    if cf_binarymime cfg then inl (mkMO V (mo_size o) (mo_requiretls o) (mo_utf8 o) (mo_ret o) (mo_envid o) (mo_auth o), true)
    else inr (504, (5, 5, 4), bs "BINARYMIME is not implemented")%Z
  else if bytes_eqb V (bs "7BIT") || bytes_eqb V (bs "8BITMIME") then
    inl (mkMO V (mo_size o) (mo_requiretls o) (mo_utf8 o) (mo_ret o) (mo_envid o) (mo_auth o), bm)
  else inr (501, (5, 5, 4), bs "Unknown BODY value")%Z.
Proof. reflexivity. Qed.

Lemma mail_param_RET cfg v o bm :
  mail_param cfg (bs "RET") v o bm =
  if negb (cf_dsn cfg) then inr (504, (5, 5, 4), bs "RET is not implemented")%Z
  else
    let V := to_upper v in
    if bytes_eqb V (bs "FULL") || bytes_eqb V (bs "HDRS") then
      inl (mkMO (mo_body o) (mo_size o) (mo_requiretls o) (mo_utf8 o) V (mo_envid o) (mo_auth o), bm)
    else inr (501, (5, 5, 4), bs "Unknown RET value")%Z.
Proof. reflexivity. Qed.

Lemma mail_param_ENVID cfg v o bm :
  mail_param cfg (bs "ENVID") v o bm =
  if negb (cf_dsn cfg) then inr (504, (5, 5, 4), bs "ENVID is not implemented")%Z
  else
    match decode_xtext v with
    | Some ((_ :: _) as d) =>
        if is_printable_ascii d then
          inl (mkMO (mo_body o) (mo_size o) (mo_requiretls o) (mo_utf8 o) (mo_ret o) d (mo_auth o), bm)
        else inr (501, (5, 5, 4), bs "Malformed ENVID parameter value")%Z
    | _ => inr (501, (5, 5, 4), bs "Malformed ENVID parameter value")%Z
    end.
Proof. reflexivity. Qed.

Lemma mail_param_AUTH cfg v o bm :
  mail_param cfg (bs "AUTH") v o bm =
  match decode_xtext v with
  | Some ((_ :: _) as d) =>
      if bytes_eqb d (bs "<>") then
        inl (mkMO (mo_body o) (mo_size o) (mo_requiretls o) (mo_utf8 o) (mo_ret o) (mo_envid o) (Some []), bm)
      else
        match parse_mailbox d with
        | Some (mb, []) =>
            inl (mkMO (mo_body o) (mo_size o) (mo_requiretls o) (mo_utf8 o) (mo_ret o) (mo_envid o) (Some mb), bm)
        | _ => inr (500, (5, 5, 4), bs "Malformed AUTH parameter mailbox")%Z
        end
  | _ => inr (500, (5, 5, 4), bs "Malformed AUTH parameter value")%Z
  end.
Proof. reflexivity. Qed.

Lemma mail_param_unknown cfg k v o bm :
  bytes_eqb k (bs "SIZE") = false -> bytes_eqb k (bs "SMTPUTF8") = false ->
  bytes_eqb k (bs "REQUIRETLS") = false -> bytes_eqb k (bs "BODY") = false ->
  bytes_eqb k (bs "RET") = false -> bytes_eqb k (bs "ENVID") = false ->
  bytes_eqb k (bs "AUTH") = false ->
  mail_param cfg k v o bm = inr (500, (5, 5, 4), bs "Unknown MAIL FROM argument")%Z.
Proof. intros H1 H2 H3 H4 H5 H6 H7. unfold mail_param. now rewrite H1, H2, H3, H4, H5, H6, H7. Qed.

Lemma alnum_ascii c : (r_alnum c || Ascii.eqb c "-") = true -> is_ascii7 c = true.
Proof. revert c. byteimpl. Qed.

Lemma r_is_eq s k : r_is s k = true -> r_upper s = bs k.
Proof. unfold r_is. apply bytes_eqb_eq. Qed.

Lemma digits_are_digits v : forallb r_digit v = forallb is_digit v.
Proof. reflexivity. Qed.

Lemma bad_value_false val : r_bad_value val = false -> mem_byte "=" val = false /\ val <> [].
Proof.
  unfold r_bad_value. intros H. apply orb_false_iff in H as [H1 H2]. split; [exact H2|].
  intros ->. discriminate.
Qed.

Lemma parse_uint_ok v :
  r_nonempty v = true -> forallb r_digit v = true -> (dec_value v <? 2 ^ 63)%N = true ->
  parse_uint 63 v = POk (dec_value v).
Proof.
  intros Hn Hd Hr. unfold parse_uint. destruct v; [discriminate|].
  rewrite digits_are_digits in Hd. now rewrite Hd, Hr.
Qed.

Lemma mail_param_valid cfg tok p :
  r_mail_param cfg tok = CV p ->
  tok_ok tok = true /\ mp_key p = r_tok_key tok /\
  forall o bm, mail_param cfg (r_tok_key tok) (tok_val tok) o bm = inl (mparam_apply o p, bm || mp_bin p).
Proof.
  unfold r_mail_param, tok_ok, tok_k, r_tok_key, tok_val.
  destruct (r_tok_split tok) as [k v]. cbn [fst snd].
  destruct (r_keyword k) eqn:Ek; [|discriminate]. cbn [negb].
  destruct v as [val|].
  - destruct (r_bad_value val) eqn:Eb; [discriminate|].
    destruct (r_esmtp_value val) eqn:Ev; [|discriminate]. cbn [negb].
    destruct (esmtp_value_xv _ Ev) as [Hxv _].
    assert (Hva : forallb is_ascii7 val = true) by (eapply forallb_impl; [apply xv_ascii|exact Hxv]).
    destruct (r_is k "SIZE") eqn:E1.
    { apply r_is_eq in E1. rewrite E1. unfold r_size.
      destruct (r_nonempty val && forallb r_digit val) eqn:Ed; [|discriminate]. cbn [negb].
      apply andb_true_iff in Ed as [Hn Hd].
      destruct (20 <? List.length val)%nat; [discriminate|].
      destruct (dec_value val <? 2 ^ 63)%N eqn:Er; [|discriminate]. cbn [negb].
      destruct ((0 <? cf_max_bytes cfg)%Z && (cf_max_bytes cfg <? Z.of_N (dec_value val))%Z) eqn:El; [discriminate|].
      intros H. inversion H; subst p. repeat split; try reflexivity; try assumption.
      intros o bm. rewrite mail_param_SIZE, (parse_uint_ok _ Hn Hd Er), El.
      cbn [mparam_apply mp_bin]. now rewrite orb_false_r. }
    destruct (r_is k "BODY") eqn:E2.
    { apply r_is_eq in E2. rewrite E2. unfold r_body.
      destruct (r_is val "7BIT" || r_is val "8BITMIME") eqn:E78.
      - intros H. inversion H; subst p. repeat split; try reflexivity; try assumption.
        intros o bm. rewrite mail_param_BODY. cbn zeta. rewrite (ascii_upper _ Hva).
        cbn [mparam_apply mp_bin].
        apply orb_true_iff in E78 as [E|E]; apply r_is_eq in E; rewrite E; cbn; now rewrite orb_false_r.
      - destruct (r_is val "BINARYMIME") eqn:Eb2; [|discriminate].
        destruct (cf_binarymime cfg) eqn:Ecb; [|discriminate].
        intros H. inversion H; subst p. repeat split; try reflexivity; try assumption.
        intros o bm. rewrite mail_param_BODY. cbn zeta. rewrite (ascii_upper _ Hva).
        cbn [mparam_apply mp_bin]. apply r_is_eq in Eb2. rewrite Eb2, Ecb. cbn. now rewrite orb_true_r. }
    destruct (r_is k "RET") eqn:E3.
    { apply r_is_eq in E3. rewrite E3. destruct (cf_dsn cfg) eqn:Edsn; [|discriminate]. unfold r_ret.
      destruct (r_is val "FULL" || r_is val "HDRS") eqn:Efh; [|discriminate].
      intros H. inversion H; subst p. repeat split; try reflexivity; try assumption.
      intros o bm. rewrite mail_param_RET, Edsn. cbn [negb]. cbn zeta. rewrite (ascii_upper _ Hva).
      cbn [mparam_apply mp_bin].
      apply orb_true_iff in Efh as [E|E]; apply r_is_eq in E; rewrite E; cbn; now rewrite orb_false_r. }
    destruct (r_is k "ENVID") eqn:E4.
    { apply r_is_eq in E4. rewrite E4. destruct (cf_dsn cfg) eqn:Edsn; [|discriminate]. unfold r_envid.
      destruct (r_xtext val) as [[|x d]|] eqn:Ex; try discriminate.
      destruct (r_printable (x :: d)) eqn:Epr; [|discriminate]. cbn [negb].
      destruct (100 <? List.length val)%nat; [discriminate|].
      intros H. inversion H; subst p. repeat split; try reflexivity; try assumption.
      intros o bm. rewrite mail_param_ENVID, Edsn. cbn [negb].
      rewrite (r_xtext_decode _ _ Ex) by (eapply forallb_impl; [apply printable_ascii|exact Epr]).
      change (is_printable_ascii (x :: d)) with (r_printable (x :: d)). rewrite Epr.
      cbn [mparam_apply mp_bin]. now rewrite orb_false_r. }
    destruct (r_is k "AUTH") eqn:E5; [|discriminate].
    { apply r_is_eq in E5. rewrite E5. unfold r_auth.
      destruct (r_xtext val) as [[|x d]|] eqn:Ex; try discriminate.
      destruct (bytes_eqb (x :: d) (bs "<>")) eqn:Enull.
      - intros H. inversion H; subst p. repeat split; try reflexivity; try assumption.
        intros o bm. rewrite mail_param_AUTH.
        rewrite (r_xtext_decode _ _ Ex) by (apply bytes_eqb_eq in Enull; rewrite Enull; reflexivity).
        rewrite Enull. cbn [mparam_apply mp_bin]. now rewrite orb_false_r.
      - destruct (r_mailbox_whole (x :: d)) as [mb| |] eqn:Emb; try discriminate.
        intros H. inversion H; subst p. repeat split; try reflexivity; try assumption.
        intros o bm. rewrite mail_param_AUTH.
        destruct (r_mailbox_whole_valid _ _ Emb) as [Hpm Hasc].
        rewrite (r_xtext_decode _ _ Ex Hasc), Enull, Hpm.
        cbn [mparam_apply mp_bin]. now rewrite orb_false_r. }
  - destruct (r_is k "SMTPUTF8") eqn:E1.
    { apply r_is_eq in E1. rewrite E1. destruct (cf_utf8 cfg) eqn:Ec; [|discriminate].
      intros H. inversion H; subst p. repeat split; try reflexivity; try assumption.
      intros o bm. rewrite mail_param_SMTPUTF8, Ec. cbn [mparam_apply mp_bin]. now rewrite orb_false_r. }
    destruct (r_is k "REQUIRETLS") eqn:E2; [|discriminate].
    { apply r_is_eq in E2. rewrite E2. destruct (cf_requiretls cfg) eqn:Ec; [|discriminate].
      intros H. inversion H; subst p. repeat split; try reflexivity; try assumption.
      intros o bm. rewrite mail_param_REQUIRETLS, Ec. cbn [mparam_apply mp_bin]. now rewrite orb_false_r. }
Qed.

Lemma alnum_up c : Bool.eqb (r_alnum (r_up c) || Ascii.eqb (r_up c) "-") (r_alnum c || Ascii.eqb c "-") = true.
Proof. revert c. bytecase. Qed.
Lemma alnum_up1 c : Bool.eqb (r_alnum (r_up c)) (r_alnum c) = true.
Proof. revert c. bytecase. Qed.

Lemma keyword_up k : r_keyword (r_upper k) = r_keyword k.
Proof.
  destruct k as [|c t]; [reflexivity|]. unfold r_keyword, r_upper. cbn [map].
  rewrite (eqb_prop _ _ (alnum_up1 c)). f_equal.
  induction t as [|x t IH]; [reflexivity|]. cbn [map forallb].
  now rewrite (eqb_prop _ _ (alnum_up x)), IH.
Qed.

Lemma nonkw k (K : string) :
  r_keyword k = false -> r_keyword (bs K) = true -> bytes_eqb (r_upper k) (bs K) = false.
Proof.
  intros H1 H2. destruct (bytes_eqb (r_upper k) (bs K)) eqn:E; [|reflexivity].
  apply bytes_eqb_eq in E. rewrite <- E, keyword_up in H2. congruence.
Qed.

Lemma mail_param_empty cfg K o bm :
  bytes_eqb K (bs "SMTPUTF8") = false -> bytes_eqb K (bs "REQUIRETLS") = false ->
  exists f, mail_param cfg K [] o bm = inr f.
Proof.
  intros H1 H2. unfold mail_param. rewrite H1, H2.
  destruct (bytes_eqb K (bs "SIZE")); [cbn; eauto|].
  destruct (bytes_eqb K (bs "BODY")); [cbn; eauto|].
  destruct (bytes_eqb K (bs "RET")); [destruct (cf_dsn cfg); cbn; eauto|].
  destruct (bytes_eqb K (bs "ENVID")); [destruct (cf_dsn cfg); cbn; eauto|].
  destruct (bytes_eqb K (bs "AUTH")); cbn; eauto.
Qed.

Lemma parse_uint_syntax v :
  r_nonempty v && forallb r_digit v = false -> parse_uint 63 v = PSyntax.
Proof.
  unfold parse_uint. destruct v as [|c t]; [reflexivity|]. cbn [r_nonempty andb].
  rewrite digits_are_digits. intros ->. reflexivity.
Qed.

(* a token parseArgs takes and the reference rejects is refused by the switch.
   A keyword that is not an esmtp-keyword (non-ASCII octets included) is no
   known key after ASCII upper-casing; SMTPUTF8 / REQUIRETLS with a value are
   refused by their own cases. *)
Lemma mail_param_invalid cfg tok :
  r_mail_param cfg tok = CI -> tok_ok tok = true ->
  forall o bm, exists f, mail_param cfg (r_tok_key tok) (tok_val tok) o bm = inr f.
Proof.
  unfold r_mail_param, tok_ok, tok_k, r_tok_key, tok_val.
  destruct (r_tok_split tok) as [k v] eqn:Ets. cbn [fst snd].
  intros H Hok o bm.
  destruct (r_keyword k) eqn:Ek; cbn [negb] in H.
  2:{ rewrite mail_param_unknown; [eauto|..]; apply nonkw; (exact Ek || reflexivity). }
  destruct v as [val|].
  - apply negb_true_iff in Hok. rewrite Hok in H.
    destruct (bad_value_false _ Hok) as [_ Hvne].
    destruct (r_esmtp_value val) eqn:Ev; [|discriminate]. cbn [negb] in H.
    destruct (esmtp_value_xv _ Ev) as [Hxv Hne].
    assert (Hva : forallb is_ascii7 val = true) by (eapply forallb_impl; [apply xv_ascii|exact Hxv]).
    destruct (r_is k "SIZE") eqn:E1.
    { rewrite (r_is_eq _ _ E1), mail_param_SIZE. unfold r_size in H.
      destruct (r_nonempty val && forallb r_digit val) eqn:Ed.
      - cbn [negb] in H. destruct (20 <? List.length val)%nat; [discriminate|].
        destruct (dec_value val <? 2 ^ 63)%N; [|discriminate]. cbn [negb] in H.
        destruct ((0 <? cf_max_bytes cfg)%Z && (cf_max_bytes cfg <? Z.of_N (dec_value val))%Z); discriminate.
      - rewrite (parse_uint_syntax _ Ed). eauto. }
    destruct (r_is k "BODY") eqn:E2.
    { rewrite (r_is_eq _ _ E2), mail_param_BODY. cbn zeta. rewrite (ascii_upper _ Hva).
      unfold r_body in H. unfold r_is in H.
      destruct (bytes_eqb (r_upper val) (bs "7BIT") || bytes_eqb (r_upper val) (bs "8BITMIME")) eqn:E78; [discriminate|].
      destruct (bytes_eqb (r_upper val) (bs "BINARYMIME")) eqn:Eb2.
      - destruct (cf_binarymime cfg); [discriminate|]. eauto.
      - eauto. }
    destruct (r_is k "RET") eqn:E3.
    { rewrite (r_is_eq _ _ E3), mail_param_RET. destruct (cf_dsn cfg); cbn [negb]; [|eauto].
      cbn zeta. rewrite (ascii_upper _ Hva). unfold r_ret, r_is in H.
      destruct (bytes_eqb (r_upper val) (bs "FULL") || bytes_eqb (r_upper val) (bs "HDRS")); [discriminate|eauto]. }
    destruct (r_is k "ENVID") eqn:E4.
    { rewrite (r_is_eq _ _ E4), mail_param_ENVID. destruct (cf_dsn cfg); cbn [negb]; [|eauto].
      destruct (decode_xtext val) as [[|x d]|] eqn:Edx; [eauto| |eauto].
      unfold r_envid in H. rewrite (decode_xtext_ref _ _ Hxv Edx) in H.
      change (is_printable_ascii (x :: d)) with (r_printable (x :: d)).
      destruct (r_printable (x :: d)); [|eauto]. cbn [negb] in H.
      destruct (100 <? List.length val)%nat; discriminate. }
    destruct (r_is k "AUTH") eqn:E5.
    { rewrite (r_is_eq _ _ E5), mail_param_AUTH.
      destruct (decode_xtext val) as [[|x d]|] eqn:Edx; [eauto| |eauto].
      unfold r_auth in H. rewrite (decode_xtext_ref _ _ Hxv Edx) in H.
      destruct (bytes_eqb (x :: d) (bs "<>")); [discriminate|].
      destruct (r_mailbox_whole (x :: d)) as [mb| |] eqn:Emb; try discriminate.
      pose proof (r_mailbox_whole_invalid _ Emb) as Hpm.
      destruct (parse_mailbox (x :: d)) as [[mb [|c r]]|] eqn:Ep; [|eauto|eauto].
      exfalso. exact (Hpm mb eq_refl). }
    (* J10: a value on a parameter that has none *)
    destruct (r_is k "SMTPUTF8") eqn:Hf1.
    { rewrite (r_is_eq _ _ Hf1), mail_param_SMTPUTF8.
      destruct (cf_utf8 cfg); cbn [negb]; [|eauto]. destruct val; [congruence|eauto]. }
    destruct (r_is k "REQUIRETLS") eqn:Hf2.
    { rewrite (r_is_eq _ _ Hf2), mail_param_REQUIRETLS.
      destruct (cf_requiretls cfg); cbn [negb]; [|eauto]. destruct val; [congruence|eauto]. }
    rewrite mail_param_unknown; eauto.
  - destruct (r_is k "SMTPUTF8") eqn:E1.
    { rewrite (r_is_eq _ _ E1), mail_param_SMTPUTF8. destruct (cf_utf8 cfg); [discriminate|cbn [negb]; eauto]. }
    destruct (r_is k "REQUIRETLS") eqn:E2.
    { rewrite (r_is_eq _ _ E2), mail_param_REQUIRETLS. destruct (cf_requiretls cfg); [discriminate|cbn [negb]; eauto]. }
    apply mail_param_empty; assumption.
Qed.

(* ------------------------------------------------------------------ *)
(* H. the shape of classified arguments                                *)
(* ------------------------------------------------------------------ *)

Lemma last_skipn {A} n (s : list A) d : skipn n s <> [] -> last (skipn n s) d = last s d.
Proof.
  revert s. induction n as [|n IH]; intros s H; [reflexivity|].
  destruct s as [|x s]; [contradiction|]. cbn [skipn] in *.
  rewrite IH by exact H. destruct s; [destruct n; contradiction|reflexivity].
Qed.

Lemma strip_prefix_skipn p arg a : r_strip_prefix p arg = Some a -> a = skipn (List.length (bs p)) arg.
Proof. unfold r_strip_prefix. destruct (bytes_eqb _ _); [|discriminate]. intros H. now inversion H. Qed.

Lemma r_collect_valid {A} (param : bytes -> cls A) toks ps :
  r_collect (map param toks) = CV ps -> Forall2 (fun tok p => param tok = CV p) toks ps.
Proof.
  revert ps. induction toks as [|t toks IH]; intros ps H.
  - inversion H. constructor.
  - cbn [map r_collect] in H. destruct (param t) as [p| |] eqn:Ep;
      destruct (r_collect (map param toks)) as [l| |]; try discriminate.
    inversion H; subst. constructor; [exact Ep|]. now apply IH.
Qed.

Lemma r_collect_invalid {A} (param : bytes -> cls A) toks :
  r_collect (map param toks) = CI -> exists tok, In tok toks /\ param tok = CI.
Proof.
  induction toks as [|t toks IH]; [discriminate|]. cbn [map r_collect]. intros H.
  destruct (param t) as [p| |] eqn:Ep.
  - destruct (r_collect (map param toks)) as [l| |]; try discriminate.
    destruct (IH eq_refl) as [tok [Hin Ht]]. exists tok. split; [now right|exact Ht].
  - exists t. split; [now left|exact Ep].
  - destruct (r_collect (map param toks)) as [l| |]; try discriminate.
    destruct (IH eq_refl) as [tok [Hin Ht]]. exists tok. split; [now right|exact Ht].
Qed.

Section Classify.
  Context {P O : Type}.
  Variables (null_ok : bool) (prefix : string) (param : bytes -> cls P)
            (apply : O -> P -> O) (zero : O).

  Lemma classify_gen_valid arg mb o :
    classify_gen null_ok prefix param apply zero arg = Valid mb o ->
    exists a rest toks ps,
      r_strip_prefix prefix arg = Some a /\ r_first_last_vchar a = true /\
      r_path null_ok a = CV (mb, rest) /\ r_tokens rest = CV toks /\
      r_nodup (map r_tok_key toks) = true /\
      Forall2 (fun tok p => param tok = CV p) toks ps /\ o = fold_left apply ps zero.
  Proof.
    unfold classify_gen. destruct (r_first_last_vchar arg) eqn:Efl; cbn [negb]; [|destruct arg; discriminate].
    destruct (r_strip_prefix prefix arg) as [a|] eqn:Esp; [|discriminate].
    destruct a as [|c a']; [discriminate|].
    destruct (r_vchar c) eqn:Ec; [|discriminate]. cbn [negb].
    destruct (r_path null_ok (c :: a')) as [[mb' rest]| |] eqn:Ep; try discriminate.
    destruct (r_tokens rest) as [toks| |] eqn:Et; try discriminate.
    destruct (r_nodup (map r_tok_key toks)) eqn:End; [|discriminate]. cbn [negb].
    destruct (r_collect (map param toks)) as [ps| |] eqn:Ecl; try discriminate.
    intros H. inversion H; subst. exists (c :: a'), rest, toks, ps.
    repeat split; try assumption; try reflexivity.
    - cbn [r_first_last_vchar]. rewrite Ec. cbn [andb].
      rewrite (strip_prefix_skipn _ _ _ Esp), last_skipn.
      + destruct arg; [discriminate|]. cbn [r_first_last_vchar] in Efl.
        apply andb_true_iff in Efl as [_ Efl]. exact Efl.
      + rewrite <- (strip_prefix_skipn _ _ _ Esp). discriminate.
    - now apply r_collect_valid.
  Qed.

  Lemma classify_gen_invalid arg :
    classify_gen null_ok prefix param apply zero arg = Invalid ->
    r_strip_prefix prefix arg = None \/
    exists a, r_strip_prefix prefix arg = Some a /\
      (a = [] \/ (r_first_last_vchar a = true /\
         (r_path null_ok a = CI \/
          exists mb rest toks tok, r_path null_ok a = CV (mb, rest) /\ r_tokens rest = CV toks /\
            r_nodup (map r_tok_key toks) = true /\ In tok toks /\ param tok = CI))).
  Proof.
    unfold classify_gen. destruct (r_first_last_vchar arg) eqn:Efl; cbn [negb].
    2:{ destruct arg; [|discriminate]. intros _.
        destruct (r_strip_prefix prefix []) as [a|] eqn:E; [|now left].
        right. exists a. split; [reflexivity|]. left.
        rewrite (strip_prefix_skipn _ _ _ E). now destruct (List.length (bs prefix)). }
    destruct (r_strip_prefix prefix arg) as [a|] eqn:Esp; [|now left].
    intros H. right. exists a. split; [reflexivity|].
    destruct a as [|c a']; [now left|]. right.
    destruct (r_vchar c) eqn:Ec; [|discriminate]. cbn [negb] in H.
    assert (Hfl : r_first_last_vchar (c :: a') = true).
    { cbn [r_first_last_vchar]. rewrite Ec. cbn [andb].
      rewrite (strip_prefix_skipn _ _ _ Esp), last_skipn.
      + destruct arg; [discriminate|]. cbn [r_first_last_vchar] in Efl.
        apply andb_true_iff in Efl as [_ Efl]. exact Efl.
      + rewrite <- (strip_prefix_skipn _ _ _ Esp). discriminate. }
    split; [exact Hfl|].
    destruct (r_path null_ok (c :: a')) as [[mb' rest]| |] eqn:Ep; try discriminate; [|now left].
    right. destruct (r_tokens rest) as [toks| |] eqn:Et; try discriminate.
    { destruct (r_nodup (map r_tok_key toks)) eqn:End; [|discriminate]. cbn [negb] in H.
      destruct (r_collect (map param toks)) as [ps| |] eqn:Ecl; try discriminate.
      destruct (r_collect_invalid _ _ Ecl) as [tok [Hin Ht]].
      exists mb', rest, toks, tok. repeat split; assumption. }
    exfalso. unfold r_tokens in Et. destruct rest as [|x ps]; [discriminate|].
    destruct (negb (Ascii.eqb x " ")); [discriminate|]. destruct (r_other_ws ps); [discriminate|].
    destruct (forallb r_nonempty (split_byte " " ps)); discriminate.
  Qed.
End Classify.

(* ------------------------------------------------------------------ *)
(* I. MAIL: the handler                                                *)
(* ------------------------------------------------------------------ *)

Definition mstate_apply (st : mail_opts * bool) (p : mparam) : mail_opts * bool :=
  (mparam_apply (fst st) p, snd st || mp_bin p).

Lemma mstate_comm st p q : mp_key p <> mp_key q ->
  mstate_apply (mstate_apply st p) q = mstate_apply (mstate_apply st q) p.
Proof.
  destruct st as [o bm]. unfold mstate_apply.
  destruct p, q; cbn; intros H; try congruence; rewrite ?orb_false_r; reflexivity.
Qed.

Lemma fst_fold_mstate l : forall st,
  fst (fold_left mstate_apply l st) = fold_left mparam_apply l (fst st).
Proof. induction l as [|p l IH]; intros st; [reflexivity|]. cbn [fold_left]. now rewrite IH. Qed.

(* tokens with their decoded parameters, as (key, value, parameter) items *)
Lemma mail_items cfg toks ps :
  Forall2 (fun tok p => r_mail_param cfg tok = CV p) toks ps ->
  exists items : list (bytes * bytes * mparam),
    map fst items = map tok_pair toks /\ map snd items = ps /\
    Forall (item_ok (mail_step cfg) mstate_apply) items /\
    map mp_key ps = map r_tok_key toks /\
    forallb tok_ok toks = true.
Proof.
  induction 1 as [|tok p toks ps Hp _ IH].
  - exists []. repeat split; try constructor.
  - destruct IH as [items [E1 [E2 [Hf [Ek Hok]]]]].
    destruct (mail_param_valid _ _ _ Hp) as [Hok1 [Hk1 Hstep]].
    exists ((tok_pair tok, p) :: items). cbn [map fst snd]. repeat split.
    + now rewrite E1.
    + now rewrite E2.
    + constructor; [|exact Hf]. intros [o bm]. unfold item_ok, mail_step, mstate_apply, tok_pair.
      cbn [fst snd]. apply Hstep.
    + now rewrite Hk1, Ek.
    + cbn [forallb]. now rewrite Hok1, Hok.
Qed.

Lemma mail_args_valid cfg toks ps :
  Forall2 (fun tok p => r_mail_param cfg tok = CV p) toks ps ->
  r_nodup (map r_tok_key toks) = true ->
  parse_args_go toks [] = Some (map tok_pair toks) /\
  exists bm, mail_params cfg (sort_kv (map tok_pair toks)) mo_zero false
             = inl (fold_left mparam_apply ps mo_zero, bm).
Proof.
  intros H Hnd. destruct (mail_items _ _ _ H) as [items [E1 [E2 [Hf [Ek Hok]]]]].
  split.
  - rewrite (parse_args_go_tokens toks []); try assumption; [reflexivity|]. intros; reflexivity.
  - rewrite <- E1.
    destruct (perm_map_items fst items _ (sort_kv_perm (map fst items))) as [items' [Hp E]].
    rewrite E.
    assert (Hf' : Forall (item_ok (mail_step cfg) mstate_apply) items').
    { eapply Permutation_Forall; [apply Permutation_sym; exact Hp|exact Hf]. }
    pose proof (loop_items (mail_step cfg) mstate_apply items' (mo_zero, false) Hf') as Hl.
    exists (snd (fold_left mstate_apply (map snd items') (mo_zero, false))).
    rewrite (mail_params_loop_inl _ _ _ _ _ Hl). f_equal.
    rewrite (surjective_pairing (fold_left mstate_apply (map snd items') (mo_zero, false))). f_equal.
    rewrite fst_fold_mstate. cbn [fst].
    pose proof (fold_perm mparam_apply mp_key) as Hfp.
    assert (Hc : forall st p q, mp_key p <> mp_key q ->
                 mparam_apply (mparam_apply st p) q = mparam_apply (mparam_apply st q) p).
    { intros st p q Hpq. pose proof (mstate_comm (st, false) p q Hpq) as Hm.
      unfold mstate_apply in Hm. cbn [fst snd] in Hm. now inversion Hm. }
    rewrite <- E2. apply (Hfp Hc).
    + apply Permutation_map. exact Hp.
    + eapply Permutation_NoDup; [apply Permutation_map, Permutation_map, Permutation_sym; exact Hp|].
      rewrite E2, Ek. now apply r_nodup_NoDup.
Qed.

Lemma from_prefix_ok : no_SK (bs "FROM:") = true /\ map up1 (bs "FROM:") = bs "FROM:".
Proof. split; reflexivity. Qed.
Lemma to_prefix_ok : no_SK (bs "TO:") = true /\ map up1 (bs "TO:") = bs "TO:".
Proof. split; reflexivity. Qed.

Definition mail_ok_events (from : bytes) (opts : mail_opts) (r : berr) : list event :=
  [EMail from opts r;
   match r with
   | BNil => reply 250 (2, 0, 0)%Z (bs "Roger, accepting mail from <" ++ from ++ bs ">")
   | _ => reply_err 451 (4, 0, 0)%Z r
   end].

Theorem valid_exact_mail cfg c arg from opts :
  c_helo c <> [] -> c_bdat c = None -> c_session c = true ->
  classify_mail cfg arg = Valid from opts ->
  snd (handle_mail cfg c arg) = mail_ok_events from opts (fst (pop BNil (be_mail (c_be c)))).
Proof.
  intros Hh Hb Hs Hc. unfold classify_mail in Hc.
  destruct (classify_gen_valid _ _ _ _ _ _ _ _ Hc) as [a [rest [toks [ps [Esp [Hfl [Ep [Et [End [Hf2 Eo]]]]]]]]]].
  destruct (mail_args_valid _ _ _ Hf2 End) as [Hpa [bm Hmp]].
  unfold handle_mail. destruct (c_helo c) as [|h0 h]; [contradiction|]. rewrite Hb.
  destruct from_prefix_ok as [P1 P2]. rewrite (cut_prefix_fold_ref "FROM:" arg P1 P2), Esp.
  rewrite (trim_space_id _ Hfl).
  pose proof (r_path_valid true _ _ _ Ep) as Hpp. cbn in Hpp. rewrite Hpp.
  unfold parse_args. rewrite (fields_tokens _ _ Et), Hpa, Hmp.
  destruct c as [t ph be helo sess errs bmime fr rc da cl tls bd rcv]. cbn in Hs. subst sess.
  unfold upd_binarymime, pop_mail. cbn [c_session negb c_be].
  destruct (pop BNil (be_mail be)) as [r restq]. cbn [fst].
  unfold mail_ok_events. rewrite Eo. destruct r; reflexivity.
Qed.

(* --- refusals --- *)

Lemma split_byte_first c : forall s h r, split_byte c s = h :: r -> exists w, s = h ++ w.
Proof.
  induction s as [|b s IH]; intros h r E.
  - cbn in E. injection E as <- _. exists []. reflexivity.
  - rewrite split_byte_cons in E. pose proof (split_byte_nonnil c s).
    destruct (split_byte c s) as [|h1 r1] eqn:E1; [contradiction|].
    destruct (Ascii.eqb c b).
    + injection E as <- _. exists (b :: s). reflexivity.
    + injection E as <- _. destruct (IH h1 r1 eq_refl) as [w ->]. exists w. reflexivity.
Qed.

Lemma split_byte_sub c : forall s tok, In tok (split_byte c s) -> exists u w, s = u ++ tok ++ w.
Proof.
  induction s as [|a s IH]; intros tok Hin.
  - cbn in Hin. destruct Hin as [<-|[]]. exists [], []. reflexivity.
  - rewrite split_byte_cons in Hin. pose proof (split_byte_nonnil c s).
    destruct (split_byte c s) as [|h r] eqn:E; [contradiction|].
    destruct (Ascii.eqb c a).
    + destruct Hin as [<-|Hin]; [exists [], (a :: s); reflexivity|].
      destruct (IH tok Hin) as [u [w ->]]. exists (a :: u), w. reflexivity.
    + destruct Hin as [<-|Hin].
      * destruct (split_byte_first _ _ _ _ E) as [w' ->]. exists [], w'. reflexivity.
      * destruct (IH tok (or_intror Hin)) as [u [w ->]]. exists (a :: u), w. reflexivity.
Qed.

(* the refusal codes *)
Definition refusal_code (code : Z) : Prop := In code [500; 501; 504; 552]%Z.

Lemma mail_param_code cfg k v o bm code ec msg :
  mail_param cfg k v o bm = inr (code, ec, msg) -> refusal_code code.
Proof.
  unfold mail_param, refusal_code. intros H.
  repeat match type of H with
         | context [if ?b then _ else _] => destruct b
         | context [match ?x with _ => _ end] => destruct x
         end; inversion H; cbn; tauto.
Qed.

Lemma mail_params_code cfg args : forall o bm code ec msg bm',
  mail_params cfg args o bm = inr (code, ec, msg, bm') -> refusal_code code.
Proof.
  induction args as [|[k v] r IH]; intros o bm code ec msg bm' H; [discriminate|].
  cbn [mail_params] in H. destruct (mail_param cfg k v o bm) as [[o' b']|[[c e] m]] eqn:E.
  - eapply IH. exact H.
  - inversion H; subst. eapply mail_param_code. exact E.
Qed.

Lemma reply_5xx code ec msg : refusal_code code ->
  exists rest, reply code ec msg = EWire ("5" :: rest).
Proof.
  intros H. unfold reply, write_response.
  pose proof (split_byte_nonnil LF (join [LF] [msg])) as Hn.
  destruct (split_byte LF (join [LF] [msg])) as [|l ls]; [contradiction|].
  unfold refusal_code in H. cbn [In] in H.
  destruct H as [<-|[<-|[<-|[<-|[]]]]];
    destruct ls as [|l2 ls]; cbn [reply_lines flat_map];
    destruct (ec_eqb _ no_ec); cbn; eauto.
Qed.

Lemma forallb_false_ex {A} (f : A -> bool) l : forallb f l = false -> exists x, In x l /\ f x = false.
Proof.
  induction l as [|x l IH]; [discriminate|]. cbn. intros H.
  apply andb_false_iff in H as [H|H]; [exists x; split; [now left|exact H]|].
  destruct (IH H) as [y [Hy Hf]]. exists y. split; [now right|exact Hf].
Qed.

Theorem invalid_refused_mail cfg c arg :
  c_helo c <> [] -> c_bdat c = None ->
  classify_mail cfg arg = Invalid ->
  exists code ec msg, snd (handle_mail cfg c arg) = [reply code ec msg] /\ refusal_code code.
Proof.
  intros Hh Hb Hc. unfold classify_mail in Hc.
  unfold handle_mail. destruct (c_helo c) as [|h0 h]; [contradiction|]. rewrite Hb.
  destruct from_prefix_ok as [P1 P2]. rewrite (cut_prefix_fold_ref "FROM:" arg P1 P2).
  assert (Hsyn : exists code ec msg, [syntax_mail] = [reply code ec msg] /\ refusal_code code).
  { do 3 eexists. split; [reflexivity|]. unfold refusal_code. cbn. tauto. }
  destruct (classify_gen_invalid _ _ _ _ _ _ Hc) as [Esp|[a [Esp Ha]]]; rewrite Esp; [exact Hsyn|].
  destruct Ha as [->|[Hfl Ha]]; [exact Hsyn|].
  rewrite (trim_space_id _ Hfl).
  destruct Ha as [Ep|[mb [rest [toks [tok [Ep [Et [End [Hin Hci]]]]]]]]].
  { pose proof (r_path_invalid true _ Ep) as Hpp. cbn in Hpp. rewrite Hpp. exact Hsyn. }
  pose proof (r_path_valid true _ _ _ Ep) as Hpp. cbn in Hpp. rewrite Hpp.
  unfold parse_args. rewrite (fields_tokens _ _ Et).
  destruct (forallb tok_ok toks) eqn:Eok.
  2:{ destruct (forallb_false_ex _ _ Eok) as [t [Ht Hbad]].
      rewrite (parse_args_go_bad _ _ _ Ht Hbad). do 3 eexists. split; [reflexivity|].
      unfold refusal_code. cbn. tauto. }
  rewrite (parse_args_go_tokens toks []); try assumption.
  2:{ intros; reflexivity. }
  cbn [app].
  assert (Hok : tok_ok tok = true) by (rewrite forallb_forall in Eok; now apply Eok).
  pose proof (mail_param_invalid _ _ Hci Hok) as Hfail.
  assert (Hin' : In (tok_pair tok) (sort_kv (map tok_pair toks))).
  { eapply Permutation_in; [apply Permutation_sym, sort_kv_perm|]. now apply in_map. }
  destruct (loop_fails (mail_step cfg) _ (mo_zero, false) _ _ Hin') as [f Hl].
  { intros [o bm]. unfold mail_step. cbn [fst snd]. apply Hfail. }
  destruct (mail_params_loop_inr _ _ _ _ _ Hl) as [bm' Hmp]. rewrite Hmp.
  destruct f as [[code ec] msg]. exists code, ec, msg. split; [reflexivity|].
  eapply mail_params_code. exact Hmp.
Qed.

(* ------------------------------------------------------------------ *)
(* J. utf-8-addr-xtext / unitext (RFC 6533)                            *)
(* ------------------------------------------------------------------ *)

Lemma take_hex_spec : forall t h r, take_hex t = (h, r) -> t = h ++ r /\ forallb is_hexU h = true.
Proof.
  induction t as [|c t IH]; intros h r H; cbn [take_hex] in H.
  - inversion H. split; reflexivity.
  - destruct (is_hexU c) eqn:E.
    + destruct (take_hex t) as [h' r'] eqn:Et. inversion H; subst.
      destruct (IH h' r eq_refl) as [-> Hh]. split; [reflexivity|]. cbn. now rewrite E, Hh.
    + inversion H. split; reflexivity.
Qed.

Lemma match_embedded_inv s h r :
  match_embedded s = Some (h, r) ->
  s = "\" :: "x" :: "{" :: h ++ "}" :: r /\ h <> [] /\ forallb is_hexU h = true.
Proof.
  unfold match_embedded. destruct s as [|c0 [|c1 [|c2 t]]]; try discriminate.
  destruct (Ascii.eqb c0 "\") eqn:E0; [|discriminate].
  destruct (Ascii.eqb c1 "x") eqn:E1; [|discriminate].
  destruct (Ascii.eqb c2 "{") eqn:E2; [|discriminate]. cbn [andb].
  apply Ascii.eqb_eq in E0, E1, E2. subst.
  destruct (take_hex t) as [h' r'] eqn:Et. destruct (take_hex_spec _ _ _ Et) as [-> Hh].
  destruct h' as [|x h']; [discriminate|]. destruct r' as [|c3 r']; [discriminate|].
  destruct (Ascii.eqb c3 "}") eqn:E3; [|discriminate]. apply Ascii.eqb_eq in E3. subst.
  intros H. inversion H; subst. split; [reflexivity|]. split; [discriminate|exact Hh].
Qed.

Definition dec_cond (h : bytes) : bool :=
  (List.length h <=? 6)%nat && (hex_value h <? 2097152)%N && hexpoint_ok (List.length h) (hex_value h).

Lemma dec_step_emb f h r :
  h <> [] -> forallb is_hexU h = true ->
  decode_utf8_addr_f (S f) ("\" :: "x" :: "{" :: h ++ "}" :: r) =
  if dec_cond h then option_map (app (utf8_encode (hex_value h))) (decode_utf8_addr_f f r) else None.
Proof.
  intros Hne Hh. cbn [decode_utf8_addr_f]. rewrite (match_embedded_hex _ _ Hne Hh). reflexivity.
Qed.

Lemma dec_step_bad f c t :
  match_embedded (c :: t) = None -> disallowed c = true -> decode_utf8_addr_f (S f) (c :: t) = None.
Proof. intros H1 H2. cbn [decode_utf8_addr_f]. now rewrite H1, H2. Qed.

(* the fuel does not matter once it covers the length *)
Lemma dec_fuel : forall n s f g, (List.length s <= n)%nat ->
  (List.length s <= f)%nat -> (List.length s <= g)%nat ->
  decode_utf8_addr_f f s = decode_utf8_addr_f g s.
Proof.
  induction n as [|n IH]; intros s f g Hn Hf Hg.
  - destruct s; [now rewrite !dec_nil|cbn in Hn; lia].
  - destruct s as [|c t]; [now rewrite !dec_nil|].
    destruct f as [|f]; [cbn in Hf; lia|]. destruct g as [|g]; [cbn in Hg; lia|].
    cbn [List.length] in *. cbn [decode_utf8_addr_f].
    destruct (match_embedded (c :: t)) as [[h r]|] eqn:Em.
    + destruct (match_embedded_inv _ _ _ Em) as [E _].
      assert (Hl : (List.length r <= List.length t)%nat).
      { apply (f_equal (@List.length ascii)) in E. cbn [List.length] in E.
        rewrite app_length in E. cbn [List.length] in E. lia. }
      rewrite (IH r f g); [reflexivity|lia|lia|lia].
    + destruct (disallowed c); [reflexivity|]. rewrite (IH t f g); [reflexivity|lia|lia|lia].
Qed.

Definition dec (s : bytes) : option bytes := decode_utf8_addr_f (S (List.length s)) s.

Lemma dec_cons_plain c t :
  Ascii.eqb c "\" = false -> disallowed c = false -> dec (c :: t) = option_map (cons c) (dec t).
Proof.
  intros H1 H2. unfold dec. cbn [List.length]. rewrite (dec_plain _ _ _ H1 H2). reflexivity.
Qed.

Lemma dec_emb_step h r :
  h <> [] -> forallb is_hexU h = true ->
  dec ("\" :: "x" :: "{" :: h ++ "}" :: r) =
  if dec_cond h then option_map (app (utf8_encode (hex_value h))) (dec r) else None.
Proof.
  intros Hne Hh. unfold dec. rewrite (dec_step_emb _ _ _ Hne Hh).
  destruct (dec_cond h); [|reflexivity]. f_equal.
  apply (dec_fuel (List.length r)); [lia| |lia].
  cbn [List.length]. rewrite app_length. cbn [List.length]. lia.
Qed.

Lemma dec_high_step l rest :
  (forall c, In c l -> (128 <= byte_n c)%N) -> dec (l ++ rest) = option_map (app l) (dec rest).
Proof.
  intros H. unfold dec.
  rewrite (dec_fuel (List.length (l ++ rest)) (l ++ rest) _ (List.length l + S (List.length rest)));
    [|lia|lia|rewrite app_length; lia].
  apply dec_high. exact H.
Qed.

Lemma r_qchar_qchar c : r_qchar c = true -> qchar c = true.
Proof. revert c. byteimpl. Qed.

Lemma low_bad c : (negb (r_qchar c) && (byte_n c <? 128)%N) = true -> disallowed c = true.
Proof. revert c. byteimpl. Qed.

Lemma hexdig_hexU c : Bool.eqb (r_hexdig c) (is_hexU c) = true.
Proof. revert c. bytecase. Qed.

Lemma hexdig_forall h : forallb r_hexdig h = forallb is_hexU h.
Proof. induction h as [|c h IH]; [reflexivity|]. cbn. now rewrite IH, (eqb_prop _ _ (hexdig_hexU c)). Qed.

Lemma no_prefix_no_match s : is_prefix (bs "\x{") s = false -> match_embedded s = None.
Proof.
  unfold match_embedded. destruct s as [|c0 [|c1 [|c2 t]]]; try reflexivity.
  cbn [bs list_ascii_of_string is_prefix].
  rewrite (Ascii.eqb_sym "\" c0), (Ascii.eqb_sym "x" c1), (Ascii.eqb_sym "{" c2), andb_true_r.
  intros H. rewrite <- andb_assoc, H. reflexivity.
Qed.

Lemma span_unique (p : ascii -> bool) : forall h x r,
  forallb (fun c => negb (p c)) h = true -> p x = true -> r_span p (h ++ x :: r) = (h, x :: r).
Proof.
  induction h as [|c h IH]; intros x r Hh Hx.
  - cbn. now rewrite Hx.
  - cbn [forallb] in Hh. apply andb_true_iff in Hh as [Hc Hh]. apply negb_true_iff in Hc.
    cbn [app r_span]. rewrite Hc, (IH x r Hh Hx). reflexivity.
Qed.

Lemma hexU_lc c : is_hexU c = true -> negb (negb (r_hexdig_lc c)) = true.
Proof. revert c. byteimpl. Qed.

(* "\x{" not followed by HEX "}" (as the reference scans it) is no match *)
Lemma bad_close_no_match s3 h r :
  r_span (fun x => negb (r_hexdig_lc x)) s3 = (h, r) ->
  match r with e :: _ => Ascii.eqb e "}" = false | [] => True end ->
  match_embedded ("\" :: "x" :: "{" :: s3) = None.
Proof.
  intros Hs Hr. destruct (match_embedded ("\" :: "x" :: "{" :: s3)) as [[h0 r0]|] eqn:Em; [|reflexivity].
  exfalso. destruct (match_embedded_inv _ _ _ Em) as [E [_ Hh]]. inversion E as [E3].
  rewrite E3 in Hs. rewrite span_unique in Hs.
  - inversion Hs; subst. cbn in Hr. discriminate.
  - eapply forallb_impl; [|exact Hh]. intros c Hc. now apply hexU_lc.
  - reflexivity.
Qed.

Lemma r_hexnum_value h : r_hexnum h = hex_value h.
Proof. reflexivity. Qed.


(* --- HEXPOINT: the RFC 6533 ABNF against the implementation's ranges --- *)

Definition hexchars : bytes := bs "0123456789ABCDEF".

Lemma hexU_in c : is_hexU c = true -> In c hexchars.
Proof.
  intros H. apply mem_byte_In. revert c H.
  apply (byte_impl is_hexU (fun c => mem_byte c hexchars)). bytecase.
Qed.

Fixpoint hexlists (n : nat) : list bytes :=
  match n with
  | O => [[]]
  | S k => flat_map (fun c => map (cons c) (hexlists k)) hexchars
  end.

Lemma hexlists_in : forall h, forallb is_hexU h = true -> In h (hexlists (List.length h)).
Proof.
  induction h as [|c h IH]; intros H; [now left|].
  cbn [forallb] in H. apply andb_true_iff in H as [Hc H].
  cbn [List.length hexlists]. apply in_flat_map. exists c. split; [now apply hexU_in|].
  apply in_map. now apply IH.
Qed.

Definition hexpoint_agree (h : bytes) : bool := Bool.eqb (r_hexpoint h) (dec_cond h).

Lemma hexpoint_small : forallb hexpoint_agree (hexlists 0 ++ hexlists 1 ++ hexlists 2 ++ hexlists 3 ++ hexlists 4) = true.
Proof. vm_compute. reflexivity. Qed.

Lemma hexU_value c : is_hexU c = true -> exists v, hexU c = Some v /\ (v < 16)%N /\
  r_hexdig c = true /\ r_nzhexdig c = negb (v =? 0)%N /\
  Ascii.eqb c "1" = (v =? 1)%N /\ Ascii.eqb c "0" = (v =? 0)%N.
Proof.
  intros H.
  assert (F : (match hexU c with
               | Some v => (v <? 16)%N && r_hexdig c && Bool.eqb (r_nzhexdig c) (negb (v =? 0)%N)
                           && Bool.eqb (Ascii.eqb c "1") (v =? 1)%N && Bool.eqb (Ascii.eqb c "0") (v =? 0)%N
               | None => true end) = true).
  { revert c H. intros c _. revert c. bytecase. }
  unfold is_hexU in H. destruct (hexU c) as [v|]; [|discriminate]. exists v.
  repeat (apply andb_true_iff in F as [F ?]). apply N.ltb_lt in F.
  repeat split; try assumption; now apply eqb_prop.
Qed.

Lemma v5_bounds va vb vc vd ve : (va < 16 -> vb < 16 -> vc < 16 -> vd < 16 -> ve < 16 ->
  let v := ((((0 * 16 + va) * 16 + vb) * 16 + vc) * 16 + vd) * 16 + ve in
  v < 2097152 /\ v <= 1048575 /\ (va = 0 -> v < 65536) /\ (va <> 0 -> 65536 <= v))%N.
Proof. intros. cbv zeta. lia. Qed.

Lemma v6_bounds va vb vc vd ve vf : (va < 16 -> vb < 16 -> vc < 16 -> vd < 16 -> ve < 16 -> vf < 16 ->
  let v := (((((0 * 16 + va) * 16 + vb) * 16 + vc) * 16 + vd) * 16 + ve) * 16 + vf in
  (va = 1 -> vb = 0 -> v < 2097152 /\ 1048576 <= v /\ v <= 1114111) /\
  (va = 1 -> vb <> 0 -> 1114111 < v) /\ (va < 1 -> v < 1048576) /\ (1 < va -> 2097152 <= v))%N.
Proof. intros. cbv zeta. lia. Qed.

Lemma hexpoint_equiv h : forallb is_hexU h = true -> r_hexpoint h = dec_cond h.
Proof.
  intros H.
  destruct (Nat.le_gt_cases (List.length h) 4) as [Hl|Hl].
  { pose proof hexpoint_small as T. rewrite forallb_forall in T.
    apply eqb_prop. apply T. pose proof (hexlists_in h H) as Hin.
    destruct (List.length h) as [|[|[|[|[|n]]]]]; [| | | | |lia].
    - apply (in_or_app (hexlists 0) _ h). left. exact Hin.
    - apply (in_or_app (hexlists 0) _ h). right. apply (in_or_app (hexlists 1) _ h). left. exact Hin.
    - apply (in_or_app (hexlists 0) _ h). right. apply (in_or_app (hexlists 1) _ h). right.
      apply (in_or_app (hexlists 2) _ h). left. exact Hin.
    - apply (in_or_app (hexlists 0) _ h). right. apply (in_or_app (hexlists 1) _ h). right.
      apply (in_or_app (hexlists 2) _ h). right. apply (in_or_app (hexlists 3) _ h). left. exact Hin.
    - apply (in_or_app (hexlists 0) _ h). right. apply (in_or_app (hexlists 1) _ h). right.
      apply (in_or_app (hexlists 2) _ h). right. apply (in_or_app (hexlists 3) _ h). right. exact Hin. }
  destruct h as [|a [|b0 [|c [|d [|e h]]]]]; try (cbn in Hl; lia). clear Hl.
  cbn [forallb] in H. repeat (apply andb_true_iff in H as [? H]).
  destruct (hexU_value a) as [va [Ea [La [Da [Na [A1 A0]]]]]]; [assumption|].
  destruct (hexU_value b0) as [vb [Eb [Lb [Db [Nb [B1 B0]]]]]]; [assumption|].
  destruct (hexU_value c) as [vc [Ec [Lc [Dc _]]]]; [assumption|].
  destruct (hexU_value d) as [vd [Ed [Ld [Dd _]]]]; [assumption|].
  destruct (hexU_value e) as [ve [Ee [Le [De _]]]]; [assumption|].
  destruct h as [|f h].
  - (* five digits *)
    unfold r_hexpoint, dec_cond, hex_value. cbn [List.length fold_left hexpoint_ok Nat.leb].
    rewrite Ea, Eb, Ec, Ed, Ee, Na, Db, Dc, Dd, De. cbn [andb].
    destruct (v5_bounds va vb vc vd ve La Lb Lc Ld Le) as [V1 [V2 [V3 V4]]].
    apply N.ltb_lt in V1. apply N.leb_le in V2. rewrite V1, V2, andb_true_r. cbn [andb].
    destruct (va =? 0)%N eqn:E0; cbn [negb andb]; rewrite ?andb_true_r; symmetry.
    + apply N.eqb_eq in E0. apply N.leb_gt. exact (V3 E0).
    + apply N.eqb_neq in E0. apply N.leb_le. exact (V4 E0).
  - cbn [forallb] in H. apply andb_true_iff in H as [Hf H].
    destruct (hexU_value f Hf) as [vf [Ef [Lf [Df _]]]].
    destruct h as [|g h].
    + (* six digits *)
      unfold r_hexpoint, dec_cond, hex_value. cbn [List.length fold_left hexpoint_ok Nat.leb].
      rewrite Ea, Eb, Ec, Ed, Ee, Ef, A1, B0, Dc, Dd, De, Df. rewrite !andb_true_r. cbn [andb].
      destruct (v6_bounds va vb vc vd ve vf La Lb Lc Ld Le Lf) as [W1 [W2 [W3 W4]]].
      destruct (va =? 1)%N eqn:E1; [destruct (vb =? 0)%N eqn:E0|]; cbn [andb]; symmetry.
      * apply N.eqb_eq in E1, E0. destruct (W1 E1 E0) as [X1 [X2 X3]].
        apply N.ltb_lt in X1. apply N.leb_le in X2, X3. now rewrite X1, X2, X3.
      * apply N.eqb_eq in E1. apply N.eqb_neq in E0.
        apply andb_false_iff. right. apply andb_false_iff. right. apply N.leb_gt. exact (W2 E1 E0).
      * apply N.eqb_neq in E1. destruct (N.lt_ge_cases va 1) as [Hlt|Hge].
        -- apply andb_false_iff. right. apply andb_false_iff. left. apply N.leb_gt. exact (W3 Hlt).
        -- apply andb_false_iff. left. apply N.ltb_ge. apply W4.
           clear - Hge E1. apply N.le_lteq in Hge. destruct Hge as [Hge|Hge]; [exact Hge|congruence].
    + unfold r_hexpoint, dec_cond. cbn [List.length Nat.leb]. reflexivity.
Qed.

Ltac natle := cbn [List.length]; repeat apply le_n_S; apply Nat.le_0_l.

Lemma utf8_seq_high s n : r_utf8_seq s = Some n ->
  (1 <= n)%nat /\ (n <= List.length s)%nat /\ forall c, In c (firstn n s) -> (128 <= byte_n c)%N.
Proof.
  assert (Hr : forall lo hi c, (128 <= lo)%N -> in_range lo hi c = true -> (128 <= byte_n c)%N).
  { intros lo hi c Hlo H. unfold in_range in H. lia. }
  assert (He : forall k c, (128 <= k)%N -> (k < 256)%N -> Ascii.eqb c (n_byte k) = true -> (128 <= byte_n c)%N).
  { intros k c H1 H2 H. apply Ascii.eqb_eq in H. subst. rewrite byte_n_n_byte; lia. }
  unfold r_utf8_seq. destruct s as [|a [|b0 r]]; try discriminate.
  Opaque in_range.
  destruct (in_range 194 223 a && in_range 128 191 b0) eqn:E2.
  { intros H. inversion H; subst. apply andb_true_iff in E2 as [Ha Hb].
    split; [natle|]. split; [natle|]. cbn [firstn]. intros c [<-|[<-|[]]]; eapply Hr; try eassumption; lia. }
  clear E2. destruct r as [|c r']; [discriminate|].
  match goal with |- (if ?b then _ else _) = _ -> _ => destruct b eqn:E3 end.
  { intros H. inversion H; subst. split; [natle|]. split; [natle|]. cbn [firstn].
    assert (Ha : (128 <= byte_n a)%N /\ (128 <= byte_n b0)%N /\ (128 <= byte_n c)%N).
    { repeat (apply orb_true_iff in E3 as [E3|E3]);
        repeat (apply andb_true_iff in E3 as [E3 ?]);
        repeat match goal with
               | H : in_range _ _ _ = true |- _ => apply Hr in H; [|lia]
               | H : Ascii.eqb _ (n_byte _) = true |- _ => apply He in H; [|lia|lia]
               end; repeat split; assumption. }
    destruct Ha as [? [? ?]]. intros x [<-|[<-|[<-|[]]]]; assumption. }
  clear E3. destruct r' as [|d r'']; [discriminate|].
  match goal with |- (if ?b then _ else _) = _ -> _ => destruct b eqn:E4 end; [|discriminate].
  intros H. inversion H; subst. split; [natle|]. split; [natle|]. cbn [firstn].
  assert (Ha : (128 <= byte_n a)%N /\ (128 <= byte_n b0)%N /\ (128 <= byte_n c)%N /\ (128 <= byte_n d)%N).
  { repeat (apply orb_true_iff in E4 as [E4|E4]);
        repeat (apply andb_true_iff in E4 as [E4 ?]);
        repeat match goal with
               | H : in_range _ _ _ = true |- _ => apply Hr in H; [|lia]
               | H : Ascii.eqb _ (n_byte _) = true |- _ => apply He in H; [|lia|lia]
               end; repeat split; assumption. }
  destruct Ha as [? [? [? ?]]]. intros x [<-|[<-|[<-|[<-|[]]]]]; assumption.
Qed.
Transparent in_range.

(* the reference decoder against the implementation's *)
Lemma u8addr_dec : forall f s, (List.length s < f)%nat ->
  match r_u8addr f s with
  | CV d => dec s = Some d
  | CI => dec s = None
  | CU => True
  end.
Proof.
  induction f as [|f IH]; intros s Hl; [lia|].
  destruct s as [|c t]; [reflexivity|]. cbn [List.length] in Hl. cbn [r_u8addr].
  destruct (r_qchar c) eqn:Eq.
  { destruct (qchar_facts _ (r_qchar_qchar _ Eq)) as [H1 [H2 _]].
    rewrite (dec_cons_plain _ _ H1 H2). specialize (IH t ltac:(lia)).
    destruct (r_u8addr f t); [now rewrite IH|now rewrite IH|exact I]. }
  destruct (is_prefix (bs "\x{") (c :: t)) eqn:Ep.
  { destruct t as [|c1 [|c2 s3]]; cbn [bs list_ascii_of_string is_prefix] in Ep;
      rewrite ?andb_false_r in Ep; try discriminate.
    apply andb_true_iff in Ep as [E0 Ep]. apply andb_true_iff in Ep as [E1 Ep].
    apply andb_true_iff in Ep as [E2 _]. apply Ascii.eqb_eq in E0, E1, E2. subst c c1 c2.
    cbn [skipn].
    destruct (r_span (fun x => negb (r_hexdig_lc x)) s3) as [h r] eqn:Es.
    assert (Hbad : dec ("\" :: "x" :: "{" :: s3) = None ->
                   dec ("\" :: "x" :: "{" :: s3) = None) by auto.
    destruct r as [|e r'].
    { unfold dec. apply dec_step_bad; [|reflexivity]. eapply bad_close_no_match; [exact Es|exact I]. }
    destruct (Ascii.eqb e "}") eqn:Ee; cbn [negb].
    2:{ unfold dec. apply dec_step_bad; [|reflexivity]. eapply bad_close_no_match; [exact Es|exact Ee]. }
    apply Ascii.eqb_eq in Ee. subst e.
    destruct (forallb r_hexdig h) eqn:Eh; cbn [negb]; [|exact I].
    pose proof (r_span_app (fun x => negb (r_hexdig_lc x)) s3) as Happ. rewrite Es in Happ. subst s3.
    rewrite hexdig_forall in Eh.
    destruct h as [|x h].
    { change (r_hexpoint []) with false. cbv iota. unfold dec. apply dec_step_bad; [|reflexivity].
      cbn [app]. unfold match_embedded. reflexivity. }
    rewrite (dec_emb_step (x :: h) r' ltac:(discriminate) Eh).
    rewrite (hexpoint_equiv _ Eh). destruct (dec_cond (x :: h)); [|reflexivity].
    assert (Hlr : (List.length r' < f)%nat).
    { cbn [List.length] in Hl. rewrite app_length in Hl. cbn [List.length] in Hl. lia. }
    specialize (IH r' Hlr). rewrite r_hexnum_value.
    destruct (r_u8addr f r'); [now rewrite IH|now rewrite IH|exact I]. }
  destruct (byte_n c <? 128)%N eqn:E128.
  { unfold dec. apply dec_step_bad; [now apply no_prefix_no_match|].
    apply low_bad. now rewrite Eq, E128. }
  destruct (r_utf8_seq (c :: t)) as [n|] eqn:Eu; [|exact I].
  destruct (existsb (fun u => is_prefix u (c :: t)) r_ws_seqs); [exact I|].
  destruct (utf8_seq_high _ _ Eu) as [Hn1 [Hn2 Hhigh]].
  pose proof (dec_high_step (firstn n (c :: t)) (skipn n (c :: t)) Hhigh) as Hd.
  rewrite firstn_skipn in Hd. rewrite Hd.
  assert (Hls : (List.length (skipn n (c :: t)) < f)%nat).
  { rewrite skipn_length. cbn [List.length] in *. lia. }
  specialize (IH _ Hls).
  destruct (r_u8addr f (skipn n (c :: t))); [now rewrite IH|now rewrite IH|exact I].
Qed.

(* ------------------------------------------------------------------ *)
(* K. RFC 3339 date-time (RRVS)                                        *)
(* ------------------------------------------------------------------ *)

Local Ltac Zify.zify_post_hook ::= Z.div_mod_to_equations.

Lemma take_digits_span s : take_digits s = r_span (fun x => negb (r_digit x)) s.
Proof.
  induction s as [|c t IH]; [reflexivity|]. cbn [take_digits r_span].
  change (is_digit c) with (r_digit c). destruct (r_digit c); cbn [negb]; [|reflexivity].
  now rewrite IH.
Qed.

Lemma leap_eq y : is_leap y = r_leap y.
Proof. unfold is_leap, r_leap. lia. Qed.

Lemma month_len_eq y m : (1 <= m <= 12)%Z -> days_in m y = r_month_len y m.
Proof.
  intros H. unfold days_in, r_month_len. rewrite leap_eq.
  assert (Hm : (m = 1 \/ m = 2 \/ m = 3 \/ m = 4 \/ m = 5 \/ m = 6 \/ m = 7 \/ m = 8 \/ m = 9 \/ m = 10 \/ m = 11 \/ m = 12)%Z) by lia.
  repeat (destruct Hm as [->|Hm]); try subst m; reflexivity.
Qed.

Definition days_chk (a b0 : Z) : bool :=
  forallb (fun m => (r_days (a * 100 + b0) m 1 =? days_from_civil (a * 100 + b0) m 1)%Z)
          [1; 2; 3; 4; 5; 6; 7; 8; 9; 10; 11; 12]%Z.

Definition zrange100 : list Z := map Z.of_nat (seq 0 100).

Lemma days_table : forallb (fun a => forallb (fun b0 => days_chk a b0) zrange100) zrange100 = true.
Proof. vm_compute. reflexivity. Qed.

Lemma skip1_same c t : skip1 c (c :: t) = Some t.
Proof. unfold skip1. now rewrite Ascii.eqb_refl. Qed.

Lemma digit_dig c : r_digit c = true -> (0 <= dig c <= 9)%Z /\ Z.of_N (byte_n c - 48) = dig c.
Proof. unfold r_digit, in_range, dig. intros H. lia. Qed.

Lemma getnum2 a b0 t fixed : r_digit a = true -> r_digit b0 = true ->
  getnum (a :: b0 :: t) fixed = Some (dig a * 10 + dig b0, t)%Z.
Proof. intros Ha Hb. unfold getnum. change is_digit with r_digit. now rewrite Ha, Hb. Qed.

Lemma r_d2_dig a b0 : r_digit a = true -> r_digit b0 = true ->
  r_d2 a b0 = (dig a * 10 + dig b0)%Z /\ (0 <= r_d2 a b0 <= 99)%Z.
Proof.
  intros Ha Hb. destruct (digit_dig a Ha) as [H1 H2]. destruct (digit_dig b0 Hb) as [H3 H4].
  unfold r_d2. rewrite N2Z.inj_add, N2Z.inj_mul, H2, H4. cbn. lia.
Qed.

Lemma days_eq a b0 m d : (0 <= a <= 99)%Z -> (0 <= b0 <= 99)%Z -> (1 <= m <= 12)%Z ->
  r_days (a * 100 + b0) m d = days_from_civil (a * 100 + b0) m d.
Proof.
  intros Ha Hb Hm.
  assert (H1 : r_days (a * 100 + b0) m 1 = days_from_civil (a * 100 + b0) m 1).
  { pose proof days_table as T. rewrite forallb_forall in T.
    assert (Ia : In a zrange100).
    { unfold zrange100. apply in_map_iff. exists (Z.to_nat a). split; [lia|]. apply in_seq. lia. }
    specialize (T a Ia). rewrite forallb_forall in T.
    assert (Ib : In b0 zrange100).
    { unfold zrange100. apply in_map_iff. exists (Z.to_nat b0). split; [lia|]. apply in_seq. lia. }
    specialize (T b0 Ib). unfold days_chk in T. rewrite forallb_forall in T.
    apply Z.eqb_eq. apply T. cbn [In]. lia. }
  unfold r_days, days_from_civil in *. lia.
Qed.

Lemma r_offset_shape zone off : r_offset zone = Some off ->
  (zone = ["Z"] /\ off = 0%Z) \/
  exists sg h0 h1 m0 m1, zone = [sg; h0; h1; ":"; m0; m1] /\
    forallb r_digit [h0; h1; m0; m1] = true /\
    (r_d2 h0 h1 <= 23)%Z /\ (r_d2 m0 m1 <= 59)%Z /\
    ((sg = "+" /\ off = ((r_d2 h0 h1 * 60 + r_d2 m0 m1) * 60)%Z) \/
     (sg = "-" /\ off = (- ((r_d2 h0 h1 * 60 + r_d2 m0 m1) * 60))%Z)).
Proof.
  unfold r_offset. destruct zone as [|z [|h0 [|h1 [|col [|m0 [|m1 [|x r]]]]]]]; try discriminate.
  - destruct (Ascii.eqb z "Z") eqn:E; [|discriminate]. apply Ascii.eqb_eq in E. subst.
    intros H. inversion H. now left.
  - destruct (forallb r_digit [h0; h1; m0; m1] && Ascii.eqb col ":" && (r_d2 h0 h1 <=? 23)%Z && (r_d2 m0 m1 <=? 59)%Z) eqn:E; [|discriminate].
    apply andb_true_iff in E as [E E4]. apply andb_true_iff in E as [E E3]. apply andb_true_iff in E as [E1 E2].
    apply Ascii.eqb_eq in E2. subst col.
    intros H. right. exists z, h0, h1, m0, m1. repeat split; try assumption; try lia.
    destruct (Ascii.eqb z "+") eqn:Ep.
    + apply Ascii.eqb_eq in Ep. subst. inversion H. now left.
    + destruct (Ascii.eqb z "-") eqn:Em; [|discriminate]. apply Ascii.eqb_eq in Em. subst. inversion H. now right.
Qed.


Lemma r_datetime_parse ts t : r_datetime ts = Some t -> parse_rfc3339 ts = Some t.
Proof.
  unfold r_datetime. Opaque in_range.
  destruct ts as [|y0 [|y1 [|y2 [|y3 [|s1 [|mo0 [|mo1 [|s2 [|d0 [|d1 [|tsep [|h0 [|h1 [|c1 [|mi0 [|mi1 [|c2 [|se0 [|se1 r]]]]]]]]]]]]]]]]]]];
    try discriminate.
  match goal with |- (if ?b then _ else _) = _ -> _ => destruct b eqn:E end; [|discriminate].
  do 5 (apply andb_true_iff in E as [E ?]).
  cbn [forallb] in E. do 14 (apply andb_true_iff in E as [? E]). clear E.
  repeat match goal with H : Ascii.eqb _ _ = true |- _ => apply Ascii.eqb_eq in H end. subst.
  match goal with |- (if ?b then _ else _) = _ -> _ => destruct b eqn:Er end; [|discriminate].
  repeat (apply andb_true_iff in Er as [Er ?]).
  destruct (r_d2_dig y0 y1) as [Ey01 Ry01]; try assumption.
  destruct (r_d2_dig y2 y3) as [Ey23 Ry23]; try assumption.
  destruct (r_d2_dig mo0 mo1) as [Emo Rmo]; try assumption.
  destruct (r_d2_dig d0 d1) as [Ed Rd]; try assumption.
  destruct (r_d2_dig h0 h1) as [Eh Rh]; try assumption.
  destruct (r_d2_dig mi0 mi1) as [Emi Rmi]; try assumption.
  destruct (r_d2_dig se0 se1) as [Ese Rse]; try assumption.
  intros Hres.
  unfold parse_rfc3339. cbn [forallb]. change is_digit with r_digit.
  repeat match goal with H : r_digit _ = true |- _ => rewrite H end. cbn [andb].
  rewrite skip1_same, (getnum2 mo0 mo1) by assumption. rewrite <- Emo.
  assert (Hm : ((r_d2 mo0 mo1 <=? 0) || (12 <? r_d2 mo0 mo1))%Z = false) by lia. rewrite Hm.
  rewrite skip1_same, (getnum2 d0 d1) by assumption. rewrite <- Ed.
  rewrite skip1_same, (getnum2 h0 h1) by assumption. rewrite <- Eh.
  assert (Hh : (24 <=? r_d2 h0 h1)%Z = false) by lia. rewrite Hh.
  rewrite skip1_same, (getnum2 mi0 mi1) by assumption. rewrite <- Emi.
  assert (Hmi : (60 <=? r_d2 mi0 mi1)%Z = false) by lia. rewrite Hmi.
  rewrite skip1_same, (getnum2 se0 se1) by assumption. rewrite <- Ese.
  assert (Hse : (60 <=? r_d2 se0 se1)%Z = false) by lia. rewrite Hse.
  assert (Hyear : (dig y0 * 1000 + dig y1 * 100 + dig y2 * 10 + dig y3 = r_d2 y0 y1 * 100 + r_d2 y2 y3)%Z) by lia.
  rewrite Hyear.
  assert (Hday : ((r_d2 d0 d1 <? 1) || (days_in (r_d2 mo0 mo1) (r_d2 y0 y1 * 100 + r_d2 y2 y3) <? r_d2 d0 d1))%Z = false).
  { rewrite month_len_eq by lia. lia. }
  assert (Hdays : days_from_civil (r_d2 y0 y1 * 100 + r_d2 y2 y3) (r_d2 mo0 mo1) (r_d2 d0 d1)
                  = r_days (r_d2 y0 y1 * 100 + r_d2 y2 y3) (r_d2 mo0 mo1) (r_d2 d0 d1)).
  { symmetry. apply days_eq; lia. }
  (* the reference's view of the rest: fraction and zone *)
  set (fz := match r with
             | p :: r' => if Ascii.eqb p "." then let '(ds, z) := r_span (fun x => negb (r_digit x)) r' in (Some ds, z) else (None, r)
             | [] => (None, r) end) in Hres.
  destruct fz as [frac zone] eqn:Efz. subst fz.
  destruct (r_offset zone) as [off|] eqn:Eoff; [|discriminate].
  (* what the implementation computes for the fraction *)
  lazymatch goal with |- (let (_, _) := ?X in _) = _ =>
  assert (Hfrac : exists nsec, X = (nsec, zone) /\
            (match frac with Some ds => r_nonempty ds && (List.length ds <=? 9)%nat | None => true end = true ->
             nsec = match frac with Some ds => r_nanos ds | None => 0%Z end)) end.
  { destruct r as [|p r']; [inversion Efz; subst; discriminate|].
    destruct (Ascii.eqb p ".") eqn:Ep.
    - apply Ascii.eqb_eq in Ep. subst p.
      destruct (r_span (fun x => negb (r_digit x)) r') as [ds z] eqn:Esp. inversion Efz; subst frac zone.
      destruct ds as [|d ds].
      + exfalso. cbn in Hres. discriminate.
      + pose proof (r_span_app (fun x => negb (r_digit x)) r') as Ha. rewrite Esp in Ha. subst r'.
        pose proof (r_span_before _ _ _ _ Esp) as Hb. cbn [forallb] in Hb.
        apply andb_true_iff in Hb as [Hd _]. apply negb_true_iff, negb_false_iff in Hd.
        exists (nanos_of (d :: ds)). cbn [app tl]. rewrite Hd. cbn [orb andb].
        change (take_digits ((d :: ds) ++ z)) with (take_digits ((d :: ds) ++ z)).
        rewrite take_digits_span. change ((d :: ds) ++ z) with (d :: ds ++ z) in Esp. rewrite Esp.
        split; [reflexivity|]. intros Hl. apply andb_true_iff in Hl as [_ Hl]. apply Nat.leb_le in Hl.
        unfold nanos_of, r_nanos. now rewrite firstn_all2 by exact Hl.
    - inversion Efz; subst frac zone. exists 0%Z. split; [|reflexivity].
      destruct (r_offset_shape _ _ Eoff) as [[Ez _]|[sg [a [b0 [m0 [m1 [Ez [_ [_ [_ Hsg]]]]]]]]]].
      + inversion Ez; subst. reflexivity.
      + inversion Ez; subst. destruct Hsg as [[-> _]|[-> _]]; reflexivity. }
  destruct Hfrac as [nsec [Hgo Hns]]. rewrite Hgo.
  destruct (match frac with Some ds => r_nonempty ds && (List.length ds <=? 9)%nat | None => true end) eqn:Efok; [|discriminate].
  specialize (Hns eq_refl). rewrite <- Hns in Hres.
  rewrite Hday, Hdays. injection Hres as <-.
  destruct (r_offset_shape _ _ Eoff) as [[-> ->]|[sg [a [b0 [m0 [m1 [-> [Hdg [Hhr [Hmm Hsg]]]]]]]]]].
  - reflexivity.
  - cbn [forallb] in Hdg. do 4 (apply andb_true_iff in Hdg as [? Hdg]). clear Hdg.
    destruct (r_d2_dig a b0) as [Eab Rab]; try assumption.
    destruct (r_d2_dig m0 m1) as [Em Rm]; try assumption.
    rewrite <- Eab, <- Em.
    assert (Hrange : ((24 <? r_d2 a b0) || (60 <? r_d2 m0 m1))%Z = false) by lia.
    repeat match goal with Hd : r_digit _ = true |- _ => rewrite Hd end.
    rewrite Hrange.
    destruct Hsg as [[-> ->]|[-> ->]]; reflexivity.
Qed.
Transparent in_range.

Lemma parse_rfc3339_head s t : parse_rfc3339 s = Some t ->
  exists y0 y1 y2 y3 rest, s = y0 :: y1 :: y2 :: y3 :: "-" :: rest /\
    forallb r_digit [y0; y1; y2; y3] = true.
Proof.
  unfold parse_rfc3339. destruct s as [|y0 [|y1 [|y2 [|y3 s1]]]]; try discriminate.
  destruct (forallb is_digit [y0; y1; y2; y3]) eqn:Ed; [|discriminate].
  destruct (skip1 "-" s1) as [s2|] eqn:Es; [|discriminate]. intros _.
  unfold skip1 in Es. destruct s1 as [|x s1']; [discriminate|].
  destruct (Ascii.eqb x "-") eqn:Ex; [|discriminate]. apply Ascii.eqb_eq in Ex. subst x.
  exists y0, y1, y2, y3, s1'. split; [reflexivity|exact Ed].
Qed.

Definition rrvs_time (v : bytes) : bytes :=
  match cut_byte ";" v with Some (a, _) => a | None => v end.

Lemma cut_byte_span c v a r :
  r_span (fun x => Ascii.eqb x c) v = (a, r) ->
  cut_byte c v = match r with [] => None | _ :: r' => Some (a, r') end.
Proof.
  revert a r. induction v as [|x v IH]; intros a r H; cbn in H.
  - inversion H. reflexivity.
  - cbn [cut_byte]. rewrite (Ascii.eqb_sym c x). destruct (Ascii.eqb x c) eqn:E.
    + inversion H; subst. reflexivity.
    + destruct (r_span (fun x0 => Ascii.eqb x0 c) v) as [a' r'] eqn:Es. inversion H; subst.
      rewrite (IH a' r eq_refl). destruct r; reflexivity.
Qed.

Lemma rrvs_time_span v ts r : r_span (fun x => Ascii.eqb x ";") v = (ts, r) -> rrvs_time v = ts.
Proof.
  intros H. unfold rrvs_time. rewrite (cut_byte_span _ _ _ _ H).
  destruct r; [|reflexivity]. pose proof (r_span_app (fun x => Ascii.eqb x ";") v) as Ha.
  rewrite H in Ha. now rewrite app_nil_r in Ha.
Qed.

Lemma rrvs_valid v t : r_rrvs v = CV (RRrvs t) -> parse_rfc3339 (rrvs_time v) = Some t.
Proof.
  unfold r_rrvs. destruct v as [|y0 [|y1 [|y2 [|y3 [|s1 v']]]]]; try discriminate.
  destruct (negb _); [discriminate|].
  destruct (r_span (fun x => Ascii.eqb x ";") (y0 :: y1 :: y2 :: y3 :: s1 :: v')) as [ts r] eqn:Es.
  destruct (r_datetime ts) as [t'|] eqn:Ed; [|discriminate].
  destruct (negb _); [discriminate|]. destruct (_ && _); [discriminate|].
  intros H. inversion H; subst t'. rewrite (rrvs_time_span _ _ _ Es). now apply r_datetime_parse.
Qed.

Lemma rrvs_invalid v : r_rrvs v = CI -> parse_rfc3339 (rrvs_time v) = None.
Proof.
  intros H. destruct (parse_rfc3339 (rrvs_time v)) as [t|] eqn:Ep; [|reflexivity]. exfalso.
  destruct (parse_rfc3339_head _ _ Ep) as [y0 [y1 [y2 [y3 [rest [Ets Hd]]]]]].
  assert (Hv : exists w, v = y0 :: y1 :: y2 :: y3 :: "-" :: w).
  { unfold rrvs_time in Ets. destruct (cut_byte ";" v) as [[a r]|] eqn:Ec.
    - apply cut_byte_split in Ec. subst v a. eexists. reflexivity.
    - subst v. eexists. reflexivity. }
  destruct Hv as [w ->]. unfold r_rrvs in H. rewrite Hd in H.
  rewrite (Ascii.eqb_refl "-") in H. cbn [andb negb] in H.
  destruct (r_span _ _) as [ts r]. destruct (r_datetime ts); [|discriminate].
  destruct (negb _); [discriminate|]. destruct (_ && _); discriminate.
Qed.

(* ------------------------------------------------------------------ *)
(* L. RCPT parameters                                                  *)
(* ------------------------------------------------------------------ *)

(* --- NOTIFY --- *)

Definition n_never (x : bytes) : bool := bytes_eqb x (bs "NEVER").
Definition n_item (x : bytes) : bool :=
  bytes_eqb x (bs "SUCCESS") || bytes_eqb x (bs "FAILURE") || bytes_eqb x (bs "DELAY").
Definition n_known (x : bytes) : bool :=
  bytes_eqb x (bs "NEVER") || bytes_eqb x (bs "DELAY") || bytes_eqb x (bs "FAILURE") || bytes_eqb x (bs "SUCCESS").

Lemma n_known_split x : n_known x = n_never x || n_item x.
Proof.
  unfold n_known, n_never, n_item.
  destruct (bytes_eqb x (bs "NEVER")), (bytes_eqb x (bs "DELAY")), (bytes_eqb x (bs "FAILURE")),
    (bytes_eqb x (bs "SUCCESS")); reflexivity.
Qed.

Lemma n_never_item x : n_never x = true -> n_item x = false.
Proof. unfold n_never. intros H. apply bytes_eqb_eq in H. subst. reflexivity. Qed.

Lemma known_no_never l :
  forallb n_known l && negb (existsb (bytes_eqb (bs "NEVER")) l) = forallb n_item l.
Proof.
  induction l as [|x l IH]; [reflexivity|]. cbn [forallb existsb].
  rewrite n_known_split. change (bytes_eqb (bs "NEVER") x) with (bytes_eqb (bs "NEVER") x).
  assert (Hs : bytes_eqb (bs "NEVER") x = n_never x).
  { unfold n_never. destruct (bytes_eqb x (bs "NEVER")) eqn:E.
    - apply bytes_eqb_eq in E. subst. reflexivity.
    - destruct (bytes_eqb (bs "NEVER") x) eqn:E2; [|reflexivity].
      apply bytes_eqb_eq in E2. subst. discriminate. }
  rewrite Hs. destruct (n_never x) eqn:En.
  - rewrite (n_never_item _ En). cbn. now rewrite andb_false_r.
  - cbn [orb negb]. rewrite <- IH. destruct (n_item x); cbn; [reflexivity|reflexivity].
Qed.

Lemma notify_ok_unfold vals : vals <> [] ->
  notify_ok vals = forallb n_known vals && r_nodup vals
                   && (negb (existsb (bytes_eqb (bs "NEVER")) vals) || (List.length vals =? 1)%nat).
Proof. intros H. destruct vals; [contradiction|reflexivity]. Qed.

Lemma notify_ok_ref vals : vals <> [] ->
  notify_ok vals =
  match vals with
  | [x] => n_never x || n_item x
  | _ => forallb n_item vals && r_nodup vals
  end.
Proof.
  intros Hne. rewrite (notify_ok_unfold _ Hne). destruct vals as [|x [|y l]]; [contradiction| |].
  - cbn [forallb r_nodup existsb List.length Nat.eqb negb]. rewrite n_known_split.
    rewrite !andb_true_r, orb_true_r, andb_true_r. reflexivity.
  - cbn [List.length Nat.eqb]. rewrite orb_false_r.
    rewrite <- known_no_never.
    destruct (forallb n_known (x :: y :: l)), (r_nodup (x :: y :: l)),
      (negb (existsb (bytes_eqb (bs "NEVER")) (x :: y :: l))); reflexivity.
Qed.

Lemma split_pieces_ascii c : forall v, forallb is_ascii7 v = true ->
  forall piece, In piece (split_byte c v) -> forallb is_ascii7 piece = true.
Proof.
  intros v Hv piece Hin. destruct (split_byte_sub _ _ _ Hin) as [u [w E]].
  rewrite E, !forallb_app in Hv. apply andb_true_iff in Hv as [_ Hv].
  now apply andb_true_iff in Hv as [Hv _].
Qed.

Lemma map_upper_ascii l : (forall p, In p l -> forallb is_ascii7 p = true) ->
  map to_upper l = map r_upper l.
Proof.
  induction l as [|x l IH]; intros H; [reflexivity|]. cbn [map].
  rewrite (ascii_upper x) by (apply H; now left). f_equal. apply IH. intros p Hp. apply H. now right.
Qed.

Lemma notify_equiv v : forallb is_ascii7 v = true ->
  map to_upper (split_byte "," v) = map r_upper (split_byte "," v) /\
  match r_notify v with
  | CV (RNotify l) => l = map r_upper (split_byte "," v) /\ notify_ok l = true
  | CV _ => False
  | CI => notify_ok (map r_upper (split_byte "," v)) = false
  | CU => False
  end.
Proof.
  intros Hv. split; [apply map_upper_ascii, (split_pieces_ascii _ _ Hv)|].
  unfold r_notify. set (vals := map r_upper (split_byte "," v)).
  assert (Hne : vals <> []).
  { subst vals. pose proof (split_byte_nonnil "," v). destruct (split_byte "," v); [contradiction|discriminate]. }
  rewrite (notify_ok_ref vals Hne). fold n_never. 
  destruct vals as [|x [|y l]]; [contradiction| |].
  - change (bytes_eqb x (bs "NEVER")) with (n_never x).
    change (bytes_eqb x (bs "SUCCESS") || bytes_eqb x (bs "FAILURE") || bytes_eqb x (bs "DELAY")) with (n_item x).
    destruct (n_never x || n_item x) eqn:E; [split; [reflexivity|rewrite (notify_ok_ref [x]) by discriminate; exact E]|reflexivity].
  - change (forallb (fun x0 => bytes_eqb x0 (bs "SUCCESS") || bytes_eqb x0 (bs "FAILURE") || bytes_eqb x0 (bs "DELAY")) (x :: y :: l))
      with (forallb n_item (x :: y :: l)).
    destruct (forallb n_item (x :: y :: l) && r_nodup (x :: y :: l)) eqn:E; [split; [reflexivity|]|reflexivity].
    rewrite (notify_ok_ref (x :: y :: l)) by discriminate. exact E.
Qed.

(* --- ORCPT --- *)

Definition xw_char (c : ascii) : bool :=
  (r_vchar c || (128 <=? byte_n c)%N) && negb (Ascii.eqb c "=").

Lemma xw_printable c : (xw_char c && in_range 32 126 c) = true -> xv_char c = true.
Proof. revert c. byteimpl. Qed.

Lemma go_xtext_ref_w : forall n v d, (List.length v <= n)%nat ->
  forallb xw_char v = true -> decode_xtext_go v = Some d -> is_printable_ascii d = true ->
  r_xtext v = Some d.
Proof.
  induction n as [|n IH]; intros v d Hn Hv H Hp.
  - destruct v; [inversion H; reflexivity|cbn in Hn; lia].
  - destruct v as [|c t]; [inversion H; reflexivity|]. cbn [List.length] in Hn.
    cbn [forallb] in Hv. apply andb_true_iff in Hv as [Hc Hv].
    cbn [decode_xtext_go] in H. cbn [r_xtext].
    destruct (Ascii.eqb c "+") eqn:Ep.
    + destruct t as [|h1 [|h2 t']]; try discriminate. change r_hexval with hexU.
      destruct (hexU h1) as [a|]; [|discriminate]. destruct (hexU h2) as [b0|]; [|discriminate].
      destruct (a * 16 + b0 <? 128)%N; [|discriminate].
      cbn [forallb] in Hv. apply andb_true_iff in Hv as [_ Hv]. apply andb_true_iff in Hv as [_ Hv].
      destruct (decode_xtext_go t') as [d'|] eqn:Ed; [|discriminate]. cbn in H. inversion H; subst d.
      cbn [is_printable_ascii forallb] in Hp. apply andb_true_iff in Hp as [_ Hp].
      rewrite (IH t' d'); [reflexivity|cbn [List.length] in Hn; lia|exact Hv|exact Ed|exact Hp].
    + destruct (decode_xtext_go t) as [d'|] eqn:Ed; [|discriminate]. cbn in H. inversion H; subst d.
      cbn [is_printable_ascii forallb] in Hp. apply andb_true_iff in Hp as [Hpc Hp].
      assert (Hx : r_xchar c = true).
      { pose proof (xw_printable c) as Hxv. rewrite Hc in Hxv. unfold is_printable in Hpc. rewrite Hpc in Hxv.
        specialize (Hxv eq_refl). unfold xv_char in Hxv. apply andb_true_iff in Hxv as [H1 H2].
        unfold r_xchar. now rewrite H1, Ep, H2. }
      rewrite Hx. rewrite (IH t d'); [reflexivity|lia|exact Hv|exact Ed|exact Hp].
Qed.

Lemma decode_xtext_ref_w v d :
  forallb xw_char v = true -> decode_xtext v = Some d -> is_printable_ascii d = true ->
  r_xtext v = Some d.
Proof.
  intros Hv. unfold decode_xtext, contains_byte. destruct (mem_byte "+" v) eqn:Ep.
  - intros H Hp. eapply go_xtext_ref_w; [apply le_n|exact Hv|exact H|exact Hp].
  - intros H Hp. inversion H; subst. apply r_xtext_plain; [|exact Ep].
    clear Ep H. induction d as [|c d IH]; [reflexivity|].
    cbn [forallb] in Hv. apply andb_true_iff in Hv as [Hc Hv].
    cbn [is_printable_ascii forallb] in Hp. apply andb_true_iff in Hp as [Hpc Hp].
    cbn [forallb]. rewrite (IH Hv Hp), andb_true_r. apply xw_printable.
    unfold is_printable in Hpc. now rewrite Hc, Hpc.
Qed.

Lemma up_ascii c : Bool.eqb (is_ascii7 (r_up c)) (is_ascii7 c) = true.
Proof. revert c. bytecase. Qed.

Lemma upper_ascii_inv s : forallb is_ascii7 (r_upper s) = true -> forallb is_ascii7 s = true.
Proof.
  induction s as [|c s IH]; [reflexivity|]. cbn [r_upper map forallb].
  rewrite (eqb_prop _ _ (up_ascii c)). intros H. apply andb_true_iff in H as [H1 H2].
  rewrite H1. now apply IH.
Qed.

Lemma r_is_upper ty (K : string) : r_is ty K = true -> forallb is_ascii7 (bs K) = true -> to_upper ty = bs K.
Proof.
  intros H HK. pose proof (r_is_eq _ _ H) as E. rewrite <- E. apply ascii_upper.
  apply upper_ascii_inv. now rewrite E.
Qed.

Lemma forallb_suffix {A} (f : A -> bool) pre s : forallb f (pre ++ s) = true -> forallb f s = true.
Proof. rewrite forallb_app. intros H. now apply andb_true_iff in H. Qed.

Lemma orcpt_dec v : forallb xw_char v = true ->
  match r_orcpt v with
  | CV (ROrcpt ty a) => decode_typed_address v = Some (ty, a) /\ a <> []
  | CV _ => False
  | CI => match decode_typed_address v with Some (_, _ :: _) => False | _ => True end
  | CU => True
  end.
Proof.
  intros Hv. unfold r_orcpt, decode_typed_address, splitn2.
  destruct (mem_byte ";" v) eqn:Hm; cbn [negb].
  2:{ now rewrite (cut_byte_none _ _ Hm). }
  destruct (r_span (fun x => Ascii.eqb x ";") v) as [ty r] eqn:Es.
  destruct (r_span_eq_char _ _ _ _ Es) as [E1 [_ E3]]. destruct (E3 Hm) as [addr ->]. cbn [tl].
  rewrite (cut_byte_span _ _ _ _ Es).
  destruct ty as [|t0 ty]; [exact I|]. destruct addr as [|a0 addr]; [exact I|].
  assert (Hva : forallb xw_char (a0 :: addr) = true).
  { rewrite E1 in Hv. apply forallb_suffix in Hv. cbn [forallb] in Hv. now apply andb_true_iff in Hv as [_ Hv]. }
  destruct (r_is (t0 :: ty) "RFC822") eqn:E822.
  { rewrite (r_is_upper _ _ E822 eq_refl). cbn [bytes_eqb bs list_ascii_of_string Ascii.eqb andb].
    change (bytes_eqb (bs "RFC822") (bs "RFC822")) with true. cbv iota.
    destruct (r_xtext (a0 :: addr)) as [[|x d]|] eqn:Ex.
    - destruct (decode_xtext (a0 :: addr)) as [d'|] eqn:Ed; [|exact I].
      destruct (is_printable_ascii d') eqn:Ep; [|exact I].
      rewrite (decode_xtext_ref_w _ _ Hva Ed Ep) in Ex. inversion Ex; subst. exact I.
    - destruct (r_printable (x :: d)) eqn:Epr; cbn [negb].
      + destruct (500 <? List.length v)%nat; [exact I|].
        rewrite (r_xtext_decode _ _ Ex) by (eapply forallb_impl; [apply printable_ascii|exact Epr]).
        change (is_printable_ascii (x :: d)) with (r_printable (x :: d)). rewrite Epr.
        rewrite (r_is_eq _ _ E822). split; [reflexivity|discriminate].
      + destruct (decode_xtext (a0 :: addr)) as [d'|] eqn:Ed; [|exact I].
        destruct (is_printable_ascii d') eqn:Ep; [|exact I].
        rewrite (decode_xtext_ref_w _ _ Hva Ed Ep) in Ex. inversion Ex; subst.
        change (is_printable_ascii (x :: d)) with (r_printable (x :: d)) in Ep. congruence.
    - destruct (decode_xtext (a0 :: addr)) as [d'|] eqn:Ed; [|exact I].
      destruct (is_printable_ascii d') eqn:Ep; [|exact I].
      rewrite (decode_xtext_ref_w _ _ Hva Ed Ep) in Ex. discriminate. }
  destruct (r_is (t0 :: ty) "UTF-8") eqn:Eu8; [|exact I].
  rewrite (r_is_upper _ _ Eu8 eq_refl).
  change (bytes_eqb (bs "UTF-8") (bs "RFC822")) with false.
  change (bytes_eqb (bs "UTF-8") (bs "UTF-8")) with true. cbv iota.
  pose proof (u8addr_dec (S (List.length (a0 :: addr))) (a0 :: addr) (Nat.lt_succ_diag_r _)) as Hd.
  unfold decode_utf8_addr_xtext. fold (dec (a0 :: addr)).
  destruct (r_u8addr (S (List.length (a0 :: addr))) (a0 :: addr)) as [[|x d]| |].
  - rewrite Hd. exact I.
  - destruct (500 <? List.length v)%nat; [exact I|]. rewrite Hd. cbn [option_map].
    rewrite (r_is_eq _ _ Eu8). split; [reflexivity|discriminate].
  - rewrite Hd. exact I.
  - exact I.
Qed.

(* --- rcpt_param on each key --- *)

Lemma rcpt_param_NOTIFY cfg v o :
  rcpt_param cfg (bs "NOTIFY") v o =
  if negb (cf_dsn cfg) then inr (504, (5, 5, 4), bs "NOTIFY is not implemented")%Z
  else
    let vals := map to_upper (split_byte "," v) in
    if notify_ok vals then inl (mkRO vals (ro_orcpt_type o) (ro_orcpt o) (ro_rrvs o))
    else inr (501, (5, 5, 4), bs "Malformed NOTIFY parameter value")%Z.
Proof. reflexivity. Qed.

Lemma rcpt_param_ORCPT cfg v o :
  rcpt_param cfg (bs "ORCPT") v o =
  if negb (cf_dsn cfg) then inr (504, (5, 5, 4), bs "ORCPT is not implemented")%Z
  else
    match decode_typed_address v with
    | Some (ty, ((_ :: _) as a)) => inl (mkRO (ro_notify o) ty a (ro_rrvs o))
    | _ => inr (501, (5, 5, 4), bs "Malformed ORCPT parameter value")%Z
    end.
Proof. reflexivity. Qed.

Lemma rcpt_param_RRVS cfg v o :
  rcpt_param cfg (bs "RRVS") v o =
  if negb (cf_rrvs cfg) then inr (504, (5, 5, 4), bs "RRVS is not implemented")%Z
  else
    match parse_rfc3339 (rrvs_time v) with
    | Some t => inl (mkRO (ro_notify o) (ro_orcpt_type o) (ro_orcpt o) (Some t))
    | None => inr (501, (5, 5, 4), bs "Malformed RRVS parameter value")%Z
    end.
Proof. reflexivity. Qed.

Lemma rcpt_param_unknown cfg k v o :
  bytes_eqb k (bs "NOTIFY") = false -> bytes_eqb k (bs "ORCPT") = false ->
  bytes_eqb k (bs "RRVS") = false ->
  rcpt_param cfg k v o = inr (500, (5, 5, 4), bs "Unknown RCPT TO argument")%Z.
Proof. intros H1 H2 H3. unfold rcpt_param. now rewrite H1, H2, H3. Qed.

Lemma rcpt_param_empty cfg K o : exists f, rcpt_param cfg K [] o = inr f.
Proof.
  unfold rcpt_param.
  destruct (bytes_eqb K (bs "NOTIFY")); [destruct (cf_dsn cfg); cbn; eauto|].
  destruct (bytes_eqb K (bs "ORCPT")); [destruct (cf_dsn cfg); cbn; eauto|].
  destruct (bytes_eqb K (bs "RRVS")); [destruct (cf_rrvs cfg); cbn; eauto|]. eauto.
Qed.

Definition rp_key (p : rparam) : bytes :=
  match p with RNotify _ => bs "NOTIFY" | ROrcpt _ _ => bs "ORCPT" | RRrvs _ => bs "RRVS" end.

Lemma xv_xw c : xv_char c = true -> xw_char c = true.
Proof. revert c. byteimpl. Qed.

Lemma high_xw val :
  mem_byte "=" val = false -> forallb (fun c => r_vchar c || (128 <=? byte_n c)%N) val = true ->
  forallb xw_char val = true.
Proof.
  induction val as [|c t IH]; [reflexivity|]. cbn [mem_byte forallb]. intros Hm Hf.
  apply orb_false_iff in Hm as [Hc Hm]. apply andb_true_iff in Hf as [Hfc Hf].
  rewrite (IH Hm Hf), andb_true_r. unfold xw_char. rewrite Hfc. cbn. now rewrite Ascii.eqb_sym, Hc.
Qed.

Lemma rcpt_param_valid cfg tok p :
  r_rcpt_param cfg tok = CV p ->
  tok_ok tok = true /\ rp_key p = r_tok_key tok /\
  forall o, rcpt_param cfg (r_tok_key tok) (tok_val tok) o = inl (rparam_apply o p).
Proof.
  unfold r_rcpt_param, tok_ok, tok_k, r_tok_key, tok_val.
  destruct (r_tok_split tok) as [k v]. cbn [fst snd].
  destruct (r_keyword k) eqn:Ek; [|discriminate]. cbn [negb].
  destruct v as [val|]; [|discriminate].
  destruct (r_bad_value val) eqn:Eb; [discriminate|].
  destruct (bad_value_false _ Eb) as [Heq Hne]. cbn [negb].
  assert (Horcpt : cf_dsn cfg = true -> forallb xw_char val = true -> r_is k "ORCPT" = true ->
            r_orcpt val = CV p ->
            true = true /\ rp_key p = r_upper k /\
            forall o, rcpt_param cfg (r_upper k) val o = inl (rparam_apply o p)).
  { intros Edsn Hxw E Hr. apply r_is_eq in E. rewrite E.
    pose proof (orcpt_dec val Hxw) as Hd. rewrite Hr in Hd. destruct p as [|ty a|]; try contradiction.
    destruct Hd as [Hd Ha]. repeat split; try reflexivity; try assumption.
    intros o. rewrite rcpt_param_ORCPT, Edsn, Hd. cbn [negb]. destruct a; [contradiction|reflexivity]. }
  destruct (r_esmtp_value val) eqn:Ev; cbn [negb].
  2:{ destruct (r_is k "ORCPT") eqn:E; [|discriminate]. destruct (cf_dsn cfg) eqn:Edsn; [|discriminate].
      destruct (forallb (fun c => r_vchar c || (128 <=? byte_n c)%N) val) eqn:Eh; cbn [andb]; [|discriminate].
      intros Hr. apply Horcpt; try assumption; try reflexivity. now apply high_xw. }
  destruct (esmtp_value_xv _ Ev) as [Hxv _].
  assert (Hva : forallb is_ascii7 val = true) by (eapply forallb_impl; [apply xv_ascii|exact Hxv]).
  destruct (r_is k "NOTIFY") eqn:E1.
  { apply r_is_eq in E1. rewrite E1. destruct (cf_dsn cfg) eqn:Edsn; [|discriminate].
    intros Hr. destruct (notify_equiv val Hva) as [Hmap Hn]. rewrite Hr in Hn.
    destruct p as [l| |]; try contradiction. destruct Hn as [-> Hok].
    repeat split; try reflexivity; try assumption.
    intros o. rewrite rcpt_param_NOTIFY, Edsn. cbn [negb]. cbn zeta. rewrite Hmap, Hok. reflexivity. }
  destruct (r_is k "ORCPT") eqn:E2.
  { destruct (cf_dsn cfg) eqn:Edsn; [|discriminate]. intros Hr.
    apply Horcpt; try assumption; try reflexivity. eapply forallb_impl; [apply xv_xw|exact Hxv]. }
  destruct (r_is k "RRVS") eqn:E3; [|discriminate].
  { apply r_is_eq in E3. rewrite E3. destruct (cf_rrvs cfg) eqn:Er; [|discriminate].
    intros Hr. destruct p as [| |t].
    - unfold r_rrvs in Hr. destruct val as [|y0 [|y1 [|y2 [|y3 [|s1 v']]]]]; try discriminate.
      destruct (negb _); [discriminate|]. destruct (r_span _ _) as [ts r]. destruct (r_datetime ts); [|discriminate].
      destruct (negb _); [discriminate|]. destruct (_ && _); discriminate.
    - unfold r_rrvs in Hr. destruct val as [|y0 [|y1 [|y2 [|y3 [|s1 v']]]]]; try discriminate.
      destruct (negb _); [discriminate|]. destruct (r_span _ _) as [ts r]. destruct (r_datetime ts); [|discriminate].
      destruct (negb _); [discriminate|]. destruct (_ && _); discriminate.
    - repeat split; try reflexivity; try assumption.
      intros o. rewrite rcpt_param_RRVS, Er, (rrvs_valid _ _ Hr). reflexivity. }
Qed.

Lemma rcpt_param_invalid cfg tok :
  r_rcpt_param cfg tok = CI -> tok_ok tok = true ->
  forall o, exists f, rcpt_param cfg (r_tok_key tok) (tok_val tok) o = inr f.
Proof.
  unfold r_rcpt_param, tok_ok, r_tok_key, tok_val.
  destruct (r_tok_split tok) as [k v] eqn:Ets. cbn [fst snd].
  intros H Hok o.
  destruct (r_keyword k) eqn:Ek; cbn [negb] in H.
  2:{ rewrite rcpt_param_unknown; [eauto|..]; apply nonkw; (exact Ek || reflexivity). }
  destruct v as [val|]; [|apply rcpt_param_empty].
  apply negb_true_iff in Hok. rewrite Hok in H.
  destruct (bad_value_false _ Hok) as [Heq _].
  assert (Horcpt : forallb xw_char val = true -> r_is k "ORCPT" = true -> r_orcpt val = CI ->
                   exists f, rcpt_param cfg (r_upper k) val o = inr f).
  { intros Hxw E Hr. rewrite (r_is_eq _ _ E), rcpt_param_ORCPT. destruct (cf_dsn cfg); cbn [negb]; [|eauto].
    pose proof (orcpt_dec val Hxw) as Hd. rewrite Hr in Hd.
    destruct (decode_typed_address val) as [[ty [|a0 a]]|]; [eauto|contradiction|eauto]. }
  destruct (r_esmtp_value val) eqn:Ev; cbn [negb] in H.
  2:{ destruct (r_is k "ORCPT") eqn:E; [|discriminate]. destruct (cf_dsn cfg) eqn:Edsn; [|discriminate].
      destruct (forallb (fun c => r_vchar c || (128 <=? byte_n c)%N) val) eqn:Eh; cbn [andb] in H; [|discriminate].
      apply Horcpt; try assumption; try reflexivity. now apply high_xw. }
  destruct (esmtp_value_xv _ Ev) as [Hxv _].
  assert (Hva : forallb is_ascii7 val = true) by (eapply forallb_impl; [apply xv_ascii|exact Hxv]).
  destruct (r_is k "NOTIFY") eqn:E1.
  { rewrite (r_is_eq _ _ E1), rcpt_param_NOTIFY. destruct (cf_dsn cfg); cbn [negb]; [|eauto].
    destruct (notify_equiv val Hva) as [Hmap Hn]. rewrite H in Hn. cbn zeta. rewrite Hmap, Hn. eauto. }
  destruct (r_is k "ORCPT") eqn:E2.
  { destruct (cf_dsn cfg) eqn:Edsn.
    - apply Horcpt; try assumption; try reflexivity. eapply forallb_impl; [apply xv_xw|exact Hxv].
    - rewrite (r_is_eq _ _ E2), rcpt_param_ORCPT, Edsn. cbn. eauto. }
  destruct (r_is k "RRVS") eqn:E3.
  { rewrite (r_is_eq _ _ E3), rcpt_param_RRVS. destruct (cf_rrvs cfg); cbn [negb]; [|eauto].
    rewrite (rrvs_invalid _ H). eauto. }
  rewrite rcpt_param_unknown; eauto.
Qed.

(* ------------------------------------------------------------------ *)
(* M. RCPT: the handler                                                *)
(* ------------------------------------------------------------------ *)

Lemma rparam_comm o p q : rp_key p <> rp_key q ->
  rparam_apply (rparam_apply o p) q = rparam_apply (rparam_apply o q) p.
Proof. destruct p, q; cbn; intros H; try congruence; reflexivity. Qed.

Lemma rcpt_items cfg toks ps :
  Forall2 (fun tok p => r_rcpt_param cfg tok = CV p) toks ps ->
  exists items : list (bytes * bytes * rparam),
    map fst items = map tok_pair toks /\ map snd items = ps /\
    Forall (item_ok (rcpt_param cfg) rparam_apply) items /\
    map rp_key ps = map r_tok_key toks /\
    forallb tok_ok toks = true.
Proof.
  induction 1 as [|tok p toks ps Hp _ IH].
  - exists []. repeat split; try constructor.
  - destruct IH as [items [E1 [E2 [Hf [Ek Hok]]]]].
    destruct (rcpt_param_valid _ _ _ Hp) as [Hok1 [Hk1 Hstep]].
    exists ((tok_pair tok, p) :: items). cbn [map fst snd]. repeat split.
    + now rewrite E1.
    + now rewrite E2.
    + constructor; [|exact Hf]. intros o. unfold item_ok, tok_pair. cbn [fst snd]. apply Hstep.
    + now rewrite Hk1, Ek.
    + cbn [forallb]. now rewrite Hok1, Hok.
Qed.

Lemma rcpt_args_valid cfg toks ps :
  Forall2 (fun tok p => r_rcpt_param cfg tok = CV p) toks ps ->
  r_nodup (map r_tok_key toks) = true ->
  parse_args_go toks [] = Some (map tok_pair toks) /\
  rcpt_params cfg (sort_kv (map tok_pair toks)) ro_zero = inl (fold_left rparam_apply ps ro_zero).
Proof.
  intros H Hnd. destruct (rcpt_items _ _ _ H) as [items [E1 [E2 [Hf [Ek Hok]]]]].
  split.
  - rewrite (parse_args_go_tokens toks []); try assumption; [reflexivity|]. intros; reflexivity.
  - rewrite <- E1.
    destruct (perm_map_items fst items _ (sort_kv_perm (map fst items))) as [items' [Hp E]].
    rewrite E, rcpt_params_loop.
    assert (Hf' : Forall (item_ok (rcpt_param cfg) rparam_apply) items').
    { eapply Permutation_Forall; [apply Permutation_sym; exact Hp|exact Hf]. }
    rewrite (loop_items (rcpt_param cfg) rparam_apply items' ro_zero Hf'). f_equal.
    rewrite <- E2. apply (fold_perm rparam_apply rp_key rparam_comm).
    + apply Permutation_map. exact Hp.
    + eapply Permutation_NoDup; [apply Permutation_map, Permutation_map, Permutation_sym; exact Hp|].
      rewrite E2, Ek. now apply r_nodup_NoDup.
Qed.

Definition rcpt_ok_events (rcpt : bytes) (opts : rcpt_opts) (r : berr) : list event :=
  [ERcpt rcpt opts r;
   match r with
   | BNil => reply 250 (2, 0, 0)%Z (bs "I'll make sure <" ++ rcpt ++ bs "> gets this")
   | _ => reply_err 451 (4, 0, 0)%Z r
   end].

Definition rcpt_limit_free (cfg : config) (c : conn) : Prop :=
  ((0 <? cf_max_rcpt cfg)%N && (cf_max_rcpt cfg <=? N.of_nat (List.length (c_rcpts c)))%N) = false.

Theorem valid_exact_rcpt cfg c arg rcpt opts :
  c_from c = true -> c_bdat c = None -> c_session c = true -> rcpt_limit_free cfg c ->
  classify_rcpt cfg arg = Valid rcpt opts ->
  snd (handle_rcpt cfg c arg) = rcpt_ok_events rcpt opts (fst (pop BNil (be_rcpt (c_be c)))).
Proof.
  intros Hfr Hb Hs Hlim Hc. unfold classify_rcpt in Hc.
  destruct (classify_gen_valid _ _ _ _ _ _ _ _ Hc) as [a [rest [toks [ps [Esp [Hfl [Ep [Et [End [Hf2 Eo]]]]]]]]]].
  destruct (rcpt_args_valid _ _ _ Hf2 End) as [Hpa Hrp].
  unfold handle_rcpt. rewrite Hfr, Hb. cbn [negb].
  destruct to_prefix_ok as [P1 P2]. rewrite (cut_prefix_fold_ref "TO:" arg P1 P2), Esp.
  rewrite (trim_space_id _ Hfl).
  pose proof (r_path_valid false _ _ _ Ep) as Hpp. cbn in Hpp. rewrite Hpp.
  unfold rcpt_limit_free in Hlim. rewrite Hlim.
  unfold parse_args. rewrite (fields_tokens _ _ Et), Hpa, Hrp, Hs. cbn [negb].
  unfold pop_rcpt. destruct (pop BNil (be_rcpt (c_be c))) as [r restq]. cbn [fst].
  unfold rcpt_ok_events. rewrite Eo. destruct r; reflexivity.
Qed.

Lemma rcpt_param_code cfg k v o code ec msg :
  rcpt_param cfg k v o = inr (code, ec, msg) -> refusal_code code.
Proof.
  unfold rcpt_param, refusal_code. intros H.
  repeat match type of H with
         | context [if ?b then _ else _] => destruct b
         | context [match ?x with _ => _ end] => destruct x
         end; inversion H; cbn; tauto.
Qed.

Lemma loop_rcpt_code cfg args : forall o code ec msg,
  loop (rcpt_param cfg) args o = inr (code, ec, msg) -> refusal_code code.
Proof.
  induction args as [|[k v] r IH]; intros o code ec msg H; [discriminate|].
  cbn [loop] in H. destruct (rcpt_param cfg k v o) as [o'|[[c e] m]] eqn:E.
  - eapply IH. exact H.
  - inversion H; subst. eapply rcpt_param_code. exact E.
Qed.

Theorem invalid_refused_rcpt cfg c arg :
  c_from c = true -> c_bdat c = None -> rcpt_limit_free cfg c ->
  classify_rcpt cfg arg = Invalid ->
  exists code ec msg, snd (handle_rcpt cfg c arg) = [reply code ec msg] /\ refusal_code code.
Proof.
  intros Hfr Hb Hlim Hc. unfold classify_rcpt in Hc.
  unfold handle_rcpt. rewrite Hfr, Hb. cbn [negb].
  destruct to_prefix_ok as [P1 P2]. rewrite (cut_prefix_fold_ref "TO:" arg P1 P2).
  assert (Hsyn : exists code ec msg, [syntax_rcpt] = [reply code ec msg] /\ refusal_code code).
  { do 3 eexists. split; [reflexivity|]. unfold refusal_code. cbn. tauto. }
  destruct (classify_gen_invalid _ _ _ _ _ _ Hc) as [Esp|[a [Esp Ha]]]; rewrite Esp; [exact Hsyn|].
  destruct Ha as [->|[Hfl Ha]]; [exact Hsyn|].
  rewrite (trim_space_id _ Hfl).
  destruct Ha as [Ep|[mb [rest [toks [tok [Ep [Et [End [Hin Hci]]]]]]]]].
  { pose proof (r_path_invalid false _ Ep) as Hpp. cbn in Hpp. rewrite Hpp. exact Hsyn. }
  pose proof (r_path_valid false _ _ _ Ep) as Hpp. cbn in Hpp. rewrite Hpp.
  unfold rcpt_limit_free in Hlim. rewrite Hlim.
  unfold parse_args. rewrite (fields_tokens _ _ Et).
  destruct (forallb tok_ok toks) eqn:Eok.
  2:{ destruct (forallb_false_ex _ _ Eok) as [t [Ht Hbad]].
      rewrite (parse_args_go_bad _ _ _ Ht Hbad). do 3 eexists. split; [reflexivity|].
      unfold refusal_code. cbn. tauto. }
  rewrite (parse_args_go_tokens toks []); try assumption.
  2:{ intros; reflexivity. }
  cbn [app].
  assert (Hok : tok_ok tok = true) by (rewrite forallb_forall in Eok; now apply Eok).
  pose proof (rcpt_param_invalid _ _ Hci Hok) as Hfail.
  assert (Hin' : In (tok_pair tok) (sort_kv (map tok_pair toks))).
  { eapply Permutation_in; [apply Permutation_sym, sort_kv_perm|]. now apply in_map. }
  destruct (loop_fails (rcpt_param cfg) _ ro_zero _ _ Hin' Hfail) as [f Hl].
  rewrite rcpt_params_loop, Hl.
  destruct f as [[code ec] msg]. exists code, ec, msg. split; [reflexivity|].
  eapply loop_rcpt_code. exact Hl.
Qed.

(* ------------------------------------------------------------------ *)
(* N. statements for props/C11.v, the former findings, non-vacuity     *)
(* ------------------------------------------------------------------ *)

(* a refused command: one reply, whose code is 5xx, and no callback *)
Definition refused (evs : list event) : Prop :=
  exists code ec msg rest,
    evs = [reply code ec msg] /\ refusal_code code /\ reply code ec msg = EWire ("5" :: rest).

Lemma refused_no_callback evs : refused evs ->
  forall e, In e evs -> match e with EMail _ _ _ | ERcpt _ _ _ => False | _ => True end.
Proof.
  intros [code [ec [msg [rest [-> [_ Hw]]]]]] e [<-|[]]. rewrite Hw. exact I.
Qed.

Theorem invalid_refused_mail_5xx cfg c arg :
  c_helo c <> [] -> c_bdat c = None ->
  classify_mail cfg arg = Invalid ->
  refused (snd (handle_mail cfg c arg)).
Proof.
  intros H1 H2 H3.
  destruct (invalid_refused_mail cfg c arg H1 H2 H3) as [code [ec [msg [E Hc]]]].
  destruct (reply_5xx code ec msg Hc) as [rest Hr]. exists code, ec, msg, rest. auto.
Qed.

Theorem invalid_refused_rcpt_5xx cfg c arg :
  c_from c = true -> c_bdat c = None -> rcpt_limit_free cfg c ->
  classify_rcpt cfg arg = Invalid ->
  refused (snd (handle_rcpt cfg c arg)).
Proof.
  intros H1 H2 H3 H4.
  destruct (invalid_refused_rcpt cfg c arg H1 H2 H3 H4) as [code [ec [msg [E Hc]]]].
  destruct (reply_5xx code ec msg Hc) as [rest Hr]. exists code, ec, msg, rest. auto.
Qed.

(* --- the two former findings: the witnesses are refused now --- *)

Definition cfg_all : config :=
  mkCfg false false (bs "d") 0 0 2000 false true true true true true false None false.
Definition cfg_none : config :=
  mkCfg false false (bs "d") 0 0 2000 false false false false false false false None false.
(* after EHLO (and an accepted MAIL when [from] is set) *)
Definition conn_ready (from : bool) : conn :=
  mkC (Transport.mkT [] [] 0 2000 false) [] (mkBE [] [] [] [] []) (bs "x") true 0 false from []
      false false false None 0.

Definition long_s : bytes := [n_byte 197; n_byte 191].     (* U+017F *)
Definition dotless_i : bytes := [n_byte 196; n_byte 177].  (* U+0131 *)

(* MAIL FROM:<a@b> U+017F IZE=1 (was accepted as SIZE=1): an unknown parameter *)
Example unicode_fold_mail_refused :
  let arg := bs "FROM:<a@b> " ++ long_s ++ bs "IZE=1" in
  fold_trap arg = true /\ classify_mail cfg_all arg = Invalid /\
  snd (handle_mail cfg_all (conn_ready false) arg)
  = [reply 500 (5, 5, 4)%Z (bs "Unknown MAIL FROM argument")].
Proof. vm_compute. repeat split; reflexivity. Qed.

(* RCPT TO:<a@b> NOT U+0131 FY=NEVER (was accepted as NOTIFY=NEVER) *)
Example unicode_fold_rcpt_refused :
  let arg := bs "TO:<a@b> NOT" ++ dotless_i ++ bs "FY=NEVER" in
  fold_trap arg = true /\ classify_rcpt cfg_all arg = Invalid /\
  snd (handle_rcpt cfg_all (conn_ready true) arg)
  = [reply 500 (5, 5, 4)%Z (bs "Unknown RCPT TO argument")].
Proof. vm_compute. repeat split; reflexivity. Qed.

(* MAIL FROM:<a@b> SMTPUTF8=1 / REQUIRETLS=yes (were accepted as the bare
   flags) and SMTPUTF8= (parseArgs could not tell it from SMTPUTF8) *)
Example flag_value_mail_refused :
  let a1 := bs "FROM:<a@b> SMTPUTF8=1" in
  let a2 := bs "FROM:<a@b> REQUIRETLS=yes" in
  let a3 := bs "FROM:<a@b> SMTPUTF8=" in
  flag_with_value a1 = true /\ flag_with_value a2 = true /\ flag_with_value a3 = true /\
  classify_mail cfg_all a1 = Invalid /\ classify_mail cfg_all a2 = Invalid /\
  classify_mail cfg_all a3 = Invalid /\
  snd (handle_mail cfg_all (conn_ready false) a1) = [reply 501 (5, 5, 4)%Z (bs "SMTPUTF8 takes no value")] /\
  snd (handle_mail cfg_all (conn_ready false) a2) = [reply 501 (5, 5, 4)%Z (bs "REQUIRETLS takes no value")] /\
  snd (handle_mail cfg_all (conn_ready false) a3) = [reply 501 (5, 5, 4)%Z (bs "Unable to parse MAIL ESMTP parameters")].
Proof. vm_compute. repeat split; reflexivity. Qed.

(* --- non-vacuity: one Valid line per parameter, Invalid lines, admissible states --- *)

Example conn_ready_mail_admissible :
  c_helo (conn_ready false) <> [] /\ c_bdat (conn_ready false) = None /\ c_session (conn_ready false) = true.
Proof. repeat split; discriminate. Qed.

Example conn_ready_rcpt_admissible :
  c_from (conn_ready true) = true /\ c_bdat (conn_ready true) = None /\
  c_session (conn_ready true) = true /\ rcpt_limit_free cfg_all (conn_ready true).
Proof. repeat split. Qed.

Example valid_plain : classify_mail cfg_none (bs "FROM:<a@b>") = Valid (bs "a@b") mo_zero.
Proof. vm_compute. reflexivity. Qed.
Example valid_null : classify_mail cfg_none (bs "from:<>") = Valid [] mo_zero.
Proof. vm_compute. reflexivity. Qed.
Example valid_quoted :
  classify_mail cfg_none (bs "FROM:<""q s""@[1.2.3.4]>") = Valid (bs "q s@[1.2.3.4]") mo_zero.
Proof. vm_compute. reflexivity. Qed.
Example valid_size : classify_mail cfg_none (bs "FROM:<a@b> SIZE=1000")
  = Valid (bs "a@b") (mkMO [] 1000 false false [] [] None).
Proof. vm_compute. reflexivity. Qed.
Example valid_body : classify_mail cfg_all (bs "FROM:<a@b> body=binarymime")
  = Valid (bs "a@b") (mkMO (bs "BINARYMIME") 0 false false [] [] None).
Proof. vm_compute. reflexivity. Qed.
Example valid_smtputf8 : classify_mail cfg_all (bs "FROM:<a@b> SMTPUTF8")
  = Valid (bs "a@b") (mkMO [] 0 false true [] [] None).
Proof. vm_compute. reflexivity. Qed.
Example valid_requiretls : classify_mail cfg_all (bs "FROM:<a@b> REQUIRETLS")
  = Valid (bs "a@b") (mkMO [] 0 true false [] [] None).
Proof. vm_compute. reflexivity. Qed.
Example valid_ret : classify_mail cfg_all (bs "FROM:<a@b> RET=hdrs")
  = Valid (bs "a@b") (mkMO [] 0 false false (bs "HDRS") [] None).
Proof. vm_compute. reflexivity. Qed.
Example valid_envid : classify_mail cfg_all (bs "FROM:<a@b> ENVID=QQ+2B314159")
  = Valid (bs "a@b") (mkMO [] 0 false false [] (bs "QQ+314159") None).
Proof. vm_compute. reflexivity. Qed.
Example valid_auth : classify_mail cfg_none (bs "FROM:<a@b> AUTH=e+3Dmc2@example.com")
  = Valid (bs "a@b") (mkMO [] 0 false false [] [] (Some (bs "e=mc2@example.com"))).
Proof. vm_compute. reflexivity. Qed.
Example valid_auth_null : classify_mail cfg_none (bs "FROM:<a@b> AUTH=<>")
  = Valid (bs "a@b") (mkMO [] 0 false false [] [] (Some [])).
Proof. vm_compute. reflexivity. Qed.
Example valid_all_mail :
  classify_mail cfg_all (bs "FROM:<a@b> AUTH=<> ENVID=x RET=FULL REQUIRETLS SMTPUTF8 BODY=7BIT SIZE=5")
  = Valid (bs "a@b") (mkMO (bs "7BIT") 5 true true (bs "FULL") (bs "x") (Some [])).
Proof. vm_compute. reflexivity. Qed.
Example valid_notify : classify_rcpt cfg_all (bs "TO:<a@b> NOTIFY=success,Delay")
  = Valid (bs "a@b") (mkRO [bs "SUCCESS"; bs "DELAY"] [] [] None).
Proof. vm_compute. reflexivity. Qed.
Example valid_orcpt : classify_rcpt cfg_all (bs "TO:<a@b> ORCPT=rfc822;Bob+20S@x")
  = Valid (bs "a@b") (mkRO [] (bs "RFC822") (bs "Bob S@x") None).
Proof. vm_compute. reflexivity. Qed.
Example valid_orcpt_utf8 : classify_rcpt cfg_all (bs "TO:<a@b> ORCPT=utf-8;a\x{5C}b\x{E9}@x")
  = Valid (bs "a@b") (mkRO [] (bs "UTF-8") (bs "a\b" ++ [n_byte 195; n_byte 169] ++ bs "@x") None).
Proof. vm_compute. reflexivity. Qed.
Example valid_rrvs : classify_rcpt cfg_all (bs "TO:<a@b> RRVS=2014-04-03T23:01:00Z;C")
  = Valid (bs "a@b") (mkRO [] [] [] (Some (mkRT 1396566060 0 0))).
Proof. vm_compute. reflexivity. Qed.
Example valid_rrvs_frac : classify_rcpt cfg_all (bs "TO:<a@b> RRVS=1970-01-01T00:00:00.5+01:00")
  = Valid (bs "a@b") (mkRO [] [] [] (Some (mkRT (-3600) 500000000 3600))).
Proof. vm_compute. reflexivity. Qed.

Example invalid_examples :
  classify_mail cfg_all (bs "<a@b>") = Invalid /\            (* no FROM: *)
  classify_mail cfg_all (bs "FROM:<@b>") = Invalid /\        (* empty local part *)
  classify_mail cfg_all (bs "FROM:<ab>") = Invalid /\        (* no '@' *)
  classify_rcpt cfg_all (bs "TO:<>") = Invalid /\
  classify_mail cfg_all (bs "FROM:<a@>") = Invalid /\        (* empty domain *)
  classify_mail cfg_all (bs "FROM:<a@b") = Invalid /\        (* '<' without '>' *)
  classify_mail cfg_all (bs "FROM:<a,b@c>") = Invalid /\     (* special in the local part *)
  classify_mail cfg_all (bs "FROM:<a@b> FOO=1") = Invalid /\ (* unknown keyword *)
  classify_mail cfg_none (bs "FROM:<a@b> SMTPUTF8") = Invalid /\  (* disabled extension *)
  classify_mail cfg_all (bs "FROM:<a@b> SIZE=1x") = Invalid /\    (* value outside its grammar *)
  classify_rcpt cfg_all (bs "TO:<a@b> NOTIFY=SUCCESS,SUCCESS") = Invalid /\
  classify_rcpt cfg_all (bs "TO:<a@b> NOTIFY=NEVER,DELAY") = Invalid.
Proof. vm_compute. repeat split; reflexivity. Qed.

Example unspecified_examples :
  classify_mail cfg_all (bs "FROM:a@b") = Unspecified /\            (* no brackets *)
  classify_mail cfg_all (bs "FROM:<@x:a@b>") = Unspecified /\       (* source route *)
  classify_mail cfg_all (bs "FROM:<a@b_c>") = Unspecified /\        (* odd domain *)
  classify_mail cfg_all (bs "FROM:<a@b> SIZE=1 size=2") = Unspecified /\  (* duplicate keyword *)
  classify_mail cfg_all (bs "FROM: <a@b>") = Unspecified /\
  classify_mail cfg_all (bs "FROM:<""""@b>") = Unspecified.
Proof. vm_compute. repeat split; reflexivity. Qed.
