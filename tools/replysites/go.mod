module replysites

go 1.21
