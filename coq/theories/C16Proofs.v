(* C16: the client's dot-writer composed with the server's DATA reader. *)
From Smtp Require Import Bytes Transport DataReader DotSpec TransportProofs DataProofs DotWriter DotWriterProofs.

(* Whatever partition of the body into Write calls, whatever segmentation of
   the resulting octets by the network, whatever buffer sizes the backend
   reads with: the backend reads normalise(body) followed by EOF, and the
   server's command stream resumes at the octets that follow. *)
Theorem client_message_arrives (t : transport) (parts : list bytes) (tail : bytes) (sizes : list nat) :
  transparent t ->
  tstream t = dot_write_all parts ++ tail ->
  cr_only_in_crlf (List.concat parts) = true ->
  let '(out, e, d', t') := backend_reads sizes None (new_data_reader 0) t in
  out = normalise (List.concat parts) /\ e = Some REOF /\ tstream t' = tail /\ transparent t'.
Proof.
  intros Htr Hs Hcr.
  pose proof (data_byte_exact t sizes Htr) as H.
  destruct (backend_reads sizes None (new_data_reader 0) t) as [[[out e] d'] t'].
  rewrite Hs, (dot_roundtrip_parts parts tail Hcr) in H.
  destruct H as (A & B & C & D & _). auto.
Qed.

(* without the hypothesis on CR the reader still stops exactly at the writer's end *)
Theorem client_message_framed (t : transport) (parts : list bytes) (tail : bytes) (sizes : list nat) :
  transparent t ->
  tstream t = dot_write_all parts ++ tail ->
  let '(out, e, d', t') := backend_reads sizes None (new_data_reader 0) t in
  out = dw_received (List.concat parts) /\ e = Some REOF /\ tstream t' = tail.
Proof.
  intros Htr Hs.
  pose proof (data_byte_exact t sizes Htr) as H.
  destruct (backend_reads sizes None (new_data_reader 0) t) as [[[out e] d'] t'].
  rewrite Hs, (dot_roundtrip_parts_any parts tail) in H.
  destruct H as (A & B & C & _). auto.
Qed.
