(* Octets, octet strings and the small part of Go's string library that
   go-smtp relies on.  Octets are Coq [ascii] (8 booleans). *)
From Coq Require Export List Ascii String NArith ZArith Bool Arith Lia.
Export ListNotations.
Local Open Scope char_scope.

Definition byte := ascii.
Definition bytes := list ascii.

Definition bs (s : string) : bytes := list_ascii_of_string s.

Definition CR : ascii := "013".
Definition LF : ascii := "010".
Definition HT : ascii := "009".
Definition SP : ascii := " ".
Definition DOT : ascii := ".".
Definition NUL : ascii := "000".

Definition crlf : bytes := [CR; LF].

Definition beqb (a b : ascii) : bool := Ascii.eqb a b.

Fixpoint bytes_eqb (a b : bytes) : bool :=
  match a, b with
  | [], [] => true
  | x :: a', y :: b' => Ascii.eqb x y && bytes_eqb a' b'
  | _, _ => false
  end.

Lemma bytes_eqb_eq a b : bytes_eqb a b = true <-> a = b.
Proof.
  revert b; induction a as [|x a IH]; intros [|y b]; cbn; split; intros H;
    try reflexivity; try discriminate.
  - apply andb_true_iff in H as [H1 H2]. apply Ascii.eqb_eq in H1.
    apply IH in H2. congruence.
  - inversion H; subst. rewrite Ascii.eqb_refl. cbn. apply IH. reflexivity.
Qed.

Lemma bytes_eqb_refl a : bytes_eqb a a = true.
Proof. apply bytes_eqb_eq. reflexivity. Qed.

Definition byte_n (c : ascii) : N := N_of_ascii c.
Definition n_byte (n : N) : ascii := ascii_of_N n.

(* half-open / closed range tests on octet values *)
Definition in_range (lo hi : N) (c : ascii) : bool :=
  (lo <=? byte_n c)%N && (byte_n c <=? hi)%N.

Definition is_digit (c : ascii) : bool := in_range 48 57 c.
Definition is_upper (c : ascii) : bool := in_range 65 90 c.
Definition is_lower (c : ascii) : bool := in_range 97 122 c.
Definition is_ascii7 (c : ascii) : bool := (byte_n c <? 128)%N.
Definition is_printable (c : ascii) : bool := in_range 32 126 c.

(* ASCII upper-casing of one octet *)
Definition up1 (c : ascii) : ascii :=
  if is_lower c then n_byte (byte_n c - 32) else c.

(* ---- prefix / search helpers ---- *)

Fixpoint is_prefix (p s : bytes) : bool :=
  match p, s with
  | [], _ => true
  | x :: p', y :: s' => Ascii.eqb x y && is_prefix p' s'
  | _ :: _, [] => false
  end.

Definition is_suffix (p s : bytes) : bool := is_prefix (rev p) (rev s).

Fixpoint mem_byte (c : ascii) (s : bytes) : bool :=
  match s with
  | [] => false
  | x :: t => Ascii.eqb c x || mem_byte c t
  end.

(* index of the first occurrence of c *)
Fixpoint index_byte (c : ascii) (s : bytes) : option nat :=
  match s with
  | [] => None
  | x :: t => if Ascii.eqb c x then Some 0 else option_map S (index_byte c t)
  end.

(* split at the first occurrence of c: (before, after) *)
Fixpoint cut_byte (c : ascii) (s : bytes) : option (bytes * bytes) :=
  match s with
  | [] => None
  | x :: t =>
      if Ascii.eqb c x then Some ([], t)
      else match cut_byte c t with
           | Some (a, b) => Some (x :: a, b)
           | None => None
           end
  end.

(* strings.Split(s, sep) for a one-octet separator *)
Fixpoint split_byte (c : ascii) (s : bytes) : list bytes :=
  match s with
  | [] => [[]]
  | x :: t =>
      match split_byte c t with
      | [] => [[]] (* impossible *)
      | h :: r => if Ascii.eqb c x then [] :: h :: r else (x :: h) :: r
      end
  end.

(* strings.Join with a separator *)
Fixpoint join (sep : bytes) (l : list bytes) : bytes :=
  match l with
  | [] => []
  | [x] => x
  | x :: r => x ++ sep ++ join sep r
  end.

(* ---- decimal printing / parsing of N ---- *)

Fixpoint uint_to_bytes (u : Decimal.uint) : bytes :=
  match u with
  | Decimal.Nil => []
  | Decimal.D0 u => "0" :: uint_to_bytes u
  | Decimal.D1 u => "1" :: uint_to_bytes u
  | Decimal.D2 u => "2" :: uint_to_bytes u
  | Decimal.D3 u => "3" :: uint_to_bytes u
  | Decimal.D4 u => "4" :: uint_to_bytes u
  | Decimal.D5 u => "5" :: uint_to_bytes u
  | Decimal.D6 u => "6" :: uint_to_bytes u
  | Decimal.D7 u => "7" :: uint_to_bytes u
  | Decimal.D8 u => "8" :: uint_to_bytes u
  | Decimal.D9 u => "9" :: uint_to_bytes u
  end.

(* fmt %d / %v of a non-negative integer *)
Definition dec_of_N (n : N) : bytes := uint_to_bytes (N.to_uint n).

Definition digit_val (c : ascii) : N := byte_n c - 48.

(* value of a string of decimal digits (no check) *)
Definition dec_value (s : bytes) : N :=
  fold_left (fun acc c => acc * 10 + digit_val c)%N s 0%N.

(* strconv.ParseUint(s, 10, bits): digits only, non-empty, value < 2^bits.
   Go also accepts nothing else in base 10 (no sign, no underscore). *)
Inductive parse_res := POk (n : N) | PSyntax | PRange.

Definition parse_uint (bits : N) (s : bytes) : parse_res :=
  match s with
  | [] => PSyntax
  | _ => if forallb is_digit s
         then (if (dec_value s <? 2 ^ bits)%N then POk (dec_value s) else PRange)
         else PSyntax
  end.

(* take at most n octets: (taken, rest, n still missing) *)
Fixpoint take_N (n : N) (s : bytes) : bytes * bytes * N :=
  match s with
  | [] => ([], [], n)
  | c :: t =>
      if (n =? 0)%N then ([], s, 0%N)
      else let '(a, b, m) := take_N (N.pred n) t in (c :: a, b, m)
  end.

Definition blen (s : bytes) : N := N.of_nat (List.length s).
