(* C19, backend side: if no data plan of the backend script panics (and, for an
   LMTP backend with per-recipient statuses, makes no SetStatus call that
   could violate the statusCollector contract), no delivery event of the model
   reports a panic.  Together with the monitor (a recovered panic needs a
   panicking delivery) this gives: the model never recovers a panic. *)
From Smtp Require Import Bytes GoStrings Transport DataReader Parse Xtext Base64 Reply Rfc3339 Lmtp Conn
  Order OrderStrict ConnProofs TraceProps.

Definition plan_ok (cfg : config) (p : data_plan) : Prop :=
  dp_panic p = false /\ (cf_lmtp cfg && cf_lmtp_session cfg = true -> dp_status p = []).

Definition backend_ok (cfg : config) (be : backend) : Prop := Forall (plan_ok cfg) (be_data be).

Definition calm (e : event) : bool := negb (is_panicking e).

Section NoPanic.
Variable cfg : config.

(* invariant: the remaining plans are fine, and so is the open delivery *)
Definition K (c : conn) : Prop :=
  Forall (plan_ok cfg) (be_data (c_be c))
  /\ match c_bdat c with Some b => bd_panics b = false | None => True end.

Definition KGood (r : hres) : Prop := K (fst r) /\ forallb calm (snd r) = true.

Lemma plan_ok_default : plan_ok cfg dp_default.
Proof. split; reflexivity. Qed.

Lemma pop_plan_ok l : Forall (plan_ok cfg) l ->
  plan_ok cfg (fst (pop dp_default l)) /\ Forall (plan_ok cfg) (snd (pop dp_default l)).
Proof.
  intros H. destruct l as [|p l]; cbn.
  - split; [apply plan_ok_default|constructor].
  - inversion H; subst. split; assumption.
Qed.

(* ---------- deliveries ---------- *)

Lemma bd_finish_calm b term :
  bd_panics b = false ->
  bd_panics (fst (bd_finish b term)) = false /\ forallb calm (snd (bd_finish b term)) = true.
Proof. intros H. unfold bd_finish. cbn. rewrite H. split; reflexivity. Qed.

Lemma bd_end_calm b term :
  bd_panics b = false ->
  bd_panics (fst (bd_end b term)) = false /\ forallb calm (snd (bd_end b term)) = true.
Proof.
  intros H. unfold bd_end. destruct (bd_done b); [split; [exact H|reflexivity]|].
  apply bd_finish_calm, H.
Qed.

Lemma bd_feed_calm b chunk :
  bd_panics b = false ->
  bd_panics (fst (fst (bd_feed b chunk))) = false
  /\ forallb calm (snd (fst (bd_feed b chunk))) = true.
Proof.
  intros H. unfold bd_feed. destruct chunk as [|x chunk]; [split; [exact H|reflexivity]|].
  destruct (bd_done b); [split; [exact H|reflexivity]|].
  destruct (dp_stop (bd_plan b)) as [k|]; [|split; [exact H|reflexivity]].
  destruct (take_N _ _) as [[a ?] ?].
  destruct (_ <? _)%N; [split; [exact H|reflexivity]|].
  set (b1 := mkBD _ _ _ _ _).
  destruct (bd_finish_calm b1 None H) as [H1 H2].
  destruct (bd_finish b1 None) as [b2 ev]. cbn [fst snd] in *.
  destruct (_ =? _)%N; cbn [fst snd]; split; assumption.
Qed.

Lemma bd_new_calm p rc :
  dp_panic p = false ->
  bd_panics (fst (bd_new p rc false)) = false /\ forallb calm (snd (bd_new p rc false)) = true.
Proof.
  intros H. unfold bd_new. set (b := mkBD _ _ _ _ _).
  assert (Hb : bd_panics b = false) by (cbn; rewrite H; reflexivity).
  destruct (dp_stop p) as [[|k]|]; try (split; [exact Hb|reflexivity]).
  destruct (bd_finish_calm b None Hb) as [H1 H2].
  destruct (bd_finish b None) as [b' ev]. cbn [fst snd] in *. split; [exact H1|exact H2].
Qed.

Lemma abort_ev_calm bd :
  match bd with Some b => bd_panics b = false | None => True end ->
  forallb calm (abort_ev bd) = true.
Proof. destruct bd as [b|]; [|reflexivity]. intros H. apply (bd_end_calm b RDataReset H). Qed.

Lemma K_reset c : K c -> KGood (do_reset c).
Proof.
  intros [H1 H2]. rewrite do_reset_eq. split.
  - split; [exact H1|exact I].
  - cbn [snd]. unfold reset_ev. rewrite forallb_app, (abort_ev_calm _ H2).
    destruct (c_session c); reflexivity.
Qed.

Lemma K_close c : K c -> KGood (do_close c).
Proof.
  intros [H1 H2]. rewrite do_close_eq. split.
  - split; [exact H1|exact I].
  - cbn [snd]. unfold close_ev. rewrite forallb_app, (abort_ev_calm _ H2).
    destruct (c_session c); reflexivity.
Qed.


(* ---------- handlers ---------- *)

Ltac csk :=
  cbn [c_t c_phases c_be c_helo c_session c_errs c_binarymime c_from c_rcpts c_did_auth c_closed
       c_tls c_bdat c_received upd_t upd_be upd_helo upd_session upd_errs upd_binarymime upd_from
       upd_rcpts upd_did_auth upd_bdat upd_received fst snd be_data reset_c close_c] in *.

Ltac inner x :=
  lazymatch x with
  | match ?y with _ => _ end => inner y
  | auth_loop _ _ _ => fail
  | bd_end _ _ => fail
  | bdat_lmtp_replies _ _ _ => fail
  | _ => destruct x eqn:?
  end.
Ltac brk :=
  first
  [ rewrite do_reset_eq; cbv beta iota zeta
  | rewrite do_close_eq; cbv beta iota zeta
  | match goal with
    | |- KGood (match ?x with _ => _ end) => inner x; cbv beta iota zeta
    end ].

Lemma reset_ev_calm c :
  match c_bdat c with Some b => bd_panics b = false | None => True end ->
  forallb calm (reset_ev c) = true.
Proof.
  intros H. unfold reset_ev. rewrite forallb_app, (abort_ev_calm _ H). destruct (c_session c); reflexivity.
Qed.

Lemma close_ev_calm c :
  match c_bdat c with Some b => bd_panics b = false | None => True end ->
  forallb calm (close_ev c) = true.
Proof.
  intros H. unfold close_ev. rewrite forallb_app, (abort_ev_calm _ H). destruct (c_session c); reflexivity.
Qed.

Lemma status_reply_calm a e : calm (status_reply a e) = true.
Proof. unfold status_reply. destruct (data_error_to_status e) as [[? ?] ?]. reflexivity. Qed.

Lemma map_status_calm (l : list (bytes * berr)) :
  forallb calm (map (fun '(a, e) => status_reply a e) l) = true.
Proof. induction l as [|[a e] l IH]; cbn; [reflexivity|]. rewrite status_reply_calm. exact IH. Qed.

Lemma map_status_calm1 (f : bytes -> berr) l :
  forallb calm (map (fun a => status_reply a (f a)) l) = true.
Proof. induction l; cbn; [reflexivity|]. rewrite status_reply_calm. exact IHl. Qed.

(* a leaf: explicit state and events *)
Ltac kcalm :=
  unfold reply, reply_err, syntax_mail, syntax_rcpt;
  repeat first
    [ reflexivity
    | rewrite forallb_app
    | rewrite reset_ev_calm by (csk; first [assumption|exact I])
    | rewrite close_ev_calm by (csk; first [assumption|exact I])
    | rewrite map_status_calm
    | rewrite map_status_calm1
    | match goal with |- context [if ?b then [?e] else []] => destruct b end
    | match goal with H : forallb calm ?l = true |- context [forallb calm ?l] => rewrite H end
    | progress cbn [forallb calm is_panicking negb andb app] ].
Ltac kleaf :=
  unfold KGood, K; csk; split; [split; [assumption|first [exact I|assumption]]|kcalm].

Ltac kstart c HK :=
  destruct c as [t ph be h se er bm fr rc da cl tl bd rv];
  unfold K in HK; csk; destruct HK as [Hplans Hbd].

Lemma handle_greet_calm c enh arg : K c -> KGood (handle_greet cfg c enh arg).
Proof.
  intros HK. kstart c HK. unfold handle_greet. csk. cbv zeta.
  repeat brk; csk; try kleaf.
Qed.


Lemma handle_mail_calm c arg : K c -> KGood (handle_mail cfg c arg).
Proof.
  intros HK. kstart c HK. unfold handle_mail, pop_mail. csk. cbv zeta.
  repeat brk; csk; try kleaf.
Qed.

Lemma handle_rcpt_calm c arg : K c -> KGood (handle_rcpt cfg c arg).
Proof.
  intros HK. kstart c HK. unfold handle_rcpt, pop_rcpt. csk. cbv zeta.
  repeat brk; csk; try kleaf.
Qed.

Lemma handle_starttls_calm c : K c -> KGood (handle_starttls cfg c).
Proof.
  intros HK. kstart c HK. unfold handle_starttls. csk. cbv zeta.
  repeat brk; csk; try kleaf.
Qed.

Lemma protocol_error_calm c code ec msg : K c -> KGood (protocol_error c code ec msg).
Proof.
  intros HK. kstart c HK. unfold protocol_error. csk. cbv zeta.
  repeat brk; csk; try kleaf.
Qed.


Lemma auth_evs_calm l : forallb is_auth_ev l = true -> forallb calm l = true.
Proof.
  induction l as [|e l IH]; cbn; [reflexivity|]. intros H. apply andb_true_iff in H as [He Hl].
  rewrite (IH Hl). destruct e; try discriminate; reflexivity.
Qed.

Lemma handle_auth_calm c arg : K c -> KGood (handle_auth cfg c arg).
Proof.
  intros HK. kstart c HK. unfold handle_auth, pop_auth. csk. cbv zeta.
  repeat brk; csk; try kleaf.
  all: match goal with |- context [auth_loop ?s ?c ?r] =>
         pose proof (auth_loop_spec s c r) as [Hc2 Hev]; destruct (auth_loop s c r) as [[c2 ev] ok] end.
  all: cbn [fst snd] in Hc2, Hev; apply auth_evs_calm in Hev; csk; rewrite Hc2; csk.
  all: destruct ok; unfold KGood, K; csk; (split; [split; assumption|]).
  all: cbn [forallb calm is_panicking negb andb]; rewrite ?forallb_app, Hev; reflexivity.
Qed.


Lemma handle_data_calm c arg : K c -> KGood (handle_data cfg c arg).
Proof.
  intros HK. kstart c HK. unfold handle_data, pop_data, close_unless. csk. cbv zeta.
  destruct arg as [|a0 arg]; [|kleaf].
  destruct bd as [b|]; [kleaf|].
  destruct bm; [kleaf|].
  destruct (negb fr || match rc with [] => true | _ :: _ => false end); [kleaf|].
  destruct (negb se); [kleaf|].
  destruct (pop_plan_ok _ Hplans) as [[Hpp Hps] Hrest].
  destruct (pop dp_default (be_data be)) as [p rest]. cbn [fst snd] in *. csk.
  rewrite Hpp.
  destruct (call_data p (new_data_reader (cf_max_bytes cfg)) t) as [[[[got term] ret] d1] t1].
  destruct (cf_lmtp cfg); cbn [negb andb] in *; cbv iota.
  - destruct (cf_lmtp_session cfg); cbn [negb] in *; cbv iota.
    + rewrite (Hps eq_refl). unfold lmtp_statuses. cbn [run_statuses orb]. cbv iota beta.
      repeat brk; csk; kleaf.
    + repeat brk; csk; kleaf.
  - repeat brk; csk; kleaf.
Qed.


Lemma bdat_lmtp_replies_calm b e : forallb calm (fst (bdat_lmtp_replies cfg b e)) = true.
Proof.
  unfold bdat_lmtp_replies.
  match goal with |- context [let '(sts, panicked) := ?X in _] => destruct X as [sts panicked] end.
  cbn [fst]. apply map_status_calm.
Qed.

Ltac bd_steps :=
  repeat first
    [ match goal with
      | Hb : bd_panics ?b = false |- context [bd_end ?b ?pe] =>
          let H1 := fresh "Hb2" in let H2 := fresh "Hev2" in
          destruct (bd_end_calm b pe Hb) as [H1 H2];
          destruct (bd_end b pe) as [?b2 ?ev2]; cbn [fst snd] in H1, H2; cbv beta iota zeta
      end
    | match goal with
      | |- context [bdat_lmtp_replies cfg ?b ?e] =>
          let H := fresh "Hrs" in
          pose proof (bdat_lmtp_replies_calm b e) as H;
          destruct (bdat_lmtp_replies cfg b e) as [?rs ?pk]; cbn [fst] in H; cbv beta iota zeta
      end
    | brk ].

Lemma handle_bdat_calm c arg : K c -> KGood (handle_bdat cfg c arg).
Proof.
  intros HK. kstart c HK. unfold handle_bdat. csk.
  destruct (fields arg) as [|a0 more]; [kleaf|].
  match goal with
  | |- KGood (match more with [] => ?B | _ :: _ => _ end) => assert (Hbody : KGood B)
  end.
  2:{ destruct more as [|a1 [|a2 more]]; [exact Hbody|exact Hbody|kleaf]. }
  destruct (parse_uint 32 a0) as [size| |]; [|kleaf|kleaf].
  destruct (negb fr || match rc with [] => true | _ :: _ => false end);
    [rewrite discard_chunk_eq; repeat brk; csk; kleaf|].
  match goal with
  | |- KGood (match ?lo with None => _ | Some _ => _ end) => destruct lo as [last|]
  end.
  2:{ rewrite discard_chunk_eq; repeat brk; csk; kleaf. }
  destruct (negb (cf_max_bytes cfg =? 0)%Z && (cf_max_bytes cfg <? rv + Z.of_N size)%Z).
  { rewrite discard_chunk_eq. repeat brk; csk; kleaf. }
  destruct (negb se && match bd with Some _ => false | None => true end); [kleaf|].
  (* start the delivery if there is none *)
  assert (H0 : exists b0 ev0 be0,
    match bd with
    | Some b => (b, [], mkC t ph be h se er bm fr rc da cl tl bd rv)
    | None =>
        let '(p, c1) := pop_data (mkC t ph be h se er bm fr rc da cl tl bd rv) in
        let status_panic :=
          cf_lmtp cfg && cf_lmtp_session cfg
          && snd (run_statuses (dp_status p) (mk_collector (c_rcpts c1))) in
        let '(b, ev) := bd_new p (c_rcpts c1) status_panic in
        (b, ev, c1)
    end = (b0, ev0, mkC t ph be0 h se er bm fr rc da cl tl bd rv)
    /\ bd_panics b0 = false /\ forallb calm ev0 = true /\ Forall (plan_ok cfg) (be_data be0)).
  { destruct bd as [b|].
    - exists b, [], be. repeat split; assumption.
    - unfold pop_data. csk.
      destruct (pop_plan_ok _ Hplans) as [[Hpp Hps] Hrest].
      destruct (pop dp_default (be_data be)) as [p rest]. cbn [fst snd] in *. csk.
      assert (Hsp : cf_lmtp cfg && cf_lmtp_session cfg
                    && snd (run_statuses (dp_status p) (mk_collector rc)) = false).
      { destruct (cf_lmtp cfg && cf_lmtp_session cfg); [|reflexivity]. rewrite (Hps eq_refl). reflexivity. }
      rewrite Hsp. destruct (bd_new_calm p rc Hpp) as [Hn1 Hn2].
      destruct (bd_new p rc false) as [b0 ev0]. cbn [fst snd] in *.
      eexists b0, ev0, _. split; [reflexivity|]. repeat split; assumption. }
  destruct H0 as (b0 & ev0 & be0 & Heq & Hb0 & Hev0 & Hplans0).
  cbv zeta in Heq. rewrite Heq. clear Heq. csk. cbv beta iota zeta.
  destruct (t_copy_n size (set_limit t 0)) as [[chunk cerr] t1].
  destruct (bd_feed_calm b0 chunk Hb0) as [Hb1 Hev1].
  destruct (bd_feed b0 chunk) as [[b1 ev1] werr]. cbn [fst snd] in Hb1, Hev1.
  clear Hplans Hbd.
  destruct werr as [e|]; [|destruct cerr as [te|]]; cbv beta iota zeta; csk.
  all: bd_steps; csk; try (exfalso; congruence); try kleaf.
Qed.


Lemma handle_calm c cmd arg : K c -> KGood (handle cfg c cmd arg).
Proof.
  intros HK. unfold handle.
  destruct cmd as [|c0 cmd]; [apply protocol_error_calm, HK|].
  set (CMD := to_upper (c0 :: cmd)). clearbody CMD.
  repeat match goal with
         | |- KGood (if ?b then _ else _) => destruct b
         end;
    try (apply handle_greet_calm, HK);
    try (apply handle_mail_calm, HK);
    try (apply handle_rcpt_calm, HK);
    try (apply handle_bdat_calm, HK);
    try (apply handle_data_calm, HK);
    try (apply handle_auth_calm, HK);
    try (apply handle_starttls_calm, HK);
    try (apply protocol_error_calm, HK);
    try (split; [exact HK|reflexivity]).
  - destruct (K_reset c HK) as [H1 H2]. destruct (do_reset c) as [c1 ev]. cbn [fst snd] in *.
    split; [exact H1|]. cbn [snd]. rewrite forallb_app, H2. reflexivity.
  - destruct (K_close c HK) as [H1 H2]. destruct (do_close c) as [c1 ev]. cbn [fst snd] in *.
    split; [exact H1|]. cbn [snd forallb]. rewrite H2. reflexivity.
Qed.

Lemma final_close_calm c : K c -> forallb calm (final_close c) = true.
Proof. intros HK. unfold final_close. apply (K_close c HK). Qed.

Lemma K_upd_t c t : K c -> K (upd_t c t).
Proof. intros H. exact H. Qed.

Lemma serve_loop_calm fuel : forall c, K c -> forallb calm (serve_loop fuel cfg c) = true.
Proof.
  induction fuel as [|f IH]; intros c HK; cbn [serve_loop]; [reflexivity|].
  destruct (c_closed c); [apply final_close_calm, HK|].
  pose proof (conn_read_line_c c) as Hc1.
  destruct (conn_read_line c) as [[line|e] c1]; cbn [snd] in Hc1.
  - assert (HK1 : K c1) by (rewrite Hc1; exact HK).
    cbn [forallb]. change (calm (ECmd line)) with true. cbn [andb].
    destruct (parse_cmd line) as [[cmd arg]|].
    + destruct (handle_calm c1 cmd arg HK1) as [H1 H2].
      destruct (handle cfg c1 cmd arg) as [c2 ev]. cbn [fst snd] in *.
      rewrite forallb_app, H2. apply IH, H1.
    + destruct (protocol_error_calm c1 501 (5, 5, 2)%Z (bs "Bad command") HK1) as [H1 H2].
      destruct (protocol_error c1 501 (5, 5, 2)%Z (bs "Bad command")) as [c2 ev]. cbn [fst snd] in *.
      rewrite forallb_app, H2. apply IH, H1.
  - assert (HK1 : K c1) by (rewrite Hc1; exact HK).
    destruct e; cbn [forallb]; try (change (calm (reply _ _ _)) with true; cbn [andb]);
      apply final_close_calm, HK1.
Qed.

End NoPanic.

(* no delivery event of the model reports a panic *)
Theorem serve_calm fuel cfg be phases :
  backend_ok cfg be -> forall e, In e (serve fuel cfg be phases) -> is_panicking e = false.
Proof.
  intros Hbe e He.
  assert (H : forallb (calm) (serve fuel cfg be phases) = true).
  { unfold serve. cbn [forallb]. change (calm (greeting cfg)) with true. cbn [andb].
    apply serve_loop_calm. unfold K, init_conn. destruct phases as [|p r]; cbn; split; [exact Hbe|exact I|exact Hbe|exact I]. }
  rewrite forallb_forall in H. specialize (H e He). unfold calm in H.
  destruct (is_panicking e); [discriminate|reflexivity].
Qed.

(* C19: the model never recovers a panic unless the backend panics *)
Theorem serve_no_panic fuel cfg be phases :
  backend_ok cfg be -> ~ In EPanic (serve fuel cfg be phases).
Proof.
  intros Hbe. apply C19_no_panic_from.
  - apply (accepted_C19_panic_only_from_backend cfg). apply serve_accepted_strict.
  - apply serve_calm, Hbe.
Qed.
Print Assumptions serve_no_panic.
