(* Concrete conversations used as non-vacuity witnesses for the trace
   properties (props/C03.v, C08.v, C09_server.v, C10_server.v, C19.v). *)
From Smtp Require Import Bytes Transport DataReader Reply Lmtp Conn Order OrderStrict ConnProofs TraceProps
  ConnNoPanic.
Local Open Scope string_scope.
Local Open Scope list_scope.

Definition raw_of (b : bytes) : raw := match b with c :: d => RData c d | [] => RFail TEof end.
Definition ln (s : string) : bytes := bs s ++ crlf.

(* a short rendering of an event, to display the shape of a trace *)
Definition show_kind (e : event) : string :=
  match e with
  | EWire b => String.append "reply " (string_of_list_ascii (firstn 3 b))
  | ECmd l => String.append "cmd " (string_of_list_ascii (firstn 4 l))
  | ENewSession _ t BNil => if t then "NewSession(tls)" else "NewSession"
  | ENewSession _ _ _ => "NewSession failed"
  | EMail _ _ BNil => "Mail" | EMail _ _ _ => "Mail rejected"
  | ERcpt _ _ BNil => "Rcpt" | ERcpt _ _ _ => "Rcpt rejected"
  | EData _ _ _ p => if p then "Data PANICS" else "Data"
  | EBdatStart => "BdatStart"
  | EDelivery _ _ _ p => if p then "Delivery PANICS" else "Delivery"
  | EReset => "Reset" | ELogout => "Logout"
  | EAuth _ _ => "Auth" | EAuthNext _ _ _ _ => "AuthNext" | EAuthOk => "AuthOk"
  | EClose => "Close" | EPanic => "PANIC RECOVERED"
  | ETlsStart ok => if ok then "TlsStart ok" else "TlsStart failed"
  | EOutOfFuel => "OutOfFuel"
  end.

(* ---- example 1: SMTP, recipient limit 2, AUTH, DATA, RSET, STARTTLS, QUIT
        with a pipelined command behind QUIT ---- *)

Definition ex1_cfg : config :=
  mkCfg false true (bs "mx") 2 0 2000 true false false false false false false (Some [bs "PLAIN"]) false.

Definition ex1_be : backend := mkBE [] [] [] [] [mkAP BNil [SaslStep [] true BNil]].

Definition ex1_plain : list raw :=
  [raw_of (ln "EHLO client.example" ++ ln "AUTH PLAIN AGEAYg==" ++ ln "MAIL FROM:<a@example.org>"
           ++ ln "RCPT TO:<b@example.org>" ++ ln "RCPT TO:<c@example.org>" ++ ln "RCPT TO:<d@example.org>"
           ++ ln "DATA" ++ ln "hello" ++ ln "." ++ ln "RCPT TO:<late@example.org>"
           ++ ln "MAIL FROM:<a2@example.org>" ++ ln "RSET" ++ ln "STARTTLS")].
Definition ex1_tls : list raw := [raw_of (ln "EHLO client.example" ++ ln "QUIT" ++ ln "NOOP")].

Definition ex1_trace : list event := serve 40 ex1_cfg ex1_be [ex1_plain; ex1_tls].

Definition ex1_shape : list string :=
  ["reply 220"; "cmd EHLO"; "NewSession"; "reply 250"; "cmd AUTH"; "Auth"; "AuthNext"; "reply 235";
   "AuthOk"; "cmd MAIL"; "Mail"; "reply 250"; "cmd RCPT"; "Rcpt"; "reply 250"; "cmd RCPT"; "Rcpt";
   "reply 250"; "cmd RCPT"; "reply 452"; "cmd DATA"; "reply 354"; "Data"; "reply 250"; "Reset";
   "cmd RCPT"; "reply 502"; "cmd MAIL"; "Mail"; "reply 250"; "cmd RSET"; "Reset"; "reply 250";
   "cmd STAR"; "reply 220"; "TlsStart ok"; "Logout"; "cmd EHLO"; "NewSession(tls)"; "reply 250";
   "cmd QUIT"; "reply 221"; "Logout"; "Close"; "Close"].

Lemma ex1_shape_ok : map show_kind ex1_trace = ex1_shape.
Proof. vm_compute. reflexivity. Qed.

Lemma ex1_fuel_ok : ~ In EOutOfFuel ex1_trace.
Proof.
  assert (H : existsb (fun e => match e with EOutOfFuel => true | _ => false end) ex1_trace = false)
    by (vm_compute; reflexivity).
  intros Hin. apply Bool.not_true_iff_false in H. apply H. apply existsb_exists.
  exists EOutOfFuel. split; [exact Hin|reflexivity].
Qed.

Lemma ex1_backend_ok : backend_ok ex1_cfg ex1_be.
Proof. constructor. Qed.

(* ---- example 2: a chunked transfer (BDAT) whose backend panics: the panic is
        recovered; the hypothesis of C19's no-panic theorem is necessary ---- *)

Definition ex2_cfg : config :=
  mkCfg false false (bs "mx") 0 0 2000 false false false false false false false None false.

Definition ex2_be : backend :=
  mkBE [] [] [] [dp_default; mkDP [4096%nat] None BNil true true []] [].

Definition ex2_raws : list raw :=
  [raw_of (ln "EHLO client.example" ++ ln "MAIL FROM:<a@example.org>" ++ ln "RCPT TO:<b@example.org>"
           ++ ln "BDAT 5" ++ bs "hello" ++ ln "BDAT 2 LAST" ++ crlf
           ++ ln "MAIL FROM:<a@example.org>" ++ ln "RCPT TO:<b@example.org>"
           ++ ln "DATA" ++ ln "x" ++ ln "." ++ ln "NOOP")].

Definition ex2_trace : list event := serve 40 ex2_cfg ex2_be [ex2_raws].

Definition ex2_shape : list string :=
  ["reply 220"; "cmd EHLO"; "NewSession"; "reply 250"; "cmd MAIL"; "Mail"; "reply 250"; "cmd RCPT";
   "Rcpt"; "reply 250"; "cmd BDAT"; "BdatStart"; "reply 250"; "cmd BDAT"; "Delivery"; "reply 250";
   "Reset"; "cmd MAIL"; "Mail"; "reply 250"; "cmd RCPT"; "Rcpt"; "reply 250"; "cmd DATA"; "reply 354";
   "Data PANICS"; "Reset"; "PANIC RECOVERED"; "reply 421"; "Logout"; "Close"; "Close"].

Lemma ex2_shape_ok : map show_kind ex2_trace = ex2_shape.
Proof. vm_compute. reflexivity. Qed.
