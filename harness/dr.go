package harness

import (
	"bytes"
	"bufio"
	"io"
	"math/rand"

	smtp "github.com/emersion/go-smtp"
)

// DrCase is one run of the DATA reader in isolation.
type DrCase struct {
	LineLimit int
	Max       int64
	Raws      []Raw
	Sizes     []int
	Stop      int64 // -1: read until the reader fails
	Retry     int   // keep reading after up to Retry failed reads (retry.go)
}

// readPlan reads from r with the given buffer sizes (cyclically) until an
// error or until at least stop octets were read.
func readPlan(r io.Reader, sizes []int, stop int64) ([]byte, error) {
	return readPlanCap(r, sizes, stop, false)
}

// readPlanCap: with exact set, never reads past stop octets (used on the BDAT
// pipe, where how much one Read returns depends on the writer's pieces).
// ioCopyBuf: a plan whose only read size is this one stands for "the backend uses io.Copy"
const ioCopyBuf = 32 * 1024

func readPlanCap(r io.Reader, sizes []int, stop int64, exact bool) ([]byte, error) {
	if len(sizes) == 1 && sizes[0] == ioCopyBuf && stop < 0 && !exact {
		// a backend that consumes the message with io.Copy (32 KiB reads - or whatever short cut the reader
		// offers to io.Copy: io.WriterTo); the destination hides bytes.Buffer's ReadFrom
		var b bytes.Buffer
		_, err := io.Copy(struct{ io.Writer }{&b}, r)
		if err == nil {
			err = io.EOF // io.Copy ends without an error only at the end of the reader
		}
		return b.Bytes(), err
	}
	var got []byte
	i := 0
	for {
		if stop >= 0 && int64(len(got)) >= stop {
			return got, nil
		}
		sz := 1
		if len(sizes) > 0 {
			sz = sizes[i%len(sizes)]
			i++
		}
		if sz <= 0 {
			sz = 1
		}
		if exact && stop >= 0 && int64(sz) > stop-int64(len(got)) {
			sz = int(stop - int64(len(got)))
		}
		buf := make([]byte, sz)
		n, err := r.Read(buf)
		got = append(got, buf[:n]...)
		if err != nil {
			return got, err
		}
	}
}

func RunDr(c DrCase) *Sx {
	sc := NewScriptConn(c.Raws)
	llr := smtp.VerifNewLineLimitReader(sc, c.LineLimit)
	br := bufio.NewReader(llr)
	dr := smtp.VerifNewDataReader(br, c.Max)
	got, err := readPlan(withRetry(dr, c.Retry), c.Sizes, c.Stop)
	smtp.VerifUnlimit(dr)
	_, derr := readPlan(dr, []int{4096}, -1)
	rest, rerr := readPlan(br, []int{4096}, -1)
	_ = rerr

	raws := append(append([]Raw(nil), sc.Log...), sc.Remaining()...)
	sizes := L()
	for _, s := range c.Sizes {
		sizes.Add(Num(int64(s)))
	}
	stop := A("none")
	if c.Stop >= 0 {
		stop = Num(c.Stop)
	}
	return retrySx(c.Retry, L(A("dr"),
		L(A("linelimit"), Num(int64(c.LineLimit))),
		L(A("max"), Num(c.Max)),
		L(A("raws"), RawsSx(raws)),
		L(A("sizes"), sizes),
		L(A("stop"), stop),
		L(A("obs"),
			L(A("out"), X(got)),
			L(A("err"), A(ErrKind(err))),
			L(A("drain"), A(ErrKind(derr))),
			L(A("rest"), X(rest)),
			L(A("resterr"), A(ErrKind(rerr))))))
}

// Segment cuts s into raw chunks according to mode:
// 0 one chunk, 1 byte by byte, k>=2: split at position k-2 (two chunks).
func Segment(s []byte, mode int) []Raw {
	var out []Raw
	switch {
	case mode == 0:
		out = append(out, Raw{Kind: RawData, Data: s})
	case mode == 1:
		for i := range s {
			out = append(out, Raw{Kind: RawData, Data: s[i : i+1]})
		}
	default:
		k := mode - 2
		if k > len(s) {
			k = len(s)
		}
		out = append(out, Raw{Kind: RawData, Data: s[:k]}, Raw{Kind: RawData, Data: s[k:]})
	}
	return out
}

// RandSegment cuts s at random positions.
func RandSegment(rng *rand.Rand, s []byte) []Raw {
	var out []Raw
	for len(s) > 0 {
		n := 1 + rng.Intn(len(s))
		if rng.Intn(3) == 0 {
			n = 1 + rng.Intn(4)
			if n > len(s) {
				n = len(s)
			}
		}
		out = append(out, Raw{Kind: RawData, Data: s[:n]})
		s = s[n:]
	}
	return out
}

var drAlphabet = []byte{'.', '\r', '\n', 'x'}

// GenDr writes the dr cases of one tier to emit.
func GenDr(rng *rand.Rand, thorough bool, emit func(*Sx)) {
	sizesPool := [][]int{{1}, {2}, {3}, {7}, {4096}, {1, 2, 5}, {3, 1}}
	// (a) exhaustive streams over the four byte classes, followed by "T" as
	// the octets after the message
	maxLen := 7
	if thorough {
		maxLen = 10
	}
	idx := 0
	for n := 0; n <= maxLen; n++ {
		total := 1
		for i := 0; i < n; i++ {
			total *= 4
		}
		for v := 0; v < total; v++ {
			s := make([]byte, n)
			x := v
			for i := 0; i < n; i++ {
				s[i] = drAlphabet[x%4]
				x /= 4
			}
			full := n <= 4
			for si, sizes := range sizesPool {
				if !full && si != idx%len(sizesPool) {
					continue
				}
				for mode := 0; mode <= n+2; mode++ {
					if !full && mode != idx%(n+3) {
						continue
					}
					emit(RunDr(DrCase{Raws: append(Segment(s, mode), Raw{Kind: RawEOF}), Sizes: sizes, Stop: -1}))
				}
			}
			idx++
		}
	}
	// (b) random streams over all octets with planted look-alikes and marker
	nRand := 3000
	if thorough {
		nRand = 40000
	}
	plants := []string{"\r\n.\r\n", "\n.\n", "\n.\r\n", "\r\n.\n", "\r.\r", "\r\n..", "\r\n.\r", "\r\r\n", ".\r\n", "\r\n", ".", "\r", "\n"}
	for i := 0; i < nRand; i++ {
		var s []byte
		parts := 1 + rng.Intn(8)
		for p := 0; p < parts; p++ {
			if rng.Intn(2) == 0 {
				s = append(s, plants[rng.Intn(len(plants))]...)
			} else {
				k := rng.Intn(12)
				for j := 0; j < k; j++ {
					if rng.Intn(4) == 0 {
						s = append(s, drAlphabet[rng.Intn(4)])
					} else {
						s = append(s, byte(rng.Intn(256)))
					}
				}
			}
		}
		if rng.Intn(3) != 0 {
			s = append(s, "\r\n.\r\nTAIL\r\n"...)
		}
		c := DrCase{Raws: RandSegment(rng, s), Sizes: sizesPool[rng.Intn(len(sizesPool))], Stop: -1}
		switch rng.Intn(4) {
		case 0:
			c.Raws = append(c.Raws, Raw{Kind: RawEOF})
		case 1:
			c.Raws = append(c.Raws, Raw{Kind: RawTimeout})
		case 2:
			c.Raws = append(c.Raws, Raw{Kind: RawErr})
		}
		// size limits around the body size, line limits, partial reads
		switch rng.Intn(5) {
		case 0:
			c.Max = int64(1 + rng.Intn(len(s)+2))
		case 1:
			c.LineLimit = 4 + rng.Intn(30)
		case 2:
			c.Stop = int64(rng.Intn(len(s) + 1))
		}
		emit(RunDr(c))
	}
	// (c) size limit sweep: N in 1..12, body sizes N-2..N+2 and 10N
	for N := 1; N <= 12; N++ {
		for _, bl := range []int{N - 2, N - 1, N, N + 1, N + 2, 10 * N} {
			if bl < 0 {
				continue
			}
			for variant := 0; variant < 3; variant++ {
				body := make([]byte, 0, bl)
				for len(body) < bl {
					switch {
					case variant == 1 && bl-len(body) >= 2 && len(body)%5 == 3:
						body = append(body, '\r', '\n')
					case variant == 2 && len(body) == bl-1:
						body = append(body, '\r')
					default:
						body = append(body, 'a'+byte(len(body)%26))
					}
				}
				// stuffed form on the wire
				wire := stuff(body)
				wire = append(wire, "\r\n.\r\nNEXT\r\n"...)
				// the body as the reader will see it includes the CRLF before the marker
				for _, sizes := range sizesPool {
					for _, mode := range []int{0, 1, 2 + bl} {
						emit(RunDr(DrCase{Max: int64(N), Raws: append(Segment(wire, mode), Raw{Kind: RawEOF}), Sizes: sizes, Stop: -1}))
					}
				}
			}
		}
	}
	// (d) cut points: every prefix of a few conversations, with each cut kind
	msgs := []string{"hello\r\n.\r\n", "a\r\n..b\r\n.\r\nX", ".\r\n", "..\r\n.\r\n", "a\r\r\n.\r\n", ".\rx\r\n.\r\n"}
	for _, m := range msgs {
		for k := 0; k <= len(m); k++ {
			for _, kind := range []RawKind{RawEOF, RawTimeout, RawErr} {
				for _, max := range []int64{0, 5} {
					emit(RunDr(DrCase{Max: max, Raws: append(Segment([]byte(m[:k]), 0), Raw{Kind: kind}), Sizes: []int{3}, Stop: -1}))
				}
			}
		}
	}
	genDrRetry(rng, thorough, emit) // (e) read failures inside the message, a backend that reads on (retry.go)
}

// stuff dot-stuffs a body given as raw octets (lines delimited by CRLF).
func stuff(body []byte) []byte {
	var out []byte
	bol := true
	for i, c := range body {
		if bol && c == '.' {
			out = append(out, '.')
		}
		out = append(out, c)
		bol = c == '\n' && i > 0 && body[i-1] == '\r'
	}
	return out
}
