(* Spec-level facts about [unstuff] that say what dot-unstuffing may NOT do:
   the body is an (order-preserving) subsequence of the octets consumed, so
   no octet is invented, duplicated or reordered; the only octets dropped are
   leading dots (at most one per line) and the three octets of the end marker. *)
From Smtp Require Import Bytes DotSpec DataProofs DataProofs2.

Inductive subseq : bytes -> bytes -> Prop :=
| sub_nil l : subseq [] l
| sub_keep c a b : subseq a b -> subseq (c :: a) (c :: b)
| sub_skip c a b : subseq a b -> subseq a (c :: b).

Lemma subseq_refl l : subseq l l.
Proof. induction l as [|c l IH]; constructor; exact IH. Qed.

Lemma subseq_app_same l a b : subseq a b -> subseq (l ++ a) (l ++ b).
Proof. intros H. induction l as [|c l IH]; cbn; [exact H|]. constructor; exact IH. Qed.

Lemma subseq_app_r a b x : subseq a b -> subseq a (b ++ x).
Proof. intros H. induction H; cbn; constructor; assumption. Qed.

Lemma subseq_length a b : subseq a b -> List.length a <= List.length b.
Proof. intros H. induction H; cbn; lia. Qed.

Lemma cut_crlf_cons c d t' :
  cut_crlf (c :: d :: t') =
  if Ascii.eqb c CR && Ascii.eqb d LF then Some ([c; d], t')
  else option_map (consfst c) (cut_crlf (d :: t')).
Proof. reflexivity. Qed.

Lemma cut_crlf_split s : forall l r, cut_crlf s = Some (l, r) -> s = l ++ r.
Proof.
  induction s as [|c t IH]; intros l r H; [discriminate|].
  destruct t as [|d t']; [discriminate|].
  rewrite cut_crlf_cons in H.
  destruct (Ascii.eqb c CR && Ascii.eqb d LF).
  - inversion H; subst. reflexivity.
  - destruct (cut_crlf (d :: t')) as [[l' r']|] eqn:E; [|cbn in H; discriminate].
    cbn in H. inversion H; subst. cbn [app]. f_equal. exact (IH _ _ eq_refl).
Qed.

Lemma strip_dot_cases s : strip_dot s = s \/ s = DOT :: strip_dot s.
Proof.
  destruct s as [|a t]; [left; reflexivity|]. cbn.
  destruct (Ascii.eqb a DOT) eqn:E; [right|left; reflexivity].
  apply Ascii.eqb_eq in E. subst. reflexivity.
Qed.

(* what one run of the specification may output, relative to its input *)
Definition ordered (s : bytes) (r : dres) : Prop :=
  match r with
  | Complete body rest =>
      exists m, s = m ++ rest /\ subseq body m /\ List.length body + 3 <= List.length m
  | Incomplete body => subseq body s
  end.

Lemma ordered_prepend_plain l r' res :
  ordered r' res -> ordered (l ++ r') (prepend l res).
Proof.
  destruct res as [b rest|b]; cbn.
  - intros (m & Hs & Hsub & Hlen). exists (l ++ m). rewrite Hs, app_assoc.
    split; [reflexivity|]. split; [apply subseq_app_same; exact Hsub|].
    rewrite !app_length. lia.
  - intros H. apply subseq_app_same. exact H.
Qed.

Lemma ordered_skip c s res : ordered s res -> ordered (c :: s) res.
Proof.
  destruct res as [b rest|b]; cbn.
  - intros (m & Hs & Hsub & Hlen). exists (c :: m). rewrite Hs.
    split; [reflexivity|]. split; [constructor; exact Hsub|]. cbn. lia.
  - intros H. constructor. exact H.
Qed.

Lemma unstuff_f_ordered n : forall s, ordered s (unstuff_f n s).
Proof.
  induction n as [|n IH]; intros s; [cbn; constructor|].
  cbn [unstuff_f].
  destruct (is_marker s) as [rest|] eqn:Em.
  - apply is_marker_some in Em. subst. cbn.
    exists [DOT; CR; LF]. split; [reflexivity|]. split; [constructor|]. cbn. lia.
  - destruct (cut_crlf (strip_dot s)) as [[l r]|] eqn:Ec.
    + pose proof (cut_crlf_split _ _ _ Ec) as Hs.
      pose proof (ordered_prepend_plain l r _ (IH r)) as Ho. rewrite <- Hs in Ho.
      destruct (strip_dot_cases s) as [E|E].
      * rewrite E in Ho. exact Ho.
      * rewrite E. apply ordered_skip. exact Ho.
    + cbn. destruct (strip_dot_cases s) as [E|E].
      * rewrite E. apply subseq_refl.
      * rewrite E at 2. constructor. apply subseq_refl.
Qed.

(* no octet invented, duplicated or reordered: the body is a subsequence of
   the octets up to and including the end marker (of the whole stream when
   there is none), and at least the three marker octets are not part of it *)
Theorem unstuff_ordered s : ordered s (unstuff s).
Proof. apply unstuff_f_ordered. Qed.

Corollary unstuff_body_shorter s body rest :
  unstuff s = Complete body rest ->
  List.length body + 3 + List.length rest <= List.length s.
Proof.
  intros H. pose proof (unstuff_ordered s) as Ho. rewrite H in Ho. cbn in Ho.
  destruct Ho as (m & Hs & _ & Hlen). rewrite Hs, app_length. lia.
Qed.

Lemma subseq_prefix s : forall a w, subseq (a ++ w) s -> subseq a s.
Proof.
  induction s as [|c s IH]; intros a w H.
  - destruct a as [|x a]; [constructor|]. cbn in H. inversion H.
  - destruct a as [|x a]; [constructor|]. cbn in H. inversion H; subst.
    + constructor. eapply IH; eassumption.
    + constructor. apply (IH (x :: a) w). assumption.
Qed.

(* the same at the level of the reader model: whatever the schedule of raw
   reads and the backend's read sizes, what the backend has read is a
   subsequence of the octets of the stream; when it has seen io.EOF, of
   exactly the octets consumed from the transport, three of which at least
   (the end marker) are not delivered *)
From Smtp Require Import Transport DataReader TransportProofs.

Theorem data_no_octet_invented (t : transport) (sizes : list nat) :
  transparent t ->
  let '(out, e, d', t') := backend_reads sizes None (new_data_reader 0) t in
  subseq out (tstream t) /\
  (e = Some REOF ->
   exists m, tstream t = m ++ tstream t' /\ subseq out m /\
             List.length out + 3 <= List.length m).
Proof.
  intros Ht. pose proof (data_byte_exact t sizes Ht) as H.
  destruct (backend_reads sizes None (new_data_reader 0) t) as [[[out e] d'] t'].
  pose proof (unstuff_ordered (tstream t)) as Ho.
  destruct (unstuff (tstream t)) as [body rest|body].
  - destruct H as (Hout & _ & Hrest & _). subst out. cbn in Ho.
    destruct Ho as (m & Hs & Hsub & Hlen).
    split.
    + rewrite Hs. apply subseq_app_r. exact Hsub.
    + intros _. exists m. rewrite Hrest. auto.
  - destruct H as (He & w & Hb & _). cbn in Ho. split.
    + rewrite Hb in Ho. eapply subseq_prefix. exact Ho.
    + intros E. rewrite He in E. inversion E as [E']. exfalso.
      exact (rerr_of_terr_not_eof _ E').
Qed.
