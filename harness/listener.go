package harness

import (
	"errors"
	"net"
	"sync"
)

type netConn = net.Conn

// closeNotifyConn tells when the server closed the connection.
type closeNotifyConn struct {
	net.Conn
	once    sync.Once
	closed  chan struct{}
	wonce   sync.Once
	written chan struct{} // closed at the first Write (the greeting): the handler runs
}

func (c *closeNotifyConn) Write(b []byte) (int, error) {
	c.wonce.Do(func() { close(c.written) })
	return c.Conn.Write(b)
}

func (c *closeNotifyConn) Close() error {
	err := c.Conn.Close()
	c.once.Do(func() { close(c.closed) })
	return err
}

// oneListener yields one connection; Accept then blocks until Close.
type oneListener struct {
	conn    *closeNotifyConn
	give    net.Conn
	given   bool
	mu      sync.Mutex
	done    chan struct{}
	once    sync.Once
	handled  chan struct{}
	accepted chan struct{}
}

func newNotify(c net.Conn) *closeNotifyConn {
	return &closeNotifyConn{Conn: c, closed: make(chan struct{}), written: make(chan struct{})}
}

func newOneListener(c net.Conn) *oneListener {
	cn := newNotify(c)
	return &oneListener{conn: cn, give: cn, done: make(chan struct{}), handled: cn.closed, accepted: make(chan struct{})}
}

// newOneListenerWrapped: the server is given [give] (e.g. a *tls.Conn) which
// sits on top of the notifying connection cn.
func newOneListenerWrapped(give net.Conn, cn *closeNotifyConn) *oneListener {
	return &oneListener{conn: cn, give: give, done: make(chan struct{}), handled: cn.closed, accepted: make(chan struct{})}
}

func (l *oneListener) Accept() (net.Conn, error) {
	l.mu.Lock()
	if !l.given {
		l.given = true
		l.mu.Unlock()
		close(l.accepted)
		return l.give, nil
	}
	l.mu.Unlock()
	<-l.done
	return nil, errors.New("verif: listener closed")
}

func (l *oneListener) Close() error {
	l.once.Do(func() { close(l.done) })
	return nil
}

func (l *oneListener) Addr() net.Addr { return fakeAddr{} }
