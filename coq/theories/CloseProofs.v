(* Finding F30 repaired: when the end of a DATA message (the end marker) or of
   a BDAT chunk (the declared number of octets) has NOT been reached when the
   handler sends its reply, the position in the octet stream is unknown and
   the connection is closed - the rest of the message, should the peer send
   it later, is never read as commands.

   The defect needed a read failure that REPEATS (an expired read deadline
   makes every read fail until the command loop arms it again; end-of-file is
   repeated as well).  The theorems below speak about the model's own terms,
   for every connection state, backend plan and network schedule:

   * [handle_data_failed_drain_closes]: DATA accepted (354 sent), the backend
     returned - having read all, part or nothing - and the drain of the rest
     of the message ([dr_drain], "io.Copy(ioutil.Discard, r)") ended with
     anything but io.EOF: the state handle_data returns is closed (flag and
     socket), the session logged out, and the command loop run on that state
     with ANY remaining input does nothing but the deferred Close.
   * [handle_data_drained_resumes]: conversely, the drain reached the end
     marker and nothing panicked: the connection stays as open as it was and
     the transport is the one the drain left - exactly behind the marker
     (DataProofs2.drain_resume: its stream is what follows the marker).
   * [handle_data_cut_closes]: the stream-level instance for an interrupted
     connection: no complete message in the stream and nothing behind the
     failure that ends it.
   * BDAT: BdatProofs.bdat_incomplete_chunk_closes (accepted chunk, any plan),
     bdat_incomplete_refused_closes (refused chunk), bdat_chunk_cut_resume /
     bdat_chunk_cut_again (one failure is survived, a repeated one is not);
     [bdat_closed_loop_stops] adds the command loop. *)
From Smtp Require Import Bytes GoStrings Transport DataReader DotSpec TransportProofs DataProofs DataProofs2
  Parse Reply Lmtp Conn ConnProofs BdatProofs.

(* ---------- the command loop on a closed connection ---------- *)

Lemma final_close_closed c : c_session c = false -> c_bdat c = None -> final_close c = [EClose].
Proof.
  intros Hs Hb. unfold final_close. rewrite do_close_eq. cbn [snd]. unfold close_ev.
  rewrite Hs, Hb. reflexivity.
Qed.

(* whatever is still buffered or still to come: nothing is read, executed or
   answered *)
Lemma serve_loop_after_close fuel cfg c :
  c_closed c = true -> c_session c = false -> c_bdat c = None ->
  serve_loop (S fuel) cfg c = [EClose].
Proof. intros Hc Hs Hb. cbn [serve_loop]. rewrite Hc. apply final_close_closed; assumption. Qed.

(* ---------- DATA ---------- *)

(* the state in which DATA is answered 354 *)
Definition data_accepted (c : conn) : Prop :=
  c_bdat c = None /\ c_binarymime c = false /\ c_from c = true /\ c_rcpts c <> [] /\ c_session c = true.

(* what handle_data computes on the way: the plan the backend follows, what
   it obtained, and the drain of the rest of the message *)
Definition data_run (cfg : config) (c : conn)
  : data_plan * (bytes * option rerr) * (option rerr * dreader * transport) :=
  let p := fst (pop_data c) in
  let '(got, term, d1, t1) :=
    backend_reads (dp_sizes p) (dp_stop p) (new_data_reader (cf_max_bytes cfg)) (c_t c) in
  (p, (got, term), dr_drain d1 t1).

Ltac csd :=
  cbn [c_t c_phases c_be c_helo c_session c_errs c_binarymime c_from c_rcpts c_did_auth c_closed
       c_tls c_bdat c_received upd_t upd_be upd_helo upd_session upd_errs upd_binarymime upd_from
       upd_rcpts upd_did_auth upd_bdat upd_received fst snd] in *.

Theorem handle_data_failed_drain_closes (cfg : config) (c : conn) :
  data_accepted c ->
  let '(p, _, (de, d2, t2)) := data_run cfg c in
  drained de = false ->
  let c' := fst (handle_data cfg c []) in
  c_closed c' = true /\ t_closed (c_t c') = true /\ c_session c' = false /\ c_bdat c' = None /\
  forall fuel, serve_loop (S fuel) cfg c' = [EClose].
Proof.
  intros (Hbd & Hbm & Hfr & Hrc & Hse).
  destruct c as [t ph be h se er bm fr rc da cl tl bd rv]. csd. subst.
  unfold data_run, handle_data, pop_data, call_data. csd.
  destruct rc as [|r0 rc]; [congruence|]. cbn [negb orb].
  destruct (pop dp_default (be_data be)) as [p rest]. csd.
  destruct (backend_reads (dp_sizes p) (dp_stop p) (new_data_reader (cf_max_bytes cfg)) t)
    as [[[got term] d1] t1].
  destruct (dr_drain d1 t1) as [[de d2] t2]. intros Hde.
  assert (Hloop : forall c' : conn,
            c_closed c' = true -> t_closed (c_t c') = true -> c_session c' = false -> c_bdat c' = None ->
            c_closed c' = true /\ t_closed (c_t c') = true /\ c_session c' = false /\ c_bdat c' = None /\
            forall fuel, serve_loop (S fuel) cfg c' = [EClose]).
  { intros c' H1 H2 H3 H4. repeat split; try assumption. intros fuel. apply serve_loop_after_close; assumption. }
  cbv zeta.
  destruct (cf_lmtp cfg); cbn [negb]; [destruct (cf_lmtp_session cfg); cbn [negb]|].
  - destruct (lmtp_statuses (r0 :: rc) (dp_status p) (plan_ret p term) (dp_panic p)) as [sts panicked].
    destruct panicked.
    + rewrite do_close_eq. cbv beta iota. rewrite do_reset_eq. cbn [fst]. apply Hloop; reflexivity.
    + unfold close_unless. rewrite Hde. rewrite do_close_eq. cbv beta iota.
      rewrite do_reset_eq. cbn [fst]. apply Hloop; reflexivity.
  - destruct (dp_panic p).
    + rewrite do_reset_eq. cbv beta iota. rewrite do_close_eq. cbn [fst]. apply Hloop; reflexivity.
    + unfold close_unless. rewrite Hde. rewrite do_close_eq. cbv beta iota.
      rewrite do_reset_eq. cbn [fst]. apply Hloop; reflexivity.
  - destruct (dp_panic p).
    + rewrite do_reset_eq. cbv beta iota. rewrite do_close_eq. cbn [fst]. apply Hloop; reflexivity.
    + destruct (data_error_to_status (plan_ret p term)) as [[code ec] msg].
      unfold close_unless. rewrite Hde. rewrite do_close_eq. cbv beta iota.
      rewrite do_reset_eq. cbn [fst]. apply Hloop; reflexivity.
Qed.

(* the other direction: the end marker was reached and nothing panicked - the
   connection stays open and the next command is read from where the drain
   stopped *)
Theorem handle_data_drained_resumes (cfg : config) (c : conn) :
  data_accepted c ->
  let '(p, _, (de, d2, t2)) := data_run cfg c in
  drained de = true -> dp_panic p = false -> dp_status p = [] ->
  let c' := fst (handle_data cfg c []) in
  c_closed c' = c_closed c /\ c_t c' = t2 /\ c_session c' = true /\
  c_from c' = false /\ c_rcpts c' = [] /\ c_bdat c' = None.
Proof.
  intros (Hbd & Hbm & Hfr & Hrc & Hse).
  destruct c as [t ph be h se er bm fr rc da cl tl bd rv]. csd. subst.
  unfold data_run, handle_data, pop_data, call_data. csd.
  destruct rc as [|r0 rc]; [congruence|]. cbn [negb orb].
  destruct (pop dp_default (be_data be)) as [p rest]. csd.
  destruct (backend_reads (dp_sizes p) (dp_stop p) (new_data_reader (cf_max_bytes cfg)) t)
    as [[[got term] d1] t1].
  destruct (dr_drain d1 t1) as [[de d2] t2]. intros Hde Hpan Hst. cbv zeta. rewrite Hpan.
  destruct (cf_lmtp cfg); cbn [negb]; [destruct (cf_lmtp_session cfg); cbn [negb]|].
  - rewrite Hst. unfold lmtp_statuses. cbn [run_statuses orb]. cbv beta iota.
    unfold close_unless. rewrite Hde. cbv beta iota. rewrite do_reset_eq. cbn. auto 10.
  - unfold close_unless. rewrite Hde. cbv beta iota. rewrite do_reset_eq. cbn. auto 10.
  - destruct (data_error_to_status (plan_ret p term)) as [[code ec] msg].
    unfold close_unless. rewrite Hde. cbv beta iota. rewrite do_reset_eq. cbn. auto 10.
Qed.

(* the connection is interrupted inside the message (end of the stream, or a
   failure with nothing behind it): closed, whatever the backend did *)
Theorem handle_data_cut_closes (cfg : config) (c : conn) body :
  data_accepted c -> transparent (c_t c) ->
  unstuff (tstream (c_t c)) = Incomplete body -> raws_after (t_raw (c_t c)) = [] ->
  let c' := fst (handle_data cfg c []) in
  c_closed c' = true /\ t_closed (c_t c') = true /\ c_session c' = false /\ c_bdat c' = None /\
  forall fuel, serve_loop (S fuel) cfg c' = [EClose].
Proof.
  intros Ha Htr Hinc Hra.
  pose proof (handle_data_failed_drain_closes cfg c Ha) as H. unfold data_run in H.
  pose proof (drain_incomplete_never_eof (cf_max_bytes cfg) (dp_sizes (fst (pop_data c)))
                (dp_stop (fst (pop_data c))) (c_t c) body Htr Hinc Hra) as Hd.
  destruct (backend_reads _ _ _ _) as [[[got term] d1] t1].
  destruct (dr_drain d1 t1) as [[de d2] t2].
  destruct Hd as (_ & (x & ->) & _). apply H. destruct x; reflexivity.
Qed.

(* ---------- BDAT: the command loop after an incomplete chunk ---------- *)

Theorem bdat_closed_loop_stops (cfg : config) (c : conn) (arg : bytes) (n : N) :
  (exists last, bdat_classify cfg c arg = BvAccept n last /\
                blen (raws_bytes (raws_after (t_raw (c_t c)))) < n - blen (tstream (c_t c)))%N
  \/ match bdat_classify cfg c arg with
     | BvNoEnvelope s | BvBadLast s | BvOverLimit s => s = n
     | _ => False
     end ->
  t_closed (c_t c) = false -> (blen (tstream (c_t c)) < n)%N ->
  let c' := fst (handle_bdat cfg c arg) in
  c_closed c' = true /\ t_closed (c_t c') = true /\
  forall fuel, serve_loop (S fuel) cfg c' = [EClose].
Proof.
  intros Hcase Hcl Hn.
  assert (H : let c' := fst (handle_bdat cfg c arg) in
              c_closed c' = true /\ t_closed (c_t c') = true /\ c_session c' = false /\ c_bdat c' = None).
  { destruct Hcase as [(last & Hcls & Hn2)|Hcls].
    - exact (bdat_incomplete_chunk_closes cfg c arg n last Hcls Hcl Hn Hn2).
    - exact (bdat_incomplete_refused_closes cfg c arg n Hcls Hcl Hn). }
  cbv zeta in *. destruct H as (H1 & H2 & H3 & H4). repeat split; try assumption.
  intros fuel. apply serve_loop_after_close; assumption.
Qed.

(* ---------- non-vacuity: whole conversations ---------- *)

Definition f30_prelude : bytes :=
  xln "EHLO x" ++ xln "MAIL FROM:<a@b>" ++ xln "RCPT TO:<c@d>".
Definition f30_rest : bytes :=
  xln "MAIL FROM:<bait@evil>" ++ xln "." ++ xln "NOOP" ++ xln "QUIT".

Definition has_mail (a : string) (tr : list event) : bool :=
  existsb (fun e => match e with EMail f _ _ => bytes_eqb f (bs a) | _ => false end) tr.

(* DATA; the read deadline expires inside the message and stays expired (two
   failures in a row: the backend's read, the drain), then the client sends
   the rest: 554 and the connection is closed - the bait line, NOOP and QUIT
   are never read.  With ONE failure the drain goes on, finds the end marker,
   and NOOP and QUIT are executed (the bait line is message text). *)
Example f30_data_witness :
  let run fails := serve 40 (ex_cfg 0 2000) ex_be
                     [[xraw (f30_prelude ++ xln "DATA" ++ xln "first line")] ++ fails ++ [xraw f30_rest]] in
  let sticky := run [RFail TTimeout; RFail TTimeout] in
  let once := run [RFail TTimeout] in
  cmd_lines sticky = [bs "EHLO x"; bs "MAIL FROM:<a@b>"; bs "RCPT TO:<c@d>"; bs "DATA"] /\
  wire_codes sticky = map bs ["220"; "250"; "250"; "250"; "354"; "554"]%string /\
  has_mail "bait@evil" sticky = false /\
  skipn (List.length sticky - 3) sticky = [ELogout; EClose; EClose] /\
  cmd_lines once = [bs "EHLO x"; bs "MAIL FROM:<a@b>"; bs "RCPT TO:<c@d>"; bs "DATA"; bs "NOOP"; bs "QUIT"] /\
  wire_codes once = map bs ["220"; "250"; "250"; "250"; "354"; "554"; "250"; "221"]%string /\
  has_mail "bait@evil" once = false.
Proof. vm_compute. repeat split; reflexivity. Qed.

(* the hypotheses of handle_data_failed_drain_closes / _drained_resumes on the
   states of that conversation *)
Definition f30_conn (rs : list raw) : conn :=
  mkC (mkT [] rs 0 2000 false) [] ex_be (bs "x") true 0 false true [bs "c@d"] false false false None 0.

Example f30_data_hypotheses :
  let sticky := f30_conn [xraw (xln "first line"); RFail TTimeout; RFail TTimeout; xraw f30_rest] in
  let once := f30_conn [xraw (xln "first line"); RFail TTimeout; xraw f30_rest] in
  data_accepted sticky /\ data_accepted once /\
  (let '(_, (_, term), (de, _, _)) := data_run (ex_cfg 0 2000) sticky in (term, drained de))
  = (Some (RTransport TTimeout), false) /\
  (let '(p, (_, term), (de, _, t2)) := data_run (ex_cfg 0 2000) once in
   (term, drained de, dp_panic p, dp_status p, tstream t2))
  = (Some (RTransport TTimeout), true, false, [], xln "NOOP" ++ xln "QUIT").
Proof.
  split; [repeat split; try reflexivity; discriminate|].
  split; [repeat split; try reflexivity; discriminate|].
  vm_compute. split; reflexivity.
Qed.

(* BDAT 30 with 12 octets, the deadline expires and stays expired: accepted
   chunk (554, closed) and refused chunk (502, closed); with ONE failure the
   accepted chunk's discard skips the remaining 18 octets and NOOP is executed *)
Example f30_bdat_witness :
  let chunk1 := bs "first part" ++ crlf in
  let chunk2 := bs "MAIL FROM:<x@y>" ++ crlf ++ bs "!" in
  let tail := xln "NOOP" ++ xln "QUIT" in
  let run pre fails := serve 40 (ex_cfg 0 2000) ex_be
                         [[xraw (pre ++ xln "BDAT 30" ++ chunk1)] ++ fails ++ [xraw (chunk2 ++ tail)]] in
  let sticky := run f30_prelude [RFail TTimeout; RFail TTimeout] in
  let once := run f30_prelude [RFail TTimeout] in
  let refused := run (xln "EHLO x") [RFail TTimeout] in
  blen chunk1 = 12%N /\ blen chunk2 = 18%N /\
  wire_codes sticky = map bs ["220"; "250"; "250"; "250"; "554"]%string /\
  has_mail "x@y" sticky = false /\
  skipn (List.length sticky - 3) sticky = [ELogout; EClose; EClose] /\
  wire_codes once = map bs ["220"; "250"; "250"; "250"; "554"; "250"; "221"]%string /\
  has_mail "x@y" once = false /\
  cmd_lines once = [bs "EHLO x"; bs "MAIL FROM:<a@b>"; bs "RCPT TO:<c@d>"; bs "BDAT 30"; bs "NOOP"; bs "QUIT"] /\
  wire_codes refused = map bs ["220"; "250"; "502"]%string /\
  has_mail "x@y" refused = false /\
  cmd_lines refused = [bs "EHLO x"; bs "BDAT 30"].
Proof. vm_compute. repeat split; reflexivity. Qed.
