package harness

import (
	"errors"
	"io"
	"net"

	smtp "github.com/emersion/go-smtp"
)

// ErrKind maps an error returned by a reader to the small enum the model uses.
func ErrKind(err error) string {
	switch {
	case err == nil:
		return "nil"
	case errors.Is(err, io.EOF):
		// (a backend may test errors.Is(err, io.EOF): an error wrapping io.EOF is "the end" as well)
		return "eof"
	case err == io.ErrUnexpectedEOF:
		return "ueof"
	case err == smtp.ErrDataTooLarge:
		return "toolarge"
	case err == smtp.ErrTooLongLine:
		return "toolong"
	case err == ErrScriptTimeout:
		return "timeout"
	case err == ErrScriptNet:
		return "err"
	case errors.Is(err, net.ErrClosed):
		return "closed"
	case err == smtp.ErrDataReset:
		return "datareset"
	case err == io.ErrClosedPipe:
		return "closedpipe"
	}
	return "other:" + err.Error()
}
