(* C09 (server half) - AUTH is unreachable on insecure connections and
   succeeds at most once per session.

   For EVERY configuration, backend script, network schedule and fuel, about
   the event list of the server model ([EAuth]: sasl.Server created by
   AuthSession.Auth; [EAuthNext]: one call of sasl.Server.Next, i.e. every
   octet the mechanism ever receives; [EAuthOk]: the exchange succeeded, 235):

   C09_auth_guarded: every Auth / AuthNext / AuthOk happens with a live
   session (successful greeting, no Logout since), and, unless
   AllowInsecureAuth is set, every Auth / AuthNext happens under TLS (implicit
   TLS or a successful STARTTLS handshake earlier in the trace).
   C09_at_most_once: after an AuthOk, until the session's Logout (QUIT,
   STARTTLS, disconnect), no further Auth / AuthNext / AuthOk happens. *)
From Smtp Require Import Bytes Transport Reply Conn Order OrderStrict ConnProofs TraceProps ConnNoPanic
  TraceExamples.

Theorem C09_auth_guarded : forall fuel cfg be phases,
  TraceProps.C09_auth_guarded cfg (serve fuel cfg be phases).
Proof. exact serve_C09_auth_guarded. Qed.
Print Assumptions C09_auth_guarded.

Theorem C09_at_most_once : forall fuel cfg be phases,
  TraceProps.C09_at_most_once (serve fuel cfg be phases).
Proof. exact serve_C09_at_most_once. Qed.
Print Assumptions C09_at_most_once.

(* non-vacuity: ex1 (AllowInsecureAuth = true, plaintext) contains a successful
   one-step AUTH PLAIN exchange with a live session *)
Example C09_server_witness :
  map show_kind ex1_trace = ex1_shape /\
  map show_kind (firstn 4 (skipn 5 ex1_trace)) = ["Auth"; "AuthNext"; "reply 235"; "AuthOk"]%string /\
  live (firstn 5 ex1_trace) = true.
Proof. split; [exact ex1_shape_ok|]. split; vm_compute; reflexivity. Qed.
