(* C05 - BDAT chunks are framed by octet count and delivered binary-transparent.

   What is quantified.  Every theorem below holds for EVERY payload (lists of
   Coq [ascii]: all 256 octet values, so CRLF.CRLF, NUL, 8-bit octets, command
   look-alikes and LF-free runs of any length are covered - nothing in the
   statements looks at the octets), EVERY transport state [t] / [c_t c] (any
   octets already buffered by bufio + ANY schedule of future raw reads and
   failures + ANY value of the limiter's counter: this is the quantification
   over all segmentations of the stream), EVERY configuration [cfg] (SMTP and
   LMTP, any size limit, any line limit), EVERY backend plan unless a theorem
   says "read-all" ([dp_stop p = None]), and chunk sizes are unbounded [N].
   "The stream" of a transport is [tstream t] = buffered octets ++ the octets
   the schedule delivers before its first failure.

   * C05_copy_exact / C05_copy_short / C05_copy_segmentation_independent:
     io.Copy(dst, io.LimitReader(bufio, n)) with LineLimit = 0 returns exactly
     the first n octets of the stream and leaves exactly the rest; if the
     stream ends first it returns what there was and the schedule's failure.
   * C05_discard_resume: discardChunk skips exactly the declared octets and
     switches the line limit back on.
   * C05_resume: for every BDAT command whose size argument is readable, in
     EVERY branch of handleBdat (accepted LAST / not LAST, delivered, refused
     by the backend, backend gone, backend panicked, 502 no envelope, 501 bad
     LAST token, 552 over the limit) the transport is left exactly behind the
     declared octets: the next command is parsed from there, the declared
     octets are never executed.  C05_syntax_unchanged: size unreadable (no
     argument, > 2 arguments, not a decimal < 2^32): one 501, nothing
     consumed (nothing can be skipped).  C05_refused_*: the refusals emit the
     reply and nothing else - no Data octet, no backend call.
   * C05_pipe_exact / C05_pipe_stop: the backend's reader yields exactly the
     concatenation of the chunk payloads (no unstuffing, no octet changed) and
     then the terminal condition; a backend that stops after k octets has read
     exactly the first min(k, total).
   * C05_chunk_continue / C05_chunk_last / C05_bdat_exact: through
     handleBdat, for EVERY division of a message into chunks (any number, any
     sizes including 0, LAST on an empty or non-empty chunk): one delivery
     whose reader yields the concatenation of all payloads and end-of-file only
     after the LAST chunk, one "250 Continue" per non-LAST chunk, the final
     reply rendered from the backend's verdict, reset afterwards.
   * C05_replies_counted / C05_one_reply_smtp / C05_replies_lmtp: exactly one
     reply per BDAT command in every branch (LMTP: one per recipient of the
     transfer for an accepted LAST chunk).
   * C05_segmentation_independent: two states that hold the same stream in
     different segmentations give the same events (for ANY backend plan) and
     the same state apart from the transport.
   * C05_failed_read_consumed: what is consumed when a raw read FAILS inside
     an accepted chunk (the discard runs on behind the failure if the backend
     was still reading).
   * C05_cut_resume / C05_cut_again / C05_incomplete_chunk_closes /
     C05_incomplete_refused_closes / C05_refusal_short / C05_closed_loop_stops
     (finding F30, repaired): a chunk - accepted or refused - whose declared
     octets could NOT all be read closes the connection after its reply: the
     socket is shut, the session logged out, and the command loop run on the
     resulting state with ANY remaining input does nothing but the deferred
     Close, so the rest of the chunk, should the peer send it later, is never
     executed as commands.  One failing read inside an ACCEPTED chunk is
     survived when the octets behind it complete the chunk (the discard skips
     them and commands resume right behind: C05_cut_resume); a failure that
     repeats - end of the stream, or an expired read deadline, which makes
     every read fail until the command loop arms it again - is not
     (C05_cut_again, C05_incomplete_chunk_closes).  A write error on the pipe
     (backend gone) with the chunk read completely does not close (C05_resume).

   BOUNDARY (known finding F6).  All of this is about the state AFTER the BDAT
   command line has been read.  Payload octets that were fetched into the
   bufio buffer by the same raw read that brought the command line have
   already passed through the lineLimitReader while the line limit was still
   on: an LF-free run longer than MaxLineLength in the same raw read as the
   command makes that read fail with "too long line" and the connection is
   closed with 500 before BDAT is parsed.  That schedule-dependent behaviour
   is NOT covered (and not contradicted) by these theorems; it is exhibited
   concretely by BdatProofs.bdat_line_limit_boundary.  Once the line has been
   read, [t_buf] holds such octets and they are delivered unchanged, however
   long their lines are (LineLimit is 0 during the copy, whatever [t_cur]).

   The nil-session state (an envelope without a session: [BvNilSession]) is
   unreachable (ConnProofs.Inv, BdatProofs.Inv_session); the theorems that
   need a session say [c_from c = true -> c_session c = true]. *)
From Smtp Require Import Bytes GoStrings Transport DataReader Parse Reply Lmtp Conn
  TransportProofs ConnProofs BdatProofs CloseProofs.
Local Open Scope N_scope.

(* ---- the transport: framing by octet count ---- *)

Theorem C05_copy_exact (t : transport) (n : N) (payload rest : bytes) :
  t_closed t = false -> t_limit t = 0 ->
  tstream t = payload ++ rest -> blen payload = n ->
  exists t',
    t_copy_n n t = (payload, None, t') /\
    tstream t' = rest /\ t_closed t' = false /\ t_limit t' = 0 /\ tterm t' = tterm t.
Proof. exact (copy_n_exact t n payload rest). Qed.
Print Assumptions C05_copy_exact.

Theorem C05_copy_short (t : transport) (n : N) :
  t_closed t = false -> t_limit t = 0 -> blen (tstream t) < n ->
  exists t',
    t_copy_n n t = (tstream t, Some (tterm t), t') /\
    t_buf t' = [] /\ t_raw t' = raws_after (t_raw t) /\ t_closed t' = false /\ t_limit t' = 0.
Proof. exact (copy_n_short t n). Qed.
Print Assumptions C05_copy_short.

Theorem C05_copy_segmentation_independent (t1 t2 : transport) n payload rest :
  t_closed t1 = false -> t_limit t1 = 0 -> t_closed t2 = false -> t_limit t2 = 0 ->
  tstream t1 = payload ++ rest -> tstream t2 = tstream t1 -> blen payload = n ->
  let '(got1, e1, t1') := t_copy_n n t1 in
  let '(got2, e2, t2') := t_copy_n n t2 in
  got1 = payload /\ got2 = payload /\ e1 = None /\ e2 = None /\
  tstream t1' = rest /\ tstream t2' = rest.
Proof. exact (copy_n_segmentation_independent t1 t2 n payload rest). Qed.
Print Assumptions C05_copy_segmentation_independent.

Theorem C05_discard_resume (cfg : config) (c : conn) (n : N) (payload rest : bytes) :
  t_closed (c_t c) = false ->
  tstream (c_t c) = payload ++ rest -> blen payload = n ->
  exists t',
    discard_chunk cfg c n = (upd_t c t', []) /\
    tstream t' = rest /\ t_limit t' = cf_max_line cfg /\ t_closed t' = false /\
    tterm t' = tterm (c_t c).
Proof. exact (discard_chunk_resume cfg c n payload rest). Qed.
Print Assumptions C05_discard_resume.

(* ... and when they are not all there: Close *)
Theorem C05_discard_short (cfg : config) (c : conn) (n : N) :
  t_closed (c_t c) = false -> blen (tstream (c_t c)) < n ->
  exists t',
    discard_chunk cfg c n = do_close (upd_t c t') /\
    t_buf t' = [] /\ t_raw t' = raws_after (t_raw (c_t c)) /\ t_limit t' = cf_max_line cfg.
Proof. exact (discard_chunk_short cfg c n). Qed.
Print Assumptions C05_discard_short.

(* ---- the next command is parsed from the octets behind the declared size ---- *)

Theorem C05_resume (cfg : config) (c : conn) (arg a0 : bytes) (more : list bytes)
        (n : N) (payload rest : bytes) :
  t_closed (c_t c) = false ->
  (c_from c = true -> c_session c = true) ->
  fields arg = a0 :: more -> (List.length more <= 1)%nat -> parse_uint 32 a0 = POk n ->
  tstream (c_t c) = payload ++ rest -> blen payload = n ->
  let '(c', ev) := handle_bdat cfg c arg in
  tstream (c_t c') = rest /\ t_limit (c_t c') = cf_max_line cfg /\
  tterm (c_t c') = tterm (c_t c) /\
  ((c_closed c' = c_closed c /\ t_closed (c_t c') = false) \/
   (c_closed c' = true /\ t_closed (c_t c') = true)).
Proof. exact (bdat_resume cfg c arg a0 more n payload rest). Qed.
Print Assumptions C05_resume.

Theorem C05_syntax_unchanged cfg c arg :
  (~ exists n, bdat_size_known arg n) ->
  exists w, handle_bdat cfg c arg = (c, [EWire w]).
Proof. exact (bdat_syntax_unchanged cfg c arg). Qed.
Print Assumptions C05_syntax_unchanged.

(* the refusals: the reply, then what discardChunk does - [discard_c] is the
   state it leaves, [discard_ev] the events it adds: none when the declared
   octets are there (C05_refusal_complete), Close when they are not
   (C05_refusal_short) *)
Theorem C05_refused_no_envelope cfg c arg a0 more n :
  fields arg = a0 :: more -> (List.length more <= 1)%nat -> parse_uint 32 a0 = POk n ->
  c_from c = false \/ c_rcpts c = [] ->
  handle_bdat cfg c arg
  = (discard_c cfg c n, reply 502 (5, 5, 1)%Z (bs "Missing RCPT TO command.") :: discard_ev cfg c n).
Proof. exact (bdat_refused_no_envelope cfg c arg a0 more n). Qed.
Print Assumptions C05_refused_no_envelope.

Theorem C05_refused_bad_last cfg c arg a0 a1 n :
  fields arg = [a0; a1] -> parse_uint 32 a0 = POk n ->
  c_from c = true -> c_rcpts c <> [] -> equal_fold a1 (bs "LAST") = false ->
  handle_bdat cfg c arg
  = (discard_c cfg c n, reply 501 (5, 5, 4)%Z (bs "Unknown BDAT argument") :: discard_ev cfg c n).
Proof. exact (bdat_refused_bad_last cfg c arg a0 a1 n). Qed.
Print Assumptions C05_refused_bad_last.

Theorem C05_refused_over_limit cfg c arg a0 more n last :
  fields arg = a0 :: more -> (List.length more <= 1)%nat -> parse_uint 32 a0 = POk n ->
  c_from c = true -> c_rcpts c <> [] -> bdat_last_ok more = Some last ->
  cf_max_bytes cfg <> 0%Z -> (cf_max_bytes cfg < c_received c + Z.of_N n)%Z ->
  handle_bdat cfg c arg
  = (reset_c (discard_c cfg c n),
     [reply 552 (5, 3, 4)%Z (bs "Max message size exceeded")]
     ++ discard_ev cfg c n ++ reset_ev (discard_c cfg c n)).
Proof. exact (bdat_refused_over_limit cfg c arg a0 more n last). Qed.
Print Assumptions C05_refused_over_limit.

Theorem C05_refusal_complete cfg c n payload rest :
  t_closed (c_t c) = false -> tstream (c_t c) = payload ++ rest -> blen payload = n ->
  exists t',
    discard_c cfg c n = upd_t c t' /\ discard_ev cfg c n = [] /\
    tstream t' = rest /\ t_limit t' = cf_max_line cfg /\ t_closed t' = false /\
    tterm t' = tterm (c_t c).
Proof. exact (bdat_refusal_complete cfg c n payload rest). Qed.
Print Assumptions C05_refusal_complete.

Theorem C05_refusal_short cfg c n :
  t_closed (c_t c) = false -> blen (tstream (c_t c)) < n ->
  c_closed (discard_c cfg c n) = true /\ t_closed (c_t (discard_c cfg c n)) = true /\
  c_session (discard_c cfg c n) = false /\ c_bdat (discard_c cfg c n) = None /\
  discard_ev cfg c n = close_ev c.
Proof. exact (bdat_refusal_short cfg c n). Qed.
Print Assumptions C05_refusal_short.

(* handle_bdat, branch by branch, in closed form *)
Theorem C05_cases (cfg : config) (c : conn) (arg : bytes) :
  match bdat_classify cfg c arg with
  | BvSyntax => exists w, handle_bdat cfg c arg = (c, [EWire w])
  | BvNoEnvelope size =>
      handle_bdat cfg c arg
      = (discard_c cfg c size,
         reply 502 (5, 5, 1)%Z (bs "Missing RCPT TO command.") :: discard_ev cfg c size)
  | BvBadLast size =>
      handle_bdat cfg c arg
      = (discard_c cfg c size,
         reply 501 (5, 5, 4)%Z (bs "Unknown BDAT argument") :: discard_ev cfg c size)
  | BvOverLimit size =>
      handle_bdat cfg c arg
      = (reset_c (discard_c cfg c size),
         [reply 552 (5, 3, 4)%Z (bs "Max message size exceeded")]
         ++ discard_ev cfg c size ++ reset_ev (discard_c cfg c size))
  | BvNilSession => handle_bdat cfg c arg = (c, [EPanic])
  | BvAccept size last =>
      handle_bdat cfg c arg
      = let '(chunk, cerr, t1) := t_copy_n size (set_limit (c_t c) 0) in
        bdat_fed cfg c size last chunk cerr t1
  end.
Proof. exact (handle_bdat_cases cfg c arg). Qed.
Print Assumptions C05_cases.

(* ---- binary transparency and exact delivery: the pipe ---- *)

Theorem C05_pipe_exact p rcpts sp chunks term :
  dp_stop p = None ->
  pipe_run p rcpts sp chunks term
  = ([EBdatStart; EDelivery (List.concat chunks) (Some term) (plan_ret p (Some term)) (dp_panic p || sp)],
     map (fun _ => None) chunks).
Proof. exact (pipe_read_all p rcpts sp chunks term). Qed.
Print Assumptions C05_pipe_exact.

Theorem C05_pipe_stop p rcpts sp chunks term k :
  dp_stop p = Some k ->
  let total := List.concat chunks in
  let t' := if k <=? blen total then None else Some term in
  exists got rest,
    total = got ++ rest /\ blen got = N.min k (blen total) /\
    fst (pipe_run p rcpts sp chunks term)
    = [EBdatStart; EDelivery got t' (plan_ret p t') (dp_panic p || sp)].
Proof. exact (pipe_stop p rcpts sp chunks term k). Qed.
Print Assumptions C05_pipe_stop.

(* ---- binary transparency and exact delivery: through handleBdat ---- *)

Theorem C05_chunk_continue cfg c p pan got arg n payload rest :
  transfer_at cfg c p pan got -> dp_stop p = None ->
  bdat_arg arg n false -> within_limit cfg c n ->
  t_closed (c_t c) = false -> tstream (c_t c) = payload ++ rest -> blen payload = n ->
  let '(c', ev) := handle_bdat cfg c arg in
  ev = start_events c ++ [reply 250 (2, 0, 0)%Z (bs "Continue")] /\
  chunking c' p pan (got ++ payload) /\
  tstream (c_t c') = rest /\ t_limit (c_t c') = cf_max_line cfg /\ t_closed (c_t c') = false /\
  c_closed c' = c_closed c /\ c_rcpts c' = c_rcpts c.
Proof. exact (bdat_chunk_continue cfg c p pan got arg n payload rest). Qed.
Print Assumptions C05_chunk_continue.

Theorem C05_chunk_last cfg c p pan got arg n payload rest :
  transfer_at cfg c p pan got -> dp_stop p = None ->
  bdat_arg arg n true -> within_limit cfg c n ->
  t_closed (c_t c) = false -> tstream (c_t c) = payload ++ rest -> blen payload = n ->
  let '(c', ev) := handle_bdat cfg c arg in
  let total := got ++ payload in
  ev = start_events c ++ [EDelivery total (Some REOF) (dp_ret p) pan]
       ++ bdat_final_replies cfg p pan (c_rcpts c) total
       ++ (if pan then [ELogout; EClose] else [EReset]) /\
  tstream (c_t c') = rest /\ t_limit (c_t c') = cf_max_line cfg /\
  (if pan then c_closed c' = true
   else c_closed c' = c_closed c /\ t_closed (c_t c') = false /\ c_session c' = true /\
        c_bdat c' = None /\ c_received c' = 0%Z /\ c_from c' = false /\ c_rcpts c' = []).
Proof. exact (bdat_chunk_last cfg c p pan got arg n payload rest). Qed.
Print Assumptions C05_chunk_last.

Theorem C05_bdat_exact cfg p pan (steps : list chunk_step) (final : chunk_step) :
  dp_stop p = None ->
  Forall (step_ok false) steps -> step_ok true final ->
  forall c got,
  transfer_at cfg c p pan got ->
  (cf_max_bytes cfg = 0%Z \/
   (Z.of_N (blen got + blen (List.concat (map st_payload steps)) + blen (st_payload final))
    <= cf_max_bytes cfg)%Z) ->
  let '(c', ev) := bdat_seq cfg c (steps ++ [final]) in
  let total := got ++ List.concat (map st_payload steps) ++ st_payload final in
  ev = start_events c ++ repeat continue_reply (List.length steps)
       ++ [EDelivery total (Some REOF) (dp_ret p) pan]
       ++ bdat_final_replies cfg p pan (c_rcpts c) total
       ++ (if pan then [ELogout; EClose] else [EReset]) /\
  tstream (c_t c') = st_rest final /\ t_limit (c_t c') = cf_max_line cfg /\
  (if pan then c_closed c' = true
   else c_closed c' = c_closed c /\ t_closed (c_t c') = false /\ c_session c' = true /\
        c_bdat c' = None /\ c_received c' = 0%Z /\ c_from c' = false /\ c_rcpts c' = []).
Proof. exact (bdat_transfer_exact cfg p pan steps final). Qed.
Print Assumptions C05_bdat_exact.

(* ---- exactly one reply per BDAT command ---- *)

Theorem C05_replies_counted cfg c arg :
  count_wires (snd (handle_bdat cfg c arg)) = bdat_reply_count cfg c arg.
Proof. exact (bdat_replies_counted cfg c arg). Qed.
Print Assumptions C05_replies_counted.

Theorem C05_one_reply_smtp cfg c arg :
  cf_lmtp cfg = false -> (c_from c = true -> c_session c = true) ->
  count_wires (snd (handle_bdat cfg c arg)) = 1%nat.
Proof. exact (bdat_one_reply_smtp cfg c arg). Qed.
Print Assumptions C05_one_reply_smtp.

Theorem C05_replies_lmtp cfg c arg :
  cf_lmtp cfg = true -> (c_from c = true -> c_session c = true) ->
  count_wires (snd (handle_bdat cfg c arg))
  = match bdat_classify cfg c arg with
    | BvAccept _ true => List.length (transfer_rcpts c)
    | _ => 1%nat
    end.
Proof. exact (bdat_replies_lmtp cfg c arg). Qed.
Print Assumptions C05_replies_lmtp.

(* ---- none of this depends on the segmentation ---- *)

Theorem C05_segmentation_independent cfg c t2 arg n payload rest :
  t_closed (c_t c) = false -> t_closed t2 = false ->
  (c_from c = true -> c_session c = true) ->
  bdat_size_known arg n ->
  tstream (c_t c) = payload ++ rest -> tstream t2 = payload ++ rest -> blen payload = n ->
  let '(c1, ev1) := handle_bdat cfg c arg in
  let '(c2, ev2) := handle_bdat cfg (upd_t c t2) arg in
  ev2 = ev1 /\ same_but_t c1 c2 /\ tstream (c_t c1) = rest /\ tstream (c_t c2) = rest.
Proof. exact (bdat_segmentation_independent cfg c t2 arg n payload rest). Qed.
Print Assumptions C05_segmentation_independent.

(* ---- a raw read that fails inside an accepted chunk ---- *)

Theorem C05_failed_read_consumed cfg c arg n last :
  bdat_classify cfg c arg = BvAccept n last ->
  t_closed (c_t c) = false -> blen (tstream (c_t c)) < n ->
  let c' := fst (handle_bdat cfg c arg) in
  exists t1 tf,
    t_buf t1 = [] /\ t_raw t1 = raws_after (t_raw (c_t c)) /\ t_closed t1 = false /\ t_limit t1 = 0 /\
    (tf = t1 \/ tf = snd (t_copy_n (n - blen (tstream (c_t c))) t1)) /\
    t_buf (c_t c') = t_buf tf /\ t_raw (c_t c') = t_raw tf /\ t_limit (c_t c') = cf_max_line cfg.
Proof. exact (bdat_failed_read_consumed cfg c arg n last). Qed.
Print Assumptions C05_failed_read_consumed.

(* ---- a chunk whose declared octets cannot all be read closes the connection (F30) ---- *)

(* one failure, and the octets behind it complete the chunk (SMTP mode or a
   non-LAST chunk, backend still reading): skipped, commands resume behind them *)
Theorem C05_cut_resume cfg c p pan got arg n last p2 rest' :
  transfer_at cfg c p pan got -> dp_stop p = None ->
  bdat_arg arg n last -> within_limit cfg c n -> last && cf_lmtp cfg = false ->
  t_closed (c_t c) = false -> blen (tstream (c_t c)) < n ->
  raws_bytes (raws_after (t_raw (c_t c))) = p2 ++ rest' ->
  blen p2 = n - blen (tstream (c_t c)) ->
  tstream (c_t (fst (handle_bdat cfg c arg))) = rest' /\
  t_limit (c_t (fst (handle_bdat cfg c arg))) = cf_max_line cfg /\
  c_closed (fst (handle_bdat cfg c arg)) = c_closed c.
Proof. exact (bdat_chunk_cut_resume cfg c p pan got arg n last p2 rest'). Qed.
Print Assumptions C05_cut_resume.

(* ... they do not: closed *)
Theorem C05_cut_again cfg c p pan got arg n last :
  transfer_at cfg c p pan got -> dp_stop p = None ->
  bdat_arg arg n last -> within_limit cfg c n -> last && cf_lmtp cfg = false ->
  t_closed (c_t c) = false -> blen (tstream (c_t c)) < n ->
  blen (raws_bytes (raws_after (t_raw (c_t c)))) < n - blen (tstream (c_t c)) ->
  t_buf (c_t (fst (handle_bdat cfg c arg))) = [] /\
  t_raw (c_t (fst (handle_bdat cfg c arg))) = raws_after (raws_after (t_raw (c_t c))) /\
  c_closed (fst (handle_bdat cfg c arg)) = true /\
  t_closed (c_t (fst (handle_bdat cfg c arg))) = true /\
  c_session (fst (handle_bdat cfg c arg)) = false.
Proof. exact (bdat_chunk_cut_again cfg c p pan got arg n last). Qed.
Print Assumptions C05_cut_again.

(* every accepted chunk: SMTP and LMTP, LAST or not, ANY backend plan (reading
   on, stopped, gone, panicking) *)
Theorem C05_incomplete_chunk_closes cfg c arg n last :
  bdat_classify cfg c arg = BvAccept n last ->
  t_closed (c_t c) = false -> blen (tstream (c_t c)) < n ->
  blen (raws_bytes (raws_after (t_raw (c_t c)))) < n - blen (tstream (c_t c)) ->
  let c' := fst (handle_bdat cfg c arg) in
  c_closed c' = true /\ t_closed (c_t c') = true /\ c_session c' = false /\ c_bdat c' = None.
Proof. exact (bdat_incomplete_chunk_closes cfg c arg n last). Qed.
Print Assumptions C05_incomplete_chunk_closes.

(* every refused chunk *)
Theorem C05_incomplete_refused_closes cfg c arg n :
  match bdat_classify cfg c arg with
  | BvNoEnvelope s | BvBadLast s | BvOverLimit s => s = n
  | _ => False
  end ->
  t_closed (c_t c) = false -> blen (tstream (c_t c)) < n ->
  let c' := fst (handle_bdat cfg c arg) in
  c_closed c' = true /\ t_closed (c_t c') = true /\ c_session c' = false /\ c_bdat c' = None.
Proof. exact (bdat_incomplete_refused_closes cfg c arg n). Qed.
Print Assumptions C05_incomplete_refused_closes.

(* ... and then the command loop does nothing but the deferred Close, whatever
   is buffered or still to come on the connection *)
Theorem C05_closed_loop_stops cfg c arg n :
  (exists last, bdat_classify cfg c arg = BvAccept n last /\
                blen (raws_bytes (raws_after (t_raw (c_t c)))) < n - blen (tstream (c_t c)))
  \/ match bdat_classify cfg c arg with
     | BvNoEnvelope s | BvBadLast s | BvOverLimit s => s = n
     | _ => False
     end ->
  t_closed (c_t c) = false -> blen (tstream (c_t c)) < n ->
  let c' := fst (handle_bdat cfg c arg) in
  c_closed c' = true /\ t_closed (c_t c') = true /\
  forall fuel, serve_loop (S fuel) cfg c' = [EClose].
Proof. exact (bdat_closed_loop_stops cfg c arg n). Qed.
Print Assumptions C05_closed_loop_stops.

(* ---- non-vacuity ---- *)

(* F30: BDAT 30 with 12 octets, then the read deadline expires.  It stays
   expired (two failures in a row): accepted chunk 554 and closed, the bait
   line behind it never executed; refused chunk (no MAIL): 502 and closed.
   With ONE failure the accepted chunk's remaining 18 octets are skipped and
   NOOP, QUIT are executed. *)
Example C05_witness_incomplete_chunk :
  let chunk1 := bs "first part" ++ crlf in
  let chunk2 := bs "MAIL FROM:<x@y>" ++ crlf ++ bs "!" in
  let tail := xln "NOOP" ++ xln "QUIT" in
  let run pre fails := serve 40 (ex_cfg 0 2000) ex_be
                         [[xraw (pre ++ xln "BDAT 30" ++ chunk1)] ++ fails ++ [xraw (chunk2 ++ tail)]] in
  let sticky := run f30_prelude [RFail TTimeout; RFail TTimeout] in
  let once := run f30_prelude [RFail TTimeout] in
  let refused := run (xln "EHLO x") [RFail TTimeout] in
  blen chunk1 = 12%N /\ blen chunk2 = 18%N /\
  wire_codes sticky = map bs ["220"; "250"; "250"; "250"; "554"]%string /\
  has_mail "x@y" sticky = false /\
  skipn (List.length sticky - 3) sticky = [ELogout; EClose; EClose] /\
  wire_codes once = map bs ["220"; "250"; "250"; "250"; "554"; "250"; "221"]%string /\
  has_mail "x@y" once = false /\
  cmd_lines once = [bs "EHLO x"; bs "MAIL FROM:<a@b>"; bs "RCPT TO:<c@d>"; bs "BDAT 30"; bs "NOOP"; bs "QUIT"] /\
  wire_codes refused = map bs ["220"; "250"; "502"]%string /\
  has_mail "x@y" refused = false /\
  cmd_lines refused = [bs "EHLO x"; bs "BDAT 30"].
Proof. exact f30_bdat_witness. Qed.

(* A two-chunk transfer (7 octets holding CRLF.CRLF, then NUL, 0xFF and a
   dot; second command in lower case) through the whole server loop on three
   segmentations - one raw read, cuts inside the payloads, one octet per raw
   read: one delivery of exactly the 10 octets with end-of-file, one reply per
   command, the next command parsed is the NOOP behind the LAST chunk. *)
Example C05_witness_two_chunks :
  let run sg := serve 20 (ex_cfg 0 2000) ex_be [sg ex_stream] in
  let tr := run (seg []) in
  filter is_delivery tr = [EDelivery (ex_p1 ++ ex_p2) (Some REOF) BNil false] /\
  cmd_lines tr = [bs "EHLO x"; bs "MAIL FROM:<a@b>"; bs "RCPT TO:<c@d>"; bs "BDAT 7";
                  bs "bdat 3 last"; bs "NOOP"; bs "QUIT"] /\
  wire_codes tr = map bs ["220"; "250"; "250"; "250"; "250"; "250"; "250"; "221"]%string /\
  run (seg [50; 2; 1; 16]%nat) = tr /\ run seg1 = tr /\
  ~ In EOutOfFuel tr.
Proof. exact bdat_two_chunks_witness. Qed.

(* BDAT without MAIL: 502, the declared 17 octets "MAIL FROM:<x@y>CRLF" are
   discarded, no Mail event, the next command is NOOP *)
Example C05_witness_refused :
  let run sg := serve 20 (ex_cfg 0 2000) ex_be [sg ex_refused] in
  let tr := run (seg []) in
  cmd_lines tr = [bs "EHLO x"; bs "BDAT 17"; bs "NOOP"; bs "QUIT"] /\
  wire_codes tr = map bs ["220"; "250"; "502"; "250"; "221"]%string /\
  existsb (fun e => match e with EMail _ _ _ => true | _ => false end) tr = false /\
  run (seg [20; 5]%nat) = tr /\ run seg1 = tr /\
  (let '(c1, ev1) := handle_bdat (ex_cfg 0 2000)
       (mkC (mkT (bs "MAIL FR") [xraw (bs "OM:<x@y>" ++ crlf ++ xln "NOOP")] 7 2000 false)
            [] ex_be (bs "x") true 0 false false [] false false false None 0) (bs "17") in
   ev1 = [reply 502 (5, 5, 1)%Z (bs "Missing RCPT TO command.")] /\
   fst (conn_read_line c1) = inl (bs "NOOP")).
Proof. exact bdat_refused_witness. Qed.

(* the hypotheses of C05_bdat_exact are satisfiable; see also
   BdatProofs.bdat_handler_witness, bdat_arg_witness, bdat_over_limit_witness,
   bdat_failed_read_witness and bdat_line_limit_boundary (the F6 boundary) *)
Example C05_witness_hypotheses :
  let cfg := ex_cfg 10 2000 in
  let c := ex_conn (mkT [] [] 0 2000 false) in
  let steps := [mkStep (bs "7") ex_t1 ex_p1 (xln "BDAT 3 LAST")] in
  let final := mkStep (bs "3 LAST") ex_t2 ex_p2 (xln "NOOP") in
  dp_stop dp_default = None /\
  Forall (step_ok false) steps /\ step_ok true final /\
  transfer_at cfg c dp_default false [] /\
  (Z.of_N (blen (@nil ascii) + blen (List.concat (map st_payload steps)) + blen (st_payload final))
   <= cf_max_bytes cfg)%Z /\
  snd (bdat_seq cfg c (steps ++ [final]))
  = [EBdatStart; continue_reply; EDelivery (ex_p1 ++ ex_p2) (Some REOF) BNil false;
     reply 250 (2, 0, 0)%Z (bs "OK: queued"); EReset].
Proof. exact bdat_transfer_exact_witness. Qed.
