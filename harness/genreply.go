package harness

import (
	"errors"
	"fmt"
	"io"
	"math"
	"math/rand"
	"net/textproto"
	"strings"

	smtp "github.com/emersion/go-smtp"
)

// Case kind "reply": the server's reply rendering (writeResponse, writeError,
// dataErrorToStatus), the client's reply parsing (readResponse, toSMTPErr,
// parseEnhancedCode) and their composition, all run on the real functions.
//
//	(reply (render (code n) (ec n n n) (texts (x..))) (obs (wire x)))
//	(reply (rendererr (code n) (ec n n n) (err ..)) (obs (wire x)))
//	(reply (status (err ..)) (obs (code n) (ec n n n) (msg x)))
//	(reply (parse (wire x) (expect n)) (obs (code n) (msg x) (err ..) (rest x)))
//	(reply (pec (s x)) (obs (ec n n n) (ok t|f)))
//	(reply (tse (code n) (msg x)) (obs (code n) (ec n n n) (msg x)))
//	(reply (roundtrip (via error|data) (err ..) (expect n) (next x))
//	       (obs (wire x) (code n) (msg x) (err ..) (rest x)))
//
// err ::= nil | (smtp n (ec n n n) x) | (plain x)            (backend side)
//       | nil | (smtp ..) | (proto x) | eof | (other x)       (client side)

// ZNum writes any int (including math.MinInt64) in the n/m notation.
func ZNum(n int) *Sx {
	if n < 0 {
		return A(fmt.Sprintf("m%d", uint64(-int64(n))))
	}
	return A(fmt.Sprintf("n%d", n))
}

func ecSx(ec smtp.EnhancedCode) *Sx {
	return L(A("ec"), ZNum(ec[0]), ZNum(ec[1]), ZNum(ec[2]))
}

// backend-side error value
func berrSx(err error) *Sx {
	if err == nil {
		return L(A("err"), A("nil"))
	}
	if se, ok := err.(*smtp.SMTPError); ok {
		return L(A("err"), L(A("smtp"), ZNum(se.Code), ecSx(se.EnhancedCode), XS(se.Message)))
	}
	return L(A("err"), L(A("plain"), XS(err.Error())))
}

// client-side error value
func cerrSx(err error) *Sx {
	switch e := err.(type) {
	case nil:
		return L(A("err"), A("nil"))
	case *smtp.SMTPError:
		return L(A("err"), L(A("smtp"), ZNum(e.Code), ecSx(e.EnhancedCode), XS(e.Message)))
	case textproto.ProtocolError:
		return L(A("err"), L(A("proto"), XS(string(e))))
	}
	if err == io.EOF {
		return L(A("err"), A("eof"))
	}
	return L(A("err"), L(A("other"), XS(err.Error())))
}

func emitRender(emit func(*Sx), code int, ec smtp.EnhancedCode, texts []string) {
	wire := smtp.VerifWriteResponse(code, ec, texts...)
	tx := L(A("texts"))
	l := L()
	for _, t := range texts {
		l.Add(XS(t))
	}
	tx.Add(l)
	emit(L(A("reply"),
		L(A("render"), L(A("code"), ZNum(code)), ecSx(ec), tx),
		L(A("obs"), L(A("wire"), X(wire)))))
}

func emitRenderErr(emit func(*Sx), code int, ec smtp.EnhancedCode, err error) {
	wire := smtp.VerifWriteError(code, ec, err)
	emit(L(A("reply"),
		L(A("rendererr"), L(A("code"), ZNum(code)), ecSx(ec), berrSx(err)),
		L(A("obs"), L(A("wire"), X(wire)))))
}

func emitStatus(emit func(*Sx), err error) {
	c, ec, m := smtp.VerifDataErrorToStatus(err)
	emit(L(A("reply"),
		L(A("status"), berrSx(err)),
		L(A("obs"), L(A("code"), ZNum(c)), ecSx(ec), L(A("msg"), XS(m)))))
}

func emitParse(emit func(*Sx), wire []byte, expect int) {
	code, msg, err, rest := smtp.VerifReadResponse(wire, expect)
	emit(L(A("reply"),
		L(A("parse"), L(A("wire"), X(wire)), L(A("expect"), ZNum(expect))),
		L(A("obs"), L(A("code"), ZNum(code)), L(A("msg"), XS(msg)), cerrSx(err), L(A("rest"), X(rest)))))
}

func emitPec(emit func(*Sx), s string) {
	ec, err := smtp.VerifParseEnhancedCode(s)
	emit(L(A("reply"),
		L(A("pec"), L(A("s"), XS(s))),
		L(A("obs"), ecSx(ec), L(A("ok"), B(err == nil)))))
}

func emitTse(emit func(*Sx), code int, msg string) {
	se := smtp.VerifToSMTPErr(code, msg)
	emit(L(A("reply"),
		L(A("tse"), L(A("code"), ZNum(code)), L(A("msg"), XS(msg))),
		L(A("obs"), L(A("code"), ZNum(se.Code)), ecSx(se.EnhancedCode), L(A("msg"), XS(se.Message)))))
}

// roundtrip: the backend error is rendered by the real server function (via
// writeError with the 451 4.0.0 defaults of MAIL/RCPT/NewSession, or via
// dataErrorToStatus + writeResponse as handleData does), followed on the wire
// by [next]; the real client function parses it.
func emitRoundtrip(emit func(*Sx), via string, berr error, expect int, next string) {
	var wire []byte
	if via == "data" {
		c, ec, m := smtp.VerifDataErrorToStatus(berr)
		wire = smtp.VerifWriteResponse(c, ec, m)
	} else {
		wire = smtp.VerifWriteError(451, smtp.EnhancedCode{4, 0, 0}, berr)
	}
	stream := append(append([]byte{}, wire...), next...)
	code, msg, err, rest := smtp.VerifReadResponse(stream, expect)
	emit(L(A("reply"),
		L(A("roundtrip"), L(A("via"), A(via)), berrSx(berr), L(A("expect"), ZNum(expect)), L(A("next"), XS(next))),
		L(A("obs"), L(A("wire"), X(wire)), L(A("code"), ZNum(code)), L(A("msg"), XS(msg)), cerrSx(err), L(A("rest"), X(rest)))))
}

// message line shapes named by the property: empty, leading/trailing space,
// text that looks like an enhanced code, non-ASCII, plus look-alikes of reply
// lines.
var replyLinePool = []string{
	"", " ", "x", "no such user", " lead", "trail ", "  two  ",
	"5.1.1 x", "5.1.1", "5.1.1 ", "4.0.0 look", "5.0.0 default", "-1.-1.-1 z", "+5.1.1 s", "5.1 x", "5.1.1.1 x",
	"na\xc3\xafve \xc3\xbc", "\xe6\x97\xa5\xe6\x9c\xac", "a  b", "tab\tx",
	"550 5.1.1 fake", "550-fake", "250 ok", ".", "5.1.1  two",
}

var replyEcPool = []smtp.EnhancedCode{
	smtp.EnhancedCodeNotSet, smtp.NoEnhancedCode,
	{2, 0, 0}, {4, 0, 0}, {5, 0, 0}, {5, 1, 1}, {4, 4, 5}, {5, 7, 0}, {5, 3, 4}, {4, 7, 123}, {5, 999, 999},
	{5, 1, 0}, {0, 0, 1}, {2, 1, 5}, {-1, -1, 0}, {5, -1, 1}, {7, 1, 1},
}

var replyCodePool = []int{400, 421, 450, 451, 452, 499, 500, 501, 550, 552, 554, 599}
var replyExpectPool = []int{250, 354, 25, 220, 0, 235, 2, 221, 501}

func randEc(rng *rand.Rand, code int) smtp.EnhancedCode {
	switch rng.Intn(10) {
	case 0:
		return smtp.EnhancedCodeNotSet
	case 1:
		return smtp.NoEnhancedCode
	case 2:
		return replyEcPool[rng.Intn(len(replyEcPool))]
	case 3:
		return smtp.EnhancedCode{rng.Intn(9) - 2, rng.Intn(1200) - 100, rng.Intn(1200) - 100}
	case 4:
		big := []int{math.MaxInt64, math.MinInt64, math.MaxInt64 - 1, 1 << 40, -(1 << 40), 999999999999999999, 1000000000000000000}
		return smtp.EnhancedCode{code / 100, big[rng.Intn(len(big))], big[rng.Intn(len(big))]}
	default:
		return smtp.EnhancedCode{code / 100, rng.Intn(8), rng.Intn(30)}
	}
}

func randLine(rng *rand.Rand) string {
	switch rng.Intn(6) {
	case 0:
		// random printable
		n := rng.Intn(12)
		b := make([]byte, n)
		for i := range b {
			b[i] = byte(32 + rng.Intn(95))
		}
		return string(b)
	case 1:
		// any octets but LF (CR, NUL, 8-bit included)
		n := rng.Intn(8)
		b := make([]byte, n)
		for i := range b {
			b[i] = byte(rng.Intn(256))
			if b[i] == '\n' {
				b[i] = '\r'
			}
		}
		return string(b)
	default:
		return replyLinePool[rng.Intn(len(replyLinePool))]
	}
}

func randMsg(rng *rand.Rand, maxLines int) string {
	n := 1 + rng.Intn(maxLines)
	ls := make([]string, n)
	for i := range ls {
		ls[i] = randLine(rng)
	}
	return strings.Join(ls, "\n")
}

// wire line pool for the client parser
var wireLinePool = []string{
	"250 ok", "250-ok", "250 2.0.0 OK", "250-2.0.0 one", "550 5.1.1 x", "550-5.1.1 x", "550-5.1.1 y z", "551-5.1.1 y", "551 5.1.1 y",
	"550", "55", "5", "", " ", "550 ", "550-", "550  5.1.1 x", "550 5.1.1  x ", "550 5.1 x", "550 5.1.1.1 x",
	"+12 x", "-12 x", "+12-x", "-12-x", "+99 x", "099 a", "099-a", "100 a", "100-a", "abc d", "abc-d", "0x1 a", "1_0 a", " 50 a", "50  a",
	"550 +5.-1.+1 x", "550 5.1.99999999999999999999 x", "550 9223372036854775807.0.-9223372036854775808 x",
	"550 9223372036854775808.0.0 x", "550 -9223372036854775809.0.0 x", "550 000000000000000000000005.01.1 x",
	"550 5.1.1", "550-5.1.1", "550 5.1.1\tx", "550\tx", "5500 x", "550x", "550 5..1 x", "550 .5.1 x", "550 5.1. x", "550 ..  x", "550 - x", "550 +.+.+ x",
	"550 5.1.1 5.1.1 x", "354 go", "354-go", "220 hi", "235 2.7.0 ok", "999 z", "999-z", "\xd9\xa5\xd9\xa5\xd9\xa0 x",
	"550-5.1.1", "550 5.1.1 ", "550-5.1.1 ", "550 4.0.0 other", "550-4.0.0 other",
}
var wireTermPool = []string{"\r\n", "\r\n", "\r\n", "\n", "\r\r\n", "\r", "", "\n\r", " \r\n"}
var wireExpectPool = []int{0, 2, 5, 25, 55, 250, 354, 550, 220, 235, 999, 1000, -1, 9, 10, 99, 100}

func GenReply(rng *rand.Rand, thorough bool, emit func(*Sx)) {
	scale := 1
	if thorough {
		scale = 20
	}

	// ---- (1) server rendering ----
	// exhaustive: codes x ec pool x one/two texts from a small pool
	small := []string{"", "x", " a ", "5.1.1 x", "l1\nl2", "\n", "a\n", "\nb", "a\r\nb", "\xc3\xbc"}
	for _, code := range []int{250, 354, 451, 550} {
		for _, ec := range replyEcPool {
			for _, t := range small {
				emitRender(emit, code, ec, []string{t})
			}
		}
	}
	for _, a := range small {
		for _, b := range small {
			emitRender(emit, 250, smtp.EnhancedCodeNotSet, []string{a, b})
		}
	}
	codes := []int{200, 211, 220, 221, 250, 251, 334, 354, 421, 450, 451, 452, 500, 501, 502, 503, 504, 550, 551, 552, 553, 554, 555, 599, 100, 199, 600, 999, 0, 7, 42, 1000, -5}
	for i := 0; i < 300*scale; i++ {
		code := codes[rng.Intn(len(codes))]
		if rng.Intn(4) == 0 {
			code = 100 + rng.Intn(900)
		}
		nt := 1 + rng.Intn(3)
		texts := make([]string, nt)
		for j := range texts {
			texts[j] = randMsg(rng, 2)
		}
		emitRender(emit, code, randEc(rng, code), texts)
	}
	for i := 0; i < 150*scale; i++ {
		code := replyCodePool[rng.Intn(len(replyCodePool))]
		var err error
		switch rng.Intn(3) {
		case 0:
			err = errors.New(randMsg(rng, 2))
		default:
			err = &smtp.SMTPError{Code: code, EnhancedCode: randEc(rng, code), Message: randMsg(rng, 3)}
		}
		dc := []int{451, 554, 550, 500}[rng.Intn(4)]
		emitRenderErr(emit, dc, smtp.EnhancedCode{dc / 100, 0, 0}, err)
		emitStatus(emit, err)
	}
	emitStatus(emit, nil)

	// ---- (2) client parsing ----
	// exhaustive over a small alphabet
	alpha := []byte{'2', '5', '0', ' ', '-', '\r', '\n', '+'}
	maxLen := 4
	if thorough {
		maxLen = 6
	}
	var rec func(prefix []byte)
	rec = func(prefix []byte) {
		if len(prefix) > 0 {
			emitParse(emit, prefix, []int{250, 0, 2}[len(prefix)%3])
		}
		if len(prefix) == maxLen {
			return
		}
		for _, c := range alpha {
			rec(append(append([]byte{}, prefix...), c))
		}
	}
	if thorough {
		rec(nil)
	} else {
		// quick: lengths 1..3 exhaustively, a sample of length 4..5
		maxLen = 3
		rec(nil)
		for i := 0; i < 300; i++ {
			n := 4 + rng.Intn(2)
			b := make([]byte, n)
			for j := range b {
				b[j] = alpha[rng.Intn(len(alpha))]
			}
			emitParse(emit, b, []int{250, 0, 2}[i%3])
		}
	}
	emitParse(emit, nil, 250)
	// every pool line alone and as continuation of a 550- line
	for _, l := range wireLinePool {
		for _, term := range []string{"\r\n", "\n", ""} {
			emitParse(emit, []byte(l+term+"250 next\r\n"), 250)
			emitParse(emit, []byte("550-5.1.1 first\r\n"+l+term+"550 5.1.1 last\r\nrest"), 250)
		}
	}
	// structured: 1..4 lines from the pool with assorted terminators
	for i := 0; i < 800*scale; i++ {
		n := 1 + rng.Intn(4)
		var sb strings.Builder
		for j := 0; j < n; j++ {
			sb.WriteString(wireLinePool[rng.Intn(len(wireLinePool))])
			if rng.Intn(8) == 0 {
				sb.WriteString(randLine(rng))
			}
			sb.WriteString(wireTermPool[rng.Intn(len(wireTermPool))])
		}
		emitParse(emit, []byte(sb.String()), wireExpectPool[rng.Intn(len(wireExpectPool))])
	}
	// garbage
	for i := 0; i < 200*scale; i++ {
		n := rng.Intn(40)
		b := make([]byte, n)
		for j := range b {
			switch rng.Intn(4) {
			case 0:
				b[j] = byte(rng.Intn(256))
			case 1:
				b[j] = "\r\n -"[rng.Intn(4)]
			default:
				b[j] = byte('0' + rng.Intn(10))
			}
		}
		emitParse(emit, b, wireExpectPool[rng.Intn(len(wireExpectPool))])
	}
	// the pure functions
	pecPool := []string{"", ".", "..", "...", "5.1.1", "5.1", "5.1.1.1", "+5.-1.+0", "5.1.x", "x.1.1", "5.x.1", " 5.1.1", "5.1.1 ",
		"9223372036854775807.9223372036854775808.1", "1.-9223372036854775808.-9223372036854775809", "00.01.002", "5.1.1\n", "-.1.1", "+.1.1", "5._.1", "1_0.1.1", "0x5.1.1",
		"999999999999999999.1000000000000000000.0000000000000000000000000000001", "\xd9\xa5.1.1"}
	for _, s := range pecPool {
		emitPec(emit, s)
		emitTse(emit, 550, s+" text")
		emitTse(emit, 550, s+" a\n"+s+" b\n"+s+"  c\nd "+s+" \n"+s)
		emitTse(emit, 451, s)
	}
	for i := 0; i < 200*scale; i++ {
		ec := randEc(rng, 500)
		s := fmt.Sprintf("%v.%v.%v", ec[0], ec[1], ec[2])
		emitPec(emit, s)
		emitTse(emit, 100+rng.Intn(900), s+" "+randMsg(rng, 3))
		emitTse(emit, 100+rng.Intn(900), randMsg(rng, 3))
	}

	// ---- (3) round trip ----
	mk := func(code int, ec smtp.EnhancedCode, msg string) error {
		return &smtp.SMTPError{Code: code, EnhancedCode: ec, Message: msg}
	}
	// exhaustive: pool lines as 1-line messages, and pairs, for a few code / ec
	ecs := []smtp.EnhancedCode{smtp.EnhancedCodeNotSet, smtp.NoEnhancedCode, {5, 1, 1}, {4, 0, 0}}
	for _, l := range replyLinePool {
		for _, ec := range ecs {
			emitRoundtrip(emit, "error", mk(550, ec, l), 250, "")
			emitRoundtrip(emit, "data", mk(451, ec, l), 250, "250 2.0.0 OK\r\n")
		}
		emitRoundtrip(emit, "error", errors.New(l), 250, "")
		emitRoundtrip(emit, "data", errors.New(l), 250, "")
	}
	for i, a := range replyLinePool {
		for j, b := range replyLinePool {
			if !thorough && (i*7+j)%5 != 0 {
				continue
			}
			ec := ecs[(i+j)%len(ecs)]
			emitRoundtrip(emit, []string{"error", "data"}[(i+j)%2], mk(replyCodePool[(i*3+j)%len(replyCodePool)], ec, a+"\n"+b), 250, "")
		}
	}
	nexts := []string{"", "250 2.0.0 OK\r\n", "garbage", "550-5.1.1 more\r\n", "\r\n", "\n"}
	for i := 0; i < 900*scale; i++ {
		code := replyCodePool[rng.Intn(len(replyCodePool))]
		if rng.Intn(3) == 0 {
			code = 400 + rng.Intn(200)
		}
		ec := randEc(rng, code)
		if rng.Intn(3) == 0 {
			ec = replyEcPool[rng.Intn(len(replyEcPool))]
		}
		maxl := 3
		if thorough && rng.Intn(4) == 0 {
			maxl = 6
		}
		msg := randMsg(rng, maxl)
		if rng.Intn(6) == 0 && ec != smtp.NoEnhancedCode {
			// a line that starts with the reply's own enhanced code
			d := ec
			if d == smtp.EnhancedCodeNotSet {
				d = smtp.EnhancedCode{code / 100, 0, 0}
			}
			msg = msg + "\n" + fmt.Sprintf("%v.%v.%v ", d[0], d[1], d[2]) + randLine(rng)
		}
		var berr error = mk(code, ec, msg)
		if rng.Intn(8) == 0 {
			berr = errors.New(msg)
		}
		expect := replyExpectPool[rng.Intn(len(replyExpectPool))]
		if rng.Intn(12) == 0 {
			expect = code
		}
		emitRoundtrip(emit, []string{"error", "data"}[rng.Intn(2)], berr, expect, nexts[rng.Intn(len(nexts))])
	}
}
