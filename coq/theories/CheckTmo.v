(* kind tmo: Server.ReadTimeout expires inside a message body - the real
   server on a real socket (TCP loopback or net.Pipe), a scripted client that
   stops in the middle of a DATA message or a BDAT chunk, waits for the
   server's error reply (or, for a refused chunk, for the server's read to
   fail) and then sends the rest: bait command lines, the end of the message,
   commands (harness/gentmo.go).  Control cases pause for a fraction of the
   time-out instead.

   No model is run.  The scripted transport of Transport.v delivers a failure
   once ([RFail e] is consumed by the read that sees it) and then goes on with
   the schedule; an expired deadline on a real net.Conn makes EVERY read fail
   until the deadline is armed again, which the command loop does before it
   reads the next line.  That difference is a limit of the transport model;
   this kind covers the sticky case on real sockets and judges the RECORDED
   behaviour with the oracles of CheckOracle.v:

   * the expectations stated by the generator from the property text: no bait
     address (a line of the message) ever reaches Mail/Rcpt (C02 for DATA, C05
     for BDAT); no reader reports end-of-file and no positive final reply is
     sent for the message that timed out (C07); the exact list of reply
     codes; in the control cases the whole message is delivered with
     end-of-file and the commands behind it are executed;
   * after the reply to the message that timed out the server says nothing
     more and closes the connection (the client sees the end of the stream
     and received nothing after it sent the rest);
   * the session monitor (callback order C03, exactly one Logout and nothing
     after a closing reply C08), the verdict oracle (C04), the size oracle
     (C06), reply syntax (C04), no recovered panic (C19). *)
From Smtp Require Import Bytes Sx GoStrings Transport DataReader Reply Lmtp Conn CheckBase CheckOracle CheckConv.

Definition tmo_flag (k : string) (obs : list sx) : bool :=
  match assoc1 k obs with Some w => sx_is "t" w | None => false end.

Definition tmo_atom (k : string) (l : list sx) : bytes :=
  match assoc1 k l with Some (SA a) => a | _ => bs "unknown" end.

(* "(msg-negative <before> <count>)": the replies number before+1 .. before+count
   on the wire - the replies to the message that timed out - exist and are all
   negative (C07: no positive final reply for an incomplete message) *)
Definition msg_negative_ok (expect : list sx) (evs : list event) : bool :=
  match assoc "msg-negative" expect with
  | Some [b; n] =>
      match sx_nat b, sx_nat n with
      | Some b, Some n =>
          let mine := firstn n (skipn b (reply_codes (all_wire evs))) in
          (List.length mine =? n)%nat && forallb (fun c => (400 <=? c)%N) mine
      | _, _ => false
      end
  | _ => true
  end.

Definition check_tmo (args : list sx) : verdict :=
  match assoc "cfg" args, assoc1 "expire" args, assoc "obs" args with
  | Some cfga, Some ex, Some obs =>
      match dec_cfg cfga, sx_bool ex,
            assoc1 "events" obs, assoc1 "deliveries" obs, assoc1 "panics" obs with
      | Some cfg, Some expire, Some (SL evx), Some (SL delx), Some px =>
          match map_opt dec_event evx, map_opt dec_event delx, sx_N px with
          | Some evs, Some dels, Some panics =>
              let expect := match assoc "expect" args with Some e => e | None => [] end in
              let focus := focus_of expect in
              (* the scenario was played to its end (otherwise the case says nothing: reported as a
                 disagreement, not as a violation) *)
              let ran := match assoc1 "step" obs with Some s => sx_is "done" s | None => false end in
              let after_empty :=
                match assoc1 "after" obs with
                | Some a => match sx_bytes a with Some [] => true | _ => false end
                | None => false
                end in
              (* the connection was closed by the server; when the time-out struck, without another word *)
              let close_ok := tmo_flag "closed" obs && (negb expire || after_empty) in
              (* control cases (nothing times out): the replies the CLIENT received are the expected ones -
                 a reply that the server believes it has written but that never arrived is a lost reply *)
              let received_ok :=
                if expire then true
                else match assoc1 "received" obs, assoc1 "expect-codes" expect with
                     | Some r, Some (SL l) =>
                         match sx_bytes r, map_opt sx_N l with
                         | Some rb, Some want => if list_eq_dec N.eq_dec (reply_codes rb) want then true else false
                         | _, _ => true
                         end
                     | _, _ => true
                     end in
              let '(syn_viol, syn_kf) := oracle_syntax true evs in
              let viol :=
                dedup (oracle_sessions cfg evs ++ oracle_size cfg (evs ++ dels)
                       ++ oracle_verdict (cf_lmtp cfg) evs ++ oracle_incomplete (cf_lmtp cfg) evs
                       ++ oracle_panics panics false
                       ++ oracle_bait evs
                       ++ focus_oracle expect evs dels
                       ++ (if msg_negative_ok expect evs then [] else [bs "C07"])
                       ++ (if close_ok || negb ran then [] else [focus])
                       ++ (if received_ok || negb ran then [] else [focus; bs "C04"; bs "C17"])
                       ++ (if tmo_flag "waited" obs then [] else [bs "C08"; bs "C20"])
                       ++ (if tmo_flag "served" obs then [] else [bs "C04"; bs "C20"])
                       ++ syn_viol) in
              mkV true ran (SL []) viol syn_kf
                  ([bs "focus-" ++ focus; bs "tmo-" ++ tmo_atom "name" args;
                    bs "transport-" ++ tmo_atom "transport" args;
                    if expire then bs "expire" else bs "control";
                    if cf_lmtp cfg then bs "lmtp" else bs "smtp"]
                   ++ (if existsb (fun e => match e with EData _ _ _ _ => true | _ => false end) evs then [bs "data"] else [])
                   ++ (if existsb (fun e => match e with EDelivery _ _ _ _ => true | _ => false end) dels then [bs "bdat"] else []))
          | _, _, _ => bad_case
          end
      | _, _, _, _, _ => bad_case
      end
  | _, _, _ => bad_case
  end.
