package harness

import (
	"io"
	"bytes"
	"context"
	"fmt"
	"math/rand"
	"runtime"
	"sort"
	"strings"
	"sync"
	"time"

	smtp "github.com/emersion/go-smtp"
)

// Cfg mirrors the Server fields that influence behaviour.
type Cfg struct {
	LMTP        bool
	TLSConfig   bool
	Domain      string
	MaxRcpt     int
	MaxBytes    int64
	MaxLine     int
	Insecure    bool
	UTF8        bool
	RequireTLS  bool
	BinaryMIME  bool
	DSN         bool
	RRVS        bool
	LMTPSession bool
	Auth        []string // nil: no AuthSession
	HasAuth     bool
	ImplicitTLS bool
	// Timeouts: Server.ReadTimeout and WriteTimeout are set (to an hour: nothing ever expires on a scripted
	// connection, which ignores deadlines, but every code path that is taken only with a time-out configured runs)
	Timeouts bool
}

func DefaultCfg() Cfg { return Cfg{Domain: "d", MaxLine: 2000} }

func (c Cfg) Sx() *Sx {
	auth := A("none")
	if c.HasAuth {
		l := L()
		for _, m := range c.Auth {
			l.Add(XS(m))
		}
		auth = l
	}
	x := L(A("cfg"),
		L(A("lmtp"), B(c.LMTP)), L(A("tlscfg"), B(c.TLSConfig)), L(A("domain"), XS(c.Domain)),
		L(A("maxrcpt"), Num(int64(c.MaxRcpt))), L(A("maxbytes"), Num(c.MaxBytes)), L(A("maxline"), Num(int64(c.MaxLine))),
		L(A("insecure"), B(c.Insecure)), L(A("utf8"), B(c.UTF8)), L(A("requiretls"), B(c.RequireTLS)),
		L(A("binarymime"), B(c.BinaryMIME)), L(A("dsn"), B(c.DSN)), L(A("rrvs"), B(c.RRVS)),
		L(A("lmtpsession"), B(c.LMTPSession)), L(A("auth"), auth), L(A("implicittls"), B(c.ImplicitTLS)))
	if c.Timeouts {
		x.Add(L(A("timeouts"), B(true)))
	}
	return x
}

// ConvCase is one scripted conversation with a server.
type ConvCase struct {
	Cfg    Cfg
	Script Script
	Phases [][]Raw // phase 0 plaintext (or the only phase under implicit TLS); later phases after STARTTLS
	Extra  []*Sx   // expectations stated by the generator (focus, expect-codes, ...), passed through to the oracle
	PanicAt map[string]int // backend callbacks that panic (such cases carry (nomodel): judged by the oracles only)
	CloseAt map[string]int // backend callbacks in which Server.Close is called from another goroutine (closeat.go; (nomodel))
}

type logWriter struct {
	mu    sync.Mutex
	lines []string
}

func (l *logWriter) Printf(format string, v ...interface{}) {
	l.mu.Lock()
	l.lines = append(l.lines, fmt.Sprintf(format, v...))
	l.mu.Unlock()
}
func (l *logWriter) Println(v ...interface{}) {
	l.mu.Lock()
	l.lines = append(l.lines, fmt.Sprintln(v...))
	l.mu.Unlock()
}
func (l *logWriter) count(sub string) int {
	l.mu.Lock()
	defer l.mu.Unlock()
	n := 0
	for _, s := range l.lines {
		if strings.Contains(s, sub) {
			n++
		}
	}
	return n
}

// stuckConversations counts conversations in which the connection handler did not finish.
var stuckConversations int

// RunConv runs the real server on the scripted connection and returns the case
// line (inputs as actually delivered + observed behaviour).
func RunConv(c ConvCase) *Sx {
	be := &RecBackend{script: cloneScript(c.Script), LMTPSess: c.Cfg.LMTPSession, PanicAt: c.PanicAt}
	if c.Cfg.HasAuth {
		be.AuthMechs = c.Cfg.Auth
		if be.AuthMechs == nil {
			be.AuthMechs = []string{}
		}
	}
	s := smtp.NewServer(be)
	be.CloseAt, be.CloseFn = c.CloseAt, s.Close
	lg := &logWriter{}
	s.ErrorLog = lg
	s.Domain = c.Cfg.Domain
	s.LMTP = c.Cfg.LMTP
	s.MaxRecipients = c.Cfg.MaxRcpt
	s.MaxMessageBytes = c.Cfg.MaxBytes
	s.MaxLineLength = c.Cfg.MaxLine
	s.AllowInsecureAuth = c.Cfg.Insecure
	s.EnableSMTPUTF8 = c.Cfg.UTF8
	s.EnableREQUIRETLS = c.Cfg.RequireTLS
	s.EnableBINARYMIME = c.Cfg.BinaryMIME
	s.EnableDSN = c.Cfg.DSN
	if c.Cfg.Timeouts {
		s.ReadTimeout, s.WriteTimeout = time.Hour, time.Hour
		s.Debug = io.Discard // a debug transcript is being written as well
	}
	s.EnableRRVS = c.Cfg.RRVS

	var phases [][]Raw
	served := true
	// goroutines of go-smtp left behind by an EARLIER conversation (only possible when the code under
	// test is broken) must not stall this one: do not synchronise on them
	be.NoSync = smtpGoroutinesAlive()
	if stuckConversations >= 3 {
		// the implementation keeps hanging: stop burning the time budget, report what was observed
		return nil
	}
	if c.Cfg.TLSConfig || c.Cfg.ImplicitTLS {
		phases, served = runTLSConvImpl(s, be, c)
	} else {
		sc := NewScriptConn(c.Phases[0])
		sc.OnWrite = func(p []byte) { be.AddWire(p); be.maybeCloseWire(p); be.waitClose(); be.SyncPoint() }
		sc.OnRead = be.SyncPoint
		be.Baseline = runtime.NumGoroutine() + 2 // the connection goroutine and Shutdown waiter (Serve itself returns early)
		if c.CloseAt != nil {
			served = serveUntilHandled(s, sc)
		} else {
			served = serveOne(s, sc)
		}
		phases = [][]Raw{append(append([]Raw(nil), sc.Log...), sc.Remaining()...)}
	}
	okWait := !be.NoSync && be.Wait()
	if be.NoSync {
		okWait = served
	}
	if !served {
		stuckConversations++
	}

	be.mu.Lock()
	evs := L()
	for _, e := range be.Events {
		evs.Add(e)
	}
	dels := make([]string, 0, len(be.Deliveries))
	for _, d := range be.Deliveries {
		dels = append(dels, d.String())
	}
	be.mu.Unlock()
	sort.Strings(dels)
	dl := L()
	for _, d := range dels {
		dl.Add(A(d)) // already rendered
	}
	ph := L()
	for _, p := range phases {
		ph.Add(RawsSx(p))
	}
	res := L(A("conv"), c.Cfg.Sx(), c.Script.Sx(), L(A("phases"), ph),
		L(A("obs"), L(A("events"), evs), L(A("deliveries"), dl),
			L(A("panics"), Num(int64(lg.count("panic serving")))), L(A("waited"), B(okWait)), L(A("served"), B(served))))
	if len(c.Extra) > 0 {
		res.Add(L(append([]*Sx{A("expect")}, c.Extra...)...))
	}
	return res
}

func cloneScript(s Script) Script {
	return Script{
		NS:   append([]BErr(nil), s.NS...),
		Mail: append([]BErr(nil), s.Mail...),
		Rcpt: append([]BErr(nil), s.Rcpt...),
		Data: append([]DataPlan(nil), s.Data...),
		Auth: append([]AuthPlan(nil), s.Auth...),
	}
}

// serveOne runs Server.Serve on a listener that yields the one connection and
// returns when the connection has been handled.
func serveOne(s *smtp.Server, conn netConn) bool {
	return serveOn(s, newOneListener(conn), conn)
}

func serveOn(s *smtp.Server, l *oneListener, conn netConn) bool {
	done := make(chan struct{})
	go func() {
		s.Serve(l)
		close(done)
	}()
	<-l.accepted
	// Shutdown must not run before Serve has registered the connection's
	// goroutine: wait for the greeting (or for the connection to end)
	select {
	case <-l.conn.written:
	case <-l.conn.closed:
	case <-time.After(10 * time.Second):
	}
	ctx, cancel := context.WithTimeout(context.Background(), 8*time.Second)
	defer cancel()
	// Shutdown closes the listener and waits for the connection's goroutine
	err := s.Shutdown(ctx)
	<-done
	if err != nil {
		conn.Close()
		return false
	}
	return true
}

var _ = bytes.Equal
var _ = rand.Int
