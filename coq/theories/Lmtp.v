(* conn.go: statusCollector (createStatusCollector, SetStatus, fillRemaining)
   and the emission of one status per recipient. A channel with buffer size n
   is a FIFO of capacity n. *)
From Smtp Require Import Bytes Reply.

(* per distinct address: capacity and queued statuses (oldest first) *)
Definition collector := list (bytes * (nat * list berr)).

Fixpoint coll_add_rcpt (a : bytes) (c : collector) : collector :=
  match c with
  | [] => [(a, (1, []))]
  | (a', (n, q)) :: r =>
      if bytes_eqb a a' then (a', (S n, q)) :: r else (a', (n, q)) :: coll_add_rcpt a r
  end.

(* createStatusCollector *)
Definition mk_collector (rcpts : list bytes) : collector :=
  fold_left (fun c a => coll_add_rcpt a c) rcpts [].

(* SetStatus: None = panic (unknown recipient, or more statuses than
   occurrences of the recipient) *)
Fixpoint set_status (a : bytes) (e : berr) (c : collector) : option collector :=
  match c with
  | [] => None
  | (a', (n, q)) :: r =>
      if bytes_eqb a a' then
        if (List.length q <? n)%nat then Some ((a', (n, q ++ [e])) :: r) else None
      else option_map (cons (a', (n, q))) (set_status a e r)
  end.

(* fillRemaining: fill every channel up to its capacity *)
Definition fill_remaining (e : berr) (c : collector) : collector :=
  map (fun '(a, (n, q)) => (a, (n, q ++ repeat e (n - List.length q)))) c.

(* <-status.status[i]: take the oldest status queued for the address;
   None = the receive would block *)
Fixpoint pop_status (a : bytes) (c : collector) : option (berr * collector) :=
  match c with
  | [] => None
  | (a', (n, q)) :: r =>
      if bytes_eqb a a' then
        match q with
        | e :: q' => Some (e, (a', (n, q')) :: r)
        | [] => None
        end
      else match pop_status a r with
           | Some (e, r') => Some (e, (a', (n, q)) :: r')
           | None => None
           end
  end.

(* the statuses handed out for the recipients, in RCPT order, once no more
   status will be set *)
Fixpoint emit_statuses (rcpts : list bytes) (c : collector) : list (bytes * berr) :=
  match rcpts with
  | [] => []
  | a :: r =>
      match pop_status a c with
      | Some (e, c') => (a, e) :: emit_statuses r c'
      | None => []    (* would block; excluded by emit_complete *)
      end
  end.

(* run the backend's SetStatus calls; stop at the first one that panics *)
Fixpoint run_statuses (calls : list (bytes * berr)) (c : collector) : collector * bool :=
  match calls with
  | [] => (c, false)
  | (a, e) :: r =>
      match set_status a e c with
      | Some c' => run_statuses r c'
      | None => (c, true)
      end
  end.

(* Final statuses of an LMTP delivery by a per-recipient backend that issues
   [calls] and then returns [ret] (or panics when [panic]); the boolean tells
   whether a panic happened. *)
Definition lmtp_statuses (rcpts : list bytes) (calls : list (bytes * berr)) (ret : berr) (panic : bool)
  : list (bytes * berr) * bool :=
  let '(c, p) := run_statuses calls (mk_collector rcpts) in
  if p || panic then (emit_statuses rcpts (fill_remaining err_panic c), true)
  else (emit_statuses rcpts (fill_remaining ret c), false).
