(* C14, helper file 5: the utf-8-addr-unitext form of a text contains no
   Unicode white space (in the sense of Go's unicode.IsSpace, used by
   strings.Fields and strings.TrimSpace on the server): ASCII white space and
   the nineteen non-ASCII White_Space code points (Xtext.uspace_cps) are
   written as \x{HEX}, and the UTF-8 form of any other non-ASCII scalar value
   starts no white space.  [unitext_ws_free] discharges the [ws_free]
   obligation of the line-level theorem for EVERY text of the domain. *)
From Smtp Require Import Bytes GoStrings Utf8 Xtext Utf8Proofs XtextProofs ReplyProofs C14Line.
From Coq Require Import Lia ZifyBool ZifyN.
Local Open Scope char_scope.

(* Xtext.uspace_cps are the code points of GoStrings.uni_spaces *)
Lemma uni_spaces_encode : map utf8_encode uspace_cps = uni_spaces.
Proof. vm_compute. reflexivity. Qed.

Lemma uspace_cps_valid : forallb utf8_valid_cp uspace_cps = true.
Proof. vm_compute. reflexivity. Qed.

Lemma utf8_encode_shape cp :
  (128 <= cp)%N -> utf8_valid_cp cp = true ->
  exists b0 t, utf8_encode cp = b0 :: t /\ forallb is_cont t = true /\ is_ascii_space b0 = false.
Proof.
  intros Hlo Hv. unfold utf8_encode. rewrite Hv. unfold utf8_valid_cp in Hv.
  assert (Cont : forall x, (x < 64)%N -> is_cont (n_byte (128 + x)) = true).
  { intros x Hx. unfold is_cont, in_range. rewrite byte_n_n_byte by lia. lia. }
  assert (Lead : forall x, (192 <= x < 256)%N -> is_ascii_space (n_byte x) = false).
  { intros x Hx. unfold is_ascii_space, in_range. rewrite byte_n_n_byte by lia.
    destruct (Ascii.eqb (n_byte x) " ") eqn:E.
    - apply Ascii.eqb_eq in E. apply (f_equal byte_n) in E. rewrite byte_n_n_byte in E by lia.
      vm_compute in E. lia.
    - lia. }
  unfold utf8_encode_raw.
  destruct (N.ltb_spec cp 128) as [H1|H1]; [lia|].
  destruct (N.ltb_spec cp 2048) as [H2|H2].
  { eexists; eexists; split; [reflexivity|]. split.
    - cbn [forallb]. rewrite Cont by (apply N.mod_lt; lia). reflexivity.
    - apply Lead. lia. }
  destruct (N.ltb_spec cp 65536) as [H3|H3].
  { eexists; eexists; split; [reflexivity|]. split.
    - cbn [forallb]. rewrite !Cont by (apply N.mod_lt; lia). reflexivity.
    - apply Lead. lia. }
  eexists; eexists; split; [reflexivity|]. split.
  - cbn [forallb]. rewrite !Cont by (apply N.mod_lt; lia). reflexivity.
  - apply Lead. lia.
Qed.

Lemma ws_free_conts t rest :
  forallb is_cont t = true -> ws_free rest = true -> ws_free (t ++ rest) = true.
Proof.
  induction t as [|c t IH]; [intros _ H; exact H|]. cbn [forallb app ws_free]. intros H Hr.
  apply andb_true_iff in H as [H1 H2]. rewrite (space_len_cont c _ H1), (IH H2 Hr). reflexivity.
Qed.

(* the UTF-8 form of a non-ASCII scalar value that is not white space starts
   no white space, whatever follows *)
Lemma ws_free_utf8 cp rest :
  (128 <= cp)%N -> utf8_valid_cp cp = true -> uspace_cp cp = false ->
  ws_free rest = true -> ws_free (utf8_encode cp ++ rest) = true.
Proof.
  intros Hlo Hv Hu Hr.
  destruct (utf8_encode_shape cp Hlo Hv) as (b0 & t & E & Hc & Hs).
  assert (Z : space_len (utf8_encode cp ++ rest) = 0%nat).
  { rewrite E. cbn [app]. unfold space_len. rewrite Hs.
    rewrite (find_ext_in _ (fun _ => false)); [now rewrite find_false|].
    intros u Hin. destruct (is_prefix u (b0 :: t ++ rest)) eqn:P; [|reflexivity]. exfalso.
    change (b0 :: t ++ rest) with ((b0 :: t) ++ rest) in P. rewrite <- E in P.
    rewrite <- uni_spaces_encode in Hin. apply in_map_iff in Hin as (cu & <- & Hcu).
    assert (Vu : utf8_valid_cp cu = true).
    { pose proof uspace_cps_valid as V. rewrite forallb_forall in V. now apply V. }
    apply is_prefix_split in P.
    pose proof (utf8_decode_encode cp rest Hv) as D1. rewrite P in D1.
    rewrite (utf8_decode_encode cu _ Vu) in D1. injection D1 as D1 _. subst cu.
    assert (X : uspace_cp cp = true).
    { unfold uspace_cp. apply existsb_exists. exists cp. split; [exact Hcu|apply N.eqb_refl]. }
    congruence. }
  rewrite E in *. cbn [app ws_free] in *. rewrite Z. cbn [Nat.eqb andb].
  now apply ws_free_conts.
Qed.

Lemma hexU_tokch s : forallb is_hexU s = true -> forallb tokch s = true.
Proof.
  intros H. eapply forallb_impl; [|exact H]. intros c Hc.
  pose proof (byte_enum (fun c => implb (is_hexU c) (tokch c))) as B.
  specialize (B ltac:(vm_compute; reflexivity) c). cbv beta in B. now rewrite Hc in B.
Qed.

Lemma qchar_tokch c : qchar c = true -> tokch c = true.
Proof.
  intros Hc.
  pose proof (byte_enum (fun c => implb (qchar c) (tokch c))) as B.
  specialize (B ltac:(vm_compute; reflexivity) c). cbv beta in B. now rewrite Hc in B.
Qed.

Lemma embedded_tokch cp : forallb tokch (embedded cp) = true.
Proof.
  unfold embedded. rewrite !forallb_app. rewrite (hexU_tokch _ (hex02_hex cp)). reflexivity.
Qed.

Theorem unitext_ws_free cs :
  forallb addr_cp cs = true ->
  ws_free (encode_utf8_addr_unitext (utf8_of_runes cs)) = true.
Proof.
  intros Ha. unfold encode_utf8_addr_unitext.
  rewrite runes_utf8_of_runes by now apply addr_cp_valid.
  induction cs as [|cp cs IH]; [reflexivity|].
  cbn [forallb] in Ha. apply andb_true_iff in Ha as [Ha1 Ha2].
  specialize (IH Ha2). cbn [flat_map]. unfold encode_utf8_addr_unitext_rune at 1.
  destruct (N.ltb_spec cp 128) as [Hlt|Hge].
  - destruct (qchar (n_byte cp)) eqn:Q.
    + apply (ws_free_app_ascii [n_byte cp]); [|exact IH]. cbn [forallb]. now rewrite (qchar_tokch _ Q).
    + apply ws_free_app_ascii; [apply embedded_tokch|exact IH].
  - destruct (uspace_cp cp) eqn:Hu.
    + apply ws_free_app_ascii; [apply embedded_tokch|exact IH].
    + apply ws_free_utf8; try assumption. unfold addr_cp in Ha1. lia.
Qed.

Print Assumptions unitext_ws_free.

(* every one of the nineteen code points, at the start, inside and at the end *)
Example unitext_ws_free_ex :
  let cs := [160; 233; 32; 92; 8195; 128512; 64; 8364; 12288]%N in
  forallb addr_cp cs = true
  /\ ws_free (encode_utf8_addr_unitext (utf8_of_runes cs)) = true
  /\ encode_utf8_addr_unitext (utf8_of_runes cs)
     = bs "\x{A0}" ++ [b 195; b 169] ++ bs "\x{20}\x{5C}\x{2003}" ++ [b 240; b 159; b 152; b 128]
       ++ bs "@" ++ [b 226; b 130; b 172] ++ bs "\x{3000}"
  /\ forallb (fun cp => let cs := [cp; 120; cp; 64; 121; cp]%N in
                        forallb addr_cp cs
                        && ws_free (encode_utf8_addr_unitext (utf8_of_runes cs))
                        && negb (ws_free (utf8_of_runes cs))) uspace_cps = true.
Proof. vm_compute. repeat split. Qed.
