(* C11 - MAIL/RCPT arguments reach the backend exactly as sent, or are refused.

   [classify_mail] / [classify_rcpt] (RefGrammar.v) is an independent
   recogniser/decoder written from the RFC grammars; it sorts the argument of
   a MAIL / RCPT command into Valid mailbox opts | Invalid | Unspecified.
   The theorems relate it to the model of handleMail / handleRcpt (Conn.v),
   for EVERY configuration, EVERY connection state in which the command is
   admissible and EVERY argument (no length bound).

   - C11_valid_exact_mail / _rcpt: a Valid line makes the handler call the
     backend with exactly the reference's mailbox and options (all other
     fields zero, they come from mo_zero / ro_zero), followed by the reply
     that belongs to the backend's scripted answer.
   - C11_invalid_refused_mail / _rcpt: an Invalid line is answered by a single
     5xx reply and no callback - for every line.  (Until the repairs
     "fix: MAIL/RCPT parameter keywords were upper-cased with Unicode
     strings.ToUpper" and "fix: SMTPUTF8 and REQUIRETLS were accepted with a
     value" these were _partial, with hypotheses excluding keywords written
     with U+017F / U+0131 and SMTPUTF8=x / REQUIRETLS=x, and C11_refuted_*
     exhibited such lines reaching the backend.  The former witnesses are now
     Examples of refusal: C11_former_findings_refused.) *)
From Smtp Require Import Bytes Reply Rfc3339 Conn RefGrammar RefGrammarProofs.

Theorem C11_valid_exact_mail (cfg : config) (c : conn) (arg from : bytes) (opts : mail_opts) :
  c_helo c <> [] -> c_bdat c = None -> c_session c = true ->
  classify_mail cfg arg = Valid from opts ->
  snd (handle_mail cfg c arg) = mail_ok_events from opts (fst (pop BNil (be_mail (c_be c)))).
Proof. exact (valid_exact_mail cfg c arg from opts). Qed.
Print Assumptions C11_valid_exact_mail.

Theorem C11_valid_exact_rcpt (cfg : config) (c : conn) (arg rcpt : bytes) (opts : rcpt_opts) :
  c_from c = true -> c_bdat c = None -> c_session c = true -> rcpt_limit_free cfg c ->
  classify_rcpt cfg arg = Valid rcpt opts ->
  snd (handle_rcpt cfg c arg) = rcpt_ok_events rcpt opts (fst (pop BNil (be_rcpt (c_be c)))).
Proof. exact (valid_exact_rcpt cfg c arg rcpt opts). Qed.
Print Assumptions C11_valid_exact_rcpt.

Theorem C11_invalid_refused_mail (cfg : config) (c : conn) (arg : bytes) :
  c_helo c <> [] -> c_bdat c = None ->
  classify_mail cfg arg = Invalid ->
  refused (snd (handle_mail cfg c arg)).
Proof. exact (invalid_refused_mail_5xx cfg c arg). Qed.
Print Assumptions C11_invalid_refused_mail.

Theorem C11_invalid_refused_rcpt (cfg : config) (c : conn) (arg : bytes) :
  c_from c = true -> c_bdat c = None -> rcpt_limit_free cfg c ->
  classify_rcpt cfg arg = Invalid ->
  refused (snd (handle_rcpt cfg c arg)).
Proof. exact (invalid_refused_rcpt_5xx cfg c arg). Qed.
Print Assumptions C11_invalid_refused_rcpt.

(* a refused command calls nothing *)
Theorem C11_refused_no_callback (evs : list event) :
  refused evs ->
  forall e, In e evs -> match e with EMail _ _ _ | ERcpt _ _ _ => False | _ => True end.
Proof. exact (refused_no_callback evs). Qed.
Print Assumptions C11_refused_no_callback.

(* the lines that exhibited the two former findings: Invalid, and refused *)
Example C11_former_findings_refused :
  (let arg := bs "FROM:<a@b> " ++ long_s ++ bs "IZE=1" in
   fold_trap arg = true /\ classify_mail cfg_all arg = Invalid /\
   snd (handle_mail cfg_all (conn_ready false) arg)
   = [reply 500 (5, 5, 4)%Z (bs "Unknown MAIL FROM argument")]) /\
  (let arg := bs "TO:<a@b> NOT" ++ dotless_i ++ bs "FY=NEVER" in
   fold_trap arg = true /\ classify_rcpt cfg_all arg = Invalid /\
   snd (handle_rcpt cfg_all (conn_ready true) arg)
   = [reply 500 (5, 5, 4)%Z (bs "Unknown RCPT TO argument")]) /\
  (let a1 := bs "FROM:<a@b> SMTPUTF8=1" in
   let a2 := bs "FROM:<a@b> REQUIRETLS=yes" in
   let a3 := bs "FROM:<a@b> SMTPUTF8=" in
   flag_with_value a1 = true /\ flag_with_value a2 = true /\ flag_with_value a3 = true /\
   classify_mail cfg_all a1 = Invalid /\ classify_mail cfg_all a2 = Invalid /\
   classify_mail cfg_all a3 = Invalid /\
   snd (handle_mail cfg_all (conn_ready false) a1) = [reply 501 (5, 5, 4)%Z (bs "SMTPUTF8 takes no value")] /\
   snd (handle_mail cfg_all (conn_ready false) a2) = [reply 501 (5, 5, 4)%Z (bs "REQUIRETLS takes no value")] /\
   snd (handle_mail cfg_all (conn_ready false) a3) = [reply 501 (5, 5, 4)%Z (bs "Unable to parse MAIL ESMTP parameters")]).
Proof. exact (conj unicode_fold_mail_refused (conj unicode_fold_rcpt_refused flag_value_mail_refused)). Qed.
Print Assumptions C11_former_findings_refused.

(* non-vacuity: the hypotheses are satisfiable together, on a concrete
   admissible state, for a line with every MAIL parameter and for a line with
   every RCPT parameter *)
Example C11_witness_mail :
  let c := conn_ready false in
  let arg := bs "FROM:<a@b> AUTH=<> ENVID=x RET=FULL REQUIRETLS SMTPUTF8 BODY=7BIT SIZE=5" in
  c_helo c <> [] /\ c_bdat c = None /\ c_session c = true /\
  classify_mail cfg_all arg = Valid (bs "a@b") (mkMO (bs "7BIT") 5 true true (bs "FULL") (bs "x") (Some [])).
Proof. vm_compute. repeat split; try reflexivity; discriminate. Qed.

Example C11_witness_rcpt :
  let c := conn_ready true in
  let arg := bs "TO:<""q s""@d.example> RRVS=2014-04-03T23:01:00Z;C ORCPT=rfc822;Bob+20S@x NOTIFY=FAILURE,DELAY" in
  c_from c = true /\ c_bdat c = None /\ c_session c = true /\ rcpt_limit_free cfg_all c /\
  classify_rcpt cfg_all arg
  = Valid (bs "q s@d.example")
          (mkRO [bs "FAILURE"; bs "DELAY"] (bs "RFC822") (bs "Bob S@x") (Some (mkRT 1396566060 0 0))).
Proof. vm_compute. repeat split; reflexivity. Qed.

Example C11_witness_invalid :
  let c := conn_ready false in
  let arg := bs "FROM:<a@b> SIZE=1x" in
  c_helo c <> [] /\ c_bdat c = None /\ classify_mail cfg_all arg = Invalid.
Proof. vm_compute. repeat split; try reflexivity; discriminate. Qed.
