(* Property C13, stated directly (independent of the collector / FIFO model
   of Lmtp.v): which status each accepted recipient of an LMTP transaction
   must be answered with.

   [rcpts]  the accepted recipients in RCPT order (duplicates allowed);
   [calls]  the SetStatus calls of the backend, in the order it made them;
   [ret]    the value the delivery ended with (what fillRemaining hands out).

   The i-th recipient, being the k-th occurrence (k counted from 0) of its
   address a among the recipients, gets the k-th status the backend set for
   a if there is one, otherwise [ret]. *)
From Smtp Require Import Bytes Reply.

(* the statuses set for address [a], oldest first *)
Definition calls_for (a : bytes) (calls : list (bytes * berr)) : list berr :=
  map snd (filter (fun c => bytes_eqb a (fst c)) calls).

(* number of occurrences of [a] in a list of addresses *)
Definition count_addr (a : bytes) (l : list bytes) : nat :=
  List.length (filter (bytes_eqb a) l).

(* hand [pick a k] to the recipient that is the k-th occurrence of address a;
   [seen] are the recipients that precede [rcpts] *)
Fixpoint assign (pick : bytes -> nat -> berr) (seen rcpts : list bytes) : list (bytes * berr) :=
  match rcpts with
  | [] => []
  | a :: r => (a, pick a (count_addr a seen)) :: assign pick (seen ++ [a]) r
  end.

(* the k-th status set for a, or ret *)
Definition status_of (calls : list (bytes * berr)) (ret : berr) (a : bytes) (k : nat) : berr :=
  nth k (calls_for a calls) ret.

Definition expected_statuses (rcpts : list bytes) (calls : list (bytes * berr)) (ret : berr)
  : list (bytes * berr) :=
  assign (status_of calls ret) [] rcpts.

(* the documented contract of StatusCollector.SetStatus: every call names a
   recipient of the transaction, and no address gets more calls than it has
   occurrences among the recipients *)
Definition contract_ok (rcpts : list bytes) (calls : list (bytes * berr)) : bool :=
  forallb (fun c =>
             existsb (bytes_eqb (fst c)) rcpts
             && (List.length (calls_for (fst c) calls) <=? count_addr (fst c) rcpts)%nat)
          calls.

(* A backend that breaks the contract panics inside SetStatus.  In a
   sequential execution (all calls made before any status is taken out, as in
   the BDAT path) the calls that take effect are those before the first one
   that breaks the contract: *)
Fixpoint ok_calls_from (rcpts seen : list bytes) (calls : list (bytes * berr)) : list (bytes * berr) :=
  match calls with
  | [] => []
  | (a, e) :: r =>
      if (count_addr a seen <? count_addr a rcpts)%nat
      then (a, e) :: ok_calls_from rcpts (seen ++ [a]) r
      else []
  end.
Definition ok_calls (rcpts : list bytes) (calls : list (bytes * berr)) : list (bytes * berr) :=
  ok_calls_from rcpts [] calls.

(* plain backend (no LMTPSession): everybody gets the single result *)
Definition plain_statuses (rcpts : list bytes) (ret : berr) : list (bytes * berr) :=
  map (fun a => (a, ret)) rcpts.

(* the octets of one per-recipient reply: writeResponse(code, ec, "<"+rcpt+"> "+msg)
   with (code, ec, msg) = dataErrorToStatus(e) *)
Definition status_reply_bytes (a : bytes) (e : berr) : bytes :=
  let '(code, ec, msg) := data_error_to_status e in
  write_response code ec [bs "<" ++ a ++ bs "> " ++ msg].
