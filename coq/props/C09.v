(* C09 (server half) - AUTH is unreachable on insecure connections and
   succeeds at most once per session.

   For EVERY configuration, backend script, network schedule and fuel, about
   the event list of the server model ([EAuth]: sasl.Server created by
   AuthSession.Auth; [EAuthNext]: one call of sasl.Server.Next, i.e. every
   octet the mechanism ever receives; [EAuthOk]: the exchange succeeded, 235):

   C09_auth_guarded: every Auth / AuthNext / AuthOk happens with a live
   session (successful greeting, no Logout since), and, unless
   AllowInsecureAuth is set, every Auth / AuthNext happens under TLS (implicit
   TLS or a successful STARTTLS handshake earlier in the trace).
   C09_at_most_once: after an AuthOk, until the session's Logout (QUIT,
   STARTTLS, disconnect), no further Auth / AuthNext / AuthOk happens. *)
From Smtp Require Import Bytes Transport Reply Conn Order OrderStrict ConnProofs TraceProps ConnNoPanic
  TraceExamples.

Theorem C09_auth_guarded : forall fuel cfg be phases,
  TraceProps.C09_auth_guarded cfg (serve fuel cfg be phases).
Proof. exact serve_C09_auth_guarded. Qed.
Print Assumptions C09_auth_guarded.

Theorem C09_at_most_once : forall fuel cfg be phases,
  TraceProps.C09_at_most_once (serve fuel cfg be phases).
Proof. exact serve_C09_at_most_once. Qed.
Print Assumptions C09_at_most_once.

(* non-vacuity: ex1 (AllowInsecureAuth = true, plaintext) contains a successful
   one-step AUTH PLAIN exchange with a live session *)
Example C09_server_witness :
  map show_kind ex1_trace = ex1_shape /\
  map show_kind (firstn 4 (skipn 5 ex1_trace)) = ["Auth"; "AuthNext"; "reply 235"; "AuthOk"]%string /\
  live (firstn 5 ex1_trace) = true.
Proof. split; [exact ex1_shape_ok|]. split; vm_compute; reflexivity. Qed.

(* ---------------- client half ---------------- *)
From Smtp Require Import Bytes Base64 Reply ClientReply Client ClientProofs.

Theorem C09_client_faithful : forall c s rounds steps' sN,
  io_ready c -> hello_done c -> cs_start_err s = None ->
  cs_steps s = map resp_step rounds ++ steps' ->
  serves334 (map fst rounds) (c_in c) sN ->
  let sent := auth_line s :: b64_lines rounds in
  let got := map fst rounds in
  (forall msg s', reads0 sN 235 msg s' ->
     exists c', c_auth c s = (RNil, got, c')
       /\ c_out c' = c_out c ++ lines sent /\ c_in c' = s' /\ io_ready c' /\ hello_done c')
  /\ (forall code msg s1 e2 s2,
        reads0 sN code msg s1 -> code <> 334%Z -> code <> 235%Z -> reads s1 501 e2 s2 ->
        exists c', c_auth c s = (let '(a, b, d) := to_smtp_err code msg in RSmtp a b d, got, c')
          /\ c_out c' = c_out c ++ lines (sent ++ [bs "*"]) /\ c_in c' = s2
          /\ io_ready c' /\ hello_done c')
  /\ (forall t rest' m ch s1 e2 s2,
        steps' = CErr t :: rest' -> reads0 sN 334 m s1 -> b64_decode m = Some ch ->
        reads s1 501 e2 s2 ->
        exists c', c_auth c s = (RLocal t, got ++ [ch], c')
          /\ c_out c' = c_out c ++ lines (sent ++ [bs "*"]) /\ c_in c' = s2
          /\ io_ready c' /\ hello_done c').
Proof. exact ClientProofs.C09_client_faithful. Qed.

Theorem C09_client_wire_satisfiable : forall chs rest,
  serves334 chs (flat_map (fun ch => bs "334 " ++ b64_encode ch ++ crlf) chs ++ rest) rest.
Proof. exact ClientProofs.serves334_wire. Qed.

(* after the exchange the next command works: it writes its own line and gets
   the next reply *)
Theorem C09_client_command_mode : forall c expect line e rest,
  io_ready c -> reads (c_in c) expect e rest ->
  cmd_err c expect line = (res_of_cerr e, set_in (wrote c (line ++ crlf)) rest).
Proof. exact ClientProofs.cmd_err_ready. Qed.

Print Assumptions C09_client_faithful.
Print Assumptions C09_client_wire_satisfiable.
Print Assumptions C09_client_command_mode.
