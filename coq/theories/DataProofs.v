(* dataReader.Read (model) = the line-wise dot-unstuffing specification. *)
From Smtp Require Import Bytes Transport DataReader DotSpec TransportProofs.

Ltac beq := repeat match goal with
  | H : Ascii.eqb _ _ = true |- _ => apply Ascii.eqb_eq in H; subst
  end.

(* ---------- facts about the specification ---------- *)

Lemma cut_crlf_shorter s l r : cut_crlf s = Some (l, r) -> List.length r < List.length s.
Proof.
  revert l r; induction s as [|c t IH]; intros l r H; [discriminate|].
  cbn [cut_crlf] in H. destruct t as [|d t']; [discriminate|].
  destruct (Ascii.eqb c CR && Ascii.eqb d LF).
  - inversion H; subst; cbn; lia.
  - destruct (cut_crlf (d :: t')) as [[l' r']|] eqn:E; [|discriminate].
    cbn in H. inversion H; subst. specialize (IH _ _ eq_refl). cbn in *; lia.
Qed.

Lemma strip_dot_le s : List.length (strip_dot s) <= List.length s.
Proof. destruct s as [|a t]; cbn; [lia|]. destruct (Ascii.eqb a DOT); cbn; lia. Qed.

Lemma unstuff_f_fuel n m s :
  List.length s < n -> List.length s < m -> unstuff_f n s = unstuff_f m s.
Proof.
  revert m s; induction n as [|n IH]; intros m s Hn Hm; [lia|].
  destruct m as [|m]; [lia|]. cbn [unstuff_f].
  destruct (is_marker s); [reflexivity|].
  destruct (cut_crlf (strip_dot s)) as [[l r]|] eqn:E; [|reflexivity].
  apply cut_crlf_shorter in E. pose proof (strip_dot_le s).
  f_equal. apply IH; lia.
Qed.

(* the rest of a line that has been entered: copy through the first CRLF,
   then start over at a line start *)
Definition mid (s : bytes) : dres :=
  match cut_crlf s with
  | Some (l, r) => prepend l (unstuff r)
  | None => Incomplete s
  end.

Lemma unstuff_unfold s :
  unstuff s = match is_marker s with
              | Some rest => Complete [] rest
              | None => mid (strip_dot s)
              end.
Proof.
  unfold unstuff, mid. cbn [unstuff_f].
  destruct (is_marker s); [reflexivity|].
  destruct (cut_crlf (strip_dot s)) as [[l r]|] eqn:E; [|reflexivity].
  apply cut_crlf_shorter in E. pose proof (strip_dot_le s).
  f_equal. apply unstuff_f_fuel; lia.
Qed.

(* ... when the previous octet was a CR *)
Definition midCR (s : bytes) : dres :=
  match s with
  | c :: r => if Ascii.eqb c LF then prepend [LF] (unstuff r) else mid s
  | [] => Incomplete []
  end.

Lemma prepend_app a b r : prepend a (prepend b r) = prepend (a ++ b) r.
Proof. destruct r; cbn; rewrite app_assoc; reflexivity. Qed.
Lemma prepend_nil r : prepend [] r = r.
Proof. destruct r; reflexivity. Qed.

Lemma mid_cons c t :
  mid (c :: t) = if Ascii.eqb c CR then prepend [c] (midCR t) else prepend [c] (mid t).
Proof.
  unfold mid at 1. cbn [cut_crlf].
  destruct t as [|d t'].
  - cbn. destruct (Ascii.eqb c CR); reflexivity.
  - destruct (Ascii.eqb c CR) eqn:Ec; cbn [andb midCR].
    + destruct (Ascii.eqb d LF) eqn:Ed.
      * beq. rewrite prepend_app. reflexivity.
      * unfold mid. destruct (cut_crlf (d :: t')) as [[l r]|]; cbn.
        -- rewrite prepend_app; reflexivity.
        -- reflexivity.
    + unfold mid. destruct (cut_crlf (d :: t')) as [[l r]|]; cbn.
      * rewrite prepend_app; reflexivity.
      * reflexivity.
Qed.

(* what the specification still owes when the reader is in state q and the
   remaining stream is s *)
Definition spec_of (q : dstate) (s : bytes) : dres :=
  match q with
  | SBeginLine => unstuff s
  | SData => mid s
  | SCR => midCR s
  | SDot => match s with
            | a :: b :: r => if Ascii.eqb a CR && Ascii.eqb b LF then Complete [] r else mid s
            | _ => mid s
            end
  | SDotCR => match s with
              | a :: r => if Ascii.eqb a LF then Complete [] r else prepend [CR] (midCR s)
              | [] => Incomplete [CR]
              end
  | SEOF => Complete [] s
  end.

(* octets the reader is still withholding *)
Definition pending (q : dstate) : bytes :=
  match q with SDotCR => [CR] | _ => [] end.

Lemma spec_of_nil q : q <> SEOF -> spec_of q [] = Incomplete (pending q).
Proof. destruct q; intros H; try reflexivity. congruence. Qed.

Lemma eqb_CR_CR : Ascii.eqb CR CR = true. Proof. reflexivity. Qed.
Lemma eqb_DOT_DOT : Ascii.eqb DOT DOT = true. Proof. reflexivity. Qed.
Lemma eqb_CR_LF : Ascii.eqb CR LF = false. Proof. reflexivity. Qed.
Lemma eqb_LF_LF : Ascii.eqb LF LF = true. Proof. reflexivity. Qed.

(* one iteration of the switch, in terms of the specification *)
Lemma step_spec q c s :
  q <> SEOF ->
  match dr_step q c with
  | DSkip q' => spec_of q (c :: s) = spec_of q' s
  | DEmit q' x => spec_of q (c :: s) = prepend [x] (spec_of q' s)
  | DEmitUnread q' x => spec_of q (c :: s) = prepend [x] (spec_of q' (c :: s))
  end.
Proof.
  intros Hq. destruct q; cbn [dr_step]; try congruence.
  - (* SBeginLine *)
    destruct (Ascii.eqb c DOT) eqn:Ed.
    + beq. cbn [spec_of]. rewrite unstuff_unfold. cbn [is_marker strip_dot].
      rewrite eqb_DOT_DOT. cbn [andb].
      destruct s as [|a [|b r]]; try reflexivity.
      destruct (Ascii.eqb a CR && Ascii.eqb b LF); reflexivity.
    + assert (Hm : is_marker (c :: s) = None).
      { cbn. destruct s as [|a [|b r]]; try reflexivity. rewrite Ed. reflexivity. }
      destruct (Ascii.eqb c CR) eqn:Ec; cbn [spec_of]; rewrite unstuff_unfold, Hm;
        cbn [strip_dot]; rewrite Ed, mid_cons, Ec; reflexivity.
  - (* SDot *)
    destruct (Ascii.eqb c CR) eqn:Ec.
    + beq. cbn [spec_of]. destruct s as [|a r]; [reflexivity|].
      rewrite eqb_CR_CR. cbn [andb].
      destruct (Ascii.eqb a LF) eqn:Ea; [reflexivity|].
      rewrite mid_cons, eqb_CR_CR. reflexivity.
    + cbn [spec_of].
      transitivity (mid (c :: s)); [|rewrite mid_cons, Ec; reflexivity].
      destruct s as [|b r]; [reflexivity|]. rewrite Ec. reflexivity.
  - (* SDotCR *)
    destruct (Ascii.eqb c LF) eqn:El; cbn [spec_of]; rewrite El; [reflexivity|].
    cbn [midCR]. rewrite El. reflexivity.
  - (* SCR *)
    destruct (Ascii.eqb c LF) eqn:El.
    + beq. cbn [spec_of midCR]. rewrite eqb_LF_LF. reflexivity.
    + destruct (Ascii.eqb c CR) eqn:Ec; cbn [spec_of midCR]; rewrite El, mid_cons, Ec; reflexivity.
  - (* SData *)
    destruct (Ascii.eqb c CR) eqn:Ec; cbn [spec_of]; rewrite mid_cons, Ec; reflexivity.
Qed.

(* potential: bounds the octets the reader can still emit *)
Definition phi (q : dstate) (t : transport) : nat :=
  List.length (tstream t) + match q with SDotCR => 1 | _ => 0 end.

Lemma dstate_eqb_spec a b : dstate_eqb a b = true <-> a = b.
Proof. destruct a, b; cbn; split; intros H; try reflexivity; try discriminate. Qed.

Lemma step_not_eof_emit q c : 
  match dr_step q c with
  | DEmit q' _ | DEmitUnread q' _ => q' <> SEOF /\ q' <> SDotCR
  | DSkip _ => True
  end.
Proof.
  destruct q; cbn;
    repeat match goal with |- context [if ?b then _ else _] => destruct b end;
    cbn; try exact I; split; discriminate.
Qed.

Lemma step_phi q c :
  q <> SEOF ->
  match dr_step q c with
  | DSkip q' => (match q' with SDotCR => 1 | _ => 0 end) <= S (match q with SDotCR => 1 | _ => 0 end)
                /\ (q' = SDotCR -> q = SDot)
  | DEmit q' _ => q <> SDotCR
  | DEmitUnread q' _ => q = SDotCR
  end.
Proof.
  intros Hq. destruct q; cbn; try congruence;
    repeat match goal with |- context [if ?b then _ else _] => destruct b end;
    cbn; try (split; [lia|]); try discriminate; try reflexivity; try (intros; congruence).
Qed.

(* ---------- the read loop against the specification ---------- *)

Lemma dr_loop_spec fuel :
  forall q t room o e q' t',
    transparent t -> room + List.length (tstream t) < fuel ->
    dr_loop fuel q t room = (o, e, q', t') ->
    match e with
    | None =>
        spec_of q (tstream t) = prepend o (spec_of q' (tstream t')) /\
        transparent t' /\ tterm t' = tterm t /\ t_limit t' = t_limit t /\
        (List.length o = room \/ q' = SEOF) /\ List.length o <= room /\
        phi q' t' + List.length o <= phi q t
    | Some err =>
        err = rerr_of_terr (tterm t) /\ q' <> SEOF /\
        spec_of q (tstream t) = prepend o (Incomplete (pending q')) /\
        List.length o <= room /\ t_limit t' = t_limit t
    end.
Proof.
  induction fuel as [|fuel IH]; intros q t room o e q' t' Htr Hf H; [lia|].
  cbn [dr_loop] in H.
  destruct room as [|room].
  { inversion H; subst. cbn. rewrite prepend_nil. repeat split; auto; try apply Htr; lia. }
  destruct (dstate_eqb q SEOF) eqn:Eq.
  { inversion H; subst. cbn [List.length]. rewrite prepend_nil.
    apply dstate_eqb_spec in Eq. repeat split; auto; try apply Htr; lia. }
  assert (Hq : q <> SEOF).
  { intros ->. cbn in Eq. discriminate. }
  destruct (tstream t) as [|c s] eqn:Es.
  - (* the stream is exhausted: the schedule's failure *)
    destruct (read_byte_nil t Htr Es) as (t1 & Hrb & _ & Hl1). rewrite Hrb in H.
    inversion H; subst. cbn [prepend app List.length].
    split; [reflexivity|]. split; [exact Hq|]. split; [apply spec_of_nil; exact Hq|]. split; [lia|exact Hl1].
  - destruct (read_byte_cons t c s Htr Es) as (t1 & Hrb & Hs1 & Htr1 & Hterm1 & Hl1).
    rewrite Hrb in H.
    pose proof (step_spec q c s Hq) as Hstep.
    pose proof (step_phi q c Hq) as Hphi.
    pose proof (step_not_eof_emit q c) as Hne.
    destruct (dr_step q c) as [q1|q1 x|q1 x].
    + (* withheld *)
      assert (Hf1 : S room + List.length (tstream t1) < fuel) by (rewrite Hs1; cbn in Hf; lia).
      specialize (IH q1 t1 (S room) o e q' t' Htr1 Hf1 H).
      destruct e as [err|].
      * destruct IH as (A & B & C & D & E). rewrite Hterm1 in A. rewrite Hs1 in C.
        split; [exact A|]. split; [exact B|]. split; [rewrite Hstep; exact C|]. split; [exact D|congruence].
      * destruct IH as (A & B & C & L & D & E & F). rewrite Hs1 in A.
        split; [rewrite Hstep; exact A|]. split; [exact B|]. split; [congruence|]. split; [congruence|].
        split; [exact D|]. split; [exact E|].
        unfold phi in *. rewrite Hs1 in F. rewrite Es. cbn [List.length]. destruct Hphi as [Hp _]. lia.
    + (* emitted *)
      destruct (dr_loop fuel q1 t1 room) as [[[o1 e1] q2] t2] eqn:Hrec.
      inversion H; subst o e q' t'; clear H.
      assert (Hf1 : room + List.length (tstream t1) < fuel) by (rewrite Hs1; cbn in Hf; lia).
      specialize (IH q1 t1 room o1 e1 q2 t2 Htr1 Hf1 Hrec).
      destruct e1 as [err|].
      * destruct IH as (A & B & C & D & E). rewrite Hterm1 in A. rewrite Hs1 in C.
        split; [exact A|]. split; [exact B|].
        split; [rewrite Hstep, C, prepend_app; reflexivity|]. split; [cbn; lia|congruence].
      * destruct IH as (A & B & C & L & D & E & F). rewrite Hs1 in A.
        split; [rewrite Hstep, A, prepend_app; reflexivity|]. split; [exact B|]. split; [congruence|]. split; [congruence|].
        split; [destruct D as [D|D]; [left; cbn; lia|right; exact D]|]. split; [cbn; lia|].
        unfold phi in *. rewrite Hs1 in F. rewrite Es. cbn [List.length].
        destruct Hne as [_ Hne2]. destruct q1; try congruence; destruct q; cbn in *; lia.
    + (* emitted, c pushed back *)
      destruct (dr_loop fuel q1 (t_unread_byte c t1) room) as [[[o1 e1] q2] t2] eqn:Hrec.
      inversion H; subst o e q' t'; clear H.
      pose proof (unread_transparent c t1 Htr1) as Htr2.
      assert (Hs2 : tstream (t_unread_byte c t1) = c :: s) by (rewrite unread_stream, Hs1; reflexivity).
      assert (Hf2 : room + List.length (tstream (t_unread_byte c t1)) < fuel) by (rewrite Hs2; cbn in *; lia).
      specialize (IH q1 _ room o1 e1 q2 t2 Htr2 Hf2 Hrec).
      rewrite unread_term, Hterm1 in IH.
      destruct e1 as [err|].
      * destruct IH as (A & B & C & D & E). rewrite Hs2 in C.
        split; [exact A|]. split; [exact B|].
        split; [rewrite Hstep, C, prepend_app; reflexivity|]. split; [cbn; lia|]. cbn in E. congruence.
      * destruct IH as (A & B & C & L & D & E & F). rewrite Hs2 in A.
        split; [rewrite Hstep, A, prepend_app; reflexivity|]. split; [exact B|]. split; [exact C|].
        split; [cbn in L; congruence|].
        split; [destruct D as [D|D]; [left; cbn; lia|right; exact D]|]. split; [cbn; lia|].
        unfold phi in *. rewrite Hs2 in F. rewrite Es. subst q. cbn [List.length] in *.
        destruct Hne as [_ Hne2]. destruct q1; try congruence; cbn in *; lia.
Qed.

(* ---------- one Read call ---------- *)

Lemma raws_bytes_avail rs : List.length (raws_bytes rs) <= raws_avail rs.
Proof.
  induction rs as [|[c d|e] r IH]; cbn; try lia.
  rewrite app_length. lia.
Qed.

Lemma tstream_avail t : List.length (tstream t) <= t_avail t.
Proof.
  unfold tstream, t_avail. rewrite app_length. pose proof (raws_bytes_avail (t_raw t)). lia.
Qed.

Lemma rerr_of_terr_not_eof e : rerr_of_terr e <> REOF.
Proof. destruct e; discriminate. Qed.
Lemma rerr_of_terr_not_large e : rerr_of_terr e <> RTooLarge.
Proof. destruct e; discriminate. Qed.

Definition budget_ok (d : dreader) : Prop := d_limited d = true -> (0 <= d_n d)%Z.

Inductive read_outcome (d : dreader) (t : transport) (o : bytes) (d' : dreader) (t' : transport)
  : option rerr -> Prop :=
| RO_more :
    spec_of (d_state d) (tstream t) = prepend o (spec_of (d_state d') (tstream t')) ->
    transparent t' -> tterm t' = tterm t -> d_state d' <> SEOF -> 1 <= List.length o ->
    phi (d_state d') t' + List.length o <= phi (d_state d) t ->
    (d_limited d = true -> d_n d' = (d_n d - Z.of_nat (List.length o))%Z /\ (0 <= d_n d')%Z) ->
    read_outcome d t o d' t' None
| RO_eof :
    spec_of (d_state d) (tstream t) = prepend o (Complete [] (tstream t')) ->
    transparent t' -> tterm t' = tterm t -> d_state d' = SEOF ->
    (d_limited d = true -> (Z.of_nat (List.length o) <= d_n d)%Z) ->
    read_outcome d t o d' t' (Some REOF)
| RO_large x r :
    d_limited d = true -> o = [] -> d_n d = 0%Z ->
    spec_of (d_state d) (tstream t) = prepend [x] r ->
    read_outcome d t o d' t' (Some RTooLarge)
| RO_fail :
    d_state d' <> SEOF ->
    spec_of (d_state d) (tstream t) = prepend o (Incomplete (pending (d_state d'))) ->
    (d_limited d = true -> (Z.of_nat (List.length o) <= d_n d)%Z) ->
    read_outcome d t o d' t' (Some (rerr_of_terr (tterm t))).

Lemma dr_read_spec d t lenb o e d' t' :
  transparent t -> 0 < lenb -> budget_ok d ->
  dr_read d t lenb = (o, e, d', t') ->
  d_limited d' = d_limited d /\ t_limit t' = t_limit t /\ read_outcome d t o d' t' e.
Proof.
  intros Htr Hl Hb H. unfold dr_read in H. unfold budget_ok in Hb.
  pose proof (tstream_avail t) as Hav.
  destruct (d_limited d) eqn:Elim.
  - specialize (Hb eq_refl).
    destruct (d_n d =? 0)%Z eqn:En0.
    + (* probe *)
      apply Z.eqb_eq in En0.
      destruct (dr_loop (dr_fuel t 1) (d_state d) t 1) as [[[o1 e1] q1] t1] eqn:Hloop.
      assert (Hf : 1 + List.length (tstream t) < dr_fuel t 1) by (unfold dr_fuel; lia).
      pose proof (dr_loop_spec _ _ _ _ _ _ _ _ Htr Hf Hloop) as Hs.
      destruct o1 as [|x o1].
      * inversion H; subst o e d' t'; clear H. cbn [d_limited d_state].
        destruct e1 as [err|].
        -- destruct Hs as (A & B & C & D & E). subst err. cbn [eof_fix].
           split; [reflexivity|]. split; [exact E|].
           apply RO_fail; cbn [d_state]; auto; intros _; cbn; lia.
        -- destruct Hs as (A & B & C & L & D & E & F). cbn [eof_fix].
           destruct D as [D|D]; [cbn in D; discriminate|]. subst q1. cbn [dstate_eqb].
           split; [reflexivity|]. split; [exact L|].
           apply RO_eof; cbn [d_state]; auto; intros _; cbn; lia.
      * inversion H; subst o e d' t'; clear H. cbn [d_limited d_state].
        destruct e1 as [err|].
        -- destruct Hs as (A & B & C & D & E). cbn in D. assert (o1 = []) by (destruct o1; [reflexivity|cbn in D; lia]). subst o1.
           split; [reflexivity|]. split; [exact E|].
           eapply RO_large; eauto.
        -- destruct Hs as (A & B & C & L & D & E & F). cbn in E. assert (o1 = []) by (destruct o1; [reflexivity|cbn in E; lia]). subst o1.
           split; [reflexivity|]. split; [exact L|].
           eapply RO_large; eauto.
    + apply Z.eqb_neq in En0.
      destruct (d_n d <? 0)%Z eqn:Eneg; [apply Z.ltb_lt in Eneg; lia|]. clear Eneg.
      set (room := if (d_n d <? Z.of_nat lenb)%Z then Z.to_nat (d_n d) else lenb) in H.
      assert (Hroom : 1 <= room /\ (Z.of_nat room <= d_n d)%Z).
      { unfold room. destruct (d_n d <? Z.of_nat lenb)%Z eqn:E.
        - apply Z.ltb_lt in E. lia.
        - apply Z.ltb_ge in E. lia. }
      destruct (dr_loop (dr_fuel t room) (d_state d) t room) as [[[o1 e1] q1] t1] eqn:Hloop.
      assert (Hf : room + List.length (tstream t) < dr_fuel t room) by (unfold dr_fuel; lia).
      pose proof (dr_loop_spec _ _ _ _ _ _ _ _ Htr Hf Hloop) as Hs.
      inversion H; subst o e d' t'; clear H. cbn [d_limited d_state d_n].
      destruct e1 as [err|].
      * destruct Hs as (A & B & C & D & E). subst err. cbn [eof_fix].
        split; [reflexivity|]. split; [exact E|].
        apply RO_fail; cbn [d_state]; auto; intros _; lia.
      * destruct Hs as (A & B & C & L & D & E & F). cbn [eof_fix].
        split; [reflexivity|]. split; [exact L|].
        destruct (dstate_eqb q1 SEOF) eqn:Eq.
        -- apply dstate_eqb_spec in Eq. subst q1.
           apply RO_eof; cbn [d_state]; auto; intros _; lia.
        -- assert (Hq1 : q1 <> SEOF) by (intros ->; discriminate).
           destruct D as [D|D]; [|contradiction].
           apply RO_more; cbn [d_state d_n]; auto; try lia; intros _; lia.
  - destruct (dr_loop (dr_fuel t lenb) (d_state d) t lenb) as [[[o1 e1] q1] t1] eqn:Hloop.
    assert (Hf : lenb + List.length (tstream t) < dr_fuel t lenb) by (unfold dr_fuel; lia).
    pose proof (dr_loop_spec _ _ _ _ _ _ _ _ Htr Hf Hloop) as Hs.
    inversion H; subst o e d' t'; clear H. cbn [d_limited d_state d_n].
    destruct e1 as [err|].
    + destruct Hs as (A & B & C & D & E). subst err. cbn [eof_fix].
      split; [reflexivity|]. split; [exact E|].
      apply RO_fail; cbn [d_state]; auto; intros; congruence.
    + destruct Hs as (A & B & C & L & D & E & F). cbn [eof_fix].
      split; [reflexivity|]. split; [exact L|].
      destruct (dstate_eqb q1 SEOF) eqn:Eq.
      * apply dstate_eqb_spec in Eq. subst q1.
        apply RO_eof; cbn [d_state]; auto; intros; congruence.
      * assert (Hq1 : q1 <> SEOF) by (intros ->; discriminate).
        destruct D as [D|D]; [|contradiction].
        apply RO_more; cbn [d_state d_n]; auto; try lia; intros; congruence.
Qed.

(* ---------- a backend reading until the reader stops it ---------- *)

Inductive reads_outcome (d : dreader) (t : transport) (o : bytes) (d' : dreader) (t' : transport)
  : option rerr -> Prop :=
| RS_eof :
    spec_of (d_state d) (tstream t) = prepend o (Complete [] (tstream t')) ->
    transparent t' -> tterm t' = tterm t -> d_state d' = SEOF ->
    reads_outcome d t o d' t' (Some REOF)
| RS_large x r :
    d_limited d = true -> Z.of_nat (List.length o) = d_n d ->
    spec_of (d_state d) (tstream t) = prepend (o ++ [x]) r ->
    reads_outcome d t o d' t' (Some RTooLarge)
| RS_fail :
    d_state d' <> SEOF ->
    spec_of (d_state d) (tstream t) = prepend o (Incomplete (pending (d_state d'))) ->
    reads_outcome d t o d' t' (Some (rerr_of_terr (tterm t))).

Lemma pos_size_pos n : 0 < pos_size n.
Proof. destruct n; cbn; lia. Qed.

Lemma be_read_spec fuel :
  forall sizes cur got d t out e d' t',
    transparent t -> budget_ok d -> phi (d_state d) t + 1 < fuel ->
    be_read fuel sizes cur None got d t = (out, e, d', t') ->
    exists o, out = got ++ o /\
              (d_limited d = true -> (Z.of_nat (List.length o) <= d_n d)%Z) /\
              t_limit t' = t_limit t /\ d_limited d' = d_limited d /\
              reads_outcome d t o d' t' e.
Proof.
  induction fuel as [|fuel IH]; intros sizes cur got d t out e d' t' Htr Hb Hf H; [lia|].
  cbn [be_read] in H.
  destruct (next_size sizes cur) as [sz cur'].
  destruct (dr_read d t (pos_size sz)) as [[[o1 e1] d1] t1] eqn:Hrd.
  destruct (dr_read_spec _ _ _ _ _ _ _ Htr (pos_size_pos sz) Hb Hrd) as (Hlim & Hll & Hro).
  destruct e1 as [err|].
  - inversion H; subst out e d' t'; clear H.
    exists o1. split; [reflexivity|].
    inversion Hro; subst.
    + split; [assumption|]. split; [exact Hll|]. split; [exact Hlim|]. apply RS_eof; auto.
    + split; [intros _; cbn; lia|]. split; [exact Hll|]. split; [exact Hlim|].
      eapply RS_large; eauto; cbn; lia.
    + split; [assumption|]. split; [exact Hll|]. split; [exact Hlim|]. apply RS_fail; auto.
  - inversion Hro as [A B C D E F G| | |]; subst.
    assert (Hb1 : budget_ok d1).
    { unfold budget_ok. rewrite Hlim. intros Hl. apply G in Hl. lia. }
    assert (Hf1 : phi (d_state d1) t1 + 1 < fuel) by lia.
    destruct (IH sizes cur' (got ++ o1) d1 t1 out e d' t' B Hb1 Hf1 H) as (o2 & Ho & Hbud & Hll2 & Hlim2 & Hrs).
    exists (o1 ++ o2). split; [rewrite Ho, app_assoc; reflexivity|].
    split.
    { intros Hl. rewrite app_length. rewrite Hlim in Hbud. specialize (Hbud Hl). apply G in Hl. lia. }
    split; [congruence|]. split; [congruence|].
    inversion Hrs; subst.
    + apply RS_eof; auto; try congruence. rewrite A, H0, prepend_app. reflexivity.
    + eapply RS_large; [congruence| |].
      * rewrite app_length. rewrite Hlim in H0. apply G in H0. lia.
      * rewrite A, H2, prepend_app, app_assoc. reflexivity.
    + rewrite C. apply RS_fail; auto. rewrite A, H1, prepend_app. reflexivity.
Qed.

Lemma phi_fuel q t : phi q t + 1 < be_fuel t.
Proof.
  unfold phi, be_fuel. pose proof (tstream_avail t). destruct q; lia.
Qed.

Lemma budget_ok_new mx : budget_ok (new_data_reader mx).
Proof.
  unfold budget_ok, new_data_reader. destruct (0 <? mx)%Z eqn:E; cbn; intros H; [|discriminate].
  apply Z.ltb_lt in E. lia.
Qed.

Lemma prepend_complete_inv o b1 r1 b2 r2 :
  Complete b1 r1 = prepend o (Complete b2 r2) -> b1 = o ++ b2 /\ r1 = r2.
Proof. cbn. intros H; inversion H; auto. Qed.

(* ---------- C01: the DATA body reaches the backend byte-exact ---------- *)

Theorem data_byte_exact (t : transport) (sizes : list nat) :
  transparent t ->
  let '(out, e, d', t') := backend_reads sizes None (new_data_reader 0) t in
  match unstuff (tstream t) with
  | Complete body rest =>
      out = body /\ e = Some REOF /\ tstream t' = rest /\ transparent t' /\
      tterm t' = tterm t /\ t_limit t' = t_limit t
  | Incomplete body =>
      e = Some (rerr_of_terr (tterm t)) /\
      exists w, body = out ++ w /\ List.length w <= 1
  end.
Proof.
  intros Htr. unfold backend_reads.
  destruct (be_read (be_fuel t) sizes [] None [] (new_data_reader 0) t) as [[[out e] d'] t'] eqn:H.
  destruct (be_read_spec _ _ _ _ _ _ _ _ _ _ Htr (budget_ok_new 0) (phi_fuel _ t) H)
    as (o & Ho & _ & Hl & _ & Hrs).
  cbn in Ho. subst out.
  inversion Hrs; subst; change (d_state (new_data_reader 0)) with SBeginLine in *; cbn [spec_of] in *.
  - rewrite H0. cbn. rewrite app_nil_r. auto 10.
  - cbn in H0. discriminate.
  - rewrite H1. cbn. split; [reflexivity|]. eexists; split; [reflexivity|].
    destruct (d_state d'); cbn; lia.
Qed.

(* the same message delivered by any two schedules and read with any buffer
   sizes gives the same octets *)
Corollary data_schedule_independent (t1 t2 : transport) (sizes1 sizes2 : list nat) body rest :
  transparent t1 -> transparent t2 ->
  unstuff (tstream t1) = Complete body rest -> tstream t2 = tstream t1 ->
  let '(out1, e1, _, t1') := backend_reads sizes1 None (new_data_reader 0) t1 in
  let '(out2, e2, _, t2') := backend_reads sizes2 None (new_data_reader 0) t2 in
  out1 = body /\ out2 = body /\ e1 = Some REOF /\ e2 = Some REOF /\
  tstream t1' = rest /\ tstream t2' = rest.
Proof.
  intros H1 H2 Hu Hs.
  pose proof (data_byte_exact t1 sizes1 H1) as A.
  pose proof (data_byte_exact t2 sizes2 H2) as B.
  rewrite Hs in B. rewrite Hu in A, B.
  destruct (backend_reads sizes1 None (new_data_reader 0) t1) as [[[o1 e1] d1] t1'].
  destruct (backend_reads sizes2 None (new_data_reader 0) t2) as [[[o2 e2] d2] t2'].
  tauto.
Qed.
