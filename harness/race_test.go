//go:build verif

package harness

// Forced-schedule scenarios for property C20, to be run under the race
// detector:
//
//	cd harness && go test -race -tags verif -run Scenario -count=1 ./...
//
// They SUPPORT the runtime part of C20 (real goroutines, real -race reports,
// real leaks); they are not the proof.  Every scenario has a watchdog (a hang
// is reported as a deadlock with all stacks) and ends with a goroutine-leak
// check.  A "WARNING: DATA RACE" printed by the runtime is matched by
// bin/checkcfg.py against the pairs of LocksetInst.known_races; a failing
// scenario is reported by it as a violation of C20.

import (
	"bufio"
	"bytes"
	"crypto/tls"
	"context"
	"errors"
	"fmt"
	"io"
	"log"
	"net"
	"runtime"
	"strings"
	"sync"
	"sync/atomic"
	"testing"
	"time"

	sasl "github.com/emersion/go-sasl"
	smtp "github.com/emersion/go-smtp"
)

const scWatchdog = 15 * time.Second

// ---- a backend whose deliveries can be held at two points ----

type scBackend struct {
	mu       sync.Mutex
	n        int                   // deliveries started
	holdRead map[int]chan struct{} // delivery k does not start reading before this is closed
	holdRet  map[int]chan struct{} // delivery k does not return before this is closed
	entered  chan int              // delivery k entered Data
	readDone chan int              // delivery k's reader ended
	got      map[int]string
	readErr  map[int]error
	returned int32
}

func newScBackend() *scBackend {
	return &scBackend{holdRead: map[int]chan struct{}{}, holdRet: map[int]chan struct{}{},
		entered: make(chan int, 16), readDone: make(chan int, 16), got: map[int]string{}, readErr: map[int]error{}}
}

func (b *scBackend) NewSession(*smtp.Conn) (smtp.Session, error) { return &scSession{b: b}, nil }

type scSession struct{ b *scBackend }

func (s *scSession) Reset()                               {}
func (s *scSession) Logout() error                        { return nil }
func (s *scSession) Mail(string, *smtp.MailOptions) error { return nil }
func (s *scSession) Rcpt(string, *smtp.RcptOptions) error { return nil }
func (s *scSession) Data(r io.Reader) error {
	b := s.b
	b.mu.Lock()
	k := b.n
	b.n++
	hr, ht := b.holdRead[k], b.holdRet[k]
	b.mu.Unlock()
	b.entered <- k
	if hr != nil {
		select {
		case <-hr:
		case <-time.After(2 * scWatchdog):
		}
	}
	data, err := io.ReadAll(r)
	b.mu.Lock()
	b.got[k] = string(data)
	b.readErr[k] = err
	b.mu.Unlock()
	b.readDone <- k
	if ht != nil {
		select {
		case <-ht:
		case <-time.After(2 * scWatchdog):
		}
	}
	atomic.AddInt32(&b.returned, 1)
	return err // the contract: return once the reader has failed
}

type scLMTPSession struct{ *scSession }

func (s scLMTPSession) LMTPData(r io.Reader, st smtp.StatusCollector) error {
	return s.scSession.Data(r)
}

type scLMTPBackend struct{ *scBackend }

func (b scLMTPBackend) NewSession(*smtp.Conn) (smtp.Session, error) {
	return scLMTPSession{&scSession{b: b.scBackend}}, nil
}

// ---- server + raw client ----

type scEnv struct {
	t        *testing.T
	s        *smtp.Server
	l        *lifeListener
	serveRet chan error
	c        net.Conn
	sc       *closeNotifyConn
	r        *bufio.Reader
}

func scStart(t *testing.T, be smtp.Backend, lmtp bool) *scEnv { return scStartWith(t, be, lmtp, nil) }

// scStartWith: cfg may set further fields of the server before it starts serving
func scStartWith(t *testing.T, be smtp.Backend, lmtp bool, cfg func(*smtp.Server)) *scEnv {
	s := smtp.NewServer(be)
	s.Domain = "verif"
	s.LMTP = lmtp
	s.ErrorLog = log.New(io.Discard, "", 0)
	if cfg != nil {
		cfg(s)
	}
	l := newLifeListener()
	e := &scEnv{t: t, s: s, l: l, serveRet: make(chan error, 1)}
	go func() { e.serveRet <- s.Serve(l) }()
	c1, c2 := net.Pipe()
	e.sc = &closeNotifyConn{Conn: c2, closed: make(chan struct{}), written: make(chan struct{})}
	select {
	case l.next <- lifeItem{conn: e.sc}:
	case <-time.After(scWatchdog):
		e.hang("Accept was never called")
	}
	e.c = c1
	e.r = bufio.NewReader(c1)
	e.expect("220")
	return e
}

func (e *scEnv) hang(what string) {
	e.t.Helper()
	e.t.Fatalf("DEADLOCK/hang: %s\n%s", what, allStacks())
}

func (e *scEnv) send(s string) {
	e.t.Helper()
	e.c.SetWriteDeadline(time.Now().Add(scWatchdog))
	if _, err := io.WriteString(e.c, s); err != nil {
		e.t.Fatalf("write %q: %v", s, err)
	}
}

// sendAsync: the server may not be reading (it is blocked elsewhere)
func (e *scEnv) sendAsync(s string) chan error {
	ch := make(chan error, 1)
	go func() {
		_, err := io.WriteString(e.c, s)
		ch <- err
	}()
	return ch
}

func (e *scEnv) reply() (string, error) {
	var last string
	for {
		e.c.SetReadDeadline(time.Now().Add(scWatchdog))
		line, err := e.r.ReadString('\n')
		if err != nil {
			return last, err
		}
		last = line
		if len(line) >= 4 && line[3] == ' ' {
			return line, nil
		}
	}
}

func (e *scEnv) expect(code string) string {
	e.t.Helper()
	line, err := e.reply()
	if err != nil {
		if ne, ok := err.(net.Error); ok && ne.Timeout() {
			e.hang("no reply (expected " + code + ")")
		}
		e.t.Fatalf("expected %s, got error %v", code, err)
	}
	if !strings.HasPrefix(line, code) {
		e.t.Fatalf("expected %s, got %q", code, line)
	}
	return line
}

func (e *scEnv) waitK(ch chan int, what string) int {
	e.t.Helper()
	select {
	case k := <-ch:
		return k
	case <-time.After(scWatchdog):
		e.hang(what)
	}
	return -1
}

// finish: close the server (unless done), wait for Serve and the handler,
// check that no delivery goroutine is left behind.
func (e *scEnv) finish(closeServer bool) {
	e.t.Helper()
	if closeServer {
		ret := make(chan error, 1)
		go func() { ret <- e.s.Close() }()
		select {
		case err := <-ret:
			if err != nil {
				e.t.Errorf("Close: %v", err)
			}
		case <-time.After(scWatchdog):
			e.hang("Server.Close did not return")
		}
	}
	select {
	case err := <-e.serveRet:
		if err != nil {
			e.t.Errorf("Serve returned %v", err)
		}
	case <-time.After(scWatchdog):
		e.hang("Serve did not return after Close")
	}
	select {
	case <-e.sc.closed:
	case <-time.After(scWatchdog):
		e.hang("the connection was not closed")
	}
	e.c.Close()
	deadline := time.Now().Add(scWatchdog)
	for smtpGoroutinesAlive() {
		if time.Now().After(deadline) {
			e.t.Fatalf("GOROUTINE LEAK: a delivery goroutine is left behind\n%s", allStacks())
		}
		time.Sleep(time.Millisecond)
	}
	if err := e.s.Close(); err != smtp.ErrServerClosed {
		e.t.Errorf("second Close: %v, want ErrServerClosed", err)
	}
	if err := e.s.Shutdown(context.Background()); err != smtp.ErrServerClosed {
		e.t.Errorf("Shutdown after Close: %v, want ErrServerClosed", err)
	}
}

// ---- A: the slow delivery of an aborted chunked transfer ----

func scenarioSlowBdat(t *testing.T, when string) { scenarioSlowBdatL(t, when, false) }

func scenarioSlowBdatL(t *testing.T, when string, lmtp bool) {
	be := newScBackend()
	gate := make(chan struct{})
	be.holdRet[0] = gate
	e := scStart(t, be, lmtp)
	if lmtp {
		e.send("LHLO x\r\n")
	} else {
		e.send("EHLO x\r\n")
	}
	e.expect("250")
	e.send("MAIL FROM:<a@b>\r\n")
	e.expect("250")
	e.send("RCPT TO:<c@d>\r\n")
	e.expect("250")
	e.send("BDAT 3\r\nabc")
	e.expect("250")
	e.send("RSET\r\n") // aborts: delivery 0's reader fails, its backend is slow to return
	e.expect("250")
	if k := e.waitK(be.readDone, "delivery 0 never saw its reader fail"); k != 0 {
		t.Fatalf("delivery %d", k)
	}
	if be.readErr[0] != smtp.ErrDataReset {
		t.Errorf("aborted delivery read error %v, want ErrDataReset", be.readErr[0])
	}
	if when == "before" {
		close(gate)
	}
	e.send("MAIL FROM:<e@f>\r\n")
	e.expect("250")
	e.send("RCPT TO:<g@h>\r\n")
	e.expect("250")
	e.send("BDAT 3 LAST\r\nxyz")
	if when == "during" {
		e.waitK(be.entered, "delivery 0 entered") // drain
		close(gate)
	}
	line := e.expect("250") // the verdict of THIS transaction, not of the aborted one
	if !strings.Contains(line, "queued") {
		t.Errorf("reply %q", line)
	}
	e.send("QUIT\r\n")
	e.expect("221")
	if when == "after" {
		close(gate)
	}
	e.finish(true)
	be.mu.Lock()
	defer be.mu.Unlock()
	if be.got[1] != "xyz" || be.got[0] != "abc" {
		t.Errorf("deliveries got %q / %q", be.got[0], be.got[1])
	}
	if atomic.LoadInt32(&be.returned) != 2 {
		t.Errorf("%d deliveries returned, want 2", be.returned)
	}
}

func TestScenarioSlowBdatBefore(t *testing.T) { scenarioSlowBdat(t, "before") }
func TestScenarioSlowBdatDuring(t *testing.T) { scenarioSlowBdat(t, "during") }
func TestScenarioSlowBdatAfter(t *testing.T)  { scenarioSlowBdat(t, "after") }

// the same on an LMTP server whose backend has no LMTPSession (the delivery goroutine sets the statuses
// of ITS OWN recipients while the command loop collects the recipients of the next transaction)
func TestScenarioSlowBdatLMTPBefore(t *testing.T) { scenarioSlowBdatL(t, "before", true) }
func TestScenarioSlowBdatLMTPDuring(t *testing.T) { scenarioSlowBdatL(t, "during", true) }
func TestScenarioSlowBdatLMTPAfter(t *testing.T)  { scenarioSlowBdatL(t, "after", true) }

// ---- B: Server.Close at different points of a connection ----

func TestScenarioCloseIdle(t *testing.T) {
	e := scStart(t, newScBackend(), false)
	e.send("EHLO x\r\n")
	e.expect("250")
	e.finish(true)
}

func TestScenarioCloseMidData(t *testing.T) {
	be := newScBackend()
	e := scStart(t, be, false)
	e.send("EHLO x\r\n")
	e.expect("250")
	e.send("MAIL FROM:<a@b>\r\n")
	e.expect("250")
	e.send("RCPT TO:<c@d>\r\n")
	e.expect("250")
	e.send("DATA\r\n")
	e.expect("354")
	e.send("half a mess")
	e.waitK(be.entered, "Data was not called")
	e.finish(true)
	if k := e.waitK(be.readDone, "the DATA reader did not fail after Close"); be.readErr[k] == nil {
		t.Errorf("an incomplete message was presented as complete")
	}
}

// the loop is blocked reading the chunk from the network
func TestScenarioCloseMidBdatNet(t *testing.T) {
	be := newScBackend()
	e := scStart(t, be, false)
	e.send("EHLO x\r\n")
	e.expect("250")
	e.send("MAIL FROM:<a@b>\r\n")
	e.expect("250")
	e.send("RCPT TO:<c@d>\r\n")
	e.expect("250")
	e.send("BDAT 10\r\nabc")
	e.waitK(be.entered, "Data was not called")
	e.finish(true)
	e.waitK(be.readDone, "the BDAT reader did not fail after Close")
}

// the loop is blocked in the pipe write (the backend is not reading)
func scenarioCloseMidBdatPipe(t *testing.T, lmtp bool, last bool) {
	be := newScBackend()
	hold := make(chan struct{})
	be.holdRead[0] = hold
	var b smtp.Backend = be
	hello := "EHLO x\r\n"
	if lmtp {
		b = scLMTPBackend{be}
		hello = "LHLO x\r\n"
	}
	e := scStart(t, b, lmtp)
	e.send(hello)
	e.expect("250")
	e.send("MAIL FROM:<a@b>\r\n")
	e.expect("250")
	e.send("RCPT TO:<c@d>\r\n")
	e.expect("250")
	if last {
		e.send("BDAT 3 LAST\r\nabc")
	} else {
		e.send("BDAT 3\r\nabc")
	}
	e.waitK(be.entered, "Data was not called")
	time.Sleep(2 * time.Millisecond) // let the loop reach the pipe write
	done := make(chan struct{})
	go func() {
		defer close(done)
		e.s.Close()
	}()
	select {
	case <-done:
	case <-time.After(scWatchdog):
		e.hang("Server.Close blocks")
	}
	close(hold)
	// drain whatever the handler still writes (net.Pipe is synchronous)
	go io.Copy(io.Discard, e.r)
	e.finish(false)
	e.waitK(be.readDone, "the BDAT reader did not fail after Close")
}

func TestScenarioCloseMidBdatPipe(t *testing.T)         { scenarioCloseMidBdatPipe(t, false, false) }
func TestScenarioCloseMidBdatPipeLast(t *testing.T)     { scenarioCloseMidBdatPipe(t, false, true) }
func TestScenarioCloseMidBdatPipeLMTP(t *testing.T)     { scenarioCloseMidBdatPipe(t, true, false) }
func TestScenarioCloseMidBdatPipeLMTPLast(t *testing.T) { scenarioCloseMidBdatPipe(t, true, true) }

// between two chunks: c.bdatPipe is set, the loop waits for the next command
func TestScenarioCloseBetweenChunks(t *testing.T) {
	be := newScBackend()
	e := scStart(t, be, false)
	e.send("EHLO x\r\n")
	e.expect("250")
	e.send("MAIL FROM:<a@b>\r\n")
	e.expect("250")
	e.send("RCPT TO:<c@d>\r\n")
	e.expect("250")
	e.send("BDAT 3\r\nabc")
	e.expect("250")
	e.finish(true)
	k := e.waitK(be.readDone, "the BDAT reader did not fail after Close")
	if be.readErr[k] != smtp.ErrDataReset {
		t.Errorf("read error %v, want ErrDataReset", be.readErr[k])
	}
}

func TestScenarioCloseMidLMTPData(t *testing.T) {
	be := newScBackend()
	e := scStart(t, scLMTPBackend{be}, true)
	e.send("LHLO x\r\n")
	e.expect("250")
	e.send("MAIL FROM:<a@b>\r\n")
	e.expect("250")
	e.send("RCPT TO:<c@d>\r\n")
	e.expect("250")
	e.send("RCPT TO:<e@f>\r\n")
	e.expect("250")
	e.send("DATA\r\n")
	e.expect("354")
	e.send("half a mess")
	e.waitK(be.entered, "LMTPData was not called")
	go io.Copy(io.Discard, e.r)
	e.finish(true)
	e.waitK(be.readDone, "the LMTP DATA reader did not fail after Close")
}

// an LMTP backend that gives every recipient its status BEFORE it reads the message: the replies may go
// out early, but the command loop must not go on before LMTPData has returned (the delivery goroutine is
// joined) - otherwise the message text is read by two goroutines and parsed as commands
type scEarlySession struct {
	*scSession
	rcpts []string
}

func (s *scEarlySession) Rcpt(to string, _ *smtp.RcptOptions) error {
	s.rcpts = append(s.rcpts, to)
	return nil
}

func (s *scEarlySession) LMTPData(r io.Reader, st smtp.StatusCollector) error {
	for _, to := range s.rcpts {
		st.SetStatus(to, &smtp.SMTPError{Code: 552, EnhancedCode: smtp.EnhancedCode{5, 2, 2}, Message: "over quota"})
	}
	s.rcpts = nil
	return s.scSession.Data(r)
}

type scEarlyBackend struct{ *scBackend }

func (b scEarlyBackend) NewSession(*smtp.Conn) (smtp.Session, error) {
	return &scEarlySession{scSession: &scSession{b: b.scBackend}}, nil
}

func TestScenarioLMTPEarlyStatuses(t *testing.T) {
	be := newScBackend()
	hold := make(chan struct{})
	be.holdRead[0] = hold
	e := scStart(t, scEarlyBackend{be}, true)
	e.send("LHLO x\r\n")
	e.expect("250")
	e.send("MAIL FROM:<a@b>\r\n")
	e.expect("250")
	e.send("RCPT TO:<c@d>\r\n")
	e.expect("250")
	e.send("RCPT TO:<e@f>\r\n")
	e.expect("250")
	e.send("DATA\r\n")
	e.expect("354")
	body := "NOOP\r\nline two of the message\r\n"
	wr := e.sendAsync(body + ".\r\nNOOP\r\n")
	e.waitK(be.entered, "LMTPData was not called")
	e.expect("552")
	e.expect("552")
	// the backend has not read the message yet: nothing more may be answered
	e.c.SetReadDeadline(time.Now().Add(400 * time.Millisecond))
	if line, err := e.r.ReadString('\n'); err == nil {
		t.Errorf("the command loop went on while LMTPData was still running: got %q", line)
	}
	close(hold)
	k := e.waitK(be.readDone, "LMTPData did not finish reading")
	be.mu.Lock()
	got, rerr := be.got[k], be.readErr[k]
	be.mu.Unlock()
	if got != body || rerr != nil {
		t.Errorf("LMTPData read %q (%v), want the whole message %q", got, rerr, body)
	}
	select {
	case err := <-wr:
		if err != nil {
			t.Errorf("client write: %v", err)
		}
	case <-time.After(scWatchdog):
		e.hang("the client's write never completed")
	}
	e.expect("250") // the NOOP behind the end marker, and only that
	e.send("QUIT\r\n")
	e.expect("221")
	go io.Copy(io.Discard, e.r)
	e.finish(true)
}

// Close does not wait for a backend callback that is still running (it cannot be woken by closing the
// socket): Close returns, Serve returns, and the handler ends when the callback returns
func TestScenarioCloseWhileCallbackBlocked(t *testing.T) {
	be := newScBackend()
	hold := make(chan struct{})
	be.holdRet[0] = hold
	e := scStart(t, be, false)
	e.send("EHLO x\r\n")
	e.expect("250")
	e.send("MAIL FROM:<a@b>\r\n")
	e.expect("250")
	e.send("RCPT TO:<c@d>\r\n")
	e.expect("250")
	e.send("DATA\r\n")
	e.expect("354")
	e.send("a message\r\n.\r\n")
	e.waitK(be.readDone, "the backend did not read the message")
	ret := make(chan error, 1)
	go func() { ret <- e.s.Close() }()
	select {
	case err := <-ret:
		if err != nil {
			t.Errorf("Close: %v", err)
		}
	case <-time.After(3 * time.Second):
		close(hold)
		e.hang("Server.Close waits for a backend callback in progress (it did not return within 3 s)")
	}
	select {
	case err := <-e.serveRet:
		if err != nil {
			t.Errorf("Serve returned %v", err)
		}
		e.serveRet <- err
	case <-time.After(scWatchdog):
		close(hold)
		e.hang("Serve did not return after Close")
	}
	close(hold)
	go io.Copy(io.Discard, e.r)
	e.finish(false)
}

// Shutdown waits for the connection; the context ends the wait
func TestScenarioShutdownMidBdat(t *testing.T) {
	be := newScBackend()
	e := scStart(t, be, false)
	e.send("EHLO x\r\n")
	e.expect("250")
	e.send("MAIL FROM:<a@b>\r\n")
	e.expect("250")
	e.send("RCPT TO:<c@d>\r\n")
	e.expect("250")
	e.send("BDAT 3\r\nabc")
	e.expect("250")
	ctx, cancel := context.WithCancel(context.Background())
	ret := make(chan error, 1)
	go func() { ret <- e.s.Shutdown(ctx) }()
	select {
	case err := <-e.serveRet:
		if err != nil {
			t.Errorf("Serve returned %v", err)
		}
	case <-time.After(scWatchdog):
		e.hang("Serve did not return after Shutdown")
	}
	select {
	case err := <-ret:
		t.Fatalf("Shutdown returned %v with an active connection", err)
	case <-time.After(20 * time.Millisecond):
	}
	// the transaction goes on undisturbed
	e.send("BDAT 3 LAST\r\nxyz")
	e.expect("250")
	e.send("QUIT\r\n")
	e.expect("221")
	select {
	case err := <-ret:
		if err != nil {
			t.Errorf("Shutdown returned %v", err)
		}
	case <-time.After(scWatchdog):
		e.hang("Shutdown did not return after the last connection finished")
	}
	cancel()
	e.serveRet <- nil
	e.finish(false)
	if be.got[0] != "abcxyz" {
		t.Errorf("delivery got %q", be.got[0])
	}
}

func TestScenarioShutdownExpires(t *testing.T) {
	e := scStart(t, newScBackend(), false)
	e.send("EHLO x\r\n")
	e.expect("250")
	ctx, cancel := context.WithTimeout(context.Background(), 15*time.Millisecond)
	defer cancel()
	err := e.s.Shutdown(ctx)
	if !errors.Is(err, context.DeadlineExceeded) {
		t.Errorf("Shutdown returned %v, want the context's error", err)
	}
	e.send("NOOP\r\n") // the connection was not interrupted
	e.expect("250")
	e.send("QUIT\r\n")
	e.expect("221")
	e.finish(false)
}

// ---- formerly observations, now hard: DESIGN F21 (concurrent Close /
// Shutdown) and F28 (the accept-to-registration window of Close) ----

// Concurrent Close / Shutdown calls: exactly one of them finds the server open
// (and returns nil here: no listener fails to close); every other one returns
// ErrServerClosed; none panics ("close of closed channel": the test of s.done
// and close(s.done) must be one atomic step).  The callers are released by a
// spinning barrier so that they reach the test together.
func TestScenarioConcurrentClose(t *testing.T) {
	const tries = 1500
	const callers = 4
	panics, wrong := 0, 0
	var firstPanic interface{}
	for i := 0; i < tries; i++ {
		s := smtp.NewServer(lifeBackend{})
		s.ErrorLog = log.New(io.Discard, "", 0)
		var wg sync.WaitGroup
		var mu sync.Mutex
		var ready int32
		winners, losers := 0, 0
		for j := 0; j < callers; j++ {
			wg.Add(1)
			go func(j int) {
				defer wg.Done()
				defer func() {
					if r := recover(); r != nil {
						mu.Lock()
						panics++
						if firstPanic == nil {
							firstPanic = r
						}
						mu.Unlock()
					}
				}()
				atomic.AddInt32(&ready, 1)
				for atomic.LoadInt32(&ready) < callers {
					if runtime.GOMAXPROCS(0) < callers {
						runtime.Gosched()
					}
				}
				var err error
				if j%2 == 0 {
					err = s.Close()
				} else {
					err = s.Shutdown(context.Background())
				}
				mu.Lock()
				switch err {
				case nil:
					winners++
				case smtp.ErrServerClosed:
					losers++
				}
				mu.Unlock()
			}(j)
		}
		wg.Wait()
		if winners != 1 || losers != callers-1 {
			wrong++
		}
	}
	if panics > 0 {
		t.Errorf("concurrent Server.Close/Shutdown: %d panics (%v) in %d %d-way concurrent tries: s.done closed twice", panics, firstPanic, tries, callers)
	} else if wrong > 0 {
		t.Errorf("concurrent Server.Close/Shutdown: in %d of %d tries not exactly one caller returned nil and the %d others ErrServerClosed", wrong, tries, callers-1)
	}
}

// A connection that Accept returns immediately before Server.Close: whether
// its handler registers it before Close goes through s.conns or after, the
// server must end it.  (a) the natural race, whatever the scheduler does;
// (b) the window forced through the listener's Close (see genlife.go).
func TestScenarioCloseBeforeRegistration(t *testing.T) {
	survivors := 0
	const tries = 200
	for i := 0; i < tries; i++ {
		forced := i%2 == 1
		s := smtp.NewServer(lifeBackend{})
		s.Domain = "verif"
		s.ErrorLog = log.New(io.Discard, "", 0)
		l := newLifeListener()
		ret := make(chan error, 1)
		go func() { ret <- s.Serve(l) }()
		<-l.called
		var c1 net.Conn
		var sc *closeNotifyConn
		if forced {
			lc, ran := l.armWindow()
			c1, sc = lc.client, lc.server
			if err := s.Close(); err != nil {
				t.Fatalf("Close: %v", err)
			}
			if !<-ran {
				t.Fatalf("the connection was not accepted during Close\n%s", allStacks())
			}
		} else {
			var c2 net.Conn
			c1, c2 = net.Pipe()
			sc = &closeNotifyConn{Conn: c2, closed: make(chan struct{}), written: make(chan struct{})}
			l.next <- lifeItem{conn: sc}
			s.Close() // races with the new handler goroutine registering the connection
		}
		select {
		case <-ret:
		case <-time.After(scWatchdog):
			t.Fatalf("Serve did not return after Close\n%s", allStacks())
		}
		// a connection that Close missed greets and keeps being served
		select {
		case <-sc.closed:
		case <-sc.written:
			c1.SetReadDeadline(time.Now().Add(50 * time.Millisecond))
			line, err := bufio.NewReader(c1).ReadString('\n')
			if err == nil && strings.HasPrefix(line, "220") {
				select {
				case <-sc.closed:
				default:
					survivors++
				}
			}
		case <-time.After(scWatchdog):
			t.Fatalf("the connection accepted just before Close was neither closed nor greeted\n%s", allStacks())
		}
		c1.Close()
		select {
		case <-sc.closed:
		case <-time.After(scWatchdog):
			t.Fatalf("handler did not end")
		}
	}
	if survivors > 0 {
		t.Errorf("close-before-registration: %d of %d connections accepted just before Server.Close were not closed by it but greeted and served (their handler had not registered them yet)", survivors, tries)
	}
}

// The same window for Shutdown: the connection is not served (Shutdown stops
// accepting), its handler returns, and Shutdown - which waits for the
// handlers - returns nil without waiting for the peer.
func TestScenarioShutdownBeforeRegistration(t *testing.T) {
	for i := 0; i < 50; i++ {
		s := smtp.NewServer(lifeBackend{})
		s.Domain = "verif"
		s.ErrorLog = log.New(io.Discard, "", 0)
		l := newLifeListener()
		ret := make(chan error, 1)
		go func() { ret <- s.Serve(l) }()
		<-l.called
		lc, ran := l.armWindow()
		sdRet := make(chan error, 1)
		go func() { sdRet <- s.Shutdown(context.Background()) }()
		if !<-ran {
			t.Fatalf("the connection was not accepted during Shutdown\n%s", allStacks())
		}
		select {
		case err := <-sdRet:
			if err != nil {
				t.Errorf("Shutdown: %v", err)
			}
		case <-lc.server.written:
			t.Fatalf("a connection accepted during Server.Shutdown was greeted and is served; Shutdown waits for its peer")
		case <-time.After(scWatchdog):
			t.Fatalf("Shutdown did not return\n%s", allStacks())
		}
		select {
		case <-lc.server.closed:
		default:
			t.Errorf("Shutdown returned although the connection accepted during it is not closed")
		}
		<-ret
		lc.client.Close()
	}
}

// Server.Close must end a connection that is still inside the implicit-TLS
// handshake (the peer has connected to a TLS listener and sends nothing).
func TestScenarioCloseDuringImplicitTLSHandshake(t *testing.T) {
	s := smtp.NewServer(lifeBackend{})
	s.Domain = "verif"
	s.ErrorLog = log.New(io.Discard, "", 0)
	l := newLifeListener()
	ret := make(chan error, 1)
	go func() { ret <- s.Serve(l) }()
	<-l.called
	c1, c2 := net.Pipe()
	defer c1.Close()
	sc := &closeNotifyConn{Conn: c2, closed: make(chan struct{}), written: make(chan struct{})}
	l.next <- lifeItem{conn: tls.Server(sc, serverTLSConfig())}
	// let the handler goroutine reach the handshake (it blocks reading the ClientHello)
	<-l.called
	time.Sleep(100 * time.Millisecond)
	if err := s.Close(); err != nil {
		t.Fatalf("Close: %v", err)
	}
	select {
	case <-ret:
	case <-time.After(scWatchdog):
		t.Fatalf("Serve did not return after Close")
	}
	select {
	case <-sc.closed:
	case <-time.After(scWatchdog):
		t.Fatalf("Server.Close did not end the connection that was stalled in the implicit-TLS handshake")
	}
	deadline := time.Now().Add(scWatchdog)
	for smtpHandlerAlive() {
		if time.Now().After(deadline) {
			t.Fatalf("a connection goroutine outlived Server.Close (stalled implicit-TLS handshake)")
		}
		time.Sleep(time.Millisecond)
	}
}

func smtpHandlerAlive() bool {
	return bytes.Contains(allStacks(), []byte("go-smtp.(*Server).handleConn"))
}

// ---- a listener whose Close returns an error (seed C20G) ----
//
// Server.Close / Shutdown remember the error, carry on and return it at the
// end: Close still ends the connection that is being served, Shutdown still
// waits for it.  (A Close / Shutdown that returns AT the error leaves the
// connection served on a server that answers ErrServerClosed from then on.)

func scenarioListenerCloseError(t *testing.T, mode string, shutdown bool) {
	e := scStart(t, newScBackend(), false)
	e.l.mu.Lock()
	e.l.failClose = mode
	e.l.mu.Unlock()
	e.send("EHLO x\r\n")
	e.expect("250")
	e.send("MAIL FROM:<a@b>\r\n")
	e.expect("250")
	if !shutdown {
		if err := e.s.Close(); err != errLifeLisClose {
			t.Errorf("Close returned %v, want the listener's error", err)
		}
		select {
		case <-e.sc.closed:
		case <-time.After(300 * time.Millisecond):
			t.Errorf("Close returned (the listener's Close failed) and left the connection open")
		}
		e.finish(false)
		return
	}
	ret := make(chan error, 1)
	go func() { ret <- e.s.Shutdown(context.Background()) }()
	select {
	case err := <-ret:
		t.Errorf("Shutdown returned %v (the listener's Close failed) with an active connection", err)
		ret <- err
	case <-time.After(30 * time.Millisecond):
	}
	e.send("RCPT TO:<c@d>\r\n") // the connection is not interrupted
	e.expect("250")
	e.send("QUIT\r\n")
	e.expect("221")
	select {
	case err := <-ret:
		if err != errLifeLisClose {
			t.Errorf("Shutdown returned %v, want the listener's error", err)
		}
	case <-time.After(scWatchdog):
		e.hang("Shutdown did not return after the last connection finished")
	}
	e.finish(false)
}

func TestScenarioListenerCloseErrorClose(t *testing.T)       { scenarioListenerCloseError(t, "once", false) }
func TestScenarioListenerCloseErrorCloseAlways(t *testing.T) { scenarioListenerCloseError(t, "always", false) }
func TestScenarioListenerCloseErrorShutdown(t *testing.T)    { scenarioListenerCloseError(t, "once", true) }


// ---- several connections on one server (every other case kind serves one connection per server) ----

type mcBackend struct {
	mu   sync.Mutex
	got  map[string]string // sender -> message read
	errs map[string]error
	mech []string
}

type mcSession struct {
	b    *mcBackend
	from string
}

func (b *mcBackend) NewSession(*smtp.Conn) (smtp.Session, error) { return &mcSession{b: b}, nil }
func (s *mcSession) Reset()                                      {}
func (s *mcSession) Logout() error                               { return nil }
func (s *mcSession) Mail(from string, _ *smtp.MailOptions) error { s.from = from; return nil }
func (s *mcSession) Rcpt(string, *smtp.RcptOptions) error        { return nil }
func (s *mcSession) Data(r io.Reader) error {
	data, err := io.ReadAll(r)
	s.b.mu.Lock()
	s.b.got[s.from] = string(data)
	s.b.errs[s.from] = err
	s.b.mu.Unlock()
	return err
}

type mcClient struct {
	t *testing.T
	c net.Conn
	r *bufio.Reader
}

func mcDial(t *testing.T, addr string) *mcClient {
	c, err := net.Dial("tcp", addr)
	if err != nil {
		t.Fatal(err)
	}
	cl := &mcClient{t: t, c: c, r: bufio.NewReader(c)}
	cl.expect("220")
	return cl
}

func (cl *mcClient) send(s string) {
	cl.c.SetWriteDeadline(time.Now().Add(scWatchdog))
	if _, err := io.WriteString(cl.c, s); err != nil {
		cl.t.Fatalf("write %q: %v", s, err)
	}
}

func (cl *mcClient) expect(code string) string {
	cl.t.Helper()
	for {
		cl.c.SetReadDeadline(time.Now().Add(scWatchdog))
		line, err := cl.r.ReadString('\n')
		if err != nil {
			cl.t.Fatalf("expected %s, got error %v", code, err)
		}
		if len(line) >= 4 && line[3] == ' ' {
			if !strings.HasPrefix(line, code) {
				cl.t.Fatalf("expected %s, got %q", code, line)
			}
			return line
		}
	}
}

// a message in transit on one connection is not disturbed by other connections of the same server that come
// and go (earlier connections ended by QUIT and by the peer, later ones greeted while the DATA is half-way)
func TestScenarioC01_BodyWhileOtherConnectionsComeAndGo(t *testing.T) {
	be := &mcBackend{got: map[string]string{}, errs: map[string]error{}}
	s := smtp.NewServer(be)
	s.Domain = "verif"
	s.ErrorLog = log.New(io.Discard, "", 0)
	ln, err := net.Listen("tcp", "127.0.0.1:0")
	if err != nil {
		t.Fatal(err)
	}
	go s.Serve(ln)
	defer s.Close()
	addr := ln.Addr().String()
	body := func(tag string) string {
		var sb strings.Builder
		for i := 0; i < 40; i++ {
			fmt.Fprintf(&sb, "%s line %d of the message, with a dot line after it\r\n..%s\r\n", tag, i, tag)
		}
		return sb.String()
	}
	unstuffed := func(b string) string { return strings.ReplaceAll(b, "\r\n..", "\r\n.") }
	for round := 0; round < 3; round++ {
		// earlier connections: one ends with QUIT, one is dropped by the peer, one sends a whole message
		a := mcDial(t, addr)
		a.send("EHLO a\r\nQUIT\r\n")
		a.expect("250")
		a.expect("221")
		a.c.Close()
		d := mcDial(t, addr)
		d.send("EHLO d\r\n")
		d.expect("250")
		d.c.Close()
		time.Sleep(20 * time.Millisecond)
		// B is half-way through its message when C and D are accepted, talk and leave
		b := mcDial(t, addr)
		from := fmt.Sprintf("b%d@x", round)
		b.send("EHLO b\r\nMAIL FROM:<" + from + ">\r\nRCPT TO:<r@x>\r\nDATA\r\n")
		b.expect("250")
		b.expect("250")
		b.expect("250")
		b.expect("354")
		msg := body("B")
		b.send(msg[:len(msg)/2])
		c := mcDial(t, addr)
		cfrom := fmt.Sprintf("c%d@x", round)
		cmsg := body("C")
		c.send("EHLO c\r\nMAIL FROM:<" + cfrom + ">\r\nRCPT TO:<r@x>\r\nDATA\r\n" + cmsg + ".\r\nQUIT\r\n")
		c.expect("250")
		c.expect("250")
		c.expect("250")
		c.expect("354")
		c.expect("250")
		c.expect("221")
		e := mcDial(t, addr)
		e.send("EHLO e\r\nNOOP\r\n")
		e.expect("250")
		e.expect("250")
		b.send(msg[len(msg)/2:] + ".\r\nQUIT\r\n")
		b.expect("250")
		b.expect("221")
		e.send("QUIT\r\n")
		e.expect("221")
		be.mu.Lock()
		gotB, errB, gotC, errC := be.got[from], be.errs[from], be.got[cfrom], be.errs[cfrom]
		be.mu.Unlock()
		if gotB != unstuffed(msg) || errB != nil {
			t.Fatalf("round %d: the backend read %d octets (err %v) of connection B's message, want its %d octets: %q...", round, len(gotB), errB, len(unstuffed(msg)), truncate(gotB, 120))
		}
		if gotC != unstuffed(cmsg) || errC != nil {
			t.Fatalf("round %d: the backend read %d octets (err %v) of connection C's message, want %d", round, len(gotC), errC, len(unstuffed(cmsg)))
		}
		b.c.Close()
		c.c.Close()
		e.c.Close()
	}
}

func truncate(s string, n int) string {
	if len(s) > n {
		return s[:n]
	}
	return s
}

// EHLO replies of connections greeted AT THE SAME TIME on one server (plaintext, with and without the
// permission to authenticate in the clear) each list exactly what holds for their own connection
func TestScenarioC12_ConcurrentGreetings(t *testing.T) {
	for _, insecure := range []bool{true, false} {
		be := &mcAuthBackend{mcBackend: mcBackend{got: map[string]string{}, errs: map[string]error{}}}
		s := smtp.NewServer(be)
		s.Domain = "verif"
		s.ErrorLog = log.New(io.Discard, "", 0)
		s.AllowInsecureAuth = insecure
		s.EnableSMTPUTF8, s.EnableDSN, s.MaxRecipients = true, true, 7
		ln, err := net.Listen("tcp", "127.0.0.1:0")
		if err != nil {
			t.Fatal(err)
		}
		go s.Serve(ln)
		addr := ln.Addr().String()
		want := ""
		var mu sync.Mutex
		var wg sync.WaitGroup
		for i := 0; i < 24; i++ {
			wg.Add(1)
			go func(i int) {
				defer wg.Done()
				c, err := net.Dial("tcp", addr)
				if err != nil {
					t.Error(err)
					return
				}
				defer c.Close()
				r := bufio.NewReader(c)
				c.SetDeadline(time.Now().Add(scWatchdog))
				r.ReadString('\n')
				for k := 0; k < 3; k++ {
					fmt.Fprintf(c, "EHLO same.example\r\n")
					reply := ""
					for {
						line, err := r.ReadString('\n')
						if err != nil {
							t.Errorf("connection %d: %v", i, err)
							return
						}
						reply += line
						if len(line) >= 4 && line[3] == ' ' {
							break
						}
					}
					mu.Lock()
					if want == "" {
						want = reply
					} else if reply != want {
						t.Errorf("insecure=%v: connection %d got the EHLO reply %q, another connection of the same server got %q", insecure, i, reply, want)
					}
					mu.Unlock()
				}
			}(i)
		}
		wg.Wait()
		hasAuth := strings.Contains(want, "AUTH PLAIN")
		if hasAuth != insecure {
			t.Errorf("insecure=%v: EHLO reply %q", insecure, want)
		}
		s.Close()
	}
}

type mcAuthBackend struct{ mcBackend }

type mcAuthSession struct{ mcSession }

func (b *mcAuthBackend) NewSession(*smtp.Conn) (smtp.Session, error) {
	return &mcAuthSession{mcSession{b: &b.mcBackend}}, nil
}
func (s *mcAuthSession) AuthMechanisms() []string { return []string{"PLAIN"} }
func (s *mcAuthSession) Auth(mech string) (sasl.Server, error) {
	return sasl.NewPlainServer(func(identity, username, password string) error { return nil }), nil
}


// an endless line: the server answers 500 once and CLOSES, however long the peer keeps sending
func TestScenarioC19_EndlessLineIsCutOff(t *testing.T) {
	for _, limit := range []int{100, 2000} {
		be := &mcBackend{got: map[string]string{}, errs: map[string]error{}}
		s := smtp.NewServer(be)
		s.Domain = "verif"
		s.MaxLineLength = limit
		s.ErrorLog = log.New(io.Discard, "", 0)
		ln, err := net.Listen("tcp", "127.0.0.1:0")
		if err != nil {
			t.Fatal(err)
		}
		go s.Serve(ln)
		cl := mcDial(t, ln.Addr().String())
		cl.send("EHLO x\r\n")
		cl.expect("250")
		stop := make(chan struct{})
		sent := make(chan int, 1)
		go func() {
			n := 0
			junk := []byte(strings.Repeat("A", 1024))
			for {
				select {
				case <-stop:
					sent <- n
					return
				default:
				}
				cl.c.SetWriteDeadline(time.Now().Add(200 * time.Millisecond))
				k, err := cl.c.Write(junk)
				n += k
				if err != nil {
					sent <- n
					return
				}
				time.Sleep(20 * time.Millisecond)
			}
		}()
		cl.expect("500")
		// from now on the connection must end: EOF (or a reset) within two seconds, although octets keep coming
		cl.c.SetReadDeadline(time.Now().Add(2 * time.Second))
		_, rerr := cl.r.ReadString('\n')
		close(stop)
		n := <-sent
		if ne, ok := rerr.(net.Error); ok && ne.Timeout() {
			t.Errorf("limit %d: two seconds after the 500 the server still keeps the connection of a peer that goes on sending (%d octets taken so far)", limit, n)
		}
		cl.c.Close()
		s.Close()
	}
}

// TestScenarioC19_FloodFromPeerThatStopsReading (seed C19N): a peer that sends junk commands and never reads a
// reply, on a server with a WriteTimeout. The replies cannot be delivered, but the errors still count: after more
// than three of them the connection is closed - the flood does not go on for as long as the peer likes.
func TestScenarioC19_FloodFromPeerThatStopsReading(t *testing.T) {
	for _, lmtp := range []bool{false, true} {
		be := &mcBackend{got: map[string]string{}, errs: map[string]error{}}
		s := smtp.NewServer(be)
		s.Domain = "verif"
		s.LMTP = lmtp
		s.WriteTimeout = 150 * time.Millisecond
		s.ReadTimeout = 10 * time.Second
		s.ErrorLog = log.New(io.Discard, "", 0)
		a, b := net.Pipe() // synchronous: a reply nobody reads blocks the server's write until its deadline
		l := &pipeListener{conn: b, done: make(chan struct{})}
		go s.Serve(l)
		// read the greeting, then never again
		buf := make([]byte, 512)
		a.SetReadDeadline(time.Now().Add(3 * time.Second))
		if _, err := a.Read(buf); err != nil {
			t.Fatalf("no greeting: %v", err)
		}
		a.SetReadDeadline(time.Time{})
		start := time.Now()
		sent, closed := 0, false
		for time.Since(start) < 6*time.Second {
			a.SetWriteDeadline(time.Now().Add(500 * time.Millisecond))
			if _, err := a.Write([]byte("XJUNK not a command\r\n")); err != nil {
				if ne, ok := err.(net.Error); ok && ne.Timeout() {
					continue // the server is busy failing to write: try again
				}
				closed = true
				break
			}
			sent++
		}
		if !closed {
			t.Errorf("lmtp=%v: the server took %d junk commands over %v from a peer that reads nothing and still keeps the connection", lmtp, sent, time.Since(start).Round(time.Millisecond))
		}
		a.Close()
		cdone := make(chan struct{})
		go func() { s.Close(); close(cdone) }()
		select {
		case <-cdone:
		case <-time.After(5 * time.Second):
			t.Errorf("lmtp=%v: Server.Close does not return", lmtp)
		}
	}
}

// TestScenarioC01_BodyWhileEarlyReplyCannotBeWritten (seed C01O): LMTP, the backend sets every status before it
// reads the message, WriteTimeout is set, and the client sends the whole message before it reads any reply over a
// connection without slack (net.Pipe).  The early replies cannot be written - but the message the client sends
// is complete and well-formed, so the backend reads exactly its octets and then EOF.
func TestScenarioC01_BodyWhileEarlyReplyCannotBeWritten(t *testing.T) {
	be := newScBackend()
	e := scStartWith(t, scEarlyBackend{be}, true, func(s *smtp.Server) { s.WriteTimeout = 200 * time.Millisecond })
	for _, c := range []string{"LHLO x", "MAIL FROM:<a@b>", "RCPT TO:<c@d>", "RCPT TO:<e@f>"} {
		e.send(c + "\r\n")
		e.expect("250")
	}
	e.send("DATA\r\n")
	e.expect("354")
	var body strings.Builder
	for i := 0; i < 30; i++ {
		line := fmt.Sprintf("line %02d of a message that takes its time .. NOOP\r\n", i)
		body.WriteString(line)
		e.send(line) // the backend is reading: each write is taken
		time.Sleep(25 * time.Millisecond)
	}
	e.send(".\r\n")
	k := e.waitK(be.readDone, "LMTPData did not finish reading")
	be.mu.Lock()
	got, rerr := be.got[k], be.readErr[k]
	be.mu.Unlock()
	if got != body.String() || rerr != nil {
		t.Errorf("LMTPData read %d octets (%v), want the whole message of %d octets and EOF", len(got), rerr, body.Len())
	}
	go io.Copy(io.Discard, e.r)
	e.finish(true)
}
