(* conn.go: xtext (RFC 3461) and utf-8-addr-xtext / unitext (RFC 6533)
   encoders and decoders, isPrintableASCII, decodeTypedAddress. *)
From Smtp Require Import Bytes GoStrings Utf8.
Local Open Scope char_scope.

(* upper-case hex digit value *)
Definition hexU (c : ascii) : option N :=
  if is_digit c then Some (byte_n c - 48)%N
  else if in_range 65 70 c then Some (byte_n c - 55)%N
  else None.
Definition is_hexU (c : ascii) : bool := match hexU c with Some _ => true | None => false end.

(* decodeXtext.  The regexp \+[0-9A-F]?[0-9A-F]? matches at every '+', as
   many of the two following upper-case hex digits as there are; a match
   shorter than 3, or a value above 0x7F (ParseInt bitSize 8), is an error. *)
Fixpoint decode_xtext_go (s : bytes) : option bytes :=
  match s with
  | [] => Some []
  | c :: t =>
      if Ascii.eqb c "+" then
        match t with
        | h1 :: h2 :: t' =>
            match hexU h1, hexU h2 with
            | Some a, Some b =>
                if (a * 16 + b <? 128)%N then
                  option_map (cons (n_byte (a * 16 + b))) (decode_xtext_go t')
                else None
            | _, _ => None
            end
        | _ => None
        end
      else option_map (cons c) (decode_xtext_go t)
  end.

Definition decode_xtext (s : bytes) : option bytes :=
  if contains_byte s "+" then decode_xtext_go s else Some s.

(* isPrintableASCII: every rune in ' '..'~' (an invalid or multi-octet rune is
   above '~') *)
Definition is_printable_ascii (s : bytes) : bool := forallb is_printable s.

Definition xtext_plain (c : ascii) : bool :=
  in_range 33 126 c && negb (Ascii.eqb c "+") && negb (Ascii.eqb c "=").

Definition hexdigitU (n : N) : ascii :=
  if (n <? 10)%N then n_byte (48 + n) else n_byte (55 + n).

(* strings.ToUpper(strconv.FormatInt(n, 16)) *)
Fixpoint hexU_of_pos_f (fuel : nat) (n : N) (acc : bytes) : bytes :=
  match fuel with
  | O => acc
  | S f => if (n =? 0)%N then acc else hexU_of_pos_f f (n / 16)%N (hexdigitU (n mod 16) :: acc)
  end.
Definition hexU_of_N (n : N) : bytes :=
  if (n =? 0)%N then bs "0" else hexU_of_pos_f 8 n [].

(* fmt %02X *)
Definition hex02 (n : N) : bytes :=
  if (n <? 16)%N then "0" :: hexU_of_N n else hexU_of_N n.

(* encodeXtext: iterates over runes *)
Definition encode_xtext_rune (cp : N) : bytes :=
  if (cp <? 128)%N && xtext_plain (n_byte cp) then [n_byte cp]
  else "+" :: hex02 cp.
Definition encode_xtext (s : bytes) : bytes := flat_map encode_xtext_rune (runes s).

Definition qchar (c : ascii) : bool := xtext_plain c && negb (Ascii.eqb c "\").

Definition embedded (cp : N) : bytes := bs "\x{" ++ hex02 cp ++ bs "}".

(* encodeUTF8AddrXtext *)
Definition encode_utf8_addr_xtext_rune (cp : N) : bytes :=
  if (cp <? 128)%N && qchar (n_byte cp) then [n_byte cp] else embedded cp.
Definition encode_utf8_addr_xtext (s : bytes) : bytes :=
  flat_map encode_utf8_addr_xtext_rune (runes s).

(* the non-ASCII code points for which unicode.IsSpace holds: U+0085, U+00A0
   (Latin-1) and the White_Space property above (U+1680, U+2000..U+200A,
   U+2028, U+2029, U+202F, U+205F, U+3000); their UTF-8 forms are
   GoStrings.uni_spaces (C14Unitext.uni_spaces_encode) *)
Definition uspace_cps : list N :=
  [133; 160; 5760; 8192; 8193; 8194; 8195; 8196; 8197; 8198; 8199; 8200; 8201; 8202;
   8232; 8233; 8239; 8287; 12288]%N.
Definition uspace_cp (cp : N) : bool := existsb (N.eqb cp) uspace_cps.

(* encodeUTF8AddrUnitext: ASCII as in the xtext form; a non-ASCII code point
   raw, except white space, which is embedded (the server splits the line with
   strings.Fields / strings.TrimSpace) *)
Definition encode_utf8_addr_unitext_rune (cp : N) : bytes :=
  if (cp <? 128)%N then (if qchar (n_byte cp) then [n_byte cp] else embedded cp)
  else if uspace_cp cp then embedded cp
  else utf8_encode cp.
Definition encode_utf8_addr_unitext (s : bytes) : bytes :=
  flat_map encode_utf8_addr_unitext_rune (runes s).

(* ---- decodeUTF8AddrXtext ---- *)

(* [[:cntrl:] \\+=] *)
Definition disallowed (c : ascii) : bool :=
  in_range 0 31 c || Ascii.eqb c (n_byte 127) || Ascii.eqb c " " || Ascii.eqb c "\"
  || Ascii.eqb c "+" || Ascii.eqb c "=".

(* longest run of upper-case hex digits *)
Fixpoint take_hex (s : bytes) : bytes * bytes :=
  match s with
  | c :: t => if is_hexU c then let '(h, r) := take_hex t in (c :: h, r) else ([], s)
  | [] => ([], [])
  end.

Definition hex_value (h : bytes) : N :=
  fold_left (fun acc c => match hexU c with Some v => acc * 16 + v | None => acc end)%N h 0%N.

(* the ranges accepted for a hexpoint of each length *)
Definition hexpoint_ok (len : nat) (v : N) : bool :=
  match len with
  | 2%nat => ((1 <=? v) && (v <=? 9) || (17 <=? v) && (v <=? 25) || (v =? 16) || (v =? 32)
              || (v =? 43) || (v =? 61) || (v =? 127) || (v =? 92) || (128 <=? v) && (v <=? 255))%N
  | 3%nat => ((256 <=? v) && (v <=? 4095))%N
  | 4%nat => ((4096 <=? v) && (v <=? 55295) || (57344 <=? v) && (v <=? 65535))%N
  | 5%nat => ((65536 <=? v) && (v <=? 1048575))%N
  | 6%nat => ((1048576 <=? v) && (v <=? 1114111))%N
  | _ => false
  end.

(* \\x[{][0-9A-F]+[}] at the head of s: (hexpoint, rest) *)
Definition match_embedded (s : bytes) : option (bytes * bytes) :=
  match s with
  | c0 :: c1 :: c2 :: t =>
      if Ascii.eqb c0 "\" && Ascii.eqb c1 "x" && Ascii.eqb c2 "{" then
        match take_hex t with
        | ((_ :: _) as h, c3 :: r) => if Ascii.eqb c3 "}" then Some (h, r) else None
        | _ => None
        end
      else None
  | _ => None
  end.

Fixpoint decode_utf8_addr_f (fuel : nat) (s : bytes) : option bytes :=
  match fuel with
  | O => Some []
  | S f =>
      match s with
      | [] => Some []
      | c :: t =>
          match match_embedded s with
          | Some (h, r) =>
              (* ParseUint(hexpoint, 16, 21), then the per-length ranges *)
              let v := hex_value h in
              if (List.length h <=? 6)%nat && (v <? 2097152)%N && hexpoint_ok (List.length h) v
              then option_map (app (utf8_encode v)) (decode_utf8_addr_f f r)
              else None
          | None =>
              if disallowed c then None
              else option_map (cons c) (decode_utf8_addr_f f t)
          end
      end
  end.
Definition decode_utf8_addr_xtext (s : bytes) : option bytes :=
  decode_utf8_addr_f (S (List.length s)) s.

(* decodeTypedAddress: Some (TYPE, address) *)
Definition decode_typed_address (val : bytes) : option (bytes * bytes) :=
  match splitn2 ";" val with
  | [ty; addr] =>
      match ty, addr with
      | [], _ | _, [] => None
      | _, _ =>
          let T := to_upper ty in
          if bytes_eqb T (bs "RFC822") then
            match decode_xtext addr with
            | Some a => if is_printable_ascii a then Some (T, a) else None
            | None => None
            end
          else if bytes_eqb T (bs "UTF-8") then
            option_map (pair T) (decode_utf8_addr_xtext addr)
          else None
      end
  | _ => None
  end.
