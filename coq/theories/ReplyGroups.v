(* C04, part 1: the reply groups a handler writes.

   [wire_of ev] is the octet string a list of events puts on the wire and
   [codes_of ev = reply_codes (wire_of ev)] the list of its reply codes, one
   per reply GROUP, as the observer of CheckOracle.v reads them (lines
   "ddd-..." continue a group, a line "ddd ..." ends it).

   - [reply_codes_write_response]: for 100 <= code <= 999, ANY enhanced code
     and ANY list of texts (LF, bare CR, NUL, 8-bit octets included) the octets
     writeResponse prints are exactly one group with that code.
   - [handle_groups] / [unparsable_groups]: for every configuration, every
     open connection state and every command, the groups the handler writes
     have the shape fixed by the verb ([group_shape]). *)
From Smtp Require Import Bytes GoStrings Transport DataReader Parse Xtext Base64 Reply Rfc3339 Lmtp Conn.
From Smtp Require Import ReplySpec ReplyProofs CheckOracle LmtpSpec LmtpProofs Order OrderStrict ConnProofs TraceProps.
Local Open Scope char_scope.

(* ================= the wire output of an event list ================= *)

Definition wire_of (ev : list event) : bytes :=
  List.concat (map (fun e => match e with EWire b => b | _ => [] end) ev).

Definition codes_of (ev : list event) : list N := reply_codes (wire_of ev).

Lemma wire_of_all_wire ev : wire_of ev = all_wire ev.
Proof. unfold wire_of, all_wire. rewrite flat_map_concat_map. reflexivity. Qed.

Lemma wire_of_app a b : wire_of (a ++ b) = wire_of a ++ wire_of b.
Proof. unfold wire_of. rewrite map_app, concat_app. reflexivity. Qed.

Lemma wire_of_cons_wire b ev : wire_of (EWire b :: ev) = b ++ wire_of ev.
Proof. reflexivity. Qed.

Lemma wire_of_cons_other e ev : is_wire e = false -> wire_of (e :: ev) = wire_of ev.
Proof. destruct e; cbn; try discriminate; reflexivity. Qed.

(* ================= wire_lines on CRLF-terminated lines ================= *)

Definition strip1 (l : bytes) : bytes := if is_suffix [CR] l then removelast l else l.

Definition drop_last_empty (ls : list bytes) : list bytes :=
  match rev ls with [] :: r => rev r | _ => ls end.

Lemma wire_lines_eq b : wire_lines b = drop_last_empty (map strip1 (split_byte LF b)).
Proof. reflexivity. Qed.

Lemma drop_last_empty_app a b : b <> [] -> drop_last_empty (a ++ b) = a ++ drop_last_empty b.
Proof.
  intros Hb. unfold drop_last_empty. rewrite rev_app_distr.
  destruct (rev b) as [|x r] eqn:E.
  - exfalso. apply Hb. rewrite <- (rev_involutive b), E. reflexivity.
  - cbn [app]. destruct x as [|x0 x]; [|reflexivity].
    rewrite rev_app_distr, rev_involutive. reflexivity.
Qed.

Lemma strip1_snoc_cr l : strip1 (l ++ [CR]) = l.
Proof.
  unfold strip1, is_suffix. rewrite rev_app_distr. cbn [rev app is_prefix].
  rewrite Ascii.eqb_refl. cbn [andb]. apply removelast_last.
Qed.

Lemma split_lf_lines ls rest :
  Forall (fun l => mem_byte LF l = false) ls ->
  split_byte LF (flat_map (fun l => l ++ crlf) ls ++ rest)
  = map (fun l => l ++ [CR]) ls ++ split_byte LF rest.
Proof.
  intros H. induction H as [|l ls Hl Hls IH]; [reflexivity|].
  cbn [flat_map map]. rewrite <- !app_assoc.
  change (l ++ crlf ++ flat_map (fun l0 => l0 ++ crlf) ls ++ rest)
    with (l ++ [CR] ++ LF :: (flat_map (fun l0 => l0 ++ crlf) ls ++ rest)).
  rewrite app_assoc, split_byte_app.
  - rewrite IH. reflexivity.
  - rewrite mem_byte_app, Hl. reflexivity.
Qed.

Lemma wire_lines_crlf ls rest :
  Forall (fun l => mem_byte LF l = false) ls ->
  wire_lines (flat_map (fun l => l ++ crlf) ls ++ rest) = ls ++ wire_lines rest.
Proof.
  intros H. rewrite !wire_lines_eq, split_lf_lines by exact H.
  rewrite map_app, map_map.
  rewrite (map_ext _ (fun l => l)) by (intros l; apply strip1_snoc_cr). rewrite map_id.
  apply drop_last_empty_app.
  intros E. apply map_eq_nil in E. exact (split_byte_nonempty _ _ E).
Qed.

(* the codes of a list of lines *)
Definition group_codes (ls : list bytes) : list N := map line_code (filter line_final ls).

Lemma reply_codes_crlf ls rest :
  Forall (fun l => mem_byte LF l = false) ls ->
  reply_codes (flat_map (fun l => l ++ crlf) ls ++ rest) = group_codes ls ++ reply_codes rest.
Proof.
  intros H. unfold reply_codes, group_codes. rewrite wire_lines_crlf by exact H.
  rewrite filter_app, map_app. reflexivity.
Qed.

(* ================= one rendered reply = one group ================= *)

Lemma rline_final code ec sep t :
  (100 <= code <= 999)%Z -> line_final (rline code ec sep t) = negb (Ascii.eqb sep "-").
Proof.
  intros Hc. destruct (code3_shape code Hc) as (a & b & c & Hd & _).
  unfold rline. rewrite Hd. reflexivity.
Qed.

Lemma rline_code code ec sep t :
  (100 <= code <= 999)%Z -> line_code (rline code ec sep t) = Z.to_N code.
Proof.
  intros Hc. destruct (code3_shape code Hc) as (a & b & c & Hd & Da & Db & Dc & _).
  unfold rline. rewrite Hd. cbn [app line_code]. rewrite Da, Db, Dc. cbn [andb].
  rewrite <- Hd, dec_of_Z_nonneg by lia. apply dec_value_dec_of_N.
Qed.

Lemma group_codes_reply_lines code ec ts :
  (100 <= code <= 999)%Z -> ts <> [] ->
  group_codes (reply_lines code ec ts) = [Z.to_N code].
Proof.
  intros Hc Hne. unfold group_codes. induction ts as [|t r IH]; [congruence|].
  destruct r as [|t' r'].
  - rewrite reply_lines_one. cbn [filter]. rewrite rline_final by exact Hc.
    cbn [Ascii.eqb Bool.eqb negb map]. rewrite rline_code by exact Hc. reflexivity.
  - rewrite reply_lines_cons. cbn [filter]. rewrite rline_final by exact Hc.
    rewrite Ascii.eqb_refl. cbn [negb]. apply IH. discriminate.
Qed.

Lemma write_response_lines_no_lf code ec texts :
  Forall (fun l => mem_byte LF l = false)
         (reply_lines code (default_ec code ec) (lines_of texts)).
Proof. apply reply_lines_not; try reflexivity. apply lines_of_no_lf. Qed.

(* C04 (rendering): whatever the enhanced code and the texts - any number of
   them, containing LF (continuation lines), bare CR or any other octet -
   writeResponse prints exactly one reply group, with the given code. *)
Theorem reply_codes_write_response_app code ec texts rest :
  (100 <= code <= 999)%Z ->
  reply_codes (write_response code ec texts ++ rest) = Z.to_N code :: reply_codes rest.
Proof.
  intros Hc. rewrite write_response_eq. fold (lines_of texts).
  rewrite reply_codes_crlf by apply write_response_lines_no_lf.
  rewrite group_codes_reply_lines; [reflexivity|exact Hc|apply split_byte_nonempty].
Qed.

Theorem reply_codes_write_response code ec texts :
  (100 <= code <= 999)%Z -> reply_codes (write_response code ec texts) = [Z.to_N code].
Proof.
  intros Hc. rewrite <- (app_nil_r (write_response code ec texts)).
  rewrite reply_codes_write_response_app by exact Hc. reflexivity.
Qed.

(* the same for writeError and for the per-recipient LMTP status *)
Definition berr_code (dflt : Z) (e : berr) : Z :=
  match e with BSmtp c _ _ => c | _ => dflt end.

Definition berr_code_ok (e : berr) : bool :=
  match e with BSmtp c _ _ => (100 <=? c)%Z && (c <=? 999)%Z | _ => true end.

Lemma berr_code_ok_range dflt e :
  (100 <= dflt <= 999)%Z -> berr_code_ok e = true -> (100 <= berr_code dflt e <= 999)%Z.
Proof.
  intros Hd H. destruct e as [|c ec m|m]; cbn in *; try exact Hd.
  apply andb_true_iff in H as [H1 H2]. apply Z.leb_le in H1, H2. lia.
Qed.

Theorem reply_codes_write_error code ec e :
  (100 <= code <= 999)%Z -> e <> BNil -> berr_code_ok e = true ->
  reply_codes (write_error code ec e) = [Z.to_N (berr_code code e)].
Proof.
  intros Hc Hn Hok. pose proof (berr_code_ok_range code e Hc Hok) as Hr.
  destruct e as [|c e' m|m]; [congruence| |]; cbn [write_error berr_code] in *;
    apply reply_codes_write_response; assumption.
Qed.

Definition status_code (e : berr) : Z := fst (fst (data_error_to_status e)).

Lemma status_code_eq e : status_code e = match e with BNil => 250 | BSmtp c _ _ => c | BPlain _ => 554 end%Z.
Proof. destruct e; reflexivity. Qed.

Lemma status_code_range e : berr_code_ok e = true -> (100 <= status_code e <= 999)%Z.
Proof.
  rewrite status_code_eq. destruct e as [|c ec m|m]; cbn [berr_code_ok]; intros H; [lia| |lia].
  apply andb_true_iff in H as [H1 H2]. apply Z.leb_le in H1, H2. lia.
Qed.

Theorem reply_codes_status_reply a e :
  berr_code_ok e = true ->
  codes_of [status_reply a e] = [Z.to_N (status_code e)].
Proof.
  intros H. pose proof (status_code_range e H) as Hr. unfold status_code in *.
  unfold codes_of, status_reply. destruct (data_error_to_status e) as [[code ec] msg].
  cbn [fst] in *. cbn [wire_of map List.concat]. rewrite app_nil_r.
  apply reply_codes_write_response. exact Hr.
Qed.

Example reply_codes_write_response_ex :
  reply_codes (write_response 250 no_ec [bs "Hello a" ++ [CR] ++ bs "b"; bs "PIPELINING"; [LF; CR; NUL]]) = [250%N]
  /\ reply_codes (write_response 550 (5, 1, 1)%Z [[CR]]) = [550%N]
  /\ reply_codes (write_response 250 (2, 0, 0)%Z [bs "x" ++ [LF] ++ bs "220 injected"]) = [250%N].
Proof. vm_compute. repeat split. Qed.

(* ================= event lists whose replies are all rendered ================= *)

(* neither a reply nor the ghost event of the command loop *)
Definition skip_ok (e : event) : bool := negb (is_wire e) && negb (is_cmd e).

Lemma skip_ok_wire e : skip_ok e = true -> is_wire e = false.
Proof. unfold skip_ok. destruct (is_wire e); [discriminate|reflexivity]. Qed.

Lemma skip_ok_cmd e : skip_ok e = true -> is_cmd e = false.
Proof. unfold skip_ok. destruct (is_cmd e); [rewrite andb_false_r; discriminate|reflexivity]. Qed.

(* [Rn ev cs]: [ev] has no ECmd, every EWire of [ev] is the output of one
   writeResponse call with a three-digit code; [cs] are those codes in order *)
Inductive Rn : list event -> list Z -> Prop :=
| Rn_nil : Rn [] []
| Rn_wire code ec texts ev cs :
    (100 <= code <= 999)%Z -> Rn ev cs -> Rn (EWire (write_response code ec texts) :: ev) (code :: cs)
| Rn_skip e ev cs : skip_ok e = true -> Rn ev cs -> Rn (e :: ev) cs.

Lemma Rn_codes ev cs : Rn ev cs -> codes_of ev = map Z.to_N cs.
Proof.
  unfold codes_of. induction 1 as [|code ec texts ev cs Hc _ IH|e ev cs He _ IH].
  - reflexivity.
  - rewrite wire_of_cons_wire, reply_codes_write_response_app by exact Hc. cbn [map]. rewrite IH. reflexivity.
  - rewrite wire_of_cons_other by (apply skip_ok_wire, He). exact IH.
Qed.

Lemma Rn_app a ca b cb : Rn a ca -> Rn b cb -> Rn (a ++ b) (ca ++ cb).
Proof.
  induction 1 as [|code ec texts ev cs Hc _ IH|e ev cs He _ IH]; intros Hb; cbn [app].
  - exact Hb.
  - apply Rn_wire; [exact Hc|apply IH, Hb].
  - apply Rn_skip; [exact He|apply IH, Hb].
Qed.

(* no reply at all *)
Definition nw (ev : list event) : Prop := forallb skip_ok ev = true.

Lemma Rn_nw ev : nw ev -> Rn ev [].
Proof.
  unfold nw. induction ev as [|e ev IH]; cbn [forallb]; intros H; [constructor|].
  apply andb_true_iff in H as [He Hev]. apply Rn_skip; [exact He|apply IH, Hev].
Qed.

Lemma Rn_app_nw a b cb : nw a -> Rn b cb -> Rn (a ++ b) cb.
Proof. intros Ha Hb. change cb with ([] ++ cb). apply Rn_app; [apply Rn_nw, Ha|exact Hb]. Qed.

Lemma Rn_app_nw_r a ca b : Rn a ca -> nw b -> Rn (a ++ b) ca.
Proof. intros Ha Hb. rewrite <- (app_nil_r ca). apply Rn_app; [exact Ha|apply Rn_nw, Hb]. Qed.

Lemma nw_app a b : nw a -> nw b -> nw (a ++ b).
Proof. unfold nw. intros Ha Hb. rewrite forallb_app, Ha, Hb. reflexivity. Qed.

Lemma Rn_reply code ec msg ev cs :
  (100 <= code <= 999)%Z -> Rn ev cs -> Rn (reply code ec msg :: ev) (code :: cs).
Proof. intros Hc H. unfold reply. apply Rn_wire; assumption. Qed.

Lemma Rn_reply_err code ec e ev cs :
  (100 <= code <= 999)%Z -> e <> BNil -> berr_code_ok e = true -> Rn ev cs ->
  Rn (reply_err code ec e :: ev) (berr_code code e :: cs).
Proof.
  intros Hc Hn Hok H. pose proof (berr_code_ok_range code e Hc Hok) as Hr.
  unfold reply_err. destruct e as [|c e' m|m]; [congruence| |]; cbn [write_error berr_code] in *;
    apply Rn_wire; assumption.
Qed.

Lemma Rn_status a e ev cs :
  berr_code_ok e = true -> Rn ev cs -> Rn (status_reply a e :: ev) (status_code e :: cs).
Proof.
  intros Hok H. pose proof (status_code_range e Hok) as Hr. unfold status_code in *.
  unfold status_reply. destruct (data_error_to_status e) as [[code ec] msg]. cbn [fst] in *.
  apply Rn_wire; assumption.
Qed.

Lemma Rn_statuses (sts : list (bytes * berr)) :
  Forall (fun x => berr_code_ok (snd x) = true) sts ->
  Rn (map (fun '(a, e) => status_reply a e) sts) (map (fun x => status_code (snd x)) sts).
Proof.
  induction 1 as [|[a e] sts Hx _ IH]; cbn [map]; [constructor|].
  apply Rn_status; [exact Hx|exact IH].
Qed.

Lemma Rn_statuses_same (rcpts : list bytes) e :
  berr_code_ok e = true ->
  Rn (map (fun a => status_reply a e) rcpts) (map (fun _ => status_code e) rcpts).
Proof.
  intros He. induction rcpts as [|a r IH]; cbn [map]; [constructor|].
  apply Rn_status; [exact He|exact IH].
Qed.

(* ================= the backend's reply codes ================= *)

(* Every *SMTPError a backend callback returns carries a three-digit code
   (the count of reply groups is meaningless otherwise: writeResponse prints
   the code with %d, and "25-..." or "1000-..." are not continuation lines). *)
Definition plan_ok (p : data_plan) : bool :=
  berr_code_ok (dp_ret p) && forallb (fun x => berr_code_ok (snd x)) (dp_status p).
Definition step_ok (s : sasl_step) : bool := match s with SaslStep _ _ e => berr_code_ok e end.
Definition aplan_ok (p : auth_plan) : bool := berr_code_ok (ap_start p) && forallb step_ok (ap_steps p).

Definition backend_codes_ok (be : backend) : bool :=
  forallb berr_code_ok (be_ns be) && forallb berr_code_ok (be_mail be) && forallb berr_code_ok (be_rcpt be)
  && forallb plan_ok (be_data be) && forallb aplan_ok (be_auth be).

Lemma pop_ok {A} (P : A -> bool) d l :
  P d = true -> forallb P l = true -> P (fst (pop d l)) = true /\ forallb P (snd (pop d l)) = true.
Proof.
  intros Hd Hl. destruct l as [|x r]; cbn [pop fst snd]; [split; [exact Hd|reflexivity]|].
  cbn [forallb] in Hl. apply andb_true_iff in Hl. exact Hl.
Qed.

Lemma berr_of_rerr_ok e : berr_code_ok (berr_of_rerr e) = true.
Proof. destruct e; reflexivity. Qed.

Lemma plan_ret_ok p term : plan_ok p = true -> berr_code_ok (plan_ret p term) = true.
Proof.
  unfold plan_ok, plan_ret. intros H. apply andb_true_iff in H as [H _].
  destruct term as [[]|]; try exact H; destruct (dp_prop p); try exact H; apply berr_of_rerr_ok.
Qed.

Lemma pipe_err_ok v : berr_code_ok v = true -> berr_code_ok (pipe_err v) = true.
Proof. destruct v; intros H; try exact H; reflexivity. Qed.

(* ---- the delivery record ---- *)

Definition bd_ok (b : bdat) : Prop :=
  plan_ok (bd_plan b) = true /\ (forall v, bd_done b = Some v -> berr_code_ok v = true).

Lemma bd_finish_ok b term :
  bd_ok b -> bd_ok (fst (bd_finish b term)) /\ nw (snd (bd_finish b term))
             /\ bd_rcpts (fst (bd_finish b term)) = bd_rcpts b.
Proof.
  intros [Hp Hd]. unfold bd_finish. cbn [fst snd]. split; [|split; reflexivity].
  split; [exact Hp|]. cbn [bd_done]. intros v Hv. inversion Hv; subst.
  destruct (bd_panics b); [reflexivity|apply plan_ret_ok, Hp].
Qed.

Lemma bd_end_ok b term :
  bd_ok b -> bd_ok (fst (bd_end b term)) /\ nw (snd (bd_end b term))
             /\ bd_rcpts (fst (bd_end b term)) = bd_rcpts b.
Proof.
  intros H. unfold bd_end. destruct (bd_done b); [|apply bd_finish_ok, H].
  cbn [fst snd]. split; [exact H|split; reflexivity].
Qed.

Lemma bd_feed_ok b chunk :
  bd_ok b ->
  bd_ok (fst (fst (bd_feed b chunk))) /\ nw (snd (fst (bd_feed b chunk)))
  /\ bd_rcpts (fst (fst (bd_feed b chunk))) = bd_rcpts b
  /\ (forall e, snd (bd_feed b chunk) = Some e -> berr_code_ok e = true).
Proof.
  intros H. unfold bd_feed. destruct chunk as [|x chunk].
  { cbn [fst snd]. repeat split; try exact (proj1 H); try exact (proj2 H); discriminate. }
  destruct (bd_done b) as [v|] eqn:Hd.
  { cbn [fst snd]. repeat split; try exact (proj1 H); try exact (proj2 H).
    intros e He. inversion He; subst. apply pipe_err_ok. apply (proj2 H). exact Hd. }
  destruct (dp_stop (bd_plan b)) as [k|].
  2:{ cbn [fst snd]. repeat split; try exact (proj1 H); cbn [bd_done]; discriminate. }
  destruct (take_N _ _) as [[a ?] ?].
  set (b1 := mkBD _ _ _ _ _).
  assert (H1 : bd_ok b1) by (split; [exact (proj1 H)|cbn [bd_done b1]; discriminate]).
  destruct (_ <? _)%N.
  { cbn [fst snd]. repeat split; try exact (proj1 H1); try exact (proj2 H1); discriminate. }
  pose proof (bd_finish_ok b1 None H1) as (F1 & F2 & F3).
  destruct (bd_finish b1 None) as [b2 ev]. cbn [fst snd] in *.
  destruct (_ =? _)%N; cbn [fst snd]; repeat split; try exact (proj1 F1); try exact (proj2 F1);
    try exact F2; try exact F3; try discriminate.
  intros e He. destruct (bd_done b2) as [v|] eqn:Hd2; inversion He; subst.
  apply pipe_err_ok. apply (proj2 F1). exact Hd2.
Qed.

Lemma bd_new_ok p rcpts sp :
  plan_ok p = true ->
  bd_ok (fst (bd_new p rcpts sp)) /\ nw (snd (bd_new p rcpts sp))
  /\ bd_rcpts (fst (bd_new p rcpts sp)) = rcpts.
Proof.
  intros Hp. unfold bd_new. set (b := mkBD _ _ _ _ _).
  assert (Hb : bd_ok b) by (split; [exact Hp|cbn [bd_done b]; discriminate]).
  destruct (dp_stop p) as [[|k]|]; try (cbn [fst snd]; split; [exact Hb|split; reflexivity]).
  pose proof (bd_finish_ok b None Hb) as (F1 & F2 & F3).
  destruct (bd_finish b None) as [b' ev]. cbn [fst snd] in *.
  split; [exact F1|split; [exact F2|exact F3]].
Qed.

(* ---- the invariant on connection states ---- *)

Definition bdat_inv (c : conn) : Prop :=
  match c_bdat c with
  | Some b => bd_ok b /\ bd_rcpts b = c_rcpts c
  | None => True
  end.

Definition CI (c : conn) : Prop := backend_codes_ok (c_be c) = true /\ bdat_inv c.

Lemma abort_ev_nw bd : nw (abort_ev bd).
Proof.
  destruct bd as [b|]; [|reflexivity]. unfold abort_ev, bd_end.
  destruct (bd_done b); reflexivity.
Qed.

Lemma reset_ev_nw c : nw (reset_ev c).
Proof. unfold reset_ev. apply nw_app; [apply abort_ev_nw|destruct (c_session c); reflexivity]. Qed.

Lemma close_ev_nw c : nw (close_ev c).
Proof.
  unfold close_ev. apply nw_app; [apply abort_ev_nw|]. destruct (c_session c); reflexivity.
Qed.

(* ---- LMTP statuses ---- *)

Lemma ok_calls_forallb (P : bytes * berr -> bool) rcpts calls :
  forallb P calls = true -> forallb P (ok_calls rcpts calls) = true.
Proof.
  intros H. destruct (ok_calls_from_prefix rcpts calls []) as [post Hp].
  fold (ok_calls rcpts calls) in Hp. rewrite Hp, forallb_app in H.
  apply andb_true_iff in H as [H _]. exact H.
Qed.

Lemma assign_ok calls fv rcpts : forall seen,
  forallb (fun x => berr_code_ok (snd x)) calls = true -> berr_code_ok fv = true ->
  Forall (fun x => berr_code_ok (snd x) = true) (assign (status_of calls fv) seen rcpts).
Proof.
  induction rcpts as [|a r IH]; intros seen Hc Hf; cbn [assign]; constructor; [|apply IH; assumption].
  cbn [snd]. unfold status_of, calls_for.
  destruct (nth_in_or_default (count_addr a seen)
              (map snd (filter (fun c => bytes_eqb a (fst c)) calls)) fv) as [Hin|Hd]; [|rewrite Hd; exact Hf].
  apply in_map_iff in Hin as (x & Hx & Hin). apply filter_In in Hin as [Hin _].
  rewrite forallb_forall in Hc. rewrite <- Hx. apply Hc, Hin.
Qed.

Lemma expected_statuses_ok rcpts calls fv :
  forallb (fun x => berr_code_ok (snd x)) calls = true -> berr_code_ok fv = true ->
  Forall (fun x => berr_code_ok (snd x) = true) (expected_statuses rcpts calls fv).
Proof. apply assign_ok. Qed.

Lemma emit_run_expected rcpts calls fv :
  emit_statuses rcpts (fill_remaining fv (fst (run_statuses calls (mk_collector rcpts))))
  = expected_statuses rcpts (ok_calls rcpts calls) fv.
Proof.
  destruct (run_statuses_spec rcpts calls [] (mk_collector rcpts)) as (c' & Hr & Hc & Hq).
  { apply mk_collector_cap. }
  { intros a. rewrite mk_collector_que. reflexivity. }
  rewrite Hr. cbn [fst]. apply emit_fill; [exact Hc|].
  intros a. rewrite Hq, mk_collector_que. reflexivity.
Qed.

Lemma lmtp_statuses_rn rcpts calls ret panic :
  forallb (fun x => berr_code_ok (snd x)) calls = true -> berr_code_ok ret = true ->
  exists cs, Rn (map (fun '(a, e) => status_reply a e) (fst (lmtp_statuses rcpts calls ret panic))) cs
             /\ List.length cs = List.length rcpts.
Proof.
  intros Hc Hr. eexists. split.
  - apply Rn_statuses. rewrite lmtp_statuses_spec. cbv zeta. cbn [fst].
    apply expected_statuses_ok; [apply ok_calls_forallb, Hc|].
    destruct (panic || negb (contract_ok rcpts calls)); [reflexivity|exact Hr].
  - rewrite map_length. rewrite <- (map_length fst).
    destruct (lmtp_statuses_total rcpts calls ret panic) as [H _]. rewrite H. reflexivity.
Qed.

Lemma bdat_lmtp_replies_rn cfg b e :
  bd_ok b -> berr_code_ok e = true ->
  exists cs, Rn (fst (bdat_lmtp_replies cfg b e)) cs /\ List.length cs = List.length (bd_rcpts b).
Proof.
  intros [Hp Hd] He. unfold bdat_lmtp_replies.
  unfold plan_ok in Hp. apply andb_true_iff in Hp as [Hret Hst].
  destruct (cf_lmtp_session cfg).
  - destruct (run_statuses (dp_status (bd_plan b)) (mk_collector (bd_rcpts b))) as [col p0] eqn:Er.
    assert (Ecol : col = fst (run_statuses (dp_status (bd_plan b)) (mk_collector (bd_rcpts b))))
      by (rewrite Er; reflexivity).
    destruct (bd_panics b); cbn [fst]; rewrite Ecol, emit_run_expected;
      (eexists; split;
       [apply Rn_statuses, expected_statuses_ok; [apply ok_calls_forallb, Hst|first [reflexivity|exact He]]
       |rewrite map_length; unfold expected_statuses; apply assign_length]).
  - destruct (bd_panics b); cbn [fst]; rewrite map_map.
    + eexists; split; [apply (Rn_statuses_same (bd_rcpts b) err_panic); reflexivity|rewrite map_length; reflexivity].
    + assert (Hv : berr_code_ok (match bd_done b with Some v => v | None => BNil end) = true).
      { destruct (bd_done b) as [v|]; [apply Hd; reflexivity|reflexivity]. }
      eexists; split; [apply (Rn_statuses_same (bd_rcpts b) _ Hv)|rewrite map_length; reflexivity].
Qed.

(* ================= the shape of a command's reply groups ================= *)

Inductive verb := VData | VBdat | VAuth | VStartTLS | VOther.

Definition verb_of_upper (cmd : bytes) : verb :=
  if cmd_is cmd "DATA" then VData
  else if cmd_is cmd "BDAT" then VBdat
  else if cmd_is cmd "AUTH" then VAuth
  else if cmd_is cmd "STARTTLS" then VStartTLS
  else VOther.

Definition verb_of_cmd (cmd0 : bytes) : verb :=
  match cmd0 with
  | [] => VOther
  | _ => verb_of_upper (to_upper cmd0)
  end.

(* HELO/EHLO/LHLO (the multi-line EHLO reply is ONE group), MAIL, RCPT, RSET,
   NOOP, VRFY, QUIT, the unimplemented, unknown and unparsable commands:
   one reply, or the reply and the closing 500 notice when this command made
   errCount pass the threshold (then the connection is closed) *)
Definition shape_other (codes : list N) (closed : bool) : Prop :=
  exists c, codes = [c] \/ (codes = [c; 500%N] /\ closed = true).

(* DATA: refused with one reply; or 354 and then one final reply (SMTP; also
   when the backend panics: 354, 421), one final reply per accepted recipient
   (LMTP; also when a per-recipient backend panics); a plain backend that
   panics in LMTP mode gets the single 421 *)
Definition shape_data (cfg : config) (n : nat) (codes : list N) (closed : bool) : Prop :=
  (exists c, codes = [c] /\ c <> 354%N)
  \/ (exists finals, codes = 354%N :: finals
                     /\ List.length finals = if cf_lmtp cfg then n else 1%nat)
  \/ (cf_lmtp cfg = true /\ cf_lmtp_session cfg = false /\ codes = [354%N; 421%N] /\ closed = true).

(* BDAT: one reply per chunk; the LAST chunk in LMTP mode (accepted, or
   failed while being copied): one per recipient of the transfer *)
Definition shape_bdat (cfg : config) (n : nat) (last : bool) (codes : list N) : Prop :=
  (exists c, codes = [c])
  \/ (cf_lmtp cfg = true /\ last = true /\ (0 < n)%nat /\ List.length codes = n).

(* AUTH: k challenges, then at most one final reply *)
Definition shape_auth (codes : list N) : Prop :=
  exists k fin, codes = repeat 334%N k ++ fin /\ (List.length fin <= 1)%nat.

(* STARTTLS: 220 and the TLS session (nothing more in plaintext), 220 and
   550 (handshake failed), or 502 *)
Definition shape_starttls (codes : list N) : Prop :=
  codes = [220%N] \/ codes = [220%N; 550%N] \/ codes = [502%N].

Definition last_of (more : list bytes) : bool :=
  match more with a1 :: _ => equal_fold a1 (bs "LAST") | [] => false end.
Definition bdat_last (arg : bytes) : bool :=
  match fields arg with _ :: more => last_of more | [] => false end.

Definition group_shape (cfg : config) (n : nat) (v : verb) (arg : bytes)
    (codes : list N) (closed : bool) : Prop :=
  match v with
  | VData => shape_data cfg n codes closed
  | VBdat => shape_bdat cfg n (bdat_last arg) codes
  | VAuth => shape_auth codes
  | VStartTLS => shape_starttls codes
  | VOther => shape_other codes closed
  end.

(* what is proved of one handler call *)
Definition HS (P : list N -> bool -> Prop) (r : hres) : Prop :=
  exists cs, Rn (snd r) cs /\ P (map Z.to_N cs) (c_closed (fst r)) /\ CI (fst r).

Lemma HS_impl (P Q : list N -> bool -> Prop) r : (forall cs b, P cs b -> Q cs b) -> HS P r -> HS Q r.
Proof. intros H (cs & H1 & H2 & H3). exists cs. split; [exact H1|]. split; [apply H, H2|exact H3]. Qed.

Lemma backend_codes_ok_split be :
  backend_codes_ok be = true ->
  forallb berr_code_ok (be_ns be) = true /\ forallb berr_code_ok (be_mail be) = true
  /\ forallb berr_code_ok (be_rcpt be) = true /\ forallb plan_ok (be_data be) = true
  /\ forallb aplan_ok (be_auth be) = true.
Proof.
  unfold backend_codes_ok. intros H.
  apply andb_true_iff in H as [H H5]. apply andb_true_iff in H as [H H4].
  apply andb_true_iff in H as [H H3]. apply andb_true_iff in H as [H1 H2]. repeat split; assumption.
Qed.

Lemma backend_codes_ok_intro a b c d e :
  forallb berr_code_ok a = true -> forallb berr_code_ok b = true -> forallb berr_code_ok c = true ->
  forallb plan_ok d = true -> forallb aplan_ok e = true -> backend_codes_ok (mkBE a b c d e) = true.
Proof. unfold backend_codes_ok. cbn. intros -> -> -> -> ->. reflexivity. Qed.

Ltac cs :=
  cbn [c_t c_phases c_be c_helo c_session c_errs c_binarymime c_from c_rcpts c_did_auth c_closed
       c_tls c_bdat c_received upd_t upd_be upd_helo upd_session upd_errs upd_binarymime upd_from
       upd_rcpts upd_did_auth upd_bdat upd_received fst snd] in *.

Ltac nw_tac :=
  solve [ assumption | apply abort_ev_nw | apply reset_ev_nw | apply close_ev_nw | reflexivity
        | apply nw_app; nw_tac ].

Ltac rn := repeat first
  [ apply Rn_nil
  | apply Rn_nw; nw_tac
  | eapply Rn_reply; [lia|]
  | eapply Rn_wire; [lia|]
  | eapply Rn_skip; [reflexivity|]
  | eapply Rn_reply_err; [lia|discriminate|assumption|]
  | eapply Rn_status; [assumption|]
  | eapply Rn_app_nw; [nw_tac|]
  | eapply Rn_app; [eassumption|]
  | eapply Rn_app; [eapply Rn_statuses_same; eassumption|]
  | eassumption ].

Ltac start c HI HC :=
  destruct c as [t ph be h se er bm fr rc da cl tl bd rv];
  unfold Inv in HI; unfold CI, bdat_inv in HC; cs; subst cl.

Ltac get_session HI se :=
  let H := fresh "Hse" in
  assert (H : se = true) by
    (destruct se; [reflexivity|]; destruct HI as [?H1 _];
     destruct (H1 eq_refl eq_refl) as (? & ? & ? & ?); congruence);
  subst se.

Ltac hs_open := unfold HS; cs; eexists; split; [rewrite <- ?app_assoc; cbn [app]; rn|split; [cbn [map app Z.to_N]|unfold CI, bdat_inv; cs]].

Ltac one_code := solve [eexists; left; reflexivity].

(* ---------- protocolError ---------- *)

Lemma protocol_error_hs c code ec msg :
  (100 <= code <= 999)%Z -> CI c -> HS shape_other (protocol_error c code ec msg).
Proof.
  intros Hc HC. unfold protocol_error.
  destruct (err_threshold <? c_errs (upd_errs c (c_errs c + 1)))%N.
  - rewrite do_close_eq. hs_open.
    + eexists. right. split; reflexivity.
    + split; [exact (proj1 HC)|exact I].
  - hs_open; [one_code|]. destruct c. exact HC.
Qed.

(* ---------- MAIL ---------- *)

Ltac break_match :=
  repeat match goal with
         | |- context [match ?x with _ => _ end] =>
             match type of x with
             | sumbool _ _ => fail 1
             | _ => destruct x eqn:?
             end
         end.

Lemma mail_param_code cfg k v o bm code ec msg :
  mail_param cfg k v o bm = inr (code, ec, msg) -> (100 <= code <= 999)%Z.
Proof.
  unfold mail_param. break_match; intros H; inversion H; subst; lia.
Qed.

Lemma mail_params_code cfg args : forall o bm code ec msg bm',
  mail_params cfg args o bm = inr ((code, ec, msg), bm') -> (100 <= code <= 999)%Z.
Proof.
  induction args as [|[k v] r IH]; intros o bm code ec msg bm'; cbn [mail_params]; [discriminate|].
  destruct (mail_param cfg k v o bm) as [[o' bm1]|[[c1 e1] m1]] eqn:E.
  - apply IH.
  - intros H. inversion H; subst. eapply mail_param_code, E.
Qed.

Lemma handle_mail_hs cfg c arg :
  Inv c -> c_closed c = false -> CI c -> HS shape_other (handle_mail cfg c arg).
Proof.
  intros HI Hc HC. start c HI HC. unfold handle_mail. cs.
  destruct h as [|h0 h]; [hs_open; [one_code|exact HC]|].
  destruct bd as [b|]; [hs_open; [one_code|exact HC]|].
  unfold syntax_mail.
  destruct (cut_prefix_fold arg (bs "FROM:")) as [a|]; [|hs_open; [one_code|exact HC]].
  destruct (parse_reverse_path (trim_space a)) as [[from rest]|]; [|hs_open; [one_code|exact HC]].
  destruct (parse_args rest) as [args|]; [|hs_open; [one_code|exact HC]].
  destruct (mail_params cfg (sort_kv args) mo_zero false) as [[opts bm']|[[[code ec] msg] bm']] eqn:Emp.
  2:{ pose proof (mail_params_code _ _ _ _ _ _ _ _ Emp) as Hcode.
      hs_open; [one_code|exact HC]. }
  cs. get_session HI se. cbn [negb]. unfold pop_mail. cs.
  destruct HC as [Hbe _]. apply backend_codes_ok_split in Hbe as (B1 & B2 & B3 & B4 & B5).
  destruct (pop_ok berr_code_ok BNil (be_mail be) eq_refl B2) as [Hr Hrest].
  destruct (pop BNil (be_mail be)) as [r rest']. cs.
  destruct r as [|rcode rec rmsg|rmsg]; hs_open; try one_code;
    (split; [apply backend_codes_ok_intro; assumption|exact I]).
Qed.

(* ---------- RCPT ---------- *)

Lemma rcpt_param_code cfg k v o code ec msg :
  rcpt_param cfg k v o = inr (code, ec, msg) -> (100 <= code <= 999)%Z.
Proof.
  unfold rcpt_param. break_match; intros H; inversion H; subst; lia.
Qed.

Lemma rcpt_params_code cfg args : forall o code ec msg,
  rcpt_params cfg args o = inr (code, ec, msg) -> (100 <= code <= 999)%Z.
Proof.
  induction args as [|[k v] r IH]; intros o code ec msg; cbn [rcpt_params]; [discriminate|].
  destruct (rcpt_param cfg k v o) as [o'|[[c1 e1] m1]] eqn:E.
  - apply IH.
  - intros H. inversion H; subst. eapply rcpt_param_code, E.
Qed.

Lemma handle_rcpt_hs cfg c arg :
  Inv c -> c_closed c = false -> CI c -> HS shape_other (handle_rcpt cfg c arg).
Proof.
  intros HI Hc HC. start c HI HC. unfold handle_rcpt. cs.
  destruct fr; cbn [negb]; [|hs_open; [one_code|exact HC]].
  destruct bd as [b|]; [hs_open; [one_code|exact HC]|].
  unfold syntax_rcpt.
  destruct (cut_prefix_fold arg (bs "TO:")) as [a|]; [|hs_open; [one_code|exact HC]].
  destruct (parse_path (trim_space a)) as [[rcpt rest]|]; [|hs_open; [one_code|exact HC]].
  destruct ((0 <? cf_max_rcpt cfg)%N && (cf_max_rcpt cfg <=? N.of_nat (List.length rc))%N);
    [hs_open; [one_code|exact HC]|].
  destruct (parse_args rest) as [args|]; [|hs_open; [one_code|exact HC]].
  destruct (rcpt_params cfg (sort_kv args) ro_zero) as [opts|[[code ec] msg]] eqn:Erp.
  2:{ pose proof (rcpt_params_code _ _ _ _ _ _ Erp) as Hcode. hs_open; [one_code|exact HC]. }
  get_session HI se. cbn [negb]. unfold pop_rcpt. cs.
  destruct HC as [Hbe _]. apply backend_codes_ok_split in Hbe as (B1 & B2 & B3 & B4 & B5).
  destruct (pop_ok berr_code_ok BNil (be_rcpt be) eq_refl B3) as [Hr Hrest].
  destruct (pop BNil (be_rcpt be)) as [r rest']. cs.
  destruct r as [|rcode rec rmsg|rmsg]; hs_open; try one_code;
    (split; [apply backend_codes_ok_intro; assumption|exact I]).
Qed.

(* ---------- EHLO / HELO / LHLO ---------- *)

Lemma handle_greet_hs cfg c enh arg :
  Inv c -> c_closed c = false -> CI c -> HS shape_other (handle_greet cfg c enh arg).
Proof.
  intros HI Hc HC. start c HI HC. unfold handle_greet. cs.
  destruct (parse_hello_argument arg) as [domain|]; [|hs_open; [one_code|exact HC]]. cs.
  destruct se.
  - rewrite do_reset_eq. cbn [negb]. unfold reset_c. cs.
    destruct enh; cbn [negb]; hs_open; try one_code; (split; [exact (proj1 HC)|exact I]).
  - destruct HC as [Hbe Hbd]. pose proof Hbe as Hbe'.
    apply backend_codes_ok_split in Hbe' as (B1 & B2 & B3 & B4 & B5).
    destruct (pop_ok berr_code_ok BNil (be_ns be) eq_refl B1) as [Hr Hrest].
    destruct (pop BNil (be_ns be)) as [r rest]. cs.
    destruct r as [|rcode rec rmsg|rmsg]; cbn [negb]; [destruct enh; cbn [negb]| |];
      hs_open; try one_code; (split; [apply backend_codes_ok_intro; assumption|exact Hbd]).
Qed.

(* ---------- STARTTLS ---------- *)

Lemma handle_starttls_hs cfg c :
  Inv c -> c_closed c = false -> CI c -> HS (fun cs _ => shape_starttls cs) (handle_starttls cfg c).
Proof.
  intros HI Hc HC. start c HI HC. unfold handle_starttls. cs.
  destruct tl; [hs_open; [right; right; reflexivity|exact HC]|].
  destruct (cf_tls_config cfg); cbn [negb]; [|hs_open; [right; right; reflexivity|exact HC]].
  assert (Hfail : forall t',
    HS (fun cs _ => shape_starttls cs)
       (mkC t' ph be h se er bm fr rc da false false bd rv,
        [reply 220 (2, 0, 0)%Z (bs "Ready to start TLS"); ETlsStart false;
         reply 550 (5, 0, 0)%Z (bs "Handshake error")])).
  { intros t'. hs_open; [right; left; reflexivity|exact HC]. }
  destruct (t_raw t) as [|r0 rs]; [destruct ph as [|p phs]|]; [apply Hfail| |apply Hfail].
  rewrite do_reset_eq. unfold reset_c. cs.
  hs_open.
  - apply Rn_nw. apply nw_app; [destruct se; reflexivity|apply reset_ev_nw].
  - left. reflexivity.
  - split; [exact (proj1 HC)|exact I].
Qed.

(* ---------- DATA ---------- *)

Lemma status_triple e code ec msg :
  data_error_to_status e = (code, ec, msg) -> berr_code_ok e = true -> (100 <= code <= 999)%Z.
Proof.
  intros E H. pose proof (status_code_range e H) as Hr. unfold status_code in Hr.
  rewrite E in Hr. exact Hr.
Qed.

Lemma handle_data_hs cfg c arg :
  Inv c -> c_closed c = false -> CI c ->
  HS (shape_data cfg (List.length (c_rcpts c))) (handle_data cfg c arg).
Proof.
  intros HI Hc HC. start c HI HC. unfold handle_data. cs.
  assert (Hrefuse : forall code ec msg, (100 <= code <= 999)%Z -> Z.to_N code <> 354%N ->
            HS (shape_data cfg (List.length rc))
               (mkC t ph be h se er bm fr rc da false tl bd rv, [reply code ec msg])).
  { intros code ec msg H1 H2. hs_open; [left; eexists; split; [reflexivity|exact H2]|exact HC]. }
  destruct arg as [|a0 arg]; [|apply Hrefuse; [lia|discriminate]].
  destruct bd as [b|]; [apply Hrefuse; [lia|discriminate]|].
  destruct bm; [apply Hrefuse; [lia|discriminate]|].
  destruct fr; cbn [negb orb]; [|apply Hrefuse; [lia|discriminate]].
  destruct rc as [|r0 rc]; [apply Hrefuse; [lia|discriminate]|].
  get_session HI se. cbn [negb].
  unfold pop_data. cs.
  destruct HC as [Hbe _]. apply backend_codes_ok_split in Hbe as (B1 & B2 & B3 & B4 & B5).
  destruct (pop_ok plan_ok dp_default (be_data be) eq_refl B4) as [Hp Hrest].
  destruct (pop dp_default (be_data be)) as [p rest]. cs.
  assert (HBE : backend_codes_ok (mkBE (be_ns be) (be_mail be) (be_rcpt be) rest (be_auth be)) = true)
    by (apply backend_codes_ok_intro; assumption).
  unfold call_data.
  destruct (backend_reads (dp_sizes p) (dp_stop p) (new_data_reader (cf_max_bytes cfg)) t)
    as [[[got term] d1] t1].
  pose proof (plan_ret_ok p term Hp) as Hret. set (ret := plan_ret p term) in *. clearbody ret.
  rewrite !do_reset_eq.
  destruct (cf_lmtp cfg) eqn:Elmtp; cbn [negb]; [destruct (cf_lmtp_session cfg) eqn:Esess; cbn [negb]|].
  - (* LMTP, per-recipient statuses *)
    unfold plan_ok in Hp. apply andb_true_iff in Hp as [_ Hst].
    destruct (lmtp_statuses_rn (r0 :: rc) (dp_status p) ret (dp_panic p) Hst Hret) as (cs & Hcs & Hlen).
    destruct (lmtp_statuses (r0 :: rc) (dp_status p) ret (dp_panic p)) as [sts panicked].
    cbn [fst] in Hcs. set (replies := map _ sts) in *. clearbody replies.
    destruct panicked.
    + rewrite do_close_eq. cbv beta iota. rewrite do_reset_eq. unfold reset_c, close_c. cs.
      hs_open.
      * right; left. eexists. split; [reflexivity|]. rewrite Elmtp, map_length, app_nil_r. exact Hlen.
      * split; [exact HBE|exact I].
    + destruct (dr_drain d1 t1) as [[de ?] t2]. unfold close_unless.
      destruct (drained de); cbv beta iota; rewrite ?do_close_eq; cbv beta iota; rewrite do_reset_eq;
        unfold reset_c, close_c; cs;
        (hs_open;
         [right; left; eexists; split; [reflexivity|]; rewrite Elmtp, map_length, ?app_nil_r; exact Hlen
         |split; [exact HBE|exact I]]).
  - (* LMTP, one status for everybody *)
    destruct (dp_panic p).
    + rewrite do_close_eq. unfold reset_c, close_c. cs.
      hs_open.
      * right; right. repeat split; first [assumption|reflexivity].
      * split; [exact HBE|exact I].
    + destruct (dr_drain d1 t1) as [[de ?] t2]. unfold close_unless.
      destruct (drained de); cbv beta iota; rewrite ?do_close_eq; cbv beta iota; rewrite do_reset_eq;
        unfold reset_c, close_c; cs;
        (hs_open;
         [right; left; eexists; split; [reflexivity|]; rewrite Elmtp, ?app_nil_r; cbn [List.length];
          rewrite !map_length; reflexivity
         |split; [exact HBE|exact I]]).
  - (* SMTP *)
    destruct (dp_panic p).
    + rewrite do_close_eq. unfold reset_c, close_c. cs.
      hs_open.
      * right; left. eexists. split; [reflexivity|]. rewrite Elmtp. reflexivity.
      * split; [exact HBE|exact I].
    + destruct (dr_drain d1 t1) as [[de ?] t2].
      destruct (data_error_to_status ret) as [[code ec] msg] eqn:Est.
      pose proof (status_triple _ _ _ _ Est Hret) as Hcode.
      unfold close_unless.
      destruct (drained de); cbv beta iota; rewrite ?do_close_eq; cbv beta iota; rewrite do_reset_eq;
        unfold reset_c, close_c; cs;
        (hs_open;
         [right; left; eexists; split; [reflexivity|]; rewrite Elmtp; reflexivity
         |split; [exact HBE|exact I]]).
Qed.

(* ---------- BDAT ---------- *)

Ltac simp_cond :=
  match goal with
  | |- HS ?P (if ?b then ?X else ?Y) =>
      let b' := eval cbn in b in
      match b' with
      | true => change (HS P X)
      | false => change (HS P Y)
      end
  end.

Lemma last_ok_last_of more last :
  match more with
  | [] => Some false
  | a1 :: _ => if equal_fold a1 (bs "LAST") then Some true else None
  end = Some last -> last = last_of more.
Proof.
  destruct more as [|a1 more]; cbn [last_of]; [congruence|].
  destruct (equal_fold a1 (bs "LAST")); congruence.
Qed.

Lemma shape_bdat_lmtp cfg (r0 : bytes) rc last cs :
  cf_lmtp cfg = true -> last = true -> List.length cs = List.length (r0 :: rc) ->
  shape_bdat cfg (List.length (r0 :: rc)) last (map Z.to_N (cs ++ [])).
Proof.
  intros H1 H2 H3. right. rewrite app_nil_r, map_length.
  split; [exact H1|]. split; [exact H2|]. split; [cbn [List.length]; lia|exact H3].
Qed.

Lemma handle_bdat_hs cfg c arg :
  Inv c -> c_closed c = false -> CI c ->
  HS (fun cs _ => shape_bdat cfg (List.length (c_rcpts c)) (bdat_last arg) cs) (handle_bdat cfg c arg).
Proof.
  intros HI Hc HC. start c HI HC. unfold handle_bdat, bdat_last. cs.
  destruct (fields arg) as [|a0 more]; [hs_open; [left; eexists; reflexivity|exact HC]|].
  match goal with
  | |- HS ?P (match more with [] => ?B | _ :: _ => _ end) => assert (Hbody : HS P B)
  end.
  2:{ destruct more as [|a1 [|a2 more]]; [exact Hbody|exact Hbody|hs_open; [left; eexists; reflexivity|exact HC]]. }
  destruct (parse_uint 32 a0) as [size| |]; [|hs_open; [left; eexists; reflexivity|exact HC]..].
  (* a refused chunk: the reply, then discardChunk (which closes when the chunk is short) *)
  assert (Hrefused : forall code ec msg, (100 <= code <= 999)%Z ->
    HS (fun cs _ => shape_bdat cfg (List.length rc) (last_of more) cs)
       (let '(c1, ev1) := discard_chunk cfg (mkC t ph be h se er bm fr rc da false tl bd rv) size in
        (c1, reply code ec msg :: ev1))).
  { intros code ec msg Hcode. rewrite discard_chunk_eq.
    match goal with |- context [discard_short ?c ?s] => destruct (discard_short c s) end;
      cbv beta iota; unfold close_c; cs;
      (hs_open; [left; eexists; reflexivity|first [exact HC|split; [exact (proj1 HC)|exact I]]]). }
  destruct fr; [|simp_cond; apply Hrefused; lia].
  destruct rc as [|r0 rc]; simp_cond; [apply Hrefused; lia|].
  match goal with
  | |- HS _ (match ?lo with None => _ | Some _ => _ end) => destruct lo as [last|] eqn:Elast
  end.
  2:{ apply Hrefused; lia. }
  clear Hrefused.
  apply last_ok_last_of in Elast. rewrite <- Elast. clear Elast.
  get_session HI se.
  destruct (negb (cf_max_bytes cfg =? 0)%Z && (cf_max_bytes cfg <? rv + Z.of_N size)%Z).
  { rewrite discard_chunk_eq.
    match goal with |- context [discard_short ?c ?s] => destruct (discard_short c s) end;
      cbv beta iota; rewrite do_reset_eq; unfold reset_c, close_c; cs;
      (hs_open; [left; eexists; reflexivity|split; [exact (proj1 HC)|exact I]]). }
  simp_cond.
  (* start the delivery if there is none *)
  assert (H0 : exists b0 ev0 be0,
    match bd with
    | Some b => (b, [], mkC t ph be h true er bm true (r0 :: rc) da false tl bd rv)
    | None =>
        let '(p, c1) := pop_data (mkC t ph be h true er bm true (r0 :: rc) da false tl bd rv) in
        let status_panic :=
          cf_lmtp cfg && cf_lmtp_session cfg
          && snd (run_statuses (dp_status p) (mk_collector (c_rcpts c1))) in
        let '(b, ev) := bd_new p (c_rcpts c1) status_panic in
        (b, ev, c1)
    end = (b0, ev0, mkC t ph be0 h true er bm true (r0 :: rc) da false tl bd rv)
    /\ bd_ok b0 /\ bd_rcpts b0 = r0 :: rc /\ nw ev0 /\ backend_codes_ok be0 = true).
  { destruct bd as [b|].
    - exists b, [], be. destruct HC as [HC1 [HC2 HC3]].
      split; [reflexivity|]. split; [exact HC2|]. split; [exact HC3|]. split; [reflexivity|exact HC1].
    - unfold pop_data. cs.
      destruct HC as [Hbe _]. apply backend_codes_ok_split in Hbe as (B1 & B2 & B3 & B4 & B5).
      destruct (pop_ok plan_ok dp_default (be_data be) eq_refl B4) as [Hp Hrest].
      destruct (pop dp_default (be_data be)) as [p rest]. cs.
      match goal with |- context [bd_new p (r0 :: rc) ?sp] =>
        destruct (bd_new_ok p (r0 :: rc) sp Hp) as (N1 & N2 & N3);
        destruct (bd_new p (r0 :: rc) sp) as [b0 ev0] end.
      cbn [fst snd] in *. eexists b0, ev0, _. split; [reflexivity|].
      split; [exact N1|]. split; [exact N3|]. split; [exact N2|].
      apply backend_codes_ok_intro; assumption. }
  destruct H0 as (b0 & ev0 & be0 & Heq & Hb0 & Hr0 & Hn0 & Hbe0).
  cbv zeta in Heq. rewrite Heq. clear Heq. cs.
  destruct (t_copy_n size (set_limit t 0)) as [[chunk cerr] t1].
  destruct (bd_feed_ok b0 chunk Hb0) as (Hb1 & Hn1 & Hr1 & Hw1).
  destruct (bd_feed b0 chunk) as [[b1 ev1] werr]. cbn [fst snd] in *.
  rewrite Hr0 in Hr1.
  assert (HCI : backend_codes_ok be0 = true /\ True) by (split; [exact Hbe0|exact I]).
  destruct werr as [e|]; [destruct cerr as [te|]|destruct cerr as [te|]].
  1,2: cbv beta iota zeta.
  3: (cbv beta iota zeta; destruct (t_copy_n (size - blen chunk) t1) as [[dg [de|]] t1d]; cbv beta iota zeta).
  (* 1: write error, chunk short; 2: write error, chunk read; 3: read error, discard short;
     4: read error, discard complete; 5: the chunk was copied completely *)
  1-4: destruct (last && cf_lmtp cfg) eqn:Ell.
  1,3: ( (* the backend had stopped reading; LMTP LAST *)
    pose proof (Hw1 e eq_refl) as He;
    destruct (bd_end_ok b1 RDataReset Hb1) as (Hb2 & Hn2 & Hr2); rewrite Hr1 in Hr2;
    destruct (bd_end b1 RDataReset) as [b2 ev2]; cbn [fst snd] in *;
    destruct (bdat_lmtp_replies_rn cfg b2 e Hb2 He) as (cds & Hcs & Hlen); rewrite Hr2 in Hlen;
    destruct (bdat_lmtp_replies cfg b2 e) as [rs pk]; cbn [fst] in Hcs; cs;
    apply andb_true_iff in Ell as [El1 El2];
    destruct (bd_panics b1); cbn [orb]; cbv beta iota;
      rewrite ?do_close_eq; cs; rewrite ?do_reset_eq; unfold close_c, reset_c; cs;
      hs_open; first [apply shape_bdat_lmtp; assumption|exact HCI]).
  1,2: ( (* the backend had stopped reading; one reply *)
    pose proof (Hw1 e eq_refl) as He;
    destruct (data_error_to_status e) as [[code ec] msg] eqn:Est;
    pose proof (status_triple _ _ _ _ Est He) as Hcode; cs;
    destruct (bd_panics b1); cbn [orb]; cbv beta iota;
      rewrite ?do_close_eq; cs; rewrite ?do_reset_eq; unfold close_c, reset_c; cs;
      hs_open; first [left; eexists; reflexivity|exact HCI]).
  1,3: ( (* the chunk could not be read; LMTP LAST *)
    pose proof (berr_of_rerr_ok (rerr_of_copy te)) as He;
    destruct (bd_end_ok b1 (rerr_of_copy te) Hb1) as (Hb2 & Hn2 & Hr2); rewrite Hr1 in Hr2;
    destruct (bd_end b1 (rerr_of_copy te)) as [b2 ev2]; cbn [fst snd] in *;
    destruct (bdat_lmtp_replies_rn cfg b2 _ Hb2 He) as (cds & Hcs & Hlen); rewrite Hr2 in Hlen;
    destruct (bdat_lmtp_replies cfg b2 (berr_of_rerr (rerr_of_copy te))) as [rs pk]; cbn [fst] in Hcs; cs;
    apply andb_true_iff in Ell as [El1 El2];
    cbn [orb]; cbv beta iota;
    rewrite ?do_close_eq; cs; rewrite ?do_reset_eq; unfold close_c, reset_c; cs;
      hs_open; first [apply shape_bdat_lmtp; assumption|exact HCI]).
  1,2: ( (* the chunk could not be read; one reply *)
    pose proof (berr_of_rerr_ok (rerr_of_copy te)) as He;
    destruct (data_error_to_status (berr_of_rerr (rerr_of_copy te))) as [[code ec] msg] eqn:Est;
    pose proof (status_triple _ _ _ _ Est He) as Hcode; cs;
    cbn [orb]; cbv beta iota;
    rewrite ?do_close_eq; cs; rewrite ?do_reset_eq; unfold close_c, reset_c; cs;
      hs_open; first [left; eexists; reflexivity|exact HCI]).
  - (* the chunk was copied completely *)
    destruct last; simp_cond.
    2:{ cs. hs_open; [left; eexists; reflexivity|]. split; [exact Hbe0|]. split; [exact Hb1|exact Hr1]. }
    destruct (bd_end_ok b1 REOF Hb1) as (Hb2 & Hn2 & Hr2). rewrite Hr1 in Hr2.
    destruct (bd_end b1 REOF) as [b2 ev2]. cbn [fst snd] in *.
    assert (Hret : berr_code_ok (match bd_done b2 with Some v => v | None => BNil end) = true).
    { destruct (bd_done b2) as [v|] eqn:Ed; [apply (proj2 Hb2); exact Ed|reflexivity]. }
    destruct (cf_lmtp cfg) eqn:Elmtp.
    + destruct (bdat_lmtp_replies_rn cfg b2 _ Hb2 Hret) as (cs & Hcs & Hlen). rewrite Hr2 in Hlen.
      match goal with |- context [bdat_lmtp_replies cfg b2 ?e] =>
        destruct (bdat_lmtp_replies cfg b2 e) as [rs pk] end.
      cbn [fst] in Hcs.
      destruct pk; rewrite ?do_close_eq; cs; rewrite ?do_reset_eq; unfold close_c, reset_c; cs;
        hs_open; first [apply shape_bdat_lmtp; solve [assumption|reflexivity]|exact HCI].
    + match goal with |- context [data_error_to_status ?e] =>
        destruct (data_error_to_status e) as [[code ec] msg] eqn:Est end.
      pose proof (status_triple _ _ _ _ Est Hret) as Hcode.
      destruct (bd_panics b2); rewrite ?do_close_eq; cs; rewrite ?do_reset_eq; unfold close_c, reset_c; cs;
        hs_open; first [left; eexists; reflexivity|exact HCI].
Qed.

(* ---------- AUTH ---------- *)

(* the connection's input ends (or fails) while the exchange waits for a
   response line *)
Fixpoint auth_input_ends (steps : list sasl_step) (c : conn) : bool :=
  match steps with
  | [] => false
  | SaslStep ch done err :: rest =>
      match err with
      | BNil =>
          if done then false
          else match conn_read_line c with
               | (inr _, _) => true
               | (inl line, c1) =>
                   if bytes_eqb line (bs "*") then false
                   else match decode_sasl_response line with
                        | None => false
                        | Some _ => auth_input_ends rest c1
                        end
               end
      | _ => false
      end
  end.

Lemma auth_loop_rn steps : forall c resp,
  forallb step_ok steps = true ->
  exists k fin,
    Rn (snd (fst (auth_loop steps c resp))) (repeat 334%Z k ++ fin)
    /\ (snd (auth_loop steps c resp) = true -> fin = [])
    /\ (List.length fin <= 1)%nat
    /\ (snd (auth_loop steps c resp) = false -> (fin = [] <-> auth_input_ends steps c = true)).
Proof.
  induction steps as [|[ch done err] rest IH]; intros c resp Hok; cbn [auth_loop auth_input_ends].
  - exists 0%nat, []. cbn [fst snd repeat app List.length]. repeat split; try discriminate; try lia.
    apply Rn_skip; [reflexivity|constructor].
  - cbn [forallb step_ok] in Hok. apply andb_true_iff in Hok as [He Hrest].
    destruct err as [|ecode eec emsg|emsg].
    2,3: exists 0%nat; eexists; cbn [fst snd repeat app]; split;
         [apply Rn_skip; [reflexivity|]; apply Rn_reply_err; [lia|discriminate|exact He|constructor]|];
         cbn [List.length]; repeat split; try discriminate; try lia.
    destruct done.
    { exists 0%nat, []. cbn [fst snd repeat app List.length]. repeat split; try discriminate; try lia.
      apply Rn_skip; [reflexivity|constructor]. }
    destruct (conn_read_line c) as [[line|e] c1].
    2:{ exists 1%nat, []. cbn [fst snd repeat app List.length]. repeat split; try discriminate; try lia.
        apply Rn_skip; [reflexivity|]. apply Rn_wire; [lia|constructor]. }
    destruct (bytes_eqb line (bs "*")).
    { exists 1%nat, [501%Z]. cbn [fst snd repeat app List.length]. repeat split; try discriminate; try lia.
      apply Rn_skip; [reflexivity|]. apply Rn_wire; [lia|]. apply Rn_reply; [lia|constructor]. }
    destruct (decode_sasl_response line) as [r|].
    2:{ exists 1%nat, [454%Z]. cbn [fst snd repeat app List.length]. repeat split; try discriminate; try lia.
        apply Rn_skip; [reflexivity|]. apply Rn_wire; [lia|]. apply Rn_reply; [lia|constructor]. }
    destruct (IH c1 (Some r) Hrest) as (k & fin & H1 & H2 & H3 & H4).
    destruct (auth_loop rest c1 (Some r)) as [[c2 ev] ok]. cbn [fst snd] in *.
    exists (S k), fin. cbn [repeat app]. repeat split; try assumption; try (apply H4; assumption).
    apply Rn_skip; [reflexivity|]. apply Rn_wire; [lia|exact H1].
Qed.

(* AUTH, exactly: no final reply only when the connection's input ended (or
   failed) while the exchange was waiting for a response line *)
Definition shape_auth_x (c : conn) (codes : list N) : Prop :=
  exists k fin, codes = repeat 334%N k ++ fin /\ (List.length fin <= 1)%nat
                /\ (fin = [] -> auth_input_ends (ap_steps (fst (pop_auth c))) (snd (pop_auth c)) = true).

Lemma shape_auth_x_weaken c codes : shape_auth_x c codes -> shape_auth codes.
Proof. intros (k & fin & H1 & H2 & _). exists k, fin. split; assumption. Qed.

Lemma shape_auth_x_of c k fin tail :
  (List.length (fin ++ tail) <= 1)%nat ->
  (fin ++ tail = [] -> auth_input_ends (ap_steps (fst (pop_auth c))) (snd (pop_auth c)) = true) ->
  shape_auth_x c (map Z.to_N ((repeat 334%Z k ++ fin) ++ tail)).
Proof.
  intros H H'. exists k, (map Z.to_N (fin ++ tail)). rewrite <- app_assoc, map_app, map_length.
  split; [|split; [exact H|]].
  - f_equal. induction k; cbn [repeat map]; [reflexivity|]. rewrite IHk. reflexivity.
  - intros E. apply map_eq_nil in E. exact (H' E).
Qed.

Lemma CI_upd_t c t : CI (upd_t c t) <-> CI c.
Proof. destruct c. reflexivity. Qed.

Lemma handle_auth_hs cfg c arg :
  Inv c -> c_closed c = false -> CI c -> HS (fun cs _ => shape_auth_x c cs) (handle_auth cfg c arg).
Proof.
  intros HI Hc HC. start c HI HC. unfold handle_auth. cs.
  assert (Hone : forall code ec msg, (100 <= code <= 999)%Z ->
            HS (fun cs _ => shape_auth_x (mkC t ph be h se er bm fr rc da false tl bd rv) cs)
               (mkC t ph be h se er bm fr rc da false tl bd rv, [reply code ec msg])).
  { intros code ec msg H1. hs_open; [|exact HC]. exists 0%nat. eexists. split; [reflexivity|].
    split; [cbn; lia|discriminate]. }
  destruct h as [|h0 h]; [apply Hone; lia|].
  destruct da; [apply Hone; lia|].
  destruct (fields arg) as [|m more]; [apply Hone; lia|].
  unfold auth_allowed. cs.
  destruct (tl || cf_insecure_auth cfg); cbn [negb]; [|apply Hone; lia].
  assert (Hir : forall ir : option (option bytes),
    HS (fun cs _ => shape_auth_x (mkC t ph be (h0 :: h) se er bm fr rc false false tl bd rv) cs)
      match ir with
      | None => (mkC t ph be (h0 :: h) se er bm fr rc false false tl bd rv,
                 [reply 454 (4, 7, 0)%Z (bs "Invalid base64 data")])
      | Some ir =>
          match cf_auth cfg with
          | None => (mkC t ph be (h0 :: h) se er bm fr rc false false tl bd rv,
                     [reply_err 454 (4, 7, 0)%Z err_auth_unknown_mechanism])
          | Some _ =>
              let '(p, c1) := pop_auth (mkC t ph be (h0 :: h) se er bm fr rc false false tl bd rv) in
              match ap_start p with
              | BNil =>
                  let '(c2, ev, ok) := auth_loop (ap_steps p) c1 ir in
                  if ok then
                    (upd_did_auth c2 true,
                     EAuth (to_upper m) BNil :: ev
                       ++ [reply 235 (2, 0, 0)%Z (bs "Authentication succeeded"); EAuthOk])
                  else (c2, EAuth (to_upper m) BNil :: ev)
              | e => (c1, [EAuth (to_upper m) e; reply_err 454 (4, 7, 0)%Z e])
              end
          end
      end).
  { intros [ir|]; [|apply Hone; lia].
    destruct (cf_auth cfg) as [mechs|].
    2:{ hs_open; [|exact HC]. exists 0%nat. eexists. split; [reflexivity|]. split; [cbn; lia|discriminate]. }
    unfold pop_auth. cs.
    destruct HC as [Hbe Hbd]. apply backend_codes_ok_split in Hbe as (B1 & B2 & B3 & B4 & B5).
    destruct (pop_ok aplan_ok ap_default (be_auth be) eq_refl B5) as [Hp Hrest].
    destruct (pop ap_default (be_auth be)) as [p rest] eqn:Epop. cs.
    assert (HBE : backend_codes_ok (mkBE (be_ns be) (be_mail be) (be_rcpt be) (be_data be) rest) = true)
      by (apply backend_codes_ok_intro; assumption).
    unfold aplan_ok in Hp. apply andb_true_iff in Hp as [Hstart Hsteps].
    destruct (ap_start p) as [|scode sec smsg|smsg].
    2,3: hs_open; [exists 0%nat; eexists; split; [reflexivity|split; [cbn; lia|discriminate]]|split; [exact HBE|exact Hbd]].
    match goal with |- context [auth_loop ?s ?c ?r] =>
      pose proof (auth_loop_spec s c r) as [Hc2 _];
      destruct (auth_loop_rn s c r Hsteps) as (k & fin & R1 & R2 & R3 & R4);
      destruct (auth_loop s c r) as [[c2 ev] ok] end.
    cbn [fst snd] in *. cs.
    assert (HC2 : CI c2) by (rewrite Hc2; apply CI_upd_t; split; [exact HBE|exact Hbd]).
    destruct ok.
    - rewrite (R2 eq_refl) in R1. unfold HS. cs. eexists. split.
      + apply Rn_skip; [reflexivity|]. eapply Rn_app; [exact R1|].
        apply Rn_reply; [lia|]. apply Rn_skip; [reflexivity|constructor].
      + split; [apply shape_auth_x_of; [cbn; lia|discriminate]|]. destruct c2. exact HC2.
    - unfold HS. cs. eexists. split.
      + apply Rn_skip; [reflexivity|]. exact R1.
      + split; [|exact HC2]. rewrite <- (app_nil_r (repeat 334%Z k ++ fin)).
        apply shape_auth_x_of; rewrite app_nil_r; [exact R3|].
        unfold pop_auth. cs. rewrite Epop. cs. exact (proj1 (R4 eq_refl)). }
  destruct more as [|x more]; [exact (Hir (Some None))|].
  destruct (decode_sasl_response x) as [r|]; [exact (Hir (Some (Some r)))|exact (Hir None)].
Qed.

(* ---------- dispatch ---------- *)

Lemma verb_is CMD s v : cmd_is CMD s = true -> verb_of_upper (bs s) = v -> verb_of_upper CMD = v.
Proof. unfold cmd_is. intros H. apply bytes_eqb_eq in H. subst CMD. exact (fun x => x). Qed.

(* C04 (1): for every configuration, every open connection state reachable
   by the loop (Inv, CI) and every command: the reply groups the handler
   writes have the shape fixed by the verb; the invariant on the backend's
   codes is preserved. *)
Theorem handle_groups cfg c cmd arg :
  Inv c -> c_closed c = false -> CI c ->
  HS (group_shape cfg (List.length (c_rcpts c)) (verb_of_cmd cmd) arg) (handle cfg c cmd arg).
Proof.
  intros HI Hc HC. unfold handle, verb_of_cmd.
  destruct cmd as [|c0 cmd]; [apply protocol_error_hs; [lia|exact HC]|].
  set (CMD := to_upper (c0 :: cmd)). clearbody CMD.
  assert (Hone : forall code ec msg, (100 <= code <= 999)%Z ->
            HS (group_shape cfg (List.length (c_rcpts c)) VOther arg) (c, [reply code ec msg])).
  { intros code ec msg H1. hs_open; [one_code|exact HC]. }
  destruct (cmd_is CMD "SEND" || cmd_is CMD "SOML" || cmd_is CMD "SAML" || cmd_is CMD "EXPN"
            || cmd_is CMD "HELP" || cmd_is CMD "TURN") eqn:E0.
  { assert (Hv : verb_of_upper CMD = VOther).
    { repeat (apply orb_true_iff in E0 as [E0|E0]); eapply verb_is; try exact E0; reflexivity. }
    rewrite Hv. apply Hone. lia. }
  destruct (cmd_is CMD "HELO" || cmd_is CMD "EHLO" || cmd_is CMD "LHLO") eqn:E1.
  { assert (Hv : verb_of_upper CMD = VOther).
    { repeat (apply orb_true_iff in E1 as [E1|E1]); eapply verb_is; try exact E1; reflexivity. }
    rewrite Hv.
    destruct (cf_lmtp cfg && negb (cmd_is CMD "LHLO")); [apply Hone; lia|].
    destruct (negb (cf_lmtp cfg) && cmd_is CMD "LHLO"); [apply Hone; lia|].
    apply handle_greet_hs; assumption. }
  destruct (cmd_is CMD "MAIL") eqn:E2.
  { rewrite (verb_is _ "MAIL" VOther E2 eq_refl). apply handle_mail_hs; assumption. }
  destruct (cmd_is CMD "RCPT") eqn:E3.
  { rewrite (verb_is _ "RCPT" VOther E3 eq_refl). apply handle_rcpt_hs; assumption. }
  destruct (cmd_is CMD "VRFY") eqn:E4.
  { rewrite (verb_is _ "VRFY" VOther E4 eq_refl). apply Hone; lia. }
  destruct (cmd_is CMD "NOOP") eqn:E5.
  { rewrite (verb_is _ "NOOP" VOther E5 eq_refl). apply Hone; lia. }
  destruct (cmd_is CMD "RSET") eqn:E6.
  { rewrite (verb_is _ "RSET" VOther E6 eq_refl). rewrite do_reset_eq.
    hs_open; [one_code|]. unfold reset_c. cs. split; [exact (proj1 HC)|exact I]. }
  destruct (cmd_is CMD "BDAT") eqn:E7.
  { rewrite (verb_is _ "BDAT" VBdat E7 eq_refl). apply handle_bdat_hs; assumption. }
  destruct (cmd_is CMD "DATA") eqn:E8.
  { rewrite (verb_is _ "DATA" VData E8 eq_refl). apply handle_data_hs; assumption. }
  destruct (cmd_is CMD "QUIT") eqn:E9.
  { rewrite (verb_is _ "QUIT" VOther E9 eq_refl). rewrite do_close_eq.
    hs_open; [one_code|]. unfold close_c. cs. split; [exact (proj1 HC)|exact I]. }
  destruct (cmd_is CMD "AUTH") eqn:E10.
  { rewrite (verb_is _ "AUTH" VAuth E10 eq_refl).
    eapply HS_impl; [|apply handle_auth_hs; assumption]. intros cs b. apply shape_auth_x_weaken. }
  destruct (cmd_is CMD "STARTTLS") eqn:E11.
  { rewrite (verb_is _ "STARTTLS" VStartTLS E11 eq_refl). apply handle_starttls_hs; assumption. }
  unfold verb_of_upper. rewrite E8, E7, E10, E11.
  apply protocol_error_hs; [lia|exact HC].
Qed.

(* the line could not be split into verb and argument *)
Theorem unparsable_groups c :
  CI c -> HS shape_other (protocol_error c 501 (5, 5, 2)%Z (bs "Bad command")).
Proof. intros HC. apply protocol_error_hs; [lia|exact HC]. Qed.

(* the same in terms of the octets on the wire *)
Corollary handle_group_codes cfg c cmd arg :
  Inv c -> c_closed c = false -> CI c ->
  group_shape cfg (List.length (c_rcpts c)) (verb_of_cmd cmd) arg
              (codes_of (snd (handle cfg c cmd arg))) (c_closed (fst (handle cfg c cmd arg)))
  /\ CI (fst (handle cfg c cmd arg)).
Proof.
  intros HI Hc HC. destruct (handle_groups cfg c cmd arg HI Hc HC) as (cs & H1 & H2 & H3).
  rewrite (Rn_codes _ _ H1). split; assumption.
Qed.

Corollary unparsable_group_codes c :
  CI c ->
  shape_other (codes_of (snd (protocol_error c 501 (5, 5, 2)%Z (bs "Bad command"))))
              (c_closed (fst (protocol_error c 501 (5, 5, 2)%Z (bs "Bad command"))))
  /\ CI (fst (protocol_error c 501 (5, 5, 2)%Z (bs "Bad command"))).
Proof.
  intros HC. destruct (unparsable_groups c HC) as (cs & H1 & H2 & H3).
  rewrite (Rn_codes _ _ H1). split; assumption.
Qed.

(* AUTH, exactly: k challenges 334 and at most one final reply; none only when
   the connection's input ended or failed inside the exchange *)
Corollary handle_auth_codes cfg c arg :
  Inv c -> c_closed c = false -> CI c ->
  shape_auth_x c (codes_of (snd (handle_auth cfg c arg))).
Proof.
  intros HI Hc HC. destruct (handle_auth_hs cfg c arg HI Hc HC) as (cs & H1 & H2 & _).
  rewrite (Rn_codes _ _ H1). exact H2.
Qed.

(* ================= C04 (2): the trace of a connection ================= *)

Lemma Rn_codes_app ev cs rest : Rn ev cs -> codes_of (ev ++ rest) = map Z.to_N cs ++ codes_of rest.
Proof.
  unfold codes_of. induction 1 as [|code ec texts ev cs Hc _ IH|e ev cs He _ IH]; cbn [app].
  - reflexivity.
  - rewrite wire_of_cons_wire, reply_codes_write_response_app by exact Hc. cbn [map app]. rewrite IH. reflexivity.
  - rewrite wire_of_cons_other by (apply skip_ok_wire, He). exact IH.
Qed.

Lemma Rn_no_cmd ev cs : Rn ev cs -> forallb (fun e => negb (is_cmd e)) ev = true.
Proof.
  induction 1 as [|code ec texts ev cs Hc _ IH|e ev cs He _ IH]; cbn [forallb]; [reflexivity|exact IH|].
  rewrite (skip_ok_cmd e He), IH. reflexivity.
Qed.

(* recipients accepted in the open transaction: the events' own account of
   it (this is how the monitor of Order.v counts them) *)
Definition n_step (n : nat) (e : event) : nat :=
  match e with
  | ERcpt _ _ BNil => S n
  | EReset | ELogout | EClose => 0
  | _ => n
  end.

(* Split a trace at the ghost events of the command loop: what precedes the
   first command, then for every command line the number of recipients
   accepted so far in the open transaction and the events up to the next
   command. *)
Fixpoint blocks_from (n : nat) (tr : list event) : list event * list (nat * bytes * list event) :=
  match tr with
  | [] => ([], [])
  | ECmd l :: r => let '(p, bl) := blocks_from n r in ([], (n, l, p) :: bl)
  | e :: r => let '(p, bl) := blocks_from (n_step n e) r in (e :: p, bl)
  end.

Lemma blocks_from_app n ev rest :
  forallb (fun e => negb (is_cmd e)) ev = true ->
  blocks_from n (ev ++ rest)
  = (ev ++ fst (blocks_from (fold_left n_step ev n) rest), snd (blocks_from (fold_left n_step ev n) rest)).
Proof.
  revert n. induction ev as [|e ev IH]; intros n H; cbn [app fold_left].
  - destruct (blocks_from n rest); reflexivity.
  - cbn [forallb] in H. apply andb_true_iff in H as [He Hev].
    destruct e; try discriminate; cbn [blocks_from]; rewrite (IH _ Hev); reflexivity.
Qed.

Lemma blocks_from_nocmd n ev :
  forallb (fun e => negb (is_cmd e)) ev = true -> blocks_from n ev = (ev, []).
Proof.
  intros H. rewrite <- (app_nil_r ev) at 1. rewrite blocks_from_app by exact H.
  cbn [blocks_from fst snd]. rewrite app_nil_r. reflexivity.
Qed.

(* the monitor counts the same *)
Lemma mon_step_nrcpt cfg m e m' : mon_step cfg m e = Some m' -> m_nrcpt m' = n_step (m_nrcpt m) e.
Proof.
  destruct e; cbn [mon_step n_step]; intros H;
    first [ inversion H; reflexivity
          | apply guard_some in H as [_ ->]; cbn [m_nrcpt clear_tx set_closed_m]; try reflexivity ].
  - destruct r; reflexivity.
  - destruct ok; reflexivity.
Qed.

Lemma smon_run_nrcpt cfg ev : forall m m',
  smon_run cfg m ev = Some m' -> m_nrcpt (fst m') = fold_left n_step ev (m_nrcpt (fst m)).
Proof.
  induction ev as [|e ev IH]; intros m m' H; cbn [smon_run fold_left] in *.
  - inversion H. reflexivity.
  - destruct (smon_step cfg m e) as [m1|] eqn:E; [|discriminate].
    rewrite (IH _ _ H). f_equal. apply smon_step_mon_step in E. eapply mon_step_nrcpt, E.
Qed.

(* ---- what follows the last command ---- *)

Definition is_closing_ev (e : event) : bool :=
  match e with EDelivery _ _ _ _ | ELogout | EClose | EOutOfFuel => true | _ => false end.

(* at most one closing reply of the loop (500 5.4.0 too long line, 421 idle
   timeout / connection error) - none if a handler has already closed the
   connection - then only the events of the deferred Close *)
Definition trailer (closed : bool) (tl : list event) : Prop :=
  exists w fin, tl = w ++ fin /\ forallb is_closing_ev fin = true /\
    (w = [] \/ (closed = false /\ exists code ec msg, w = [reply code ec msg] /\ (code = 500 \/ code = 421)%Z)).

Lemma closing_nw fin : forallb is_closing_ev fin = true -> nw fin.
Proof.
  unfold nw. induction fin as [|e fin IH]; cbn [forallb]; [reflexivity|]. intros H.
  apply andb_true_iff in H as [He H]. rewrite (IH H), andb_true_r. destruct e; try discriminate; reflexivity.
Qed.

Lemma nw_wire_of ev : nw ev -> wire_of ev = [].
Proof.
  unfold nw. induction ev as [|e ev IH]; cbn [forallb]; [reflexivity|]. intros H.
  apply andb_true_iff in H as [He H]. rewrite wire_of_cons_other by (apply skip_ok_wire, He). apply IH, H.
Qed.

Lemma nw_no_cmd ev : nw ev -> forallb (fun e => negb (is_cmd e)) ev = true.
Proof. intros H. apply (Rn_no_cmd ev []), Rn_nw, H. Qed.

Lemma trailer_codes closed tl :
  trailer closed tl ->
  codes_of tl = [] \/ (closed = false /\ (codes_of tl = [500%N] \/ codes_of tl = [421%N])).
Proof.
  intros (w & fin & -> & Hfin & Hw). unfold codes_of. rewrite wire_of_app, (nw_wire_of fin (closing_nw _ Hfin)), app_nil_r.
  destruct Hw as [->|(Hc & code & ec & msg & -> & Hcc)]; [left; reflexivity|].
  right. split; [exact Hc|]. cbn [wire_of map List.concat reply]. rewrite app_nil_r.
  rewrite reply_codes_write_response by lia.
  destruct Hcc as [->| ->]; [left|right]; reflexivity.
Qed.

Lemma trailer_no_cmd closed tl : trailer closed tl -> forallb (fun e => negb (is_cmd e)) tl = true.
Proof.
  intros (w & fin & -> & Hfin & Hw). rewrite forallb_app, (nw_no_cmd fin (closing_nw _ Hfin)), andb_true_r.
  destruct Hw as [->|(_ & code & ec & msg & -> & _)]; reflexivity.
Qed.

Lemma final_close_closing c : forallb is_closing_ev (final_close c) = true.
Proof.
  unfold final_close. rewrite do_close_eq. cbn [snd]. unfold close_ev, abort_ev.
  rewrite !forallb_app. destruct (c_bdat c) as [b|]; [unfold bd_end; destruct (bd_done b)|];
    destruct (c_session c); reflexivity.
Qed.

(* ---- the blocks ---- *)

Definition line_verb (line : bytes) : verb * bytes :=
  match parse_cmd line with
  | Some (cmd, arg) => (verb_of_cmd cmd, arg)
  | None => (VOther, [])
  end.

(* One command block: the handler's events [hev], whose reply groups have
   the shape of the verb, followed - only after the last command - by the
   loop's trailer.  A handler that closes the connection ([closed]) ends the
   conversation.  [Rn hev cs]: every reply of the handler is the output of one
   writeResponse call. *)
Definition block_ok (cfg : config) (islast : bool) (blk : nat * bytes * list event) : Prop :=
  let '(n, line, ev) := blk in
  exists hev tl closed,
    ev = hev ++ tl /\ (exists cs, Rn hev cs) /\ codes_of ev = codes_of hev ++ codes_of tl
    /\ group_shape cfg n (fst (line_verb line)) (snd (line_verb line)) (codes_of hev) closed
    /\ (if islast then trailer closed tl else tl = [] /\ closed = false).

Fixpoint blocks_ok (cfg : config) (bl : list (nat * bytes * list event)) : Prop :=
  match bl with
  | [] => True
  | [b] => block_ok cfg true b
  | b :: r => block_ok cfg false b /\ blocks_ok cfg r
  end.

Lemma R_nrcpt c m : R c m -> c_closed c = false -> m_nrcpt (fst m) = List.length (c_rcpts c).
Proof. unfold R. intros H Hc. rewrite Hc in H. destruct H as [po ->]. reflexivity. Qed.

Lemma serve_loop_groups cfg fuel : forall c m,
  R c m -> Inv c -> CI c ->
  match snd (blocks_from (m_nrcpt (fst m)) (serve_loop fuel cfg c)) with
  | [] => trailer (c_closed c) (fst (blocks_from (m_nrcpt (fst m)) (serve_loop fuel cfg c)))
  | _ :: _ => fst (blocks_from (m_nrcpt (fst m)) (serve_loop fuel cfg c)) = [] /\ c_closed c = false
  end
  /\ blocks_ok cfg (snd (blocks_from (m_nrcpt (fst m)) (serve_loop fuel cfg c))).
Proof.
  induction fuel as [|f IH]; intros c m HR HI HC; cbn [serve_loop].
  - cbn [blocks_from fst snd blocks_ok]. split; [|exact I].
    exists [], [EOutOfFuel]. split; [reflexivity|]. split; [reflexivity|left; reflexivity].
  - destruct (c_closed c) eqn:Hc.
    { rewrite blocks_from_nocmd by (apply nw_no_cmd, closing_nw, final_close_closing).
      cbn [fst snd blocks_ok]. split; [|exact I].
      exists [], (final_close c). split; [reflexivity|]. split; [apply final_close_closing|left; reflexivity]. }
    pose proof (R_nrcpt c m HR Hc) as Hn.
    pose proof HR as HR'. unfold R in HR'. rewrite Hc in HR'. destruct HR' as [po Hm].
    pose proof (conn_read_line_c c) as Hc1.
    destruct (conn_read_line c) as [[line|e] c1]; cbn [snd] in Hc1.
    + (* a command line *)
      assert (HI1 : Inv c1) by (rewrite Hc1; exact HI).
      assert (Hcl1 : c_closed c1 = false) by (rewrite Hc1; exact Hc).
      assert (HC1 : CI c1) by (rewrite Hc1; apply CI_upd_t; exact HC).
      assert (Hn1 : m_nrcpt (fst m) = List.length (c_rcpts c1)) by (rewrite Hn, Hc1; destruct c; reflexivity).
      assert (Hstep : forall (r : hres) closed,
                Good cfg c1 r -> CI (fst r) -> closed = c_closed (fst r) ->
                (exists cs, Rn (snd r) cs
                   /\ group_shape cfg (List.length (c_rcpts c1)) (fst (line_verb line)) (snd (line_verb line))
                        (map Z.to_N cs) closed) ->
                let B := blocks_from (m_nrcpt (fst m)) (ECmd line :: snd r ++ serve_loop f cfg (fst r)) in
                match snd B with [] => trailer false (fst B) | _ :: _ => fst B = [] /\ false = false end
                /\ blocks_ok cfg (snd B)).
      { intros [c2 ev] closed (m' & Hrun & HR2 & HI2) HC2 Hclosed (cs & Hrn & Hshape). cbn [fst snd] in *.
        cbn [blocks_from]. rewrite blocks_from_app by (eapply Rn_no_cmd, Hrn).
        assert (Hn2 : fold_left n_step ev (m_nrcpt (fst m)) = m_nrcpt (fst m')).
        { rewrite (smon_run_nrcpt _ _ _ _ Hrun). f_equal. rewrite Hn1, Hc1. destruct c; reflexivity. }
        rewrite Hn2. specialize (IH c2 m' HR2 HI2 HC2).
        destruct (blocks_from (m_nrcpt (fst m')) (serve_loop f cfg c2)) as [p' bl'].
        cbn [fst snd] in *. destruct IH as [IH1 IH2].
        split; [split; reflexivity|].
        assert (Hblk : forall islast : bool,
                  (if islast then trailer closed p' else p' = [] /\ closed = false) ->
                  block_ok cfg islast (m_nrcpt (fst m), line, ev ++ p')).
        { intros islast Htl. exists ev, p', closed. split; [reflexivity|]. split; [exists cs; exact Hrn|].
          split; [rewrite (Rn_codes_app _ _ _ Hrn), (Rn_codes _ _ Hrn); reflexivity|].
          split; [|exact Htl]. rewrite (Rn_codes _ _ Hrn), Hn1. exact Hshape. }
        destruct bl' as [|b1 bl'].
        - cbn [blocks_ok]. apply (Hblk true). rewrite Hclosed. exact IH1.
        - change (block_ok cfg false (m_nrcpt (fst m), line, ev ++ p') /\ blocks_ok cfg (b1 :: bl')).
          split; [|exact IH2]. apply (Hblk false). destruct IH1 as [-> Hcl2].
          split; [reflexivity|]. rewrite Hclosed. exact Hcl2. }
      unfold line_verb in Hstep.
      destruct (parse_cmd line) as [[cmd arg]|]; cbn [fst snd] in Hstep.
      * pose proof (handle_ok cfg c1 cmd arg HI1 Hcl1) as HG.
        destruct (handle_groups cfg c1 cmd arg HI1 Hcl1 HC1) as (cs & G1 & G2 & G3).
        specialize (Hstep (handle cfg c1 cmd arg) _ HG G3 eq_refl (ex_intro _ cs (conj G1 G2))).
        destruct (handle cfg c1 cmd arg) as [c2 ev]. exact Hstep.
      * pose proof (protocol_error_ok cfg c1 501 (5, 5, 2)%Z (bs "Bad command") HI1 Hcl1) as HG.
        destruct (unparsable_groups c1 HC1) as (cs & G1 & G2 & G3).
        specialize (Hstep (protocol_error c1 501 (5, 5, 2)%Z (bs "Bad command")) _ HG G3 eq_refl
                          (ex_intro _ cs (conj G1 G2))).
        destruct (protocol_error c1 501 (5, 5, 2)%Z (bs "Bad command")) as [c2 ev]. exact Hstep.
    + (* the read failed *)
      assert (Hw : forall code ec msg, (code = 500 \/ code = 421)%Z ->
                let B := blocks_from (m_nrcpt (fst m)) (reply code ec msg :: final_close c1) in
                match snd B with [] => trailer false (fst B) | _ :: _ => fst B = [] /\ false = false end
                /\ blocks_ok cfg (snd B)).
      { intros code ec msg Hcode. cbv zeta.
        rewrite blocks_from_nocmd.
        2:{ cbn [forallb]. apply nw_no_cmd, closing_nw, final_close_closing. }
        cbn [fst snd blocks_ok]. split; [|exact I].
        exists [reply code ec msg], (final_close c1). split; [reflexivity|].
        split; [apply final_close_closing|]. right. split; [reflexivity|].
        exists code, ec, msg. split; [reflexivity|exact Hcode]. }
      assert (Hn0 : let B := blocks_from (m_nrcpt (fst m)) (final_close c1) in
                match snd B with [] => trailer false (fst B) | _ :: _ => fst B = [] /\ false = false end
                /\ blocks_ok cfg (snd B)).
      { cbv zeta. rewrite blocks_from_nocmd by (apply nw_no_cmd, closing_nw, final_close_closing).
        cbn [fst snd blocks_ok]. split; [|exact I].
        exists [], (final_close c1). split; [reflexivity|]. split; [apply final_close_closing|left; reflexivity]. }
      destruct e; first [exact Hn0 | apply Hw; lia].
Qed.

Lemma greeting_codes cfg : codes_of [greeting cfg] = [220%N].
Proof.
  unfold codes_of, greeting. cbn [wire_of map List.concat]. rewrite app_nil_r.
  apply reply_codes_write_response. lia.
Qed.

Lemma init_conn_CI cfg be phases : backend_codes_ok be = true -> CI (init_conn cfg be phases).
Proof. intros H. unfold init_conn. destruct phases as [|p r]; (split; [exact H|exact I]). Qed.

Lemma init_conn_R cfg be phases : R (init_conn cfg be phases) (smon_init (cf_implicit_tls cfg)).
Proof. unfold R, init_conn. destruct phases as [|p r]; cbn; exists false; reflexivity. Qed.

Lemma init_conn_Inv cfg be phases : Inv (init_conn cfg be phases).
Proof. unfold Inv, init_conn. destruct phases as [|p r]; cbn; repeat split; intros; congruence. Qed.

(* C04 (2): for every fuel, configuration, backend script with three-digit
   codes and every schedule of raw reads in every TLS phase (all
   segmentations, pipelined or not): the wire output before the first command
   is the greeting - one group 220; the events between two consecutive
   commands are those of ONE handler call and their reply groups have the
   shape of the verb, with n = the recipients accepted in the open
   transaction; after the last command the loop adds at most one closing
   reply (500 too long line / 421 timeout or connection error; none after a
   handler closed the connection) and then only the events of Close.  Lines
   consumed inside an AUTH exchange, a DATA message, a BDAT chunk or a TLS
   handshake are not commands: the model emits ECmd only where the loop
   reads a command line. *)
Theorem serve_groups fuel cfg be phases :
  backend_codes_ok be = true ->
  let B := blocks_from 0 (serve fuel cfg be phases) in
  (exists tl, fst B = greeting cfg :: tl /\ codes_of [greeting cfg] = [220%N]
              /\ match snd B with [] => trailer false tl | _ :: _ => tl = [] end)
  /\ blocks_ok cfg (snd B).
Proof.
  intros Hbe. cbv zeta. unfold serve, greeting. cbn [blocks_from n_step].
  fold (greeting cfg).
  pose proof (serve_loop_groups cfg fuel (init_conn cfg be phases) (smon_init (cf_implicit_tls cfg))
                (init_conn_R cfg be phases) (init_conn_Inv cfg be phases) (init_conn_CI cfg be phases Hbe)) as H.
  change (m_nrcpt (fst (smon_init (cf_implicit_tls cfg)))) with 0%nat in H.
  destruct (blocks_from 0 (serve_loop fuel cfg (init_conn cfg be phases))) as [p bl]. cbn [fst snd] in *.
  destruct H as [H1 H2]. split; [|exact H2].
  exists p. split; [reflexivity|]. split; [apply greeting_codes|].
  destruct bl as [|b bl]; [|exact (proj1 H1)].
  assert (Hcl : c_closed (init_conn cfg be phases) = false) by (unfold init_conn; destruct phases; reflexivity).
  rewrite Hcl in H1. exact H1.
Qed.

(* the wire output of the whole connection is the concatenation of the
   blocks' outputs: nothing is written outside them *)
Lemma blocks_from_flatten n tr :
  tr = fst (blocks_from n tr)
       ++ flat_map (fun '(_, line, ev) => ECmd line :: ev) (snd (blocks_from n tr)).
Proof.
  revert n. induction tr as [|e tr IH]; intros n; [reflexivity|].
  destruct e; cbn [blocks_from];
    match goal with
    | |- context [blocks_from ?k tr] =>
        let H := fresh in pose proof (IH k) as H; destruct (blocks_from k tr) as [p bl];
        cbn [fst snd flat_map app] in *; rewrite <- H; reflexivity
    end.
Qed.

(* ---- every reply on the wire is the output of one writeResponse call ---- *)

Definition is_rendered (b : bytes) : Prop :=
  exists code ec texts, (100 <= code <= 999)%Z /\ b = write_response code ec texts.

Lemma Rn_rendered ev cs : Rn ev cs -> forall b, In (EWire b) ev -> is_rendered b.
Proof.
  induction 1 as [|code ec texts ev cs Hc _ IH|e ev cs He _ IH]; intros b Hin.
  - destruct Hin.
  - destruct Hin as [Hin|Hin]; [|apply IH, Hin]. inversion Hin; subst. exists code, ec, texts. split; [exact Hc|reflexivity].
  - destruct Hin as [Hin|Hin]; [|apply IH, Hin]. subst e. discriminate.
Qed.

Lemma trailer_rendered closed tl : trailer closed tl -> forall b, In (EWire b) tl -> is_rendered b.
Proof.
  intros (w & fin & -> & Hfin & Hw) b Hin. apply in_app_or in Hin as [Hin|Hin].
  - destruct Hw as [->|(_ & code & ec & msg & -> & Hc)]; [destruct Hin|].
    destruct Hin as [Hin|[]]. unfold reply in Hin. inversion Hin; subst.
    exists code, ec, [msg]. split; [lia|reflexivity].
  - exfalso. rewrite forallb_forall in Hfin. specialize (Hfin _ Hin). discriminate.
Qed.

Lemma blocks_ok_in cfg bl blk : blocks_ok cfg bl -> In blk bl -> exists islast, block_ok cfg islast blk.
Proof.
  induction bl as [|b r IH]; intros H Hin; [destruct Hin|].
  destruct r as [|b' r'].
  - destruct Hin as [->|[]]. exists true. exact H.
  - change (block_ok cfg false b /\ blocks_ok cfg (b' :: r')) in H. destruct H as [H1 H2].
    destruct Hin as [->|Hin]; [exists false; exact H1|apply IH; assumption].
Qed.

Lemma block_ok_rendered cfg islast n line ev :
  block_ok cfg islast (n, line, ev) -> forall b, In (EWire b) ev -> is_rendered b.
Proof.
  intros (hev & tl & closed & -> & (cs & Hrn) & _ & _ & Htl) b Hin.
  apply in_app_or in Hin as [Hin|Hin]; [eapply Rn_rendered; eassumption|].
  destruct islast; [eapply trailer_rendered; eassumption|]. destruct Htl as [-> _]. destruct Hin.
Qed.

(* C04 (3), unconditional part: in every trace (backend codes of three
   digits) every EWire is the output of one writeResponse call *)
Theorem serve_rendered fuel cfg be phases :
  backend_codes_ok be = true ->
  forall b, In (EWire b) (serve fuel cfg be phases) -> is_rendered b.
Proof.
  intros Hbe b Hin. pose proof (serve_groups fuel cfg be phases Hbe) as H. cbv zeta in H.
  rewrite (blocks_from_flatten 0 (serve fuel cfg be phases)) in Hin.
  destruct (blocks_from 0 (serve fuel cfg be phases)) as [pre bl]. cbn [fst snd] in *.
  destruct H as [(tl & -> & _ & Htl) Hbl]. apply in_app_or in Hin as [Hin|Hin].
  - destruct Hin as [Hin|Hin].
    + unfold greeting in Hin. inversion Hin; subst. eexists 220%Z, _, _. split; [lia|reflexivity].
    + destruct bl as [|b0 bl]; [eapply trailer_rendered; eassumption|]. subst tl. destruct Hin.
  - apply in_flat_map in Hin as ([[n line] ev] & Hblk & Hin).
    destruct Hin as [Hin|Hin]; [discriminate|].
    destruct (blocks_ok_in cfg bl _ Hbl Hblk) as [islast Hok].
    eapply block_ok_rendered; eassumption.
Qed.

(* ================= non-vacuity ================= *)

Module C04Example.
Local Open Scope string_scope.
Local Open Scope list_scope.

Definition raw_of (b : bytes) : raw := match b with c :: d => RData c d | [] => RFail TEof end.
Definition ln (s : string) : bytes := bs s ++ crlf.

Definition cfg : config :=
  mkCfg false false (bs "mx") 0 0 2000 true false false false false false false (Some [bs "PLAIN"]) false.

(* the first message is refused by the backend, the second accepted *)
Definition be : backend :=
  mkBE [] [] [] [mkDP [4096%nat] None (BSmtp 554 (5, 7, 1)%Z (bs "rejected")) true false []; dp_default]
       [mkAP BNil [SaslStep (bs "who?") false BNil; SaslStep [] true BNil]].

Definition stream : bytes :=
  ln "EHLO client.example" ++ ln "FOOD bar" ++ ln "MAIL FROM:<a@example.org>"
  ++ ln "RCPT TO:<b@example.org>" ++ ln "RCPT TO:<c@example.org>"
  ++ ln "DATA" ++ ln "hello" ++ ln "."
  ++ ln "MAIL FROM:<a@example.org>" ++ ln "RCPT TO:<b@example.org>"
  ++ ln "BDAT 5" ++ bs "hello" ++ ln "BDAT 2 LAST" ++ crlf
  ++ ln "AUTH PLAIN" ++ ln "AGEAYg=="
  ++ ln "%%%" ++ ln "" ++ ln "???" ++ ln "!!!".

Definition show_blocks (tr : list event) : list N * list (nat * string * list N) :=
  let B := blocks_from 0 tr in
  (codes_of (fst B),
   map (fun '(n, line, ev) => (n, string_of_list_ascii (firstn 4 line), codes_of ev)) (snd B)).

Definition expected : list N * list (nat * string * list N) :=
  ([220%N],
   [(0%nat, "EHLO", [250%N]); (0%nat, "FOOD", [500%N]); (0%nat, "MAIL", [250%N]);
    (0%nat, "RCPT", [250%N]); (1%nat, "RCPT", [250%N]);
    (2%nat, "DATA", [354%N; 554%N]);                       (* the message lines are not commands *)
    (0%nat, "MAIL", [250%N]); (0%nat, "RCPT", [250%N]);
    (1%nat, "BDAT", [250%N]); (1%nat, "BDAT", [250%N]);    (* Continue; OK: queued *)
    (0%nat, "AUTH", [334%N; 235%N]);                       (* the response line is not a command *)
    (0%nat, "%%%", [501%N]); (0%nat, "", [500%N]);
    (0%nat, "???", [501%N; 500%N])]).                      (* fourth error: closing notice; "!!!" is never read *)

(* fully pipelined: everything arrives in one segment *)
Example pipelined : show_blocks (serve 40 cfg be [[raw_of stream]]) = expected.
Proof. vm_compute. reflexivity. Qed.

(* one octet per raw read *)
Example octet_by_octet :
  show_blocks (serve 40 cfg be [map (fun c => RData c []) stream]) = expected.
Proof. vm_compute. reflexivity. Qed.

Example hypotheses : backend_codes_ok be = true.
Proof. reflexivity. Qed.

(* LMTP: one final reply per accepted recipient, for DATA and for BDAT LAST *)
Definition lcfg : config :=
  mkCfg true false (bs "mx") 0 0 2000 false false false false false false true None false.
Definition lbe : backend :=
  mkBE [] [] []
       [mkDP [4096%nat] None BNil true false [(bs "c@example.org", BSmtp 550 (5, 1, 1)%Z (bs "no such user"))];
        dp_default] [].
Definition lstream : bytes :=
  ln "LHLO client.example" ++ ln "MAIL FROM:<a@example.org>"
  ++ ln "RCPT TO:<b@example.org>" ++ ln "RCPT TO:<c@example.org>"
  ++ ln "DATA" ++ ln "hello" ++ ln "."
  ++ ln "MAIL FROM:<a@example.org>" ++ ln "RCPT TO:<b@example.org>" ++ ln "RCPT TO:<c@example.org>"
  ++ ln "RCPT TO:<d@example.org>" ++ ln "BDAT 5 LAST" ++ bs "hello" ++ ln "QUIT".

Example lmtp :
  show_blocks (serve 40 lcfg lbe [[raw_of lstream]])
  = ([220%N],
     [(0%nat, "LHLO", [250%N]); (0%nat, "MAIL", [250%N]); (0%nat, "RCPT", [250%N]); (1%nat, "RCPT", [250%N]);
      (2%nat, "DATA", [354%N; 250%N; 550%N]);
      (0%nat, "MAIL", [250%N]); (0%nat, "RCPT", [250%N]); (1%nat, "RCPT", [250%N]); (2%nat, "RCPT", [250%N]);
      (3%nat, "BDAT", [250%N; 250%N; 250%N]); (0%nat, "QUIT", [221%N])]).
Proof. vm_compute. reflexivity. Qed.

End C04Example.
