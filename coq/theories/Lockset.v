(* Lockset.v - data-race freedom by lock discipline + spawn/join ordering.

   PART 1 (generic).  An abstract concurrent program is a family of task
   instances [i : I], each a list of events

       Acc field (R|W) site | Acq | Rel | Spawn i | Send ch | Recv ch

   ([site] is a label naming the source function of the access; the semantics
   ignores it).  Interleaving semantics with ONE mutex: [Acq] blocks while the
   mutex is held, [Rel] is only possible for the holder, [Recv ch] blocks until
   a [Send ch] has happened, an instance that is not a root starts when some
   instance executes [Spawn] of it.  A schedule is a list of instance ids (who
   tries to move next; a blocked or finished instance does not move); all
   theorems quantify over every schedule, of any length.

   A data race is a reachable state in which two different started instances
   both have a conflicting access as their NEXT event (same field, at least
   one write).

     mutual_exclusion : at most one instance is between Acq and Rel.
     race_positions   : what is known about the two positions of a reachable
                        race: not both inside a lock region, neither instance
                        is "not yet spawned" by the other's position, neither
                        is past a receive whose only sender has not sent yet.
     lockset_hb_sound : a program in which every conflicting pair of
                        positions of two different instances is both-locked
                        or ordered by such a spawn / send-before-receive edge
                        has no reachable data race.

   PART 2 (the family of shapes go-smtp uses, unbounded).  A [template] is a
   finite table: handler bodies, closure bodies, external entry bodies.  For
   EVERY list [hs] of handler invocations (any number, any order) and every
   list [es] of external tasks (each any sequence of external entries) the
   concrete program [inst tpl hs es] has
     - the loop task   : the concatenation of the bodies of [hs];
     - detached tasks  : closures spawned by a handler invocation and never
                         joined (any number alive at once);
     - scoped tasks    : closures that end by [Send k] and whose spawning
                         handler body contains [Recv k];
     - external tasks  : run at any time.
   [races tpl] is a computable list of the unprotected conflicting pairs
   (field, site, site) over the relations loop x external, external x
   external, closure x external, closure x closure, detached closure x every
   handler access, scoped closure x the accesses of a handler between its
   spawn and its join.

     races_sound       : wf_b tpl = true -> every reachable data race of
                         every inst tpl hs es, under every schedule, is on a
                         triple listed in [races tpl].
     race_free_b_sound : race_free_b tpl = true -> no data race at all. *)
From Coq Require Import List String Bool Arith Lia.
Import ListNotations.

Inductive event (I C : Type) : Type :=
| Acc (f : string) (w : bool) (site : string)
| Acq
| Rel
| Spawn (i : I)
| Send (c : C)
| Recv (c : C).
Arguments Acc {I C} f w site.
Arguments Acq {I C}.
Arguments Rel {I C}.
Arguments Spawn {I C} i.
Arguments Send {I C} c.
Arguments Recv {I C} c.

(* ------------------------------------------------------------------ *)
(* lock status along an event list                                     *)

Section Held.
  Context {I C : Type}.

  Definition held_step (b : bool) (e : event I C) : bool :=
    match e with Acq => true | Rel => false | _ => b end.

  Definition held_from (b : bool) (l : list (event I C)) : bool :=
    fold_left held_step l b.

  Definition held (l : list (event I C)) : bool := held_from false l.

  Lemma held_from_app b l1 l2 :
    held_from b (l1 ++ l2) = held_from (held_from b l1) l2.
  Proof. unfold held_from. apply fold_left_app. Qed.

  Lemma held_snoc l e : held (l ++ [e]) = held_step (held l) e.
  Proof. unfold held. rewrite held_from_app. reflexivity. Qed.
End Held.

(* ------------------------------------------------------------------ *)
(* PART 1: generic semantics and theorems                              *)

Section Sem.
  Context {I C : Type}.
  Context (I_dec : forall a b : I, {a = b} + {a <> b}).
  Context (C_dec : forall a b : C, {a = b} + {a <> b}).
  Notation ev := (event I C).

  Record program := mkProg { body : I -> list ev; root : I -> bool }.

  Record state := mkS {
    pc : I -> list ev;          (* remaining events of each instance *)
    started : I -> bool;
    holder : option I;          (* who holds the mutex *)
    sent : C -> bool            (* channels on which a Send has happened *)
  }.

  Definition updI {A} (f : I -> A) (k : I) (v : A) : I -> A :=
    fun x => if I_dec x k then v else f x.
  Definition updC {A} (f : C -> A) (k : C) (v : A) : C -> A :=
    fun x => if C_dec x k then v else f x.

  Definition init (p : program) : state :=
    mkS (body p) (root p) None (fun _ => false).

  (* instance i executes its next event e (rest r), if enabled *)
  Definition exec (s : state) (i : I) (e : ev) (r : list ev) : option state :=
    match e with
    | Acc _ _ _ => Some (mkS (updI (pc s) i r) (started s) (holder s) (sent s))
    | Acq =>
        match holder s with
        | None => Some (mkS (updI (pc s) i r) (started s) (Some i) (sent s))
        | Some _ => None
        end
    | Rel =>
        match holder s with
        | Some j =>
            if I_dec j i
            then Some (mkS (updI (pc s) i r) (started s) None (sent s))
            else None
        | None => None
        end
    | Spawn j =>
        Some (mkS (updI (pc s) i r) (updI (started s) j true) (holder s) (sent s))
    | Send c =>
        Some (mkS (updI (pc s) i r) (started s) (holder s) (updC (sent s) c true))
    | Recv c =>
        if sent s c
        then Some (mkS (updI (pc s) i r) (started s) (holder s) (sent s))
        else None
    end.

  Definition step (s : state) (i : I) : state :=
    if started s i then
      match pc s i with
      | [] => s
      | e :: r => match exec s i e r with Some s' => s' | None => s end
      end
    else s.

  Definition run (p : program) (sched : list I) : state :=
    fold_left step sched (init p).

  Lemma run_snoc p sched i : run p (sched ++ [i]) = step (run p sched) i.
  Proof. unfold run. rewrite fold_left_app. reflexivity. Qed.

  (* ---- the data race predicate ---- *)

  Definition race (s : state) : Prop :=
    exists i j f w1 t1 r1 w2 t2 r2,
      i <> j /\ started s i = true /\ started s j = true /\
      pc s i = Acc f w1 t1 :: r1 /\ pc s j = Acc f w2 t2 :: r2 /\
      (w1 || w2) = true.

  Definition no_race (s : state) : Prop := ~ race s.

  (* ---- invariants of reachable states ---- *)

  Set Implicit Arguments.
  Record inv (p : program) (s : state) : Prop := mkInv {
    inv_pre : forall i, exists pre, body p i = pre ++ pc s i;
    inv_mutex : forall i pre,
        body p i = pre ++ pc s i -> held pre = true -> holder s = Some i;
    inv_started : forall j,
        started s j = true ->
        root p j = true \/
        exists i pre, body p i = pre ++ pc s i /\ In (Spawn j) pre;
    inv_sent : forall c,
        sent s c = true ->
        exists i pre, body p i = pre ++ pc s i /\ In (Send c) pre;
    inv_recv : forall i pre c,
        body p i = pre ++ pc s i -> In (Recv c) pre -> sent s c = true
  }.
  Unset Implicit Arguments.

  Lemma inv_init p : inv p (init p).
  Proof.
    constructor; simpl.
    - intro i. exists []. reflexivity.
    - intros i pre Hb Hh.
      assert (pre = []) as ->.
      { apply (app_inv_tail (body p i)). symmetry. exact Hb. }
      discriminate Hh.
    - intros j Hj. left. exact Hj.
    - intros c Hc. discriminate Hc.
    - intros i pre c Hb Hin.
      assert (pre = []) as ->.
      { apply (app_inv_tail (body p i)). symmetry. exact Hb. }
      destruct Hin.
  Qed.

  (* positions after instance i consumed e *)
  Lemma pos_upd p (pcs : I -> list ev) i pre e r :
    body p i = pre ++ e :: r ->
    forall i0 pre0,
      body p i0 = pre0 ++ updI pcs i r i0 ->
      (i0 = i /\ pre0 = pre ++ [e]) \/ (i0 <> i /\ body p i0 = pre0 ++ pcs i0).
  Proof.
    intros Hb i0 pre0 H0. unfold updI in H0.
    destruct (I_dec i0 i) as [-> | Hne].
    - left. split; [reflexivity|].
      apply (app_inv_tail r). rewrite <- app_assoc. simpl.
      rewrite <- H0. exact Hb.
    - right. split; assumption.
  Qed.

  Lemma pos_keep p (pcs : I -> list ev) i pre e r :
    body p i = pre ++ e :: r ->
    forall i1 pre1,
      pcs i = e :: r ->
      body p i1 = pre1 ++ pcs i1 ->
      exists pre1', body p i1 = pre1' ++ updI pcs i r i1 /\
                    forall x, In x pre1 -> In x pre1'.
  Proof.
    intros Hb i1 pre1 Hpc H1. unfold updI.
    destruct (I_dec i1 i) as [-> | Hne].
    - rewrite Hpc in H1. exists (pre1 ++ [e]). split.
      + rewrite <- app_assoc. exact H1.
      + intros x Hx. apply in_or_app. left. exact Hx.
    - exists pre1. split; [exact H1 | auto].
  Qed.

  Lemma exec_inv p s i e r s' :
    inv p s -> pc s i = e :: r -> exec s i e r = Some s' -> inv p s'.
  Proof.
    intros Hinv Hpc Hex.
    destruct (inv_pre Hinv i) as [pre Hpre]. rewrite Hpc in Hpre.
    assert (Hpos := @pos_upd p (pc s) i pre e r Hpre).
    assert (Hkeep := fun i1 pre1 => @pos_keep p (pc s) i pre e r Hpre i1 pre1 Hpc).
    assert (Hpre' : forall i0, exists pre0, body p i0 = pre0 ++ updI (pc s) i r i0).
    { intro i0. destruct (inv_pre Hinv i0) as [pre0 H0].
      destruct (Hkeep i0 pre0 H0) as [pre0' [H0' _]]. exists pre0'. exact H0'. }
    assert (Hst : forall j, started s j = true ->
              root p j = true \/
              exists i1 pre1, body p i1 = pre1 ++ updI (pc s) i r i1 /\ In (Spawn j) pre1).
    { intros j Hj. destruct (inv_started Hinv j Hj) as [Hr | [i1 [pre1 [H1 Hin]]]].
      - left. exact Hr.
      - right. destruct (Hkeep i1 pre1 H1) as [pre1' [H1' Hsub]].
        exists i1, pre1'. split; [exact H1' | apply Hsub; exact Hin]. }
    assert (Hse : forall c, sent s c = true ->
              exists i1 pre1, body p i1 = pre1 ++ updI (pc s) i r i1 /\ In (Send c) pre1).
    { intros c Hc. destruct (inv_sent Hinv c Hc) as [i1 [pre1 [H1 Hin]]].
      destruct (Hkeep i1 pre1 H1) as [pre1' [H1' Hsub]].
      exists i1, pre1'. split; [exact H1' | apply Hsub; exact Hin]. }
    (* mutex, for instances other than i *)
    assert (Hmx : forall i0 pre0, i0 <> i -> body p i0 = pre0 ++ pc s i0 ->
                                  held pre0 = true -> holder s = Some i0).
    { intros i0 pre0 _ H0 Hh. exact (inv_mutex Hinv i0 pre0 H0 Hh). }
    assert (Hmi : held pre = true -> holder s = Some i).
    { apply (inv_mutex Hinv i pre). rewrite Hpc. exact Hpre. }
    (* recv, for the old prefix *)
    assert (Hrc : forall i0 pre0 c, body p i0 = pre0 ++ pc s i0 -> In (Recv c) pre0 -> sent s c = true).
    { exact (inv_recv Hinv). }
    assert (Hrci : forall c, In (Recv c) pre -> sent s c = true).
    { intros c Hin. apply (Hrc i pre c); [rewrite Hpc; exact Hpre | exact Hin]. }
    destruct e as [f w t | | | j | c | c]; simpl in Hex.
    - (* Acc *)
      inversion Hex; subst s'; clear Hex.
      constructor; simpl; auto.
      + intros i0 pre0 H0 Hh. destruct (Hpos i0 pre0 H0) as [[-> ->] | [Hne H0']].
        * rewrite held_snoc in Hh. simpl in Hh. auto.
        * eauto.
      + intros i0 pre0 c H0 Hin. destruct (Hpos i0 pre0 H0) as [[-> ->] | [Hne H0']].
        * apply in_app_or in Hin. destruct Hin as [Hin | [Heq | []]]; [auto | discriminate Heq].
        * eauto.
    - (* Acq *)
      destruct (holder s) as [h|] eqn:Hh0; [discriminate Hex|].
      inversion Hex; subst s'; clear Hex.
      constructor; simpl; auto.
      + intros i0 pre0 H0 Hh. destruct (Hpos i0 pre0 H0) as [[-> ->] | [Hne H0']].
        * reflexivity.
        * specialize (Hmx i0 pre0 Hne H0' Hh). discriminate Hmx.
      + intros i0 pre0 c H0 Hin. destruct (Hpos i0 pre0 H0) as [[-> ->] | [Hne H0']].
        * apply in_app_or in Hin. destruct Hin as [Hin | [Heq | []]]; [auto | discriminate Heq].
        * eauto.
    - (* Rel *)
      destruct (holder s) as [h|] eqn:Hh0; [|discriminate Hex].
      destruct (I_dec h i) as [-> | Hhi]; [|discriminate Hex].
      inversion Hex; subst s'; clear Hex.
      constructor; simpl; auto.
      + intros i0 pre0 H0 Hh. destruct (Hpos i0 pre0 H0) as [[-> ->] | [Hne H0']].
        * rewrite held_snoc in Hh. simpl in Hh. discriminate Hh.
        * specialize (Hmx i0 pre0 Hne H0' Hh). inversion Hmx. congruence.
      + intros i0 pre0 c H0 Hin. destruct (Hpos i0 pre0 H0) as [[-> ->] | [Hne H0']].
        * apply in_app_or in Hin. destruct Hin as [Hin | [Heq | []]]; [auto | discriminate Heq].
        * eauto.
    - (* Spawn *)
      inversion Hex; subst s'; clear Hex.
      constructor; simpl; auto.
      + intros i0 pre0 H0 Hh. destruct (Hpos i0 pre0 H0) as [[-> ->] | [Hne H0']].
        * rewrite held_snoc in Hh. simpl in Hh. auto.
        * eauto.
      + intros j0 Hj0. unfold updI in Hj0 at 1.
        destruct (I_dec j0 j) as [-> | Hne].
        * right. exists i, (pre ++ [Spawn j]). split.
          -- unfold updI. destruct (I_dec i i) as [_ | Hn]; [|congruence].
             rewrite <- app_assoc. exact Hpre.
          -- apply in_or_app. right. left. reflexivity.
        * apply Hst. exact Hj0.
      + intros i0 pre0 c H0 Hin. destruct (Hpos i0 pre0 H0) as [[-> ->] | [Hne H0']].
        * apply in_app_or in Hin. destruct Hin as [Hin | [Heq | []]]; [auto | discriminate Heq].
        * eauto.
    - (* Send *)
      inversion Hex; subst s'; clear Hex.
      constructor; simpl; auto.
      + intros i0 pre0 H0 Hh. destruct (Hpos i0 pre0 H0) as [[-> ->] | [Hne H0']].
        * rewrite held_snoc in Hh. simpl in Hh. auto.
        * eauto.
      + intros c0 Hc0. unfold updC in Hc0.
        destruct (C_dec c0 c) as [-> | Hne].
        * exists i, (pre ++ [Send c]). split.
          -- unfold updI. destruct (I_dec i i) as [_ | Hn]; [|congruence].
             rewrite <- app_assoc. exact Hpre.
          -- apply in_or_app. right. left. reflexivity.
        * apply Hse. exact Hc0.
      + intros i0 pre0 c0 H0 Hin. unfold updC.
        destruct (C_dec c0 c) as [_ | Hne]; [reflexivity|].
        destruct (Hpos i0 pre0 H0) as [[-> ->] | [Hne' H0']].
        * apply in_app_or in Hin. destruct Hin as [Hin | [Heq | []]]; [auto | discriminate Heq].
        * eauto.
    - (* Recv *)
      destruct (sent s c) eqn:Hsc; [|discriminate Hex].
      inversion Hex; subst s'; clear Hex.
      constructor; simpl; auto.
      + intros i0 pre0 H0 Hh. destruct (Hpos i0 pre0 H0) as [[-> ->] | [Hne H0']].
        * rewrite held_snoc in Hh. simpl in Hh. auto.
        * eauto.
      + intros i0 pre0 c0 H0 Hin. destruct (Hpos i0 pre0 H0) as [[-> ->] | [Hne H0']].
        * apply in_app_or in Hin. destruct Hin as [Hin | [Heq | []]]; [auto|].
          inversion Heq; subst c0. exact Hsc.
        * eauto.
  Qed.

  Lemma step_inv p s i : inv p s -> inv p (step s i).
  Proof.
    intro Hinv. unfold step.
    destruct (started s i); [|exact Hinv].
    destruct (pc s i) as [|e r] eqn:Hpc; [exact Hinv|].
    destruct (exec s i e r) as [s'|] eqn:Hex; [|exact Hinv].
    eapply exec_inv; eauto.
  Qed.

  Lemma run_inv p sched : inv p (run p sched).
  Proof.
    induction sched as [|i sched IH] using rev_ind.
    - apply inv_init.
    - rewrite run_snoc. apply step_inv. exact IH.
  Qed.

  (* ---- (a) mutual exclusion ---- *)

  (* instance i is between an Acq and the matching Rel *)
  Definition inside (p : program) (s : state) (i : I) : Prop :=
    exists pre, body p i = pre ++ pc s i /\ held pre = true.

  Theorem mutual_exclusion p sched i j :
    inside p (run p sched) i -> inside p (run p sched) j -> i = j.
  Proof.
    intros [prei [Hi Hhi]] [prej [Hj Hhj]].
    assert (Hinv := run_inv p sched).
    assert (H1 := inv_mutex Hinv i prei Hi Hhi).
    assert (H2 := inv_mutex Hinv j prej Hj Hhj).
    congruence.
  Qed.

  Theorem holder_is_inside p sched i pre :
    body p i = pre ++ pc (run p sched) i -> held pre = true ->
    holder (run p sched) = Some i.
  Proof. intros. eapply inv_mutex; eauto using run_inv. Qed.

  (* ---- (b) positions of a reachable race ---- *)

  (* at position [pre] of its body, instance i has not yet spawned j, and
     nobody else ever spawns j *)
  Definition spawn_excl (p : program) (i : I) (pre : list ev) (j : I) : Prop :=
    root p j = false /\
    (forall i', In (Spawn j) (body p i') -> i' = i) /\
    ~ In (Spawn j) pre.

  (* at position [pre_i] instance i is past a receive on a channel whose only
     sender is j, and j at position [pre_j] has not sent yet *)
  Definition recv_excl (p : program) (i : I) (pre_i : list ev) (j : I) (pre_j : list ev) : Prop :=
    exists c, In (Recv c) pre_i /\
              (forall i', In (Send c) (body p i') -> i' = j) /\
              ~ In (Send c) pre_j.

  Lemma started_not_spawn_excl p sched i pre j :
    let s := run p sched in
    body p i = pre ++ pc s i -> started s j = true -> ~ spawn_excl p i pre j.
  Proof.
    intros s Hi Hj [Hroot [Honly Hnot]]. subst s.
    destruct (inv_started (run_inv p sched) j Hj) as [Hr | [i' [pre' [Hb Hin]]]].
    - congruence.
    - assert (i' = i) as ->.
      { apply Honly. rewrite Hb. apply in_or_app. left. exact Hin. }
      assert (pre' = pre) as ->.
      { apply (app_inv_tail (pc (run p sched) i)). rewrite <- Hb. exact Hi. }
      exact (Hnot Hin).
  Qed.

  Lemma not_recv_excl p sched i pre_i j pre_j :
    let s := run p sched in
    body p i = pre_i ++ pc s i -> body p j = pre_j ++ pc s j ->
    ~ recv_excl p i pre_i j pre_j.
  Proof.
    intros s Hi Hj [c [Hrecv [Honly Hnot]]]. subst s.
    assert (Hs := inv_recv (run_inv p sched) i pre_i c Hi Hrecv).
    destruct (inv_sent (run_inv p sched) c Hs) as [i' [pre' [Hb Hin]]].
    assert (i' = j) as ->.
    { apply Honly. rewrite Hb. apply in_or_app. left. exact Hin. }
    assert (pre' = pre_j) as ->.
    { apply (app_inv_tail (pc (run p sched) j)). rewrite <- Hb. exact Hj. }
    exact (Hnot Hin).
  Qed.

  Theorem race_positions p sched i j pre_i pre_j :
    let s := run p sched in
    i <> j -> started s i = true -> started s j = true ->
    body p i = pre_i ++ pc s i -> body p j = pre_j ++ pc s j ->
    ~ (held pre_i = true /\ held pre_j = true) /\
    ~ spawn_excl p i pre_i j /\ ~ spawn_excl p j pre_j i /\
    ~ recv_excl p i pre_i j pre_j /\ ~ recv_excl p j pre_j i pre_i.
  Proof.
    intros s Hne Hsi Hsj Hi Hj. repeat split.
    - intros [H1 H2].
      assert (Hinv := run_inv p sched).
      assert (E1 := inv_mutex Hinv i pre_i Hi H1).
      assert (E2 := inv_mutex Hinv j pre_j Hj H2).
      congruence.
    - exact (started_not_spawn_excl p sched i pre_i j Hi Hsj).
    - exact (started_not_spawn_excl p sched j pre_j i Hj Hsi).
    - exact (not_recv_excl p sched i pre_i j pre_j Hi Hj).
    - exact (not_recv_excl p sched j pre_j i pre_i Hj Hi).
  Qed.

  (* the discipline: every conflicting pair of positions of two different
     instances is both-locked, or ordered by a spawn / send-recv edge *)
  Definition disciplined (p : program) : Prop :=
    forall i j pre_i pre_j f w1 t1 r1 w2 t2 r2,
      i <> j ->
      body p i = pre_i ++ Acc f w1 t1 :: r1 ->
      body p j = pre_j ++ Acc f w2 t2 :: r2 ->
      (w1 || w2) = true ->
      (held pre_i = true /\ held pre_j = true) \/
      spawn_excl p i pre_i j \/ spawn_excl p j pre_j i \/
      recv_excl p i pre_i j pre_j \/ recv_excl p j pre_j i pre_i.

  Theorem lockset_hb_sound p :
    disciplined p -> forall sched, no_race (run p sched).
  Proof.
    intros Hd sched
           (i & j & f & w1 & t1 & r1 & w2 & t2 & r2 & Hne & Hsi & Hsj & Hpi & Hpj & Hw).
    destruct (inv_pre (run_inv p sched) i) as [pre_i Hi].
    destruct (inv_pre (run_inv p sched) j) as [pre_j Hj].
    destruct (race_positions p sched i j pre_i pre_j Hne Hsi Hsj Hi Hj) as (N1 & N2 & N3 & N4 & N5).
    rewrite Hpi in Hi. rewrite Hpj in Hj.
    destruct (Hd i j pre_i pre_j f w1 t1 r1 w2 t2 r2 Hne Hi Hj Hw)
      as [H | [H | [H | [H | H]]]]; tauto.
  Qed.
  (* a decidable witness check: instances i and j are in a race in state s *)
  Definition race_pair_b (s : state) (i j : I) : bool :=
    (if I_dec i j then false else true) && started s i && started s j &&
    match pc s i, pc s j with
    | Acc f1 w1 _ :: _, Acc f2 w2 _ :: _ => String.eqb f1 f2 && (w1 || w2)
    | _, _ => false
    end.

  Lemma race_pair_b_sound s i j : race_pair_b s i j = true -> race s.
  Proof.
    unfold race_pair_b. intro H.
    apply andb_prop in H. destruct H as [H H4].
    apply andb_prop in H. destruct H as [H H3].
    apply andb_prop in H. destruct H as [H1 H2].
    destruct (I_dec i j) as [|Hne]; [discriminate H1|].
    destruct (pc s i) as [|[f1 w1 t1| | | | |] r1] eqn:Ei; try discriminate H4.
    destruct (pc s j) as [|[f2 w2 t2| | | | |] r2] eqn:Ej; try discriminate H4.
    apply andb_prop in H4. destruct H4 as [Hf Hw].
    apply String.eqb_eq in Hf. subst f2.
    exists i, j, f1, w1, t1, r1, w2, t2, r2. repeat split; assumption.
  Qed.
End Sem.

(* ------------------------------------------------------------------ *)
(* PART 2: the loop / detached / scoped / external family              *)

(* template events: [Spawn k] spawns closure k, [Send k] (only as an event of
   closure k itself) signals its completion, [Recv k] in a handler joins the
   instance of k spawned by the same handler invocation *)
Definition tev := event string string.

Record template := mkT {
  t_handlers : list (string * list tev);
  t_closures : list (string * list tev);
  t_externals : list (string * list tev)
}.

Fixpoint lookup (k : string) (l : list (string * list tev)) : list tev :=
  match l with
  | [] => []
  | (k', b) :: r => if String.eqb k k' then b else lookup k r
  end.

Lemma lookup_cases k l : lookup k l = [] \/ In (k, lookup k l) l.
Proof.
  induction l as [|[k' b] l IH]; simpl.
  - left. reflexivity.
  - destruct (String.eqb_spec k k') as [-> | Hne].
    + right. left. reflexivity.
    + destruct IH as [IH | IH]; [left | right; right]; exact IH.
Qed.

Inductive iid := Loop | Ext (n : nat) | Child (inv : nat) (k : string).
Definition chan := (nat * string)%type.

Definition iid_dec (a b : iid) : {a = b} + {a <> b}.
Proof. decide equality; [apply Nat.eq_dec | apply string_dec | apply Nat.eq_dec]. Defined.
Definition chan_dec (a b : chan) : {a = b} + {a <> b}.
Proof. decide equality; [apply string_dec | apply Nat.eq_dec]. Defined.

Definition cev := event iid chan.

Definition cev_dec (a b : cev) : {a = b} + {a <> b}.
Proof.
  decide equality; try apply string_dec; try apply bool_dec;
    try apply iid_dec; try apply chan_dec.
Defined.

(* events of handler invocation number n *)
Definition cv (n : nat) (e : tev) : cev :=
  match e with
  | Acc f w t => Acc f w t
  | Acq => Acq
  | Rel => Rel
  | Spawn k => Spawn (Child n k)
  | Send k => Send (n, k)
  | Recv k => Recv (n, k)
  end.

Fixpoint blocks (n : nat) (bs : list (list tev)) : list cev :=
  match bs with
  | [] => []
  | b :: r => map (cv n) b ++ blocks (S n) r
  end.

Definition hbody (tpl : template) (h : string) := lookup h (t_handlers tpl).
Definition cbody (tpl : template) (k : string) := lookup k (t_closures tpl).
Definition xbody (tpl : template) (x : string) := lookup x (t_externals tpl).

(* the concrete program for handler invocations hs and external tasks es *)
Definition inst (tpl : template) (hs : list string) (es : list (list string))
  : @program iid chan :=
  mkProg
    (fun i => match i with
              | Loop => blocks 0 (map (hbody tpl) hs)
              | Ext n => blocks 0 (map (xbody tpl) (nth n es []))
              | Child inv k => map (cv inv) (cbody tpl k)
              end)
    (fun i => match i with Child _ _ => false | _ => true end).

(* ---- static analysis of the template ---- *)

Record acc := mkAcc {
  a_f : string; a_w : bool; a_site : string;
  a_held : bool;               (* mutex held at the access *)
  a_open : list string         (* closures spawned and not yet joined *)
}.

Definition open_step (op : list string) (e : tev) : list string :=
  match e with
  | Spawn k => k :: op
  | Recv k => remove string_dec k op
  | _ => op
  end.
Definition open_from (op : list string) (l : list tev) : list string :=
  fold_left open_step l op.

Fixpoint annot (b : bool) (op : list string) (l : list tev) : list acc :=
  match l with
  | [] => []
  | e :: r =>
      let rest := annot (held_step b e) (open_step op e) r in
      match e with
      | Acc f w t => mkAcc f w t b op :: rest
      | _ => rest
      end
  end.

Definition accs (b : list tev) : list acc := annot false [] b.

Definition bad (a b : acc) : bool :=
  String.eqb (a_f a) (a_f b) && (a_w a || a_w b) && negb (a_held a && a_held b).

Definition triple := (string * string * string)%type.

Definition triple_dec (a b : triple) : {a = b} + {a <> b}.
Proof. repeat decide equality. Defined.

Definition bad_pairs (sel : acc -> acc -> bool) (A B : list acc) : list triple :=
  flat_map (fun a =>
    flat_map (fun b => if bad a b && sel a b then [(a_f a, a_site a, a_site b)] else []) B) A.

Definition all_pairs (_ _ : acc) : bool := true.

Definition is_send (k : string) (e : tev) : bool :=
  match e with Send c => String.eqb c k | _ => false end.
Definition is_recv (k : string) (e : tev) : bool :=
  match e with Recv c => String.eqb c k | _ => false end.

(* a closure is scoped iff it signals its own completion *)
Definition scoped (k : string) (cb : list tev) : bool := existsb (is_send k) cb.

Definition mem (k : string) (l : list string) : bool := existsb (String.eqb k) l.

Definition Hacc (tpl : template) : list acc := flat_map (fun hb => accs (snd hb)) (t_handlers tpl).
Definition Xacc (tpl : template) : list acc := flat_map (fun xb => accs (snd xb)) (t_externals tpl).

Definition closure_sel (kb : string * list tev) : acc -> acc -> bool :=
  if scoped (fst kb) (snd kb) then (fun _ b => mem (fst kb) (a_open b)) else all_pairs.

Definition races_raw (tpl : template) : list triple :=
  bad_pairs all_pairs (Hacc tpl) (Xacc tpl) ++
  bad_pairs all_pairs (Xacc tpl) (Xacc tpl) ++
  flat_map (fun kb =>
      bad_pairs all_pairs (accs (snd kb)) (Xacc tpl) ++
      flat_map (fun kb' => bad_pairs all_pairs (accs (snd kb)) (accs (snd kb'))) (t_closures tpl) ++
      bad_pairs (closure_sel kb) (accs (snd kb)) (Hacc tpl))
    (t_closures tpl).

(* the unprotected conflicting pairs (field, site, site) *)
Definition races (tpl : template) : list triple := nodup triple_dec (races_raw tpl).

(* ---- well-formedness of the template ---- *)

Fixpoint lock_ok (b : bool) (l : list tev) : bool :=
  match l with
  | [] => negb b
  | Acq :: r => negb b && lock_ok true r
  | Rel :: r => b && lock_ok false r
  | _ :: r => lock_ok b r
  end.

(* no access after the completion signal *)
Fixpoint no_acc_after_send (seen : bool) (l : list tev) : bool :=
  match l with
  | [] => true
  | Send _ :: r => no_acc_after_send true r
  | Acc _ _ _ :: r => negb seen && no_acc_after_send seen r
  | _ :: r => no_acc_after_send seen r
  end.

Definition handler_ok (tpl : template) (b : list tev) : bool :=
  lock_ok false b &&
  forallb (fun e => match e with
                    | Send _ => false
                    | Spawn k => implb (scoped k (cbody tpl k)) (existsb (is_recv k) b)
                    | _ => true
                    end) b.

Definition closure_ok (k : string) (b : list tev) : bool :=
  lock_ok false b &&
  forallb (fun e => match e with
                    | Spawn _ | Recv _ => false
                    | Send c => String.eqb c k
                    | _ => true
                    end) b &&
  no_acc_after_send false b.

Definition external_ok (b : list tev) : bool :=
  lock_ok false b &&
  forallb (fun e => match e with
                    | Spawn _ | Send _ | Recv _ => false
                    | _ => true
                    end) b.

Definition wf_b (tpl : template) : bool :=
  forallb (fun hb => handler_ok tpl (snd hb)) (t_handlers tpl) &&
  forallb (fun kb => closure_ok (fst kb) (snd kb)) (t_closures tpl) &&
  forallb (fun xb => external_ok (snd xb)) (t_externals tpl).

(* THE CHECKER *)
Definition race_free_b (tpl : template) : bool :=
  wf_b tpl && match races tpl with [] => true | _ => false end.

(* ---- lemmas about the static analysis ---- *)

Lemma held_from_map_cv n b l : held_from b (map (cv n) l) = held_from b l.
Proof.
  revert b. induction l as [|e l IH]; intro b; [reflexivity|].
  simpl. unfold held_from in *. simpl.
  replace (held_step b (cv n e)) with (held_step b e) by (destruct e; reflexivity).
  apply IH.
Qed.

Lemma lock_ok_held b l : lock_ok b l = true -> held_from b l = false.
Proof.
  revert b. induction l as [|e l IH]; intros b H; simpl in *.
  - destruct b; [discriminate H | reflexivity].
  - unfold held_from. simpl. fold (held_from (held_step b e) l).
    destruct e; simpl in *; try (apply IH; exact H).
    + apply andb_prop in H. destruct H as [_ H]. apply IH. exact H.
    + apply andb_prop in H. destruct H as [_ H]. apply IH. exact H.
Qed.

Lemma annot_pos l : forall b op pre f w t rest,
  l = pre ++ Acc f w t :: rest ->
  In (mkAcc f w t (held_from b pre) (open_from op pre)) (annot b op l).
Proof.
  induction l as [|e l IH]; intros b op pre f w t rest H.
  - destruct pre; discriminate H.
  - destruct pre as [|e' pre]; simpl in H; inversion H; subst.
    + simpl. left. reflexivity.
    + simpl. specialize (IH (held_step b e') (open_step op e') pre f w t rest eq_refl).
      unfold held_from, open_from in *. simpl.
      destruct e'; simpl; try right; exact IH.
Qed.

Lemma open_from_in k l : forall op,
  ~ In (Recv k) l -> (In k op \/ In (Spawn k) l) -> In k (open_from op l).
Proof.
  induction l as [|e l IH]; intros op Hn H.
  - destruct H as [H | []]. exact H.
  - unfold open_from. simpl. fold (open_from (open_step op e) l).
    apply IH.
    + intro Hin. apply Hn. right. exact Hin.
    + destruct H as [H | [H | H]].
      * left. destruct e; simpl; auto.
        apply in_in_remove; [|exact H].
        intro Heq. subst c. apply Hn. left. reflexivity.
      * subst e. left. left. reflexivity.
      * right. exact H.
Qed.

Lemma no_acc_after_send_pos l : forall seen pre f w t rest,
  no_acc_after_send seen l = true -> l = pre ++ Acc f w t :: rest ->
  seen = false /\ forall c, ~ In (Send c) pre.
Proof.
  induction l as [|e l IH]; intros seen pre f w t rest H E.
  - destruct pre; discriminate E.
  - destruct pre as [|e' pre]; simpl in E; inversion E; subst.
    + simpl in H. apply andb_prop in H. destruct H as [H _].
      split; [destruct seen; [discriminate H | reflexivity] | intros c []].
    + destruct e'; simpl in H;
        try (destruct (IH _ _ _ _ _ _ H eq_refl) as [Hs Hn]; split; [exact Hs|];
             intros c0 [Hc | Hc]; [discriminate Hc | exact (Hn c0 Hc)]).
      * apply andb_prop in H. destruct H as [_ H].
        destruct (IH _ _ _ _ _ _ H eq_refl) as [Hs Hn]. split; [exact Hs|].
        intros c0 [Hc | Hc]; [discriminate Hc | exact (Hn c0 Hc)].
      * destruct (IH _ _ _ _ _ _ H eq_refl) as [Hs _]. discriminate Hs.
Qed.

Lemma bad_pairs_in sel A B a b :
  In a A -> In b B -> bad a b = true -> sel a b = true ->
  In (a_f a, a_site a, a_site b) (bad_pairs sel A B).
Proof.
  intros Ha Hb Hbad Hsel. unfold bad_pairs.
  apply in_flat_map. exists a. split; [exact Ha|].
  apply in_flat_map. exists b. split; [exact Hb|].
  rewrite Hbad, Hsel. left. reflexivity.
Qed.

(* ---- positions inside a concatenation of blocks ---- *)

Lemma blocks_app n a b : blocks n (a ++ b) = blocks n a ++ blocks (n + List.length a) b.
Proof.
  revert n. induction a as [|x a IH]; intro n; simpl.
  - rewrite Nat.add_0_r. reflexivity.
  - rewrite IH. rewrite <- app_assoc. rewrite Nat.add_succ_r. reflexivity.
Qed.

Lemma blocks_pos bs : forall n pre e rest,
  blocks n bs = pre ++ e :: rest ->
  exists bs1 b bs2 pre_b e0 rest_b,
    bs = bs1 ++ b :: bs2 /\ b = pre_b ++ e0 :: rest_b /\
    e = cv (n + List.length bs1) e0 /\
    pre = blocks n bs1 ++ map (cv (n + List.length bs1)) pre_b.
Proof.
  induction bs as [|b bs IH]; intros n pre e rest H.
  - simpl in H. destruct pre; discriminate H.
  - simpl in H. apply app_eq_app in H. destruct H as [l [[H1 H2] | [H1 H2]]].
    + destruct l as [|e' l].
      * simpl in H2. rewrite app_nil_r in H1.
        destruct (IH (S n) [] e rest (eq_sym H2))
          as (bs1 & b' & bs2 & pre_b & e0 & rest_b & E1 & E2 & E3 & E4).
        exists (b :: bs1), b', bs2, pre_b, e0, rest_b.
        simpl. rewrite Nat.add_succ_r. simpl in E3, E4.
        repeat split; [rewrite E1; reflexivity | exact E2 | exact E3 |].
        rewrite <- H1. rewrite <- app_assoc. rewrite <- E4. rewrite app_nil_r. reflexivity.
      * simpl in H2. inversion H2; subst e' rest.
        apply map_eq_app in H1. destruct H1 as (l1 & l2 & E1 & E2 & E3).
        apply map_eq_cons in E3. destruct E3 as (e0 & tl & E4 & E5 & E6).
        exists [], b, bs, l1, e0, tl. simpl. rewrite Nat.add_0_r.
        repeat split; [rewrite E1, E4; reflexivity | symmetry; exact E5 | symmetry; exact E2].
    + destruct (IH (S n) l e rest H2)
        as (bs1 & b' & bs2 & pre_b & e0 & rest_b & E1 & E2 & E3 & E4).
      exists (b :: bs1), b', bs2, pre_b, e0, rest_b.
      simpl. rewrite Nat.add_succ_r. simpl in E3, E4.
      repeat split; [rewrite E1; reflexivity | exact E2 | exact E3 |].
      rewrite H1, E4. rewrite <- app_assoc. reflexivity.
Qed.

Lemma blocks_held bs : forall n,
  (forall b, In b bs -> lock_ok false b = true) -> held_from false (blocks n bs) = false.
Proof.
  induction bs as [|b bs IH]; intros n H; [reflexivity|].
  cbn [blocks]. rewrite (@held_from_app iid chan), held_from_map_cv.
  rewrite (lock_ok_held false b (H b (or_introl eq_refl))).
  apply IH. intros b' Hb'. apply H. right. exact Hb'.
Qed.

Lemma in_map_cv_spawn n inv k l :
  In (Spawn (Child inv k)) (map (cv n) l) -> inv = n /\ In (Spawn k) l.
Proof.
  intro H. apply in_map_iff in H. destruct H as [e [E Hin]].
  destruct e; simpl in E; try discriminate E. inversion E; subst. split; [reflexivity | exact Hin].
Qed.

Lemma in_map_cv_recv n inv k l :
  In (Recv (inv, k)) (map (cv n) l) -> inv = n /\ In (Recv k) l.
Proof.
  intro H. apply in_map_iff in H. destruct H as [e [E Hin]].
  destruct e; simpl in E; try discriminate E. inversion E; subst. split; [reflexivity | exact Hin].
Qed.

Lemma in_map_cv_send n inv k l :
  In (Send (inv, k)) (map (cv n) l) -> inv = n /\ In (Send k) l.
Proof.
  intro H. apply in_map_iff in H. destruct H as [e [E Hin]].
  destruct e; simpl in E; try discriminate E. inversion E; subst. split; [reflexivity | exact Hin].
Qed.

Lemma blocks_in bs : forall n e,
  In e (blocks n bs) ->
  exists bs1 b bs2 e0, bs = bs1 ++ b :: bs2 /\ In e0 b /\ e = cv (n + List.length bs1) e0.
Proof.
  induction bs as [|b bs IH]; intros n e H; [destruct H|].
  simpl in H. apply in_app_or in H. destruct H as [H | H].
  - apply in_map_iff in H. destruct H as [e0 [E Hin]].
    exists [], b, bs, e0. simpl. rewrite Nat.add_0_r. auto.
  - destruct (IH (S n) e H) as (bs1 & b' & bs2 & e0 & E1 & E2 & E3).
    exists (b :: bs1), b', bs2, e0. simpl. rewrite Nat.add_succ_r.
    split; [rewrite E1; reflexivity | auto].
Qed.

Lemma blocks_in_intro n bs1 b bs2 e0 :
  In e0 b -> In (cv (n + List.length bs1) e0) (blocks n (bs1 ++ b :: bs2)).
Proof.
  intro H. rewrite blocks_app. apply in_or_app. right. simpl.
  apply in_or_app. left. apply in_map. exact H.
Qed.

(* ---- the family theorem ---- *)

Section Family.
  Variable tpl : template.
  Hypothesis Hwf : wf_b tpl = true.

  Lemma wf_handler h : handler_ok tpl (hbody tpl h) = true.
  Proof.
    unfold hbody. destruct (lookup_cases h (t_handlers tpl)) as [E | Hin].
    - rewrite E. reflexivity.
    - unfold wf_b in Hwf. apply andb_prop in Hwf. destruct Hwf as [H1 _].
      apply andb_prop in H1. destruct H1 as [H1 _].
      rewrite forallb_forall in H1. exact (H1 _ Hin).
  Qed.

  Lemma wf_closure k : closure_ok k (cbody tpl k) = true.
  Proof.
    unfold cbody. destruct (lookup_cases k (t_closures tpl)) as [E | Hin].
    - rewrite E. reflexivity.
    - unfold wf_b in Hwf. apply andb_prop in Hwf. destruct Hwf as [H1 _].
      apply andb_prop in H1. destruct H1 as [_ H1].
      rewrite forallb_forall in H1. exact (H1 _ Hin).
  Qed.

  Lemma wf_external x : external_ok (xbody tpl x) = true.
  Proof.
    unfold xbody. destruct (lookup_cases x (t_externals tpl)) as [E | Hin].
    - rewrite E. reflexivity.
    - unfold wf_b in Hwf. apply andb_prop in Hwf. destruct Hwf as [_ H1].
      rewrite forallb_forall in H1. exact (H1 _ Hin).
  Qed.

  Lemma handler_lock_ok hs b : In b (map (hbody tpl) hs) -> lock_ok false b = true.
  Proof.
    intro H. apply in_map_iff in H. destruct H as [h [<- _]].
    assert (W := wf_handler h). unfold handler_ok in W.
    apply andb_prop in W. tauto.
  Qed.

  Lemma external_lock_ok xs b : In b (map (xbody tpl) xs) -> lock_ok false b = true.
  Proof.
    intro H. apply in_map_iff in H. destruct H as [x [<- _]].
    assert (W := wf_external x). unfold external_ok in W.
    apply andb_prop in W. tauto.
  Qed.

  Lemma view_blocks_acc bs n pre f w t rest :
    (forall b, In b bs -> lock_ok false b = true) ->
    blocks n bs = pre ++ Acc f w t :: rest ->
    exists bs1 b bs2 pre_b rest_b,
      bs = bs1 ++ b :: bs2 /\ b = pre_b ++ Acc f w t :: rest_b /\
      pre = blocks n bs1 ++ map (cv (n + List.length bs1)) pre_b /\
      held pre = held pre_b.
  Proof.
    intros Hok H.
    destruct (blocks_pos bs n pre _ rest H)
      as (bs1 & b & bs2 & pre_b & e0 & rest_b & E1 & E2 & E3 & E4).
    assert (e0 = Acc f w t) as ->.
    { destruct e0; simpl in E3; try discriminate E3. inversion E3; reflexivity. }
    exists bs1, b, bs2, pre_b, rest_b. repeat split; try assumption.
    rewrite E4. unfold held. rewrite (@held_from_app iid chan).
    rewrite blocks_held.
    - apply held_from_map_cv.
    - intros b' Hb'. apply Hok. rewrite E1. apply in_or_app. left. exact Hb'.
  Qed.

  Variable hs : list string.
  Variable es : list (list string).
  Notation P := (inst tpl hs es).

  (* what the checker knows about an access of the loop task *)
  Lemma view_loop pre f w t rest :
    body P Loop = pre ++ Acc f w t :: rest ->
    exists a, In a (Hacc tpl) /\ a_f a = f /\ a_w a = w /\ a_site a = t /\
              a_held a = held pre /\
              forall inv k, scoped k (cbody tpl k) = true ->
                            In (Spawn (Child inv k)) pre ->
                            ~ In (Recv (inv, k)) pre ->
                            In k (a_open a).
  Proof.
    simpl. intro H.
    destruct (view_blocks_acc _ _ _ _ _ _ _ (handler_lock_ok hs) H)
      as (bs1 & b & bs2 & pre_b & rest_b & E1 & E2 & E3 & E4).
    exists (mkAcc f w t (held_from false pre_b) (open_from [] pre_b)). simpl.
    assert (Hb : In b (map (hbody tpl) hs)).
    { rewrite E1. apply in_or_app. right. left. reflexivity. }
    apply in_map_iff in Hb. destruct Hb as [h [Hh _]].
    repeat split; try reflexivity.
    - unfold Hacc. apply in_flat_map.
      unfold hbody in Hh.
      destruct (lookup_cases h (t_handlers tpl)) as [E | Hin].
      + rewrite E in Hh. subst b. destruct pre_b; discriminate Hh.
      + rewrite Hh in Hin. exists (h, b). split; [exact Hin|]. simpl.
        unfold accs. apply annot_pos with (rest := rest_b). exact E2.
    - symmetry. exact E4.
    - intros inv k Hsc Hsp Hnr. rewrite E3 in Hsp, Hnr.
      apply in_app_or in Hsp. destruct Hsp as [Hsp | Hsp].
      + (* spawned by an earlier, completed invocation: it has been joined *)
        exfalso.
        destruct (blocks_in _ _ _ Hsp) as (a1 & b' & a2 & e0 & F1 & F2 & F3).
        destruct e0; simpl in F3; try discriminate F3. inversion F3; subst inv i. clear F3.
        assert (Hb' : In b' (map (hbody tpl) hs)).
        { rewrite E1, F1. apply in_or_app. left. apply in_or_app. right. left. reflexivity. }
        apply in_map_iff in Hb'. destruct Hb' as [h' [Hh' _]].
        assert (W := wf_handler h'). rewrite Hh' in W. unfold handler_ok in W.
        apply andb_prop in W. destruct W as [_ W]. rewrite forallb_forall in W.
        specialize (W _ F2). simpl in W. rewrite Hsc in W. simpl in W.
        apply existsb_exists in W. destruct W as [e1 [G1 G2]].
        destruct e1; simpl in G2; try discriminate G2.
        apply String.eqb_eq in G2. subst c.
        apply Hnr. apply in_or_app. left. rewrite F1.
        exact (blocks_in_intro 0 a1 b' a2 (Recv k) G1).
      + apply in_map_cv_spawn in Hsp. destruct Hsp as [-> Hsp].
        apply open_from_in.
        * intro Hr. apply Hnr. apply in_or_app. right.
          apply (in_map (cv (0 + List.length bs1))) in Hr. exact Hr.
        * right. exact Hsp.
  Qed.

  Lemma view_ext n pre f w t rest :
    body P (Ext n) = pre ++ Acc f w t :: rest ->
    exists a, In a (Xacc tpl) /\ a_f a = f /\ a_w a = w /\ a_site a = t /\
              a_held a = held pre.
  Proof.
    simpl. intro H.
    destruct (view_blocks_acc _ _ _ _ _ _ _ (external_lock_ok (nth n es [])) H)
      as (bs1 & b & bs2 & pre_b & rest_b & E1 & E2 & E3 & E4).
    exists (mkAcc f w t (held_from false pre_b) (open_from [] pre_b)). simpl.
    assert (Hb : In b (map (xbody tpl) (nth n es []))).
    { rewrite E1. apply in_or_app. right. left. reflexivity. }
    apply in_map_iff in Hb. destruct Hb as [x [Hx _]].
    repeat split; try reflexivity.
    - unfold Xacc. apply in_flat_map.
      unfold xbody in Hx.
      destruct (lookup_cases x (t_externals tpl)) as [E | Hin].
      + rewrite E in Hx. subst b. destruct pre_b; discriminate Hx.
      + rewrite Hx in Hin. exists (x, b). split; [exact Hin|]. simpl.
        unfold accs. apply annot_pos with (rest := rest_b). exact E2.
    - symmetry. exact E4.
  Qed.

  Lemma view_child inv k pre f w t rest :
    body P (Child inv k) = pre ++ Acc f w t :: rest ->
    exists a, In a (accs (cbody tpl k)) /\ In (k, cbody tpl k) (t_closures tpl) /\
              a_f a = f /\ a_w a = w /\ a_site a = t /\ a_held a = held pre /\
              forall c, ~ In (Send c) pre.
  Proof.
    simpl. intro H.
    apply map_eq_app in H. destruct H as (l1 & l2 & E1 & E2 & E3).
    apply map_eq_cons in E3. destruct E3 as (e0 & tl & E4 & E5 & E6).
    assert (e0 = Acc f w t) as ->.
    { destruct e0; simpl in E5; try discriminate E5. inversion E5; reflexivity. }
    subst l2.
    exists (mkAcc f w t (held_from false l1) (open_from [] l1)). simpl.
    repeat split; try reflexivity.
    - unfold accs. apply annot_pos with (rest := tl). exact E1.
    - unfold cbody in *. destruct (lookup_cases k (t_closures tpl)) as [E | Hin].
      + rewrite E in E1. destruct l1; discriminate E1.
      + exact Hin.
    - rewrite <- E2. unfold held. symmetry. apply held_from_map_cv.
    - intros c Hc. rewrite <- E2 in Hc.
      apply in_map_iff in Hc. destruct Hc as [e [F1 F2]].
      destruct e; simpl in F1; try discriminate F1.
      assert (W := wf_closure k). unfold closure_ok in W.
      apply andb_prop in W. destruct W as [_ W].
      destruct (no_acc_after_send_pos _ _ _ _ _ _ _ W E1) as [_ Hn].
      exact (Hn _ F2).
  Qed.

  (* only the loop spawns; only the closure instance itself signals *)
  Lemma only_loop_spawns i' inv k :
    In (Spawn (Child inv k)) (body P i') -> i' = Loop.
  Proof.
    destruct i' as [|n|inv' k']; simpl; intro H; [reflexivity | exfalso | exfalso].
    - destruct (blocks_in _ _ _ H) as (a1 & b & a2 & e0 & F1 & F2 & F3).
      destruct e0; simpl in F3; try discriminate F3.
      assert (Hb : In b (map (xbody tpl) (nth n es []))).
      { rewrite F1. apply in_or_app. right. left. reflexivity. }
      apply in_map_iff in Hb. destruct Hb as [x [Hx _]].
      assert (W := wf_external x). rewrite Hx in W. unfold external_ok in W.
      apply andb_prop in W. destruct W as [_ W]. rewrite forallb_forall in W.
      specialize (W _ F2). discriminate W.
    - apply in_map_cv_spawn in H. destruct H as [_ H].
      assert (W := wf_closure k'). unfold closure_ok in W.
      apply andb_prop in W. destruct W as [W _].
      apply andb_prop in W. destruct W as [_ W]. rewrite forallb_forall in W.
      specialize (W _ H). discriminate W.
  Qed.

  Lemma only_child_sends i' inv k :
    In (Send (inv, k)) (body P i') -> i' = Child inv k.
  Proof.
    destruct i' as [|n|inv' k']; simpl; intro H; [exfalso | exfalso |].
    - destruct (blocks_in _ _ _ H) as (a1 & b & a2 & e0 & F1 & F2 & F3).
      destruct e0; simpl in F3; try discriminate F3.
      assert (Hb : In b (map (hbody tpl) hs)).
      { rewrite F1. apply in_or_app. right. left. reflexivity. }
      apply in_map_iff in Hb. destruct Hb as [h [Hh _]].
      assert (W := wf_handler h). rewrite Hh in W. unfold handler_ok in W.
      apply andb_prop in W. destruct W as [_ W]. rewrite forallb_forall in W.
      specialize (W _ F2). discriminate W.
    - destruct (blocks_in _ _ _ H) as (a1 & b & a2 & e0 & F1 & F2 & F3).
      destruct e0; simpl in F3; try discriminate F3.
      assert (Hb : In b (map (xbody tpl) (nth n es []))).
      { rewrite F1. apply in_or_app. right. left. reflexivity. }
      apply in_map_iff in Hb. destruct Hb as [x [Hx _]].
      assert (W := wf_external x). rewrite Hx in W. unfold external_ok in W.
      apply andb_prop in W. destruct W as [_ W]. rewrite forallb_forall in W.
      specialize (W _ F2). discriminate W.
    - apply in_map_cv_send in H. destruct H as [-> H].
      assert (W := wf_closure k'). unfold closure_ok in W.
      apply andb_prop in W. destruct W as [W _].
      apply andb_prop in W. destruct W as [_ W]. rewrite forallb_forall in W.
      specialize (W _ H). simpl in W. apply String.eqb_eq in W. subst k'. reflexivity.
  Qed.

  Lemma bad_of a b f w1 w2 :
    a_f a = f -> a_f b = f -> a_w a = w1 -> a_w b = w2 -> (w1 || w2) = true ->
    ~ (a_held a = true /\ a_held b = true) -> bad a b = true.
  Proof.
    intros Fa Fb Wa Wb Hw Hn. unfold bad.
    rewrite Fa, Fb, Wa, Wb, Hw, String.eqb_refl. simpl.
    destruct (a_held a), (a_held b); try reflexivity. exfalso. apply Hn. split; reflexivity.
  Qed.

  Definition ordered (i j : iid) : Prop :=
    match i, j with
    | Loop, Ext _ => True
    | Ext _, Ext _ => True
    | Child _ _, _ => True
    | _, _ => False
    end.

  Lemma listed_ordered i j pre_i pre_j f w1 t1 r1 w2 t2 r2 :
    ordered i j ->
    body P i = pre_i ++ Acc f w1 t1 :: r1 ->
    body P j = pre_j ++ Acc f w2 t2 :: r2 ->
    (w1 || w2) = true ->
    ~ (held pre_i = true /\ held pre_j = true) ->
    ~ spawn_excl P j pre_j i ->
    ~ recv_excl P j pre_j i pre_i ->
    In (f, t1, t2) (races_raw tpl).
  Proof.
    intros Hord Hi Hj Hw Hheld Hsp Hrc. unfold races_raw.
    destruct i as [|n|inv k]; destruct j as [|n'|inv' k']; simpl in Hord; try contradiction.
    - (* Loop, Ext *)
      destruct (view_loop _ _ _ _ _ Hi) as (a & Ia & Fa & Wa & Sa & Ha & _).
      destruct (view_ext _ _ _ _ _ _ Hj) as (b & Ib & Fb & Wb & Sb & Hb).
      apply in_or_app. left.
      rewrite <- Fa, <- Sa, <- Sb. apply bad_pairs_in; try assumption; [|reflexivity].
      apply bad_of with (f := f) (w1 := w1) (w2 := w2); try assumption. rewrite Ha, Hb. exact Hheld.
    - (* Ext, Ext *)
      destruct (view_ext _ _ _ _ _ _ Hi) as (a & Ia & Fa & Wa & Sa & Ha).
      destruct (view_ext _ _ _ _ _ _ Hj) as (b & Ib & Fb & Wb & Sb & Hb).
      apply in_or_app. right. apply in_or_app. left.
      rewrite <- Fa, <- Sa, <- Sb. apply bad_pairs_in; try assumption; [|reflexivity].
      apply bad_of with (f := f) (w1 := w1) (w2 := w2); try assumption. rewrite Ha, Hb. exact Hheld.
    - (* Child, Loop *)
      destruct (view_child _ _ _ _ _ _ _ Hi) as (a & Ia & Ik & Fa & Wa & Sa & Ha & Hns).
      destruct (view_loop _ _ _ _ _ Hj) as (b & Ib & Fb & Wb & Sb & Hb & Hopen).
      apply in_or_app. right. apply in_or_app. right.
      apply in_flat_map. exists (k, cbody tpl k). split; [exact Ik|]. simpl.
      apply in_or_app. right. apply in_or_app. right.
      rewrite <- Fa, <- Sa, <- Sb. apply bad_pairs_in; try assumption.
      + apply bad_of with (f := f) (w1 := w1) (w2 := w2); try assumption. rewrite Ha, Hb. exact Hheld.
      + unfold closure_sel. simpl. destruct (scoped k (cbody tpl k)) eqn:Hsc; [|reflexivity].
        unfold mem. apply existsb_exists. exists k. split; [|apply String.eqb_refl].
        apply (Hopen inv k Hsc).
        * destruct (in_dec cev_dec (Spawn (Child inv k)) pre_j) as [Hin | Hnin]; [exact Hin|].
          exfalso. apply Hsp. split; [reflexivity|]. split; [|exact Hnin].
          intros i' Hi'. exact (only_loop_spawns _ _ _ Hi').
        * intro Hin. apply Hrc. exists (inv, k). split; [exact Hin|]. split; [|apply Hns].
          intros i' Hi'. exact (only_child_sends _ _ _ Hi').
    - (* Child, Ext *)
      destruct (view_child _ _ _ _ _ _ _ Hi) as (a & Ia & Ik & Fa & Wa & Sa & Ha & _).
      destruct (view_ext _ _ _ _ _ _ Hj) as (b & Ib & Fb & Wb & Sb & Hb).
      apply in_or_app. right. apply in_or_app. right.
      apply in_flat_map. exists (k, cbody tpl k). split; [exact Ik|]. simpl.
      apply in_or_app. left.
      rewrite <- Fa, <- Sa, <- Sb. apply bad_pairs_in; try assumption; [|reflexivity].
      apply bad_of with (f := f) (w1 := w1) (w2 := w2); try assumption. rewrite Ha, Hb. exact Hheld.
    - (* Child, Child *)
      destruct (view_child _ _ _ _ _ _ _ Hi) as (a & Ia & Ik & Fa & Wa & Sa & Ha & _).
      destruct (view_child _ _ _ _ _ _ _ Hj) as (b & Ib & Ik' & Fb & Wb & Sb & Hb & _).
      apply in_or_app. right. apply in_or_app. right.
      apply in_flat_map. exists (k, cbody tpl k). split; [exact Ik|]. simpl.
      apply in_or_app. right. apply in_or_app. left.
      apply in_flat_map. exists (k', cbody tpl k'). split; [exact Ik'|]. simpl.
      rewrite <- Fa, <- Sa, <- Sb. apply bad_pairs_in; try assumption; [|reflexivity].
      apply bad_of with (f := f) (w1 := w1) (w2 := w2); try assumption. rewrite Ha, Hb. exact Hheld.
  Qed.

  Lemma ordered_total i j : i <> j -> ordered i j \/ ordered j i.
  Proof.
    destruct i, j; simpl; intro H; tauto.
  Qed.

  (* MAIN THEOREM of the family: every reachable data race, for every list
     of handler invocations, every set of external tasks and every schedule,
     is on a pair listed by the checker *)
  Theorem races_sound_sec sched i j f w1 t1 r1 w2 t2 r2 :
    let s := run iid_dec chan_dec P sched in
    i <> j -> started s i = true -> started s j = true ->
    pc s i = Acc f w1 t1 :: r1 -> pc s j = Acc f w2 t2 :: r2 ->
    (w1 || w2) = true ->
    In (f, t1, t2) (races tpl) \/ In (f, t2, t1) (races tpl).
  Proof.
    intros s Hne Hsi Hsj Hpi Hpj Hw. subst s.
    destruct (inv_pre (run_inv iid_dec chan_dec P sched) i) as [pre_i Hi].
    destruct (inv_pre (run_inv iid_dec chan_dec P sched) j) as [pre_j Hj].
    destruct (race_positions iid_dec chan_dec P sched i j pre_i pre_j Hne Hsi Hsj Hi Hj)
      as (N1 & N2 & N3 & N4 & N5).
    rewrite Hpi in Hi. rewrite Hpj in Hj. unfold races.
    destruct (ordered_total i j Hne) as [Ho | Ho].
    - left. apply nodup_In.
      apply (listed_ordered i j pre_i pre_j f w1 t1 r1 w2 t2 r2); assumption.
    - right. apply nodup_In.
      apply (listed_ordered j i pre_j pre_i f w2 t2 r2 w1 t1 r1); try assumption.
      + rewrite orb_comm. exact Hw.
      + tauto.
  Qed.
End Family.

Theorem races_sound tpl :
  wf_b tpl = true ->
  forall hs es sched i j f w1 t1 r1 w2 t2 r2,
    let s := run iid_dec chan_dec (inst tpl hs es) sched in
    i <> j -> started s i = true -> started s j = true ->
    pc s i = Acc f w1 t1 :: r1 -> pc s j = Acc f w2 t2 :: r2 ->
    (w1 || w2) = true ->
    In (f, t1, t2) (races tpl) \/ In (f, t2, t1) (races tpl).
Proof. intros Hwf hs es sched. apply races_sound_sec. exact Hwf. Qed.

Theorem race_free_b_sound tpl :
  race_free_b tpl = true ->
  forall hs es sched, no_race (run iid_dec chan_dec (inst tpl hs es) sched).
Proof.
  unfold race_free_b. intros H hs es sched.
  apply andb_prop in H. destruct H as [Hwf Hr].
  destruct (races tpl) as [|x l] eqn:E; [|discriminate Hr].
  intros (i & j & f & w1 & t1 & r1 & w2 & t2 & r2 & Hne & Hsi & Hsj & Hpi & Hpj & Hw).
  destruct (races_sound tpl Hwf hs es sched i j f w1 t1 r1 w2 t2 r2 Hne Hsi Hsj Hpi Hpj Hw)
    as [H | H]; rewrite E in H; destruct H.
Qed.

(* ------------------------------------------------------------------ *)
(* PART 3: from the translator's per-function table to a template      *)

(* table entries: the function's own events and its calls of other table
   functions, in source order *)
Inductive tcall := Ev (e : tev) | Call (fn : string).
Definition table := list (string * list tcall).

Fixpoint tlookup (k : string) (t : table) : option (list tcall) :=
  match t with
  | [] => None
  | (k', b) :: r => if String.eqb k k' then Some b else tlookup k r
  end.

(* transitive inlining of calls; None = unknown callee or call depth > fuel *)
Fixpoint inline (fuel : nat) (t : table) (l : list tcall) {struct fuel} : option (list tev) :=
  match fuel with
  | 0 => None
  | S fuel' =>
      (fix go (l : list tcall) : option (list tev) :=
         match l with
         | [] => Some []
         | Ev e :: r => option_map (cons e) (go r)
         | Call f :: r =>
             match tlookup f t with
             | None => None
             | Some b =>
                 match inline fuel' t b, go r with
                 | Some x, Some y => Some (x ++ y)
                 | _, _ => None
                 end
             end
         end) l
  end.

(* a dispatcher contributes only its own events: what it calls are handlers
   of their own *)
Definition own (l : list tcall) : list tev :=
  flat_map (fun x => match x with Ev e => [e] | Call _ => [] end) l.

Fixpoint map_opt {A B} (f : A -> option B) (l : list A) : option (list B) :=
  match l with
  | [] => Some []
  | a :: r => match f a, map_opt f r with
              | Some b, Some bs => Some (b :: bs)
              | _, _ => None
              end
  end.

Definition inline_depth : nat := 24.

Definition entry (t : table) (n : string) : option (string * list tev) :=
  match tlookup n t with
  | None => None
  | Some b => option_map (fun l => (n, l)) (inline inline_depth t b)
  end.

Definition own_entry (t : table) (n : string) : option (string * list tev) :=
  option_map (fun b => (n, own b)) (tlookup n t).

(* a template that no checker accepts: used when the table is inconsistent *)
Definition bad_template : template := mkT [("?"%string, [Rel])] [] [].

Definition build (t : table) (dispatchers handlers closures externals : list string) : template :=
  match map_opt (own_entry t) dispatchers, map_opt (entry t) handlers,
        map_opt (entry t) closures, map_opt (entry t) externals with
  | Some d, Some h, Some c, Some x => mkT (d ++ h) c x
  | _, _, _, _ => bad_template
  end.

Lemma bad_template_rejected : wf_b bad_template = false.
Proof. reflexivity. Qed.

(* remove the accesses (field, site) listed in [l] *)
Definition prune_body (l : list (string * string)) (b : list tev) : list tev :=
  filter (fun e => match e with
                   | Acc f _ s => negb (existsb (fun p => String.eqb f (fst p) && String.eqb s (snd p)) l)
                   | _ => true
                   end) b.

Definition prune (l : list (string * string)) (tpl : template) : template :=
  let pr := map (fun nb => (fst nb, prune_body l (snd nb))) in
  mkT (pr (t_handlers tpl)) (pr (t_closures tpl)) (pr (t_externals tpl)).

Definition triple_eqb (a b : triple) : bool :=
  match a, b with
  | (f1, s1, t1), (f2, s2, t2) => String.eqb f1 f2 && String.eqb s1 s2 && String.eqb t1 t2
  end.

Definition incl_b (a b : list triple) : bool :=
  forallb (fun x => existsb (triple_eqb x) b) a.

Definition same_set_b (a b : list triple) : bool := incl_b a b && incl_b b a.

Lemma triple_eqb_eq a b : triple_eqb a b = true -> a = b.
Proof.
  destruct a as [[f1 s1] t1], b as [[f2 s2] t2]. simpl. intro H.
  apply andb_prop in H. destruct H as [H H3]. apply andb_prop in H. destruct H as [H1 H2].
  apply String.eqb_eq in H1, H2, H3. subst. reflexivity.
Qed.

Lemma incl_b_incl a b x : incl_b a b = true -> In x a -> In x b.
Proof.
  unfold incl_b. rewrite forallb_forall. intros H Hin.
  specialize (H x Hin). apply existsb_exists in H. destruct H as [y [Hy E]].
  apply triple_eqb_eq in E. subst y. exact Hy.
Qed.

(* ------------------------------------------------------------------ *)
(* non-vacuity: the semantics does exhibit races, the checker finds them,
   and a disciplined template passes *)

Module Examples.
  Local Open Scope string_scope.

  (* a handler writes x without the lock; an external entry reads x *)
  Definition racy : template :=
    mkT [("h", [Acc "x" true "h"])] [] [("e", [Acq; Acc "x" false "e"; Rel])].

  Example racy_found : races racy = [("x", "h", "e")].
  Proof. reflexivity. Qed.

  Example racy_reachable :
    race (run iid_dec chan_dec (inst racy ["h"] [["e"]]) [Ext 0]).
  Proof.
    exists Loop, (Ext 0), "x", true, "h", [], false, "e", [Rel].
    repeat split; try reflexivity. discriminate.
  Qed.

  (* loop + detached closure + scoped closure + external, all disciplined:
     the detached closure only touches y under the lock; the scoped closure
     reads z unlocked, which is fine because the handler writes z only
     before the spawn and after the join *)
  Definition good : template :=
    mkT [("h1", [Acq; Acc "y" true "h1"; Rel; Spawn "d"]);
         ("h2", [Acc "z" true "h2"; Spawn "s"; Acc "w" true "h2"; Recv "s"; Acc "z" true "h2"])]
        [("d", [Acq; Acc "y" true "d"; Rel]);
         ("s", [Acc "z" false "s"; Send "s"])]
        [("e", [Acq; Acc "y" false "e"; Rel])].

  Example good_ok : race_free_b good = true.
  Proof. reflexivity. Qed.

  (* moving the handler's write of z in front of the join is detected *)
  Definition bad_join : template :=
    mkT [("h2", [Spawn "s"; Acc "z" true "h2"; Recv "s"])]
        [("s", [Acc "z" false "s"; Send "s"])] [].

  Example bad_join_found : races bad_join = [("z", "s", "h2")].
  Proof. reflexivity. Qed.

  Example bad_join_reachable :
    race (run iid_dec chan_dec (inst bad_join ["h2"] []) [Loop]).
  Proof.
    exists Loop, (Child 0 "s"), "z", true, "h2", [Recv (0, "s")], false, "s", [Send (0, "s")].
    repeat split; try reflexivity. discriminate.
  Qed.

  (* non-vacuity of the generic theorem: two tasks that write / read x
     inside lock regions form a disciplined program *)
  Definition two_lockers : @program bool unit :=
    mkProg (fun b : bool => if b then [Acq; Acc "x" true "a"; Rel]
                            else [Acq; Acc "x" false "b"; Rel])
           (fun _ => true).

  Lemma two_lockers_pos (l pre : list (event bool unit)) f w t r a :
    l = [Acq; a; Rel] -> l = (pre ++ Acc f w t :: r)%list -> pre = [Acq].
  Proof.
    intros -> H.
    destruct pre as [|e1 [|e2 [|e3 pre]]]; simpl in H; inversion H; subst; try reflexivity.
    destruct pre; discriminate.
  Qed.

  Example two_lockers_disciplined : disciplined two_lockers.
  Proof.
    intros i j pre_i pre_j f w1 t1 r1 w2 t2 r2 Hne Hi Hj Hw. left.
    assert (pre_i = [Acq]) as ->.
    { destruct i; simpl in Hi; eapply two_lockers_pos; eauto. }
    assert (pre_j = [Acq]) as ->.
    { destruct j; simpl in Hj; eapply two_lockers_pos; eauto. }
    split; reflexivity.
  Qed.

  Example two_lockers_no_race sched :
    no_race (run Bool.bool_dec (fun a b : unit => left (match a, b with tt, tt => eq_refl end))
                 two_lockers sched).
  Proof. apply lockset_hb_sound. exact two_lockers_disciplined. Qed.
End Examples.
