(* dispatcher of the correspondence checks *)
From Smtp Require Import Bytes Sx CheckBase CheckDr CheckConv CheckReply CheckLmtpConv CheckLife CheckTrip CheckCli CheckC11 CheckTmo CheckWtmo.

(* ---- dispatcher ---- *)

Definition check_sx (x : sx) : verdict :=
  match x with
  | SL (k :: args) =>
      if sx_is "dr" k then check_dr args
      else if sx_is "conv" k then with_lmtp_viol args (check_conv args)
      else if sx_is "reply" k then check_reply args
      else if sx_is "life" k then check_life args
      else if sx_is "trip" k then check_trip args
      else if sx_is "sm" k then check_sm args
      else if sx_is "tmo" k then check_tmo args
      else if sx_is "wtmo" k then check_wtmo args
      else if sx_is "cli" k then check_cli args
      else if sx_is "c11" k then check_c11 args
      else bad_case
  | _ => bad_case
  end.

Definition check_line (l : bytes) : verdict :=
  match parse_sx l with
  | Some x => check_sx x
  | None => bad_case
  end.

(* one output line per case: "ok|BAD agree|DIFF viol=.. kf=.. tags=.. model=.." *)
Definition show_verdict (v : verdict) : bytes :=
  (if v_ok v then bs "ok" else bs "BAD") ++ bs " " ++
  (if v_agree v then bs "agree" else bs "DIFF") ++ bs " viol=" ++
  join (bs ",") (v_viol v) ++ bs " kf=" ++ join (bs ",") (v_kf v) ++
  bs " tags=" ++ join (bs ",") (v_tags v) ++
  (if v_agree v then [] else bs " model=" ++ show_sx (v_model v)).

Definition run_line (l : bytes) : bytes := show_verdict (check_line l).
